(* C16 -- proofs about the block ring of ThreadedBufferedStream (RingDefs.v), for every number of
   blocks K >= 2, block size B >= 1, list of write() calls and schedule. *)
From PP Require Import Queues.RingDefs.
From Coq Require Import Lia.

Lemma mod_neq K n m : 1 <= K -> n < m -> m - n < K -> n mod K <> m mod K.
Proof.
  intros HK Hlt Hd E.
  pose proof (Nat.div_mod n K ltac:(lia)) as Hn. pose proof (Nat.div_mod m K ltac:(lia)) as Hm.
  rewrite E in Hn.
  assert (Hq : K * (m / K) = K * (n / K) + (m - n)) by lia.
  destruct (Nat.lt_trichotomy (m / K) (n / K)) as [H|[H|H]]; nia.
Qed.

Lemma next_mod K x : 1 <= K -> r_next K (x mod K) = (S x) mod K.
Proof.
  intros HK. unfold r_next.
  pose proof (Nat.mod_upper_bound x K ltac:(lia)) as Hx.
  pose proof (Nat.div_mod x K ltac:(lia)) as Hd.
  destruct (Nat.eqb (S (x mod K)) K) eqn:E.
  - apply Nat.eqb_eq in E. apply Nat.mod_unique with (q := S (x / K)); lia.
  - apply Nat.eqb_neq in E. apply Nat.mod_unique with (q := x / K); lia.
Qed.

Section RingProofs.
  Variables K B : nat.
  Hypothesis HK : 2 <= K.
  Hypothesis HB : 1 <= B.
  Variable prog0 : list rop.

  Definition rinit := ring_init 0 K B prog0.

  Definition Wp (s : rstate) : nat :=
    match r_ppc s with
    | RPCtorWait => 0
    | RPSpillPost _ | RPSpillWait _ | RPPoisonPost | RPPoisonWait => r_pa s
    | _ => S (r_pa s)
    end.
  Definition Pp (s : rstate) : nat :=
    match r_ppc s with RPSpillPost _ | RPPoisonPost => r_pa s - 1 | _ => r_pa s end.
  Definition Tp (s : rstate) : nat := match r_ppc s with RPDone => 1 | _ => 0 end.
  Definition Wc (s : rstate) : nat :=
    match r_cpc s with RCNotStarted | RCBegin | RCWait | RCPostTrash => r_ca s | _ => S (r_ca s) end.
  Definition Pc (s : rstate) : nat := match r_cpc s with RCPostTrash => r_ca s - 1 | _ => r_ca s end.
  Definition Oc (s : rstate) : nat := match r_cpc s with RCFlush | RCEnd | RCDone => 1 | _ => 0 end.

  Definition poison_posted (s : rstate) : bool :=
    match r_ppc s with RPPoisonWait | RPJoin | RPLeasePost | RPDone => true | _ => false end.
  Definition cexiting (s : rstate) : bool :=
    match r_cpc s with RCExitPost | RCFlush | RCEnd | RCDone => true | _ => false end.
  Definition padvanced (s : rstate) : bool :=
    match r_ppc s with RPSpillPost _ | RPPoisonPost => true | _ => false end.

  (* which side currently owns a block (between acquiring it and handing it over) *)
  Definition owner_holds (s : rstate) : bool :=
    match r_ppc s with RPSpawn | RPFill | RPRest => true | _ => false end.
  Definition writer_holds (s : rstate) : bool :=
    match r_cpc s with RCWrite | RCExitPost => true | _ => false end.

  Record RInv (s : rstate) : Prop := {
    ri_out : r_out s + Wc s = Pp s + Oc s;
    ri_trash : r_trash s + Wp s = K + Pc s + Tp s;
    ri_pi : r_pi s = r_pa s mod K;
    ri_ci : r_ci s = r_ca s mod K;
    ri_a0 : r_ppc s = RPCtorWait -> r_pa s = 0;
    ri_a1 : padvanced s = true -> 1 <= r_pa s;
    ri_b1 : r_cpc s = RCPostTrash -> 1 <= r_ca s;
    ri_started : r_cpc s = RCNotStarted <-> (r_ppc s = RPCtorWait \/ r_ppc s = RPSpawn);
    ri_b0 : (r_cpc s = RCNotStarted \/ r_cpc s = RCBegin) -> r_ca s = 0;
    ri_win : forall n, Pc s <= n < Pp s ->
             (r_size s (n mod K) = 0 <-> (poison_posted s = true /\ n = r_pa s - 1));
    ri_exit : cexiting s = true -> poison_posted s = true /\ S (r_ca s) = r_pa s;
    ri_pb : poison_posted s = true -> S (r_ca s) <= r_pa s;
    ri_wr : r_cpc s = RCWrite -> r_size s (r_ci s) <> 0;
    ri_done : (r_ppc s = RPLeasePost \/ r_ppc s = RPDone) -> r_cpc s = RCDone;
    ri_fill : (exists d, r_ppc s = RPSpillPost d) -> r_size s ((r_pa s - 1) mod K) <> 0;
    ri_pois : r_ppc s = RPPoisonPost -> r_size s ((r_pa s - 1) mod K) = 0;
    ri_curpos : (exists d, r_ppc s = RPSpillPost d) \/ r_ppc s = RPFill \/ r_ppc s = RPRest \/ r_ppc s = RPSpawn -> True;
  }.

  Ltac rfin :=
    first [ lia | discriminate | reflexivity | tauto
          | (rewrite Nat.mod_0_l by lia; reflexivity)
          | (intros; lia)
          | (intros; discriminate)
          | (intros [?|?]; discriminate)
          | (intros [?|[?|[?|?]]]; discriminate)
          | (intros [? ?]; discriminate)
          | (intros [[? ?]|?]; discriminate)
          | (split; intros; try discriminate; try lia; tauto)
          | (split; [intros; discriminate | intros [?|?]; discriminate])
          | (split; [intros; discriminate | intros [? ?]; discriminate])
          | (match goal with |- context [r_cpc ?s] => destruct (r_cpc s) end; simpl in *; first [lia | discriminate | tauto])
          | (match goal with |- context [r_ppc ?s] => destruct (r_ppc s) end; simpl in *; first [lia | discriminate | tauto]) ].

  Lemma rinv_init : RInv rinit.
  Proof.
    unfold rinit, ring_init.
    constructor; simpl; unfold Wc, Pp, Oc, Wp, Pc, Tp, poison_posted, cexiting, padvanced; simpl; try rfin.
    all: idtac.
  Qed.

  Ltac runf := unfold Wc, Pp, Oc, Wp, Pc, Tp, poison_posted, cexiting, padvanced, r_set_p, r_set_c, r_set_sem in *; simpl in *.

  (* window facts survive a size update of the owner's own block (it lies outside the window) *)
  Lemma win_upd (size : nat -> nat) (a lo hi v : nat) (P : nat -> Prop) :
    hi <= a -> a - lo < K ->
    (forall n, lo <= n < hi -> (size (n mod K) = 0 <-> P n)) ->
    forall n, lo <= n < hi -> (upd size (a mod K) v (n mod K) = 0 <-> P n).
  Proof.
    intros H1 H2 Hw n Hn. rewrite upd_other; [apply Hw; exact Hn|].
    apply mod_neq; lia.
  Qed.

  Lemma win_upd' (size : nat -> nat) (a v n lo : nat) :
    lo <= n < a -> a - lo < K -> upd size (a mod K) v (n mod K) = size (n mod K).
  Proof. intros H1 H2. apply upd_other. apply mod_neq; lia. Qed.

  Ltac t_win Jpi Jwin :=
    let n := fresh "n" in let Hn := fresh "Hn" in
    intros n Hn; rewrite ?Nat.sub_0_r in *; rewrite ?Jpi;
    rewrite ?upd_other by (apply mod_neq; lia);
    rewrite (Jwin n) by lia; intuition (try congruence; try lia).
  Ltac t_wr Jpi Jci Jwr :=
    let E := fresh "E" in
    intros E; rewrite E in *; simpl in *; rewrite ?Jpi, ?Jci;
    rewrite ?upd_other by (apply mod_neq; lia); rewrite <- ?Jci; apply Jwr; reflexivity.
  Ltac t_same Jpi := intros _; rewrite ?Nat.sub_0_r, ?Jpi, upd_same; try assumption; try lia.

  Ltac t_rest Jpi Jci Jwin Jwr Jst Ecp :=
    first [ (split; [let E := fresh "E" in intros E; first [contradiction | congruence | (apply Jst in E; destruct E; discriminate)]
                    | let E := fresh "E" in intros [E|E]; discriminate])
          | t_win Jpi Jwin | t_wr Jpi Jci Jwr | t_same Jpi ].

  Lemma rinv_owner s s' : RInv s -> ring_step_owner K B s = Some s' -> RInv s'.
  Proof.
    intros J H. unfold ring_step_owner in H.
    pose proof (next_mod K (r_pa s) ltac:(lia)) as Hnext.
    destruct J as [Jout Jtrash Jpi Jci Ja0 Ja1 Jb1 Jst Jb0 Jwin Jexit Jpb Jwr Jdone Jfill Jpois Jcur].
    destruct (r_ppc s) eqn:Epc.
    - (* RPCtorWait *)
      destruct (r_trash s) as [|t] eqn:Et; [discriminate|]. inversion H; subst s'; clear H.
      pose proof (Ja0 eq_refl) as Ha0.
      constructor; runf; rewrite ?Epc in *; try rfin.
    - (* RPSpawn *)
      assert (Ecp : r_cpc s = RCNotStarted) by (apply Jst; right; reflexivity).
      pose proof (Jb0 (or_introl Ecp)) as Hb0.
      inversion H; subst s'; clear H. unfold r_next_write, r_dtor. simpl.
      destruct (r_prog s) as [|w rest] eqn:Eprog.
      + destruct (Nat.eqb (r_cur s) 0) eqn:Ecur.
        * constructor; runf; rewrite ?Epc, ?Ecp in *; try rfin; try (rewrite Jpi; exact Hnext).
          -- intros n Hn. rewrite Nat.sub_0_r in *. rewrite Jpi, (win_upd' _ _ _ _ (r_ca s)) by lia.
             rewrite (Jwin n) by lia. intuition (try congruence; try lia).
          -- intros _. rewrite Nat.sub_0_r, Jpi. apply upd_same.
        * apply Nat.eqb_neq in Ecur.
          constructor; runf; rewrite ?Epc, ?Ecp in *; try rfin; try (rewrite Jpi; exact Hnext).
          -- intros n Hn. rewrite Nat.sub_0_r in *. rewrite Jpi, (win_upd' _ _ _ _ (r_ca s)) by lia.
             rewrite (Jwin n) by lia. intuition (try congruence; try lia).
          -- intros _. rewrite Nat.sub_0_r, Jpi, upd_same. exact Ecur.
      + (* first call *)
        destruct w as [w|amount w].
        * unfold r_loop_test. destruct (Nat.ltb B (r_cur s + length w));
            constructor; runf; rewrite ?Epc, ?Ecp in *; try rfin.
        * destruct (Nat.ltb B (r_cur s + amount) && negb (Nat.eqb (r_cur s) 0)) eqn:Esp.
          -- apply andb_true_iff in Esp. destruct Esp as [_ Ecur]. apply negb_true_iff, Nat.eqb_neq in Ecur.
             constructor; runf; rewrite ?Epc, ?Ecp in *; try rfin; try (rewrite Jpi; exact Hnext).
             ++ intros n Hn. rewrite Nat.sub_0_r in *. rewrite Jpi, (win_upd' _ _ _ _ (r_ca s)) by lia.
                rewrite (Jwin n) by lia. intuition (try congruence; try lia).
             ++ intros _. rewrite Nat.sub_0_r, Jpi, upd_same. exact Ecur.
          -- constructor; runf; rewrite ?Epc, ?Ecp in *; try rfin.
    - (* RPFill *)
      destruct (Nat.eqb B 0) eqn:EB0; [apply Nat.eqb_eq in EB0; lia|]. inversion H; subst s'; clear H.
      assert (Ecp : r_cpc s <> RCNotStarted) by (intros E; apply Jst in E; destruct E; discriminate).
      constructor; runf; rewrite ?Epc in *; try rfin; try (rewrite Jpi; exact Hnext).
      + split; [intros E; contradiction|intros [E|E]; discriminate].
      + t_win Jpi Jwin.
      + t_wr Jpi Jci Jwr.
      + t_same Jpi.
    - (* RPRest *)
      assert (Ecp : r_cpc s <> RCNotStarted) by (intros E; apply Jst in E; destruct E; discriminate).
      inversion H; subst s'; clear H. unfold r_next_write, r_dtor. simpl.
      destruct (r_prog s) as [|w rest] eqn:Eprog.
      + destruct (Nat.eqb (r_cur s + length (r_pend s)) 0) eqn:Ecur; [|apply Nat.eqb_neq in Ecur];
          constructor; runf; rewrite ?Epc in *; try rfin; try (rewrite Jpi; exact Hnext); try t_rest Jpi Jci Jwin Jwr Jst Ecp.
      + destruct w as [w|amount w].
        * unfold r_loop_test. destruct (Nat.ltb B (r_cur s + length (r_pend s) + length w));
            constructor; runf; rewrite ?Epc in *; try rfin; try t_rest Jpi Jci Jwin Jwr Jst Ecp.
        * destruct (Nat.ltb B (r_cur s + length (r_pend s) + amount) && negb (Nat.eqb (r_cur s + length (r_pend s)) 0)) eqn:Esp.
          -- apply andb_true_iff in Esp. destruct Esp as [_ Ecur]. apply negb_true_iff, Nat.eqb_neq in Ecur.
             constructor; runf; rewrite ?Epc in *; try rfin; try (rewrite Jpi; exact Hnext); try t_rest Jpi Jci Jwin Jwr Jst Ecp.
          -- constructor; runf; rewrite ?Epc in *; try rfin; try t_rest Jpi Jci Jwin Jwr Jst Ecp.
    - (* RPSpillPost *)
      assert (Ecp : r_cpc s <> RCNotStarted) by (intros E; apply Jst in E; destruct E; discriminate).
      inversion H; subst s'; clear H. runf. rewrite ?Epc in *.
      pose proof (Ja1 eq_refl) as Ha1. pose proof (Jfill (ex_intro _ dtor eq_refl)) as Hfill.
      constructor; runf; rewrite ?Epc in *; try rfin; try t_rest Jpi Jci Jwin Jwr Jst Ecp.
      intros n Hn. destruct (Nat.eq_dec n (r_pa s - 1)) as [->|Hne].
      + split; [intros E0; contradiction|intros [E0 _]; discriminate].
      + rewrite (Jwin n) by lia. intuition (try congruence; try lia).
    - (* RPSpillWait *)
      assert (Ecp : r_cpc s <> RCNotStarted) by (intros E; apply Jst in E; destruct E; discriminate).
      destruct (r_trash s) as [|t] eqn:Et; [discriminate|].
      destruct dtor; inversion H; subst s'; clear H; runf; rewrite ?Epc in *.
      + constructor; runf; rewrite ?Epc in *; try rfin; try (rewrite Jpi; exact Hnext); try t_rest Jpi Jci Jwin Jwr Jst Ecp.
      + unfold r_loop_test. destruct (Nat.ltb B (0 + length (r_pend s)));
          constructor; runf; rewrite ?Epc in *; try rfin; try t_rest Jpi Jci Jwin Jwr Jst Ecp.
    - (* RPPoisonPost *)
      assert (Ecp : r_cpc s <> RCNotStarted) by (intros E; apply Jst in E; destruct E; discriminate).
      inversion H; subst s'; clear H. runf. rewrite ?Epc in *.
      pose proof (Ja1 eq_refl) as Ha1. pose proof (Jpois eq_refl) as Hpois.
      assert (Hnx : match r_cpc s with RCExitPost | RCFlush | RCEnd | RCDone => False | _ => True end).
      { destruct (r_cpc s); auto; destruct (Jexit eq_refl); discriminate. }
      constructor; runf; rewrite ?Epc in *; try rfin; try t_rest Jpi Jci Jwin Jwr Jst Ecp.
      + intros n Hn. destruct (Nat.eq_dec n (r_pa s - 1)) as [->|Hne].
        * split; [intros _; split; reflexivity|intros _; exact Hpois].
        * assert (Hw : r_size s (n mod K) = 0 <-> false = true /\ n = r_pa s - 1) by (apply Jwin; lia).
          split; [intros E0; apply Hw in E0; destruct E0; discriminate|intros [_ E0]; contradiction].
      + intros _. destruct (r_cpc s); simpl in *; try contradiction; lia.
    - (* RPPoisonWait *)
      destruct (r_trash s) as [|t] eqn:Et; [discriminate|]. inversion H; subst s'; clear H.
      assert (Ecp : r_cpc s <> RCNotStarted) by (intros E; apply Jst in E; destruct E; discriminate).
      constructor; runf; rewrite ?Epc in *; try rfin; try t_rest Jpi Jci Jwin Jwr Jst Ecp.
    - (* RPJoin *)
      destruct (r_cpc s) eqn:Ecpc; try discriminate. inversion H; subst s'; clear H.
      constructor; runf; rewrite ?Epc, ?Ecpc in *; try rfin.
    - (* RPLeasePost *)
      inversion H; subst s'; clear H.
      assert (Ecp : r_cpc s <> RCNotStarted) by (intros E; apply Jst in E; destruct E; discriminate).
      constructor; runf; rewrite ?Epc in *; try rfin; try t_rest Jpi Jci Jwin Jwr Jst Ecp.
    - discriminate.
  Qed.


  Ltac t_w Jst Jdone :=
    first [ (split; [discriminate | let Hp := fresh "Hp" in intros Hp; apply Jst in Hp; discriminate])
          | (let Hp := fresh "Hp" in intros Hp; apply Jdone in Hp; first [discriminate | exact Hp]) ].

  Lemma rinv_writer s s' : RInv s -> ring_step_writer K s = Some s' -> RInv s'.
  Proof.
    intros J H. unfold ring_step_writer in H.
    pose proof (next_mod K (r_ca s) ltac:(lia)) as Hnext.
    destruct J as [Jout Jtrash Jpi Jci Ja0 Ja1 Jb1 Jst Jb0 Jwin Jexit Jpb Jwr Jdone Jfill Jpois Jcur].
    destruct (r_cpc s) eqn:Ecpc; try discriminate.
    - (* RCBegin *)
      inversion H; subst s'; clear H.
      constructor; runf; rewrite ?Ecpc in *; try rfin; try t_w Jst Jdone.
    - (* RCWait *)
      destruct (r_out s) as [|o] eqn:Eo; [discriminate|]. inversion H; subst s'; clear H.
      runf. rewrite ?Ecpc in *.
      assert (Hwin : r_size s (r_ci s) = 0 <-> poison_posted s = true /\ r_ca s = r_pa s - 1).
      { rewrite Jci. apply Jwin. destruct (r_ppc s); simpl in *; lia. }
      destruct (Nat.eqb (r_size s (r_ci s)) 0) eqn:Esz.
      + apply Nat.eqb_eq in Esz. apply Hwin in Esz. destruct Esz as [Hpp Hba].
        pose proof (Jpb Hpp) as Hle.
        constructor; runf; rewrite ?Ecpc in *; try rfin; try t_w Jst Jdone.
      + apply Nat.eqb_neq in Esz.
        constructor; runf; rewrite ?Ecpc in *; try rfin; try t_w Jst Jdone.
    - (* RCWrite *)
      inversion H; subst s'; clear H. runf. rewrite ?Ecpc in *.
      pose proof (Jwr eq_refl) as Hsz.
      assert (Hwin : r_size s (r_ci s) = 0 <-> poison_posted s = true /\ r_ca s = r_pa s - 1).
      { rewrite Jci. apply Jwin. destruct (r_ppc s); simpl in *; lia. }
      constructor; runf; rewrite ?Ecpc in *; try rfin; try t_w Jst Jdone; try (rewrite Jci; exact Hnext).
      intros n Hn. apply Jwin. lia.
    - (* RCPostTrash *)
      inversion H; subst s'; clear H. runf. rewrite ?Ecpc in *.
      pose proof (Jb1 eq_refl) as Hb1.
      constructor; runf; rewrite ?Ecpc in *; try rfin; try t_w Jst Jdone.
      all: try (intros n Hn; apply Jwin; lia).
    - (* RCExitPost *)
      inversion H; subst s'; clear H. runf. rewrite ?Ecpc in *.
      constructor; runf; rewrite ?Ecpc in *; try rfin; try t_w Jst Jdone.
    - (* RCFlush *)
      inversion H; subst s'; clear H. runf. rewrite ?Ecpc in *.
      constructor; runf; rewrite ?Ecpc in *; try rfin; try t_w Jst Jdone.
    - (* RCEnd *)
      inversion H; subst s'; clear H. runf. rewrite ?Ecpc in *.
      constructor; runf; rewrite ?Ecpc in *; try rfin; try t_w Jst Jdone.
  Qed.

  Lemma rinv_step s tid s' : RInv s -> ring_step K B s tid = Some s' -> RInv s'.
  Proof.
    intros J H. destruct tid as [|[|tid]]; simpl in H; [eapply rinv_owner|eapply rinv_writer|discriminate]; eauto.
  Qed.

  Lemma rinv_reachable s : reachable (ring_step K B) rinit s -> RInv s.
  Proof.
    apply invariant_reachable; [exact rinv_init|]. intros s0 l s1. apply rinv_step.
  Qed.


  (* ---- consequences ---- *)

  (* block exclusivity: while the owner holds a block for filling and the writer thread holds one for
     writing, they are different blocks; and a side that is about to acquire (semaphore available) gets a
     block different from the one the other side holds *)
  Lemma ring_exclusive_proof s : reachable (ring_step K B) rinit s ->
    (owner_holds s = true -> writer_holds s = true -> r_pi s <> r_ci s) /\
    (writer_holds s = true -> 1 <= r_trash s ->
       (match r_ppc s with RPSpillWait _ | RPPoisonWait => True | _ => False end) -> r_pi s <> r_ci s) /\
    (owner_holds s = true -> 1 <= r_out s -> r_cpc s = RCWait -> r_ci s <> r_pi s).
  Proof.
    intros Hr. pose proof (rinv_reachable s Hr) as J.
    destruct J as [Jout Jtrash Jpi Jci Ja0 Ja1 Jb1 Jst Jb0 Jwin Jexit Jpb Jwr Jdone Jfill Jpois Jcur].
    unfold owner_holds, writer_holds. runf. rewrite Jpi, Jci.
    split; [|split].
    - intros Ho Hw. apply not_eq_sym. apply mod_neq; [lia| |];
        destruct (r_ppc s); try discriminate; destruct (r_cpc s); try discriminate; simpl in *; lia.
    - intros Hw Ht Hp. apply not_eq_sym. apply mod_neq; [lia| |];
        destruct (r_ppc s); try contradiction; destruct (r_cpc s); try discriminate; simpl in *; lia.
    - intros Ho Hout Hc. rewrite Hc in *. apply mod_neq; [lia| |];
        destruct (r_ppc s); try discriminate; simpl in *; lia.
  Qed.

  (* no deadlock: when neither thread can move, both have finished *)
  Lemma ring_no_stuck_proof s : reachable (ring_step K B) rinit s ->
    ring_step K B s 0 = None -> ring_step K B s 1 = None ->
    r_ppc s = RPDone /\ r_cpc s = RCDone.
  Proof.
    intros Hr Ho Hw. pose proof (rinv_reachable s Hr) as J.
    destruct J as [Jout Jtrash Jpi Jci Ja0 Ja1 Jb1 Jst Jb0 Jwin Jexit Jpb Jwr Jdone Jfill Jpois Jcur].
    simpl in Ho, Hw. unfold ring_step_owner in Ho. unfold ring_step_writer in Hw. runf.
    destruct (r_cpc s) eqn:Ec; try discriminate;
      destruct (r_ppc s) eqn:Ep; try discriminate; simpl in *;
      repeat (match type of Ho with context [if ?d then _ else _] => destruct d end);
      try discriminate;
      try (destruct (r_trash s); [|discriminate]);
      try (destruct (r_out s); [|discriminate]);
      try (destruct (Nat.eqb B 0); discriminate);
      try (exfalso; destruct Jst as [Js1 Js2]; first [ (pose proof (Js1 eq_refl) as [X|X]; discriminate) | (pose proof (Js2 (or_introl eq_refl)); discriminate) | (pose proof (Js2 (or_intror eq_refl)); discriminate) ]);
      try (exfalso; pose proof (Jexit eq_refl) as [X Y]; first [discriminate | lia]);
      try (exfalso; pose proof (Jpb eq_refl); lia);
      try (exfalso; lia);
      try (split; reflexivity).
  Qed.

  (* ---- content: the file is the concatenation of the writes ---- *)

  (* an in-place value fits into the space Ensure() reserved for it, and that space into a block *)
  Definition rop_ok (o : rop) : Prop :=
    match o with RWrite _ => True | RPut amount bytes => length bytes <= amount /\ amount <= B end.
  Hypothesis Hprog0 : Forall rop_ok prog0.
  Definition allbytes (p : list rop) : list Z := concat (map rop_bytes p).

  Definition curpart (s : rstate) : list Z :=
    if owner_holds s then firstn (r_cur s) (r_data s (r_pi s)) else [].

  Record FInv (s : rstate) : Prop := {
    fi_len : length (r_hist s) = r_pa s;
    fi_file : r_file s = concat (firstn (r_ca s) (r_hist s));
    fi_win : forall n, r_ca s <= n < r_pa s ->
             firstn (r_size s (n mod K)) (r_data s (n mod K)) = nth n (r_hist s) [];
    fi_all : concat (r_hist s) ++ curpart s ++ r_pend s ++ allbytes (r_prog s) = allbytes prog0;
    fi_ok : Forall rop_ok (r_prog s);
    fi_cur : owner_holds s = true -> r_cur s <= length (r_data s (r_pi s)) /\ r_cur s <= B;
    fi_start : (r_ppc s = RPCtorWait \/ r_ppc s = RPSpawn) -> r_pend s = [] /\ r_cur s = 0;
    fi_rest : r_ppc s = RPRest -> r_cur s + length (r_pend s) <= B;
    fi_fillgt : r_ppc s = RPFill -> B < r_cur s + length (r_pend s);
    fi_flush : r_flushes s = match r_cpc s with RCEnd | RCDone => 1 | _ => 0 end;
    fi_pois : (poison_posted s = true \/ r_ppc s = RPPoisonPost) ->
              nth (r_pa s - 1) (r_hist s) [] = [] /\ r_pend s = [] /\ r_prog s = [];
    fi_dtor : (r_ppc s = RPSpillPost true \/ r_ppc s = RPSpillWait true) -> r_pend s = [] /\ r_prog s = [];
  }.

  Lemma finv_init : FInv rinit.
  Proof.
    unfold rinit, ring_init. constructor; simpl; unfold curpart, owner_holds, poison_posted; simpl; auto.
    - intros n Hn. lia.
    - intros H; discriminate.
    - intros H; discriminate.
    - intros H; discriminate.
    - intros [H|H]; discriminate.
    - intros [H|H]; discriminate.
  Qed.

  Lemma nth_app_old {A} (l : list A) x n d : n < length l -> nth n (l ++ [x]) d = nth n l d.
  Proof. intros H. apply app_nth1. exact H. Qed.

  Lemma nth_app_new {A} (l : list A) x d : nth (length l) (l ++ [x]) d = x.
  Proof. rewrite app_nth2 by lia. rewrite Nat.sub_diag. reflexivity. Qed.

  Lemma concat_firstn_S (l : list (list Z)) k : k < length l ->
    concat (firstn (S k) l) = concat (firstn k l) ++ nth k l [].
  Proof.
    revert k. induction l as [|a l IH]; intros k H; simpl in *; [lia|].
    destruct k as [|k]; simpl; [rewrite app_nil_r; reflexivity|].
    rewrite IH by lia. rewrite app_assoc. reflexivity.
  Qed.

  Lemma firstn_app_keep {A} (l : list A) x k : k <= length l -> firstn k (l ++ x) = firstn k l.
  Proof. intros H. rewrite firstn_app. replace (k - length l) with 0 by lia. simpl. apply app_nil_r. Qed.

  (* the owner leaves block [r_pi s] (absolute number r_pa s) with new content; window and history agree *)
  Lemma handover_win (s : rstate) (data' : nat -> list Z) (size' : nat -> nat) :
    r_pi s = r_pa s mod K -> r_ca s <= r_pa s -> r_pa s - r_ca s < K -> length (r_hist s) = r_pa s ->
    (forall m, m <> r_pi s -> data' m = r_data s m /\ size' m = r_size s m) ->
    (forall n, r_ca s <= n < r_pa s -> firstn (r_size s (n mod K)) (r_data s (n mod K)) = nth n (r_hist s) []) ->
    forall n, r_ca s <= n < S (r_pa s) ->
      firstn (size' (n mod K)) (data' (n mod K)) = nth n (r_hist s ++ [firstn (size' (r_pi s)) (data' (r_pi s))]) [].
  Proof.
    intros Hpi Hle Hlt Hlen Hsame Hwin n Hn.
    destruct (Nat.eq_dec n (r_pa s)) as [->|Hne].
    - rewrite <- Hlen at 3. rewrite nth_app_new. rewrite <- Hpi. reflexivity.
    - rewrite nth_app_old by lia.
      assert (Hm : n mod K <> r_pi s) by (rewrite Hpi; apply mod_neq; lia).
      destruct (Hsame _ Hm) as [-> ->]. apply Hwin. lia.
  Qed.

  Lemma rinv_room s : RInv s ->
    r_ca s <= r_pa s /\
    (owner_holds s = true -> r_pa s - r_ca s < K) /\
    (forall d, r_ppc s = RPSpillWait d -> 1 <= r_trash s -> r_pa s - r_ca s < K) /\
    (r_cpc s = RCWrite -> r_ca s < r_pa s).
  Proof.
    intros [Jout Jtrash Jpi Jci Ja0 Ja1 Jb1 Jst Jb0 Jwin Jexit Jpb Jwr Jdone Jfill Jpois Jcur].
    unfold owner_holds. runf.
    repeat split.
    - destruct (r_ppc s) eqn:Ep; destruct (r_cpc s) eqn:Ec; simpl in *; try lia;
        try (pose proof (Ja1 eq_refl)); try lia.
    - intros Ho. destruct (r_ppc s) eqn:Ep; try discriminate; destruct (r_cpc s) eqn:Ec; simpl in *; lia.
    - intros d Hd Ht. rewrite Hd in *. destruct (r_cpc s) eqn:Ec; simpl in *; lia.
    - intros Hc. rewrite Hc in *. destruct (r_ppc s) eqn:Ep; simpl in *; try lia; pose proof (Ja1 eq_refl); lia.
  Qed.

  Ltac ffin :=
    first [ assumption | reflexivity | lia | discriminate | tauto
          | (intros; discriminate) | (intros [?|?]; discriminate)
          | (intros; lia) ].

  Lemma finv_owner s s' : RInv s -> FInv s -> ring_step_owner K B s = Some s' -> FInv s'.
  Proof.
    intros R F H. unfold ring_step_owner in H.
    destruct (rinv_room s R) as (Hle & Hroom & Hroomw & _).
    pose proof (ri_pi s R) as Jpi.
    assert (Hst : r_cpc s = RCNotStarted -> r_flushes s = 0).
    { intros E. rewrite (fi_flush s F), E. reflexivity. }
    destruct F as [Flen Ffile Fwin Fall Fok Fcur Fstart Frest Ffillgt Fflush Fpois Fdtor].
    unfold curpart, owner_holds in *.
    (* goals after the owner left block r_pi s with content data'/size' *)
    assert (Hhand : forall data' size',
               (forall m, m <> r_pi s -> data' m = r_data s m /\ size' m = r_size s m) ->
               r_pa s - r_ca s < K ->
               length (r_hist s ++ [firstn (size' (r_pi s)) (data' (r_pi s))]) = S (r_pa s) /\
               r_file s = concat (firstn (r_ca s) (r_hist s ++ [firstn (size' (r_pi s)) (data' (r_pi s))])) /\
               (forall n, r_ca s <= n < S (r_pa s) ->
                  firstn (size' (n mod K)) (data' (n mod K)) =
                  nth n (r_hist s ++ [firstn (size' (r_pi s)) (data' (r_pi s))]) [])).
    { intros data' size' Hsame Hr. split; [rewrite app_length, Flen; simpl; lia|]. split.
      - rewrite firstn_app_keep by lia. exact Ffile.
      - apply (handover_win s data' size'); auto. }
    destruct (r_ppc s) eqn:Epc.
    - (* CtorWait *)
      destruct (r_trash s) as [|t]; [discriminate|]. inversion H; subst s'; clear H.
      destruct (Fstart (or_introl eq_refl)) as [Hp0 Hc0].
      constructor; runf; unfold curpart, owner_holds; simpl; rewrite ?Epc in *; try ffin.
      rewrite Hc0. simpl. exact Fall.
    - (* Spawn *)
      destruct (Fstart (or_intror eq_refl)) as [Hp0 Hc0].
      destruct (Fcur eq_refl) as [Hcl HcB]. specialize (Hroom eq_refl).
      assert (Ecp : r_cpc s = RCNotStarted) by (apply (ri_started s R); right; exact Epc).
      inversion H; subst s'; clear H. unfold r_next_write, r_dtor. simpl.
      rewrite Hc0, Hp0 in *. unfold allbytes in *. simpl in Fall.
      destruct (r_prog s) as [|w rest] eqn:Eprog.
      + simpl.
        destruct (Hhand (r_data s) (upd (r_size s) (r_pi s) 0)) as (G1 & G2 & G3);
          [intros m Hm; rewrite upd_other by exact Hm; auto|exact Hroom|].
        constructor; runf; unfold curpart, owner_holds; simpl; rewrite ?Epc in *; try ffin.
        all: try solve [rewrite concat_app; simpl; rewrite upd_same; simpl; rewrite !app_nil_r in *; exact Fall].
        all: try solve [rewrite Hst by exact Ecp; reflexivity].
        all: try solve [intros _; rewrite Nat.sub_0_r, <- Flen, nth_app_new, upd_same; simpl; auto].
      + inversion Fok as [|w0 r0 Hw Hrest]; subst.
        destruct w as [w|amount w]; simpl in *.
        * unfold r_loop_test. simpl.
          destruct (Nat.ltb B (length w)) eqn:Elt;
            constructor; runf; unfold curpart, owner_holds, allbytes; simpl; rewrite ?Epc in *; try ffin.
          all: try solve [intros _; apply Nat.ltb_ge in Elt; simpl in Elt; lia].
          all: try solve [intros _; apply Nat.ltb_lt in Elt; simpl in Elt; lia].
        * rewrite andb_false_r.
          constructor; runf; unfold curpart, owner_holds, allbytes; simpl; rewrite ?Epc in *; try ffin.
          all: try solve [intros _; lia].
    - (* Fill *)
      destruct (Nat.eqb B 0) eqn:EB0; [apply Nat.eqb_eq in EB0; lia|]. inversion H; subst s'; clear H.
      destruct (Fcur eq_refl) as [Hcl HcB]. specialize (Hroom eq_refl).
      set (data' := upd (r_data s) (r_pi s) (firstn (r_cur s) (r_data s (r_pi s)) ++ firstn (B - r_cur s) (r_pend s))).
      set (size' := upd (r_size s) (r_pi s) B).
      destruct (Hhand data' size') as (G1 & G2 & G3);
        [intros m Hm; unfold data', size'; rewrite !upd_other by exact Hm; auto|exact Hroom|].
      assert (Hblk : firstn (size' (r_pi s)) (data' (r_pi s)) = firstn (r_cur s) (r_data s (r_pi s)) ++ firstn (B - r_cur s) (r_pend s)).
      { unfold data', size'. rewrite !upd_same. apply firstn_all2. rewrite app_length, !firstn_length. lia. }
      constructor; runf; unfold curpart, owner_holds; simpl; rewrite ?Epc in *; try ffin.
      rewrite Hblk, concat_app. simpl. rewrite app_nil_r. rewrite <- Fall. rewrite <- !app_assoc. do 2 f_equal.
      rewrite app_assoc, firstn_skipn. reflexivity.
    - (* Rest *)
      destruct (Fcur eq_refl) as [Hcl HcB]. specialize (Hroom eq_refl). pose proof (Frest eq_refl) as Hfit.
      inversion H; subst s'; clear H. unfold r_next_write, r_dtor. simpl.
      set (blk := firstn (r_cur s) (r_data s (r_pi s)) ++ r_pend s).
      set (data' := upd (r_data s) (r_pi s) blk).
      assert (Hblen : length blk = r_cur s + length (r_pend s)).
      { unfold blk. rewrite app_length, firstn_length. lia. }
      destruct (r_prog s) as [|w rest] eqn:Eprog.
      + (* destructor *)
        assert (Hall : concat (r_hist s) ++ blk = allbytes prog0).
        { unfold blk. unfold allbytes in Fall at 1. simpl in Fall. rewrite app_nil_r in Fall. exact Fall. }
        destruct (Nat.eqb (r_cur s + length (r_pend s)) 0) eqn:Ecur.
        * apply Nat.eqb_eq in Ecur.
          destruct (Hhand data' (upd (r_size s) (r_pi s) 0)) as (G1 & G2 & G3);
            [intros m Hm; unfold data'; rewrite !upd_other by exact Hm; auto|exact Hroom|].
          assert (Hnil : blk = []) by (apply length_zero_iff_nil; lia).
          constructor; runf; unfold curpart, owner_holds; simpl; rewrite ?Epc in *; try ffin.
          all: try solve [rewrite concat_app; simpl; rewrite upd_same; simpl; rewrite !app_nil_r; rewrite <- Hall, Hnil, app_nil_r; reflexivity].
          all: try solve [intros _; rewrite Nat.sub_0_r, <- Flen, nth_app_new, upd_same; simpl; auto].
        * apply Nat.eqb_neq in Ecur.
          destruct (Hhand data' (upd (r_size s) (r_pi s) (r_cur s + length (r_pend s)))) as (G1 & G2 & G3);
            [intros m Hm; unfold data'; rewrite !upd_other by exact Hm; auto|exact Hroom|].
          assert (Hb : firstn (upd (r_size s) (r_pi s) (r_cur s + length (r_pend s)) (r_pi s)) (data' (r_pi s)) = blk).
          { unfold data'. rewrite !upd_same. apply firstn_all2. lia. }
          constructor; runf; unfold curpart, owner_holds; simpl; rewrite ?Epc in *; try ffin.
          all: try solve [rewrite Hb, concat_app; simpl; rewrite !app_nil_r; exact Hall].
      + (* next call *)
        assert (Hsame : forall n, r_ca s <= n < r_pa s -> data' (n mod K) = r_data s (n mod K)).
        { intros n Hn. unfold data'. apply upd_other. rewrite Jpi. apply mod_neq; lia. }
        assert (Hfb : firstn (r_cur s + length (r_pend s)) (data' (r_pi s)) = blk).
        { unfold data'. rewrite upd_same. apply firstn_all2. lia. }
        inversion Fok as [|w0 r0 Hw Hrest]; subst.
        assert (Hall : concat (r_hist s) ++ blk ++ rop_bytes w ++ allbytes rest = allbytes prog0).
        { rewrite <- Fall. unfold blk, allbytes. simpl. rewrite <- !app_assoc. reflexivity. }
        destruct w as [w|amount w]; simpl in Hall.
        * unfold r_loop_test.
          destruct (Nat.ltb B (r_cur s + length (r_pend s) + length w)) eqn:Elt;
            constructor; runf; unfold curpart, owner_holds; simpl; rewrite ?Epc in *; try ffin.
          all: try solve [intros n Hn; rewrite (Hsame n Hn); apply Fwin; exact Hn].
          all: try solve [rewrite Hfb; exact Hall].
          all: try solve [intros _; unfold data'; rewrite upd_same; lia].
          all: try solve [intros _; apply Nat.ltb_ge in Elt; lia].
        all: try solve [intros _; apply Nat.ltb_lt in Elt; simpl in *; lia].
          all: try solve [intros _; apply Nat.ltb_lt in Elt; lia].
        * simpl in Hw.
          destruct (Nat.ltb B (r_cur s + length (r_pend s) + amount) && negb (Nat.eqb (r_cur s + length (r_pend s)) 0)) eqn:Esp.
          -- (* partial block handed over *)
             apply andb_true_iff in Esp. destruct Esp as [_ Ecur]. apply negb_true_iff, Nat.eqb_neq in Ecur.
             destruct (Hhand data' (upd (r_size s) (r_pi s) (r_cur s + length (r_pend s)))) as (G1 & G2 & G3);
               [intros m Hm; unfold data'; rewrite !upd_other by exact Hm; auto|exact Hroom|].
             assert (Hb : firstn (upd (r_size s) (r_pi s) (r_cur s + length (r_pend s)) (r_pi s)) (data' (r_pi s)) = blk).
             { unfold data'. rewrite !upd_same. apply firstn_all2. lia. }
             constructor; runf; unfold curpart, owner_holds; simpl; rewrite ?Epc in *; try ffin.
             all: try solve [rewrite Hb, concat_app; simpl; rewrite !app_nil_r, <- app_assoc; exact Hall].
          -- apply andb_false_iff in Esp.
             assert (Hfit2 : r_cur s + length (r_pend s) + length w <= B).
             { destruct Esp as [Esp|Esp]; [apply Nat.ltb_ge in Esp; lia|].
               apply negb_false_iff, Nat.eqb_eq in Esp. lia. }
             constructor; runf; unfold curpart, owner_holds; simpl; rewrite ?Epc in *; try ffin.
             all: try solve [intros n Hn; rewrite (Hsame n Hn); apply Fwin; exact Hn].
             all: try solve [rewrite Hfb; exact Hall].
             all: try solve [intros _; unfold data'; rewrite upd_same; lia].
    - (* SpillPost *)
      inversion H; subst s'; clear H.
      constructor; runf; unfold curpart, owner_holds; simpl; rewrite ?Epc in *; try ffin.
      all: try solve [intros [E|E]; first [discriminate | (inversion E; subst; apply Fdtor; left; reflexivity)]].
    - (* SpillWait *)
      destruct (r_trash s) as [|t] eqn:Et; [discriminate|].
      pose proof (Hroomw dtor eq_refl ltac:(lia)) as Hr.
      destruct dtor; inversion H; subst s'; clear H.
      + destruct (Fdtor (or_intror eq_refl)) as [Hp0 Hg0]. rewrite Hp0, Hg0 in *. simpl in Fall.
        destruct (Hhand (r_data s) (upd (r_size s) (r_pi s) 0)) as (G1 & G2 & G3);
          [intros m Hm; rewrite upd_other by exact Hm; auto|exact Hr|].
        constructor; runf; unfold curpart, owner_holds; simpl; rewrite ?Epc in *; try ffin.
        all: try solve [rewrite concat_app; simpl; rewrite upd_same; simpl; rewrite !app_nil_r in *; exact Fall].
        all: try solve [intros _; rewrite Nat.sub_0_r, <- Flen, nth_app_new, upd_same; simpl; auto].
      + unfold r_loop_test. simpl.
        destruct (Nat.ltb B (length (r_pend s))) eqn:Elt;
          constructor; runf; unfold curpart, owner_holds; simpl; rewrite ?Epc in *; try ffin.
        all: try solve [intros _; apply Nat.ltb_ge in Elt; lia].
        all: try solve [intros _; apply Nat.ltb_lt in Elt; simpl in *; lia].
    - (* PoisonPost *)
      inversion H; subst s'; clear H.
      constructor; runf; unfold curpart, owner_holds; simpl; rewrite ?Epc in *; try ffin.
      all: try solve [intros _; apply Fpois; right; reflexivity].
    - (* PoisonWait *)
      destruct (r_trash s) as [|t] eqn:Et; [discriminate|]. inversion H; subst s'; clear H.
      constructor; runf; unfold curpart, owner_holds; simpl; rewrite ?Epc in *; try ffin.
      all: try solve [intros _; apply Fpois; left; reflexivity].
    - (* Join *)
      destruct (r_cpc s) eqn:Ecpc; try discriminate. inversion H; subst s'; clear H.
      constructor; runf; unfold curpart, owner_holds; simpl; rewrite ?Epc, ?Ecpc in *; try ffin.
      all: try solve [intros _; apply Fpois; left; reflexivity].
    - (* LeasePost *)
      inversion H; subst s'; clear H.
      constructor; runf; unfold curpart, owner_holds; simpl; rewrite ?Epc in *; try ffin.
      all: try solve [intros _; apply Fpois; left; reflexivity].
    - discriminate.
  Qed.


  Lemma finv_writer s s' : RInv s -> FInv s -> ring_step_writer K s = Some s' -> FInv s'.
  Proof.
    intros R F H. unfold ring_step_writer in H.
    destruct (rinv_room s R) as (Hle & _ & _ & Hlt).
    pose proof (ri_ci s R) as Jci.
    destruct F as [Flen Ffile Fwin Fall Fok Fcur Fstart Frest Ffillgt Fflush Fpois Fdtor].
    unfold curpart, owner_holds in *.
    destruct (r_cpc s) eqn:Ecpc; try discriminate.
    - inversion H; subst s'; clear H.
      constructor; runf; unfold curpart, owner_holds; simpl; rewrite ?Ecpc in *; try ffin.
    - destruct (r_out s) as [|o]; [discriminate|]. inversion H; subst s'; clear H.
      constructor; runf; unfold curpart, owner_holds; simpl; rewrite ?Ecpc in *; try ffin.
      all: try solve [destruct (Nat.eqb (r_size s (r_ci s)) 0); assumption].
    - (* RCWrite *)
      inversion H; subst s'; clear H. specialize (Hlt eq_refl).
      assert (Hfile' : r_file s ++ firstn (r_size s (r_ci s)) (r_data s (r_ci s)) = concat (firstn (S (r_ca s)) (r_hist s))).
      { rewrite concat_firstn_S by lia. rewrite <- Ffile. f_equal. rewrite Jci. apply Fwin. lia. }
      constructor; runf; unfold curpart, owner_holds; simpl; rewrite ?Ecpc in *; try ffin.
      intros n Hn. apply Fwin. lia.
    - inversion H; subst s'; clear H.
      constructor; runf; unfold curpart, owner_holds; simpl; rewrite ?Ecpc in *; try ffin.
    - inversion H; subst s'; clear H.
      constructor; runf; unfold curpart, owner_holds; simpl; rewrite ?Ecpc in *; try ffin.
    - inversion H; subst s'; clear H.
      constructor; runf; unfold curpart, owner_holds; simpl; rewrite ?Ecpc in *; try ffin.
    - inversion H; subst s'; clear H.
      constructor; runf; unfold curpart, owner_holds; simpl; rewrite ?Ecpc in *; try ffin.
  Qed.

  Lemma rfinv_reachable s : reachable (ring_step K B) rinit s -> RInv s /\ FInv s.
  Proof.
    apply (invariant_reachable _ _ (ring_step K B) (fun s => RInv s /\ FInv s)).
    - split; [exact rinv_init|exact finv_init].
    - intros s0 tid s1 [R F] Hs. split; [eapply rinv_step; eauto|].
      destruct tid as [|[|tid]]; simpl in Hs; [eapply finv_owner|eapply finv_writer|discriminate]; eauto.
  Qed.

  Lemma concat_last_nil (l : list (list Z)) : l <> [] -> nth (length l - 1) l [] = [] ->
    concat l = concat (firstn (length l - 1) l).
  Proof.
    intros Hne Hnil. destruct (length l) as [|k] eqn:El; [destruct l; [congruence|discriminate]|].
    replace (S k - 1) with k in * by lia.
    rewrite <- (firstn_all l) at 1. rewrite El. rewrite concat_firstn_S by lia. rewrite Hnil, app_nil_r. reflexivity.
  Qed.

  (* safety: at every moment the bytes handed to the writer are a prefix of the concatenation of all writes *)
  Lemma ring_file_prefix_proof s : reachable (ring_step K B) rinit s ->
    exists rest, r_file s ++ rest = allbytes prog0.
  Proof.
    intros Hr. destruct (rfinv_reachable s Hr) as [R F]. destruct (rinv_room s R) as (Hle & _).
    destruct F as [Flen Ffile Fwin Fall Fok Fcur Fstart Frest Ffillgt Fflush Fpois Fdtor].
    exists (concat (skipn (r_ca s) (r_hist s)) ++ curpart s ++ r_pend s ++ allbytes (r_prog s)).
    rewrite Ffile, app_assoc, <- concat_app, firstn_skipn. exact Fall.
  Qed.

  (* when both threads have finished: the file is exactly the concatenation of all writes, flushed once,
     and the writer thread was joined *)
  Lemma ring_file_complete_proof s : reachable (ring_step K B) rinit s ->
    r_ppc s = RPDone -> r_cpc s = RCDone ->
    r_file s = allbytes prog0 /\ r_flushes s = 1.
  Proof.
    intros Hr Hp Hc. destruct (rfinv_reachable s Hr) as [R F].
    pose proof (ri_exit s R) as Jexit. unfold cexiting, poison_posted in Jexit. rewrite Hc, Hp in Jexit.
    destruct (Jexit eq_refl) as [_ Hba].
    destruct F as [Flen Ffile Fwin Fall Fok Fcur Fstart Frest Ffillgt Fflush Fpois Fdtor].
    unfold poison_posted in Fpois. rewrite Hp in Fpois. destruct (Fpois (or_introl eq_refl)) as (Hnil & Hpe & Hpr).
    split; [|rewrite Fflush, Hc; reflexivity].
    unfold curpart, owner_holds in Fall. rewrite Hp, Hpe, Hpr in Fall. simpl in Fall. rewrite !app_nil_r in Fall.
    rewrite Ffile, <- Fall.
    replace (r_ca s) with (length (r_hist s) - 1) by lia.
    symmetry. apply concat_last_nil.
    - intros E. rewrite E in Flen. simpl in Flen. lia.
    - rewrite Flen. exact Hnil.
  Qed.

  (* ---- termination: every step decreases a measure, so the destructor always gets through ---- *)
  Definition rbase (s : rstate) : nat :=
    6 * (length (r_pend s) + length (allbytes (r_prog s))) + 12 * length (r_prog s).
  Definition mo (s : rstate) : nat :=
    match r_ppc s with
    | RPCtorWait => rbase s + 50
    | RPSpawn => rbase s + 49
    | RPFill => rbase s + 30 + (if Nat.ltb (r_cur s) B then 0 else 3)
    | RPRest => rbase s + 30
    | RPSpillPost false => rbase s + 32
    | RPSpillWait false => rbase s + 31
    | RPSpillPost true => 9
    | RPSpillWait true => 8
    | RPPoisonPost => 7 | RPPoisonWait => 6 | RPJoin => 5 | RPLeasePost => 4 | RPDone => 0
    end.
  Definition mc (s : rstate) : nat :=
    match r_cpc s with
    | RCNotStarted => 7 | RCBegin => 6 | RCWait => 5 | RCWrite => 4 | RCPostTrash => 6
    | RCExitPost => 3 | RCFlush => 2 | RCEnd => 1 | RCDone => 0
    end.
  Definition rmeasure (s : rstate) : nat := 4 * mo s + 3 * (r_pa s - r_ca s) + mc s.

  Lemma allbytes_cons o r : length (allbytes (o :: r)) = length (rop_bytes o) + length (allbytes r).
  Proof. unfold allbytes. simpl. rewrite app_length. reflexivity. Qed.

  Ltac rcbn := unfold rmeasure, mo, mc, rbase, r_set_p, r_set_c, r_set_sem, r_loop_test in *;
               cbn [r_ppc r_cpc r_pend r_prog r_cur r_pa r_ca r_out r_trash r_data r_size r_pi r_ci r_file r_wsizes r_flushes r_hist] in *.

  Lemma rmeasure_decreases s tid s' : RInv s -> FInv s -> ring_step K B s tid = Some s' -> rmeasure s' < rmeasure s.
  Proof.
    intros R F H. destruct (rinv_room s R) as (Hle & _ & _ & Hlt).
    pose proof (ri_started s R) as Jst.
    destruct F as [Flen Ffile Fwin Fall Fok Fcur Fstart Frest Ffillgt Fflush Fpois Fdtor].
    destruct tid as [|[|tid]]; simpl in H; [| |discriminate].
    - (* owner *)
      unfold ring_step_owner in H.
      destruct (r_ppc s) eqn:Epc.
      + destruct (r_trash s); [discriminate|]. inversion H; subst s'; clear H. rcbn. rewrite Epc. lia.
      + (* Spawn *)
        assert (Ecp : r_cpc s = RCNotStarted) by (apply Jst; right; reflexivity).
        destruct (Fstart (or_intror eq_refl)) as [Hp0 Hc0].
        inversion H; subst s'; clear H. unfold r_next_write, r_dtor.
        destruct (r_prog s) as [|[w|amount w] rest] eqn:Eprog.
        * rcbn. rewrite Hc0. cbn [Nat.eqb]. rcbn. rewrite Epc, Ecp, Hp0, Eprog. cbn [length allbytes map concat]. lia.
        * rcbn. rewrite Epc, Ecp, Hp0, Eprog, Hc0, allbytes_cons. cbn [length rop_bytes Nat.add].
          destruct (Nat.ltb B (length w)); destruct (Nat.ltb 0 B); lia.
        * rcbn. rewrite Hc0. cbn [Nat.eqb negb]. rewrite andb_false_r. rcbn.
          rewrite Epc, Ecp, Hp0, Eprog, allbytes_cons. cbn [length rop_bytes]. lia.
      + (* Fill *)
        pose proof (Ffillgt eq_refl) as Hgt.
        destruct (Nat.eqb B 0) eqn:EB0; [apply Nat.eqb_eq in EB0; lia|]. inversion H; subst s'; clear H. rcbn.
        rewrite Epc, skipn_length.
        destruct (Nat.ltb (r_cur s) B) eqn:Ec; [apply Nat.ltb_lt in Ec|apply Nat.ltb_ge in Ec]; lia.
      + (* Rest *)
        inversion H; subst s'; clear H. unfold r_next_write, r_dtor.
        destruct (r_prog s) as [|[w|amount w] rest] eqn:Eprog.
        * destruct (Nat.eqb (r_cur s + length (r_pend s)) 0); rcbn; rewrite Epc, Eprog; cbn [length allbytes map concat]; lia.
        * rcbn. rewrite Epc, Eprog, allbytes_cons. cbn [length rop_bytes].
          destruct (Nat.ltb B (r_cur s + length (r_pend s) + length w));
            destruct (Nat.ltb (r_cur s + length (r_pend s)) B); lia.
        * destruct (Nat.ltb B (r_cur s + length (r_pend s) + amount) && negb (Nat.eqb (r_cur s + length (r_pend s)) 0));
            rcbn; rewrite Epc, Eprog, allbytes_cons; cbn [length rop_bytes]; lia.
      + destruct dtor; inversion H; subst s'; clear H; rcbn; rewrite Epc; lia.
      + destruct (r_trash s); [discriminate|].
        destruct dtor; inversion H; subst s'; clear H; rcbn; rewrite Epc.
        * lia.
        * destruct (Nat.ltb B (0 + length (r_pend s))); [|lia].
          destruct (Nat.ltb 0 B) eqn:E0; [lia|apply Nat.ltb_ge in E0; lia].
      + inversion H; subst s'; clear H; rcbn; rewrite Epc; lia.
      + destruct (r_trash s); [discriminate|]. inversion H; subst s'; clear H; rcbn; rewrite Epc; lia.
      + destruct (r_cpc s) eqn:Ec; try discriminate. inversion H; subst s'; clear H; rcbn; rewrite Epc, Ec; lia.
      + inversion H; subst s'; clear H; rcbn; rewrite Epc; lia.
      + discriminate.
    - (* writer *)
      unfold ring_step_writer in H.
      destruct (r_cpc s) eqn:Ec; try discriminate.
      + inversion H; subst s'; clear H; rcbn; rewrite Ec; lia.
      + destruct (r_out s); [discriminate|]. inversion H; subst s'; clear H; rcbn; rewrite Ec.
        destruct (Nat.eqb (r_size s (r_ci s)) 0); lia.
      + specialize (Hlt eq_refl). inversion H; subst s'; clear H; rcbn; rewrite Ec. lia.
      + inversion H; subst s'; clear H; rcbn; rewrite Ec; lia.
      + inversion H; subst s'; clear H; rcbn; rewrite Ec; lia.
      + inversion H; subst s'; clear H; rcbn; rewrite Ec; lia.
      + inversion H; subst s'; clear H; rcbn; rewrite Ec; lia.
  Qed.

  Lemma ring_run_measure ls : forall s s', RInv s -> FInv s -> run (ring_step K B) s ls = Some s' -> length ls + rmeasure s' <= rmeasure s.
  Proof.
    induction ls as [|l r IH]; intros s s0 R F H; simpl in H.
    - inversion H; subst; simpl; lia.
    - destruct (ring_step K B s l) as [s1|] eqn:E; [|discriminate].
      pose proof (rmeasure_decreases _ _ _ R F E).
      assert (R1 : RInv s1) by (eapply rinv_step; eauto).
      assert (F1 : FInv s1).
      { destruct l as [|[|l]]; simpl in E; [exact (finv_owner _ _ R F E)|exact (finv_writer _ _ R F E)|discriminate]. }
      pose proof (IH _ _ R1 F1 H). simpl. lia.
  Qed.

  (* every schedule of constructor + writes + destructor is finite *)
  Lemma ring_runs_bounded_proof ls s : run (ring_step K B) rinit ls = Some s -> length ls <= rmeasure rinit.
  Proof. intros H. pose proof (ring_run_measure ls _ _ rinv_init finv_init H). lia. Qed.
End RingProofs.
