(* C16 -- proofs about the block ring of ThreadedBufferedStream (RingDefs.v), for every number of
   blocks K >= 2, block size B >= 1, list of write() calls and schedule. *)
From PP Require Import Queues.RingDefs.
From Coq Require Import Lia.

Lemma mod_neq K n m : 1 <= K -> n < m -> m - n < K -> n mod K <> m mod K.
Proof.
  intros HK Hlt Hd E.
  pose proof (Nat.div_mod n K ltac:(lia)) as Hn. pose proof (Nat.div_mod m K ltac:(lia)) as Hm.
  rewrite E in Hn.
  assert (Hq : K * (m / K) = K * (n / K) + (m - n)) by lia.
  destruct (Nat.lt_trichotomy (m / K) (n / K)) as [H|[H|H]]; nia.
Qed.

Lemma next_mod K x : 1 <= K -> r_next K (x mod K) = (S x) mod K.
Proof.
  intros HK. unfold r_next.
  pose proof (Nat.mod_upper_bound x K ltac:(lia)) as Hx.
  pose proof (Nat.div_mod x K ltac:(lia)) as Hd.
  destruct (Nat.eqb (S (x mod K)) K) eqn:E.
  - apply Nat.eqb_eq in E. apply Nat.mod_unique with (q := S (x / K)); lia.
  - apply Nat.eqb_neq in E. apply Nat.mod_unique with (q := x / K); lia.
Qed.

Section RingProofs.
  Variables K B : nat.
  Hypothesis HK : 2 <= K.
  Hypothesis HB : 1 <= B.
  Variable prog0 : list (list Z).

  Definition rinit := ring_init 0 K B prog0.

  Definition Wp (s : rstate) : nat :=
    match r_ppc s with
    | RPCtorWait => 0
    | RPSpillPost _ | RPSpillWait _ | RPPoisonPost | RPPoisonWait => r_pa s
    | _ => S (r_pa s)
    end.
  Definition Pp (s : rstate) : nat :=
    match r_ppc s with RPSpillPost _ | RPPoisonPost => r_pa s - 1 | _ => r_pa s end.
  Definition Tp (s : rstate) : nat := match r_ppc s with RPDone => 1 | _ => 0 end.
  Definition Wc (s : rstate) : nat :=
    match r_cpc s with RCNotStarted | RCBegin | RCWait | RCPostTrash => r_ca s | _ => S (r_ca s) end.
  Definition Pc (s : rstate) : nat := match r_cpc s with RCPostTrash => r_ca s - 1 | _ => r_ca s end.
  Definition Oc (s : rstate) : nat := match r_cpc s with RCFlush | RCEnd | RCDone => 1 | _ => 0 end.

  Definition poison_posted (s : rstate) : bool :=
    match r_ppc s with RPPoisonWait | RPJoin | RPLeasePost | RPDone => true | _ => false end.
  Definition cexiting (s : rstate) : bool :=
    match r_cpc s with RCExitPost | RCFlush | RCEnd | RCDone => true | _ => false end.
  Definition padvanced (s : rstate) : bool :=
    match r_ppc s with RPSpillPost _ | RPPoisonPost => true | _ => false end.

  (* which side currently owns a block (between acquiring it and handing it over) *)
  Definition owner_holds (s : rstate) : bool :=
    match r_ppc s with RPSpawn | RPFill | RPRest => true | _ => false end.
  Definition writer_holds (s : rstate) : bool :=
    match r_cpc s with RCWrite | RCExitPost => true | _ => false end.

  Record RInv (s : rstate) : Prop := {
    ri_out : r_out s + Wc s = Pp s + Oc s;
    ri_trash : r_trash s + Wp s = K + Pc s + Tp s;
    ri_pi : r_pi s = r_pa s mod K;
    ri_ci : r_ci s = r_ca s mod K;
    ri_a0 : r_ppc s = RPCtorWait -> r_pa s = 0;
    ri_a1 : padvanced s = true -> 1 <= r_pa s;
    ri_b1 : r_cpc s = RCPostTrash -> 1 <= r_ca s;
    ri_started : r_cpc s = RCNotStarted <-> (r_ppc s = RPCtorWait \/ r_ppc s = RPSpawn);
    ri_b0 : (r_cpc s = RCNotStarted \/ r_cpc s = RCBegin) -> r_ca s = 0;
    ri_win : forall n, Pc s <= n < Pp s ->
             (r_size s (n mod K) = 0 <-> (poison_posted s = true /\ n = r_pa s - 1));
    ri_exit : cexiting s = true -> poison_posted s = true /\ S (r_ca s) = r_pa s;
    ri_pb : poison_posted s = true -> S (r_ca s) <= r_pa s;
    ri_wr : r_cpc s = RCWrite -> r_size s (r_ci s) <> 0;
    ri_done : (r_ppc s = RPLeasePost \/ r_ppc s = RPDone) -> r_cpc s = RCDone;
    ri_fill : (exists d, r_ppc s = RPSpillPost d) -> r_size s ((r_pa s - 1) mod K) <> 0;
    ri_pois : r_ppc s = RPPoisonPost -> r_size s ((r_pa s - 1) mod K) = 0;
    ri_curpos : (exists d, r_ppc s = RPSpillPost d) \/ r_ppc s = RPFill \/ r_ppc s = RPRest \/ r_ppc s = RPSpawn -> True;
  }.

  Ltac rfin :=
    first [ lia | discriminate | reflexivity | tauto
          | (rewrite Nat.mod_0_l by lia; reflexivity)
          | (intros; lia)
          | (intros; discriminate)
          | (intros [?|?]; discriminate)
          | (intros [?|[?|[?|?]]]; discriminate)
          | (intros [? ?]; discriminate)
          | (intros [[? ?]|?]; discriminate)
          | (split; intros; try discriminate; try lia; tauto)
          | (split; [intros; discriminate | intros [?|?]; discriminate])
          | (split; [intros; discriminate | intros [? ?]; discriminate])
          | (match goal with |- context [r_cpc ?s] => destruct (r_cpc s) end; simpl in *; first [lia | discriminate | tauto])
          | (match goal with |- context [r_ppc ?s] => destruct (r_ppc s) end; simpl in *; first [lia | discriminate | tauto]) ].

  Lemma rinv_init : RInv rinit.
  Proof.
    unfold rinit, ring_init.
    constructor; simpl; unfold Wc, Pp, Oc, Wp, Pc, Tp, poison_posted, cexiting, padvanced; simpl; try rfin.
    all: idtac.
  Qed.

  Ltac runf := unfold Wc, Pp, Oc, Wp, Pc, Tp, poison_posted, cexiting, padvanced, r_set_p, r_set_c, r_set_sem in *; simpl in *.

  (* window facts survive a size update of the owner's own block (it lies outside the window) *)
  Lemma win_upd (size : nat -> nat) (a lo hi v : nat) (P : nat -> Prop) :
    hi <= a -> a - lo < K ->
    (forall n, lo <= n < hi -> (size (n mod K) = 0 <-> P n)) ->
    forall n, lo <= n < hi -> (upd size (a mod K) v (n mod K) = 0 <-> P n).
  Proof.
    intros H1 H2 Hw n Hn. rewrite upd_other; [apply Hw; exact Hn|].
    apply mod_neq; lia.
  Qed.

  Lemma win_upd' (size : nat -> nat) (a v n lo : nat) :
    lo <= n < a -> a - lo < K -> upd size (a mod K) v (n mod K) = size (n mod K).
  Proof. intros H1 H2. apply upd_other. apply mod_neq; lia. Qed.

  Ltac t_win Jpi Jwin :=
    let n := fresh "n" in let Hn := fresh "Hn" in
    intros n Hn; rewrite ?Nat.sub_0_r in *; rewrite ?Jpi;
    rewrite ?upd_other by (apply mod_neq; lia);
    rewrite (Jwin n) by lia; intuition (try congruence; try lia).
  Ltac t_wr Jpi Jci Jwr :=
    let E := fresh "E" in
    intros E; rewrite E in *; simpl in *; rewrite ?Jpi, ?Jci;
    rewrite ?upd_other by (apply mod_neq; lia); rewrite <- ?Jci; apply Jwr; reflexivity.
  Ltac t_same Jpi := intros _; rewrite ?Nat.sub_0_r, ?Jpi, upd_same; try assumption; try lia.

  Ltac t_rest Jpi Jci Jwin Jwr Jst Ecp :=
    first [ (split; [let E := fresh "E" in intros E; first [contradiction | congruence | (apply Jst in E; destruct E; discriminate)]
                    | let E := fresh "E" in intros [E|E]; discriminate])
          | t_win Jpi Jwin | t_wr Jpi Jci Jwr | t_same Jpi ].

  Lemma rinv_owner s s' : RInv s -> ring_step_owner K B s = Some s' -> RInv s'.
  Proof.
    intros J H. unfold ring_step_owner in H.
    pose proof (next_mod K (r_pa s) ltac:(lia)) as Hnext.
    destruct J as [Jout Jtrash Jpi Jci Ja0 Ja1 Jb1 Jst Jb0 Jwin Jexit Jpb Jwr Jdone Jfill Jpois Jcur].
    destruct (r_ppc s) eqn:Epc.
    - (* RPCtorWait *)
      destruct (r_trash s) as [|t] eqn:Et; [discriminate|]. inversion H; subst s'; clear H.
      pose proof (Ja0 eq_refl) as Ha0.
      constructor; runf; rewrite ?Epc in *; try rfin.
    - (* RPSpawn *)
      assert (Ecp : r_cpc s = RCNotStarted) by (apply Jst; right; reflexivity).
      pose proof (Jb0 (or_introl Ecp)) as Hb0.
      inversion H; subst s'; clear H. unfold r_next_write, r_dtor. simpl.
      destruct (r_prog s) as [|w rest] eqn:Eprog.
      + destruct (Nat.eqb (r_cur s) 0) eqn:Ecur.
        * constructor; runf; rewrite ?Epc, ?Ecp in *; try rfin; try (rewrite Jpi; exact Hnext).
          -- intros n Hn. rewrite Nat.sub_0_r in *. rewrite Jpi, (win_upd' _ _ _ _ (r_ca s)) by lia.
             rewrite (Jwin n) by lia. intuition (try congruence; try lia).
          -- intros _. rewrite Nat.sub_0_r, Jpi. apply upd_same.
        * apply Nat.eqb_neq in Ecur.
          constructor; runf; rewrite ?Epc, ?Ecp in *; try rfin; try (rewrite Jpi; exact Hnext).
          -- intros n Hn. rewrite Nat.sub_0_r in *. rewrite Jpi, (win_upd' _ _ _ _ (r_ca s)) by lia.
             rewrite (Jwin n) by lia. intuition (try congruence; try lia).
          -- intros _. rewrite Nat.sub_0_r, Jpi, upd_same. exact Ecur.
      + (* first write() *)
        unfold r_loop_test. destruct (Nat.ltb B (r_cur s + length w));
          constructor; runf; rewrite ?Epc, ?Ecp in *; try rfin.
    - (* RPFill *)
      destruct (Nat.eqb B 0) eqn:EB0; [apply Nat.eqb_eq in EB0; lia|]. inversion H; subst s'; clear H.
      assert (Ecp : r_cpc s <> RCNotStarted) by (intros E; apply Jst in E; destruct E; discriminate).
      constructor; runf; rewrite ?Epc in *; try rfin; try (rewrite Jpi; exact Hnext).
      + split; [intros E; contradiction|intros [E|E]; discriminate].
      + t_win Jpi Jwin.
      + t_wr Jpi Jci Jwr.
      + t_same Jpi.
    - (* RPRest *)
      assert (Ecp : r_cpc s <> RCNotStarted) by (intros E; apply Jst in E; destruct E; discriminate).
      inversion H; subst s'; clear H. unfold r_next_write, r_dtor. simpl.
      destruct (r_prog s) as [|w rest] eqn:Eprog.
      + destruct (Nat.eqb (r_cur s + length (r_pend s)) 0) eqn:Ecur; [|apply Nat.eqb_neq in Ecur];
          constructor; runf; rewrite ?Epc in *; try rfin; try (rewrite Jpi; exact Hnext); try t_rest Jpi Jci Jwin Jwr Jst Ecp.
      + unfold r_loop_test. destruct (Nat.ltb B (r_cur s + length (r_pend s) + length w));
          constructor; runf; rewrite ?Epc in *; try rfin; try t_rest Jpi Jci Jwin Jwr Jst Ecp.
    - (* RPSpillPost *)
      assert (Ecp : r_cpc s <> RCNotStarted) by (intros E; apply Jst in E; destruct E; discriminate).
      inversion H; subst s'; clear H. runf. rewrite ?Epc in *.
      pose proof (Ja1 eq_refl) as Ha1. pose proof (Jfill (ex_intro _ dtor eq_refl)) as Hfill.
      constructor; runf; rewrite ?Epc in *; try rfin; try t_rest Jpi Jci Jwin Jwr Jst Ecp.
      intros n Hn. destruct (Nat.eq_dec n (r_pa s - 1)) as [->|Hne].
      + split; [intros E0; contradiction|intros [E0 _]; discriminate].
      + rewrite (Jwin n) by lia. intuition (try congruence; try lia).
    - (* RPSpillWait *)
      assert (Ecp : r_cpc s <> RCNotStarted) by (intros E; apply Jst in E; destruct E; discriminate).
      destruct (r_trash s) as [|t] eqn:Et; [discriminate|].
      destruct dtor; inversion H; subst s'; clear H; runf; rewrite ?Epc in *.
      + constructor; runf; rewrite ?Epc in *; try rfin; try (rewrite Jpi; exact Hnext); try t_rest Jpi Jci Jwin Jwr Jst Ecp.
      + unfold r_loop_test. destruct (Nat.ltb B (0 + length (r_pend s)));
          constructor; runf; rewrite ?Epc in *; try rfin; try t_rest Jpi Jci Jwin Jwr Jst Ecp.
    - (* RPPoisonPost *)
      assert (Ecp : r_cpc s <> RCNotStarted) by (intros E; apply Jst in E; destruct E; discriminate).
      inversion H; subst s'; clear H. runf. rewrite ?Epc in *.
      pose proof (Ja1 eq_refl) as Ha1. pose proof (Jpois eq_refl) as Hpois.
      assert (Hnx : match r_cpc s with RCExitPost | RCFlush | RCEnd | RCDone => False | _ => True end).
      { destruct (r_cpc s); auto; destruct (Jexit eq_refl); discriminate. }
      constructor; runf; rewrite ?Epc in *; try rfin; try t_rest Jpi Jci Jwin Jwr Jst Ecp.
      + intros n Hn. destruct (Nat.eq_dec n (r_pa s - 1)) as [->|Hne].
        * split; [intros _; split; reflexivity|intros _; exact Hpois].
        * assert (Hw : r_size s (n mod K) = 0 <-> false = true /\ n = r_pa s - 1) by (apply Jwin; lia).
          split; [intros E0; apply Hw in E0; destruct E0; discriminate|intros [_ E0]; contradiction].
      + intros _. destruct (r_cpc s); simpl in *; try contradiction; lia.
    - (* RPPoisonWait *)
      destruct (r_trash s) as [|t] eqn:Et; [discriminate|]. inversion H; subst s'; clear H.
      assert (Ecp : r_cpc s <> RCNotStarted) by (intros E; apply Jst in E; destruct E; discriminate).
      constructor; runf; rewrite ?Epc in *; try rfin; try t_rest Jpi Jci Jwin Jwr Jst Ecp.
    - (* RPJoin *)
      destruct (r_cpc s) eqn:Ecpc; try discriminate. inversion H; subst s'; clear H.
      constructor; runf; rewrite ?Epc, ?Ecpc in *; try rfin.
    - (* RPLeasePost *)
      inversion H; subst s'; clear H.
      assert (Ecp : r_cpc s <> RCNotStarted) by (intros E; apply Jst in E; destruct E; discriminate).
      constructor; runf; rewrite ?Epc in *; try rfin; try t_rest Jpi Jci Jwin Jwr Jst Ecp.
    - discriminate.
  Qed.


  Ltac t_w Jst Jdone :=
    first [ (split; [discriminate | let Hp := fresh "Hp" in intros Hp; apply Jst in Hp; discriminate])
          | (let Hp := fresh "Hp" in intros Hp; apply Jdone in Hp; first [discriminate | exact Hp]) ].

  Lemma rinv_writer s s' : RInv s -> ring_step_writer K s = Some s' -> RInv s'.
  Proof.
    intros J H. unfold ring_step_writer in H.
    pose proof (next_mod K (r_ca s) ltac:(lia)) as Hnext.
    destruct J as [Jout Jtrash Jpi Jci Ja0 Ja1 Jb1 Jst Jb0 Jwin Jexit Jpb Jwr Jdone Jfill Jpois Jcur].
    destruct (r_cpc s) eqn:Ecpc; try discriminate.
    - (* RCBegin *)
      inversion H; subst s'; clear H.
      constructor; runf; rewrite ?Ecpc in *; try rfin; try t_w Jst Jdone.
    - (* RCWait *)
      destruct (r_out s) as [|o] eqn:Eo; [discriminate|]. inversion H; subst s'; clear H.
      runf. rewrite ?Ecpc in *.
      assert (Hwin : r_size s (r_ci s) = 0 <-> poison_posted s = true /\ r_ca s = r_pa s - 1).
      { rewrite Jci. apply Jwin. destruct (r_ppc s); simpl in *; lia. }
      destruct (Nat.eqb (r_size s (r_ci s)) 0) eqn:Esz.
      + apply Nat.eqb_eq in Esz. apply Hwin in Esz. destruct Esz as [Hpp Hba].
        pose proof (Jpb Hpp) as Hle.
        constructor; runf; rewrite ?Ecpc in *; try rfin; try t_w Jst Jdone.
      + apply Nat.eqb_neq in Esz.
        constructor; runf; rewrite ?Ecpc in *; try rfin; try t_w Jst Jdone.
    - (* RCWrite *)
      inversion H; subst s'; clear H. runf. rewrite ?Ecpc in *.
      pose proof (Jwr eq_refl) as Hsz.
      assert (Hwin : r_size s (r_ci s) = 0 <-> poison_posted s = true /\ r_ca s = r_pa s - 1).
      { rewrite Jci. apply Jwin. destruct (r_ppc s); simpl in *; lia. }
      constructor; runf; rewrite ?Ecpc in *; try rfin; try t_w Jst Jdone; try (rewrite Jci; exact Hnext).
      intros n Hn. apply Jwin. lia.
    - (* RCPostTrash *)
      inversion H; subst s'; clear H. runf. rewrite ?Ecpc in *.
      pose proof (Jb1 eq_refl) as Hb1.
      constructor; runf; rewrite ?Ecpc in *; try rfin; try t_w Jst Jdone.
      all: try (intros n Hn; apply Jwin; lia).
    - (* RCExitPost *)
      inversion H; subst s'; clear H. runf. rewrite ?Ecpc in *.
      constructor; runf; rewrite ?Ecpc in *; try rfin; try t_w Jst Jdone.
    - (* RCFlush *)
      inversion H; subst s'; clear H. runf. rewrite ?Ecpc in *.
      constructor; runf; rewrite ?Ecpc in *; try rfin; try t_w Jst Jdone.
    - (* RCEnd *)
      inversion H; subst s'; clear H. runf. rewrite ?Ecpc in *.
      constructor; runf; rewrite ?Ecpc in *; try rfin; try t_w Jst Jdone.
  Qed.

  Lemma rinv_step s tid s' : RInv s -> ring_step K B s tid = Some s' -> RInv s'.
  Proof.
    intros J H. destruct tid as [|[|tid]]; simpl in H; [eapply rinv_owner|eapply rinv_writer|discriminate]; eauto.
  Qed.

  Lemma rinv_reachable s : reachable (ring_step K B) rinit s -> RInv s.
  Proof.
    apply invariant_reachable; [exact rinv_init|]. intros s0 l s1. apply rinv_step.
  Qed.


  (* ---- consequences ---- *)

  (* block exclusivity: while the owner holds a block for filling and the writer thread holds one for
     writing, they are different blocks; and a side that is about to acquire (semaphore available) gets a
     block different from the one the other side holds *)
  Lemma ring_exclusive_proof s : reachable (ring_step K B) rinit s ->
    (owner_holds s = true -> writer_holds s = true -> r_pi s <> r_ci s) /\
    (writer_holds s = true -> 1 <= r_trash s ->
       (match r_ppc s with RPSpillWait _ | RPPoisonWait => True | _ => False end) -> r_pi s <> r_ci s) /\
    (owner_holds s = true -> 1 <= r_out s -> r_cpc s = RCWait -> r_ci s <> r_pi s).
  Proof.
    intros Hr. pose proof (rinv_reachable s Hr) as J.
    destruct J as [Jout Jtrash Jpi Jci Ja0 Ja1 Jb1 Jst Jb0 Jwin Jexit Jpb Jwr Jdone Jfill Jpois Jcur].
    unfold owner_holds, writer_holds. runf. rewrite Jpi, Jci.
    split; [|split].
    - intros Ho Hw. apply not_eq_sym. apply mod_neq; [lia| |];
        destruct (r_ppc s); try discriminate; destruct (r_cpc s); try discriminate; simpl in *; lia.
    - intros Hw Ht Hp. apply not_eq_sym. apply mod_neq; [lia| |];
        destruct (r_ppc s); try contradiction; destruct (r_cpc s); try discriminate; simpl in *; lia.
    - intros Ho Hout Hc. rewrite Hc in *. apply mod_neq; [lia| |];
        destruct (r_ppc s); try discriminate; simpl in *; lia.
  Qed.

  (* no deadlock: when neither thread can move, both have finished *)
  Lemma ring_no_stuck_proof s : reachable (ring_step K B) rinit s ->
    ring_step K B s 0 = None -> ring_step K B s 1 = None ->
    r_ppc s = RPDone /\ r_cpc s = RCDone.
  Proof.
    intros Hr Ho Hw. pose proof (rinv_reachable s Hr) as J.
    destruct J as [Jout Jtrash Jpi Jci Ja0 Ja1 Jb1 Jst Jb0 Jwin Jexit Jpb Jwr Jdone Jfill Jpois Jcur].
    simpl in Ho, Hw. unfold ring_step_owner in Ho. unfold ring_step_writer in Hw. runf.
    destruct (r_cpc s) eqn:Ec; try discriminate;
      destruct (r_ppc s) eqn:Ep; try discriminate; simpl in *;
      repeat (match type of Ho with context [if ?d then _ else _] => destruct d end);
      try discriminate;
      try (destruct (r_trash s); [|discriminate]);
      try (destruct (r_out s); [|discriminate]);
      try (destruct (Nat.eqb B 0); discriminate);
      try (exfalso; destruct Jst as [Js1 Js2]; first [ (pose proof (Js1 eq_refl) as [X|X]; discriminate) | (pose proof (Js2 (or_introl eq_refl)); discriminate) | (pose proof (Js2 (or_intror eq_refl)); discriminate) ]);
      try (exfalso; pose proof (Jexit eq_refl) as [X Y]; first [discriminate | lia]);
      try (exfalso; pose proof (Jpb eq_refl); lia);
      try (exfalso; lia);
      try (split; reflexivity).
  Qed.
End RingProofs.
