(* C16 -- util::PCQueue (util/pcqueue.hh:128-230) as a transition system with
   any number of producer and consumer threads.  One step = the code between
   two scheduling points:

     Produce:  [W0] empty_.wait()   [L0] lock produce_at_mutex_
               [ywrite] *produce_at_ = val; if (++produce_at_ == end_) produce_at_ = storage_; unlock (scope end)
               [U0] scheduling point right after the unlock          [P1] used_.post()
     Consume:  [W1] used_.wait()    [L1] lock consume_at_mutex_
               [yread] out = *consume_at_; if (++consume_at_ == end_) consume_at_ = storage_; unlock (scope end)
               [U1] scheduling point right after the unlock          [P0] empty_.post()                *)
From PP Require Export Base.LTS.
From Coq Require Export ZArith.

Inductive qppc := QPWait | QPLock | QPWrite | QPUnlock | QPPost.
Inductive qcpc := QCWait | QCLock | QCRead | QCUnlock | QCPost.

Inductive qthread :=
| QProd (pc : qppc) (todo : list Z)               (* todo: values still to Produce (head = current) *)
| QCons (pc : qcpc) (want : nat) (got : list Z).  (* want: Consume calls left; got: newest first *)

Record qstate := mkQ {
  q_empty : nat;            (* semaphore empty_ *)
  q_used : nat;             (* semaphore used_ *)
  q_slots : nat -> Z;       (* storage_ *)
  q_pat : nat;              (* produce_at_ - storage_ *)
  q_cat : nat;              (* consume_at_ - storage_ *)
  q_pmx : bool;             (* produce_at_mutex_ held *)
  q_cmx : bool;             (* consume_at_mutex_ held *)
  q_threads : list qthread;
  (* auxiliary (history) variables: never read by a step, only used to state invariants *)
  q_wlog : list Z;          (* every value stored into a slot, in order *)
  q_rlog : list Z;          (* every value copied out of a slot, in order *)
  q_wtlog : list (nat * Z) }.  (* (storing thread, value) of every store, in order *)

Fixpoint list_upd {A} (l : list A) (i : nat) (x : A) : list A :=
  match l, i with
  | [], _ => []
  | _ :: r, 0 => x :: r
  | a :: r, S j => a :: list_upd r j x
  end.

Definition q_default : Z := (-1)%Z.   (* T() of the harness item type *)

Definition pcq_init (empty0 used0 : nat) (threads : list qthread) : qstate :=
  mkQ empty0 used0 (fun _ => q_default) 0 0 false false threads [] [] [].

Section Pcq.
  Variable n : nat.   (* capacity *)

  Definition q_next (i : nat) : nat := if Nat.eqb (S i) n then 0 else S i.

  Definition q_set_thread (s : qstate) (i : nat) (t : qthread) : list qthread := list_upd (q_threads s) i t.

  Definition pcq_step (s : qstate) (i : nat) : option qstate :=
    match nth_error (q_threads s) i with
    | None => None
    | Some (QProd pc todo) =>
      match todo with
      | [] => None
      | v :: rest =>
        match pc with
        | QPWait =>
          match q_empty s with
          | 0 => None
          | S e => Some (mkQ e (q_used s) (q_slots s) (q_pat s) (q_cat s) (q_pmx s) (q_cmx s)
                             (q_set_thread s i (QProd QPLock todo)) (q_wlog s) (q_rlog s) (q_wtlog s))
          end
        | QPLock =>
          if q_pmx s then None
          else Some (mkQ (q_empty s) (q_used s) (q_slots s) (q_pat s) (q_cat s) true (q_cmx s)
                         (q_set_thread s i (QProd QPWrite todo)) (q_wlog s) (q_rlog s) (q_wtlog s))
        | QPWrite =>
          Some (mkQ (q_empty s) (q_used s) (upd (q_slots s) (q_pat s) v) (q_next (q_pat s)) (q_cat s) false (q_cmx s)
                    (q_set_thread s i (QProd QPUnlock todo)) (q_wlog s ++ [v]) (q_rlog s) (q_wtlog s ++ [(i, v)]))
        | QPUnlock =>
          Some (mkQ (q_empty s) (q_used s) (q_slots s) (q_pat s) (q_cat s) (q_pmx s) (q_cmx s)
                    (q_set_thread s i (QProd QPPost todo)) (q_wlog s) (q_rlog s) (q_wtlog s))
        | QPPost =>
          Some (mkQ (q_empty s) (S (q_used s)) (q_slots s) (q_pat s) (q_cat s) (q_pmx s) (q_cmx s)
                    (q_set_thread s i (QProd QPWait rest)) (q_wlog s) (q_rlog s) (q_wtlog s))
        end
      end
    | Some (QCons pc want got) =>
      match want with
      | 0 => None
      | S w =>
        match pc with
        | QCWait =>
          match q_used s with
          | 0 => None
          | S u => Some (mkQ (q_empty s) u (q_slots s) (q_pat s) (q_cat s) (q_pmx s) (q_cmx s)
                             (q_set_thread s i (QCons QCLock want got)) (q_wlog s) (q_rlog s) (q_wtlog s))
          end
        | QCLock =>
          if q_cmx s then None
          else Some (mkQ (q_empty s) (q_used s) (q_slots s) (q_pat s) (q_cat s) (q_pmx s) true
                         (q_set_thread s i (QCons QCRead want got)) (q_wlog s) (q_rlog s) (q_wtlog s))
        | QCRead =>
          Some (mkQ (q_empty s) (q_used s) (q_slots s) (q_pat s) (q_next (q_cat s)) (q_pmx s) false
                    (q_set_thread s i (QCons QCUnlock want (q_slots s (q_cat s) :: got))) (q_wlog s) (q_rlog s ++ [q_slots s (q_cat s)]) (q_wtlog s))
        | QCUnlock =>
          Some (mkQ (q_empty s) (q_used s) (q_slots s) (q_pat s) (q_cat s) (q_pmx s) (q_cmx s)
                    (q_set_thread s i (QCons QCPost want got)) (q_wlog s) (q_rlog s) (q_wtlog s))
        | QCPost =>
          Some (mkQ (S (q_empty s)) (q_used s) (q_slots s) (q_pat s) (q_cat s) (q_pmx s) (q_cmx s)
                    (q_set_thread s i (QCons QCWait w got)) (q_wlog s) (q_rlog s) (q_wtlog s))
        end
      end
    end.

  Definition pcq_tag (s : qstate) (i : nat) : nat :=
    match nth_error (q_threads s) i with
    | Some (QProd pc _) => match pc with QPWait => 0 | QPLock => 1 | QPWrite => 2 | QPUnlock => 3 | QPPost => 4 end
    | Some (QCons pc _ _) => match pc with QCWait => 5 | QCLock => 6 | QCRead => 7 | QCUnlock => 8 | QCPost => 9 end
    | None => 99
    end.

  Definition qthread_finished (t : qthread) : bool :=
    match t with
    | QProd _ [] => true
    | QCons _ 0 _ => true
    | _ => false
    end.

  Definition pcq_finished (s : qstate) (i : nat) : bool :=
    match nth_error (q_threads s) i with Some t => qthread_finished t | None => true end.
End Pcq.
