(* C16 -- proofs about the UnboundedSingleQueue transition system (UsqDefs.v):
   for every page size P >= 1, every item list and every schedule:
   no access to a freed/unallocated page, no null next pointer, no read of an
   unwritten entry; the consumer receives a prefix of the items in order
   (exactly once); the producer never blocks; the consumer blocks only when
   every posted item has been consumed; every run is finite. *)
From PP Require Import Queues.UsqDefs.
From Coq Require Import Lia.

Lemma skipn_cons_nth_error {A} (l : list A) n v rest :
  skipn n l = v :: rest -> nth_error l n = Some v /\ skipn (S n) l = rest /\ n < length l.
Proof.
  revert n; induction l as [|a l IH]; intros n H.
  - destruct n; discriminate.
  - destruct n as [|n].
    + simpl in H. inversion H; subst. simpl. repeat split; lia.
    + simpl in H. destruct (IH _ H) as (H1 & H2 & H3). simpl. repeat split; auto; lia.
Qed.

Lemma firstn_S_nth_error {A} (l : list A) n v :
  nth_error l n = Some v -> firstn (S n) l = firstn n l ++ [v].
Proof.
  revert n; induction l as [|a l IH]; intros n H.
  - destruct n; discriminate.
  - destruct n as [|n]; simpl in *.
    + inversion H; reflexivity.
    + f_equal. apply IH; exact H.
Qed.

Lemma nth_error_lt_some {A} (l : list A) n : n < length l -> exists v, nth_error l n = Some v.
Proof.
  intros H. destruct (nth_error l n) eqn:E; [eauto|]. apply nth_error_None in E. lia.
Qed.

Section UsqProofs.
  Variable P : nat.
  Hypothesis P_pos : 1 <= P.
  Variable items : list Z.
  Variable want0 : nat.

  Definition uinit := usq_init 0 items want0.

  Definition wcount (s : ustate) : nat := u_fill s * P + u_fidx s.
  Definition rcount (s : ustate) : nat := u_rd s * P + u_ridx s.
  Definition posted (s : ustate) : nat := wcount s - (match u_ppc s with UPPost => 1 | _ => 0 end).
  Definition taken (s : ustate) : nat := rcount s + (match u_cpc s with UCWait => 0 | _ => 1 end).

  Record UInv (s : ustate) : Prop := {
    ui_err : u_err s = None;
    ui_nalloc : u_nalloc s = S (u_fill s);
    ui_rd_le : u_rd s <= u_fill s;
    ui_freed : forall j, j < u_rd s -> u_heap s j = UFreed;
    ui_full : forall j, u_rd s <= j < u_fill s ->
              exists e, u_heap s j = ULive e (Some (S j)) /\ forall i, i < P -> e i = nth_error items (j * P + i);
    ui_fill : exists e, u_heap s (u_fill s) = ULive e None /\
              (forall i, i < u_fidx s -> e i = nth_error items (u_fill s * P + i)) /\
              (forall i, u_fidx s <= i -> e i = None);
    ui_unalloc : forall j, u_fill s < j -> u_heap s j = UUnalloc;
    ui_fidx : u_fidx s <= P;
    ui_ridx : u_ridx s <= P;
    ui_wlen : wcount s <= length items;
    ui_ppost : u_ppc s = UPPost -> 1 <= u_fidx s;
    ui_pwrite : u_ppc s = UPWrite -> u_fidx s < P;
    ui_cread : u_cpc s = UCRead -> u_ridx s < P;
    ui_todo : u_todo s = skipn (posted s) items;
    ui_sem : u_valid s + taken s = posted s;
    ui_got : rev (u_got s) = firstn (rcount s) items;
    ui_want : u_want s + rcount s = want0;
    ui_cidle : u_want s = 0 -> u_cpc s = UCWait;
  }.

  Lemma uinv_init : UInv uinit.
  Proof.
    unfold uinit, usq_init. constructor; simpl; unfold wcount, rcount, posted, taken; simpl;
      try lia; try discriminate; try reflexivity; auto.
    - exists uempty_entries. rewrite upd_same. repeat split; auto. intros i H; lia.
    - intros j H. rewrite upd_other by lia. reflexivity.
  Qed.

  Ltac usimpl := unfold posted, taken in *; unfold wcount, rcount in *; simpl in *.

  Lemma uinv_step s tid s' : UInv s -> usq_step P s tid = Some s' -> UInv s'.
  Proof.
    intros I H. unfold usq_step in H. rewrite (ui_err _ I) in H.
    destruct tid as [|[|tid]]; [| |discriminate].
    - (* producer *)
      unfold usq_step_prod in H.
      destruct (u_todo s) as [|v rest] eqn:Etodo; [discriminate|].
      pose proof (ui_todo _ I) as Htodo. rewrite Etodo in Htodo. symmetry in Htodo.
      apply skipn_cons_nth_error in Htodo. destruct Htodo as (Hnth & Hrest & Hlen).
      destruct (u_ppc s) eqn:Epc.
      + (* link *)
        destruct (Nat.eqb (u_fidx s) P) eqn:Efull.
        * apply Nat.eqb_eq in Efull.
          destruct (ui_fill _ I) as (e & He & Hlow & Hhigh).
          rewrite He in H. inversion H; subst s'; clear H.
          pose proof (ui_nalloc _ I) as Hn.
          destruct I. constructor; usimpl; rewrite ?Epc in *; try lia; try discriminate; auto; try (rewrite <- Etodo, ui_todo0; f_equal; lia).
          -- intros j Hj. rewrite upd_other by lia. rewrite upd_other by lia. auto.
          -- intros j Hj. rewrite Hn in *.
             destruct (Nat.eq_dec j (u_fill s)) as [->|Hne].
             ++ exists e. rewrite upd_same. split; [reflexivity|]. intros i Hi. apply Hlow. lia.
             ++ rewrite upd_other by lia. rewrite upd_other by lia. apply ui_full0. lia.
          -- rewrite Hn. exists uempty_entries. rewrite upd_other by lia. rewrite upd_same.
             repeat split; auto. intros i Hi; lia.
          -- intros j Hj. rewrite Hn in *. rewrite upd_other by lia. rewrite upd_other by lia. apply ui_unalloc0. lia.
        * apply Nat.eqb_neq in Efull.
          inversion H; subst s'; clear H.
          destruct I. constructor; usimpl; rewrite ?Epc in *; try lia; try discriminate; auto; try (rewrite <- Etodo, ui_todo0; f_equal; lia).
      + (* write *)
        destruct (ui_fill _ I) as (e & He & Hlow & Hhigh).
        rewrite He in H. inversion H; subst s'; clear H.
        pose proof (ui_pwrite _ I Epc) as Hlt.
        destruct I. constructor; usimpl; rewrite ?Epc in *; try lia; try discriminate; auto; try (rewrite <- Etodo, ui_todo0; f_equal; lia).
        * intros j Hj. rewrite upd_other by lia. auto.
        * intros j Hj. rewrite upd_other by lia. auto.
        * exists (upd e (u_fidx s) (Some v)). rewrite upd_same. split; [reflexivity|]. split.
          -- intros i Hi. destruct (Nat.eq_dec i (u_fidx s)) as [->|Hne].
             ++ rewrite upd_same. rewrite Nat.sub_0_r in Hnth. symmetry; exact Hnth.
             ++ rewrite upd_other by exact Hne. apply Hlow. lia.
          -- intros i Hi. rewrite upd_other by lia. apply Hhigh. lia.
        * intros j Hj. rewrite upd_other by lia. auto.
      + (* post *)
        inversion H; subst s'; clear H.
        pose proof (ui_ppost _ I Epc) as Hge.
        assert (Hr : rest = skipn (wcount s) items).
        { rewrite <- Hrest. f_equal. unfold posted, wcount. rewrite Epc. lia. }
        clear Hrest Hnth.
        destruct I. constructor; usimpl; rewrite ?Epc in *; try lia; try discriminate; auto.
        rewrite Nat.sub_0_r. exact Hr.
    - (* consumer *)
      unfold usq_step_cons in H.
      destruct (u_want s) as [|w] eqn:Ewant; [discriminate|].
      destruct (u_cpc s) eqn:Epc.
      + (* wait *)
        destruct (u_valid s) as [|vv] eqn:Evalid; [discriminate|].
        inversion H; subst s'; clear H.
        destruct I. constructor; usimpl; rewrite ?Epc, ?Ewant in *; try lia; try discriminate; auto.
      + (* switch *)
        destruct (Nat.eqb (u_ridx s) P) eqn:Efull.
        * apply Nat.eqb_eq in Efull.
          (* an item was taken, so it was posted: the next page exists *)
          assert (Hlt : u_rd s < u_fill s).
          { destruct I. usimpl. rewrite Epc in *.
            destruct (Nat.eq_dec (u_rd s) (u_fill s)) as [Heq|]; [|lia].
            exfalso. rewrite Heq in *. destruct (u_ppc s); lia. }
          destruct (ui_full _ I (u_rd s)) as (e & He & Hent); [lia|].
          rewrite He in H. inversion H; subst s'; clear H.
          destruct I. constructor; usimpl; rewrite ?Epc, ?Ewant in *; try lia; try discriminate; auto.
          -- intros j Hj. destruct (Nat.eq_dec j (u_rd s)) as [->|Hne].
             ++ rewrite upd_same. reflexivity.
             ++ rewrite upd_other by exact Hne. apply ui_freed0. lia.
          -- intros j Hj. rewrite upd_other by lia. apply ui_full0. lia.
          -- destruct ui_fill0 as (e2 & He2 & H2). exists e2. rewrite upd_other by lia. auto.
          -- intros j Hj. rewrite upd_other by lia. auto.
          -- rewrite Nat.add_0_r. rewrite ui_got0. f_equal. lia.
        * apply Nat.eqb_neq in Efull.
          inversion H; subst s'; clear H.
          destruct I. constructor; usimpl; rewrite ?Epc, ?Ewant in *; try lia; try discriminate; auto.
      + (* read *)
        pose proof (ui_cread _ I Epc) as Hlt.
        assert (Hposted : rcount s < posted s).
        { destruct I. usimpl. rewrite Epc in *. lia. }
        assert (Hentry : exists e nx, u_heap s (u_rd s) = ULive e nx /\ e (u_ridx s) = nth_error items (rcount s)).
        { destruct (Nat.eq_dec (u_rd s) (u_fill s)) as [Heq|Hne].
          - destruct (ui_fill _ I) as (e & He & Hlow & _). exists e, None. rewrite Heq. split; [exact He|].
            unfold rcount. rewrite Heq. apply Hlow.
            unfold rcount, posted, wcount in Hposted. rewrite Heq in Hposted. destruct (u_ppc s); lia.
          - pose proof (ui_rd_le _ I).
            destruct (ui_full _ I (u_rd s)) as (e & He & Hent); [lia|].
            exists e, (Some (S (u_rd s))). split; [exact He|]. apply Hent. exact Hlt. }
        destruct Hentry as (e & nx & He & Hv).
        assert (Hin : rcount s < length items).
        { pose proof (ui_wlen _ I). unfold posted in Hposted. lia. }
        destruct (nth_error_lt_some _ _ Hin) as (v & Hnth).
        rewrite He, Hv, Hnth in H. inversion H; subst s'; clear H.
        destruct I. constructor; usimpl; rewrite ?Epc, ?Ewant in *; try lia; try discriminate; auto.
        replace (u_rd s * P + S (u_ridx s)) with (S (u_rd s * P + u_ridx s)) by lia.
        rewrite (firstn_S_nth_error _ _ _ Hnth). rewrite <- ui_got0. reflexivity.
  Qed.

  Lemma uinv_reachable s : reachable (usq_step P) uinit s -> UInv s.
  Proof.
    apply invariant_reachable.
    - exact uinv_init.
    - intros s0 l s1. apply uinv_step.
  Qed.

  (* ---- consequences -------------------------------------------------- *)

  (* memory safety of the page list: no use after free, no null next, no unwritten read *)
  Lemma usq_no_error_proof s : reachable (usq_step P) uinit s -> u_err s = None.
  Proof. intros H. exact (ui_err _ (uinv_reachable _ H)). Qed.

  (* exactly once, in order: consumed ++ in flight ++ not yet produced = items *)
  Lemma usq_fifo_proof s : reachable (usq_step P) uinit s ->
    exists nread nposted,
      rev (u_got s) = firstn nread items /\
      u_todo s = skipn nposted items /\
      nread <= nposted <= length items /\
      u_valid s <= nposted - nread <= u_valid s + 1.
  Proof.
    intros H. pose proof (uinv_reachable _ H) as I.
    exists (rcount s), (posted s). destruct I. split; [exact ui_got0|]. split; [exact ui_todo0|].
    unfold taken, posted in *. destruct (u_cpc s), (u_ppc s); lia.
  Qed.

  (* the producer never blocks *)
  Lemma usq_producer_never_blocks_proof s : reachable (usq_step P) uinit s ->
    usq_finished s 0 = false -> usq_step P s 0 <> None.
  Proof.
    intros H Hf. pose proof (uinv_reachable _ H) as I.
    unfold usq_step. rewrite (ui_err _ I). unfold usq_step_prod. simpl in Hf.
    destruct (u_todo s) as [|v rest]; [discriminate|].
    destruct (u_ppc s).
    - destruct (Nat.eqb (u_fidx s) P); [|discriminate].
      destruct (ui_fill _ I) as (e & He & _). rewrite He. discriminate.
    - destruct (ui_fill _ I) as (e & He & _). rewrite He. discriminate.
    - discriminate.
  Qed.

  (* the consumer is blocked only in valid_.wait() with every posted item consumed;
     if the producer has finished too, the consumer has received every item *)
  Lemma usq_consumer_blocked_proof s : reachable (usq_step P) uinit s ->
    usq_finished s 1 = false -> usq_step P s 1 = None ->
    u_cpc s = UCWait /\ u_valid s = 0 /\
    (exists k, rev (u_got s) = firstn k items /\ u_todo s = skipn k items \/
               rev (u_got s) = firstn k items /\ u_todo s = skipn (S k) items /\ u_ppc s = UPPost) /\
    (usq_finished s 0 = true -> rev (u_got s) = items).
  Proof.
    intros H Hf Hs. pose proof (uinv_reachable _ H) as I.
    unfold usq_step in Hs. rewrite (ui_err _ I) in Hs. unfold usq_step_cons in Hs. simpl in Hf.
    destruct (u_want s) as [|w] eqn:Ew; [discriminate|].
    assert (Hpc : u_cpc s = UCWait /\ u_valid s = 0).
    { destruct (u_cpc s) eqn:Epc.
      - destruct (u_valid s); [auto|discriminate].
      - exfalso. destruct (Nat.eqb (u_ridx s) P) eqn:Efull; [|discriminate].
        apply Nat.eqb_eq in Efull.
        assert (Hlt : u_rd s < u_fill s).
        { destruct I. unfold taken, posted, wcount, rcount in *. rewrite Epc in *.
          destruct (Nat.eq_dec (u_rd s) (u_fill s)) as [Heq|]; [|lia].
          exfalso. rewrite Heq in *. destruct (u_ppc s); lia. }
        destruct (ui_full _ I (u_rd s)) as (e & He & _); [lia|]. rewrite He in Hs. discriminate.
      - exfalso.
        pose proof (ui_cread _ I Epc) as Hlt.
        assert (Hposted : rcount s < posted s).
        { destruct I. unfold taken in *. rewrite Epc in *. lia. }
        assert (Hin : rcount s < length items).
        { pose proof (ui_wlen _ I). unfold posted in Hposted. lia. }
        destruct (nth_error_lt_some _ _ Hin) as (v & Hnth).
        destruct (Nat.eq_dec (u_rd s) (u_fill s)) as [Heq|Hne].
        + destruct (ui_fill _ I) as (e & He & Hlow & _). rewrite Heq in Hs. rewrite He in Hs.
          rewrite Hlow in Hs.
          * unfold rcount in Hnth. rewrite Heq in Hnth. rewrite Hnth in Hs. discriminate.
          * unfold rcount, posted, wcount in Hposted. rewrite Heq in Hposted. destruct (u_ppc s); lia.
        + pose proof (ui_rd_le _ I).
          destruct (ui_full _ I (u_rd s)) as (e & He & Hent); [lia|].
          rewrite He, (Hent _ Hlt) in Hs. unfold rcount in Hnth. rewrite Hnth in Hs. discriminate. }
    destruct Hpc as [Hpc Hv]. split; [exact Hpc|]. split; [exact Hv|].
    destruct I. unfold taken, posted in *. rewrite Hpc, Hv in *. split.
    - exists (rcount s). destruct (u_ppc s) eqn:Epp.
      + left. split; [exact ui_got0|]. rewrite ui_todo0. f_equal. lia.
      + left. split; [exact ui_got0|]. rewrite ui_todo0. f_equal. lia.
      + left. split; [exact ui_got0|]. rewrite ui_todo0. f_equal. lia.
    - intros Hfin. simpl in Hfin. destruct (u_todo s) eqn:Et; [|discriminate].
      rewrite ui_got0.
      assert (Hlen : length items <= wcount s - match u_ppc s with UPPost => 1 | _ => 0 end).
      { destruct (Nat.le_gt_cases (length items) (wcount s - match u_ppc s with UPPost => 1 | _ => 0 end)) as [|Hgt]; [assumption|].
        exfalso. symmetry in ui_todo0. apply (f_equal (@length Z)) in ui_todo0.
        rewrite skipn_length in ui_todo0. simpl in ui_todo0. lia. }
      apply firstn_all2. lia.
  Qed.

  (* termination: a measure that strictly decreases with every step *)
  Definition umeasure (s : ustate) : nat :=
    3 * length (u_todo s) + (match u_ppc s with UPLink => 2 | UPWrite => 1 | UPPost => 0 end)
    + 3 * u_want s + (match u_cpc s with UCWait => 2 | UCSwitch => 1 | UCRead => 0 end)
    + (match u_err s with None => 1 | Some _ => 0 end).

  Lemma usq_measure_decreases_proof s tid s' :
    UInv s -> usq_step P s tid = Some s' -> umeasure s' < umeasure s.
  Proof.
    intros I H. pose proof (uinv_step _ _ _ I H) as I'.
    pose proof (ui_err _ I') as E'. pose proof (ui_err _ I) as E. clear I'.
    unfold usq_step in H. rewrite E in H.
    unfold umeasure. rewrite E, E'.
    destruct tid as [|[|tid]]; [| |discriminate].
    - unfold usq_step_prod in H.
      destruct (u_todo s) as [|v rest] eqn:Etodo; [discriminate|].
      destruct (u_ppc s) eqn:Epc;
        repeat match type of H with
               | context [if ?c then _ else _] => destruct c
               | context [match u_heap s ?x with _ => _ end] => destruct (u_heap s x)
               end;
        inversion H; subst s'; simpl in *; try discriminate; rewrite ?Etodo; simpl; lia.
    - unfold usq_step_cons in H.
      destruct (u_want s) as [|w] eqn:Ew; [discriminate|].
      destruct (u_cpc s) eqn:Epc;
        repeat match type of H with
               | context [if ?c then _ else _] => destruct c
               | context [match u_valid s with _ => _ end] => destruct (u_valid s)
               | context [match u_heap s ?x with _ => _ end] => destruct (u_heap s x) as [| |? [?|]]
               | context [match ?e (u_ridx s) with _ => _ end] => destruct (e (u_ridx s))
               end;
        try discriminate; inversion H; subst s'; simpl in *; try discriminate; rewrite ?Ew; simpl; lia.
  Qed.

  Lemma usq_run_measure ls : forall s s', UInv s -> run (usq_step P) s ls = Some s' -> length ls + umeasure s' <= umeasure s.
  Proof.
    induction ls as [|l r IH]; intros s s0 I H; simpl in H.
    - inversion H; subst; simpl; lia.
    - destruct (usq_step P s l) as [s1|] eqn:E; [|discriminate].
      pose proof (usq_measure_decreases_proof _ _ _ I E).
      pose proof (IH _ _ (uinv_step _ _ _ I E) H). simpl. lia.
  Qed.

  (* every schedule is finite: at most 3*(items + want) + 5 steps *)
  Lemma usq_runs_bounded_proof ls s' :
    run (usq_step P) uinit ls = Some s' -> length ls <= 3 * length items + 3 * want0 + 5.
  Proof.
    intros H. pose proof (usq_run_measure _ _ _ uinv_init H) as B.
    unfold umeasure, uinit, usq_init in B. simpl in B.
    destruct (u_ppc s'), (u_cpc s'), (u_err s'); lia.
  Qed.

  (* when both threads have finished and the consumer asked for all items, it got exactly the items *)
  Lemma usq_complete_proof s : reachable (usq_step P) uinit s ->
    want0 = length items -> usq_finished s 1 = true -> rev (u_got s) = items.
  Proof.
    intros H Hw Hf. pose proof (uinv_reachable _ H) as I. simpl in Hf. apply Nat.eqb_eq in Hf.
    destruct I. rewrite ui_got0. apply firstn_all2. lia.
  Qed.
End UsqProofs.
