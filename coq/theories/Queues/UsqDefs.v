(* C16 -- util::UnboundedSingleQueue (util/pcqueue.hh:238-300) as a transition
   system.  Two threads: producer (tid 0) and consumer (tid 1).  One step = the
   code between two scheduling points (the PREPROCESS_VERIF hooks in the
   source):

     Produce:  [ylink]  if (filling_current_ == filling_end_) { new page; filling_->next = page; SetFilling }
               [ywrite] *(filling_current_++) = val
               [P0]     valid_.post()
     Consume:  [W0]      valid_.wait()
               [yswitch] if (reading_current_ == reading_end_) SetReading(reading_->next)   (deletes the old page)
               [yread]   out = *(reading_current_++)

   The heap is explicit: pages are allocated, linked and deleted, and every
   access to a deleted / unallocated page, a null next pointer, or an entry that
   was never written sets the error flag.  Page size is a parameter (the code
   uses Src_queues.usq_page_size). *)
From PP Require Export Base.LTS.
From Coq Require Export ZArith.

Inductive upage :=
| UUnalloc
| UFreed
| ULive (entries : nat -> option Z) (next : option nat).

Inductive uerr := UUseAfterFree | UNullNext | UReadUnwritten.

Inductive uppc := UPLink | UPWrite | UPPost.
Inductive ucpc := UCWait | UCSwitch | UCRead.

Record ustate := mkU {
  u_valid : nat;              (* semaphore valid_ *)
  u_heap : nat -> upage;      (* page id -> page *)
  u_nalloc : nat;             (* pages allocated so far (next fresh id) *)
  u_fill : nat;               (* filling_ *)
  u_fidx : nat;               (* filling_current_ - filling_->entries *)
  u_rd : nat;                 (* reading_ *)
  u_ridx : nat;               (* reading_current_ - reading_->entries *)
  u_ppc : uppc;
  u_cpc : ucpc;
  u_todo : list Z;            (* values the producer still has to Produce *)
  u_want : nat;               (* Consume calls the consumer still has to make *)
  u_got : list Z;             (* values returned by Consume, newest first *)
  u_err : option uerr }.

Definition uempty_entries : nat -> option Z := fun _ => None.

Definition usq_init (valid0 : nat) (items : list Z) (want : nat) : ustate :=
  mkU valid0 (upd (fun _ => UUnalloc) 0 (ULive uempty_entries None)) 1 0 0 0 0 UPLink UCWait items want [] None.

Definition u_fail (s : ustate) (e : uerr) : ustate :=
  mkU (u_valid s) (u_heap s) (u_nalloc s) (u_fill s) (u_fidx s) (u_rd s) (u_ridx s)
      (u_ppc s) (u_cpc s) (u_todo s) (u_want s) (u_got s) (Some e).

Section Usq.
  Variable P : nat.   (* entries per page *)

  Definition usq_step_prod (s : ustate) : option ustate :=
    match u_todo s with
    | [] => None        (* producer finished *)
    | v :: rest =>
      match u_ppc s with
      | UPLink =>
        if Nat.eqb (u_fidx s) P then
          match u_heap s (u_fill s) with
          | ULive e _ =>
            let n := u_nalloc s in
            Some (mkU (u_valid s)
                      (upd (upd (u_heap s) n (ULive uempty_entries None)) (u_fill s) (ULive e (Some n)))
                      (S n) n 0 (u_rd s) (u_ridx s) UPWrite (u_cpc s) (u_todo s) (u_want s) (u_got s) None)
          | _ => Some (u_fail s UUseAfterFree)
          end
        else Some (mkU (u_valid s) (u_heap s) (u_nalloc s) (u_fill s) (u_fidx s) (u_rd s) (u_ridx s)
                       UPWrite (u_cpc s) (u_todo s) (u_want s) (u_got s) None)
      | UPWrite =>
        match u_heap s (u_fill s) with
        | ULive e nx =>
          Some (mkU (u_valid s) (upd (u_heap s) (u_fill s) (ULive (upd e (u_fidx s) (Some v)) nx))
                    (u_nalloc s) (u_fill s) (S (u_fidx s)) (u_rd s) (u_ridx s)
                    UPPost (u_cpc s) (u_todo s) (u_want s) (u_got s) None)
        | _ => Some (u_fail s UUseAfterFree)
        end
      | UPPost =>
        Some (mkU (S (u_valid s)) (u_heap s) (u_nalloc s) (u_fill s) (u_fidx s) (u_rd s) (u_ridx s)
                  UPLink (u_cpc s) rest (u_want s) (u_got s) None)
      end
    end.

  Definition usq_step_cons (s : ustate) : option ustate :=
    match u_want s with
    | 0 => None         (* consumer finished *)
    | S w =>
      match u_cpc s with
      | UCWait =>
        match u_valid s with
        | 0 => None     (* blocked in valid_.wait() *)
        | S v => Some (mkU v (u_heap s) (u_nalloc s) (u_fill s) (u_fidx s) (u_rd s) (u_ridx s)
                           (u_ppc s) UCSwitch (u_todo s) (u_want s) (u_got s) None)
        end
      | UCSwitch =>
        if Nat.eqb (u_ridx s) P then
          match u_heap s (u_rd s) with
          | ULive _ (Some n) =>
            Some (mkU (u_valid s) (upd (u_heap s) (u_rd s) UFreed) (u_nalloc s) (u_fill s) (u_fidx s) n 0
                      (u_ppc s) UCRead (u_todo s) (u_want s) (u_got s) None)
          | ULive _ None => Some (u_fail s UNullNext)
          | _ => Some (u_fail s UUseAfterFree)
          end
        else Some (mkU (u_valid s) (u_heap s) (u_nalloc s) (u_fill s) (u_fidx s) (u_rd s) (u_ridx s)
                       (u_ppc s) UCRead (u_todo s) (u_want s) (u_got s) None)
      | UCRead =>
        match u_heap s (u_rd s) with
        | ULive e _ =>
          match e (u_ridx s) with
          | Some v => Some (mkU (u_valid s) (u_heap s) (u_nalloc s) (u_fill s) (u_fidx s) (u_rd s) (S (u_ridx s))
                                (u_ppc s) UCWait (u_todo s) w (v :: u_got s) None)
          | None => Some (u_fail s UReadUnwritten)
          end
        | _ => Some (u_fail s UUseAfterFree)
        end
      end
    end.

  (* labels are thread ids; nothing moves once an error is flagged *)
  Definition usq_step (s : ustate) (tid : nat) : option ustate :=
    match u_err s with
    | Some _ => None
    | None =>
      match tid with
      | 0 => usq_step_prod s
      | 1 => usq_step_cons s
      | _ => None
      end
    end.

  (* tag of the scheduling point thread tid is parked at (what the harness reports) *)
  Definition usq_tag (s : ustate) (tid : nat) : nat :=
    match tid with
    | 0 => match u_ppc s with UPLink => 0 | UPWrite => 1 | UPPost => 2 end
    | _ => match u_cpc s with UCWait => 3 | UCSwitch => 4 | UCRead => 5 end
    end.

  Definition usq_finished (s : ustate) (tid : nat) : bool :=
    match tid with
    | 0 => match u_todo s with [] => true | _ => false end
    | 1 => Nat.eqb (u_want s) 0
    | _ => true
    end.
End Usq.
