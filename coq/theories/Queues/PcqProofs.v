(* C16 -- proofs about util::PCQueue (PcqDefs.v): any capacity n >= 1, any number of producer and
   consumer threads with any programs, every schedule at semaphore/mutex granularity. *)
From PP Require Import Queues.PcqDefs Queues.RingProofs.
From Coq Require Import Lia.
Local Open Scope nat_scope.

Definition wsum (f : qthread -> nat) (l : list qthread) : nat := list_sum (map f l).

Lemma wsum_upd f l : forall i t t', nth_error l i = Some t -> wsum f (list_upd l i t') + f t = wsum f l + f t'.
Proof.
  unfold wsum. induction l as [|a l IH]; intros i t t' H.
  - destruct i; discriminate.
  - destruct i as [|i]; simpl in *.
    + inversion H; subst. lia.
    + specialize (IH _ _ t' H). lia.
Qed.

Lemma wsum_ge f l : forall i t, nth_error l i = Some t -> f t <= wsum f l.
Proof.
  unfold wsum. induction l as [|a l IH]; intros i t H.
  - destruct i; discriminate.
  - destruct i as [|i]; simpl in *.
    + inversion H; subst. lia.
    + specialize (IH _ _ H). lia.
Qed.

Lemma wsum_pos_exists f l : 0 < wsum f l -> exists i t, nth_error l i = Some t /\ 0 < f t.
Proof.
  unfold wsum. induction l as [|a l IH]; simpl; intros H; [lia|].
  destruct (f a) eqn:E.
  - destruct (IH ltac:(lia)) as (i & t & Hn & Hp). exists (S i), t. auto.
  - exists 0, a. simpl. split; [reflexivity|lia].
Qed.

Lemma nth_error_upd_same {A} (l : list A) : forall i x t, nth_error l i = Some t -> nth_error (list_upd l i x) i = Some x.
Proof. induction l as [|a l IH]; intros [|i] x t H; simpl in *; try discriminate; auto. eapply IH; eauto. Qed.

Lemma nth_error_upd_other {A} (l : list A) : forall i j x, i <> j -> nth_error (list_upd l i x) j = nth_error l j.
Proof.
  induction l as [|a l IH]; intros i j x H; simpl.
  - destruct i; reflexivity.
  - destruct i as [|i], j as [|j]; simpl; try reflexivity; try lia. apply IH. lia.
Qed.

Lemma firstn_S_nth (l : list Z) k : k < length l -> firstn (S k) l = firstn k l ++ [nth k l 0%Z].
Proof.
  revert k. induction l as [|a l IH]; intros k H; simpl in *; [lia|].
  destruct k as [|k]; [reflexivity|]. simpl. f_equal. apply IH. lia.
Qed.

(* weights *)
Definition pw (t : qthread) : nat := match t with QProd QPLock _ | QProd QPWrite _ => 1 | _ => 0 end.
Definition wr (t : qthread) : nat := match t with QProd QPUnlock _ | QProd QPPost _ => 1 | _ => 0 end.
Definition pcs (t : qthread) : nat := match t with QProd QPWrite _ => 1 | _ => 0 end.
Definition cw (t : qthread) : nat := match t with QCons QCLock _ _ | QCons QCRead _ _ => 1 | _ => 0 end.
Definition rd (t : qthread) : nat := match t with QCons QCUnlock _ _ | QCons QCPost _ _ => 1 | _ => 0 end.
Definition ccs (t : qthread) : nat := match t with QCons QCRead _ _ => 1 | _ => 0 end.

Definition thread_wf (t : qthread) : Prop :=
  match t with
  | QProd pc [] => pc = QPWait
  | QCons pc 0 _ => pc = QCWait
  | _ => True
  end.

Section PcqProofs.
  Variable n : nat.
  Hypothesis Hn : 1 <= n.
  Variable threads0 : list qthread.
  Hypothesis Hwf0 : forall i t, nth_error threads0 i = Some t -> thread_wf t /\ pw t + wr t + cw t + rd t = 0.

  Definition qinit := pcq_init n 0 threads0.

  Record QInv (s : qstate) : Prop := {
    qi_tok : q_empty s + q_used s + wsum pw (q_threads s) + wsum wr (q_threads s)
             + wsum cw (q_threads s) + wsum rd (q_threads s) = n;
    qi_cnt : length (q_wlog s) = length (q_rlog s) + q_used s + wsum wr (q_threads s) + wsum cw (q_threads s);
    qi_pat : q_pat s = length (q_wlog s) mod n;
    qi_cat : q_cat s = length (q_rlog s) mod n;
    qi_pmx : wsum pcs (q_threads s) = if q_pmx s then 1 else 0;
    qi_cmx : wsum ccs (q_threads s) = if q_cmx s then 1 else 0;
    qi_slots : forall i, length (q_rlog s) <= i < length (q_wlog s) -> q_slots s (i mod n) = nth i (q_wlog s) 0%Z;
    qi_fifo : q_rlog s = firstn (length (q_rlog s)) (q_wlog s);
    qi_wf : forall i t, nth_error (q_threads s) i = Some t -> thread_wf t;
  }.

  Lemma wsum_zero_init f : (forall t, pw t + wr t + cw t + rd t = 0 -> f t = 0) -> wsum f threads0 = 0.
  Proof.
    intros Hf. unfold wsum.
    assert (G : forall l, (forall i t, nth_error l i = Some t -> f t = 0) -> list_sum (map f l) = 0).
    { induction l as [|a l IH]; intros H; simpl; [reflexivity|].
      rewrite (H 0 a eq_refl). simpl. apply IH. intros i t Ht. apply (H (S i) t Ht). }
    apply G. intros i t Ht. apply Hf. apply (Hwf0 i t Ht).
  Qed.

  Lemma qinv_init : QInv qinit.
  Proof.
    unfold qinit, pcq_init.
    constructor; simpl.
    - rewrite !wsum_zero_init; [lia| | | |]; intros t Ht; lia.
    - rewrite !wsum_zero_init; [lia| |]; intros t Ht; lia.
    - rewrite Nat.mod_0_l by lia. reflexivity.
    - rewrite Nat.mod_0_l by lia. reflexivity.
    - apply wsum_zero_init. intros t Ht. destruct t as [[] ?|[] ? ?]; simpl in *; lia.
    - apply wsum_zero_init. intros t Ht. destruct t as [[] ?|[] ? ?]; simpl in *; lia.
    - intros i Hi. lia.
    - reflexivity.
    - intros i t Ht. apply (Hwf0 i t Ht).
  Qed.

  Lemma q_next_mod x : q_next n (x mod n) = (S x) mod n.
  Proof. exact (next_mod n x Hn). Qed.

  Ltac upd_sums Hnth :=
    repeat match goal with
           | |- context [wsum ?f (list_upd ?l ?i ?t')] =>
             let H := fresh "Hs" in
             pose proof (wsum_upd f l i _ t' Hnth) as H; simpl in H;
             generalize dependent (wsum f (list_upd l i t')); intros
           end.

  Lemma qinv_step s i s' : QInv s -> pcq_step n s i = Some s' -> QInv s'.
  Proof.
    intros J H. unfold pcq_step in H.
    destruct (nth_error (q_threads s) i) as [t|] eqn:Hnth; [|discriminate].
    destruct J as [Jtok Jcnt Jpat Jcat Jpmx Jcmx Jslots Jfifo Jwf].
    pose proof (Jwf i t Hnth) as Hwft.
    assert (Hwf' : forall t', thread_wf t' -> forall j u, nth_error (list_upd (q_threads s) i t') j = Some u -> thread_wf u).
    { intros t' Ht' j u Hu. destruct (Nat.eq_dec i j) as [->|Hne].
      - rewrite (nth_error_upd_same _ _ _ _ Hnth) in Hu. inversion Hu; subst; exact Ht'.
      - rewrite nth_error_upd_other in Hu by exact Hne. exact (Jwf j u Hu). }
    pose proof (wsum_ge pw _ _ _ Hnth) as Gpw. pose proof (wsum_ge cw _ _ _ Hnth) as Gcw.
    destruct t as [pc todo|pc want got].
    - destruct todo as [|v rest]; [discriminate|].
      destruct pc.
      + (* wait empty *)
        destruct (q_empty s) as [|e] eqn:Ee; [discriminate|]. inversion H; subst s'; clear H.
        constructor; simpl; unfold q_set_thread; auto.
        * pose proof (wsum_upd pw _ _ _ (QProd QPLock (v :: rest)) Hnth); pose proof (wsum_upd wr _ _ _ (QProd QPLock (v :: rest)) Hnth);
            pose proof (wsum_upd cw _ _ _ (QProd QPLock (v :: rest)) Hnth); pose proof (wsum_upd rd _ _ _ (QProd QPLock (v :: rest)) Hnth). simpl in *. lia.
        * pose proof (wsum_upd wr _ _ _ (QProd QPLock (v :: rest)) Hnth); pose proof (wsum_upd cw _ _ _ (QProd QPLock (v :: rest)) Hnth). simpl in *. lia.
        * pose proof (wsum_upd pcs _ _ _ (QProd QPLock (v :: rest)) Hnth). simpl in *. lia.
        * pose proof (wsum_upd ccs _ _ _ (QProd QPLock (v :: rest)) Hnth). simpl in *. lia.
        * apply Hwf'. exact I.
      + (* lock *)
        destruct (q_pmx s) eqn:Em; [discriminate|]. inversion H; subst s'; clear H.
        constructor; simpl; unfold q_set_thread; auto.
        * pose proof (wsum_upd pw _ _ _ (QProd QPWrite (v :: rest)) Hnth); pose proof (wsum_upd wr _ _ _ (QProd QPWrite (v :: rest)) Hnth);
            pose proof (wsum_upd cw _ _ _ (QProd QPWrite (v :: rest)) Hnth); pose proof (wsum_upd rd _ _ _ (QProd QPWrite (v :: rest)) Hnth). simpl in *. lia.
        * pose proof (wsum_upd wr _ _ _ (QProd QPWrite (v :: rest)) Hnth); pose proof (wsum_upd cw _ _ _ (QProd QPWrite (v :: rest)) Hnth). simpl in *. lia.
        * pose proof (wsum_upd pcs _ _ _ (QProd QPWrite (v :: rest)) Hnth). simpl in *. lia.
        * pose proof (wsum_upd ccs _ _ _ (QProd QPWrite (v :: rest)) Hnth). simpl in *. lia.
        * apply Hwf'. exact I.
      + (* write *)
        inversion H; subst s'; clear H. simpl in Gpw.
        assert (Hroom : length (q_wlog s) - length (q_rlog s) < n) by lia.
        constructor; simpl; unfold q_set_thread; auto; rewrite ?app_length; simpl.
        * pose proof (wsum_upd pw _ _ _ (QProd QPUnlock (v :: rest)) Hnth); pose proof (wsum_upd wr _ _ _ (QProd QPUnlock (v :: rest)) Hnth);
            pose proof (wsum_upd cw _ _ _ (QProd QPUnlock (v :: rest)) Hnth); pose proof (wsum_upd rd _ _ _ (QProd QPUnlock (v :: rest)) Hnth). simpl in *. lia.
        * pose proof (wsum_upd wr _ _ _ (QProd QPUnlock (v :: rest)) Hnth); pose proof (wsum_upd cw _ _ _ (QProd QPUnlock (v :: rest)) Hnth). simpl in *. lia.
        * rewrite Jpat, q_next_mod. f_equal. lia.
        * pose proof (wsum_upd pcs _ _ _ (QProd QPUnlock (v :: rest)) Hnth). simpl in *. destruct (q_pmx s); lia.
        * pose proof (wsum_upd ccs _ _ _ (QProd QPUnlock (v :: rest)) Hnth). simpl in *. lia.
        * intros j Hj. rewrite Jpat.
          destruct (Nat.eq_dec j (length (q_wlog s))) as [->|Hne].
          -- rewrite upd_same. rewrite app_nth2 by lia. rewrite Nat.sub_diag. reflexivity.
          -- rewrite upd_other by (apply mod_neq; lia). rewrite app_nth1 by lia. apply Jslots. lia.
        * rewrite firstn_app. replace (length (q_rlog s) - length (q_wlog s)) with 0 by lia.
          simpl. rewrite app_nil_r. exact Jfifo.
        * apply Hwf'. exact I.
      + (* unlock *)
        inversion H; subst s'; clear H.
        constructor; simpl; unfold q_set_thread; auto.
        * pose proof (wsum_upd pw _ _ _ (QProd QPPost (v :: rest)) Hnth); pose proof (wsum_upd wr _ _ _ (QProd QPPost (v :: rest)) Hnth);
            pose proof (wsum_upd cw _ _ _ (QProd QPPost (v :: rest)) Hnth); pose proof (wsum_upd rd _ _ _ (QProd QPPost (v :: rest)) Hnth). simpl in *. lia.
        * pose proof (wsum_upd wr _ _ _ (QProd QPPost (v :: rest)) Hnth); pose proof (wsum_upd cw _ _ _ (QProd QPPost (v :: rest)) Hnth). simpl in *. lia.
        * pose proof (wsum_upd pcs _ _ _ (QProd QPPost (v :: rest)) Hnth). simpl in *. lia.
        * pose proof (wsum_upd ccs _ _ _ (QProd QPPost (v :: rest)) Hnth). simpl in *. lia.
        * apply Hwf'. exact I.
      + (* post used *)
        inversion H; subst s'; clear H.
        constructor; simpl; unfold q_set_thread; auto.
        * pose proof (wsum_upd pw _ _ _ (QProd QPWait rest) Hnth); pose proof (wsum_upd wr _ _ _ (QProd QPWait rest) Hnth);
            pose proof (wsum_upd cw _ _ _ (QProd QPWait rest) Hnth); pose proof (wsum_upd rd _ _ _ (QProd QPWait rest) Hnth). simpl in *. lia.
        * pose proof (wsum_upd wr _ _ _ (QProd QPWait rest) Hnth); pose proof (wsum_upd cw _ _ _ (QProd QPWait rest) Hnth). simpl in *. lia.
        * pose proof (wsum_upd pcs _ _ _ (QProd QPWait rest) Hnth). simpl in *. lia.
        * pose proof (wsum_upd ccs _ _ _ (QProd QPWait rest) Hnth). simpl in *. lia.
        * apply Hwf'. simpl. destruct rest; auto.
    - destruct want as [|w]; [discriminate|].
      destruct pc.
      + (* wait used *)
        destruct (q_used s) as [|u] eqn:Eu; [discriminate|]. inversion H; subst s'; clear H.
        constructor; simpl; unfold q_set_thread; auto.
        * pose proof (wsum_upd pw _ _ _ (QCons QCLock (S w) got) Hnth); pose proof (wsum_upd wr _ _ _ (QCons QCLock (S w) got) Hnth);
            pose proof (wsum_upd cw _ _ _ (QCons QCLock (S w) got) Hnth); pose proof (wsum_upd rd _ _ _ (QCons QCLock (S w) got) Hnth). simpl in *. lia.
        * pose proof (wsum_upd wr _ _ _ (QCons QCLock (S w) got) Hnth); pose proof (wsum_upd cw _ _ _ (QCons QCLock (S w) got) Hnth). simpl in *. lia.
        * pose proof (wsum_upd pcs _ _ _ (QCons QCLock (S w) got) Hnth). simpl in *. lia.
        * pose proof (wsum_upd ccs _ _ _ (QCons QCLock (S w) got) Hnth). simpl in *. lia.
        * apply Hwf'. exact I.
      + (* lock *)
        destruct (q_cmx s) eqn:Em; [discriminate|]. inversion H; subst s'; clear H.
        constructor; simpl; unfold q_set_thread; auto.
        * pose proof (wsum_upd pw _ _ _ (QCons QCRead (S w) got) Hnth); pose proof (wsum_upd wr _ _ _ (QCons QCRead (S w) got) Hnth);
            pose proof (wsum_upd cw _ _ _ (QCons QCRead (S w) got) Hnth); pose proof (wsum_upd rd _ _ _ (QCons QCRead (S w) got) Hnth). simpl in *. lia.
        * pose proof (wsum_upd wr _ _ _ (QCons QCRead (S w) got) Hnth); pose proof (wsum_upd cw _ _ _ (QCons QCRead (S w) got) Hnth). simpl in *. lia.
        * pose proof (wsum_upd pcs _ _ _ (QCons QCRead (S w) got) Hnth). simpl in *. lia.
        * pose proof (wsum_upd ccs _ _ _ (QCons QCRead (S w) got) Hnth). simpl in *. lia.
        * apply Hwf'. exact I.
      + (* read *)
        inversion H; subst s'; clear H. simpl in Gcw.
        assert (Havail : length (q_rlog s) < length (q_wlog s)) by lia.
        assert (Hval : q_slots s (q_cat s) = nth (length (q_rlog s)) (q_wlog s) 0%Z).
        { rewrite Jcat. apply Jslots. lia. }
        constructor; simpl; unfold q_set_thread; auto; rewrite ?app_length; simpl.
        * pose proof (wsum_upd pw _ _ _ (QCons QCUnlock (S w) (q_slots s (q_cat s) :: got)) Hnth); pose proof (wsum_upd wr _ _ _ (QCons QCUnlock (S w) (q_slots s (q_cat s) :: got)) Hnth);
            pose proof (wsum_upd cw _ _ _ (QCons QCUnlock (S w) (q_slots s (q_cat s) :: got)) Hnth); pose proof (wsum_upd rd _ _ _ (QCons QCUnlock (S w) (q_slots s (q_cat s) :: got)) Hnth). simpl in *. lia.
        * pose proof (wsum_upd wr _ _ _ (QCons QCUnlock (S w) (q_slots s (q_cat s) :: got)) Hnth); pose proof (wsum_upd cw _ _ _ (QCons QCUnlock (S w) (q_slots s (q_cat s) :: got)) Hnth). simpl in *. lia.
        * rewrite Jcat, q_next_mod. f_equal. lia.
        * pose proof (wsum_upd pcs _ _ _ (QCons QCUnlock (S w) (q_slots s (q_cat s) :: got)) Hnth). simpl in *. lia.
        * pose proof (wsum_upd ccs _ _ _ (QCons QCUnlock (S w) (q_slots s (q_cat s) :: got)) Hnth). simpl in *. destruct (q_cmx s); lia.
        * intros j Hj. apply Jslots. lia.
        * rewrite Hval. replace (length (q_rlog s) + 1) with (S (length (q_rlog s))) by lia.
          rewrite firstn_S_nth by lia. rewrite <- Jfifo. reflexivity.
        * apply Hwf'. exact I.
      + (* unlock *)
        inversion H; subst s'; clear H.
        constructor; simpl; unfold q_set_thread; auto.
        * pose proof (wsum_upd pw _ _ _ (QCons QCPost (S w) got) Hnth); pose proof (wsum_upd wr _ _ _ (QCons QCPost (S w) got) Hnth);
            pose proof (wsum_upd cw _ _ _ (QCons QCPost (S w) got) Hnth); pose proof (wsum_upd rd _ _ _ (QCons QCPost (S w) got) Hnth). simpl in *. lia.
        * pose proof (wsum_upd wr _ _ _ (QCons QCPost (S w) got) Hnth); pose proof (wsum_upd cw _ _ _ (QCons QCPost (S w) got) Hnth). simpl in *. lia.
        * pose proof (wsum_upd pcs _ _ _ (QCons QCPost (S w) got) Hnth). simpl in *. lia.
        * pose proof (wsum_upd ccs _ _ _ (QCons QCPost (S w) got) Hnth). simpl in *. lia.
        * apply Hwf'. exact I.
      + (* post empty *)
        inversion H; subst s'; clear H.
        constructor; simpl; unfold q_set_thread; auto.
        * pose proof (wsum_upd pw _ _ _ (QCons QCWait w got) Hnth); pose proof (wsum_upd wr _ _ _ (QCons QCWait w got) Hnth);
            pose proof (wsum_upd cw _ _ _ (QCons QCWait w got) Hnth); pose proof (wsum_upd rd _ _ _ (QCons QCWait w got) Hnth). simpl in *. lia.
        * pose proof (wsum_upd wr _ _ _ (QCons QCWait w got) Hnth); pose proof (wsum_upd cw _ _ _ (QCons QCWait w got) Hnth). simpl in *. lia.
        * pose proof (wsum_upd pcs _ _ _ (QCons QCWait w got) Hnth). simpl in *. lia.
        * pose proof (wsum_upd ccs _ _ _ (QCons QCWait w got) Hnth). simpl in *. lia.
        * apply Hwf'. simpl. destruct w; auto.
  Qed.

  Lemma qinv_reachable s : reachable (pcq_step n) qinit s -> QInv s.
  Proof. apply invariant_reachable; [exact qinv_init|]. intros s0 l s1. apply qinv_step. Qed.
End PcqProofs.

(* ---- consequences ---- *)
Section PcqTheorems.
  Variable n : nat.
  Hypothesis Hn : 1 <= n.
  Variable threads0 : list qthread.
  Hypothesis Hwf0 : forall i t, nth_error threads0 i = Some t -> thread_wf t /\ pw t + wr t + cw t + rd t = 0.

  Notation qinit := (qinit n threads0).

  (* exactly once, in order (global FIFO): the values copied out of the slots, in the order of the
     copies, are a prefix of the values stored into the slots, in the order of the stores; what is in
     between is exactly what the semaphores and the threads inside Produce/Consume account for *)
  Lemma pcq_fifo_proof s : reachable (pcq_step n) qinit s ->
    q_rlog s = firstn (length (q_rlog s)) (q_wlog s) /\
    length (q_rlog s) <= length (q_wlog s) /\ length (q_wlog s) - length (q_rlog s) <= n.
  Proof.
    intros Hr. destruct (qinv_reachable n Hn threads0 Hwf0 s Hr) as [Jtok Jcnt Jpat Jcat Jpmx Jcmx Jslots Jfifo Jwf].
    split; [exact Jfifo|]. lia.
  Qed.

  (* slot exclusivity: a producer about to store into its slot and a consumer about to copy from its
     slot never address the same slot, and the producer's slot is none of the stored-but-unread ones;
     two producers (two consumers) are never inside their critical section together *)
  Lemma pcq_slots_exclusive_proof s : reachable (pcq_step n) qinit s ->
    (forall i j todo want got,
        nth_error (q_threads s) i = Some (QProd QPWrite todo) ->
        nth_error (q_threads s) j = Some (QCons QCRead want got) -> q_pat s <> q_cat s) /\
    (forall i todo k, nth_error (q_threads s) i = Some (QProd QPWrite todo) ->
        length (q_rlog s) <= k < length (q_wlog s) -> q_pat s <> k mod n) /\
    (forall i j t u, i <> j -> nth_error (q_threads s) i = Some t -> nth_error (q_threads s) j = Some u ->
        pcs t + pcs u <= 1 /\ ccs t + ccs u <= 1).
  Proof.
    intros Hr. destruct (qinv_reachable n Hn threads0 Hwf0 s Hr) as [Jtok Jcnt Jpat Jcat Jpmx Jcmx Jslots Jfifo Jwf].
    split; [|split].
    - intros i j todo want got Hi Hj.
      pose proof (wsum_ge pw _ _ _ Hi) as G1. pose proof (wsum_ge cw _ _ _ Hj) as G2. simpl in G1, G2.
      rewrite Jpat, Jcat. apply not_eq_sym. apply mod_neq; lia.
    - intros i todo k Hi Hk.
      pose proof (wsum_ge pw _ _ _ Hi) as G1. simpl in G1.
      rewrite Jpat. apply not_eq_sym. apply mod_neq; lia.
    - intros i j t u Hne Hi Hj.
      assert (G : forall f, f t + f u <= wsum f (q_threads s)).
      { intros f. clear - Hne Hi Hj. revert i j Hne Hi Hj. unfold wsum.
        induction (q_threads s) as [|a l IH]; intros i j Hne Hi Hj; [destruct i; discriminate|].
        destruct i as [|i], j as [|j]; simpl in *; try lia.
        - inversion Hi; subst. pose proof (wsum_ge f l j u Hj). unfold wsum in *. lia.
        - inversion Hj; subst. pose proof (wsum_ge f l i t Hi). unfold wsum in *. lia.
        - specialize (IH i j ltac:(lia) Hi Hj). lia. }
      pose proof (G pcs). pose proof (G ccs). destruct (q_pmx s), (q_cmx s); lia.
  Qed.

  Lemma wsum_all_zero f (l : list qthread) : (forall i t, nth_error l i = Some t -> f t = 0) -> wsum f l = 0.
  Proof.
    unfold wsum. induction l as [|a l IH]; intros H; simpl; [reflexivity|].
    rewrite (H 0 a eq_refl). simpl. apply IH. intros i t Ht. apply (H (S i) t Ht).
  Qed.

  (* no thread is blocked forever while a matching partner exists: if NO thread can take a step, every
     thread sits at the start of Produce/Consume (finished, or in its semaphore wait), and the unfinished
     threads are all producers (queue full: n stored-but-unread items, no consumer left) or all
     consumers (queue empty, no producer left) *)
  Lemma pcq_no_stuck_proof s : reachable (pcq_step n) qinit s ->
    (forall i, pcq_step n s i = None) ->
    (forall i t, nth_error (q_threads s) i = Some t ->
        (exists todo, t = QProd QPWait todo) \/ (exists want got, t = QCons QCWait want got)) /\
    ((exists i v todo, nth_error (q_threads s) i = Some (QProd QPWait (v :: todo))) ->
        q_empty s = 0 /\ length (q_wlog s) = length (q_rlog s) + n /\
        forall j want got, nth_error (q_threads s) j = Some (QCons QCWait want got) -> want = 0) /\
    ((exists j w got, nth_error (q_threads s) j = Some (QCons QCWait (S w) got)) ->
        q_used s = 0 /\ length (q_wlog s) = length (q_rlog s) /\
        forall i todo, nth_error (q_threads s) i = Some (QProd QPWait todo) -> todo = []).
  Proof.
    intros Hr Hst. destruct (qinv_reachable n Hn threads0 Hwf0 s Hr) as [Jtok Jcnt Jpat Jcat Jpmx Jcmx Jslots Jfifo Jwf].
    (* a thread inside a critical section can always move *)
    assert (Hnopcs : wsum pcs (q_threads s) = 0).
    { destruct (Nat.eq_dec (wsum pcs (q_threads s)) 0) as [|Hne]; [assumption|exfalso].
      destruct (wsum_pos_exists pcs (q_threads s) ltac:(lia)) as (k & u & Hu & Hp).
      specialize (Hst k). unfold pcq_step in Hst. rewrite Hu in Hst. pose proof (Jwf k u Hu) as Hw.
      destruct u as [pcu [|v r]|pcu wu gu]; simpl in Hp, Hw; subst; simpl in Hp; try lia.
      destruct pcu; simpl in Hp; try lia; discriminate. }
    assert (Hnoccs : wsum ccs (q_threads s) = 0).
    { destruct (Nat.eq_dec (wsum ccs (q_threads s)) 0) as [|Hne]; [assumption|exfalso].
      destruct (wsum_pos_exists ccs (q_threads s) ltac:(lia)) as (k & u & Hu & Hp).
      specialize (Hst k). unfold pcq_step in Hst. rewrite Hu in Hst. pose proof (Jwf k u Hu) as Hw.
      destruct u as [pcu tu|pcu [|wu] gu]; simpl in Hp, Hw; subst; simpl in Hp; try lia.
      destruct pcu; simpl in Hp; try lia; discriminate. }
    assert (Hpm : q_pmx s = false) by (destruct (q_pmx s); [lia|reflexivity]).
    assert (Hcm : q_cmx s = false) by (destruct (q_cmx s); [lia|reflexivity]).
    assert (Hshape : forall i t, nth_error (q_threads s) i = Some t ->
              (exists todo, t = QProd QPWait todo) \/ (exists want got, t = QCons QCWait want got)).
    { intros i t Ht. specialize (Hst i). unfold pcq_step in Hst. rewrite Ht in Hst. pose proof (Jwf i t Ht) as Hw.
      destruct t as [pc [|v r]|pc [|w] g]; simpl in Hw; subst; eauto.
      - destruct pc; eauto; try discriminate. rewrite Hpm in Hst. discriminate.
      - destruct pc; eauto; try discriminate. rewrite Hcm in Hst. discriminate. }
    assert (Hz : forall f, (forall todo, f (QProd QPWait todo) = 0) -> (forall w g, f (QCons QCWait w g) = 0) -> wsum f (q_threads s) = 0).
    { intros f H1 H2. apply wsum_all_zero. intros i t Ht. destruct (Hshape i t Ht) as [[todo ->]|[w [g ->]]]; auto. }
    rewrite (Hz pw), (Hz wr), (Hz cw), (Hz rd) in Jtok by reflexivity.
    rewrite (Hz wr), (Hz cw) in Jcnt by reflexivity.
    split; [exact Hshape|]. split.
    - intros (i & v & todo & Hi).
      assert (He : q_empty s = 0).
      { specialize (Hst i). unfold pcq_step in Hst. rewrite Hi in Hst. destruct (q_empty s); [reflexivity|discriminate]. }
      split; [exact He|]. split; [lia|].
      intros j want got Hj. specialize (Hst j). unfold pcq_step in Hst. rewrite Hj in Hst.
      destruct want as [|w]; [reflexivity|]. destruct (q_used s) eqn:Eu; [lia|discriminate].
    - intros (j & w & got & Hj).
      assert (Hu : q_used s = 0).
      { specialize (Hst j). unfold pcq_step in Hst. rewrite Hj in Hst. destruct (q_used s); [reflexivity|discriminate]. }
      split; [exact Hu|]. split; [lia|].
      intros i todo Hi. specialize (Hst i). unfold pcq_step in Hst. rewrite Hi in Hst.
      destruct todo as [|v r]; [reflexivity|]. destruct (q_empty s) eqn:Ee; [lia|discriminate].
  Qed.
End PcqTheorems.

(* ---- termination: every step of any thread decreases the sum of the threads' remaining work ---- *)
Definition tw (t : qthread) : nat :=
  match t with
  | QProd pc todo => 5 * length todo + match pc with QPWait => 4 | QPLock => 3 | QPWrite => 2 | QPUnlock => 1 | QPPost => 0 end
  | QCons pc want _ => 5 * want + match pc with QCWait => 4 | QCLock => 3 | QCRead => 2 | QCUnlock => 1 | QCPost => 0 end
  end.

Lemma pcq_step_decreases n s i s' : pcq_step n s i = Some s' -> wsum tw (q_threads s') < wsum tw (q_threads s).
Proof.
  intros H. unfold pcq_step in H.
  destruct (nth_error (q_threads s) i) as [t|] eqn:Hnth; [|discriminate].
  destruct t as [pc [|v rest]|pc [|w] got]; try discriminate.
  - destruct pc;
      repeat match type of H with
             | context [match q_empty s with _ => _ end] => destruct (q_empty s)
             | context [if ?c then _ else _] => destruct c
             end; try discriminate; inversion H; subst s'; clear H; simpl; unfold q_set_thread;
      match goal with |- wsum tw (list_upd _ _ ?t') < _ => pose proof (wsum_upd tw _ _ _ t' Hnth) as Hs end; simpl in Hs; lia.
  - destruct pc;
      repeat match type of H with
             | context [match q_used s with _ => _ end] => destruct (q_used s)
             | context [if ?c then _ else _] => destruct c
             end; try discriminate; inversion H; subst s'; clear H; simpl; unfold q_set_thread;
      match goal with |- wsum tw (list_upd _ _ ?t') < _ => pose proof (wsum_upd tw _ _ _ t' Hnth) as Hs end; simpl in Hs; lia.
Qed.

Lemma pcq_runs_bounded_proof n ls : forall s s', run (pcq_step n) s ls = Some s' -> length ls + wsum tw (q_threads s') <= wsum tw (q_threads s).
Proof.
  induction ls as [|l r IH]; intros s s0 H; simpl in H.
  - inversion H; subst; simpl; lia.
  - destruct (pcq_step n s l) as [s1|] eqn:E; [|discriminate].
    pose proof (pcq_step_decreases _ _ _ _ E). pose proof (IH _ _ H). simpl. lia.
Qed.

(* ---- in production order per producer ---- *)
(* values stored by thread i, in store order *)
Definition stored_by (i : nat) (s : qstate) : list Z :=
  map snd (filter (fun e => Nat.eqb (fst e) i) (q_wtlog s)).

(* what thread i still has to store *)
Definition to_store (t : qthread) : list Z :=
  match t with
  | QProd QPUnlock todo | QProd QPPost todo => tl todo
  | QProd _ todo => todo
  | QCons _ _ _ => []
  end.

Section PcqOrder.
  Variable n : nat.
  Variable threads0 : list qthread.

  Record OInv (s : qstate) : Prop := {
    oi_tags : map snd (q_wtlog s) = q_wlog s;
    oi_len : length (q_threads s) = length threads0;
    oi_prod : forall i t0 t, nth_error threads0 i = Some t0 -> nth_error (q_threads s) i = Some t ->
              stored_by i s ++ to_store t = to_store t0;
  }.

  Lemma oinv_init : OInv (pcq_init n 0 threads0).
  Proof.
    constructor; simpl; auto.
    intros i t0 t H0 H. rewrite H0 in H. inversion H; subst. reflexivity.
  Qed.

  Lemma stored_by_app i (l : list (nat * Z)) (e : nat * Z) : 
    map snd (filter (fun x => Nat.eqb (fst x) i) (l ++ [e])) =
    map snd (filter (fun x => Nat.eqb (fst x) i) l) ++ (if Nat.eqb (fst e) i then [snd e] else []).
  Proof. rewrite filter_app, map_app. simpl. destruct (Nat.eqb (fst e) i); reflexivity. Qed.

  Lemma list_upd_length {A} (l : list A) i x : length (list_upd l i x) = length l.
  Proof. revert i. induction l as [|a l IH]; intros [|i]; simpl; auto. Qed.

  Lemma oinv_step s i s' : OInv s -> pcq_step n s i = Some s' -> OInv s'.
  Proof.
    intros [Ot Ol Op] H. unfold pcq_step in H.
    destruct (nth_error (q_threads s) i) as [t|] eqn:Hnth; [|discriminate].
    (* generic: a step of thread i that stores nothing and keeps to_store *)
    assert (Hkeep : forall t', to_store t' = to_store t -> forall s1,
               q_threads s1 = list_upd (q_threads s) i t' -> q_wtlog s1 = q_wtlog s -> q_wlog s1 = q_wlog s -> OInv s1).
    { intros t' Hts s1 Hth Hw Hl. constructor.
      - rewrite Hw, Hl. exact Ot.
      - rewrite Hth, list_upd_length. exact Ol.
      - intros j t0 u H0 Hu. rewrite Hth in Hu. unfold stored_by. rewrite Hw.
        destruct (Nat.eq_dec i j) as [->|Hne].
        + rewrite (nth_error_upd_same _ _ _ _ Hnth) in Hu. inversion Hu; subst u. rewrite Hts. apply (Op j t0 t H0 Hnth).
        + rewrite nth_error_upd_other in Hu by exact Hne. apply (Op j t0 u H0 Hu). }
    destruct t as [pc [|v rest]|pc [|w] got]; try discriminate.
    - destruct pc.
      + destruct (q_empty s); [discriminate|]. inversion H; subst s'. apply (Hkeep (QProd QPLock (v :: rest))); reflexivity.
      + destruct (q_pmx s); [discriminate|]. inversion H; subst s'. apply (Hkeep (QProd QPWrite (v :: rest))); reflexivity.
      + (* the store *)
        inversion H; subst s'; clear H. constructor; simpl.
        * rewrite map_app, Ot. reflexivity.
        * unfold q_set_thread. rewrite list_upd_length. exact Ol.
        * intros j t0 u H0 Hu. unfold q_set_thread in Hu. unfold stored_by. simpl. rewrite stored_by_app. simpl.
          destruct (Nat.eq_dec i j) as [->|Hne].
          -- rewrite (nth_error_upd_same _ _ _ _ Hnth) in Hu. inversion Hu; subst u. rewrite Nat.eqb_refl. simpl.
             rewrite <- (Op j t0 _ H0 Hnth). simpl. rewrite <- app_assoc. reflexivity.
          -- rewrite nth_error_upd_other in Hu by exact Hne.
             rewrite (proj2 (Nat.eqb_neq i j) Hne). rewrite app_nil_r. apply (Op j t0 u H0 Hu).
      + inversion H; subst s'. apply (Hkeep (QProd QPPost (v :: rest))); reflexivity.
      + inversion H; subst s'. apply (Hkeep (QProd QPWait rest)); reflexivity.
    - destruct pc.
      + destruct (q_used s); [discriminate|]. inversion H; subst s'. apply (Hkeep (QCons QCLock (S w) got)); reflexivity.
      + destruct (q_cmx s); [discriminate|]. inversion H; subst s'. apply (Hkeep (QCons QCRead (S w) got)); reflexivity.
      + inversion H; subst s'. apply (Hkeep (QCons QCUnlock (S w) (q_slots s (q_cat s) :: got))); reflexivity.
      + inversion H; subst s'. apply (Hkeep (QCons QCPost (S w) got)); reflexivity.
      + inversion H; subst s'. apply (Hkeep (QCons QCWait w got)); reflexivity.
  Qed.

  (* per producer: what a thread has stored so far, in store order, followed by what it still has to
     store, is exactly its program; and the tagged log is the store log *)
  Lemma pcq_per_producer_order_proof s : reachable (pcq_step n) (pcq_init n 0 threads0) s ->
    map snd (q_wtlog s) = q_wlog s /\
    forall i t0 t, nth_error threads0 i = Some t0 -> nth_error (q_threads s) i = Some t ->
                   stored_by i s ++ to_store t = to_store t0.
  Proof.
    intros Hr.
    assert (G : OInv s).
    { revert s Hr. apply invariant_reachable; [exact oinv_init|]. intros s0 l s1. apply oinv_step. }
    destruct G as [Ot _ Op]. split; [exact Ot|exact Op].
  Qed.
End PcqOrder.
