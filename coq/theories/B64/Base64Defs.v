(* Executable model of preprocess/base64.cc (base64_encode / base64_decode),
   loop for loop, with the `int val` accumulator wrapped to 32 bits and all
   tables and numeric constants taken from the regenerated Gen/Src_base64.v. *)
From PP Require Export Base.Bytes Gen.Src_base64.
Local Open Scope Z_scope.

Definition tbl (i : Z) : Z := nth (Z.to_nat i) TABLE 0.
Definition inv (c : Z) : Z := nth (Z.to_nat c) INV_TABLE 0.

(* (val >> valb) & mask on a C int: arithmetic shift, then mask *)
Definition sel (val valb mask : Z) : Z := Z.land (Z.shiftr val valb) mask.

(* while (valb >= 0) { out.push_back(TABLE[(val >> valb) & 0x3F]); valb -= 6; } *)
Fixpoint enc_drain (fuel : nat) (val valb : Z) : option (list Z * Z) :=
  if valb >=? enc_loop_bound then
    match fuel with
    | O => None
    | S f =>
      match enc_drain f val (valb - enc_valb_sub) with
      | Some (o, vb) => Some (tbl (sel val valb enc_mask) :: o, vb)
      | None => None
      end
    end
  else Some ([], valb).

Definition drain_fuel : nat := 8.

(* the for loop over the input bytes; state (val, valb) *)
Fixpoint enc_bytes (bs : list Z) (val valb : Z) : option (list Z * Z * Z) :=
  match bs with
  | [] => Some ([], val, valb)
  | c :: r =>
    let val' := wrap32 (val * 2 ^ enc_shift + c) in
    match enc_drain drain_fuel val' (valb + enc_valb_add) with
    | None => None
    | Some (o, vb) =>
      match enc_bytes r val' vb with
      | None => None
      | Some (o2, v, b) => Some (o ++ o2, v, b)
      end
    end
  end.

(* while (out.size() % 4) out.push_back('='); *)
Definition enc_pad (n : nat) : list Z :=
  repeat pad_char (Z.to_nat ((enc_pad_mod - Z.of_nat n mod enc_pad_mod) mod enc_pad_mod)).

Definition base64_encode (bs : list Z) : option (list Z) :=
  match enc_bytes bs enc_val0 enc_valb0 with
  | None => None                       (* fuel error: proved unreachable *)
  | Some (o, val, valb) =>
    let o' := if valb >? enc_tail_bound
              then o ++ [tbl (sel (wrap32 (val * 2 ^ enc_tail_shl)) (valb + enc_tail_add) enc_tail_mask)]
              else o in
    Some (o' ++ enc_pad (length o'))
  end.

(* ---- decode ---- *)
Inductive dres := DOk (bs : list Z) | DBadChar (c : Z) | DLengthError.

(* count_padding: number of trailing '=' (one right-to-left pass: count, and
   whether everything to the right so far was '=') *)
Fixpoint count_padding_aux (cs : list Z) : nat * bool :=
  match cs with
  | [] => (O, true)
  | c :: r =>
    let (n, all) := count_padding_aux r in
    if all && (c =? 61) then (S n, true) else (n, false)
  end.
Definition count_padding (cs : list Z) : nat := fst (count_padding_aux cs).

Fixpoint dec_loop (cs : list Z) (val valb : Z) : dres :=
  match cs with
  | [] => DOk []
  | c :: r =>
    if c =? dec_pad_char then DOk []
    else if inv c =? dec_reject then DBadChar c
    else
      let val' := wrap32 (val * 2 ^ dec_shift + inv c) in
      let valb' := valb + dec_valb_add in
      if valb' >=? dec_out_bound then
        match dec_loop r val' (valb' - dec_valb_sub) with
        | DOk o => DOk (sel val' valb' dec_mask :: o)
        | e => e
        end
      else dec_loop r val' valb'
  end.

(* out.reserve(in.size() * 3 / 4 - count_padding(in)) in size_t arithmetic:
   a negative difference wraps to a huge request and std::string::reserve
   throws std::length_error *)
Definition base64_decode (cs : list Z) : dres :=
  if (Z.of_nat (length cs) * 3 / 4 <? Z.of_nat (count_padding cs)) then DLengthError
  else dec_loop cs dec_val0 dec_valb0.

(* ---- independent reference: RFC 4648 section 4, by 3-byte groups ---- *)
Definition b64_alphabet : list Z :=
  map (fun c => Z.of_nat c) (List.seq 65 26 ++ List.seq 97 26 ++ List.seq 48 10 ++ [43; 47])%nat.
Definition alpha (i : Z) : Z := nth (Z.to_nat i) b64_alphabet 0.

Fixpoint rfc4648 (bs : list Z) : list Z :=
  match bs with
  | [] => []
  | [b0] => [alpha (b0 / 4); alpha ((b0 mod 4) * 16); 61; 61]
  | [b0; b1] => [alpha (b0 / 4); alpha ((b0 mod 4) * 16 + b1 / 16); alpha ((b1 mod 16) * 4); 61]
  | b0 :: b1 :: b2 :: r =>
    [alpha (b0 / 4); alpha ((b0 mod 4) * 16 + b1 / 16); alpha ((b1 mod 16) * 4 + b2 / 64); alpha (b2 mod 64)]
      ++ rfc4648 r
  end.

Definition is_alpha (c : Z) : bool := existsb (Z.eqb c) b64_alphabet.
Definition strip_padding (cs : list Z) : list Z := firstn (length cs - count_padding cs) cs.
