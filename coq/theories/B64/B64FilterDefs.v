(* Executable model of preprocess/b64filter_main.cc: per-document bookkeeping
   of the feeder (decode, trailing-newline flag, forced newline, line count,
   what is sent to the child), the collector (read line_cnt lines, re-insert
   newlines, re-encode) and the whole tool for a child given as a function on
   lines.  base64 is the C09 model (B64/Base64Defs.v).  Model only. *)
From PP Require Export Base.Bytes Base.Lines B64.Base64Defs Gen.Src_b64filter.
Local Open Scope Z_scope.

(* struct Document { size_t line_cnt; bool has_trailing_newline; } *)
Record docmeta := { line_cnt : nat; has_nl : bool }.

(* doc.back(): None = called on an empty std::string = undefined behaviour *)
Definition last_byte (doc : list Z) : option Z :=
  match rev doc with [] => None | b :: _ => Some b end.

Definition count_byte (c : Z) (bs : list Z) : nat :=
  length (filter (fun b => b =? c) bs).

Inductive fres := FOk (sent : list Z) (m : docmeta) | FUB.

(* feeder, after base64_decode(line, doc) *)
Definition feed_doc (doc : list Z) : fres :=
  let has :=
    match last_byte doc with
    | Some b => Some (b =? b64f_nl_test)
    | None => if b64f_back_guarded then Some false else None
    end in
  match has with
  | None => FUB
  | Some h =>
    let doc' := if h then doc else doc ++ [b64f_nl_push] in
    FOk doc' {| line_cnt := count_byte b64f_nl_count doc'; has_nl := h |}
  end.

(* collector, one document:
   while (document.line_cnt-- > 0) { line = ReadLine(); doc.append(line);
     if (document.line_cnt > 0 || document.has_trailing_newline) doc.push_back('\n'); } *)
Fixpoint rebuild (cnt : nat) (has : bool) (answers : list (list Z)) : option (list Z * list (list Z)) :=
  match cnt with
  | O => Some ([], answers)
  | S k =>
    match answers with
    | [] => None                          (* EndOfFileException: child stopped producing *)
    | a :: r =>
      match rebuild k has r with
      | Some (d, rest) => Some (a ++ (if (0 <? Z.of_nat k) || has then [b64f_nl_back] else []) ++ d, rest)
      | None => None
      end
    end
  end.

Inductive cres := COk (docs : list (list Z)) | CChildShort | CSurplus.

(* collector loop: a Document with line_cnt = 0 is the poison and ends the loop;
   afterwards any remaining child output is an error *)
Fixpoint collect (metas : list docmeta) (answers : list (list Z)) : cres :=
  match metas with
  | [] => match answers with [] => COk [] | _ => CSurplus end
  | m :: r =>
    match line_cnt m with
    | O => match answers with [] => COk [] | _ => CSurplus end
    | _ =>
      match rebuild (line_cnt m) (has_nl m) answers with
      | None => CChildShort
      | Some (d, rest) =>
        match collect r rest with
        | COk ds => COk (d :: ds)
        | e => e
        end
      end
    end
  end.

Inductive bres :=
| BOk (out : list Z)
| BBadInput          (* base64_decode threw: uncaught in the feeder thread, abort *)
| BUB                (* doc.back() on an empty document *)
| BChildShort | BSurplus
| BFuel.             (* base64_encode model fuel: proved unreachable in C09 *)

Fixpoint decode_all (ls : list (list Z)) : option (list (list Z)) :=
  match ls with
  | [] => Some []
  | l :: r =>
    match base64_decode l with
    | DOk d => match decode_all r with Some ds => Some (d :: ds) | None => None end
    | _ => None
    end
  end.

Fixpoint feed_all (docs : list (list Z)) : option (list Z * list docmeta) :=
  match docs with
  | [] => Some ([], [])
  | d :: r =>
    match feed_doc d with
    | FUB => None
    | FOk sent m =>
      match feed_all r with
      | Some (s, ms) => Some (sent ++ s, m :: ms)
      | None => None
      end
    end
  end.

Fixpoint encode_all (docs : list (list Z)) : option (list Z) :=
  match docs with
  | [] => Some []
  | d :: r =>
    match base64_encode d, encode_all r with
    | Some e, Some o => Some (e ++ [b64f_nl_out] ++ o)
    | _, _ => None
    end
  end.

(* the child reads lines and answers each line l with the bytes [g l] followed by LF *)
Definition child_output (g : list Z -> list Z) (child_in : list Z) : list Z :=
  unrecords 10 (map g (records 10 false child_in)).

(* the tool around an arbitrary child, given as a function from the bytes it reads to the bytes it writes *)
Definition b64filter_docs_stream (child : list Z -> list Z) (cr_out : bool) (docs : list (list Z)) : bres :=
  match feed_all docs with
  | None => BUB
  | Some (child_in, metas) =>
    match collect metas (records 10 cr_out (child child_in)) with
    | CChildShort => BChildShort
    | CSurplus => BSurplus
    | COk out_docs =>
      match encode_all out_docs with
      | Some o => BOk o
      | None => BFuel
      end
    end
  end.

Definition b64filter_stream (child : list Z -> list Z) (cr_in cr_out : bool) (input : list Z) : bres :=
  match decode_all (records 10 cr_in input) with
  | None => BBadInput
  | Some docs => b64filter_docs_stream child cr_out docs
  end.

(* ... and around a child that answers every line l with g l *)
Definition b64filter_docs (g : list Z -> list Z) (cr_out : bool) (docs : list (list Z)) : bres :=
  b64filter_docs_stream (child_output g) cr_out docs.

Definition b64filter (g : list Z -> list Z) (cr_in cr_out : bool) (input : list Z) : bres :=
  b64filter_stream (child_output g) cr_in cr_out input.

(* the tool as built *)
Definition b64filter_tool (g : list Z -> list Z) (input : list Z) : bres :=
  b64filter g b64f_feeder_strip_cr b64f_collector_strip_cr input.
Definition b64filter_tool_stream (child : list Z -> list Z) (input : list Z) : bres :=
  b64filter_stream child b64f_feeder_strip_cr b64f_collector_strip_cr input.

(* what the child receives on its stdin *)
Definition b64filter_child_stdin (input : list Z) : option (list Z) :=
  match decode_all (records 10 b64f_feeder_strip_cr input) with
  | None => None
  | Some docs => match feed_all docs with Some (s, _) => Some s | None => None end
  end.

(* specification side: the lines of a document as the child sees them *)
Definition doc_lines (d : list Z) : list (list Z) :=
  match d with
  | [] => [[]]                               (* forced newline: one empty line *)
  | _ => records 10 false d
  end.

Definition ends_nl (d : list Z) : bool :=
  match last_byte d with Some b => b =? 10 | None => false end.

(* join answers with LF, final LF iff the original document had one *)
Fixpoint join_lines (ls : list (list Z)) (final : bool) : list Z :=
  match ls with
  | [] => []
  | [l] => l ++ (if final then [10] else [])
  | l :: r => l ++ [10] ++ join_lines r final
  end.

Definition doc_spec (g : list Z -> list Z) (d : list Z) : list Z :=
  join_lines (map g (doc_lines d)) (ends_nl d).

(* ---------- children with memory ----------
   A child that writes exactly one line for every line it reads, but may compute the i-th answer
   from everything it has seen (numbering, context, ...): given by its answer function on the
   list of all lines, [A ls] with as many entries as ls. *)
Definition stream_of (A : list (list Z) -> list (list Z)) (child_in : list Z) : list Z :=
  unrecords 10 (A (records 10 false child_in)).

(* output document k = the answer lines at the positions of document k's lines, joined by LF,
   final LF iff document k had one *)
Definition docs_spec_stream (A : list (list Z) -> list (list Z)) (docs : list (list Z)) : list (list Z) :=
  map (fun ds => join_lines (snd ds) (ends_nl (fst ds)))
      (combine docs (chunks (map (fun d => length (doc_lines d)) docs) (A (concat (map doc_lines docs))))).
