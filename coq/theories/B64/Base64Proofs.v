(* Proofs about the base64 model: agreement with RFC 4648, round trip (padded
   and with any amount of padding removed), rejection of foreign bytes. *)
From PP Require Import B64.Base64Defs.
From Coq Require Import ZifyBool.
Local Open Scope Z_scope.
Ltac Zify.zify_post_hook ::= Z.div_mod_to_equations.
Ltac uc := unfold dec_pad_char, dec_reject, pad_char in *.

(* ---------- table facts: finite sweeps over the REGENERATED tables ---------- *)

Lemma TABLE_is_alphabet : TABLE = b64_alphabet.
Proof. vm_compute. reflexivity. Qed.

Lemma tbl_alpha i : tbl i = alpha i.
Proof. unfold tbl, alpha. rewrite TABLE_is_alphabet. reflexivity. Qed.

Definition sextets : list Z := map Z.of_nat (List.seq 0 64).
Definition all_bytes : list Z := map Z.of_nat (List.seq 0 256).

Lemma in_sextets s : 0 <= s < 64 -> In s sextets.
Proof.
  intros H. unfold sextets. apply in_map_iff. exists (Z.to_nat s). split; [lia|].
  apply in_seq. lia.
Qed.

Lemma in_all_bytes c : 0 <= c < 256 -> In c all_bytes.
Proof.
  intros H. unfold all_bytes. apply in_map_iff. exists (Z.to_nat c). split; [lia|].
  apply in_seq. lia.
Qed.

Definition sextet_okb (s : Z) : bool :=
  (inv (tbl s) =? s) && negb (tbl s =? dec_pad_char) && negb (tbl s =? 61) && negb (inv (tbl s) =? dec_reject)
  && is_alpha (tbl s) && (0 <=? tbl s) && (tbl s <? 256).

Lemma sextet_sweep : forallb sextet_okb sextets = true.
Proof. vm_compute. reflexivity. Qed.

Lemma sextet_ok s : 0 <= s < 64 ->
  inv (tbl s) = s /\ tbl s <> dec_pad_char /\ tbl s <> 61 /\ inv (tbl s) <> dec_reject /\ is_alpha (tbl s) = true
  /\ 0 <= tbl s < 256.
Proof.
  intros H. pose proof (proj1 (forallb_forall _ _) sextet_sweep s (in_sextets s H)) as E.
  unfold sextet_okb in E. rewrite !andb_true_iff, !negb_true_iff in E.
  destruct E as [[[[[[E1 E2] E3] E4] E5] E6] E7]. uc. repeat split; try lia; assumption.
Qed.

(* every byte that is neither in the alphabet nor '=' is rejected by the table;
   every alphabet byte is accepted with a value in [0,64) *)
Definition foreign_okb (c : Z) : bool :=
  if is_alpha c then negb (c =? dec_pad_char) && negb (inv c =? dec_reject) && (0 <=? inv c) && (inv c <? 64)
  else if c =? 61 then true else inv c =? dec_reject.

Lemma foreign_sweep : forallb foreign_okb all_bytes = true.
Proof. vm_compute. reflexivity. Qed.

Lemma foreign_rejected c : 0 <= c < 256 -> is_alpha c = false -> c <> 61 -> inv c = dec_reject.
Proof.
  intros H Ha Hp. pose proof (proj1 (forallb_forall _ _) foreign_sweep c (in_all_bytes c H)) as E.
  unfold foreign_okb in E. rewrite Ha in E. uc. destruct (c =? 61) eqn:E61; lia.
Qed.

Lemma is_alpha_range c : is_alpha c = true -> 0 <= c < 256.
Proof.
  unfold is_alpha. rewrite existsb_exists. intros [x [Hin Heq]]. apply Z.eqb_eq in Heq. subst x.
  assert (forallb byte_okb b64_alphabet = true) as F by (vm_compute; reflexivity).
  pose proof (proj1 (forallb_forall _ _) F c Hin) as B. apply byte_okb_iff in B. exact B.
Qed.

Lemma alpha_accepted c : is_alpha c = true -> c <> dec_pad_char /\ inv c <> dec_reject /\ 0 <= inv c < 64.
Proof.
  intros Ha. pose proof (is_alpha_range c Ha) as H.
  pose proof (proj1 (forallb_forall _ _) foreign_sweep c (in_all_bytes c H)) as E.
  unfold foreign_okb in E. rewrite Ha in E. rewrite !andb_true_iff, !negb_true_iff in E. uc. lia.
Qed.

(* ---------- bit selection as arithmetic ---------- *)

Lemma sel_63 v k : 0 <= k -> sel v k 63 = (v / 2 ^ k) mod 64.
Proof.
  intros Hk. unfold sel. rewrite Z.shiftr_div_pow2 by lia.
  change 63 with (Z.ones 6). rewrite Z.land_ones by lia. reflexivity.
Qed.

Lemma sel_255 v k : 0 <= k -> sel v k 255 = (v / 2 ^ k) mod 256.
Proof.
  intros Hk. unfold sel. rewrite Z.shiftr_div_pow2 by lia.
  change 255 with (Z.ones 8). rewrite Z.land_ones by lia. reflexivity.
Qed.

(* ---------- encode: one byte at a time from each of the three phases ---------- *)

Lemma enc_bytes_cons c r val valb :
  enc_bytes (c :: r) val valb =
    match enc_drain drain_fuel (wrap32 (val * 256 + c)) (valb + 8) with
    | None => None
    | Some (o, vb) =>
      match enc_bytes r (wrap32 (val * 256 + c)) vb with
      | None => None
      | Some (o2, v, b) => Some (o ++ o2, v, b)
      end
    end.
Proof. reflexivity. Qed.

Lemma drain_2 v : enc_drain drain_fuel v (-6 + 8) = Some ([tbl (sel v 2 63)], -4).
Proof. reflexivity. Qed.
Lemma drain_4 v : enc_drain drain_fuel v (-4 + 8) = Some ([tbl (sel v 4 63)], -2).
Proof. reflexivity. Qed.
Lemma drain_6 v : enc_drain drain_fuel v (-2 + 8) = Some ([tbl (sel v 6 63); tbl (sel v 0 63)], -6).
Proof. reflexivity. Qed.

Definition s0 (b0 : Z) := b0 / 4.
Definition s1 (b0 b1 : Z) := (b0 mod 4) * 16 + b1 / 16.
Definition s2 (b1 b2 : Z) := (b1 mod 16) * 4 + b2 / 64.
Definition s3 (b2 : Z) := b2 mod 64.

Lemma s_ranges b0 b1 b2 : 0 <= b0 < 256 -> 0 <= b1 < 256 -> 0 <= b2 < 256 ->
  0 <= s0 b0 < 64 /\ 0 <= s1 b0 b1 < 64 /\ 0 <= s2 b1 b2 < 64 /\ 0 <= s3 b2 < 64.
Proof. unfold s0, s1, s2, s3. lia. Qed.

Lemma enc_sel_a val b0 : 0 <= b0 < 256 -> sel (wrap32 (val * 256 + b0)) 2 63 = s0 b0.
Proof.
  intros H. rewrite sel_63 by lia. destruct (wrap32_congr (val * 256 + b0)) as [k ->].
  unfold s0. change (2 ^ 2) with 4. lia.
Qed.

Lemma enc_sel_b val b0 b1 : 0 <= b0 < 256 -> 0 <= b1 < 256 ->
  sel (wrap32 (wrap32 (val * 256 + b0) * 256 + b1)) 4 63 = s1 b0 b1.
Proof.
  intros H0 H1. rewrite sel_63 by lia.
  destruct (wrap32_congr (val * 256 + b0)) as [k ->].
  destruct (wrap32_congr ((val * 256 + b0 + k * 4294967296) * 256 + b1)) as [k2 ->].
  unfold s1. change (2 ^ 4) with 16. lia.
Qed.

Lemma enc_sel_c val b1 b2 : 0 <= b1 < 256 -> 0 <= b2 < 256 ->
  sel (wrap32 (wrap32 (val * 256 + b1) * 256 + b2)) 6 63 = s2 b1 b2.
Proof.
  intros H1 H2. rewrite sel_63 by lia.
  destruct (wrap32_congr (val * 256 + b1)) as [k ->].
  destruct (wrap32_congr ((val * 256 + b1 + k * 4294967296) * 256 + b2)) as [k2 ->].
  unfold s2. change (2 ^ 6) with 64. lia.
Qed.

Lemma enc_sel_d val b2 : 0 <= b2 < 256 -> sel (wrap32 (val * 256 + b2)) 0 63 = s3 b2.
Proof.
  intros H. rewrite sel_63 by lia. destruct (wrap32_congr (val * 256 + b2)) as [k ->].
  unfold s3. change (2 ^ 0) with 1. lia.
Qed.

Definition group3 (b0 b1 b2 : Z) : list Z := [tbl (s0 b0); tbl (s1 b0 b1); tbl (s2 b1 b2); tbl (s3 b2)].

Lemma enc_group b0 b1 b2 r val :
  0 <= b0 < 256 -> 0 <= b1 < 256 -> 0 <= b2 < 256 ->
  exists val3,
  enc_bytes (b0 :: b1 :: b2 :: r) val (-6) =
    match enc_bytes r val3 (-6) with
    | None => None
    | Some (o, v, b) => Some (group3 b0 b1 b2 ++ o, v, b)
    end.
Proof.
  intros H0 H1 H2.
  exists (wrap32 (wrap32 (wrap32 (val * 256 + b0) * 256 + b1) * 256 + b2)).
  rewrite enc_bytes_cons, drain_2.
  rewrite enc_bytes_cons, drain_4.
  rewrite enc_bytes_cons, drain_6.
  rewrite enc_sel_a by assumption.
  rewrite enc_sel_b by assumption.
  rewrite (enc_sel_c (wrap32 (val * 256 + b0))) by assumption.
  rewrite enc_sel_d by assumption.
  destruct (enc_bytes r _ (-6)) as [[[o v] b]|]; reflexivity.
Qed.

(* the part of base64_encode after the byte loop *)
Definition enc_finish (r : option (list Z * Z * Z)) : option (list Z) :=
  match r with
  | None => None
  | Some (o, val, valb) =>
    let o' := if valb >? enc_tail_bound
              then o ++ [tbl (sel (wrap32 (val * 2 ^ enc_tail_shl)) (valb + enc_tail_add) enc_tail_mask)]
              else o in
    Some (o' ++ enc_pad (length o'))
  end.

Lemma base64_encode_finish bs : base64_encode bs = enc_finish (enc_bytes bs enc_val0 enc_valb0).
Proof. unfold base64_encode, enc_finish. destruct (enc_bytes bs enc_val0 enc_valb0) as [[[o v] b]|]; reflexivity. Qed.

Lemma enc_pad_plus4 n : enc_pad (4 + n) = enc_pad n.
Proof.
  unfold enc_pad. f_equal. f_equal. change enc_pad_mod with 4.
  rewrite Nat2Z.inj_add. change (Z.of_nat 4) with 4. f_equal. f_equal.
  replace (4 + Z.of_nat n) with (Z.of_nat n + 1 * 4) by lia. apply Z.mod_add. lia.
Qed.

Lemma enc_finish_group g o v b :
  length g = 4%nat ->
  enc_finish (Some (g ++ o, v, b)) = option_map (app g) (enc_finish (Some (o, v, b))).
Proof.
  intros Hg. unfold enc_finish. simpl option_map.
  destruct (b >? enc_tail_bound); f_equal; rewrite <- ?app_assoc; f_equal;
    rewrite ?app_length, Hg; rewrite ?enc_pad_plus4; try reflexivity.
Qed.

(* reference encoder phrased with the code's table *)
Fixpoint rfc_tbl (bs : list Z) : list Z :=
  match bs with
  | [] => []
  | [b0] => [tbl (b0 / 4); tbl ((b0 mod 4) * 16); 61; 61]
  | [b0; b1] => [tbl (b0 / 4); tbl ((b0 mod 4) * 16 + b1 / 16); tbl ((b1 mod 16) * 4); 61]
  | b0 :: b1 :: b2 :: r => group3 b0 b1 b2 ++ rfc_tbl r
  end.

Lemma list_ind3 (P : list Z -> Prop) :
  P [] -> (forall a, P [a]) -> (forall a b, P [a; b]) ->
  (forall a b c r, P r -> P (a :: b :: c :: r)) -> forall l, P l.
Proof.
  intros H0 H1 H2 H3. fix IH 1.
  intros [|a [|b [|c r]]]; [exact H0 | exact (H1 a) | exact (H2 a b) | exact (H3 a b c r (IH r))].
Qed.

Lemma rfc_tbl_rfc4648 bs : rfc_tbl bs = rfc4648 bs.
Proof.
  induction bs as [| a | a b | a b c r IH] using list_ind3.
  - reflexivity.
  - simpl. rewrite !tbl_alpha. reflexivity.
  - simpl. rewrite !tbl_alpha. reflexivity.
  - change (rfc_tbl (a :: b :: c :: r)) with (group3 a b c ++ rfc_tbl r).
    rewrite IH. unfold group3, s0, s1, s2, s3. rewrite !tbl_alpha. reflexivity.
Qed.

Lemma enc_tail1 val b0 : 0 <= b0 < 256 ->
  enc_finish (enc_bytes [b0] val (-6)) = Some [tbl (b0 / 4); tbl ((b0 mod 4) * 16); 61; 61].
Proof.
  intros H. rewrite enc_bytes_cons, drain_2. cbn [enc_bytes app].
  unfold enc_finish. change (-4 >? enc_tail_bound) with true. cbv iota.
  rewrite enc_sel_a by assumption.
  change (-4 + enc_tail_add) with 4. change enc_tail_mask with 63. change (2 ^ enc_tail_shl) with 256.
  replace (sel (wrap32 (wrap32 (val * 256 + b0) * 256)) 4 63) with ((b0 mod 4) * 16).
  2:{ rewrite sel_63 by lia. destruct (wrap32_congr (val * 256 + b0)) as [k ->].
      destruct (wrap32_congr ((val * 256 + b0 + k * 4294967296) * 256)) as [k2 ->].
      change (2 ^ 4) with 16. lia. }
  reflexivity.
Qed.

Lemma enc_tail2 val b0 b1 : 0 <= b0 < 256 -> 0 <= b1 < 256 ->
  enc_finish (enc_bytes [b0; b1] val (-6)) =
    Some [tbl (b0 / 4); tbl ((b0 mod 4) * 16 + b1 / 16); tbl ((b1 mod 16) * 4); 61].
Proof.
  intros H0 H1. rewrite enc_bytes_cons, drain_2, enc_bytes_cons, drain_4. cbn [enc_bytes app].
  unfold enc_finish. change (-2 >? enc_tail_bound) with true. cbv iota.
  rewrite enc_sel_a, enc_sel_b by assumption.
  change (-2 + enc_tail_add) with 6. change enc_tail_mask with 63. change (2 ^ enc_tail_shl) with 256.
  replace (sel (wrap32 (wrap32 (wrap32 (val * 256 + b0) * 256 + b1) * 256)) 6 63) with ((b1 mod 16) * 4).
  2:{ rewrite sel_63 by lia. destruct (wrap32_congr (val * 256 + b0)) as [k ->].
      destruct (wrap32_congr ((val * 256 + b0 + k * 4294967296) * 256 + b1)) as [k2 ->].
      destruct (wrap32_congr (((val * 256 + b0 + k * 4294967296) * 256 + b1 + k2 * 4294967296) * 256)) as [k3 ->].
      change (2 ^ 6) with 64. lia. }
  reflexivity.
Qed.

Lemma enc_from_any_val bs :
  bytes_okb bs = true -> forall val, enc_finish (enc_bytes bs val (-6)) = Some (rfc_tbl bs).
Proof.
  induction bs as [| a | a b | a b c r IH] using list_ind3; intros Hok val.
  - reflexivity.
  - apply bytes_okb_cons in Hok. apply enc_tail1. tauto.
  - apply bytes_okb_cons in Hok. destruct Hok as [Ha Hok]. apply bytes_okb_cons in Hok. apply enc_tail2; tauto.
  - apply bytes_okb_cons in Hok. destruct Hok as [Ha Hok].
    apply bytes_okb_cons in Hok. destruct Hok as [Hb Hok].
    apply bytes_okb_cons in Hok. destruct Hok as [Hc Hok].
    destruct (enc_group a b c r val Ha Hb Hc) as [v3 E]. rewrite E.
    specialize (IH Hok v3).
    destruct (enc_bytes r v3 (-6)) as [[[o v] vb]|].
    + rewrite enc_finish_group by reflexivity. rewrite IH. reflexivity.
    + discriminate IH.
Qed.

Theorem encode_is_rfc4648_proof bs : bytes_okb bs = true -> base64_encode bs = Some (rfc4648 bs).
Proof.
  intros H. rewrite base64_encode_finish, <- rfc_tbl_rfc4648.
  exact (enc_from_any_val bs H enc_val0).
Qed.

(* ---------- decode ---------- *)

Lemma dec_loop_cons c r val valb :
  dec_loop (c :: r) val valb =
    if c =? dec_pad_char then DOk []
    else if inv c =? dec_reject then DBadChar c
    else
      if valb + 6 >=? 0 then
        match dec_loop r (wrap32 (val * 64 + inv c)) (valb + 6 - 8) with
        | DOk o => DOk (sel (wrap32 (val * 64 + inv c)) (valb + 6) 255 :: o)
        | e => e
        end
      else dec_loop r (wrap32 (val * 64 + inv c)) (valb + 6).
Proof. reflexivity. Qed.

Lemma dec_step_tbl s r val valb : 0 <= s < 64 ->
  dec_loop (tbl s :: r) val valb =
      if valb + 6 >=? 0 then
        match dec_loop r (wrap32 (val * 64 + s)) (valb + 6 - 8) with
        | DOk o => DOk (sel (wrap32 (val * 64 + s)) (valb + 6) 255 :: o)
        | e => e
        end
      else dec_loop r (wrap32 (val * 64 + s)) (valb + 6).
Proof.
  intros H. destruct (sextet_ok s H) as (E1 & E2 & E3 & E4 & _).
  rewrite dec_loop_cons. rewrite E1.
  destruct (tbl s =? dec_pad_char) eqn:A; [lia|].
  destruct (s =? dec_reject) eqn:B; [lia|]. reflexivity.
Qed.

Lemma dec_sel_1 val a b : 0 <= a < 64 -> 0 <= b < 64 ->
  sel (wrap32 (wrap32 (val * 64 + a) * 64 + b)) 4 255 = a * 4 + b / 16.
Proof.
  intros Ha Hb. rewrite sel_255 by lia.
  destruct (wrap32_congr (val * 64 + a)) as [k ->].
  destruct (wrap32_congr ((val * 64 + a + k * 4294967296) * 64 + b)) as [k2 ->].
  change (2 ^ 4) with 16. lia.
Qed.

Lemma dec_sel_2 val b c : 0 <= b < 64 -> 0 <= c < 64 ->
  sel (wrap32 (wrap32 (val * 64 + b) * 64 + c)) 2 255 = (b mod 16) * 16 + c / 4.
Proof.
  intros Hb Hc. rewrite sel_255 by lia.
  destruct (wrap32_congr (val * 64 + b)) as [k ->].
  destruct (wrap32_congr ((val * 64 + b + k * 4294967296) * 64 + c)) as [k2 ->].
  change (2 ^ 2) with 4. lia.
Qed.

Lemma dec_sel_3 val c d : 0 <= c < 64 -> 0 <= d < 64 ->
  sel (wrap32 (wrap32 (val * 64 + c) * 64 + d)) 0 255 = (c mod 4) * 64 + d.
Proof.
  intros Hc Hd. rewrite sel_255 by lia.
  destruct (wrap32_congr (val * 64 + c)) as [k ->].
  destruct (wrap32_congr ((val * 64 + c + k * 4294967296) * 64 + d)) as [k2 ->].
  change (2 ^ 0) with 1. lia.
Qed.

(* decoding the first two / three / four characters of a group *)
Lemma dec_two a b r val : 0 <= a < 64 -> 0 <= b < 64 ->
  exists v, dec_loop (tbl a :: tbl b :: r) val (-8) =
    match dec_loop r v (-4) with DOk o => DOk ((a * 4 + b / 16) :: o) | e => e end.
Proof.
  intros Ha Hb. eexists.
  rewrite dec_step_tbl by assumption. change (-8 + 6 >=? 0) with false. cbv iota.
  rewrite dec_step_tbl by assumption. change (-8 + 6 + 6 >=? 0) with true. cbv iota.
  rewrite dec_sel_1 by assumption. change (-8 + 6 + 6 - 8) with (-4). reflexivity.
Qed.

Lemma dec_three a b c r val : 0 <= a < 64 -> 0 <= b < 64 -> 0 <= c < 64 ->
  exists v, dec_loop (tbl a :: tbl b :: tbl c :: r) val (-8) =
    match dec_loop r v (-6) with
    | DOk o => DOk ((a * 4 + b / 16) :: ((b mod 16) * 16 + c / 4) :: o) | e => e end.
Proof.
  intros Ha Hb Hc. exists (wrap32 (wrap32 (wrap32 (val * 64 + a) * 64 + b) * 64 + c)).
  rewrite dec_step_tbl by assumption. change (-8 + 6 >=? 0) with false. cbv iota.
  rewrite dec_step_tbl by assumption. change (-8 + 6 + 6 >=? 0) with true. cbv iota.
  rewrite dec_sel_1 by assumption. change (-8 + 6 + 6 - 8) with (-4).
  rewrite dec_step_tbl by assumption. change (-4 + 6 >=? 0) with true. cbv iota.
  rewrite (dec_sel_2 (wrap32 (val * 64 + a))) by assumption. change (-4 + 6 - 8) with (-6).
  destruct (dec_loop r _ (-6)); reflexivity.
Qed.

Lemma dec_four a b c d r val : 0 <= a < 64 -> 0 <= b < 64 -> 0 <= c < 64 -> 0 <= d < 64 ->
  exists v, dec_loop (tbl a :: tbl b :: tbl c :: tbl d :: r) val (-8) =
    match dec_loop r v (-8) with
    | DOk o => DOk ((a * 4 + b / 16) :: ((b mod 16) * 16 + c / 4) :: ((c mod 4) * 64 + d) :: o) | e => e end.
Proof.
  intros Ha Hb Hc Hd. exists (wrap32 (wrap32 (wrap32 (wrap32 (val * 64 + a) * 64 + b) * 64 + c) * 64 + d)).
  rewrite dec_step_tbl by assumption. change (-8 + 6 >=? 0) with false. cbv iota.
  rewrite dec_step_tbl by assumption. change (-8 + 6 + 6 >=? 0) with true. cbv iota.
  rewrite dec_sel_1 by assumption. change (-8 + 6 + 6 - 8) with (-4).
  rewrite dec_step_tbl by assumption. change (-4 + 6 >=? 0) with true. cbv iota.
  rewrite (dec_sel_2 (wrap32 (val * 64 + a))) by assumption. change (-4 + 6 - 8) with (-6).
  rewrite dec_step_tbl by assumption. change (-6 + 6 >=? 0) with true. cbv iota.
  rewrite (dec_sel_3 (wrap32 (wrap32 (val * 64 + a) * 64 + b))) by assumption. change (-6 + 6 - 8) with (-8).
  destruct (dec_loop r _ (-8)); reflexivity.
Qed.

Lemma dec_loop_pad_irrelevant cs k : forall val valb,
  dec_loop (cs ++ repeat 61 k) val valb = dec_loop cs val valb.
Proof.
  induction cs as [|c r IH]; intros val valb.
  - destruct k; reflexivity.
  - rewrite <- app_comm_cons, !dec_loop_cons.
    destruct (c =? dec_pad_char); [reflexivity|].
    destruct (inv c =? dec_reject); [reflexivity|].
    destruct (valb + 6 >=? 0); rewrite IH; reflexivity.
Qed.

(* decoding any "pad-stripped" version of the reference encoding, from any val *)
Lemma dec_rfc bs : bytes_okb bs = true ->
  forall val, dec_loop (rfc_tbl bs) val (-8) = DOk bs.
Proof.
  induction bs as [| a | a b | a b c r IH] using list_ind3; intros Hok val.
  - reflexivity.
  - apply bytes_okb_cons in Hok. destruct Hok as [Ha _].
    change (rfc_tbl [a]) with (tbl (a / 4) :: tbl ((a mod 4) * 16) :: [61; 61]).
    destruct (dec_two (a / 4) ((a mod 4) * 16) [61; 61] val) as [v E]; [lia | lia |].
    rewrite E. change (dec_loop [61; 61] v (-4)) with (DOk []). cbv beta iota. f_equal. f_equal. lia.
  - apply bytes_okb_cons in Hok. destruct Hok as [Ha Hok]. apply bytes_okb_cons in Hok. destruct Hok as [Hb _].
    change (rfc_tbl [a; b]) with (tbl (a / 4) :: tbl ((a mod 4) * 16 + b / 16) :: tbl ((b mod 16) * 4) :: [61]).
    destruct (dec_three (a / 4) ((a mod 4) * 16 + b / 16) ((b mod 16) * 4) [61] val) as [v E]; [lia | lia | lia |].
    rewrite E. change (dec_loop [61] v (-6)) with (DOk []). cbv beta iota. f_equal. f_equal; [lia|]. f_equal. lia.
  - apply bytes_okb_cons in Hok. destruct Hok as [Ha Hok].
    apply bytes_okb_cons in Hok. destruct Hok as [Hb Hok].
    apply bytes_okb_cons in Hok. destruct Hok as [Hc Hok].
    change (rfc_tbl (a :: b :: c :: r)) with (tbl (s0 a) :: tbl (s1 a b) :: tbl (s2 b c) :: tbl (s3 c) :: rfc_tbl r).
    pose proof (s_ranges a b c Ha Hb Hc) as (R0 & R1 & R2 & R3).
    destruct (dec_four (s0 a) (s1 a b) (s2 b c) (s3 c) (rfc_tbl r) val R0 R1 R2 R3) as [v E].
    rewrite E, (IH Hok v). cbv beta iota. unfold s0, s1, s2, s3. f_equal. f_equal; [lia|]. f_equal; [lia|]. f_equal. lia.
Qed.

(* the reserve() guard never fires on (pad-stripped) encoder output *)
Fixpoint count61 (l : list Z) : nat :=
  match l with [] => O | c :: r => ((if (c =? 61)%Z then 1 else 0) + count61 r)%nat end.

Lemma count61_app a b : count61 (a ++ b) = (count61 a + count61 b)%nat.
Proof. induction a as [|x a IH]; simpl; [reflexivity|]. rewrite IH. lia. Qed.

Lemma count61_repeat k : count61 (repeat 61 k) = k.
Proof. induction k; simpl; lia. Qed.

Lemma count_padding_le l : (count_padding l <= count61 l)%nat.
Proof.
  unfold count_padding. induction l as [|c r IH]; simpl; [lia|].
  destruct (count_padding_aux r) as [n all]. simpl in IH.
  destruct all; simpl; destruct (c =? 61); simpl; lia.
Qed.

Lemma tbl_not_61 s : 0 <= s < 64 -> (tbl s =? 61) = false.
Proof. intros H. destruct (sextet_ok s H) as (_ & _ & E & _). lia. Qed.

Lemma rfc_tbl_shape bs : bytes_okb bs = true ->
  (count61 (rfc_tbl bs) <= 2)%nat /\
  (bs <> [] -> (4 <= length (rfc_tbl bs))%nat /\ (count61 (rfc_tbl bs) + 2 <= length (rfc_tbl bs))%nat).
Proof.
  induction bs as [| a | a b | a b c r IH] using list_ind3; intros Hok.
  - simpl. split; [lia | congruence].
  - apply bytes_okb_cons in Hok. destruct Hok as [Ha _].
    simpl. rewrite !tbl_not_61 by lia. simpl. split; [lia | intros _; lia].
  - apply bytes_okb_cons in Hok. destruct Hok as [Ha Hok]. apply bytes_okb_cons in Hok. destruct Hok as [Hb _].
    simpl. rewrite !tbl_not_61 by lia. simpl. split; [lia | intros _; lia].
  - apply bytes_okb_cons in Hok. destruct Hok as [Ha Hok].
    apply bytes_okb_cons in Hok. destruct Hok as [Hb Hok].
    apply bytes_okb_cons in Hok. destruct Hok as [Hc Hok].
    specialize (IH Hok). destruct IH as [I1 I2].
    change (rfc_tbl (a :: b :: c :: r)) with (group3 a b c ++ rfc_tbl r).
    pose proof (s_ranges a b c Ha Hb Hc) as (R0 & R1 & R2 & R3).
    rewrite count61_app, app_length. unfold group3. simpl count61. simpl length.
    rewrite !tbl_not_61 by assumption. simpl. split; [lia|]. intros _.
    destruct r as [|x r']; [simpl; lia|]. destruct I2 as [I2 I3]; [congruence|]. lia.
Qed.

Theorem decode_any_padding_proof bs cs k :
  bytes_okb bs = true -> rfc4648 bs = cs ++ repeat 61 k -> base64_decode cs = DOk bs.
Proof.
  intros Hok E. rewrite <- rfc_tbl_rfc4648 in E.
  pose proof (rfc_tbl_shape bs Hok) as [C1 C2].
  assert (dec_loop cs dec_val0 dec_valb0 = DOk bs) as D.
  { rewrite <- (dec_loop_pad_irrelevant cs k), <- E. apply dec_rfc. exact Hok. }
  unfold base64_decode.
  destruct (Z.of_nat (length cs) * 3 / 4 <? Z.of_nat (count_padding cs)) eqn:G; [|exact D].
  exfalso. apply Z.ltb_lt in G.
  pose proof (count_padding_le cs) as P.
  assert (count61 (rfc_tbl bs) = count61 cs + k)%nat as Q by (rewrite E, count61_app, count61_repeat; reflexivity).
  assert (length (rfc_tbl bs) = length cs + k)%nat as L by (rewrite E, app_length, repeat_length; reflexivity).
  destruct bs as [|b0 bs'].
  - simpl in L. assert (length cs = 0%nat) by lia. destruct cs; [|discriminate].
    unfold count_padding in G. simpl in G. lia.
  - destruct C2 as [C2 C3]; [congruence|]. lia.
Qed.

Theorem decode_encode_proof bs : bytes_okb bs = true ->
  exists cs, base64_encode bs = Some cs /\ base64_decode cs = DOk bs.
Proof.
  intros H. exists (rfc4648 bs). split; [apply encode_is_rfc4648_proof; exact H|].
  apply (decode_any_padding_proof bs (rfc4648 bs) 0 H). simpl. rewrite app_nil_r. reflexivity.
Qed.

(* ---------- foreign bytes ---------- *)

Lemma dec_loop_foreign pre c post :
  forallb is_alpha pre = true -> 0 <= c < 256 -> is_alpha c = false -> c <> 61 ->
  forall val valb, dec_loop (pre ++ c :: post) val valb = DBadChar c.
Proof.
  intros Hpre Hc Ha Hp. induction pre as [|a r IH]; intros val valb.
  - simpl app. rewrite dec_loop_cons.
    destruct (c =? dec_pad_char) eqn:E; [change dec_pad_char with 61 in E; lia|].
    rewrite (foreign_rejected c Hc Ha Hp). rewrite Z.eqb_refl. reflexivity.
  - simpl in Hpre. apply andb_true_iff in Hpre. destruct Hpre as [Haa Hr].
    destruct (alpha_accepted a Haa) as (A1 & A2 & A3).
    rewrite <- app_comm_cons, dec_loop_cons.
    destruct (a =? dec_pad_char) eqn:E1; [lia|].
    destruct (inv a =? dec_reject) eqn:E2; [lia|].
    destruct (valb + 6 >=? 0); rewrite (IH Hr); reflexivity.
Qed.

Theorem decode_rejects_foreign_proof pre c post :
  forallb is_alpha pre = true -> 0 <= c < 256 -> is_alpha c = false -> c <> 61 ->
  forall bs, base64_decode (pre ++ c :: post) <> DOk bs.
Proof.
  intros Hpre Hc Ha Hp bs. unfold base64_decode.
  destruct (_ <? _); [discriminate|].
  rewrite (dec_loop_foreign pre c post Hpre Hc Ha Hp). discriminate.
Qed.

