(* Proofs about the b64filter model (B64/B64FilterDefs.v). *)
From PP Require Import B64.B64FilterDefs.
Local Open Scope Z_scope.

Lemma count_byte_app c a b : count_byte c (a ++ b) = (count_byte c a + count_byte c b)%nat.
Proof. unfold count_byte. rewrite filter_app, app_length. reflexivity. Qed.
