(* Proofs about the b64filter model (B64/B64FilterDefs.v). *)
From PP Require Import B64.B64FilterDefs B64.Base64Proofs.
Local Open Scope Z_scope.

(* ---------- generic facts about records / unrecords ---------- *)

Lemma no_delim_app d a b : no_delim d (a ++ b) = no_delim d a && no_delim d b.
Proof. unfold no_delim. apply forallb_app. Qed.

Lemma unrecords_app d a b : unrecords d (a ++ b) = unrecords d a ++ unrecords d b.
Proof. unfold unrecords. apply flat_map_app. Qed.

Lemma split_at_spec d : forall bs cur rs t,
  split_at d bs cur = (rs, t) -> no_delim d (rev cur) = true ->
  rev cur ++ bs = unrecords d rs ++ t /\ forallb (no_delim d) rs = true /\ no_delim d t = true.
Proof.
  induction bs as [|b r IH]; intros cur rs t Hs Hc.
  - simpl in Hs. inversion Hs; subst. rewrite app_nil_r. simpl. auto.
  - simpl in Hs. destruct (b =? d) eqn:Eb.
    + destruct (split_at d r []) as [rs' t'] eqn:Er. inversion Hs; subst.
      apply Z.eqb_eq in Eb. subst b.
      destruct (IH [] rs' t Er eq_refl) as (E1 & E2 & E3). simpl in E1.
      split; [|split].
      * unfold unrecords at 1. simpl flat_map. fold (unrecords d rs').
        rewrite E1. rewrite <- !app_assoc. reflexivity.
      * simpl. rewrite Hc, E2. reflexivity.
      * exact E3.
    + assert (no_delim d (rev (b :: cur)) = true) as Hc'.
      { simpl. rewrite no_delim_app, Hc. simpl. rewrite Eb. reflexivity. }
      destruct (IH (b :: cur) rs t Hs Hc') as (E1 & E2 & E3).
      split; [|auto]. rewrite <- E1. simpl. rewrite <- app_assoc. reflexivity.
Qed.

(* every byte string is uniquely  l1 LF l2 LF ... lk LF t  with LF-free li, t *)
Lemma normal_form d bs : exists rs t,
  split_at d bs [] = (rs, t) /\ bs = unrecords d rs ++ t /\ forallb (no_delim d) rs = true /\ no_delim d t = true.
Proof.
  destruct (split_at d bs []) as [rs t] eqn:E. exists rs, t.
  destruct (split_at_spec d bs [] rs t E eq_refl) as (E1 & E2 & E3). simpl in E1. auto.
Qed.

Lemma last_byte_snoc a x : last_byte (a ++ [x]) = Some x.
Proof. unfold last_byte. rewrite rev_app_distr. reflexivity. Qed.

Lemma last_byte_nil : last_byte [] = None.
Proof. reflexivity. Qed.

Lemma unrecords_last d rs : rs <> [] -> exists a, unrecords d rs = a ++ [d].
Proof.
  intros H. destruct (exists_last H) as (rs' & r & E). subst rs.
  rewrite unrecords_app. unfold unrecords at 2. simpl. rewrite app_nil_r.
  exists (unrecords d rs' ++ r). rewrite <- app_assoc. reflexivity.
Qed.

Lemma no_delim_last d t : no_delim d t = true -> t <> [] -> exists a x, t = a ++ [x] /\ x <> d.
Proof.
  intros H Hn. destruct (exists_last Hn) as (a & x & E). subst t. exists a, x. split; [reflexivity|].
  rewrite no_delim_app in H. apply andb_true_iff in H. destruct H as [_ H]. simpl in H.
  destruct (x =? d) eqn:E; [discriminate|]. apply Z.eqb_neq in E. exact E.
Qed.

Lemma count_byte_app c a b : count_byte c (a ++ b) = (count_byte c a + count_byte c b)%nat.
Proof. unfold count_byte. rewrite filter_app, app_length. reflexivity. Qed.

Lemma count_byte_nodelim c l : no_delim c l = true -> count_byte c l = 0%nat.
Proof.
  unfold count_byte, no_delim. induction l as [|b l IH]; intros H; [reflexivity|].
  simpl in H. apply andb_true_iff in H. destruct H as [Hb Hl]. simpl.
  destruct (b =? c); [discriminate|]. apply IH. exact Hl.
Qed.

Lemma count_byte_unrecords c ls : forallb (no_delim c) ls = true -> count_byte c (unrecords c ls) = length ls.
Proof.
  induction ls as [|l ls IH]; intros H; [reflexivity|].
  simpl in H. apply andb_true_iff in H. destruct H as [Hl Hls].
  unfold unrecords. simpl flat_map. fold (unrecords c ls).
  rewrite !count_byte_app, (count_byte_nodelim c l Hl), IH by exact Hls.
  unfold count_byte. simpl. rewrite Z.eqb_refl. reflexivity.
Qed.

(* ---------- the lines of a document ---------- *)

Definition force_nl (d : list Z) : list Z := if ends_nl d then d else d ++ [10].

Lemma doc_shape d :
  forallb (no_delim 10) (doc_lines d) = true /\ doc_lines d <> [] /\
  force_nl d = unrecords 10 (doc_lines d) /\
  join_lines (doc_lines d) (ends_nl d) = d.
Proof.
  destruct (normal_form 10 d) as (rs & t & Es & Ed & Hrs & Ht).
  assert (records 10 false d = rs ++ match t with [] => [] | _ => [t] end) as Er.
  { unfold records. rewrite Es. rewrite map_id. reflexivity. }
  destruct t as [|t0 t'].
  - (* no unterminated tail *)
    rewrite app_nil_r in Ed, Er.
    destruct rs as [|r0 rs'].
    + (* the empty document *)
      subst d. simpl. repeat split; try reflexivity. discriminate.
    + assert (d <> []) as Hd.
      { rewrite Ed. unfold unrecords. simpl. destruct r0; discriminate. }
      assert (doc_lines d = r0 :: rs') as El.
      { unfold doc_lines. destruct d; [congruence|]. exact Er. }
      assert (ends_nl d = true) as Ee.
      { destruct (unrecords_last 10 (r0 :: rs')) as (a & Ea); [discriminate|].
        unfold ends_nl. rewrite Ed, Ea, last_byte_snoc. reflexivity. }
      rewrite El. unfold force_nl. rewrite Ee. repeat split; auto; try discriminate.
      (* join_lines ls true = unrecords ls *)
      rewrite Ed. clear. generalize r0. induction rs' as [|r1 rs IH]; intros r.
      * unfold unrecords. simpl. rewrite app_nil_r. reflexivity.
      * change (join_lines (r :: r1 :: rs) true) with (r ++ [10] ++ join_lines (r1 :: rs) true).
        rewrite IH. unfold unrecords. simpl. rewrite <- !app_assoc. reflexivity.
  - (* unterminated tail t0 :: t' *)
    set (t := t0 :: t') in *.
    assert (d <> []) as Hd.
    { rewrite Ed. destruct (unrecords 10 rs); discriminate. }
    assert (doc_lines d = rs ++ [t]) as El.
    { unfold doc_lines. destruct d; [congruence|]. exact Er. }
    assert (ends_nl d = false) as Ee.
    { destruct (no_delim_last 10 t Ht) as (a & x & Ea & Hx); [discriminate|].
      unfold ends_nl. rewrite Ed, Ea, app_assoc, last_byte_snoc.
      apply Z.eqb_neq. exact Hx. }
    rewrite El. unfold force_nl. rewrite Ee. repeat split.
    + rewrite forallb_app, Hrs. cbn [forallb andb]. rewrite Ht. reflexivity.
    + destruct rs; discriminate.
    + rewrite unrecords_app. unfold unrecords at 2. simpl. rewrite app_nil_r.
      rewrite Ed. rewrite <- app_assoc. reflexivity.
    + rewrite Ed. clear. induction rs as [|r rs IH].
      * simpl. rewrite app_nil_r. reflexivity.
      * assert (rs ++ [t] <> []) as Hn by (destruct rs; discriminate).
        simpl app. destruct (rs ++ [t]) as [|x y] eqn:E; [congruence|].
        change (join_lines (r :: x :: y) false) with (r ++ [10] ++ join_lines (x :: y) false).
        rewrite IH. unfold unrecords. simpl. rewrite <- !app_assoc. reflexivity.
Qed.

Definition meta_of (d : list Z) : docmeta := {| line_cnt := length (doc_lines d); has_nl := ends_nl d |}.

(* the feeder's bookkeeping: no undefined behaviour, at least one line (never the
   poison), the child receives exactly the document's lines, each terminated *)
Lemma feed_doc_spec d :
  feed_doc d = FOk (unrecords 10 (doc_lines d)) (meta_of d) /\ (1 <= length (doc_lines d))%nat.
Proof.
  destruct (doc_shape d) as (Hl & Hn & Hf & _).
  split; [|destruct (doc_lines d); [congruence|simpl; lia]].
  unfold feed_doc, meta_of. unfold b64f_back_guarded, b64f_nl_test, b64f_nl_push, b64f_nl_count.
  assert ((match last_byte d with Some b => Some (b =? 10) | None => Some false end) = Some (ends_nl d)) as E.
  { unfold ends_nl. destruct (last_byte d); reflexivity. }
  rewrite E. fold (force_nl d). rewrite Hf, count_byte_unrecords by exact Hl. reflexivity.
Qed.

Lemma feed_all_spec docs :
  feed_all docs = Some (unrecords 10 (concat (map doc_lines docs)), map meta_of docs).
Proof.
  induction docs as [|d r IH]; [reflexivity|].
  simpl. destruct (feed_doc_spec d) as [E _]. rewrite E, IH.
  rewrite unrecords_app. reflexivity.
Qed.

(* ---------- the collector ---------- *)

Lemma rebuild_spec has ls : forall rest,
  rebuild (length ls) has (ls ++ rest) = Some (join_lines ls has, rest).
Proof.
  induction ls as [|a r IH]; intros rest; [reflexivity|].
  simpl length. simpl app. simpl rebuild. rewrite IH. unfold b64f_nl_back.
  destruct r as [|x r'].
  - simpl. rewrite app_nil_r. reflexivity.
  - change (join_lines (a :: x :: r') has) with (a ++ [10] ++ join_lines (x :: r') has).
    replace (0 <? Z.of_nat (length (x :: r'))) with true by (symmetry; apply Z.ltb_lt; simpl length; lia).
    reflexivity.
Qed.

Lemma collect_spec g docs :
  collect (map meta_of docs) (concat (map (fun d => map g (doc_lines d)) docs))
  = COk (map (doc_spec g) docs).
Proof.
  induction docs as [|d r IH]; [reflexivity|].
  simpl map. simpl concat. simpl collect.
  destruct (feed_doc_spec d) as [_ Hge].
  destruct (length (doc_lines d)) as [|k] eqn:El; [lia|].
  rewrite <- El. rewrite <- (map_length g (doc_lines d)).
  rewrite rebuild_spec. rewrite IH. reflexivity.
Qed.

(* ---------- the whole tool on decoded documents ---------- *)

(* a line-preserving child answers an LF-free line with an LF-free line *)
Definition line_preserving (g : list Z -> list Z) : Prop :=
  forall l, no_delim 10 l = true -> no_delim 10 (g l) = true.

Lemma forallb_concat {A} (p : A -> bool) ls : forallb p (concat ls) = forallb (forallb p) ls.
Proof. induction ls as [|l ls IH]; [reflexivity|]. simpl. rewrite forallb_app, IH. reflexivity. Qed.

Lemma documents_preserved_proof g docs : line_preserving g ->
  exists child_in metas,
    feed_all docs = Some (child_in, metas) /\
    child_in = unrecords 10 (concat (map doc_lines docs)) /\
    Forall (fun m => (1 <= line_cnt m)%nat) metas /\
    collect metas (records 10 b64f_collector_strip_cr (child_output g child_in)) = COk (map (doc_spec g) docs).
Proof.
  intros Hg. exists (unrecords 10 (concat (map doc_lines docs))), (map meta_of docs).
  split; [apply feed_all_spec|]. split; [reflexivity|]. split.
  - apply Forall_forall. intros m Hm. apply in_map_iff in Hm. destruct Hm as (d & <- & _).
    simpl. apply feed_doc_spec.
  - unfold child_output, b64f_collector_strip_cr.
    assert (forallb (no_delim 10) (concat (map doc_lines docs)) = true) as Hl.
    { rewrite forallb_concat. rewrite forallb_forall. intros ls Hls. apply in_map_iff in Hls.
      destruct Hls as (d & <- & _). apply doc_shape. }
    rewrite (records_unrecords 10 _ Hl).
    rewrite records_unrecords.
    + rewrite concat_map, map_map. apply collect_spec.
    + rewrite forallb_forall. intros x Hx. apply in_map_iff in Hx. destruct Hx as (l & <- & Hl2). apply Hg.
      rewrite forallb_forall in Hl. apply Hl. exact Hl2.
Qed.

Lemma identity_child_proof d : doc_spec (fun l => l) d = d.
Proof. unfold doc_spec. rewrite map_id. apply doc_shape. Qed.

(* ---------- base64 around it (C09) ---------- *)

Lemma encode_all_spec docs : forallb bytes_okb docs = true ->
  encode_all docs = Some (unrecords 10 (map rfc4648 docs)).
Proof.
  induction docs as [|d r IH]; intros H; [reflexivity|].
  simpl in H. apply andb_true_iff in H. destruct H as [Hd Hr].
  simpl. rewrite (encode_is_rfc4648_proof d Hd), (IH Hr). unfold b64f_nl_out, unrecords. simpl.
  rewrite <- app_assoc. reflexivity.
Qed.

Lemma decode_all_spec ls docs : Forall2 (fun l d => base64_decode l = DOk d) ls docs ->
  decode_all ls = Some docs.
Proof. induction 1 as [|l d ls docs H _ IH]; [reflexivity|]. simpl. rewrite H, IH. reflexivity. Qed.

Lemma strip_cr_id l : (forall a, l <> a ++ [13]) -> strip_cr l = l.
Proof.
  intros H. unfold strip_cr. destruct (rev l) as [|x r] eqn:E; [reflexivity|].
  destruct (x =? 13) eqn:Ex.
  - apply Z.eqb_eq in Ex. subst x. exfalso. apply (H (rev r)).
    rewrite <- (rev_involutive l), E. reflexivity.
  - destruct x as [|p|p]; try reflexivity.
    do 4 (destruct p as [p|p|]; try reflexivity). discriminate.
Qed.

(* the tool on any input whose lines decode (padded or not), any line-preserving child *)
Lemma tool_spec_proof g ls docs : line_preserving g ->
  Forall2 (fun l d => base64_decode l = DOk d) ls docs ->
  forallb (no_delim 10) ls = true -> (forall l a, In l ls -> l <> a ++ [13]) ->
  forallb bytes_okb (map (doc_spec g) docs) = true ->
  b64filter_tool g (unrecords 10 ls) = BOk (unrecords 10 (map (fun d => rfc4648 (doc_spec g d)) docs)).
Proof.
  intros Hg Hdec Hlf Hcr Hok. unfold b64filter_tool, b64filter, b64filter_stream.
  assert (records 10 b64f_feeder_strip_cr (unrecords 10 ls) = ls) as Er.
  { unfold records. rewrite (split_at_unrecords 10 ls Hlf). rewrite app_nil_r.
    destruct b64f_feeder_strip_cr; [|apply map_id].
    rewrite <- (map_id ls) at 2. apply map_ext_in. intros l Hl. apply strip_cr_id. intros a. apply Hcr. exact Hl. }
  rewrite Er, (decode_all_spec ls docs Hdec). unfold b64filter_docs_stream.
  destruct (documents_preserved_proof g docs Hg) as (ci & ms & E1 & _ & _ & E2).
  rewrite E1, E2, (encode_all_spec _ Hok), map_map. reflexivity.
Qed.

(* characters of an encoding: never LF or CR *)
Definition plain_char (c : Z) : bool := negb (c =? 10) && negb (c =? 13).

Lemma alpha_plain s : 0 <= s < 64 -> plain_char (alpha s) = true.
Proof.
  intros H. pose proof (in_sextets s H) as Hin.
  assert (forallb (fun s => plain_char (alpha s)) sextets = true) as Hs by (vm_compute; reflexivity).
  rewrite forallb_forall in Hs. apply Hs. exact Hin.
Qed.

Lemma rfc4648_plain bs : bytes_okb bs = true -> forallb plain_char (rfc4648 bs) = true.
Proof.
  induction bs as [| a | a b | a b c r IH] using list_ind3; intros Hok.
  - reflexivity.
  - apply bytes_okb_cons in Hok. destruct Hok as [Ha _].
    simpl. rewrite !alpha_plain; [reflexivity| |]; lia.
  - apply bytes_okb_cons in Hok. destruct Hok as [Ha Hok]. apply bytes_okb_cons in Hok. destruct Hok as [Hb _].
    simpl. rewrite !alpha_plain; [reflexivity| | |]; lia.
  - apply bytes_okb_cons in Hok. destruct Hok as [Ha Hok].
    apply bytes_okb_cons in Hok. destruct Hok as [Hb Hok].
    apply bytes_okb_cons in Hok. destruct Hok as [Hc Hok].
    change (rfc4648 (a :: b :: c :: r)) with
      ([alpha (a / 4); alpha ((a mod 4) * 16 + b / 16); alpha ((b mod 16) * 4 + c / 64); alpha (c mod 64)] ++ rfc4648 r).
    rewrite forallb_app, (IH Hok). simpl. rewrite !alpha_plain; [reflexivity| | | |]; lia.
Qed.

Lemma plain_no_lf l : forallb plain_char l = true -> no_delim 10 l = true.
Proof.
  unfold no_delim. intros H. rewrite forallb_forall in *. intros x Hx. specialize (H x Hx).
  unfold plain_char in H. apply andb_true_iff in H. tauto.
Qed.

Lemma plain_no_cr_end l a : forallb plain_char l = true -> l <> a ++ [13].
Proof.
  intros H E. subst l. rewrite forallb_app in H. apply andb_true_iff in H. destruct H as [_ H].
  simpl in H. discriminate.
Qed.

(* canonical input, identity child: the output is the input *)
Lemma tool_identity_proof docs : forallb bytes_okb docs = true ->
  b64filter_tool (fun l => l) (unrecords 10 (map rfc4648 docs)) = BOk (unrecords 10 (map rfc4648 docs)).
Proof.
  intros Hok.
  assert (map (doc_spec (fun l => l)) docs = docs) as Eid.
  { rewrite <- (map_id docs) at 2. apply map_ext. apply identity_child_proof. }
  assert (forall l, In l (map rfc4648 docs) -> forallb plain_char l = true) as Hp.
  { intros l Hl. apply in_map_iff in Hl. destruct Hl as (d & <- & Hd). apply rfc4648_plain.
    rewrite forallb_forall in Hok. apply Hok. exact Hd. }
  rewrite (tool_spec_proof (fun l => l) (map rfc4648 docs) docs).
  - f_equal. f_equal. apply map_ext. intros d. rewrite identity_child_proof. reflexivity.
  - intros l Hl. exact Hl.
  - clear Eid Hp. induction docs as [|d r IH]; [constructor|].
    simpl in Hok. apply andb_true_iff in Hok. destruct Hok as [Hd Hr].
    constructor; [|apply IH; exact Hr].
    apply (decode_any_padding_proof d (rfc4648 d) 0 Hd). simpl. rewrite app_nil_r. reflexivity.
  - rewrite forallb_forall. intros l Hl. apply plain_no_lf. apply Hp. exact Hl.
  - intros l a Hl. apply plain_no_cr_end. apply Hp. exact Hl.
  - rewrite Eid. exact Hok.
Qed.

(* ---------- children that do not preserve the line structure are detected ---------- *)
Lemma rebuild_consumes : forall cnt has answers d rest,
  rebuild cnt has answers = Some (d, rest) -> length answers = (cnt + length rest)%nat.
Proof.
  induction cnt as [|k IH]; intros has answers d rest H.
  - simpl in H. inversion H; subst. reflexivity.
  - simpl in H. destruct answers as [|a r]; [discriminate|].
    destruct (rebuild k has r) as [[d' rest']|] eqn:E; [|discriminate].
    inversion H; subst. simpl. rewrite (IH _ _ _ _ E). reflexivity.
Qed.

Lemma collect_ok_length : forall metas answers out,
  Forall (fun m => (1 <= line_cnt m)%nat) metas ->
  collect metas answers = COk out ->
  length answers = fold_right (fun m n => (line_cnt m + n)%nat) 0%nat metas /\ length out = length metas.
Proof.
  induction metas as [|m r IH]; intros answers out Hge H.
  - simpl in H. destruct answers; [|discriminate]. inversion H; subst. split; reflexivity.
  - inversion Hge as [|? ? Hm Hr]; subst. simpl in H.
    destruct (line_cnt m) as [|k] eqn:Ek; [lia|]. rewrite <- Ek in H.
    destruct (rebuild (line_cnt m) (has_nl m) answers) as [[d rest]|] eqn:Er; [|discriminate].
    destruct (collect r rest) as [ds| |] eqn:Ec; try discriminate.
    inversion H; subst. destruct (IH rest ds Hr Ec) as [I1 I2].
    rewrite (rebuild_consumes _ _ _ _ _ Er), I1. simpl. rewrite I2. split; reflexivity.
Qed.

(* whatever the child does: the tool succeeds only if the child wrote exactly as many lines as it
   was given (one per line of every document) -- otherwise it fails instead of shifting documents *)
Theorem line_count_guard_proof child cr_out docs out :
  b64filter_docs_stream child cr_out docs = BOk out ->
  exists child_in, feed_all docs = Some (child_in, map meta_of docs) /\
    length (records 10 cr_out (child child_in)) = length (concat (map doc_lines docs)).
Proof.
  unfold b64filter_docs_stream. rewrite feed_all_spec.
  set (ci := unrecords 10 (concat (map doc_lines docs))).
  destruct (collect (map meta_of docs) (records 10 cr_out (child ci))) as [ods| |] eqn:Ec; try discriminate.
  intros _. exists ci. split; [reflexivity|].
  assert (Forall (fun m => (1 <= line_cnt m)%nat) (map meta_of docs)) as Hge.
  { apply Forall_forall. intros m Hm. apply in_map_iff in Hm. destruct Hm as (d & <- & _). simpl. apply feed_doc_spec. }
  destruct (collect_ok_length _ _ _ Hge Ec) as [H1 _]. rewrite H1.
  clear. induction docs as [|d r IH]; [reflexivity|]. simpl. rewrite app_length, IH. reflexivity.
Qed.

(* ---------- input written with CR LF line ends ---------- *)
Lemma strip_cr_snoc l : strip_cr (l ++ [13]) = l.
Proof. unfold strip_cr. rewrite rev_app_distr. simpl. apply rev_involutive. Qed.

Theorem tool_spec_crlf_proof g ls docs : line_preserving g ->
  Forall2 (fun l d => base64_decode l = DOk d) ls docs ->
  forallb (no_delim 10) ls = true ->
  forallb bytes_okb (map (doc_spec g) docs) = true ->
  b64filter_tool g (unrecords 10 (map (fun l => l ++ [13]) ls))
  = BOk (unrecords 10 (map (fun d => rfc4648 (doc_spec g d)) docs)).
Proof.
  intros Hg Hdec Hlf Hok. unfold b64filter_tool, b64filter, b64filter_stream.
  assert (records 10 b64f_feeder_strip_cr (unrecords 10 (map (fun l => l ++ [13]) ls)) = ls) as Er.
  { unfold records, b64f_feeder_strip_cr.
    assert (forallb (no_delim 10) (map (fun l => l ++ [13]) ls) = true) as Hlf'.
    { rewrite forallb_forall in *. intros x Hx. apply in_map_iff in Hx. destruct Hx as (l & <- & Hl).
      rewrite no_delim_app, (Hlf l Hl). reflexivity. }
    rewrite (split_at_unrecords 10 _ Hlf'). rewrite app_nil_r, map_map.
    rewrite <- (map_id ls) at 2. apply map_ext. apply strip_cr_snoc. }
  rewrite Er, (decode_all_spec ls docs Hdec). unfold b64filter_docs_stream.
  destruct (documents_preserved_proof g docs Hg) as (ci & ms & E1 & _ & _ & E2).
  rewrite E1, E2, (encode_all_spec _ Hok), map_map. reflexivity.
Qed.

(* ================= children with memory (answer i may depend on all lines read) ================= *)
Definition one_line_per_line (A : list (list Z) -> list (list Z)) : Prop :=
  forall ls, forallb (no_delim 10) ls = true -> length (A ls) = length ls /\ forallb (no_delim 10) (A ls) = true.

Lemma collect_chunks : forall docs answers,
  length answers = length (concat (map doc_lines docs)) ->
  collect (map meta_of docs) answers
  = COk (map (fun ds => join_lines (snd ds) (ends_nl (fst ds)))
             (combine docs (chunks (map (fun d => length (doc_lines d)) docs) answers))).
Proof.
  induction docs as [|d r IH]; intros answers Hl.
  - simpl in *. destruct answers; [reflexivity | discriminate].
  - simpl map. simpl concat in Hl. rewrite app_length in Hl.
    destruct (feed_doc_spec d) as [_ Hge].
    set (n := length (doc_lines d)) in *.
    assert (length (firstn n answers) = n) as Hf by (rewrite firstn_length; lia).
    assert (rebuild n (ends_nl d) answers = Some (join_lines (firstn n answers) (ends_nl d), skipn n answers)) as Hr.
    { rewrite <- (firstn_skipn n answers) at 1. rewrite <- Hf at 1. apply rebuild_spec. }
    cbn [collect meta_of line_cnt has_nl]. fold n.
    destruct n as [|k] eqn:En; [lia|]. rewrite <- En in *.
    rewrite Hr. rewrite (IH (skipn n answers)) by (rewrite skipn_length; lia).
    cbn [chunks combine map fst snd]. fold n. rewrite En. reflexivity.
Qed.

Lemma concat_doc_lines_nolf docs : forallb (no_delim 10) (concat (map doc_lines docs)) = true.
Proof.
  rewrite forallb_concat. rewrite forallb_forall. intros ls Hls. apply in_map_iff in Hls.
  destruct Hls as (d & <- & _). apply doc_shape.
Qed.

(* every sequence of documents, every child that writes one line per line read (with memory) *)
Theorem documents_preserved_stream_proof A docs : one_line_per_line A ->
  b64filter_docs_stream (stream_of A) b64f_collector_strip_cr docs
  = match encode_all (docs_spec_stream A docs) with Some o => BOk o | None => BFuel end.
Proof.
  intros HA. unfold b64filter_docs_stream. rewrite feed_all_spec.
  unfold stream_of, b64f_collector_strip_cr.
  pose proof (concat_doc_lines_nolf docs) as Hl.
  rewrite (records_unrecords 10 _ Hl).
  destruct (HA _ Hl) as [Hlen Hnl].
  rewrite (records_unrecords 10 _ Hnl).
  rewrite (collect_chunks docs _ Hlen). reflexivity.
Qed.

(* stdin: LF-terminated lines ls, optionally followed by an unterminated last line *)
Definition opt_tail (t : list Z) : list (list Z) := match t with [] => [] | _ => [t] end.

Lemma records_tail ls t : forallb (no_delim 10) ls = true -> no_delim 10 t = true ->
  (forall l a, In l ls -> l <> a ++ [13]) ->
  records 10 b64f_feeder_strip_cr (unrecords 10 ls ++ t) = ls ++ opt_tail t.
Proof.
  intros Hls Ht Hcr. unfold records.
  assert (forall cur, split_at 10 (unrecords 10 ls ++ t) cur
          = match ls with [] => ([], rev cur ++ t) | l0 :: r => ((rev cur ++ l0) :: r, t) end) as Hs.
  { clear Hcr. induction ls as [|l r IH]; intros cur.
    - simpl. rewrite <- (app_nil_r t) at 1. rewrite (split_at_app_nodelim 10 t Ht). simpl.
      rewrite rev_app_distr, rev_involutive. reflexivity.
    - simpl in Hls. apply andb_true_iff in Hls. destruct Hls as [Hl Hr].
      unfold unrecords. simpl flat_map. fold (unrecords 10 r). rewrite <- !app_assoc.
      rewrite (split_at_app_nodelim 10 l Hl). simpl. try rewrite Z.eqb_refl.
      rewrite (IH Hr []). rewrite rev_app_distr, rev_involutive.
      destruct r; reflexivity. }
  rewrite (Hs []). unfold b64f_feeder_strip_cr, opt_tail.
  assert (map strip_cr ls = ls) as Hm.
  { rewrite <- (map_id ls) at 2. apply map_ext_in. intros l Hl. apply strip_cr_id. intros a. apply Hcr. exact Hl. }
  destruct ls as [|l0 r]; simpl.
  - reflexivity.
  - simpl in Hm. rewrite app_comm_cons, Hm. reflexivity.
Qed.

Theorem tool_spec_general_proof A ls t docs : one_line_per_line A ->
  Forall2 (fun l d => base64_decode l = DOk d) (ls ++ opt_tail t) docs ->
  forallb (no_delim 10) ls = true -> no_delim 10 t = true -> (forall l a, In l ls -> l <> a ++ [13]) ->
  forallb bytes_okb (docs_spec_stream A docs) = true ->
  b64filter_tool_stream (stream_of A) (unrecords 10 ls ++ t)
  = BOk (unrecords 10 (map rfc4648 (docs_spec_stream A docs))).
Proof.
  intros HA Hdec Hls Ht Hcr Hok. unfold b64filter_tool_stream, b64filter_stream.
  rewrite (records_tail ls t Hls Ht Hcr), (decode_all_spec _ docs Hdec).
  rewrite (documents_preserved_stream_proof A docs HA), (encode_all_spec _ Hok). reflexivity.
Qed.

(* the stateless child is the instance A = map g *)
Lemma chunks_map_concat {X Y} (f : X -> Y) (lss : list (list X)) :
  chunks (map (@length X) lss) (map f (concat lss)) = map (map f) lss.
Proof.
  induction lss as [|l r IH]; [reflexivity|]. simpl. rewrite map_app.
  rewrite <- (map_length f l) at 1 2. rewrite firstn_app, firstn_all, Nat.sub_diag. simpl. rewrite app_nil_r.
  rewrite skipn_app, skipn_all, Nat.sub_diag. simpl. rewrite IH. reflexivity.
Qed.

Lemma docs_spec_stream_map g docs : docs_spec_stream (map g) docs = map (doc_spec g) docs.
Proof.
  unfold docs_spec_stream. rewrite <- (map_map doc_lines (@length (list Z))).
  rewrite chunks_map_concat. unfold doc_spec.
  induction docs as [|d r IH]; [reflexivity|]. simpl. rewrite IH. reflexivity.
Qed.
