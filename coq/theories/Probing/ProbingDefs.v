(* Executable model of util/probing_hash_table.hh:
     Power2Mod, ProbingHashTable<Entry, Hash, std::equal_to, Power2Mod>, AutoProbing.
   One Gallina function per C++ member function / loop, same variables, same
   order of effects.  Constants come from Gen/Src_probing.v (regenerated from the
   header on every run).  No proofs here.

   Memory: the bucket array begin_..end_ is `cells : list (N * V)`; an entry is
   (key, value) where `value : V` stands for every byte of the entry other than
   the key.  `SetKey` rewrites the key only (the stale value stays in the
   bucket, as in the C++).  `v0` is the value whose bytes are all zero: what
   HugeRealloc(zero_new = true) / calloc put in fresh memory.
   Unbounded C++ loops (`for (;;)` probing) carry fuel = number of buckets; running
   out of fuel is the distinguished error [ErrFuel] (the C++ would spin forever),
   an access outside begin_..end_ is [ErrBounds], ProbingSizeException is [ErrFull].
   The theorems prove that none of them is reachable. *)
From Coq Require Import List NArith Bool.
From PP Require Import Gen.Src_probing.
Import ListNotations.
Local Open Scope N_scope.

Inductive res (A : Type) : Type :=
| Ok (a : A)
| ErrFuel      (* a probing loop would not terminate *)
| ErrBounds    (* access outside the bucket array *)
| ErrFull.     (* ProbingSizeException: ++entries_ >= buckets_ *)
Arguments Ok {A} a.
Arguments ErrFuel {A}.
Arguments ErrBounds {A}.
Arguments ErrFull {A}.

Definition bind {A B} (r : res A) (f : A -> res B) : res B :=
  match r with
  | Ok a => f a
  | ErrFuel => ErrFuel
  | ErrBounds => ErrBounds
  | ErrFull => ErrFull
  end.

Definition invalid : N := invalid_key.

(* ---- generic list cell access ---- *)
Section Cells.
  Context {A : Type}.
  Definition get (l : list A) (i : N) : option A := nth_error l (N.to_nat i).
  Fixpoint upd_nat (l : list A) (n : nat) (x : A) : list A :=
    match l, n with
    | [], _ => []
    | _ :: t, O => x :: t
    | h :: t, S m => h :: upd_nat t m x
    end.
  Definition upd (l : list A) (i : N) (x : A) : list A := upd_nat l (N.to_nat i) x.
  Definition len (l : list A) : N := N.of_nat (length l).
End Cells.

(* ---- Power2Mod ---- *)
(* RoundBuckets: --from; from |= from >> s for each s; return from + 1  (uint64_t) *)
Definition two64 : N := 18446744073709551616.
Definition round_buckets (from : N) : N :=
  let f0 := (from + two64 - 1) mod two64 in
  (fold_left (fun f s => N.lor f (N.shiftr f s)) round_shifts f0 + 1) mod two64.

Definition mask_double (mask : N) : N := N.lor (N.shiftl mask mask_shl) mask_or.

Section Probing.
  Variable V : Type.
  Variable v0 : V.            (* all-zero bytes value of freshly zeroed memory *)
  Variable hash : N -> N.     (* HashT; util::IdentityHash in every user in this code base *)

  Definition entry : Type := (N * V)%type.
  Definition ekey (e : entry) : N := fst e.
  Definition set_key (e : entry) (k : N) : entry := (k, snd e).

  (* ProbingHashTable<..., Power2Mod>: begin_/end_ = cells, buckets_, mod_.mask_, entries_ *)
  Record ptable : Type := mkPT { cells : list entry; nbuckets : N; mask : N; entries : N }.

  (* Power2Mod::Ideal / Next, as offsets from begin_ *)
  Definition ideal (mask : N) (k : N) : N := N.land (hash k) mask.
  Definition next (mask : N) (i : N) : N := N.land (i + 1) mask.

  (* UnsafeMutableFind / Find / FindFromIdeal: key test first, then empty test *)
  Fixpoint find_loop (fuel : nat) (cs : list entry) (mask : N) (i : N) (k : N) : res (option N) :=
    match fuel with
    | O => ErrFuel
    | S f =>
      match get cs i with
      | None => ErrBounds
      | Some e =>
        if ekey e =? k then Ok (Some i)
        else if ekey e =? invalid then Ok None
        else find_loop f cs mask (next mask i) k
      end
    end.

  Definition find (t : ptable) (k : N) : res (option N) :=
    find_loop (length (cells t)) (cells t) (mask t) (ideal (mask t) k) k.

  (* ProbingHashTable::FindOrInsert: (found?, position, table) *)
  Fixpoint foi_loop (fuel : nat) (t : ptable) (i : N) (e : entry) : res (bool * N * ptable) :=
    match fuel with
    | O => ErrFuel
    | S f =>
      match get (cells t) i with
      | None => ErrBounds
      | Some got =>
        if ekey got =? ekey e then Ok (true, i, t)
        else if ekey got =? invalid then
          let entries' := entries t + 1 in                     (* ++entries_ *)
          if nbuckets t <=? entries' then ErrFull                (* >= buckets_ : throw *)
          else Ok (false, i, mkPT (upd (cells t) i e) (nbuckets t) (mask t) entries')
        else foi_loop f t (next (mask t) i) e
      end
    end.

  Definition find_or_insert (t : ptable) (e : entry) : res (bool * N * ptable) :=
    foi_loop (length (cells t)) t (ideal (mask t) (ekey e)) e.

  (* UncheckedInsert: first empty bucket from Ideal; returns (cells, position) *)
  Fixpoint ui_loop (fuel : nat) (cs : list entry) (mask : N) (i : N) (e : entry) : res (list entry * N) :=
    match fuel with
    | O => ErrFuel
    | S f =>
      match get cs i with
      | None => ErrBounds
      | Some got =>
        if ekey got =? invalid then Ok (upd cs i e, i)
        else ui_loop f cs mask (next mask i) e
      end
    end.

  Definition unchecked_insert (cs : list entry) (mask : N) (e : entry) : res (list entry * N) :=
    ui_loop (length cs) cs mask (ideal mask (ekey e)) e.

  (* ---- ProbingHashTable::Double(new_base, clear_new = false) after HugeRealloc(zeroed) ---- *)

  (* for (i = begin_; i != old_end && key(i) != invalid; ++i) { rolled_over.push_back( *i ); i->SetKey(invalid); }
     n = old_end - i *)
  Fixpoint park_loop (n : nat) (cs : list entry) (i : N) (rolled : list entry) : res (list entry * list entry) :=
    match n with
    | O => Ok (cs, rolled)
    | S n' =>
      match get cs i with
      | None => ErrBounds
      | Some e =>
        if ekey e =? invalid then Ok (cs, rolled)
        else park_loop n' (upd cs i (set_key e invalid)) (i + 1) (rolled ++ [e])
      end
    end.

  (* for (i = begin_; i != old_end; ++i) if (key(i) != invalid) { temp = *i ; i->SetKey(invalid); UncheckedInsert(temp); } *)
  Fixpoint reinsert_loop (n : nat) (cs : list entry) (mask : N) (i : N) : res (list entry) :=
    match n with
    | O => Ok cs
    | S n' =>
      match get cs i with
      | None => ErrBounds
      | Some e =>
        if ekey e =? invalid then reinsert_loop n' cs mask (i + 1)
        else
          bind (unchecked_insert (upd cs i (set_key e invalid)) mask e)
               (fun r => reinsert_loop n' (fst r) mask (i + 1))
      end
    end.

  (* for (i in rolled_over) UncheckedInsert( *i ) *)
  Fixpoint unpark_loop (rolled : list entry) (cs : list entry) (mask : N) : res (list entry) :=
    match rolled with
    | [] => Ok cs
    | e :: r => bind (unchecked_insert cs mask e) (fun x => unpark_loop r (fst x) mask)
    end.

  Definition double (t : ptable) : res ptable :=
    let old_end := nbuckets t in
    let nb' := nbuckets t * grow_factor in                       (* buckets_ *= 2 *)
    let mask' := mask_double (mask t) in                         (* mod_.Double() *)
    (* memory grown to DoubleTo() bytes by HugeRealloc(.., zero_new = true, ..): old bytes kept, new bytes zero *)
    let cs0 := cells t ++ repeat (invalid, v0) (N.to_nat (nb' - old_end)) in
    bind (park_loop (N.to_nat old_end) cs0 0 []) (fun pr =>
    bind (reinsert_loop (N.to_nat old_end) (fst pr) mask' 0) (fun cs2 =>
    bind (unpark_loop (snd pr) cs2 mask') (fun cs3 =>
    Ok (mkPT cs3 nb' mask' (entries t))))).

  (* ---- AutoProbing ---- *)
  Record auto : Type := mkAuto { backend : ptable; threshold : N }.

  (* std::min<std::size_t>(buckets_ - 1, buckets_ * 0.75) *)
  Definition threshold_of (nb : N) : N := N.min (nb - thr_sub) (nb * thr_num / thr_den).

  (* Backend::Size(initial_size, 1.4) / sizeof(Entry) *)
  Definition initial_buckets (n : N) : N :=
    round_buckets (N.max (n + size_plus) (n * mult_num / mult_den)).

  Definition auto_init_n (n : N) : auto :=
    let nb := initial_buckets n in
    mkAuto (mkPT (repeat (invalid, v0) (N.to_nat nb)) nb (nb - 1) 0) (threshold_of nb).
  Definition auto_init : auto := auto_init_n init_size.

  Definition auto_size (a : auto) : N := entries (backend a).

  (* DoubleIfNeeded: if (Size() < threshold_) return; ...Double...; threshold_ = ... *)
  Definition double_if_needed (a : auto) : res auto :=
    if auto_size a <? threshold a then Ok a
    else bind (double (backend a)) (fun t' => Ok (mkAuto t' (threshold_of (nbuckets t')))).

  Definition auto_find_or_insert (a : auto) (e : entry) : res (bool * N * auto) :=
    bind (double_if_needed a) (fun a1 =>
    bind (find_or_insert (backend a1) e) (fun r =>
      match r with (found, pos, t') => Ok (found, pos, mkAuto t' (threshold a1)) end)).

  (* Insert: ++backend_.entries_; DoubleIfNeeded(); return backend_.UncheckedInsert(t) *)
  Definition auto_insert (a : auto) (e : entry) : res (N * auto) :=
    let t := backend a in
    let a0 := mkAuto (mkPT (cells t) (nbuckets t) (mask t) (entries t + 1)) (threshold a) in
    bind (double_if_needed a0) (fun a1 =>
    let t1 := backend a1 in
    bind (unchecked_insert (cells t1) (mask t1) e) (fun r =>
      Ok (snd r, mkAuto (mkPT (fst r) (nbuckets t1) (mask t1) (entries t1)) (threshold a1)))).

  Definition auto_find (a : auto) (k : N) : res (option N) := find (backend a) k.

  (* value stored at a position (what `it->value` reads) *)
  Definition value_at (a : auto) (i : N) : option V :=
    match get (cells (backend a)) i with Some e => Some (snd e) | None => None end.

  (* UnsafeMutableFind + assignment of the value through the iterator (MutableVocab, idf do this) *)
  Definition auto_update (a : auto) (k : N) (v : V) : res (option N * auto) :=
    bind (auto_find a k) (fun r =>
      match r with
      | None => Ok (None, a)
      | Some i =>
        let t := backend a in
        Ok (Some i, mkAuto (mkPT (upd (cells t) i (k, v)) (nbuckets t) (mask t) (entries t)) (threshold a))
      end).

  (* ---- histories ---- *)
  Inductive op : Type :=
  | OpFindOrInsert (k : N) (v : V)
  | OpInsert (k : N) (v : V)
  | OpFind (k : N)
  | OpUpdate (k : N) (v : V).

  Inductive answer : Type :=
  | AFoundOrInserted (found : bool) (pos : N) (v : option V)   (* FindOrInsert: found flag, out iterator, out->value *)
  | AInserted (pos : N)
  | AFind (r : option (N * option V))                         (* Find: position and value, or absent *)
  | AUpdate (r : option N).

  Definition step (a : auto) (o : op) : res (answer * auto) :=
    match o with
    | OpFindOrInsert k v =>
      bind (auto_find_or_insert a (k, v)) (fun r =>
        match r with (found, pos, a') => Ok (AFoundOrInserted found pos (value_at a' pos), a') end)
    | OpInsert k v =>
      bind (auto_insert a (k, v)) (fun r => Ok (AInserted (fst r), snd r))
    | OpFind k =>
      bind (auto_find a k) (fun r =>
        Ok (AFind (match r with Some i => Some (i, value_at a i) | None => None end), a))
    | OpUpdate k v =>
      bind (auto_update a k v) (fun r => Ok (AUpdate (fst r), snd r))
    end.

  Fixpoint run (a : auto) (ops : list op) : res (list answer * auto) :=
    match ops with
    | [] => Ok ([], a)
    | o :: r =>
      bind (step a o) (fun x =>
      bind (run (snd x) r) (fun y => Ok (fst x :: fst y, snd y)))
    end.

  Definition key_at (cs : list entry) (i : N) : N :=
    match get cs i with Some e => ekey e | None => invalid end.
End Probing.

Arguments mkPT {V}.
Arguments cells {V}.
Arguments nbuckets {V}.
Arguments mask {V}.
Arguments entries {V}.
Arguments mkAuto {V}.
Arguments backend {V}.
Arguments threshold {V}.
Arguments ekey {V}.
Arguments set_key {V}.
Arguments OpFindOrInsert {V}.
Arguments OpInsert {V}.
Arguments OpFind {V}.
Arguments OpUpdate {V}.
Arguments AFoundOrInserted {V}.
Arguments AInserted {V}.
Arguments AFind {V}.
Arguments AUpdate {V}.
