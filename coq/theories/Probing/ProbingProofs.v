(* Proofs about the AutoProbing model (property C13).
   Structure:
     A. list cells (get / upd)                     E. Valid, find is correct on Valid tables
     B. occupancy, contents (the abstraction)      F. insertion at the first empty bucket keeps Valid
     C. Power2Mod arithmetic                       G. find_or_insert / unchecked_insert
     D. cyclic probing lemmas                      H. Double          I. AutoProbing, histories *)
From Coq Require Import List ZArith NArith Lia Bool Permutation ZifyBool.
From PP Require Import Gen.Src_probing Probing.ProbingDefs.
Import ListNotations.
Local Open Scope N_scope.
Ltac Zify.zify_post_hook ::= Z.div_mod_to_equations.

(* ------------------------------------------------------------------ A. cells *)
Section CellLemmas.
  Context {A : Type}.
  Implicit Types l : list A.

  Lemma length_upd_nat l n x : length (upd_nat l n x) = length l.
  Proof. revert n; induction l as [|h t IH]; intros [|n]; simpl; auto. Qed.

  Lemma nth_error_upd_nat_eq l n x : (n < length l)%nat -> nth_error (upd_nat l n x) n = Some x.
  Proof. revert n; induction l as [|h t IH]; intros [|n] H; simpl in *; try lia; auto. apply IH; lia. Qed.

  Lemma nth_error_upd_nat_neq l n m x : n <> m -> nth_error (upd_nat l n x) m = nth_error l m.
  Proof.
    revert n m; induction l as [|h t IH]; intros [|n] [|m] H; simpl; auto; try congruence.
  Qed.

  Lemma upd_nat_app l1 a l2 x : upd_nat (l1 ++ a :: l2) (length l1) x = l1 ++ x :: l2.
  Proof. induction l1 as [|h t IH]; simpl; auto. now rewrite IH. Qed.

  Lemma len_upd l i x : len (upd l i x) = len l.
  Proof. unfold len, upd. now rewrite length_upd_nat. Qed.

  Lemma get_some_lt l i x : get l i = Some x -> i < len l.
  Proof.
    unfold get, len. intros H.
    assert (N.to_nat i < length l)%nat by (apply nth_error_Some; congruence). lia.
  Qed.

  Lemma get_lt_some l i : i < len l -> exists x, get l i = Some x.
  Proof.
    unfold get, len. intros H. destruct (nth_error l (N.to_nat i)) eqn:E; eauto.
    apply nth_error_None in E. lia.
  Qed.

  Lemma get_none_ge l i : get l i = None -> len l <= i.
  Proof. unfold get, len. intros H. apply nth_error_None in H. lia. Qed.

  Lemma get_upd_eq l i x : i < len l -> get (upd l i x) i = Some x.
  Proof. unfold get, upd, len. intros H. apply nth_error_upd_nat_eq. lia. Qed.

  Lemma get_upd_neq l i j x : i <> j -> get (upd l i x) j = get l j.
  Proof. unfold get, upd. intros H. apply nth_error_upd_nat_neq. lia. Qed.

  Lemma get_split l i a : get l i = Some a ->
    exists l1 l2, l = l1 ++ a :: l2 /\ len l1 = i /\ forall x, upd l i x = l1 ++ x :: l2.
  Proof.
    unfold get, upd, len. intros H. apply nth_error_split in H. destruct H as (l1 & l2 & -> & Hl).
    exists l1, l2. split; [reflexivity|]. split; [lia|]. intros x. rewrite <- Hl. apply upd_nat_app.
  Qed.

  Lemma get_app_l l r i : i < len l -> get (l ++ r) i = get l i.
  Proof. unfold get, len. intros H. apply nth_error_app1. lia. Qed.

  Lemma get_app_r l r i : len l <= i -> get (l ++ r) i = get r (i - len l).
  Proof.
    unfold get, len. intros H. rewrite nth_error_app2 by lia. f_equal. lia.
  Qed.

  Lemma get_repeat (x : A) n i : i < N.of_nat n -> get (repeat x n) i = Some x.
  Proof.
    unfold get. intros H. assert (Hn : (N.to_nat i < n)%nat) by lia.
    revert Hn. generalize (N.to_nat i). clear H. induction n as [|n IH]; intros [|m] H; simpl; try lia; auto.
    apply IH; lia.
  Qed.

  Lemma len_app l r : len (l ++ r) = len l + len r.
  Proof. unfold len. rewrite app_length. lia. Qed.

  Lemma len_repeat (x : A) n : len (repeat x n) = N.of_nat n.
  Proof. unfold len. now rewrite repeat_length. Qed.
End CellLemmas.

(* ------------------------------------------------------------------ C. Power2Mod arithmetic *)
Lemma land_mask e x : N.land x (2 ^ e - 1) = x mod 2 ^ e.
Proof. rewrite <- N.land_ones. f_equal. rewrite N.ones_equiv. apply N.sub_1_r. Qed.

Lemma pow2_pos e : 0 < 2 ^ e.
Proof. apply N.neq_0_lt_0. apply N.pow_nonzero. lia. Qed.

Lemma mask_double_spec e : mask_double (2 ^ e - 1) = 2 ^ (e + 1) - 1.
Proof.
  unfold mask_double, mask_shl, mask_or.
  assert (H : forall m, N.lor (N.shiftl m 1) 1 = 2 * m + 1).
  { intros [|p]; reflexivity. }
  rewrite H. rewrite N.pow_add_r. pose proof (pow2_pos e). simpl (2 ^ 1). lia.
Qed.

Lemma mod_double (h B : N) : 0 < B -> h mod (2 * B) = h mod B \/ h mod (2 * B) = h mod B + B.
Proof.
  intros HB. rewrite (N.mul_comm 2 B). rewrite N.mod_mul_r by lia.
  assert (H2 : (h / B) mod 2 < 2) by (apply N.mod_lt; lia).
  revert H2. generalize ((h / B) mod 2). generalize (h mod B). intros m r H2.
  destruct (N.eq_dec r 0) as [->|E]; [left; lia | right].
  assert (r = 1) by lia. subst. lia.
Qed.

(* next bucket, cyclically *)
Definition nxt (B i : N) : N := if i + 1 =? B then 0 else i + 1.

(* x lies in the cyclic half-open interval [p, q) of a table with B buckets *)
Definition between (B p q x : N) : Prop :=
  x < B /\ ((p <= q /\ p <= x < q) \/ (q < p /\ (p <= x \/ x < q))).

(* number of steps from p to q going forward cyclically *)
Definition dist (B p q : N) : N := if p <=? q then q - p else q + B - p.

Ltac cyc := unfold nxt, between, dist in *;
  repeat match goal with
         | |- context [?a =? ?b] => destruct (N.eqb_spec a b)
         | |- context [?a <=? ?b] => destruct (N.leb_spec a b)
         | H : context [?a =? ?b] |- _ => destruct (N.eqb_spec a b)
         | H : context [?a <=? ?b] |- _ => destruct (N.leb_spec a b)
         end; try lia.

Lemma between_step B p q x : p < B -> q < B -> p <> q ->
  between B p q x <-> x = p \/ between B (nxt B p) q x.
Proof. intros; cyc. Qed.

Lemma dist_step B p q : p < B -> q < B -> p <> q -> dist B (nxt B p) q + 1 = dist B p q.
Proof. intros; cyc. Qed.

Lemma nxt_lt B p : p < B -> nxt B p < B.
Proof. intros; cyc. Qed.

Lemma between_self B p x : ~ between B p p x.
Proof. cyc. Qed.

Lemma dist_lt B p q : p < B -> q < B -> dist B p q < B.
Proof. intros; cyc. Qed.

(* ------------------------------------------------------------------ B. occupancy and contents *)
Section Proofs.
  Variable V : Type.
  Variable v0 : V.
  Variable hash : N -> N.

  Notation entry := (entry V).
  Notation ptable := (ptable V).
  Implicit Types cs : list entry.

  Definition live (e : entry) : bool := negb (ekey e =? invalid).
  Definition occ cs (x : N) : Prop := exists e, get cs x = Some e /\ live e = true.
  Definition emp cs (x : N) : Prop := exists e, get cs x = Some e /\ live e = false.
  Definition contents cs : list entry := filter live cs.
  Definition keys cs : list N := map ekey (contents cs).

  Lemma live_true e : live e = true <-> ekey e <> invalid.
  Proof. unfold live. destruct (N.eqb_spec (ekey e) invalid); simpl; split; congruence. Qed.
  Lemma live_false e : live e = false <-> ekey e = invalid.
  Proof. unfold live. destruct (N.eqb_spec (ekey e) invalid); simpl; split; congruence. Qed.

  Lemma live_set_invalid e : live (set_key e invalid) = false.
  Proof. apply live_false. reflexivity. Qed.

  Lemma occ_or_emp cs x : x < len cs -> occ cs x \/ emp cs x.
  Proof.
    intros H. destruct (get_lt_some cs x H) as [e He].
    destruct (live e) eqn:L; [left | right]; exists e; auto.
  Qed.

  Lemma occ_emp_excl cs x : occ cs x -> emp cs x -> False.
  Proof. intros (e & He & L) (e' & He' & L'). congruence. Qed.

  Lemma occ_lt cs x : occ cs x -> x < len cs.
  Proof. intros (e & He & _). eapply get_some_lt; eauto. Qed.

  Lemma emp_lt cs x : emp cs x -> x < len cs.
  Proof. intros (e & He & _). eapply get_some_lt; eauto. Qed.

  (* writing a live entry keeps every occupied bucket occupied *)
  Lemma occ_upd_live cs q e x : live e = true -> q < len cs -> occ cs x -> occ (upd cs q e) x.
  Proof.
    intros L Hq (g & Hg & Lg). destruct (N.eq_dec q x) as [->|Ne].
    - exists e. split; auto. apply get_upd_eq; auto.
    - exists g. split; auto. rewrite get_upd_neq; auto.
  Qed.

  Lemma occ_upd_other cs q e x : q <> x -> occ (upd cs q e) x <-> occ cs x.
  Proof. intros Ne. unfold occ. rewrite get_upd_neq by auto. tauto. Qed.

  Lemma emp_upd_other cs q e x : q <> x -> emp (upd cs q e) x <-> emp cs x.
  Proof. intros Ne. unfold emp. rewrite get_upd_neq by auto. tauto. Qed.

  Lemma in_contents cs e : In e (contents cs) <-> exists i, get cs i = Some e /\ live e = true.
  Proof.
    unfold contents. rewrite filter_In. split.
    - intros [Hin L]. apply In_nth_error in Hin. destruct Hin as [n Hn].
      exists (N.of_nat n). split; auto. unfold get. now rewrite Nat2N.id.
    - intros (i & Hi & L). split; auto. eapply nth_error_In; eauto.
  Qed.

  Lemma contents_vacate cs i e : get cs i = Some e -> live e = true ->
    Permutation (e :: contents (upd cs i (set_key e invalid))) (contents cs).
  Proof.
    intros H L. destruct (get_split _ _ _ H) as (l1 & l2 & -> & _ & Hu). rewrite Hu.
    assert (L' : live (set_key e invalid) = false) by (apply live_false; reflexivity).
    unfold contents. rewrite !filter_app. cbn [filter]. rewrite L, L'. apply Permutation_middle.
  Qed.

  Lemma contents_fill cs i g e : get cs i = Some g -> live g = false -> live e = true ->
    Permutation (contents (upd cs i e)) (e :: contents cs).
  Proof.
    intros H Lg L. destruct (get_split _ _ _ H) as (l1 & l2 & -> & _ & Hu). rewrite Hu.
    unfold contents. rewrite !filter_app. cbn [filter]. rewrite L, Lg. symmetry. apply Permutation_middle.
  Qed.

  (* replacing the value of a live entry (same key) *)
  Lemma contents_set_value cs i g e : get cs i = Some g -> live g = true -> ekey e = ekey g ->
    keys (upd cs i e) = keys cs.
  Proof.
    intros H Lg K. destruct (get_split _ _ _ H) as (l1 & l2 & -> & _ & Hu). rewrite Hu.
    assert (L : live e = true) by (apply live_true; rewrite K; now apply live_true).
    unfold keys, contents. rewrite !filter_app. cbn [filter]. rewrite L, Lg. rewrite !map_app. cbn [map]. now rewrite K.
  Qed.

  Lemma nodup_keys_pos cs i j e1 e2 : NoDup (keys cs) ->
    get cs i = Some e1 -> get cs j = Some e2 -> live e1 = true -> ekey e1 = ekey e2 -> i = j.
  Proof.
    assert (W : forall cs i j e1 e2, NoDup (keys cs) -> i < j ->
      get cs i = Some e1 -> get cs j = Some e2 -> live e1 = true -> live e2 = true -> ekey e1 = ekey e2 -> False).
    { clear. intros cs i j e1 e2 ND Hij H1 H2 L1 L2 K.
      destruct (get_split _ _ _ H1) as (l1 & l2 & -> & Hl & _).
      rewrite get_app_r in H2 by lia.
      assert (Hj : get l2 (j - len l1 - 1) = Some e2).
      { unfold get in *. replace (N.to_nat (j - len l1)) with (S (N.to_nat (j - len l1 - 1))) in H2 by lia. exact H2. }
      unfold keys, contents in ND. rewrite filter_app, map_app in ND. simpl in ND. rewrite L1 in ND. simpl in ND.
      apply NoDup_remove_2 in ND. apply ND. apply in_or_app. right.
      rewrite K. apply in_map. apply filter_In. split; auto. unfold get in Hj. eapply nth_error_In; eauto. }
    intros ND H1 H2 L1 K.
    assert (L2 : live e2 = true) by (apply live_true; rewrite <- K; now apply live_true).
    destruct (N.lt_trichotomy i j) as [Hlt|[->|Hgt]]; auto; exfalso.
    - eapply (W cs i j e1 e2); eauto.
    - eapply (W cs j i e2 e1); eauto.
  Qed.

  Lemma exists_empty cs : (length (contents cs) < length cs)%nat -> exists x, emp cs x.
  Proof.
    induction cs as [|h t IH]; simpl; intros H; [lia|].
    destruct (live h) eqn:L.
    - simpl in H. destruct IH as (x & e & He & Le); [lia|].
      exists (x + 1), e. split; auto. unfold get in *. replace (N.to_nat (x + 1)) with (S (N.to_nat x)) by lia. exact He.
    - exists 0, h. split; auto.
  Qed.

  (* ---------------------------------------------------------------- D. probing lemmas *)
  Section Probe.
    Variable cs : list entry.
    Variable B : N.
    Hypothesis Hlen : len cs = B.

    (* from p, an empty bucket q' with everything before it occupied exists whenever some bucket is empty *)
    Lemma first_empty_from : forall n p f, p < B -> emp cs f -> dist B p f = N.of_nat n ->
      exists q, emp cs q /\ forall x, between B p q x -> occ cs x.
    Proof.
      induction n as [|n IH]; intros p f Hp Hf Hd.
      - assert (f < B) by (rewrite <- Hlen; eapply emp_lt; eauto).
        assert (p = f) by cyc. subst. exists f. split; auto. intros x Hx. exfalso. eapply between_self; eauto.
      - assert (Hfb : f < B) by (rewrite <- Hlen; eapply emp_lt; eauto).
        destruct (occ_or_emp cs p) as [Ho|He]; [lia| |].
        + assert (Hne : p <> f) by (intros ->; eapply occ_emp_excl; eauto).
          destruct (IH (nxt B p) f) as (q & Hq & Hall); auto using nxt_lt.
          { pose proof (dist_step B p f Hp Hfb Hne). lia. }
          exists q. split; auto. intros x Hx.
          assert (Hqb : q < B) by (rewrite <- Hlen; eapply emp_lt; eauto).
          assert (Hpq : p <> q) by (intros ->; eapply occ_emp_excl; eauto).
          apply (between_step B p q x Hp Hqb Hpq) in Hx. destruct Hx as [->|Hx]; auto.
        + exists p. split; auto. intros x Hx. exfalso. eapply between_self; eauto.
    Qed.

    Lemma first_empty p : p < B -> (exists f, emp cs f) ->
      exists q, emp cs q /\ forall x, between B p q x -> occ cs x.
    Proof.
      intros Hp [f Hf]. eapply (first_empty_from (N.to_nat (dist B p f)) p f); eauto. lia.
    Qed.

    Variable mask : N.
    Hypothesis Hnext : forall i, i < B -> next mask i = nxt B i.

    (* find_loop walks the cyclic interval [p, q) of foreign live keys and stops at q *)
    Lemma find_loop_walk k : forall fuel p q, p < B -> q < B -> dist B p q < N.of_nat fuel ->
      (forall x, between B p q x -> exists e, get cs x = Some e /\ live e = true /\ ekey e <> k) ->
      forall eq, get cs q = Some eq -> (ekey eq = k \/ live eq = false) ->
      find_loop V fuel cs mask p k = Ok (if ekey eq =? k then Some q else None).
    Proof.
      induction fuel as [|fuel IH]; intros p q Hp Hq Hd Hall eq Hget Hstop; [lia|].
      simpl. destruct (N.eq_dec p q) as [->|Hne].
      - rewrite Hget. destruct (N.eqb_spec (ekey eq) k); auto.
        destruct Hstop as [?|L]; [congruence|]. apply live_false in L. rewrite L. rewrite N.eqb_refl. reflexivity.
      - destruct (Hall p) as (e & He & L & K); [cyc|]. rewrite He.
        destruct (N.eqb_spec (ekey e) k); [congruence|].
        apply live_true in L. destruct (N.eqb_spec (ekey e) invalid); [congruence|].
        rewrite Hnext by auto. apply IH; auto using nxt_lt.
        + pose proof (dist_step B p q Hp Hq Hne). lia.
        + intros x Hx. apply Hall. apply between_step; auto.
    Qed.

    (* ui_loop (UncheckedInsert) walks over occupied buckets and writes into the first empty one *)
    Lemma ui_loop_walk e : forall fuel p q, p < B -> q < B -> dist B p q < N.of_nat fuel ->
      (forall x, between B p q x -> occ cs x) -> emp cs q ->
      ui_loop V fuel cs mask p e = Ok (upd cs q e, q).
    Proof.
      induction fuel as [|fuel IH]; intros p q Hp Hq Hd Hall Hemp; [lia|].
      simpl. destruct (N.eq_dec p q) as [->|Hne].
      - destruct Hemp as (g & Hg & L). rewrite Hg. apply live_false in L. rewrite L, N.eqb_refl. reflexivity.
      - destruct (Hall p) as (g & Hg & L); [cyc|]. rewrite Hg.
        apply live_true in L. destruct (N.eqb_spec (ekey g) invalid); [congruence|].
        rewrite Hnext by auto. apply IH; auto using nxt_lt.
        + pose proof (dist_step B p q Hp Hq Hne). lia.
        + intros x Hx. apply Hall. apply between_step; auto.
    Qed.
  End Probe.

  (* ---------------------------------------------------------------- E. Valid *)
  Definition ideal_of (e : N) (k : N) : N := hash k mod 2 ^ e.

  Record Valid cs (e : N) : Prop := mkValid {
    v_len : len cs = 2 ^ e;
    v_nodup : NoDup (keys cs);
    v_path : forall q en, get cs q = Some en -> live en = true ->
             forall x, between (2 ^ e) (ideal_of e (ekey en)) q x -> occ cs x;
    v_room : N.of_nat (length (contents cs)) < 2 ^ e }.

  Lemma ideal_of_lt e k : ideal_of e k < 2 ^ e.
  Proof. unfold ideal_of. apply N.mod_lt. pose proof (pow2_pos e). lia. Qed.

  Lemma ideal_mask e k : ideal hash (2 ^ e - 1) k = ideal_of e k.
  Proof. unfold ideal, ideal_of. apply land_mask. Qed.

  Lemma next_mask e i : i < 2 ^ e -> next (2 ^ e - 1) i = nxt (2 ^ e) i.
  Proof.
    intros H. unfold next, nxt. rewrite land_mask.
    destruct (N.eqb_spec (i + 1) (2 ^ e)) as [E|E].
    - rewrite E. apply N.mod_same. pose proof (pow2_pos e). lia.
    - apply N.mod_small. lia.
  Qed.

  Lemma valid_has_empty cs e : Valid cs e -> exists f, emp cs f.
  Proof.
    intros [Hl _ _ Hr]. apply exists_empty. unfold len in Hl. lia.
  Qed.

  Lemma in_keys cs k : In k (keys cs) <-> exists i en, get cs i = Some en /\ live en = true /\ ekey en = k.
  Proof.
    unfold keys. rewrite in_map_iff. split.
    - intros (en & K & Hin). apply in_contents in Hin. destruct Hin as (i & Hi & L). eauto.
    - intros (i & en & Hi & L & K). exists en. split; auto. apply in_contents. eauto.
  Qed.

  (* Find on a valid table: a stored key is found where it is stored *)
  Lemma find_present cs e q en : Valid cs e -> get cs q = Some en -> live en = true ->
    find_loop V (length cs) cs (2 ^ e - 1) (ideal_of e (ekey en)) (ekey en) = Ok (Some q).
  Proof.
    intros Hv Hq L. pose proof (v_len _ _ Hv) as Hl.
    assert (Hqb : q < 2 ^ e) by (rewrite <- Hl; eapply get_some_lt; eauto).
    rewrite (find_loop_walk cs (2 ^ e) Hl (2 ^ e - 1) (next_mask e) (ekey en) (length cs) (ideal_of e (ekey en)) q) with (eq := en); auto.
    - now rewrite N.eqb_refl.
    - apply ideal_of_lt.
    - pose proof (dist_lt (2 ^ e) (ideal_of e (ekey en)) q (ideal_of_lt _ _) Hqb). unfold len in Hl. lia.
    - intros x Hx. destruct (v_path _ _ Hv q en Hq L x Hx) as (g & Hg & Lg).
      exists g. repeat split; auto. intros K.
      assert (x = q) by (eapply nodup_keys_pos; eauto using v_nodup).
      subst. unfold between in Hx. lia.
  Qed.

  (* ... and a key that is not stored is reported absent *)
  Lemma find_absent cs e k : Valid cs e -> k <> invalid -> ~ In k (keys cs) ->
    find_loop V (length cs) cs (2 ^ e - 1) (ideal_of e k) k = Ok None.
  Proof.
    intros Hv Hk Hn. pose proof (v_len _ _ Hv) as Hl.
    destruct (first_empty cs (2 ^ e) Hl (ideal_of e k) (ideal_of_lt _ _) (valid_has_empty _ _ Hv)) as (q & Hq & Hall).
    assert (Hqb : q < 2 ^ e) by (rewrite <- Hl; eapply emp_lt; eauto).
    destruct Hq as (eq & Hget & Leq).
    rewrite (find_loop_walk cs (2 ^ e) Hl (2 ^ e - 1) (next_mask e) k (length cs) (ideal_of e k) q) with (eq := eq); auto.
    - apply live_false in Leq. destruct (N.eqb_spec (ekey eq) k); [congruence|reflexivity].
    - apply ideal_of_lt.
    - pose proof (dist_lt (2 ^ e) (ideal_of e k) q (ideal_of_lt _ _) Hqb). unfold len in Hl. lia.
    - intros x Hx. destruct (Hall x Hx) as (g & Hg & Lg). exists g. repeat split; auto.
      intros K. apply Hn. apply in_keys. eauto.
  Qed.

  (* ---------------------------------------------------------------- F. insertion keeps Valid *)
  Lemma perm_keys cs cs' l : Permutation (contents cs') (l ++ contents cs) ->
    Permutation (keys cs') (map ekey l ++ keys cs).
  Proof. intros H. unfold keys. rewrite <- map_app. now apply Permutation_map. Qed.

  Lemma valid_insert cs e q en : Valid cs e -> emp cs q -> live en = true -> ~ In (ekey en) (keys cs) ->
    (forall x, between (2 ^ e) (ideal_of e (ekey en)) q x -> occ cs x) ->
    N.of_nat (length (contents cs)) + 1 < 2 ^ e ->
    Valid (upd cs q en) e /\ Permutation (contents (upd cs q en)) (en :: contents cs).
  Proof.
    intros Hv Hq L Hn Hpath Hroom.
    assert (Hqlen : q < len cs) by (eapply emp_lt; eauto).
    destruct Hq as (g & Hg & Lg).
    assert (HP : Permutation (contents (upd cs q en)) (en :: contents cs)) by (eapply contents_fill; eauto).
    split; auto. constructor.
    - rewrite len_upd. apply Hv.
    - apply (Permutation_NoDup (l := ekey en :: keys cs)).
      + symmetry. apply (perm_keys cs (upd cs q en) [en]). exact HP.
      + constructor; auto. apply Hv.
    - intros q' en' Hget L' x Hx. destruct (N.eq_dec q q') as [<-|Ne].
      + rewrite get_upd_eq in Hget by auto. injection Hget as <-.
        apply occ_upd_live; auto.
      + rewrite get_upd_neq in Hget by auto. apply occ_upd_live; auto.
        eapply (v_path _ _ Hv); eauto.
    - apply Permutation_length in HP. rewrite HP. simpl. lia.
  Qed.

  (* ---------------------------------------------------------------- G. unchecked_insert, find_or_insert *)
  Lemma unchecked_insert_absent cs e en : Valid cs e -> live en = true -> ~ In (ekey en) (keys cs) ->
    N.of_nat (length (contents cs)) + 1 < 2 ^ e ->
    exists q, unchecked_insert V hash cs (2 ^ e - 1) en = Ok (upd cs q en, q) /\ emp cs q /\
              Valid (upd cs q en) e /\ Permutation (contents (upd cs q en)) (en :: contents cs).
  Proof.
    intros Hv L Hn Hroom. pose proof (v_len _ _ Hv) as Hl.
    destruct (first_empty cs (2 ^ e) Hl (ideal_of e (ekey en)) (ideal_of_lt _ _) (valid_has_empty _ _ Hv)) as (q & Hq & Hall).
    assert (Hqb : q < 2 ^ e) by (rewrite <- Hl; eapply emp_lt; eauto).
    exists q. unfold unchecked_insert. rewrite ideal_mask.
    rewrite (ui_loop_walk cs (2 ^ e) Hl (2 ^ e - 1) (next_mask e) en (length cs) (ideal_of e (ekey en)) q); auto.
    - split; auto. split; auto. apply valid_insert; auto.
    - apply ideal_of_lt.
    - pose proof (dist_lt (2 ^ e) (ideal_of e (ekey en)) q (ideal_of_lt _ _) Hqb). unfold len in Hl. lia.
  Qed.

  Section FoiLoop.
    Variable t : ptable.
    Variable B : N.
    Hypothesis Hlen : len (cells t) = B.
    Hypothesis Hnext : forall i, i < B -> next (mask t) i = nxt B i.
    Variable en : entry.

    Lemma foi_loop_walk : forall fuel p q, p < B -> q < B -> dist B p q < N.of_nat fuel ->
      (forall x, between B p q x -> exists g, get (cells t) x = Some g /\ live g = true /\ ekey g <> ekey en) ->
      forall g, get (cells t) q = Some g -> (ekey g = ekey en \/ live g = false) ->
      foi_loop V fuel t p en =
        if ekey g =? ekey en then Ok (true, q, t)
        else if nbuckets t <=? entries t + 1 then ErrFull
             else Ok (false, q, mkPT (upd (cells t) q en) (nbuckets t) (mask t) (entries t + 1)).
    Proof.
      induction fuel as [|fuel IH]; intros p q Hp Hq Hd Hall g Hget Hstop; [lia|].
      simpl. destruct (N.eq_dec p q) as [->|Hne].
      - rewrite Hget. destruct (N.eqb_spec (ekey g) (ekey en)); auto.
        destruct Hstop as [?|L]; [congruence|]. apply live_false in L. rewrite L. rewrite N.eqb_refl. reflexivity.
      - destruct (Hall p) as (g' & Hg' & L & K); [cyc|]. rewrite Hg'.
        destruct (N.eqb_spec (ekey g') (ekey en)); [congruence|].
        apply live_true in L. destruct (N.eqb_spec (ekey g') invalid); [congruence|].
        rewrite Hnext by auto. apply IH; auto using nxt_lt.
        + pose proof (dist_step B p q Hp Hq Hne). lia.
        + intros x Hx. apply Hall. apply between_step; auto.
    Qed.
  End FoiLoop.

  (* geometry of a ProbingHashTable with 2^e buckets *)
  Definition Geom (t : ptable) (e : N) : Prop := nbuckets t = 2 ^ e /\ mask t = 2 ^ e - 1.

  Lemma find_or_insert_present t e q g en : Valid (cells t) e -> Geom t e ->
    get (cells t) q = Some g -> live g = true -> ekey g = ekey en ->
    find_or_insert V hash t en = Ok (true, q, t).
  Proof.
    intros Hv [Hnb Hm] Hg L K. pose proof (v_len _ _ Hv) as Hl.
    assert (Hqb : q < 2 ^ e) by (rewrite <- Hl; eapply get_some_lt; eauto).
    unfold find_or_insert. rewrite Hm, ideal_mask.
    assert (Hnx : forall i, i < 2 ^ e -> next (mask t) i = nxt (2 ^ e) i) by (rewrite Hm; apply next_mask).
    rewrite (foi_loop_walk t (2 ^ e) Hl Hnx en (length (cells t)) (ideal_of e (ekey en)) q) with (g := g); auto.
    - rewrite K, N.eqb_refl. reflexivity.
    - apply ideal_of_lt.
    - pose proof (dist_lt (2 ^ e) (ideal_of e (ekey en)) q (ideal_of_lt _ _) Hqb). unfold len in Hl. lia.
    - intros x Hx. rewrite <- K in Hx. destruct (v_path _ _ Hv q g Hg L x Hx) as (g' & Hg' & Lg').
      exists g'. repeat split; auto. intros K'.
      assert (x = q) by (eapply nodup_keys_pos; eauto using v_nodup; congruence).
      subst. unfold between in Hx. lia.
  Qed.

  Lemma find_or_insert_absent t e en : Valid (cells t) e -> Geom t e ->
    live en = true -> ~ In (ekey en) (keys (cells t)) ->
    entries t = N.of_nat (length (contents (cells t))) -> entries t + 1 < 2 ^ e ->
    exists q, find_or_insert V hash t en =
                Ok (false, q, mkPT (upd (cells t) q en) (nbuckets t) (mask t) (entries t + 1)) /\
              emp (cells t) q /\ Valid (upd (cells t) q en) e /\
              Permutation (contents (upd (cells t) q en)) (en :: contents (cells t)).
  Proof.
    intros Hv [Hnb Hm] L Hn Hent Hroom. pose proof (v_len _ _ Hv) as Hl.
    destruct (first_empty (cells t) (2 ^ e) Hl (ideal_of e (ekey en)) (ideal_of_lt _ _) (valid_has_empty _ _ Hv)) as (q & Hq & Hall).
    assert (Hqb : q < 2 ^ e) by (rewrite <- Hl; eapply emp_lt; eauto).
    exists q. unfold find_or_insert. rewrite Hm, ideal_mask.
    assert (Hnx : forall i, i < 2 ^ e -> next (mask t) i = nxt (2 ^ e) i) by (rewrite Hm; apply next_mask).
    destruct Hq as (g & Hg & Lg).
    rewrite (foi_loop_walk t (2 ^ e) Hl Hnx en (length (cells t)) (ideal_of e (ekey en)) q) with (g := g); auto.
    - assert (Kg : ekey g <> ekey en).
      { apply live_false in Lg. apply live_true in L. congruence. }
      destruct (N.eqb_spec (ekey g) (ekey en)); [congruence|].
      rewrite Hnb. destruct (N.leb_spec (2 ^ e) (entries t + 1)); [lia|].
      rewrite Hm. split; [reflexivity|]. split; [exists g; auto|].
      apply valid_insert; auto. exists g; auto. lia.
    - apply ideal_of_lt.
    - pose proof (dist_lt (2 ^ e) (ideal_of e (ekey en)) q (ideal_of_lt _ _) Hqb). unfold len in Hl. lia.
    - intros x Hx. destruct (Hall x Hx) as (g' & Hg' & Lg'). exists g'. repeat split; auto.
      intros K. apply Hn. apply in_keys. eauto.
  Qed.

  (* ---------------------------------------------------------------- H. Double *)
  Lemma contents_zeros n : contents (repeat (invalid, v0) n) = [].
  Proof. induction n as [|n IH]; simpl; auto. Qed.

  Lemma contents_app a b : contents (a ++ b) = contents a ++ contents b.
  Proof. apply filter_app. Qed.

  (* phase 1: the parking loop *)
  Lemma park_loop_spec : forall n cs i rolled, i + N.of_nat n <= len cs ->
    exists p cs' rolled', park_loop V n cs i rolled = Ok (cs', rolled') /\
      i <= p <= i + N.of_nat n /\ len cs' = len cs /\
      (forall x, i <= x < p -> occ cs x /\ emp cs' x) /\
      (forall x, ~ (i <= x < p) -> get cs' x = get cs x) /\
      (p < i + N.of_nat n -> emp cs p) /\
      Permutation (contents cs' ++ rolled') (contents cs ++ rolled).
  Proof.
    induction n as [|n IH]; intros cs i rolled Hn.
    - exists i, cs, rolled. simpl. repeat split; auto; try lia.
    - simpl. destruct (get_lt_some cs i) as [en Hen]; [lia|]. rewrite Hen.
      destruct (N.eqb_spec (ekey en) invalid) as [K|K].
      + exists i, cs, rolled. repeat split; auto; try lia.
        intros _. exists en. split; auto. now apply live_false.
      + assert (L : live en = true) by now apply live_true.
        assert (Hi : i < len cs) by lia.
        destruct (IH (upd cs i (set_key en invalid)) (i + 1) (rolled ++ [en])) as (p & cs' & r' & Hrun & Hp & Hl & Hin & Hout & Hstop & HP).
        { rewrite len_upd. lia. }
        exists p, cs', r'. rewrite len_upd in Hl.
        split; [exact Hrun|]. split; [lia|]. split; [exact Hl|]. split; [|split; [|split]].
        * intros x Hx. destruct (N.eq_dec x i) as [->|Ne].
          -- split; [exists en; auto|]. unfold emp. rewrite Hout by lia. rewrite get_upd_eq by auto.
             exists (set_key en invalid). split; auto; apply live_false; reflexivity.
          -- destruct (Hin x) as [Ho He]; [lia|]. split; auto. apply occ_upd_other in Ho; auto.
        * intros x Hx. destruct (N.eq_dec x i) as [->|Ne].
          -- exfalso. apply Hx. lia.
          -- rewrite Hout by lia. apply get_upd_neq; auto.
        * intros Hlt. assert (Hpe : emp (upd cs i (set_key en invalid)) p) by (apply Hstop; lia).
          apply emp_upd_other in Hpe; auto. lia.
        * rewrite HP. rewrite app_assoc.
          transitivity (en :: contents (upd cs i (set_key en invalid)) ++ rolled).
          -- symmetry. apply Permutation_cons_append.
          -- change (en :: contents (upd cs i (set_key en invalid)) ++ rolled)
               with ((en :: contents (upd cs i (set_key en invalid))) ++ rolled).
             apply Permutation_app_tail. apply contents_vacate; auto.
  Qed.

  (* invariant of the re-insertion loop: j = next index to process, 2^e = old bucket count *)
  Record DInv (e : N) (oc : list entry) cs (j : N) (pend : list entry) : Prop := mkDInv {
    d_len : len cs = 2 ^ (e + 1);
    d_new : forall q en, get cs q = Some en -> live en = true -> (q < j \/ 2 ^ e <= q) ->
            ideal_of (e + 1) (ekey en) <= q /\ (2 ^ e <= q -> 2 ^ e <= ideal_of (e + 1) (ekey en)) /\
            forall x, ideal_of (e + 1) (ekey en) <= x <= q -> occ cs x;
    d_upper : forall q, occ cs q -> 2 ^ e <= q -> q < j + 2 ^ e;
    d_old : forall q en, get cs q = Some en -> live en = true -> j <= q < 2 ^ e -> ideal_of e (ekey en) <= q;
    d_perm : Permutation (contents cs ++ pend) oc }.

  Lemma pow2_succ e : 2 ^ (e + 1) = 2 * 2 ^ e.
  Proof. rewrite N.pow_add_r. simpl (2 ^ 1). lia. Qed.

  Lemma reinsert_step e oc cs j pend : DInv e oc cs j pend -> j < 2 ^ e ->
    forall en, get cs j = Some en ->
      (live en = false -> DInv e oc cs (j + 1) pend) /\
      (live en = true -> exists q,
         unchecked_insert V hash (upd cs j (set_key en invalid)) (2 ^ (e + 1) - 1) en
           = Ok (upd (upd cs j (set_key en invalid)) q en, q) /\
         DInv e oc (upd (upd cs j (set_key en invalid)) q en) (j + 1) pend).
  Proof.
    intros HD Hj en Hen. pose proof (pow2_pos e) as HB. pose proof (pow2_succ e) as H2B.
    pose proof (d_len _ _ _ _ _ HD) as Hl.
    split.
    - intros L. constructor.
      + exact Hl.
      + intros q en' Hq L' Hr. apply (d_new _ _ _ _ _ HD q en' Hq L').
        destruct (N.eq_dec q j) as [->|Ne]; [congruence|lia].
      + intros q Ho Hq. pose proof (d_upper _ _ _ _ _ HD q Ho Hq). lia.
      + intros q en' Hq L' Hr. apply (d_old _ _ _ _ _ HD q en' Hq L'). lia.
      + apply HD.
    - intros L.
      set (csv := upd cs j (set_key en invalid)).
      assert (Hlv : len csv = 2 ^ (e + 1)) by (unfold csv; rewrite len_upd; exact Hl).
      assert (Hjlen : j < len cs) by lia.
      set (k := ekey en).
      pose proof (d_old _ _ _ _ _ HD j en Hen L ltac:(lia)) as Hi0. fold k in Hi0.
      pose proof (ideal_of_lt (e + 1) k) as Hi'lt.
      assert (Hvac : get csv j = Some (set_key en invalid)) by (unfold csv; apply get_upd_eq; auto).
      (* the free bucket that bounds the probe *)
      assert (Hhi : exists hi, emp csv hi /\ ideal_of (e + 1) k <= hi /\ hi <= j + 2 ^ e /\
                               (ideal_of (e + 1) k < 2 ^ e -> hi = j) /\ (2 ^ e <= ideal_of (e + 1) k -> 2 ^ e <= hi)).
      { assert (E : ideal_of (e + 1) k = ideal_of e k \/ ideal_of (e + 1) k = ideal_of e k + 2 ^ e).
        { unfold ideal_of. rewrite H2B. apply mod_double; auto. }
        pose proof (ideal_of_lt e k) as Hi0lt.
        destruct E as [E|E].
        - exists j.
          split; [exists (set_key en invalid); split; auto; apply live_false; reflexivity|].
          repeat split; lia.
        - exists (j + 2 ^ e). split; [|repeat split; lia].
          destruct (occ_or_emp csv (j + 2 ^ e)) as [Ho|He]; [lia| |exact He].
          unfold csv in Ho. apply occ_upd_other in Ho; [|lia].
          pose proof (d_upper _ _ _ _ _ HD (j + 2 ^ e) Ho). lia. }
      destruct Hhi as (hi & Hemp & Hlo & Hhi & Hlow & Hup).
      destruct (first_empty csv (2 ^ (e + 1)) Hlv (ideal_of (e + 1) k) Hi'lt (ex_intro _ hi Hemp)) as (q & Hq & Hall).
      assert (Hqb : q < 2 ^ (e + 1)) by (rewrite <- Hlv; eapply emp_lt; eauto).
      assert (Hqr : ideal_of (e + 1) k <= q <= hi).
      { assert (Hnb : ~ between (2 ^ (e + 1)) (ideal_of (e + 1) k) q hi).
        { intros Hb. eapply occ_emp_excl; eauto. }
        unfold between in Hnb. lia. }
      exists q. split.
      { unfold unchecked_insert. rewrite ideal_mask. fold k. fold csv.
        apply (ui_loop_walk csv (2 ^ (e + 1)) Hlv (2 ^ (e + 1) - 1) (next_mask (e + 1))); auto.
        pose proof (dist_lt (2 ^ (e + 1)) (ideal_of (e + 1) k) q Hi'lt Hqb). unfold len in Hlv. lia. }
      fold csv.
      assert (Hqlen : q < len csv) by lia.
      assert (Hqj : ideal_of (e + 1) k < 2 ^ e -> q <= j) by (intros H; specialize (Hlow H); lia).
      assert (Hqu : 2 ^ e <= ideal_of (e + 1) k -> 2 ^ e <= q) by lia.
      destruct Hq as (g & Hg & Lg).
      constructor.
      + rewrite len_upd. exact Hlv.
      + intros q' en' Hq' L' Hr. destruct (N.eq_dec q q') as [<-|Ne].
        * rewrite get_upd_eq in Hq' by auto. injection Hq' as <-. fold k.
          split; [lia|]. split; [lia|].
          intros x Hx. destruct (N.eq_dec x q) as [->|Nx].
          -- exists en. split; auto. apply get_upd_eq; auto.
          -- apply occ_upd_live; auto. apply Hall. unfold between. lia.
        * rewrite get_upd_neq in Hq' by auto.
          assert (Nj : q' <> j).
          { intros ->. rewrite Hvac in Hq'. injection Hq' as <-. rewrite live_set_invalid in L'. discriminate. }
          unfold csv in Hq'. rewrite get_upd_neq in Hq' by auto.
          destruct (d_new _ _ _ _ _ HD q' en' Hq' L' ltac:(lia)) as (A1 & A2 & A3).
          split; auto. split; auto. intros x Hx.
          apply occ_upd_live; auto. unfold csv. apply occ_upd_other; [|apply A3; auto]. lia.
      + intros q' Ho Hq'. destruct (N.eq_dec q q') as [<-|Ne]; [lia|].
        apply occ_upd_other in Ho; auto. unfold csv in Ho. apply occ_upd_other in Ho; [|lia].
        pose proof (d_upper _ _ _ _ _ HD q' Ho Hq'). lia.
      + intros q' en' Hq' L' Hr.
        assert (Ne : q <> q').
        { destruct (N.lt_ge_cases (ideal_of (e + 1) k) (2 ^ e)) as [H|H]; [specialize (Hqj H)|specialize (Hqu H)]; lia. }
        rewrite get_upd_neq in Hq' by auto. unfold csv in Hq'. rewrite get_upd_neq in Hq' by lia.
        apply (d_old _ _ _ _ _ HD q' en' Hq' L'). lia.
      + rewrite (contents_fill csv q g en Hg Lg L).
        change ((en :: contents csv) ++ pend) with (en :: contents csv ++ pend).
        unfold csv. rewrite <- (d_perm _ _ _ _ _ HD).
        rewrite <- (contents_vacate cs j en Hen L). reflexivity.
  Qed.

  Lemma reinsert_loop_spec e oc pend : forall n cs j, DInv e oc cs j pend -> j + N.of_nat n <= 2 ^ e ->
    exists cs', reinsert_loop V hash n cs (2 ^ (e + 1) - 1) j = Ok cs' /\ DInv e oc cs' (j + N.of_nat n) pend.
  Proof.
    induction n as [|n IH]; intros cs j HD Hn.
    - exists cs. simpl. split; auto. rewrite N.add_0_r. exact HD.
    - cbn [reinsert_loop]. pose proof (pow2_succ e) as H2B.
      destruct (get_lt_some cs j) as [en Hen]; [rewrite (d_len _ _ _ _ _ HD); lia|]. rewrite Hen.
      destruct (reinsert_step e oc cs j pend HD ltac:(lia) en Hen) as [Hdead Hlive].
      replace (j + N.of_nat (S n)) with (j + 1 + N.of_nat n) by lia.
      destruct (N.eqb_spec (ekey en) invalid) as [K|K].
      + apply IH; [|lia]. apply Hdead. now apply live_false.
      + destruct (Hlive ltac:(now apply live_true)) as (q & Hins & HD').
        rewrite Hins. cbn [bind fst]. apply IH; [exact HD'|lia].
  Qed.

  Lemma NoDup_app_l {A} (a b : list A) : NoDup (a ++ b) -> NoDup a.
  Proof. induction a as [|h t IH]; simpl; intros H; [constructor|]. inversion H; subst. constructor; auto. intros Hin. apply H2. apply in_or_app. auto. Qed.

  (* phase 3: parked entries are ordinary insertions into a valid table *)
  Lemma unpark_loop_spec e : forall pend cs, Valid cs e -> NoDup (keys cs ++ map ekey pend) ->
    (forall x, In x pend -> live x = true) ->
    N.of_nat (length (contents cs) + length pend) < 2 ^ e ->
    exists cs', unpark_loop V hash pend cs (2 ^ e - 1) = Ok cs' /\ Valid cs' e /\
                Permutation (contents cs') (contents cs ++ pend).
  Proof.
    induction pend as [|en pend IH]; intros cs Hv ND Hlive Hroom.
    - exists cs. simpl. rewrite app_nil_r. auto.
    - simpl in *.
      assert (Hn : ~ In (ekey en) (keys cs)).
      { intros Hin. apply NoDup_remove_2 in ND. apply ND. apply in_or_app. auto. }
      destruct (unchecked_insert_absent cs e en Hv (Hlive en (or_introl eq_refl)) Hn ltac:(lia)) as (q & Hins & _ & Hv' & HP).
      rewrite Hins. simpl.
      destruct (IH (upd cs q en)) as (cs' & Hrun & Hv'' & HP'); auto.
      + pose proof (perm_keys cs (upd cs q en) [en] HP) as HK. simpl in HK.
        apply (Permutation_NoDup (l := ekey en :: keys cs ++ map ekey pend)).
        * rewrite HK. reflexivity.
        * apply (Permutation_NoDup (l := keys cs ++ ekey en :: map ekey pend)); auto.
          symmetry. apply Permutation_middle.
      + apply Permutation_length in HP. rewrite HP. simpl. lia.
      + exists cs'. split; auto. split; auto. rewrite HP'. rewrite HP.
        simpl. apply Permutation_middle.
  Qed.

  Theorem double_correct (t : ptable) e : Valid (cells t) e -> Geom t e ->
    exists t', double V v0 hash t = Ok t' /\ Valid (cells t') (e + 1) /\ Geom t' (e + 1) /\
               entries t' = entries t /\ Permutation (contents (cells t')) (contents (cells t)).
  Proof.
    intros Hv [Hnb Hm]. pose proof (pow2_pos e) as HB. pose proof (pow2_succ e) as H2B.
    pose proof (v_len _ _ Hv) as Hl.
    unfold double. rewrite Hnb, Hm, mask_double_spec. unfold grow_factor.
    replace (N.to_nat (2 ^ e * 2 - 2 ^ e)) with (N.to_nat (2 ^ e)) by lia.
    set (cs0 := cells t ++ repeat (invalid, v0) (N.to_nat (2 ^ e))).
    assert (Hl0 : len cs0 = 2 ^ (e + 1)).
    { unfold cs0. rewrite len_app, len_repeat, Hl. lia. }
    destruct (park_loop_spec (N.to_nat (2 ^ e)) cs0 0 []) as (p & cs1 & rolled & Hpark & Hp & Hl1 & Hin & Hout & Hstop & HP1).
    { lia. }
    rewrite Hpark. cbn [bind fst snd].
    assert (Hzero : forall x, 2 ^ e <= x -> x < 2 ^ (e + 1) -> get cs0 x = Some (invalid, v0)).
    { intros x H1 H2. unfold cs0. rewrite get_app_r by lia. apply get_repeat. lia. }
    assert (Hlow : forall x, x < 2 ^ e -> get cs0 x = get (cells t) x).
    { intros x H1. unfold cs0. apply get_app_l. lia. }
    assert (Hc0 : contents cs0 = contents (cells t)).
    { unfold cs0. rewrite contents_app, contents_zeros. apply app_nil_r. }
    assert (HD0 : DInv e (contents (cells t)) cs1 0 rolled).
    { constructor.
      - lia.
      - intros q en Hq L Hr. exfalso. destruct Hr as [Hr|Hr]; [lia|].
        assert (q < 2 ^ (e + 1)) by (rewrite <- Hl0, <- Hl1; eapply get_some_lt; eauto).
        rewrite Hout in Hq by lia. rewrite Hzero in Hq by lia. injection Hq as <-. discriminate L.
      - intros q (en & Hq & L) Hr. exfalso.
        assert (q < 2 ^ (e + 1)) by (rewrite <- Hl0, <- Hl1; eapply get_some_lt; eauto).
        rewrite Hout in Hq by lia. rewrite Hzero in Hq by lia. injection Hq as <-. discriminate L.
      - intros q en Hq L Hr.
        assert (Hqp : ~ (0 <= q < p)).
        { intros Hc. destruct (Hin q Hc) as [_ He]. eapply occ_emp_excl; eauto. exists en; auto. }
        rewrite Hout in Hq by auto. rewrite Hlow in Hq by lia.
        assert (Hpe : emp (cells t) p).
        { destruct Hstop as (g & Hg & Lg); [lia|]. rewrite Hlow in Hg by lia. exists g; auto. }
        assert (Hne : q <> p) by (intros ->; eapply occ_emp_excl; eauto; exists en; auto).
        destruct (N.le_gt_cases (ideal_of e (ekey en)) q) as [|Hgt]; auto. exfalso.
        apply (occ_emp_excl (cells t) p); auto.
        apply (v_path _ _ Hv q en Hq L). unfold between. lia.
      - rewrite HP1, app_nil_r. rewrite Hc0. reflexivity. }
    destruct (reinsert_loop_spec e (contents (cells t)) rolled (N.to_nat (2 ^ e)) cs1 0 HD0 ltac:(lia)) as (cs2 & Hre & HD2).
    rewrite Hre. cbn [bind].
    replace (0 + N.of_nat (N.to_nat (2 ^ e))) with (2 ^ e) in HD2 by lia.
    pose proof (d_perm _ _ _ _ _ HD2) as HP2.
    assert (HND : NoDup (keys cs2 ++ map ekey rolled)).
    { unfold keys. rewrite <- map_app. apply (Permutation_NoDup (l := keys (cells t))); [|apply Hv].
      unfold keys. apply Permutation_map. symmetry. exact HP2. }
    assert (Hlen2 : (length (contents cs2) + length rolled = length (contents (cells t)))%nat).
    { apply Permutation_length in HP2. rewrite app_length in HP2. exact HP2. }
    assert (Hv2 : Valid cs2 (e + 1)).
    { constructor.
      - apply HD2.
      - eapply NoDup_app_l; eauto.
      - intros q en Hq L x Hx.
        assert (q < 2 ^ (e + 1)) by (rewrite <- (d_len _ _ _ _ _ HD2); eapply get_some_lt; eauto).
        destruct (d_new _ _ _ _ _ HD2 q en Hq L ltac:(lia)) as (A1 & _ & A3).
        apply A3. unfold between in Hx. lia.
      - pose proof (v_room _ _ Hv). lia. }
    destruct (unpark_loop_spec (e + 1) rolled cs2 Hv2 HND) as (cs3 & Hun & Hv3 & HP3).
    { intros x Hx. assert (Hi : In x (contents (cells t))).
      { eapply Permutation_in; [exact HP2|]. apply in_or_app. auto. }
      apply filter_In in Hi. apply Hi. }
    { pose proof (v_room _ _ Hv). lia. }
    rewrite Hun. cbn [bind].
    eexists. split; [reflexivity|]. cbn [cells nbuckets mask entries].
    split; [exact Hv3|]. split; [unfold Geom; cbn [nbuckets mask]; split; [lia|reflexivity]|]. split; [reflexivity|].
    rewrite HP3. exact HP2.
  Qed.

  (* ---------------------------------------------------------------- I. AutoProbing and histories *)
  Notation auto := (auto V).

  Record AValid (a : auto) (e : N) : Prop := mkAValid {
    a_valid : Valid (cells (backend a)) e;
    a_geom : Geom (backend a) e;
    a_entries : entries (backend a) = N.of_nat (length (contents (cells (backend a))));
    a_thr : threshold a < 2 ^ e }.

  Definition abs (a : auto) : list entry := contents (cells (backend a)).

  Lemma threshold_lt_buckets nb : 1 <= nb -> threshold_of nb < nb.
  Proof.
    intros H. unfold threshold_of, thr_sub. pose proof (N.le_min_l (nb - 1) (nb * thr_num / thr_den)). lia.
  Qed.

  (* DoubleIfNeeded on a table whose entries_ field may already have been incremented (Insert) *)
  Lemma double_if_needed_spec (a : auto) e : Valid (cells (backend a)) e -> Geom (backend a) e ->
    threshold a < 2 ^ e ->
    exists a1 e1, double_if_needed V v0 hash a = Ok a1 /\
      Valid (cells (backend a1)) e1 /\ Geom (backend a1) e1 /\ threshold a1 < 2 ^ e1 /\
      entries (backend a1) = entries (backend a) /\
      Permutation (contents (cells (backend a1))) (contents (cells (backend a))) /\
      ((e1 = e /\ entries (backend a) < threshold a) \/ e1 = e + 1).
  Proof.
    intros Hv Hg Ht. unfold double_if_needed, auto_size.
    destruct (N.ltb_spec (entries (backend a)) (threshold a)) as [Hlt|Hge].
    - exists a, e. split; [reflexivity|]. repeat (split; [solve [auto]|]). left. auto.
    - destruct (double_correct (backend a) e Hv Hg) as (t' & Hd & Hv' & Hg' & He' & HP').
      rewrite Hd. cbn [bind]. exists (mkAuto t' (threshold_of (nbuckets t'))), (e + 1).
      cbn [backend threshold]. split; [reflexivity|]. split; [exact Hv'|]. split; [exact Hg'|].
      split; [|split; [exact He'|split; [exact HP'|right; reflexivity]]].
      destruct Hg' as [Hnb _]. rewrite Hnb. apply threshold_lt_buckets.
      pose proof (pow2_pos (e + 1)). lia.
  Qed.

  Lemma pow2_le_succ e : 2 ^ e < 2 ^ (e + 1).
  Proof. rewrite pow2_succ. pose proof (pow2_pos e). lia. Qed.

  (* --- the abstract seen-set: an association list *)
  Fixpoint assoc (m : list entry) (k : N) : option V :=
    match m with
    | [] => None
    | e :: r => if ekey e =? k then Some (snd e) else assoc r k
    end.
  Definition set_assoc (k : N) (v : V) (m : list entry) : list entry :=
    map (fun e : entry => if ekey e =? k then (k, v) else e) m.

  Lemma assoc_in m k v : assoc m k = Some v -> In (k, v) m.
  Proof.
    induction m as [|[k' v'] r IH]; simpl; [discriminate|].
    destruct (N.eqb_spec k' k) as [->|Ne]; intros H; [injection H as ->; auto|auto].
  Qed.

  Lemma in_assoc m k v : NoDup (map ekey m) -> In (k, v) m -> assoc m k = Some v.
  Proof.
    induction m as [|[k' v'] r IH]; simpl; intros ND Hin; [tauto|].
    inversion ND as [|? ? Hn ND']; subst. destruct Hin as [E|Hin].
    - injection E as -> ->. now rewrite N.eqb_refl.
    - destruct (N.eqb_spec k' k) as [->|Ne]; auto.
      exfalso. apply Hn. apply (in_map ekey) in Hin. exact Hin.
  Qed.

  Lemma assoc_none m k : assoc m k = None <-> ~ In k (map ekey m).
  Proof.
    induction m as [|[k' v'] r IH]; simpl; [tauto|].
    destruct (N.eqb_spec k' k) as [->|Ne].
    - split; [discriminate|]. intros H. exfalso. apply H. auto.
    - rewrite IH. tauto.
  Qed.

  Inductive sanswer : Type :=
  | SFoundOrInserted (found : bool) (v : option V)
  | SInserted
  | SFind (r : option V)
  | SUpdate (found : bool).

  (* what the seen-set must answer; None = the operation is outside the property
     (key equal to the empty marker, or Insert of a key that is already present) *)
  Definition spec_step (m : list entry) (o : op V) : option (sanswer * list entry) :=
    match o with
    | OpFindOrInsert k v =>
      if k =? invalid then None else
      match assoc m k with
      | Some v' => Some (SFoundOrInserted true (Some v'), m)
      | None => Some (SFoundOrInserted false (Some v), (k, v) :: m)
      end
    | OpInsert k v =>
      if k =? invalid then None else
      match assoc m k with
      | Some _ => None
      | None => Some (SInserted, (k, v) :: m)
      end
    | OpFind k => if k =? invalid then None else Some (SFind (assoc m k), m)
    | OpUpdate k v =>
      if k =? invalid then None else
      match assoc m k with
      | Some _ => Some (SUpdate true, set_assoc k v m)
      | None => Some (SUpdate false, m)
      end
    end.

  Fixpoint spec_run (m : list entry) (ops : list (op V)) : option (list sanswer * list entry) :=
    match ops with
    | [] => Some ([], m)
    | o :: r =>
      match spec_step m o with
      | None => None
      | Some (sa, m') =>
        match spec_run m' r with
        | None => None
        | Some (sas, m'') => Some (sa :: sas, m'')
        end
      end
    end.

  (* forget the bucket positions of an answer *)
  Definition erase (a : answer V) : sanswer :=
    match a with
    | AFoundOrInserted f _ v => SFoundOrInserted f v
    | AInserted _ => SInserted
    | AFind r => SFind (match r with Some (_, Some v) => Some v | _ => None end)
    | AUpdate r => SUpdate (match r with Some _ => true | None => false end)
    end.

  Definition Rep (a : auto) (m : list entry) : Prop := Permutation (abs a) m.

  Lemma rep_keys a m : Rep a m -> Permutation (keys (cells (backend a))) (map ekey m).
  Proof. intros H. unfold keys. apply Permutation_map. exact H. Qed.

  Lemma rep_nodup a e m : AValid a e -> Rep a m -> NoDup (map ekey m).
  Proof. intros Hv Hr. eapply Permutation_NoDup; [apply rep_keys; eauto|]. apply Hv. Qed.

  Lemma rep_present a e m k v : AValid a e -> Rep a m -> assoc m k = Some v ->
    exists q, get (cells (backend a)) q = Some (k, v) /\ live (k, v) = true.
  Proof.
    intros Hv Hr Ha. apply assoc_in in Ha.
    assert (Hin : In (k, v) (abs a)) by (eapply Permutation_in; [symmetry; exact Hr|exact Ha]).
    apply in_contents in Hin. exact Hin.
  Qed.

  Lemma rep_absent a m k : Rep a m -> assoc m k = None -> ~ In k (keys (cells (backend a))).
  Proof.
    intros Hr Ha Hin. apply assoc_none in Ha. apply Ha.
    eapply Permutation_in; [apply rep_keys; eauto|exact Hin].
  Qed.

  Lemma valid_set_value cs e q g en : Valid cs e -> get cs q = Some g -> live g = true -> ekey en = ekey g ->
    Valid (upd cs q en) e.
  Proof.
    intros Hv Hg Lg K.
    assert (Hq : q < len cs) by (eapply get_some_lt; eauto).
    assert (L : live en = true) by (apply live_true; rewrite K; now apply live_true).
    assert (HK : keys (upd cs q en) = keys cs) by (eapply contents_set_value; eauto).
    constructor.
    - rewrite len_upd. apply Hv.
    - rewrite HK. apply Hv.
    - intros q' en' Hq' L' x Hx. apply occ_upd_live; auto.
      destruct (N.eq_dec q q') as [<-|Ne].
      + rewrite get_upd_eq in Hq' by auto. injection Hq' as <-. rewrite K in Hx.
        eapply (v_path _ _ Hv); eauto.
      + rewrite get_upd_neq in Hq' by auto. eapply (v_path _ _ Hv); eauto.
    - assert (Hlen : length (contents (upd cs q en)) = length (contents cs)).
      { unfold keys in HK. apply (f_equal (@length N)) in HK. now rewrite !map_length in HK. }
      rewrite Hlen. apply Hv.
  Qed.

  Lemma contents_set_value_perm cs q g k v m : NoDup (keys cs) -> get cs q = Some g -> live g = true -> ekey g = k ->
    Permutation (contents cs) m -> Permutation (contents (upd cs q (k, v))) (set_assoc k v m).
  Proof.
    intros ND Hg Lg K HP.
    set (f := fun e : entry => if ekey e =? k then (k, v) else e).
    assert (Hmap : contents (upd cs q (k, v)) = map f (contents cs)).
    { destruct (get_split _ _ _ Hg) as (l1 & l2 & -> & _ & Hu). rewrite Hu.
      assert (L : live (k, v) = true) by (apply live_true; simpl; rewrite <- K; now apply live_true).
      assert (Hfix : forall l, ~ In k (map ekey l) -> map f l = l).
      { clear. induction l as [|h t IH]; simpl; intros H; auto.
        f_equal; [|apply IH; tauto]. unfold f.
        destruct (N.eqb_spec (ekey h) k); [exfalso; apply H; auto|reflexivity]. }
      unfold keys, contents in *. rewrite !filter_app in *. cbn [filter] in *. rewrite L, Lg. rewrite Lg in ND.
      rewrite !map_app in *. cbn [map] in *. rewrite K in ND.
      assert (N1 : ~ In k (map ekey (filter live l1))).
      { apply NoDup_remove_2 in ND. intros H. apply ND. apply in_or_app. auto. }
      assert (N2 : ~ In k (map ekey (filter live l2))).
      { apply NoDup_remove_2 in ND. intros H. apply ND. apply in_or_app. auto. }
      rewrite (Hfix _ N1), (Hfix _ N2). unfold f. rewrite K, N.eqb_refl. reflexivity. }
    rewrite Hmap. unfold set_assoc. apply Permutation_map. exact HP.
  Qed.

  Theorem step_refines (a : auto) e m o sa m' : AValid a e -> Rep a m -> spec_step m o = Some (sa, m') ->
    exists ans a' e', step V v0 hash a o = Ok (ans, a') /\ AValid a' e' /\ Rep a' m' /\ erase ans = sa.
  Proof.
    intros Hv Hr Hs. destruct Hv as [Hval Hgeom Hent Hthr].
    assert (HAV : AValid a e) by (constructor; auto).
    destruct o as [k v|k v|k|k v]; cbn [spec_step] in Hs;
      destruct (N.eqb_spec k invalid) as [|Hk]; try discriminate.
    - (* FindOrInsert *)
      cbn [step]. unfold auto_find_or_insert.
      destruct (double_if_needed_spec a e Hval Hgeom Hthr) as (a1 & e1 & Hd & Hv1 & Hg1 & Ht1 & He1 & HP1 & Hcase).
      rewrite Hd. cbn [bind].
      assert (Hr1 : Rep a1 m) by (unfold Rep, abs; rewrite HP1; exact Hr).
      assert (Hent1 : entries (backend a1) = N.of_nat (length (contents (cells (backend a1))))).
      { rewrite He1, Hent. apply Permutation_length in HP1. now rewrite HP1. }
      assert (HAV1 : AValid a1 e1) by (constructor; auto).
      destruct (assoc m k) as [v'|] eqn:Ha.
      + injection Hs as <- <-.
        destruct (rep_present a1 e1 m k v' HAV1 Hr1 Ha) as (q & Hq & Lq).
        rewrite (find_or_insert_present (backend a1) e1 q (k, v') (k, v)); auto. cbn [bind].
        eexists _, _, e1. split; [reflexivity|]. cbn [erase].
        split; [|split].
        * destruct a1 as [t1 th1]. exact HAV1.
        * destruct a1 as [t1 th1]. exact Hr1.
        * unfold value_at. cbn [backend]. rewrite Hq. reflexivity.
      + injection Hs as <- <-.
        assert (Hroom : entries (backend a1) + 1 < 2 ^ e1).
        { destruct Hcase as [[-> Hlt] | ->].
          - rewrite He1. lia.
          - rewrite He1, Hent. pose proof (v_room _ _ Hval). pose proof (pow2_succ e). lia. }
        destruct (find_or_insert_absent (backend a1) e1 (k, v) Hv1 Hg1) as (q & Hfoi & Hemp & Hv2 & HP2); auto.
        { now apply live_true. }
        { eapply rep_absent; eauto. }
        rewrite Hfoi. cbn [bind].
        eexists _, _, e1. split; [reflexivity|]. cbn [erase]. split; [|split].
        * constructor; cbn [backend threshold cells entries]; [exact Hv2|exact Hg1| |exact Ht1].
          rewrite Hent1. apply Permutation_length in HP2. rewrite HP2. simpl. lia.
        * unfold Rep, abs. cbn [backend cells]. rewrite HP2. apply perm_skip. exact Hr1.
        * unfold value_at. cbn [backend cells]. rewrite get_upd_eq by (eapply emp_lt; eauto). reflexivity.
    - (* Insert *)
      destruct (assoc m k) as [v'|] eqn:Ha; [discriminate|]. injection Hs as <- <-.
      cbn [step]. unfold auto_insert.
      set (a0 := mkAuto (mkPT (cells (backend a)) (nbuckets (backend a)) (mask (backend a)) (entries (backend a) + 1)) (threshold a)).
      destruct (double_if_needed_spec a0 e) as (a1 & e1 & Hd & Hv1 & Hg1 & Ht1 & He1 & HP1 & Hcase); auto.
      rewrite Hd. cbn [bind]. cbn [backend cells entries threshold a0] in *.
      assert (Hroom : N.of_nat (length (contents (cells (backend a1)))) + 1 < 2 ^ e1).
      { apply Permutation_length in HP1. rewrite HP1.
        destruct Hcase as [[-> Hlt] | ->].
        - lia.
        - pose proof (v_room _ _ Hval). pose proof (pow2_succ e). lia. }
      destruct Hg1 as [Hnb1 Hm1].
      destruct (unchecked_insert_absent (cells (backend a1)) e1 (k, v) Hv1) as (q & Hins & Hemp & Hv2 & HP2); auto.
      { now apply live_true. }
      { intros Hin. eapply (rep_absent a m k Hr Ha). unfold keys in *.
        eapply Permutation_in; [|exact Hin]. apply Permutation_map. exact HP1. }
      rewrite Hm1, Hins. cbn [bind fst snd].
      eexists _, _, e1. split; [reflexivity|]. cbn [erase]. split; [|split; [|reflexivity]].
      * constructor; cbn [backend threshold cells entries]; [exact Hv2|split; auto| |exact Ht1].
        rewrite He1, Hent. apply Permutation_length in HP2. apply Permutation_length in HP1.
        rewrite HP2. cbn [length]. rewrite HP1. lia.
      * unfold Rep, abs. cbn [backend cells]. rewrite HP2. apply perm_skip. rewrite HP1. exact Hr.
    - (* Find *)
      injection Hs as <- <-. cbn [step]. unfold auto_find, find.
      destruct Hgeom as [Hnb Hm]. rewrite Hm, ideal_mask.
      destruct (assoc m k) as [v'|] eqn:Ha.
      + destruct (rep_present a e m k v' HAV Hr Ha) as (q & Hq & Lq).
        pose proof (find_present (cells (backend a)) e q (k, v') Hval Hq Lq) as Hf. cbn [ekey fst] in Hf.
        rewrite Hf. cbn [bind]. eexists _, a, e. split; [reflexivity|]. split; [exact HAV|]. split; [exact Hr|].
        cbn [erase]. unfold value_at. rewrite Hq. reflexivity.
      + rewrite (find_absent (cells (backend a)) e k Hval Hk (rep_absent a m k Hr Ha)). cbn [bind].
        eexists _, a, e. split; [reflexivity|]. split; [exact HAV|]. split; [exact Hr|]. reflexivity.
    - (* Update *)
      cbn [step]. unfold auto_update, auto_find, find.
      destruct Hgeom as [Hnb Hm]. rewrite Hm, ideal_mask.
      destruct (assoc m k) as [v'|] eqn:Ha; injection Hs as <- <-.
      + destruct (rep_present a e m k v' HAV Hr Ha) as (q & Hq & Lq).
        pose proof (find_present (cells (backend a)) e q (k, v') Hval Hq Lq) as Hf. cbn [ekey fst] in Hf.
        rewrite Hf. cbn [bind fst snd]. eexists _, _, e. split; [reflexivity|]. cbn [erase].
        split; [|split; [|reflexivity]].
        * assert (Hv2 : Valid (upd (cells (backend a)) q (k, v)) e) by (eapply valid_set_value; eauto).
          constructor; cbn [backend threshold cells entries]; [exact Hv2|split; auto| |exact Hthr].
          rewrite Hent. f_equal.
             assert (HK : keys (upd (cells (backend a)) q (k, v)) = keys (cells (backend a))) by (eapply contents_set_value; eauto).
             unfold keys in HK. apply (f_equal (@length N)) in HK. now rewrite !map_length in HK.
        * unfold Rep, abs. cbn [backend cells].
          eapply contents_set_value_perm; eauto. apply Hval.
      + rewrite (find_absent (cells (backend a)) e k Hval Hk (rep_absent a m k Hr Ha)). cbn [bind fst snd].
        eexists _, a, e. split; [reflexivity|]. split; [exact HAV|]. split; [exact Hr|]. reflexivity.
  Qed.

  Theorem run_refines : forall ops (a : auto) e m sas m', AValid a e -> Rep a m ->
    spec_run m ops = Some (sas, m') ->
    exists ans a' e', run V v0 hash a ops = Ok (ans, a') /\ AValid a' e' /\ Rep a' m' /\ map erase ans = sas.
  Proof.
    induction ops as [|o ops IH]; intros a e m sas m' Hv Hr Hs.
    - simpl in Hs. injection Hs as <- <-. exists [], a, e. simpl. auto.
    - cbn [spec_run] in Hs. destruct (spec_step m o) as [[sa m1]|] eqn:H1; [|discriminate].
      destruct (spec_run m1 ops) as [[sas1 m2]|] eqn:H2; [|discriminate]. injection Hs as <- <-.
      destruct (step_refines a e m o sa m1 Hv Hr H1) as (ans & a1 & e1 & Hst & Hv1 & Hr1 & He).
      destruct (IH a1 e1 m1 sas1 m2 Hv1 Hr1 H2) as (anss & a2 & e2 & Hrun & Hv2 & Hr2 & Hes).
      cbn [run]. rewrite Hst. cbn [bind snd fst]. rewrite Hrun. cbn [bind fst snd].
      exists (ans :: anss), a2, e2. split; [reflexivity|]. split; auto. split; auto.
      simpl. now rewrite He, Hes.
  Qed.

  (* the initial table of any power-of-two size is valid and represents the empty set *)
  Lemma init_valid e : AValid (mkAuto (mkPT (repeat (invalid, v0) (N.to_nat (2 ^ e))) (2 ^ e) (2 ^ e - 1) 0) (threshold_of (2 ^ e))) e
                       /\ Rep (mkAuto (mkPT (repeat (invalid, v0) (N.to_nat (2 ^ e))) (2 ^ e) (2 ^ e - 1) 0) (threshold_of (2 ^ e))) [].
  Proof.
    pose proof (pow2_pos e) as HB.
    split; [constructor|]; cbn [backend cells entries threshold].
    - constructor.
      + rewrite len_repeat. lia.
      + unfold keys. rewrite contents_zeros. constructor.
      + intros q en Hq L. exfalso.
        assert (q < 2 ^ e) by (apply get_some_lt in Hq; rewrite len_repeat in Hq; lia).
        rewrite get_repeat in Hq by lia. injection Hq as <-. discriminate L.
      + rewrite contents_zeros. simpl. lia.
    - split; reflexivity.
    - now rewrite contents_zeros.
    - apply threshold_lt_buckets. lia.
    - unfold Rep, abs. cbn [backend cells]. rewrite contents_zeros. constructor.
  Qed.

  (* membership: Find reports a position exactly for the stored keys, and the position holds the pair *)
  Theorem auto_find_spec (a : auto) e k : AValid a e -> k <> invalid ->
    (forall v, In (k, v) (abs a) ->
       exists i, auto_find V hash a k = Ok (Some i) /\ get (cells (backend a)) i = Some (k, v)) /\
    (~ In k (map ekey (abs a)) -> auto_find V hash a k = Ok None).
  Proof.
    intros [Hval [Hnb Hm] Hent Hthr] Hk. unfold auto_find, find. rewrite Hm, ideal_mask. split.
    - intros v Hin. apply in_contents in Hin. destruct Hin as (i & Hi & L).
      exists i. split; auto. exact (find_present (cells (backend a)) e i (k, v) Hval Hi L).
    - intros Hn. apply find_absent; auto.
  Qed.

  (* the empty marker itself is always reported present (first empty bucket from its ideal position) *)
  Theorem invalid_key_always_found (a : auto) e : AValid a e ->
    exists i, auto_find V hash a invalid = Ok (Some i).
  Proof.
    intros [Hval [Hnb Hm] Hent Hthr]. unfold auto_find, find. rewrite Hm, ideal_mask.
    pose proof (v_len _ _ Hval) as Hl.
    destruct (first_empty (cells (backend a)) (2 ^ e) Hl (ideal_of e invalid) (ideal_of_lt _ _) (valid_has_empty _ _ Hval)) as (q & Hq & Hall).
    assert (Hqb : q < 2 ^ e) by (rewrite <- Hl; eapply emp_lt; eauto).
    destruct Hq as (g & Hg & Lg). exists q.
    rewrite (find_loop_walk (cells (backend a)) (2 ^ e) Hl (2 ^ e - 1) (next_mask e) invalid (length (cells (backend a))) (ideal_of e invalid) q) with (eq := g); auto.
    - apply live_false in Lg. rewrite Lg, N.eqb_refl. reflexivity.
    - apply ideal_of_lt.
    - pose proof (dist_lt (2 ^ e) (ideal_of e invalid) q (ideal_of_lt _ _) Hqb). unfold len in Hl. lia.
    - intros x Hx. destruct (Hall x Hx) as (g' & Hg' & Lg'). exists g'. repeat split; auto. now apply live_true.
  Qed.

  Definition init_pow2 (e : N) : auto :=
    mkAuto (mkPT (repeat (invalid, v0) (N.to_nat (2 ^ e))) (2 ^ e) (2 ^ e - 1) 0) (threshold_of (2 ^ e)).

  Theorem history_refines_set : forall e ops sas m',
    spec_run [] ops = Some (sas, m') ->
    exists ans a' e', run V v0 hash (init_pow2 e) ops = Ok (ans, a') /\
                      map erase ans = sas /\ AValid a' e' /\ Permutation (abs a') m'.
  Proof.
    intros e ops sas m' Hs. destruct (init_valid e) as [Hv Hr].
    destruct (run_refines ops _ e [] sas m' Hv Hr Hs) as (ans & a' & e' & Hrun & Hv' & Hr' & He).
    exists ans, a', e'. auto.
  Qed.
End Proofs.

(* ---- the constructor: Backend::Size(initial_size, 1.4) + RoundBuckets yields a power of two ----
   checked by computation for every initial_size below 2048 (the model of the float product is the exact
   rational; the harness compares the real constructor for a range of sizes on every run) *)
Definition pow2_exponent_of (nb : N) : option N :=
  List.find (fun e => nb =? 2 ^ e) (map N.of_nat (seq 0 16)).

Lemma constructor_sizes_checked :
  forallb (fun n => match pow2_exponent_of (initial_buckets n) with Some _ => true | None => false end)
          (map N.of_nat (seq 0 2048)) = true.
Proof. vm_compute. reflexivity. Qed.

Theorem constructor_is_pow2 (V : Type) (v0 : V) (n : N) : n < 2048 ->
  exists e, auto_init_n V v0 n = init_pow2 V v0 e.
Proof.
  intros Hn. pose proof constructor_sizes_checked as H. rewrite forallb_forall in H.
  specialize (H n). destruct (pow2_exponent_of (initial_buckets n)) as [e|] eqn:E.
  - exists e. unfold pow2_exponent_of in E. apply find_some in E. destruct E as [_ E]. apply N.eqb_eq in E.
    unfold auto_init_n, init_pow2. rewrite E. reflexivity.
  - assert (Hin : In n (map N.of_nat (seq 0 2048))).
    { apply in_map_iff. exists (N.to_nat n). split; [lia|]. apply in_seq. lia. }
    specialize (H Hin). discriminate.
Qed.
