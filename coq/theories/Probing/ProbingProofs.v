(* Proofs about the AutoProbing model (property C13). *)
From Coq Require Import List NArith Lia Bool Permutation.
From PP Require Import Gen.Src_probing Probing.ProbingDefs.
Import ListNotations.
Local Open Scope N_scope.

Lemma threshold_lt_buckets nb : 1 <= nb -> threshold_of nb < nb.
Proof.
  intros H. unfold threshold_of, thr_sub. pose proof (N.le_min_l (nb - 1) (nb * thr_num / thr_den)). lia.
Qed.
