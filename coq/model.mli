
val negb : bool -> bool

type nat =
| O
| S of nat

val fst : ('a1 * 'a2) -> 'a1

val snd : ('a1 * 'a2) -> 'a2

val length : 'a1 list -> nat

val app : 'a1 list -> 'a1 list -> 'a1 list

type comparison =
| Eq
| Lt
| Gt

val add : nat -> nat -> nat

type positive =
| XI of positive
| XO of positive
| XH

type n =
| N0
| Npos of positive

type z =
| Z0
| Zpos of positive
| Zneg of positive

module Pos :
 sig
  type mask =
  | IsNul
  | IsPos of positive
  | IsNeg
 end

module Coq_Pos :
 sig
  val succ : positive -> positive

  val add : positive -> positive -> positive

  val add_carry : positive -> positive -> positive

  val pred_double : positive -> positive

  type mask = Pos.mask =
  | IsNul
  | IsPos of positive
  | IsNeg

  val succ_double_mask : mask -> mask

  val double_mask : mask -> mask

  val double_pred_mask : positive -> mask

  val sub_mask : positive -> positive -> mask

  val sub_mask_carry : positive -> positive -> mask

  val mul : positive -> positive -> positive

  val iter : ('a1 -> 'a1) -> 'a1 -> positive -> 'a1

  val compare_cont : comparison -> positive -> positive -> comparison

  val compare : positive -> positive -> comparison

  val eqb : positive -> positive -> bool

  val coq_Nsucc_double : n -> n

  val coq_Ndouble : n -> n

  val coq_lor : positive -> positive -> positive

  val coq_land : positive -> positive -> n

  val shiftl : positive -> n -> positive

  val iter_op : ('a1 -> 'a1 -> 'a1) -> positive -> 'a1 -> 'a1

  val to_nat : positive -> nat

  val of_succ_nat : nat -> positive
 end

module N :
 sig
  val succ_double : n -> n

  val double : n -> n

  val add : n -> n -> n

  val sub : n -> n -> n

  val mul : n -> n -> n

  val compare : n -> n -> comparison

  val eqb : n -> n -> bool

  val leb : n -> n -> bool

  val ltb : n -> n -> bool

  val min : n -> n -> n

  val max : n -> n -> n

  val div2 : n -> n

  val pos_div_eucl : positive -> n -> n * n

  val div_eucl : n -> n -> n * n

  val div : n -> n -> n

  val modulo : n -> n -> n

  val coq_lor : n -> n -> n

  val coq_land : n -> n -> n

  val shiftl : n -> n -> n

  val shiftr : n -> n -> n

  val to_nat : n -> nat

  val of_nat : nat -> n
 end

module Z :
 sig
  val opp : z -> z

  val eqb : z -> z -> bool

  val to_nat : z -> nat

  val to_N : z -> n

  val of_nat : nat -> z

  val of_N : n -> z
 end

val nth_error : 'a1 list -> nat -> 'a1 option

val rev : 'a1 list -> 'a1 list

val map : ('a1 -> 'a2) -> 'a1 list -> 'a2 list

val flat_map : ('a1 -> 'a2 list) -> 'a1 list -> 'a2 list

val fold_left : ('a1 -> 'a2 -> 'a1) -> 'a2 list -> 'a1 -> 'a1

val existsb : ('a1 -> bool) -> 'a1 list -> bool

val repeat : 'a1 -> nat -> 'a1 list

val split_at : z -> z list -> z list -> z list list * z list

val strip_cr : z list -> z list

val records : z -> bool -> z list -> z list list

val unrecords : z -> z list list -> z list

val invalid_key : n

val init_size : n

val size_plus : n

val mult_num : n

val mult_den : n

val thr_sub : n

val thr_num : n

val thr_den : n

val grow_factor : n

val mask_shl : n

val mask_or : n

val round_shifts : n list

type 'a res =
| Ok of 'a
| ErrFuel
| ErrBounds
| ErrFull

val bind : 'a1 res -> ('a1 -> 'a2 res) -> 'a2 res

val invalid : n

val get : 'a1 list -> n -> 'a1 option

val upd_nat : 'a1 list -> nat -> 'a1 -> 'a1 list

val upd : 'a1 list -> n -> 'a1 -> 'a1 list

val two64 : n

val round_buckets : n -> n

val mask_double : n -> n

type 'v entry = n * 'v

val ekey : 'a1 entry -> n

val set_key : 'a1 entry -> n -> 'a1 entry

type 'v ptable = { cells : 'v entry list; nbuckets : n; mask0 : n; entries : n }

val ideal : (n -> n) -> n -> n -> n

val next : n -> n -> n

val foi_loop :
  nat -> 'a1 ptable -> n -> 'a1 entry -> ((bool * n) * 'a1 ptable) res

val find_or_insert :
  (n -> n) -> 'a1 ptable -> 'a1 entry -> ((bool * n) * 'a1 ptable) res

val ui_loop :
  nat -> 'a1 entry list -> n -> n -> 'a1 entry -> ('a1 entry list * n) res

val unchecked_insert :
  (n -> n) -> 'a1 entry list -> n -> 'a1 entry -> ('a1 entry list * n) res

val park_loop :
  nat -> 'a1 entry list -> n -> 'a1 entry list -> ('a1 entry list * 'a1 entry
  list) res

val reinsert_loop :
  (n -> n) -> nat -> 'a1 entry list -> n -> n -> 'a1 entry list res

val unpark_loop :
  (n -> n) -> 'a1 entry list -> 'a1 entry list -> n -> 'a1 entry list res

val double0 : 'a1 -> (n -> n) -> 'a1 ptable -> 'a1 ptable res

type 'v auto = { backend : 'v ptable; threshold : n }

val threshold_of : n -> n

val initial_buckets : n -> n

val auto_init_n : 'a1 -> n -> 'a1 auto

val auto_init : 'a1 -> 'a1 auto

val auto_size : 'a1 auto -> n

val double_if_needed : 'a1 -> (n -> n) -> 'a1 auto -> 'a1 auto res

val auto_find_or_insert :
  'a1 -> (n -> n) -> 'a1 auto -> 'a1 entry -> ((bool * n) * 'a1 auto) res

val dedupe_has_reserved_guard : bool

val dedupe_reserved_key : n

type dtable = unit auto

val idhash : n -> n

type dstate = { d_tab : dtable; d_seen_zero : bool }

val dedupe_init : dstate

val seen_pass : bool -> n -> dstate -> n -> (bool * dstate) res

val dedupe_pass : dstate -> n -> (bool * dstate) res

val filter_loop : ('a1 -> n) -> dstate -> 'a1 list -> 'a1 list res

val dedupe : ('a1 -> n) -> 'a1 list -> 'a1 list res

type pstatus =
| PDone
| PUnbalanced
| PAbort

val par_loop :
  ('a1 -> n) -> ('a1 -> n) -> dstate -> dstate -> 'a1 list -> 'a1 list ->
  (pstatus * ('a1 * 'a1) list) res

val dedupe_par :
  ('a1 -> n) -> ('a1 -> n) -> 'a1 list -> 'a1 list -> (pstatus * ('a1 * 'a1)
  list) res

val mem : n -> n list -> bool

val first_occ_from : ('a1 -> n) -> n list -> 'a1 list -> 'a1 list

val first_occ : ('a1 -> n) -> 'a1 list -> 'a1 list

val par_spec_from :
  ('a1 -> n) -> ('a1 -> n) -> n list -> n list -> ('a1 * 'a1) list ->
  ('a1 * 'a1) list

val par_spec :
  ('a1 -> n) -> ('a1 -> n) -> ('a1 * 'a1) list -> ('a1 * 'a1) list

val newline : z

val dedupe_tool : (z list -> n) -> z list -> z list res

val dedupe_par_tool :
  (z list -> n) -> z list -> z list -> ((pstatus * z list) * z list) res
