
val negb : bool -> bool

type nat =
| O
| S of nat

val fst : ('a1 * 'a2) -> 'a1

val snd : ('a1 * 'a2) -> 'a2

val length : 'a1 list -> nat

val app : 'a1 list -> 'a1 list -> 'a1 list

type comparison =
| Eq
| Lt
| Gt

val compOpp : comparison -> comparison

val add : nat -> nat -> nat

val tl : 'a1 list -> 'a1 list

val nth : nat -> 'a1 list -> 'a1 -> 'a1

val removelast : 'a1 list -> 'a1 list

val concat : 'a1 list list -> 'a1 list

val map : ('a1 -> 'a2) -> 'a1 list -> 'a2 list

val fold_left : ('a1 -> 'a2 -> 'a1) -> 'a2 list -> 'a1 -> 'a1

val fold_right : ('a2 -> 'a1 -> 'a1) -> 'a1 -> 'a2 list -> 'a1

val forallb : ('a1 -> bool) -> 'a1 list -> bool

val filter : ('a1 -> bool) -> 'a1 list -> 'a1 list

val firstn : nat -> 'a1 list -> 'a1 list

val skipn : nat -> 'a1 list -> 'a1 list

type positive =
| XI of positive
| XO of positive
| XH

type n =
| N0
| Npos of positive

type z =
| Z0
| Zpos of positive
| Zneg of positive

module Pos :
 sig
  val succ : positive -> positive

  val add : positive -> positive -> positive

  val add_carry : positive -> positive -> positive

  val pred_double : positive -> positive

  val pred_N : positive -> n

  val mul : positive -> positive -> positive

  val iter : ('a1 -> 'a1) -> 'a1 -> positive -> 'a1

  val div2 : positive -> positive

  val div2_up : positive -> positive

  val compare_cont : comparison -> positive -> positive -> comparison

  val compare : positive -> positive -> comparison

  val eqb : positive -> positive -> bool

  val coq_Nsucc_double : n -> n

  val coq_Ndouble : n -> n

  val coq_lor : positive -> positive -> positive

  val coq_land : positive -> positive -> n

  val ldiff : positive -> positive -> n

  val coq_lxor : positive -> positive -> n

  val iter_op : ('a1 -> 'a1 -> 'a1) -> positive -> 'a1 -> 'a1

  val to_nat : positive -> nat

  val of_succ_nat : nat -> positive
 end

module N :
 sig
  val succ_pos : n -> positive

  val add : n -> n -> n

  val mul : n -> n -> n

  val coq_lor : n -> n -> n

  val coq_land : n -> n -> n

  val ldiff : n -> n -> n

  val coq_lxor : n -> n -> n

  val to_nat : n -> nat

  val of_nat : nat -> n
 end

module Z :
 sig
  val double : z -> z

  val succ_double : z -> z

  val pred_double : z -> z

  val pos_sub : positive -> positive -> z

  val add : z -> z -> z

  val opp : z -> z

  val sub : z -> z -> z

  val mul : z -> z -> z

  val compare : z -> z -> comparison

  val leb : z -> z -> bool

  val ltb : z -> z -> bool

  val eqb : z -> z -> bool

  val min : z -> z -> z

  val to_nat : z -> nat

  val to_N : z -> n

  val of_nat : nat -> z

  val of_N : n -> z

  val pos_div_eucl : positive -> z -> z * z

  val div_eucl : z -> z -> z * z

  val div : z -> z -> z

  val div2 : z -> z

  val shiftl : z -> z -> z

  val shiftr : z -> z -> z

  val coq_lor : z -> z -> z

  val coq_land : z -> z -> z

  val coq_lxor : z -> z -> z
 end

val kInfiniteEnd : z

val ulong_max : z

val dedupe_default_fields : z list

val dedupe_default_delim : z

val shard_default_fields : z list

val shard_default_delim : z

val cache_default_key : z list

val cache_default_separator : z

val murmur_m : z

val murmur_r : z

val murmur_block : z

val murmur_tail_mask : z

val murmur_tail_cases : ((z * nat) * z) list

val murmur_tail_mul_case : z

val shard_seed : z

val dedupe_line_seed : z

val dedupe_field_seed : z

val cache_seed : z

val mask64 : z

val w64 : z -> z

val mul64 : z -> z -> z

val word_bytes : nat

val load_le : nat -> z list -> z

val mix_k : z -> z

val mm_body : nat -> z list -> z -> z * z list

val tail_case : z -> z list -> z -> ((z * nat) * z) -> z

val mm_tail : z -> z list -> z -> z

val murmur64a_mem : z list -> z -> z -> z

val murmur64a : z list -> z -> z

val murmur_native : z list -> z -> z

val hash_fold : z -> z list list -> z

val dedupe_line_key : z list -> z

type range = z * z

val is_digit : z -> bool

val digits_value : z -> z list -> z * z list

type perr =
| PNotNumber
| POutOfRange
| PEmptyRange
| PBadSeparator
| PEmptyList
| PTrailingComma
| PFuel

type 'a pres =
| POk of 'a
| PErr of perr

val consume_int : z list -> (z * z list) pres

val comma : z

val dash : z

val head0 : z list -> z

val parse_one : z list -> (range * z list) pres

val parse_loop : nat -> z list -> range list pres

val parse_fields : z list -> range list pres

val insert_range : range -> range list -> range list

val sort_ranges : range list -> range list

val defrag_loop : range -> range list -> range list option

val defragment : range list -> range list option

val parse_key_spec : z list -> range list option

val find_delim : z -> z list -> z list * z list option

type skipres =
| SkipAt of z * z list
| SkipReturn
| SkipFuel

val skip_fields : nat -> z -> z -> z -> z list -> skipres

type takeres =
| TakeEnd of z list
| TakeUpTo of z * z list * z list
| TakeBadLength
| TakeFuel

val take_fields : nat -> z -> z -> z -> z list -> z list -> takeres

type rres =
| ROk of z list list
| RBadLength
| RFuel

val rcons : z list -> rres -> rres

val range_fields_loop : nat -> z -> range list -> z -> z list -> rres

val range_fields : z list -> range list -> z -> rres

type ires =
| IOk of z list list
| IFuel

type eachres =
| EachEnd of z list list
| EachUpTo of z * z list * z list list
| EachFuel

val each_field : nat -> z -> z -> z -> z list -> eachres

val individual_fields_loop : nat -> z -> range list -> z -> z list -> ires

val individual_fields : z list -> range list -> z -> ires

val key_of : z -> z list -> range list -> z -> z option

val shard_key : z list -> range list -> z -> z option

val dedupe_key : z list -> range list -> z -> z option

val cache_key_of : z list -> range list -> z -> z option

val split_fields : z -> z list -> z list list

val join_fields : z -> z list list -> z list

val select_from : z list list -> z -> range -> z list list

val select_range : z list list -> range -> z list list

val select : z list list -> range list -> z list list list

val spec_pieces : z -> z list -> range list -> z list list

val spec_individual : z -> z list -> range list -> z list list

val contains_allb : z -> range list -> bool
