
type nat =
| O
| S of nat

val fst : ('a1 * 'a2) -> 'a1

val snd : ('a1 * 'a2) -> 'a2

val length : 'a1 list -> nat

val app : 'a1 list -> 'a1 list -> 'a1 list

type comparison =
| Eq
| Lt
| Gt

val add : nat -> nat -> nat

type positive =
| XI of positive
| XO of positive
| XH

type n =
| N0
| Npos of positive

type z =
| Z0
| Zpos of positive
| Zneg of positive

module Pos :
 sig
  type mask =
  | IsNul
  | IsPos of positive
  | IsNeg
 end

module Coq_Pos :
 sig
  val succ : positive -> positive

  val add : positive -> positive -> positive

  val add_carry : positive -> positive -> positive

  val pred_double : positive -> positive

  type mask = Pos.mask =
  | IsNul
  | IsPos of positive
  | IsNeg

  val succ_double_mask : mask -> mask

  val double_mask : mask -> mask

  val double_pred_mask : positive -> mask

  val sub_mask : positive -> positive -> mask

  val sub_mask_carry : positive -> positive -> mask

  val mul : positive -> positive -> positive

  val iter : ('a1 -> 'a1) -> 'a1 -> positive -> 'a1

  val compare_cont : comparison -> positive -> positive -> comparison

  val compare : positive -> positive -> comparison

  val eqb : positive -> positive -> bool

  val coq_Nsucc_double : n -> n

  val coq_Ndouble : n -> n

  val coq_lor : positive -> positive -> positive

  val coq_land : positive -> positive -> n

  val shiftl : positive -> n -> positive

  val iter_op : ('a1 -> 'a1 -> 'a1) -> positive -> 'a1 -> 'a1

  val to_nat : positive -> nat

  val of_succ_nat : nat -> positive
 end

module N :
 sig
  val succ_double : n -> n

  val double : n -> n

  val add : n -> n -> n

  val sub : n -> n -> n

  val mul : n -> n -> n

  val compare : n -> n -> comparison

  val eqb : n -> n -> bool

  val leb : n -> n -> bool

  val ltb : n -> n -> bool

  val min : n -> n -> n

  val max : n -> n -> n

  val div2 : n -> n

  val pos_div_eucl : positive -> n -> n * n

  val div_eucl : n -> n -> n * n

  val div : n -> n -> n

  val modulo : n -> n -> n

  val coq_lor : n -> n -> n

  val coq_land : n -> n -> n

  val shiftl : n -> n -> n

  val shiftr : n -> n -> n

  val to_nat : n -> nat

  val of_nat : nat -> n
 end

module Z :
 sig
  val opp : z -> z

  val to_nat : z -> nat

  val to_N : z -> n

  val of_nat : nat -> z

  val of_N : n -> z
 end

val nth_error : 'a1 list -> nat -> 'a1 option

val fold_left : ('a1 -> 'a2 -> 'a1) -> 'a2 list -> 'a1 -> 'a1

val repeat : 'a1 -> nat -> 'a1 list

val invalid_key : n

val init_size : n

val size_plus : n

val mult_num : n

val mult_den : n

val thr_sub : n

val thr_num : n

val thr_den : n

val grow_factor : n

val mask_shl : n

val mask_or : n

val round_shifts : n list

type 'a res =
| Ok of 'a
| ErrFuel
| ErrBounds
| ErrFull

val bind : 'a1 res -> ('a1 -> 'a2 res) -> 'a2 res

val invalid : n

val get : 'a1 list -> n -> 'a1 option

val upd_nat : 'a1 list -> nat -> 'a1 -> 'a1 list

val upd : 'a1 list -> n -> 'a1 -> 'a1 list

val two64 : n

val round_buckets : n -> n

val mask_double : n -> n

type 'v entry = n * 'v

val ekey : 'a1 entry -> n

val set_key : 'a1 entry -> n -> 'a1 entry

type 'v ptable = { cells : 'v entry list; nbuckets : n; mask0 : n; entries : n }

val ideal : (n -> n) -> n -> n -> n

val next : n -> n -> n

val find_loop : nat -> 'a1 entry list -> n -> n -> n -> n option res

val find : (n -> n) -> 'a1 ptable -> n -> n option res

val foi_loop :
  nat -> 'a1 ptable -> n -> 'a1 entry -> ((bool * n) * 'a1 ptable) res

val find_or_insert :
  (n -> n) -> 'a1 ptable -> 'a1 entry -> ((bool * n) * 'a1 ptable) res

val ui_loop :
  nat -> 'a1 entry list -> n -> n -> 'a1 entry -> ('a1 entry list * n) res

val unchecked_insert :
  (n -> n) -> 'a1 entry list -> n -> 'a1 entry -> ('a1 entry list * n) res

val park_loop :
  nat -> 'a1 entry list -> n -> 'a1 entry list -> ('a1 entry list * 'a1 entry
  list) res

val reinsert_loop :
  (n -> n) -> nat -> 'a1 entry list -> n -> n -> 'a1 entry list res

val unpark_loop :
  (n -> n) -> 'a1 entry list -> 'a1 entry list -> n -> 'a1 entry list res

val double0 : 'a1 -> (n -> n) -> 'a1 ptable -> 'a1 ptable res

type 'v auto = { backend : 'v ptable; threshold : n }

val threshold_of : n -> n

val initial_buckets : n -> n

val auto_init_n : 'a1 -> n -> 'a1 auto

val auto_init : 'a1 -> 'a1 auto

val auto_size : 'a1 auto -> n

val double_if_needed : 'a1 -> (n -> n) -> 'a1 auto -> 'a1 auto res

val auto_find_or_insert :
  'a1 -> (n -> n) -> 'a1 auto -> 'a1 entry -> ((bool * n) * 'a1 auto) res

val auto_insert :
  'a1 -> (n -> n) -> 'a1 auto -> 'a1 entry -> (n * 'a1 auto) res

val auto_find : (n -> n) -> 'a1 auto -> n -> n option res

val value_at : 'a1 auto -> n -> 'a1 option

val auto_update :
  (n -> n) -> 'a1 auto -> n -> 'a1 -> (n option * 'a1 auto) res

type 'v op =
| OpFindOrInsert of n * 'v
| OpInsert of n * 'v
| OpFind of n
| OpUpdate of n * 'v

type 'v answer =
| AFoundOrInserted of bool * n * 'v option
| AInserted of n
| AFind of (n * 'v option) option
| AUpdate of n option

val step :
  'a1 -> (n -> n) -> 'a1 auto -> 'a1 op -> ('a1 answer * 'a1 auto) res

val run :
  'a1 -> (n -> n) -> 'a1 auto -> 'a1 op list -> ('a1 answer list * 'a1 auto)
  res
