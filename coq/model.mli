
type nat =
| O
| S of nat

val fst : ('a1 * 'a2) -> 'a1

val snd : ('a1 * 'a2) -> 'a2

val length : 'a1 list -> nat

val app : 'a1 list -> 'a1 list -> 'a1 list

type comparison =
| Eq
| Lt
| Gt

val compOpp : comparison -> comparison

val add : nat -> nat -> nat

val sub : nat -> nat -> nat

val rev : 'a1 list -> 'a1 list

val map : ('a1 -> 'a2) -> 'a1 list -> 'a2 list

val flat_map : ('a1 -> 'a2 list) -> 'a1 list -> 'a2 list

val fold_left : ('a1 -> 'a2 -> 'a1) -> 'a2 list -> 'a1 -> 'a1

val firstn : nat -> 'a1 list -> 'a1 list

val skipn : nat -> 'a1 list -> 'a1 list

val seq : nat -> nat -> nat list

val repeat : 'a1 -> nat -> 'a1 list

type positive =
| XI of positive
| XO of positive
| XH

type n =
| N0
| Npos of positive

type z =
| Z0
| Zpos of positive
| Zneg of positive

module Pos :
 sig
  type mask =
  | IsNul
  | IsPos of positive
  | IsNeg
 end

module Coq_Pos :
 sig
  val succ : positive -> positive

  val add : positive -> positive -> positive

  val add_carry : positive -> positive -> positive

  val pred_double : positive -> positive

  type mask = Pos.mask =
  | IsNul
  | IsPos of positive
  | IsNeg

  val succ_double_mask : mask -> mask

  val double_mask : mask -> mask

  val double_pred_mask : positive -> mask

  val sub_mask : positive -> positive -> mask

  val sub_mask_carry : positive -> positive -> mask

  val mul : positive -> positive -> positive

  val compare_cont : comparison -> positive -> positive -> comparison

  val compare : positive -> positive -> comparison

  val eqb : positive -> positive -> bool

  val iter_op : ('a1 -> 'a1 -> 'a1) -> positive -> 'a1 -> 'a1

  val to_nat : positive -> nat

  val of_succ_nat : nat -> positive
 end

module N :
 sig
  val succ_double : n -> n

  val double : n -> n

  val add : n -> n -> n

  val sub : n -> n -> n

  val mul : n -> n -> n

  val compare : n -> n -> comparison

  val eqb : n -> n -> bool

  val leb : n -> n -> bool

  val pos_div_eucl : positive -> n -> n * n

  val div_eucl : n -> n -> n * n

  val div : n -> n -> n

  val modulo : n -> n -> n

  val to_nat : n -> nat

  val of_nat : nat -> n
 end

module Z :
 sig
  val double : z -> z

  val succ_double : z -> z

  val pred_double : z -> z

  val pos_sub : positive -> positive -> z

  val add : z -> z -> z

  val opp : z -> z

  val sub : z -> z -> z

  val mul : z -> z -> z

  val compare : z -> z -> comparison

  val leb : z -> z -> bool

  val ltb : z -> z -> bool

  val eqb : z -> z -> bool

  val to_nat : z -> nat

  val to_N : z -> n

  val of_nat : nat -> z

  val of_N : n -> z

  val pos_div_eucl : positive -> z -> z * z

  val div_eucl : z -> z -> z * z

  val modulo : z -> z -> z
 end

val split_at : z -> z list -> z list -> z list list * z list

val strip_cr : z list -> z list

val records : z -> bool -> z list -> z list list

val unrecords : z -> z list list -> z list

val shard_seed : n

val kBlockSize : n

val shard_strip_cr : bool

val index : (z list -> n) -> n -> z list -> n

val update : 'a1 list -> nat -> ('a1 -> 'a1) -> 'a1 list

val shard_step :
  (z list -> n) -> n -> z list list list -> z list -> z list list list

val shard : (z list -> n) -> n -> z list list -> z list list list

val shard_bytes : z list list -> z list

val shard_tool : (z list -> n) -> n -> z list -> z list list

val chunks : nat -> nat -> z list -> z list list

val blocks : z list -> z list list

val digits_loop : nat -> n -> n -> n

val u32N : z -> n

val digits_of : n -> n

val dec_loop : nat -> n -> z list -> z list

val decimal : n -> z list

val pad : n -> n -> z list

val names : z list -> n -> z list list
