
type nat =
| O
| S of nat

val length : 'a1 list -> nat

val app : 'a1 list -> 'a1 list -> 'a1 list

type comparison =
| Eq
| Lt
| Gt

val compOpp : comparison -> comparison

val add : nat -> nat -> nat

val nth : nat -> 'a1 list -> 'a1 -> 'a1

val rev : 'a1 list -> 'a1 list

val map : ('a1 -> 'a2) -> 'a1 list -> 'a2 list

val flat_map : ('a1 -> 'a2 list) -> 'a1 list -> 'a2 list

val filter : ('a1 -> bool) -> 'a1 list -> 'a1 list

val repeat : 'a1 -> nat -> 'a1 list

type positive =
| XI of positive
| XO of positive
| XH

type n =
| N0
| Npos of positive

type z =
| Z0
| Zpos of positive
| Zneg of positive

module Pos :
 sig
  val succ : positive -> positive

  val add : positive -> positive -> positive

  val add_carry : positive -> positive -> positive

  val pred_double : positive -> positive

  val pred_N : positive -> n

  val mul : positive -> positive -> positive

  val iter : ('a1 -> 'a1) -> 'a1 -> positive -> 'a1

  val div2 : positive -> positive

  val div2_up : positive -> positive

  val compare_cont : comparison -> positive -> positive -> comparison

  val compare : positive -> positive -> comparison

  val eqb : positive -> positive -> bool

  val coq_Nsucc_double : n -> n

  val coq_Ndouble : n -> n

  val coq_lor : positive -> positive -> positive

  val coq_land : positive -> positive -> n

  val ldiff : positive -> positive -> n

  val iter_op : ('a1 -> 'a1 -> 'a1) -> positive -> 'a1 -> 'a1

  val to_nat : positive -> nat

  val of_succ_nat : nat -> positive
 end

module N :
 sig
  val succ_pos : n -> positive

  val add : n -> n -> n

  val mul : n -> n -> n

  val coq_lor : n -> n -> n

  val ldiff : n -> n -> n

  val to_nat : n -> nat

  val of_nat : nat -> n
 end

module Z :
 sig
  val double : z -> z

  val succ_double : z -> z

  val pred_double : z -> z

  val pos_sub : positive -> positive -> z

  val add : z -> z -> z

  val opp : z -> z

  val sub : z -> z -> z

  val mul : z -> z -> z

  val pow_pos : z -> positive -> z

  val pow : z -> z -> z

  val compare : z -> z -> comparison

  val leb : z -> z -> bool

  val ltb : z -> z -> bool

  val geb : z -> z -> bool

  val gtb : z -> z -> bool

  val eqb : z -> z -> bool

  val to_nat : z -> nat

  val to_N : z -> n

  val of_nat : nat -> z

  val of_N : n -> z

  val pos_div_eucl : positive -> z -> z * z

  val div_eucl : z -> z -> z * z

  val div : z -> z -> z

  val modulo : z -> z -> z

  val div2 : z -> z

  val shiftl : z -> z -> z

  val shiftr : z -> z -> z

  val coq_land : z -> z -> z
 end

val wrap32 : z -> z

val split_at : z -> z list -> z list -> z list list * z list

val strip_cr : z list -> z list

val records : z -> bool -> z list -> z list list

val unrecords : z -> z list list -> z list

val tABLE : z list

val iNV_TABLE : z list

val enc_val0 : z

val enc_valb0 : z

val enc_shift : z

val enc_valb_add : z

val enc_loop_bound : z

val enc_mask : z

val enc_valb_sub : z

val enc_tail_bound : z

val enc_tail_shl : z

val enc_tail_add : z

val enc_tail_mask : z

val enc_pad_mod : z

val pad_char : z

val dec_val0 : z

val dec_valb0 : z

val dec_pad_char : z

val dec_reject : z

val dec_shift : z

val dec_valb_add : z

val dec_out_bound : z

val dec_mask : z

val dec_valb_sub : z

val tbl : z -> z

val inv : z -> z

val sel : z -> z -> z -> z

val enc_drain : nat -> z -> z -> (z list * z) option

val drain_fuel : nat

val enc_bytes : z list -> z -> z -> ((z list * z) * z) option

val enc_pad : nat -> z list

val base64_encode : z list -> z list option

type dres =
| DOk of z list
| DBadChar of z
| DLengthError

val count_padding_rev : z list -> nat

val count_padding : z list -> nat

val dec_loop : z list -> z -> z -> dres

val base64_decode : z list -> dres

val b64f_feeder_strip_cr : bool

val b64f_collector_strip_cr : bool

val b64f_back_guarded : bool

val b64f_nl_test : z

val b64f_nl_push : z

val b64f_nl_count : z

val b64f_nl_back : z

val b64f_nl_out : z

type docmeta = { line_cnt : nat; has_nl : bool }

val last_byte : z list -> z option

val count_byte : z -> z list -> nat

type fres =
| FOk of z list * docmeta
| FUB

val feed_doc : z list -> fres

val rebuild : nat -> bool -> z list list -> (z list * z list list) option

type cres =
| COk of z list list
| CChildShort
| CSurplus

val collect : docmeta list -> z list list -> cres

type bres =
| BOk of z list
| BBadInput
| BUB
| BChildShort
| BSurplus
| BFuel

val decode_all : z list list -> z list list option

val feed_all : z list list -> (z list * docmeta list) option

val encode_all : z list list -> z list option

val child_output : (z list -> z list) -> z list -> z list

val b64filter_docs : (z list -> z list) -> bool -> z list list -> bres

val b64filter : (z list -> z list) -> bool -> bool -> z list -> bres

val b64filter_tool : (z list -> z list) -> z list -> bres

val b64filter_child_stdin : z list -> z list option

val doc_lines : z list -> z list list

val ends_nl : z list -> bool

val join_lines : z list list -> bool -> z list

val doc_spec : (z list -> z list) -> z list -> z list
