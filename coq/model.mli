
val negb : bool -> bool

type nat =
| O
| S of nat

val fst : ('a1 * 'a2) -> 'a1

val snd : ('a1 * 'a2) -> 'a2

val length : 'a1 list -> nat

val app : 'a1 list -> 'a1 list -> 'a1 list

type comparison =
| Eq
| Lt
| Gt

val compOpp : comparison -> comparison

val add : nat -> nat -> nat

val sub : nat -> nat -> nat

module Nat :
 sig
  val leb : nat -> nat -> bool

  val ltb : nat -> nat -> bool
 end

val existsb : ('a1 -> bool) -> 'a1 list -> bool

val firstn : nat -> 'a1 list -> 'a1 list

val skipn : nat -> 'a1 list -> 'a1 list

type positive =
| XI of positive
| XO of positive
| XH

type n =
| N0
| Npos of positive

type z =
| Z0
| Zpos of positive
| Zneg of positive

module Pos :
 sig
  val succ : positive -> positive

  val add : positive -> positive -> positive

  val add_carry : positive -> positive -> positive

  val pred_double : positive -> positive

  val pred_N : positive -> n

  val mul : positive -> positive -> positive

  val iter : ('a1 -> 'a1) -> 'a1 -> positive -> 'a1

  val div2 : positive -> positive

  val div2_up : positive -> positive

  val compare_cont : comparison -> positive -> positive -> comparison

  val compare : positive -> positive -> comparison

  val eqb : positive -> positive -> bool

  val coq_Nsucc_double : n -> n

  val coq_Ndouble : n -> n

  val coq_lor : positive -> positive -> positive

  val coq_land : positive -> positive -> n

  val ldiff : positive -> positive -> n

  val iter_op : ('a1 -> 'a1 -> 'a1) -> positive -> 'a1 -> 'a1

  val to_nat : positive -> nat

  val of_succ_nat : nat -> positive
 end

module N :
 sig
  val succ_pos : n -> positive

  val add : n -> n -> n

  val mul : n -> n -> n

  val coq_lor : n -> n -> n

  val ldiff : n -> n -> n

  val to_nat : n -> nat

  val of_nat : nat -> n
 end

module Z :
 sig
  val double : z -> z

  val succ_double : z -> z

  val pred_double : z -> z

  val pos_sub : positive -> positive -> z

  val add : z -> z -> z

  val opp : z -> z

  val sub : z -> z -> z

  val mul : z -> z -> z

  val compare : z -> z -> comparison

  val leb : z -> z -> bool

  val ltb : z -> z -> bool

  val eqb : z -> z -> bool

  val to_nat : z -> nat

  val to_N : z -> n

  val of_nat : nat -> z

  val of_N : n -> z

  val pos_div_eucl : positive -> z -> z * z

  val div_eucl : z -> z -> z * z

  val modulo : z -> z -> z

  val div2 : z -> z

  val shiftl : z -> z -> z

  val shiftr : z -> z -> z

  val coq_land : z -> z -> z
 end

val eAGAIN : z

val eFBIG : z

val eINTR : z

val eINVAL : z

val eIO : z

val eISDIR : z

val eNOSPC : z

val eNOTSUP : z

val ePIPE : z

val eROFS : z

val sIGABRT : z

val sIGPIPE : z

val read_retry_errnos : z list

val read_throw_below : z

val write_retry_errnos : z list

val write_throw_below : z

val fsync_ignored_errnos : z list

val close_failure_aborts : bool

val kBufferSize : z

val wait_has_signal_branch : bool

val wait_signal_base : z

val wait_fallback : z

val cache_main_swallows_exceptions : bool

val foldfilter_main_swallows_exceptions : bool

val b64filter_main_swallows_exceptions : bool

val process_unicode_flushes_cout : bool

val process_unicode_checks_cout : bool

val process_unicode_cout_fail_code : z

val process_unicode_checks_cin : bool

val mmhsum_flushes_cout : bool

val mmhsum_checks_cout : bool

val mmhsum_cout_fail_code : z

val mmhsum_checks_cin : bool

val gigaword_unwrap_flushes_cout : bool

val gigaword_unwrap_checks_cout : bool

val gigaword_unwrap_cout_fail_code : z

val gigaword_unwrap_checks_cin : bool

val order_independent_hash_flushes_cout : bool

val order_independent_hash_checks_cout : bool

val order_independent_hash_cout_fail_code : z

val order_independent_hash_checks_cin : bool

type op =
| OpRead
| OpWrite
| OpFsync
| OpClose

type outcome =
| Ok of z * z list
| Err of z

type event = { ev_op : op; ev_fd : z; ev_req : z; ev_data : z list;
               ev_out : outcome }

val default_outcome : op -> z -> outcome

type 'a res =
| Val of 'a
| Exn
| Abort
| Fuel

val cast : 'a1 res -> 'a2 res

type 'a m = outcome list -> ('a res * event list) * outcome list

val ret : 'a1 -> 'a1 m

val bind : 'a1 m -> ('a1 -> 'a2 m) -> 'a2 m

val sys :
  op -> z -> z -> z list -> outcome list -> (outcome * event list) * outcome
  list

val zmem : z -> z list -> bool

val partial_read :
  nat -> z -> z -> outcome list -> (z list res * event list) * outcome list

val partialRead : z -> z -> z list m

val write_or_throw :
  nat -> z -> z list -> outcome list -> (unit res * event list) * outcome list

val writeOrThrow : z -> z list -> unit m

val fSyncIgnoreUnsupported : z -> unit m

val close_scoped_fd : z -> unit m

val in_destructor : 'a1 m -> 'a1 m

type bstream = { bs_fd : z; bs_buf : z list }

val blen : z list -> z

val spillBuffer : bstream -> bstream m

val bs_write : bstream -> z list -> bstream m

val bs_flush : bstream -> bstream m

val bs_destroy : bstream -> unit m

type status =
| Exited of z
| Signaled of z
| StFuel

val status_of : z res -> status

val tool_loop :
  ('a1 -> z list -> 'a1 * z list) -> z -> nat -> 'a1 -> bstream -> outcome
  list -> (('a1 * bstream) res * event list) * outcome list

val tool_main :
  ('a1 -> z list -> 'a1 * z list) -> ('a1 -> z list) -> z -> 'a1 -> z m

val tool_run :
  ('a1 -> z list -> 'a1 * z list) -> ('a1 -> z list) -> z -> 'a1 -> outcome
  list -> status * event list

type act =
| ARead of z * z
| AWrite of z * z list
| AFsync of z
| AClose of z
| AFlushClose of z * z list

val do_act : act -> unit m

val run_script : act list -> unit m

val script_run : bool -> act list -> outcome list -> status * event list

val ev_failed : event -> bool

val any_failed : event list -> bool

val is_write : op -> bool

val accepted : z -> event list -> z list

val try_write : z -> z list -> bool m

val cout_emit : z list list -> bool -> bool m

val cin_read_all :
  nat -> outcome list -> (bool res * event list) * outcome list

type ioconf = { io_flushes : bool; io_checks_cout : bool; io_fail_code : 
                z; io_checks_cin : bool; io_uses_cin : bool }

val cout_part : ioconf -> z list list -> z list list -> z m

val iostream_main : ioconf -> z list list -> z list list -> z m

val iostream_run :
  ioconf -> z list list -> z list list -> outcome list -> status * event list

val conf_process_unicode : ioconf

val conf_mmhsum : ioconf

val conf_gigaword_unwrap : ioconf

val conf_order_independent_hash : ioconf

type term =
| TExit of z
| TSignal of z * bool

val wstatus : term -> z

val wIFEXITED : z -> bool

val wEXITSTATUS : z -> z

val wTERMSIG : z -> z

val wIFSIGNALED : z -> bool

val wait : z -> z

type wrapper =
| Cache
| Foldfilter
| B64filter

val collect : nat list -> nat -> nat option

val swallows : wrapper -> bool

val wrapper_status : wrapper -> nat list -> nat -> term -> bool -> status
