
val negb : bool -> bool

type nat =
| O
| S of nat

type ('a, 'b) sum =
| Inl of 'a
| Inr of 'b

val fst : ('a1 * 'a2) -> 'a1

val snd : ('a1 * 'a2) -> 'a2

val length : 'a1 list -> nat

val app : 'a1 list -> 'a1 list -> 'a1 list

type comparison =
| Eq
| Lt
| Gt

val compOpp : comparison -> comparison

val add : nat -> nat -> nat

val sub : nat -> nat -> nat

type positive =
| XI of positive
| XO of positive
| XH

type n =
| N0
| Npos of positive

type z =
| Z0
| Zpos of positive
| Zneg of positive

module Nat :
 sig
  val eqb : nat -> nat -> bool

  val max : nat -> nat -> nat
 end

module Pos :
 sig
  type mask =
  | IsNul
  | IsPos of positive
  | IsNeg
 end

module Coq_Pos :
 sig
  val succ : positive -> positive

  val add : positive -> positive -> positive

  val add_carry : positive -> positive -> positive

  val pred_double : positive -> positive

  val pred_N : positive -> n

  type mask = Pos.mask =
  | IsNul
  | IsPos of positive
  | IsNeg

  val succ_double_mask : mask -> mask

  val double_mask : mask -> mask

  val double_pred_mask : positive -> mask

  val sub_mask : positive -> positive -> mask

  val sub_mask_carry : positive -> positive -> mask

  val mul : positive -> positive -> positive

  val iter : ('a1 -> 'a1) -> 'a1 -> positive -> 'a1

  val div2 : positive -> positive

  val div2_up : positive -> positive

  val compare_cont : comparison -> positive -> positive -> comparison

  val compare : positive -> positive -> comparison

  val eqb : positive -> positive -> bool

  val coq_Nsucc_double : n -> n

  val coq_Ndouble : n -> n

  val coq_lor : positive -> positive -> positive

  val coq_land : positive -> positive -> n

  val ldiff : positive -> positive -> n

  val shiftl : positive -> n -> positive

  val iter_op : ('a1 -> 'a1 -> 'a1) -> positive -> 'a1 -> 'a1

  val to_nat : positive -> nat

  val of_succ_nat : nat -> positive
 end

module N :
 sig
  val succ_double : n -> n

  val double : n -> n

  val succ_pos : n -> positive

  val add : n -> n -> n

  val sub : n -> n -> n

  val mul : n -> n -> n

  val compare : n -> n -> comparison

  val eqb : n -> n -> bool

  val leb : n -> n -> bool

  val ltb : n -> n -> bool

  val min : n -> n -> n

  val max : n -> n -> n

  val div2 : n -> n

  val pos_div_eucl : positive -> n -> n * n

  val div_eucl : n -> n -> n * n

  val div : n -> n -> n

  val modulo : n -> n -> n

  val coq_lor : n -> n -> n

  val coq_land : n -> n -> n

  val ldiff : n -> n -> n

  val shiftl : n -> n -> n

  val shiftr : n -> n -> n

  val to_nat : n -> nat

  val of_nat : nat -> n
 end

module Z :
 sig
  val double : z -> z

  val succ_double : z -> z

  val pred_double : z -> z

  val pos_sub : positive -> positive -> z

  val add : z -> z -> z

  val opp : z -> z

  val sub : z -> z -> z

  val mul : z -> z -> z

  val pow_pos : z -> positive -> z

  val pow : z -> z -> z

  val compare : z -> z -> comparison

  val leb : z -> z -> bool

  val ltb : z -> z -> bool

  val geb : z -> z -> bool

  val eqb : z -> z -> bool

  val to_nat : z -> nat

  val to_N : z -> n

  val of_nat : nat -> z

  val of_N : n -> z

  val pos_div_eucl : positive -> z -> z * z

  val div_eucl : z -> z -> z * z

  val div : z -> z -> z

  val modulo : z -> z -> z

  val div2 : z -> z

  val shiftl : z -> z -> z

  val shiftr : z -> z -> z

  val coq_land : z -> z -> z
 end

val nth : nat -> 'a1 list -> 'a1 -> 'a1

val nth_error : 'a1 list -> nat -> 'a1 option

val rev : 'a1 list -> 'a1 list

val map : ('a1 -> 'a2) -> 'a1 list -> 'a2 list

val flat_map : ('a1 -> 'a2 list) -> 'a1 list -> 'a2 list

val fold_left : ('a1 -> 'a2 -> 'a1) -> 'a2 list -> 'a1 -> 'a1

val existsb : ('a1 -> bool) -> 'a1 list -> bool

val filter : ('a1 -> bool) -> 'a1 list -> 'a1 list

val repeat : 'a1 -> nat -> 'a1 list

val wrap32 : z -> z

val split_at : z -> z list -> z list -> z list list * z list

val strip_cr : z list -> z list

val records : z -> bool -> z list -> z list list

val unrecords : z -> z list list -> z list

val invalid_key : n

val init_size : n

val size_plus : n

val mult_num : n

val mult_den : n

val thr_sub : n

val thr_num : n

val thr_den : n

val grow_factor : n

val mask_shl : n

val mask_or : n

val round_shifts : n list

type 'a res =
| Ok of 'a
| ErrFuel
| ErrBounds
| ErrFull

val bind : 'a1 res -> ('a1 -> 'a2 res) -> 'a2 res

val invalid : n

val get : 'a1 list -> n -> 'a1 option

val upd_nat : 'a1 list -> nat -> 'a1 -> 'a1 list

val upd : 'a1 list -> n -> 'a1 -> 'a1 list

val two64 : n

val round_buckets : n -> n

val mask_double : n -> n

type 'v entry = n * 'v

val ekey : 'a1 entry -> n

val set_key : 'a1 entry -> n -> 'a1 entry

type 'v ptable = { cells : 'v entry list; nbuckets : n; mask0 : n; entries : n }

val ideal : (n -> n) -> n -> n -> n

val next : n -> n -> n

val find_loop : nat -> 'a1 entry list -> n -> n -> n -> n option res

val find : (n -> n) -> 'a1 ptable -> n -> n option res

val foi_loop :
  nat -> 'a1 ptable -> n -> 'a1 entry -> ((bool * n) * 'a1 ptable) res

val find_or_insert :
  (n -> n) -> 'a1 ptable -> 'a1 entry -> ((bool * n) * 'a1 ptable) res

val ui_loop :
  nat -> 'a1 entry list -> n -> n -> 'a1 entry -> ('a1 entry list * n) res

val unchecked_insert :
  (n -> n) -> 'a1 entry list -> n -> 'a1 entry -> ('a1 entry list * n) res

val park_loop :
  nat -> 'a1 entry list -> n -> 'a1 entry list -> ('a1 entry list * 'a1 entry
  list) res

val reinsert_loop :
  (n -> n) -> nat -> 'a1 entry list -> n -> n -> 'a1 entry list res

val unpark_loop :
  (n -> n) -> 'a1 entry list -> 'a1 entry list -> n -> 'a1 entry list res

val double0 : 'a1 -> (n -> n) -> 'a1 ptable -> 'a1 ptable res

type 'v auto = { backend : 'v ptable; threshold : n }

val threshold_of : n -> n

val initial_buckets : n -> n

val auto_init_n : 'a1 -> n -> 'a1 auto

val auto_init : 'a1 -> 'a1 auto

val auto_size : 'a1 auto -> n

val double_if_needed : 'a1 -> (n -> n) -> 'a1 auto -> 'a1 auto res

val auto_find_or_insert :
  'a1 -> (n -> n) -> 'a1 auto -> 'a1 entry -> ((bool * n) * 'a1 auto) res

val auto_find : (n -> n) -> 'a1 auto -> n -> n option res

type dtable = unit auto

val idhash : n -> n

type dstate = { d_tab : dtable; d_seen_zero : bool }

val dedupe_init : dstate

val seen_pass : bool -> n -> dstate -> n -> (bool * dstate) res

val seen_find : bool -> n -> dstate -> n -> bool res

val mem : n -> n list -> bool

val first_occ_from : ('a1 -> n) -> n list -> 'a1 list -> 'a1 list

val newline : z

val subtract_has_reserved_guard : bool

val cc_has_reserved_guard : bool

val cc_magic : z list

val kSpaces : bool list

val sc_control_bound : z

val iNV_TABLE : z list

val dec_val0 : z

val dec_valb0 : z

val dec_pad_char : z

val dec_reject : z

val dec_shift : z

val dec_valb_add : z

val dec_out_bound : z

val dec_mask : z

val dec_valb_sub : z

val inv : z -> z

val sel : z -> z -> z -> z

type dres =
| DOk of z list
| DBadChar of z
| DLengthError

val count_padding_rev : z list -> nat

val count_padding : z list -> nat

val dec_loop : z list -> z -> z -> dres

val base64_decode : z list -> dres

type line = z list

val long_keep : n -> line -> bool

val remove_long_lines : n -> line list -> line list

val trail : z -> bool

val decode1 : z list -> (z * z list) option

val wf_utf8_fuel : nat -> z list -> bool

val wf_utf8 : z list -> bool

val remove_invalid_utf8 : line list -> line list

val remove_invalid_utf8_base64 : line list -> line list option

val subtract_load : (line -> n) -> dstate -> line list -> dstate res

val subtract_filter : (line -> n) -> dstate -> line list -> line list res

val subtract_lines : (line -> n) -> line list -> line list -> line list res

val is_space : z -> bool

val drop_spaces : line -> line

val strip_spaces : line -> line

val starts_with : line -> line -> bool

val is_new_line : (line -> n) -> dstate -> line -> (bool * dstate) res

val cc_load : (line -> n) -> dstate -> line list -> dstate res

val cc_filter : (line -> n) -> dstate -> line list -> line list res

val commoncrawl_dedupe :
  (line -> n) -> line list -> line list -> line list res

val subtract_spec : (line -> n) -> line list -> line list -> line list

val cc_spec : (line -> n) -> line list -> line list -> line list

type sc_options = { sc_min_chars : n; sc_character_run : n;
                    sc_min_punct_sample_size : n; sc_nscripts : nat }

val two0 : n

type sc_state = { counts : (n -> n); punct : n; spaces : n; total : n;
                  previous : z; previous_run : n }

val sc_init : sc_state

val sc_char :
  (z -> n option) -> (z -> bool) -> (z -> bool) -> sc_options -> sc_state ->
  z -> sc_state option

val sc_loop :
  (z -> n option) -> (z -> bool) -> (z -> bool) -> sc_options -> nat ->
  sc_state -> z list -> sc_state option

val sc_filter :
  (z -> n option) -> (z -> bool) -> (z -> bool) -> n -> n -> (n -> n -> bool)
  -> (n -> n -> bool) -> ((n -> n) -> n -> bool) -> sc_options -> line -> bool

val split_first : z -> z list -> z list -> z list * z list option

val skip_fields : nat -> z -> z list -> z list option

val take_fields :
  (z -> n option) -> (z -> bool) -> (z -> bool) -> n -> n -> (n -> n -> bool)
  -> (n -> n -> bool) -> ((n -> n) -> n -> bool) -> sc_options -> nat -> nat
  option -> z -> z list -> (bool, z list) sum

val individual_fields :
  (z -> n option) -> (z -> bool) -> (z -> bool) -> n -> n -> (n -> n -> bool)
  -> (n -> n -> bool) -> ((n -> n) -> n -> bool) -> sc_options -> (nat * nat
  option) list -> nat -> z -> z list -> bool

val sc_line_keep :
  (z -> n option) -> (z -> bool) -> (z -> bool) -> n -> n -> (n -> n -> bool)
  -> (n -> n -> bool) -> ((n -> n) -> n -> bool) -> sc_options -> (nat * nat
  option) list -> z -> line -> bool

val simple_cleaning :
  (z -> n option) -> (z -> bool) -> (z -> bool) -> n -> n -> (n -> n -> bool)
  -> (n -> n -> bool) -> ((n -> n) -> n -> bool) -> sc_options -> (nat * nat
  option) list -> z -> line list -> line list

val lines_of : z list -> line list

val bytes_of : line list -> z list
