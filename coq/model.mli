
val negb : bool -> bool

type nat =
| O
| S of nat

val fst : ('a1 * 'a2) -> 'a1

val snd : ('a1 * 'a2) -> 'a2

val length : 'a1 list -> nat

val app : 'a1 list -> 'a1 list -> 'a1 list

type comparison =
| Eq
| Lt
| Gt

val compOpp : comparison -> comparison

val add : nat -> nat -> nat

module Nat :
 sig
  val eqb : nat -> nat -> bool
 end

val nth : nat -> 'a1 list -> 'a1 -> 'a1

val rev : 'a1 list -> 'a1 list

val map : ('a1 -> 'a2) -> 'a1 list -> 'a2 list

val forallb : ('a1 -> bool) -> 'a1 list -> bool

val combine : 'a1 list -> 'a2 list -> ('a1 * 'a2) list

val firstn : nat -> 'a1 list -> 'a1 list

val skipn : nat -> 'a1 list -> 'a1 list

val repeat : 'a1 -> nat -> 'a1 list

type positive =
| XI of positive
| XO of positive
| XH

type n =
| N0
| Npos of positive

type z =
| Z0
| Zpos of positive
| Zneg of positive

module Pos :
 sig
  val succ : positive -> positive

  val add : positive -> positive -> positive

  val add_carry : positive -> positive -> positive

  val pred_double : positive -> positive

  val pred_N : positive -> n

  val mul : positive -> positive -> positive

  val iter : ('a1 -> 'a1) -> 'a1 -> positive -> 'a1

  val div2 : positive -> positive

  val div2_up : positive -> positive

  val compare_cont : comparison -> positive -> positive -> comparison

  val compare : positive -> positive -> comparison

  val eqb : positive -> positive -> bool

  val coq_Nsucc_double : n -> n

  val coq_Ndouble : n -> n

  val coq_lor : positive -> positive -> positive

  val coq_land : positive -> positive -> n

  val ldiff : positive -> positive -> n

  val iter_op : ('a1 -> 'a1 -> 'a1) -> positive -> 'a1 -> 'a1

  val to_nat : positive -> nat

  val of_succ_nat : nat -> positive
 end

module N :
 sig
  val succ_pos : n -> positive

  val add : n -> n -> n

  val mul : n -> n -> n

  val coq_lor : n -> n -> n

  val coq_land : n -> n -> n

  val ldiff : n -> n -> n

  val to_nat : n -> nat

  val of_nat : nat -> n
 end

module Z :
 sig
  val double : z -> z

  val succ_double : z -> z

  val pred_double : z -> z

  val pos_sub : positive -> positive -> z

  val add : z -> z -> z

  val opp : z -> z

  val sub : z -> z -> z

  val mul : z -> z -> z

  val compare : z -> z -> comparison

  val leb : z -> z -> bool

  val ltb : z -> z -> bool

  val geb : z -> z -> bool

  val gtb : z -> z -> bool

  val eqb : z -> z -> bool

  val to_nat : z -> nat

  val to_N : z -> n

  val of_nat : nat -> z

  val of_N : n -> z

  val pos_div_eucl : positive -> z -> z * z

  val div_eucl : z -> z -> z * z

  val modulo : z -> z -> z

  val div2 : z -> z

  val shiftl : z -> z -> z

  val coq_lor : z -> z -> z

  val coq_land : z -> z -> z
 end

val wrap32 : z -> z

val u64 : z -> z

val split_at : z -> z list -> z list -> z list list * z list

val strip_cr : z list -> z list

val records : z -> bool -> z list -> z list list

val fold_default_width : z

val fold_default_keep : bool

val fold_default_delims : z list

val fold_s_sets_keep : bool

val fold_feeder_strip_cr : bool

val fold_collector_strip_cr : bool

val fu8_trail_bound : z

val fu8_valid_lt : z

val fu8_valid_ge : z

val fu8_valid_le : z

val fu8_b1_lt : z

val fu8_b1_len : z

val fu8_b2_len : z

val fu8_b2_leadmask : z

val fu8_b2_leadval : z

val fu8_b2_m0 : z

val fu8_b2_s0 : z

val fu8_b2_m1 : z

val fu8_b2_min : z

val fu8_b2_mblen : z

val fu8_b3_len : z

val fu8_b3_leadmask : z

val fu8_b3_leadval : z

val fu8_b3_m0 : z

val fu8_b3_s0 : z

val fu8_b3_m1 : z

val fu8_b3_s1 : z

val fu8_b3_m2 : z

val fu8_b3_min : z

val fu8_b3_mblen : z

val fu8_b4_len : z

val fu8_b4_leadmask : z

val fu8_b4_leadval : z

val fu8_b4_m0 : z

val fu8_b4_s0 : z

val fu8_b4_m1 : z

val fu8_b4_s1 : z

val fu8_b4_m2 : z

val fu8_b4_s2 : z

val fu8_b4_m3 : z

val fu8_b4_min : z

val fu8_b4_mblen : z

val schar : z -> z

val is_trail : z -> bool

val is_valid_cp : z -> bool

val byte_at : z list -> nat -> z

val decode_utf8 : z list -> (z * z) option

val dec_at : z list -> z -> (z * z) option

val substr : z list -> z -> z -> z list

type wopts = { w_width : z; w_keep : bool; w_delims : z list }

val find_delimiter : z list -> z -> nat option

val is_delim : z list -> z -> bool

val set_nth : nat -> z -> z list -> z list

type wres =
| WOk of z list list * z list list
| WBadUtf8
| WFuel

type wstate = { s_pos : z; s_last_cut : z; s_pds : z list; s_pfd : z;
                s_lines : z list list; s_dels : z list list }

val lookback : z list -> z -> z -> z

type peekres =
| PeekOk of z
| PeekBad
| PeekFuel

val peek : nat -> z list -> wopts -> z -> z -> peekres

type stepres =
| StScan of wstate
| StCut of wstate
| StDone of wstate
| StBad
| StFuel

val step : z list -> wopts -> wstate -> stepres

val wrap_loop : nat -> z list -> wopts -> nat -> wstate -> stepres

val init_state : wopts -> wstate

val wrap_lines : z list -> wopts -> wres

val c_str : z list -> z list

val join : z list list -> z list list -> (z list * z list list) option

val interleave : z list list -> z list list -> z list

type tres =
| TOk of z list
| TBadUtf8
| TFuel
| TChildShort

val cr_strip : bool -> z list -> z list

val tool_lines : wopts -> (z list -> z list) -> bool -> z list list -> tres

val foldfilter : wopts -> (z list -> z list) -> bool -> bool -> z list -> tres

val foldfilter_tool : wopts -> (z list -> z list) -> z list -> tres

val count_cps : nat -> z list -> nat option

val utf8_valid : z list -> bool

val all_delims : nat -> z list -> z list -> bool

val width_ok : z -> z list -> bool

val check_wrap : z list -> wopts -> z list list -> z list list -> bool
