
val negb : bool -> bool

type nat =
| O
| S of nat

type ('a, 'b) sum =
| Inl of 'a
| Inr of 'b

val length : 'a1 list -> nat

val app : 'a1 list -> 'a1 list -> 'a1 list

type comparison =
| Eq
| Lt
| Gt

val compOpp : comparison -> comparison

val add : nat -> nat -> nat

val sub : nat -> nat -> nat

module Nat :
 sig
  val eqb : nat -> nat -> bool

  val leb : nat -> nat -> bool
 end

val rev : 'a1 list -> 'a1 list

val existsb : ('a1 -> bool) -> 'a1 list -> bool

val firstn : nat -> 'a1 list -> 'a1 list

val skipn : nat -> 'a1 list -> 'a1 list

type positive =
| XI of positive
| XO of positive
| XH

type n =
| N0
| Npos of positive

type z =
| Z0
| Zpos of positive
| Zneg of positive

module Pos :
 sig
  type mask =
  | IsNul
  | IsPos of positive
  | IsNeg
 end

module Coq_Pos :
 sig
  val succ : positive -> positive

  val add : positive -> positive -> positive

  val add_carry : positive -> positive -> positive

  val pred_double : positive -> positive

  type mask = Pos.mask =
  | IsNul
  | IsPos of positive
  | IsNeg

  val succ_double_mask : mask -> mask

  val double_mask : mask -> mask

  val double_pred_mask : positive -> mask

  val sub_mask : positive -> positive -> mask

  val sub_mask_carry : positive -> positive -> mask

  val mul : positive -> positive -> positive

  val compare_cont : comparison -> positive -> positive -> comparison

  val compare : positive -> positive -> comparison

  val eqb : positive -> positive -> bool

  val iter_op : ('a1 -> 'a1 -> 'a1) -> positive -> 'a1 -> 'a1

  val to_nat : positive -> nat

  val of_succ_nat : nat -> positive
 end

module N :
 sig
  val add : n -> n -> n

  val sub : n -> n -> n

  val mul : n -> n -> n

  val compare : n -> n -> comparison

  val eqb : n -> n -> bool

  val ltb : n -> n -> bool

  val min : n -> n -> n

  val to_nat : n -> nat

  val of_nat : nat -> n
 end

module Z :
 sig
  val double : z -> z

  val succ_double : z -> z

  val pred_double : z -> z

  val pos_sub : positive -> positive -> z

  val add : z -> z -> z

  val opp : z -> z

  val sub : z -> z -> z

  val mul : z -> z -> z

  val compare : z -> z -> comparison

  val leb : z -> z -> bool

  val ltb : z -> z -> bool

  val geb : z -> z -> bool

  val gtb : z -> z -> bool

  val eqb : z -> z -> bool

  val to_nat : z -> nat

  val to_N : z -> n

  val of_nat : nat -> z

  val of_N : n -> z

  val pos_div_eucl : positive -> z -> z * z

  val div_eucl : z -> z -> z * z

  val modulo : z -> z -> z
 end

val warc_kRead : n

val warc_version : z list

val warc_cl_name : z list

val warc_trailer : z list

val warc_trailer_len : n

val warc_reject_negative : bool

val warc_reject_nodigit : bool

val warc_overhang_le : bool

val kMagicSize : n

val kInputBuffer : n

val kSizeMax : n

val bz_read_stall_check : bool

val gz_magic : z list

val bz_magic : z list

val xz_magic : z list

val bZ_STREAM_END : z

val lZMA_FINISH : z

val lZMA_RUN : z

val lZMA_STREAM_END : z

val gz_read_continue : z list

val gz_read_end : z list

val bz_fine : z list

val xz_fine : z list

val len : 'a1 list -> n

val takeN : n -> 'a1 list -> 'a1 list

val dropN : n -> 'a1 list -> 'a1 list

val is_nil : 'a1 list -> bool

type kind =
| KGz
| KBz
| KXz

val mem : z -> z list -> bool

val starts_with : z list -> z list -> bool

val detect_magic : z list -> kind option

type frags = z list list

val partial_read : frags -> n -> z list * frags

val read_or_eof_loop : nat -> frags -> n -> z list * frags

val read_or_eof : frags -> n -> z list * frags

type 's cres = { c_st : 's; c_used : n; c_out : z list; c_rc : z }

type pstep =
| PContinue
| PEnd
| PThrow

val process_read : kind -> z -> bool -> bool -> pstep

val read_action : kind -> bool -> z

type rerr =
| EGz
| EBz
| EXz
| ECompressed
| EHang

val err_of : kind -> rerr

type 'dstate reader =
| RComplete
| RPlain
| RHeader of z list
| RStream of kind * 'dstate * z list * bool

type ('world, 'dstate) rstate = { r_file : frags; r_world : 'world;
                                  r_rd : 'dstate reader }

type ('world, 'dstate) rres =
| ROk of z list * ('world, 'dstate) rstate
| RErr of rerr

val read_factory :
  ('a1 -> kind -> 'a2 * 'a1) -> frags -> 'a1 -> z list -> bool -> (('a2
  reader * frags) * 'a1) option

val rd :
  ('a1 -> kind -> 'a2 * 'a1) -> (kind -> 'a2 -> z -> z list -> n -> 'a2 cres)
  -> nat -> ('a1, 'a2) rstate -> n -> ('a1, 'a2) rres

val rc_open :
  ('a1 -> kind -> 'a2 * 'a1) -> frags -> 'a1 -> ('a1, 'a2) rstate option

type werr =
| WEof
| WFormat
| WLength
| WReader
| WHang

val is_space : z -> bool

val is_digit : z -> bool

val skip_space : z list -> nat -> z list * nat

val scan_digits : z list -> z -> nat -> z * nat

val llong_max : z

val llong_min : z

val clamp_ll : z -> z

val strtoll : z list -> z * nat

val lower : z -> z

val ci_prefix : z list -> z list -> bool

val find_nl : z list -> nat -> nat option

val find_from : z list -> nat -> nat option

val strip_cr_end : z list -> z list

val list_eqb : z list -> z list -> bool

val size_max : z

val alloc_limit : z

val overhang_test : z -> z -> bool

type 'rstate more_res =
| MoreOk of z list * 'rstate
| MoreEnd of 'rstate
| MoreErr of werr

val read_more :
  ('a1 -> n -> (z list * 'a1) option) -> 'a1 -> z list -> 'a1 more_res

type 'rstate line_res =
| LineOk of z list * nat * z list * 'rstate
| LineEnd of 'rstate
| LineErr of werr

val hline :
  ('a1 -> n -> (z list * 'a1) option) -> nat -> 'a1 -> z list -> nat -> nat
  -> 'a1 line_res

type 'rstate hdr_res =
| HdrOk of 'rstate * z list * nat * z
| HdrErr of werr

val is_content_length : z list -> bool

val header_loop :
  ('a1 -> n -> (z list * 'a1) option) -> nat -> nat -> 'a1 -> z list -> nat
  -> z list -> bool -> z -> 'a1 hdr_res

type 'rstate rec_res =
| RecOk of z list * 'rstate * z list
| RecEnd
| RecErr of werr

val read_exact :
  ('a1 -> n -> (z list * 'a1) option) -> nat -> 'a1 -> z list -> z -> (z
  list * 'a1, werr) sum

val warc_read :
  ('a1 -> n -> (z list * 'a1) option) -> nat -> 'a1 -> z list -> 'a1 rec_res

type all_res =
| AllOk of z list list
| AllErr of werr * z list list

val warc_read_all :
  ('a1 -> n -> (z list * 'a1) option) -> nat -> nat -> 'a1 -> z list ->
  all_res

val no_codec_new : unit -> kind -> unit * unit

val no_codec_call : kind -> unit -> z -> z list -> n -> unit cres

val rc_read :
  (unit, unit) rstate -> n -> (z list * (unit, unit) rstate) option

val warc_file : nat -> nat -> frags -> all_res
