
val negb : bool -> bool

type nat =
| O
| S of nat

val length : 'a1 list -> nat

val app : 'a1 list -> 'a1 list -> 'a1 list

type uint =
| Nil
| D0 of uint
| D1 of uint
| D2 of uint
| D3 of uint
| D4 of uint
| D5 of uint
| D6 of uint
| D7 of uint
| D8 of uint
| D9 of uint

type uint0 =
| Nil0
| D10 of uint0
| D11 of uint0
| D12 of uint0
| D13 of uint0
| D14 of uint0
| D15 of uint0
| D16 of uint0
| D17 of uint0
| D18 of uint0
| D19 of uint0
| Da of uint0
| Db of uint0
| Dc of uint0
| Dd of uint0
| De of uint0
| Df of uint0

type uint1 =
| UIntDecimal of uint
| UIntHexadecimal of uint0

val add : nat -> nat -> nat

val sub : nat -> nat -> nat

val tail_add : nat -> nat -> nat

val tail_addmul : nat -> nat -> nat -> nat

val tail_mul : nat -> nat -> nat

val of_uint_acc : uint -> nat -> nat

val of_uint : uint -> nat

val of_hex_uint_acc : uint0 -> nat -> nat

val of_hex_uint : uint0 -> nat

val of_num_uint : uint1 -> nat

module Nat :
 sig
  val eqb : nat -> nat -> bool

  val leb : nat -> nat -> bool

  val ltb : nat -> nat -> bool
 end

type positive =
| XI of positive
| XO of positive
| XH

type n =
| N0
| Npos of positive

type z =
| Z0
| Zpos of positive
| Zneg of positive

module Pos :
 sig
  val succ : positive -> positive

  val add : positive -> positive -> positive

  val add_carry : positive -> positive -> positive

  val mul : positive -> positive -> positive

  val iter_op : ('a1 -> 'a1 -> 'a1) -> positive -> 'a1 -> 'a1

  val to_nat : positive -> nat

  val of_succ_nat : nat -> positive
 end

module N :
 sig
  val add : n -> n -> n

  val mul : n -> n -> n

  val to_nat : n -> nat

  val of_nat : nat -> n
 end

val nth_error : 'a1 list -> nat -> 'a1 option

val existsb : ('a1 -> bool) -> 'a1 list -> bool

val filter : ('a1 -> bool) -> 'a1 list -> 'a1 list

val firstn : nat -> 'a1 list -> 'a1 list

val skipn : nat -> 'a1 list -> 'a1 list

module Z :
 sig
  val opp : z -> z

  val to_nat : z -> nat

  val to_N : z -> n

  val of_nat : nat -> z

  val of_N : n -> z
 end

val usq_page_size : nat

val usq_valid_init : nat

val pcq_empty_init : nat -> nat

val pcq_used_init : nat -> nat

val ring_blocks : nat

val ring_block_size : nat

val ring_output_init : nat -> nat

val ring_trash_init : nat -> nat

val py_pending : nat list -> nat -> bool

val py_step :
  ('a1 -> nat -> 'a1 option) -> ('a1 -> nat -> bool) -> ('a1 * nat list) ->
  nat -> ('a1 * nat list) option

val upd : (nat -> 'a1) -> nat -> 'a1 -> nat -> 'a1

type upage =
| UUnalloc
| UFreed
| ULive of (nat -> z option) * nat option

type uerr =
| UUseAfterFree
| UNullNext
| UReadUnwritten

type uppc =
| UPLink
| UPWrite
| UPPost

type ucpc =
| UCWait
| UCSwitch
| UCRead

type ustate = { u_valid : nat; u_heap : (nat -> upage); u_nalloc : nat;
                u_fill : nat; u_fidx : nat; u_rd : nat; u_ridx : nat;
                u_ppc : uppc; u_cpc : ucpc; u_todo : z list; u_want : 
                nat; u_got : z list; u_err : uerr option }

val uempty_entries : nat -> z option

val usq_init : nat -> z list -> nat -> ustate

val u_fail : ustate -> uerr -> ustate

val usq_step_prod : nat -> ustate -> ustate option

val usq_step_cons : nat -> ustate -> ustate option

val usq_step : nat -> ustate -> nat -> ustate option

val usq_tag : ustate -> nat -> nat

val usq_finished : ustate -> nat -> bool

type qppc =
| QPWait
| QPLock
| QPWrite
| QPUnlock
| QPPost

type qcpc =
| QCWait
| QCLock
| QCRead
| QCUnlock
| QCPost

type qthread =
| QProd of qppc * z list
| QCons of qcpc * nat * z list

type qstate = { q_empty : nat; q_used : nat; q_slots : (nat -> z);
                q_pat : nat; q_cat : nat; q_pmx : bool; q_cmx : bool;
                q_threads : qthread list }

val list_upd : 'a1 list -> nat -> 'a1 -> 'a1 list

val q_default : z

val pcq_init : nat -> nat -> qthread list -> qstate

val q_next : nat -> nat -> nat

val q_set_thread : qstate -> nat -> qthread -> qthread list

val pcq_step : nat -> qstate -> nat -> qstate option

val pcq_tag : qstate -> nat -> nat

val qthread_finished : qthread -> bool

val pcq_finished : qstate -> nat -> bool

type rppc =
| RPCtorWait
| RPSpawn
| RPFill
| RPRest
| RPSpillPost of bool
| RPSpillWait of bool
| RPPoisonPost
| RPPoisonWait
| RPJoin
| RPLeasePost
| RPDone

type rcpc =
| RCNotStarted
| RCBegin
| RCWait
| RCWrite
| RCPostTrash
| RCExitPost
| RCFlush
| RCEnd
| RCDone

type rstate = { r_out : nat; r_trash : nat; r_data : (nat -> z list);
                r_size : (nat -> nat); r_pi : nat; r_ci : nat; r_cur : 
                nat; r_ppc : rppc; r_cpc : rcpc; r_prog : z list list;
                r_pend : z list; r_file : z list; r_wsizes : nat list;
                r_flushes : nat }

val ring_init : nat -> nat -> nat -> z list list -> rstate

val r_next : nat -> nat -> nat

val r_loop_test : nat -> nat -> z list -> rppc

val r_set_p :
  rstate -> (nat -> z list) -> (nat -> nat) -> nat -> nat -> rppc -> z list
  list -> z list -> rstate

val r_dtor : nat -> rstate -> (nat -> z list) -> nat -> rstate

val r_next_write : nat -> nat -> rstate -> (nat -> z list) -> nat -> rstate

val r_set_sem : rstate -> nat -> nat -> rppc -> rstate

val ring_step_owner : nat -> nat -> rstate -> rstate option

val r_set_c :
  rstate -> nat -> nat -> nat -> rcpc -> z list -> nat list -> nat -> rstate

val ring_step_writer : nat -> rstate -> rstate option

val ring_step : nat -> nat -> rstate -> nat -> rstate option

val ring_tag : rstate -> nat -> nat

val ring_finished : rstate -> nat -> bool

val ring_started : rstate -> nat -> bool
