
type nat =
| O
| S of nat

val length : 'a1 list -> nat

val app : 'a1 list -> 'a1 list -> 'a1 list

type comparison =
| Eq
| Lt
| Gt

val add : nat -> nat -> nat

val flat_map : ('a1 -> 'a2 list) -> 'a1 list -> 'a2 list

val existsb : ('a1 -> bool) -> 'a1 list -> bool

val firstn : nat -> 'a1 list -> 'a1 list

val skipn : nat -> 'a1 list -> 'a1 list

type positive =
| XI of positive
| XO of positive
| XH

type n =
| N0
| Npos of positive

type z =
| Z0
| Zpos of positive
| Zneg of positive

module Pos :
 sig
  type mask =
  | IsNul
  | IsPos of positive
  | IsNeg
 end

module Coq_Pos :
 sig
  val succ : positive -> positive

  val add : positive -> positive -> positive

  val add_carry : positive -> positive -> positive

  val pred_double : positive -> positive

  type mask = Pos.mask =
  | IsNul
  | IsPos of positive
  | IsNeg

  val succ_double_mask : mask -> mask

  val double_mask : mask -> mask

  val double_pred_mask : positive -> mask

  val sub_mask : positive -> positive -> mask

  val sub_mask_carry : positive -> positive -> mask

  val mul : positive -> positive -> positive

  val compare_cont : comparison -> positive -> positive -> comparison

  val compare : positive -> positive -> comparison

  val eqb : positive -> positive -> bool

  val iter_op : ('a1 -> 'a1 -> 'a1) -> positive -> 'a1 -> 'a1

  val to_nat : positive -> nat

  val of_succ_nat : nat -> positive
 end

module N :
 sig
  val add : n -> n -> n

  val sub : n -> n -> n

  val mul : n -> n -> n

  val compare : n -> n -> comparison

  val eqb : n -> n -> bool

  val ltb : n -> n -> bool

  val min : n -> n -> n

  val max : n -> n -> n

  val to_nat : n -> nat

  val of_nat : nat -> n
 end

module Z :
 sig
  val opp : z -> z

  val eqb : z -> z -> bool

  val to_nat : z -> nat

  val to_N : z -> n

  val of_nat : nat -> z

  val of_N : n -> z
 end

val kMagicSize : n

val kInputBuffer : n

val gz_kMinOutput : n

val bz_kMinOutput : n

val compressed_buffer : n

val kSizeMax : n

val gzc_initial : n

val gzc_increment : n

val dirty_initial : bool

val bz_read_stall_check : bool

val gz_magic : z list

val bz_magic : z list

val xz_magic : z list

val bZ_FINISH : z

val bZ_RUN : z

val bZ_STREAM_END : z

val lZMA_FINISH : z

val lZMA_RUN : z

val lZMA_STREAM_END : z

val z_FINISH : z

val z_NO_FLUSH : z

val z_OK : z

val gz_read_continue : z list

val gz_read_end : z list

val gz_finish_done : z list

val gz_finish_again : z list

val bz_fine : z list

val bz_finish_done : z list

val bz_finish_again : z list

val xz_fine : z list

val len : 'a1 list -> n

val takeN : n -> 'a1 list -> 'a1 list

val dropN : n -> 'a1 list -> 'a1 list

val is_nil : 'a1 list -> bool

type kind =
| KGz
| KBz
| KXz

val mem : z -> z list -> bool

val starts_with : z list -> z list -> bool

val detect_magic : z list -> kind option

type frags = z list list

val partial_read : frags -> n -> z list * frags

val read_or_eof_loop : nat -> frags -> n -> z list * frags

val read_or_eof : frags -> n -> z list * frags

type 's cres = { c_st : 's; c_used : n; c_out : z list; c_rc : z }

type pstep =
| PContinue
| PEnd
| PThrow

val process_read : kind -> z -> bool -> bool -> pstep

val read_action : kind -> bool -> z

type rerr =
| EGz
| EBz
| EXz
| ECompressed
| EHang

val err_of : kind -> rerr

type 'dstate reader =
| RComplete
| RPlain
| RHeader of z list
| RStream of kind * 'dstate * z list * bool

type ('world, 'dstate) rstate = { r_file : frags; r_world : 'world;
                                  r_rd : 'dstate reader }

type ('world, 'dstate) rres =
| ROk of z list * ('world, 'dstate) rstate
| RErr of rerr

val read_factory :
  ('a1 -> kind -> 'a2 * 'a1) -> frags -> 'a1 -> z list -> bool -> (('a2
  reader * frags) * 'a1) option

val rd :
  ('a1 -> kind -> 'a2 * 'a1) -> (kind -> 'a2 -> z -> z list -> n -> 'a2 cres)
  -> nat -> ('a1, 'a2) rstate -> n -> ('a1, 'a2) rres

val rc_open :
  ('a1 -> kind -> 'a2 * 'a1) -> frags -> 'a1 -> ('a1, 'a2) rstate option

type allres =
| AOk of z list * n list
| AErr of rerr * z list * n list

val read_all :
  ('a1 -> kind -> 'a2 * 'a1) -> (kind -> 'a2 -> z -> z list -> n -> 'a2 cres)
  -> nat -> nat -> ('a1, 'a2) rstate -> (nat -> n) -> nat -> allres

val read_file :
  ('a1 -> kind -> 'a2 * 'a1) -> (kind -> 'a2 -> z -> z list -> n -> 'a2 cres)
  -> nat -> nat -> frags -> 'a1 -> (nat -> n) -> allres

val min_output : kind -> n

val buf_size : kind -> n

val run_flag : kind -> z

val finish_flag : kind -> z

val run_ok : kind -> z -> bool

type fstep =
| FDone
| FAgain
| FThrow

val finish_step : kind -> z -> fstep

type wop =
| OpWrite of z list
| OpFlush

val op_data : wop -> z list

type 'estate wstate = { w_file : z list; w_buf : z list; w_est : 'estate;
                        w_dirty : bool }

type 'estate wres =
| WOk of 'estate wstate
| WErr of bool

val avail_out : kind -> 'a1 wstate -> n

val ensure_output : kind -> 'a1 wstate -> 'a1 wstate

val write_loop :
  (kind -> 'a1 -> z -> z list -> n -> 'a1 cres) -> nat -> kind -> 'a1 wstate
  -> z list -> 'a1 wres

val ws_write :
  (kind -> 'a1 -> z -> z list -> n -> 'a1 cres) -> nat -> kind -> 'a1 wstate
  -> z list -> 'a1 wres

val flush_loop :
  (kind -> 'a1 -> z -> z list -> n -> 'a1 cres) -> nat -> kind -> 'a1 wstate
  -> 'a1 wres

val ws_flush :
  (kind -> 'a1 -> 'a1) -> (kind -> 'a1 -> z -> z list -> n -> 'a1 cres) ->
  nat -> kind -> 'a1 wstate -> 'a1 wres

val run_ops :
  (kind -> 'a1 -> 'a1) -> (kind -> 'a1 -> z -> z list -> n -> 'a1 cres) ->
  nat -> kind -> 'a1 wstate -> wop list -> 'a1 wres

type fileres =
| FileOk of z list
| FileErr of bool

val write_session :
  ('a1 -> kind -> 'a2 * 'a1) -> (kind -> 'a2 -> 'a2) -> (kind -> 'a2 -> z ->
  z list -> n -> 'a2 cres) -> nat -> kind -> 'a1 -> wop list -> fileres

val gzc_ensure : z list -> n -> n

val gzc_pre :
  (kind -> 'a1 -> z -> z list -> n -> 'a1 cres) -> nat -> 'a1 -> z list -> z
  list -> n -> ((('a1 * z list) * z list) * n) option option

val gzc_finish :
  (kind -> 'a1 -> z -> z list -> n -> 'a1 cres) -> nat -> 'a1 -> z list -> z
  list -> n -> fileres

val gz_compress :
  ('a1 -> kind -> 'a2 * 'a1) -> (kind -> 'a2 -> z -> z list -> n -> 'a2 cres)
  -> nat -> 'a1 -> z list -> fileres

val write_plain : wop list -> z list
