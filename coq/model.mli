
type nat =
| O
| S of nat

val length : 'a1 list -> nat

val app : 'a1 list -> 'a1 list -> 'a1 list

val add : nat -> nat -> nat

val sub : nat -> nat -> nat

module Nat :
 sig
  val leb : nat -> nat -> bool

  val ltb : nat -> nat -> bool

  val max : nat -> nat -> nat

  val min : nat -> nat -> nat
 end

val firstn : nat -> 'a1 list -> 'a1 list

val skipn : nat -> 'a1 list -> 'a1 list

val repeat : 'a1 -> nat -> 'a1 list

type positive =
| XI of positive
| XO of positive
| XH

type n =
| N0
| Npos of positive

type z =
| Z0
| Zpos of positive
| Zneg of positive

module Pos :
 sig
  val succ : positive -> positive

  val add : positive -> positive -> positive

  val add_carry : positive -> positive -> positive

  val mul : positive -> positive -> positive

  val eqb : positive -> positive -> bool

  val iter_op : ('a1 -> 'a1 -> 'a1) -> positive -> 'a1 -> 'a1

  val to_nat : positive -> nat

  val of_succ_nat : nat -> positive
 end

module N :
 sig
  val add : n -> n -> n

  val mul : n -> n -> n

  val to_nat : n -> nat

  val of_nat : nat -> n
 end

module Z :
 sig
  val opp : z -> z

  val eqb : z -> z -> bool

  val to_nat : z -> nat

  val to_N : z -> n

  val of_nat : nat -> z

  val of_N : n -> z
 end

val rc_magic_size : nat

val wr_min_progress : nat

val bs_buffer_size : n

val tbs_block_size : n

val rc_magic_gz : z list

val rc_magic_bz : z list

val rc_magic_xz : z list

type outcome =
| Full
| Short of nat
| Eintr
| Err of z

type os = { os_src : z list; os_script : outcome list;
            os_trace : (nat * z) list; os_sink : z list }

val os_trace : os -> (nat * z) list

val os_sink : os -> z list

val os_init : z list -> outcome list -> os

type sysres =
| SData of z list
| SEintr
| SErr of z

val granted : outcome -> nat -> nat

val next_outcome : os -> outcome * outcome list

val sys_read : nat -> os -> sysres * os

val sys_write : z list -> os -> sysres * os

type ioerr =
| EFuel
| EErrno of z
| EEndOfFile
| EWriteZero
| ECompressed

type 'a res =
| Ok of 'a
| Fail of ioerr

val eintr_fuel : os -> nat

val partial_read_loop : nat -> nat -> os -> z list res * os

val partial_read : nat -> os -> z list res * os

val read_or_eof_loop : nat -> nat -> z list -> os -> z list res * os

val read_or_eof : nat -> os -> z list res * os

val read_or_throw_loop : nat -> nat -> z list -> os -> z list res * os

val read_or_throw : nat -> os -> z list res * os

val write_retry : nat -> z list -> os -> z list res * os

val write_or_throw_loop : nat -> z list -> os -> unit res * os

val write_or_throw : z list -> os -> unit res * os

val sys_pread : nat -> nat -> z list -> os -> sysres * os

val ersatz_pread_loop :
  nat -> nat -> nat -> z list -> z list -> os -> z list res * os

val ersatz_pread : nat -> nat -> z list -> os -> z list res * os

val overwrite : z list -> nat -> z list -> z list

val sys_pwrite : z list -> nat -> z list -> os -> (sysres * os) * z list

val ersatz_pwrite_loop :
  nat -> z list -> nat -> z list -> os -> z list res * os

val ersatz_pwrite : z list -> nat -> z list -> os -> z list res * os

type bstream = { bs_buf : z list; bs_cap : nat }

val bs_spill : bstream -> os -> bstream res * os

val bs_write : z list -> bstream -> os -> bstream res * os

val bs_flush : bstream -> os -> bstream res * os

val bs_run : z list list -> bstream -> os -> bstream res * os

val tbs_write : nat -> z list -> z list -> nat -> (z list list * z list) res

val tbs_blocks : z list list -> z list -> nat -> z list list res

val write_blocks : z list list -> os -> unit res * os

val tbs_run : z list list -> nat -> os -> unit res * os

type rcstate =
| RcHeader of z list
| RcFd
| RcComplete
| RcIStream

val is_prefix : z list -> z list -> bool

val detect_magic : z list -> bool

val read_factory : os -> rcstate res * os

val rc_read : nat -> rcstate -> os -> (z list res * rcstate) * os

val rc_read_or_eof_loop :
  nat -> nat -> z list -> rcstate -> os -> (z list res * rcstate) * os

val rc_read_or_eof : nat -> rcstate -> os -> (z list res * rcstate) * os

val rc_open_read_or_eof : nat -> os -> z list res * os
