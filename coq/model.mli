
val negb : bool -> bool

type nat =
| O
| S of nat

val option_map : ('a1 -> 'a2) -> 'a1 option -> 'a2 option

val fst : ('a1 * 'a2) -> 'a1

val snd : ('a1 * 'a2) -> 'a2

val length : 'a1 list -> nat

val app : 'a1 list -> 'a1 list -> 'a1 list

val add : nat -> nat -> nat

val mul : nat -> nat -> nat

val sub : nat -> nat -> nat

module Nat :
 sig
  val sub : nat -> nat -> nat

  val eqb : nat -> nat -> bool

  val leb : nat -> nat -> bool

  val ltb : nat -> nat -> bool

  val max : nat -> nat -> nat

  val min : nat -> nat -> nat

  val divmod : nat -> nat -> nat -> nat -> nat * nat

  val div : nat -> nat -> nat

  val modulo : nat -> nat -> nat
 end

val nth : nat -> 'a1 list -> 'a1 -> 'a1

val rev : 'a1 list -> 'a1 list

val map : ('a1 -> 'a2) -> 'a1 list -> 'a2 list

val firstn : nat -> 'a1 list -> 'a1 list

val skipn : nat -> 'a1 list -> 'a1 list

type positive =
| XI of positive
| XO of positive
| XH

type n =
| N0
| Npos of positive

type z =
| Z0
| Zpos of positive
| Zneg of positive

module Pos :
 sig
  val succ : positive -> positive

  val add : positive -> positive -> positive

  val add_carry : positive -> positive -> positive

  val mul : positive -> positive -> positive

  val eqb : positive -> positive -> bool

  val iter_op : ('a1 -> 'a1 -> 'a1) -> positive -> 'a1 -> 'a1

  val to_nat : positive -> nat

  val of_succ_nat : nat -> positive
 end

module N :
 sig
  val add : n -> n -> n

  val mul : n -> n -> n

  val to_nat : n -> nat

  val of_nat : nat -> n
 end

module Z :
 sig
  val opp : z -> z

  val eqb : z -> z -> bool

  val to_nat : z -> nat

  val to_N : z -> n

  val of_nat : nat -> z

  val of_N : n -> z
 end

val split_at : z -> z list -> z list -> z list list * z list

val strip_cr : z list -> z list

val records : z -> bool -> z list -> z list list

val fp_init_add : nat

val fp_init_min_pages : nat

val fp_mmap_grow : nat

val fp_read_grow : nat

val fp_eof_read_return : nat

val fp_cr_byte : z

val fp_cr_subtract : nat

val fp_cr_else : nat

val rc_magic_size : nat

val rc_magic_gz : z list

val rc_magic_bz : z list

val rc_magic_xz : z list

type outcome =
| Full
| Short of nat
| Eintr
| Err of z

type os = { os_src : z list; os_script : outcome list;
            os_trace : (nat * z) list; os_sink : z list }

val os_trace : os -> (nat * z) list

val os_init : z list -> outcome list -> os

type sysres =
| SData of z list
| SEintr
| SErr of z

val granted : outcome -> nat -> nat

val next_outcome : os -> outcome * outcome list

val sys_read : nat -> os -> sysres * os

type ioerr =
| EFuel
| EErrno of z
| EEndOfFile
| EWriteZero
| ECompressed

type 'a res =
| Ok of 'a
| Fail of ioerr

val eintr_fuel : os -> nat

val partial_read_loop : nat -> nat -> os -> z list res * os

val partial_read : nat -> os -> z list res * os

val read_or_eof_loop : nat -> nat -> z list -> os -> z list res * os

val read_or_eof : nat -> os -> z list res * os

type rcstate =
| RcHeader of z list
| RcFd
| RcComplete
| RcIStream

val is_prefix : z list -> z list -> bool

val detect_magic : z list -> bool

val read_factory : os -> rcstate res * os

val rc_read : nat -> rcstate -> os -> (z list res * rcstate) * os

type fp = { fp_buf : z list; fp_pos : nat; fp_cap : nat; fp_at_end : 
            bool; fp_moff : nat; fp_fallback : bool; fp_mapped : bool;
            fp_rc : rcstate; fp_os : os; fp_file : z list; fp_page : 
            nat; fp_maps : (nat * nat) list }

val fp_os : fp -> os

val fp_maps : fp -> (nat * nat) list

val set_pos : fp -> nat -> fp

val initial_cap : nat -> nat -> nat

val read_shift : fp -> fp res

val transition_to_read : fp -> fp res

val mmap_shift : fp -> fp res

val shift : fp -> fp res

val fp_open_read : nat -> os -> fp res

val fp_open_istream : nat -> z list -> fp

val fp_open_file : nat -> nat -> z list -> nat -> outcome list -> fp res

val find_idx : z -> z list -> nat option

type rl =
| RlLine of z list
| RlEOF
| RlFail of ioerr

val read_line_loop : nat -> z -> bool -> nat -> fp -> rl * fp

val pending : fp -> nat

val line_fuel : fp -> nat

val read_line : z -> bool -> fp -> rl * fp

val read_all_loop : nat -> z -> bool -> fp -> z list list res * fp

val read_all : z -> bool -> fp -> z list list res * fp
