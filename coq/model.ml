
(** val negb : bool -> bool **)

let negb = function
| true -> false
| false -> true

type nat =
| O
| S of nat

(** val fst : ('a1 * 'a2) -> 'a1 **)

let fst = function
| (x, _) -> x

(** val snd : ('a1 * 'a2) -> 'a2 **)

let snd = function
| (_, y) -> y

(** val length : 'a1 list -> nat **)

let rec length = function
| [] -> O
| _ :: l' -> S (length l')

(** val app : 'a1 list -> 'a1 list -> 'a1 list **)

let rec app l m0 =
  match l with
  | [] -> m0
  | a :: l1 -> a :: (app l1 m0)

type comparison =
| Eq
| Lt
| Gt

(** val compOpp : comparison -> comparison **)

let compOpp = function
| Eq -> Eq
| Lt -> Gt
| Gt -> Lt

module Coq__1 = struct
 (** val add : nat -> nat -> nat **)
 let rec add n0 m0 =
   match n0 with
   | O -> m0
   | S p -> S (add p m0)
end
include Coq__1

(** val sub : nat -> nat -> nat **)

let rec sub n0 m0 =
  match n0 with
  | O -> n0
  | S k -> (match m0 with
            | O -> n0
            | S l -> sub k l)

module Nat =
 struct
  (** val leb : nat -> nat -> bool **)

  let rec leb n0 m0 =
    match n0 with
    | O -> true
    | S n' -> (match m0 with
               | O -> false
               | S m' -> leb n' m')

  (** val ltb : nat -> nat -> bool **)

  let ltb n0 m0 =
    leb (S n0) m0
 end

(** val existsb : ('a1 -> bool) -> 'a1 list -> bool **)

let rec existsb f = function
| [] -> false
| a :: l0 -> (||) (f a) (existsb f l0)

(** val firstn : nat -> 'a1 list -> 'a1 list **)

let rec firstn n0 l =
  match n0 with
  | O -> []
  | S n1 -> (match l with
             | [] -> []
             | a :: l0 -> a :: (firstn n1 l0))

(** val skipn : nat -> 'a1 list -> 'a1 list **)

let rec skipn n0 l =
  match n0 with
  | O -> l
  | S n1 -> (match l with
             | [] -> []
             | _ :: l0 -> skipn n1 l0)

type positive =
| XI of positive
| XO of positive
| XH

type n =
| N0
| Npos of positive

type z =
| Z0
| Zpos of positive
| Zneg of positive

module Pos =
 struct
  (** val succ : positive -> positive **)

  let rec succ = function
  | XI p -> XO (succ p)
  | XO p -> XI p
  | XH -> XO XH

  (** val add : positive -> positive -> positive **)

  let rec add x y =
    match x with
    | XI p ->
      (match y with
       | XI q -> XO (add_carry p q)
       | XO q -> XI (add p q)
       | XH -> XO (succ p))
    | XO p ->
      (match y with
       | XI q -> XI (add p q)
       | XO q -> XO (add p q)
       | XH -> XI p)
    | XH -> (match y with
             | XI q -> XO (succ q)
             | XO q -> XI q
             | XH -> XO XH)

  (** val add_carry : positive -> positive -> positive **)

  and add_carry x y =
    match x with
    | XI p ->
      (match y with
       | XI q -> XI (add_carry p q)
       | XO q -> XO (add_carry p q)
       | XH -> XI (succ p))
    | XO p ->
      (match y with
       | XI q -> XO (add_carry p q)
       | XO q -> XI (add p q)
       | XH -> XO (succ p))
    | XH ->
      (match y with
       | XI q -> XI (succ q)
       | XO q -> XO (succ q)
       | XH -> XI XH)

  (** val pred_double : positive -> positive **)

  let rec pred_double = function
  | XI p -> XI (XO p)
  | XO p -> XI (pred_double p)
  | XH -> XH

  (** val pred_N : positive -> n **)

  let pred_N = function
  | XI p -> Npos (XO p)
  | XO p -> Npos (pred_double p)
  | XH -> N0

  (** val mul : positive -> positive -> positive **)

  let rec mul x y =
    match x with
    | XI p -> add y (XO (mul p y))
    | XO p -> XO (mul p y)
    | XH -> y

  (** val iter : ('a1 -> 'a1) -> 'a1 -> positive -> 'a1 **)

  let rec iter f x = function
  | XI n' -> f (iter f (iter f x n') n')
  | XO n' -> iter f (iter f x n') n'
  | XH -> f x

  (** val div2 : positive -> positive **)

  let div2 = function
  | XI p0 -> p0
  | XO p0 -> p0
  | XH -> XH

  (** val div2_up : positive -> positive **)

  let div2_up = function
  | XI p0 -> succ p0
  | XO p0 -> p0
  | XH -> XH

  (** val compare_cont : comparison -> positive -> positive -> comparison **)

  let rec compare_cont r x y =
    match x with
    | XI p ->
      (match y with
       | XI q -> compare_cont r p q
       | XO q -> compare_cont Gt p q
       | XH -> Gt)
    | XO p ->
      (match y with
       | XI q -> compare_cont Lt p q
       | XO q -> compare_cont r p q
       | XH -> Gt)
    | XH -> (match y with
             | XH -> r
             | _ -> Lt)

  (** val compare : positive -> positive -> comparison **)

  let compare =
    compare_cont Eq

  (** val eqb : positive -> positive -> bool **)

  let rec eqb p q =
    match p with
    | XI p0 -> (match q with
                | XI q0 -> eqb p0 q0
                | _ -> false)
    | XO p0 -> (match q with
                | XO q0 -> eqb p0 q0
                | _ -> false)
    | XH -> (match q with
             | XH -> true
             | _ -> false)

  (** val coq_Nsucc_double : n -> n **)

  let coq_Nsucc_double = function
  | N0 -> Npos XH
  | Npos p -> Npos (XI p)

  (** val coq_Ndouble : n -> n **)

  let coq_Ndouble = function
  | N0 -> N0
  | Npos p -> Npos (XO p)

  (** val coq_lor : positive -> positive -> positive **)

  let rec coq_lor p q =
    match p with
    | XI p0 ->
      (match q with
       | XI q0 -> XI (coq_lor p0 q0)
       | XO q0 -> XI (coq_lor p0 q0)
       | XH -> p)
    | XO p0 ->
      (match q with
       | XI q0 -> XI (coq_lor p0 q0)
       | XO q0 -> XO (coq_lor p0 q0)
       | XH -> XI p0)
    | XH -> (match q with
             | XO q0 -> XI q0
             | _ -> q)

  (** val coq_land : positive -> positive -> n **)

  let rec coq_land p q =
    match p with
    | XI p0 ->
      (match q with
       | XI q0 -> coq_Nsucc_double (coq_land p0 q0)
       | XO q0 -> coq_Ndouble (coq_land p0 q0)
       | XH -> Npos XH)
    | XO p0 ->
      (match q with
       | XI q0 -> coq_Ndouble (coq_land p0 q0)
       | XO q0 -> coq_Ndouble (coq_land p0 q0)
       | XH -> N0)
    | XH -> (match q with
             | XO _ -> N0
             | _ -> Npos XH)

  (** val ldiff : positive -> positive -> n **)

  let rec ldiff p q =
    match p with
    | XI p0 ->
      (match q with
       | XI q0 -> coq_Ndouble (ldiff p0 q0)
       | XO q0 -> coq_Nsucc_double (ldiff p0 q0)
       | XH -> Npos (XO p0))
    | XO p0 ->
      (match q with
       | XI q0 -> coq_Ndouble (ldiff p0 q0)
       | XO q0 -> coq_Ndouble (ldiff p0 q0)
       | XH -> Npos p)
    | XH -> (match q with
             | XO _ -> Npos XH
             | _ -> N0)

  (** val iter_op : ('a1 -> 'a1 -> 'a1) -> positive -> 'a1 -> 'a1 **)

  let rec iter_op op0 p a =
    match p with
    | XI p0 -> op0 a (iter_op op0 p0 (op0 a a))
    | XO p0 -> iter_op op0 p0 (op0 a a)
    | XH -> a

  (** val to_nat : positive -> nat **)

  let to_nat x =
    iter_op Coq__1.add x (S O)

  (** val of_succ_nat : nat -> positive **)

  let rec of_succ_nat = function
  | O -> XH
  | S x -> succ (of_succ_nat x)
 end

module N =
 struct
  (** val succ_pos : n -> positive **)

  let succ_pos = function
  | N0 -> XH
  | Npos p -> Pos.succ p

  (** val add : n -> n -> n **)

  let add n0 m0 =
    match n0 with
    | N0 -> m0
    | Npos p -> (match m0 with
                 | N0 -> n0
                 | Npos q -> Npos (Pos.add p q))

  (** val mul : n -> n -> n **)

  let mul n0 m0 =
    match n0 with
    | N0 -> N0
    | Npos p -> (match m0 with
                 | N0 -> N0
                 | Npos q -> Npos (Pos.mul p q))

  (** val coq_lor : n -> n -> n **)

  let coq_lor n0 m0 =
    match n0 with
    | N0 -> m0
    | Npos p -> (match m0 with
                 | N0 -> n0
                 | Npos q -> Npos (Pos.coq_lor p q))

  (** val ldiff : n -> n -> n **)

  let ldiff n0 m0 =
    match n0 with
    | N0 -> N0
    | Npos p -> (match m0 with
                 | N0 -> n0
                 | Npos q -> Pos.ldiff p q)

  (** val to_nat : n -> nat **)

  let to_nat = function
  | N0 -> O
  | Npos p -> Pos.to_nat p

  (** val of_nat : nat -> n **)

  let of_nat = function
  | O -> N0
  | S n' -> Npos (Pos.of_succ_nat n')
 end

module Z =
 struct
  (** val double : z -> z **)

  let double = function
  | Z0 -> Z0
  | Zpos p -> Zpos (XO p)
  | Zneg p -> Zneg (XO p)

  (** val succ_double : z -> z **)

  let succ_double = function
  | Z0 -> Zpos XH
  | Zpos p -> Zpos (XI p)
  | Zneg p -> Zneg (Pos.pred_double p)

  (** val pred_double : z -> z **)

  let pred_double = function
  | Z0 -> Zneg XH
  | Zpos p -> Zpos (Pos.pred_double p)
  | Zneg p -> Zneg (XI p)

  (** val pos_sub : positive -> positive -> z **)

  let rec pos_sub x y =
    match x with
    | XI p ->
      (match y with
       | XI q -> double (pos_sub p q)
       | XO q -> succ_double (pos_sub p q)
       | XH -> Zpos (XO p))
    | XO p ->
      (match y with
       | XI q -> pred_double (pos_sub p q)
       | XO q -> double (pos_sub p q)
       | XH -> Zpos (Pos.pred_double p))
    | XH ->
      (match y with
       | XI q -> Zneg (XO q)
       | XO q -> Zneg (Pos.pred_double q)
       | XH -> Z0)

  (** val add : z -> z -> z **)

  let add x y =
    match x with
    | Z0 -> y
    | Zpos x' ->
      (match y with
       | Z0 -> x
       | Zpos y' -> Zpos (Pos.add x' y')
       | Zneg y' -> pos_sub x' y')
    | Zneg x' ->
      (match y with
       | Z0 -> x
       | Zpos y' -> pos_sub y' x'
       | Zneg y' -> Zneg (Pos.add x' y'))

  (** val opp : z -> z **)

  let opp = function
  | Z0 -> Z0
  | Zpos x0 -> Zneg x0
  | Zneg x0 -> Zpos x0

  (** val sub : z -> z -> z **)

  let sub m0 n0 =
    add m0 (opp n0)

  (** val mul : z -> z -> z **)

  let mul x y =
    match x with
    | Z0 -> Z0
    | Zpos x' ->
      (match y with
       | Z0 -> Z0
       | Zpos y' -> Zpos (Pos.mul x' y')
       | Zneg y' -> Zneg (Pos.mul x' y'))
    | Zneg x' ->
      (match y with
       | Z0 -> Z0
       | Zpos y' -> Zneg (Pos.mul x' y')
       | Zneg y' -> Zpos (Pos.mul x' y'))

  (** val compare : z -> z -> comparison **)

  let compare x y =
    match x with
    | Z0 -> (match y with
             | Z0 -> Eq
             | Zpos _ -> Lt
             | Zneg _ -> Gt)
    | Zpos x' -> (match y with
                  | Zpos y' -> Pos.compare x' y'
                  | _ -> Gt)
    | Zneg x' ->
      (match y with
       | Zneg y' -> compOpp (Pos.compare x' y')
       | _ -> Lt)

  (** val leb : z -> z -> bool **)

  let leb x y =
    match compare x y with
    | Gt -> false
    | _ -> true

  (** val ltb : z -> z -> bool **)

  let ltb x y =
    match compare x y with
    | Lt -> true
    | _ -> false

  (** val eqb : z -> z -> bool **)

  let eqb x y =
    match x with
    | Z0 -> (match y with
             | Z0 -> true
             | _ -> false)
    | Zpos p -> (match y with
                 | Zpos q -> Pos.eqb p q
                 | _ -> false)
    | Zneg p -> (match y with
                 | Zneg q -> Pos.eqb p q
                 | _ -> false)

  (** val to_nat : z -> nat **)

  let to_nat = function
  | Zpos p -> Pos.to_nat p
  | _ -> O

  (** val to_N : z -> n **)

  let to_N = function
  | Zpos p -> Npos p
  | _ -> N0

  (** val of_nat : nat -> z **)

  let of_nat = function
  | O -> Z0
  | S n1 -> Zpos (Pos.of_succ_nat n1)

  (** val of_N : n -> z **)

  let of_N = function
  | N0 -> Z0
  | Npos p -> Zpos p

  (** val pos_div_eucl : positive -> z -> z * z **)

  let rec pos_div_eucl a b =
    match a with
    | XI a' ->
      let (q, r) = pos_div_eucl a' b in
      let r' = add (mul (Zpos (XO XH)) r) (Zpos XH) in
      if ltb r' b
      then ((mul (Zpos (XO XH)) q), r')
      else ((add (mul (Zpos (XO XH)) q) (Zpos XH)), (sub r' b))
    | XO a' ->
      let (q, r) = pos_div_eucl a' b in
      let r' = mul (Zpos (XO XH)) r in
      if ltb r' b
      then ((mul (Zpos (XO XH)) q), r')
      else ((add (mul (Zpos (XO XH)) q) (Zpos XH)), (sub r' b))
    | XH -> if leb (Zpos (XO XH)) b then (Z0, (Zpos XH)) else ((Zpos XH), Z0)

  (** val div_eucl : z -> z -> z * z **)

  let div_eucl a b =
    match a with
    | Z0 -> (Z0, Z0)
    | Zpos a' ->
      (match b with
       | Z0 -> (Z0, a)
       | Zpos _ -> pos_div_eucl a' b
       | Zneg b' ->
         let (q, r) = pos_div_eucl a' (Zpos b') in
         (match r with
          | Z0 -> ((opp q), Z0)
          | _ -> ((opp (add q (Zpos XH))), (add b r))))
    | Zneg a' ->
      (match b with
       | Z0 -> (Z0, a)
       | Zpos _ ->
         let (q, r) = pos_div_eucl a' b in
         (match r with
          | Z0 -> ((opp q), Z0)
          | _ -> ((opp (add q (Zpos XH))), (sub b r)))
       | Zneg b' -> let (q, r) = pos_div_eucl a' (Zpos b') in (q, (opp r)))

  (** val modulo : z -> z -> z **)

  let modulo a b =
    let (_, r) = div_eucl a b in r

  (** val div2 : z -> z **)

  let div2 = function
  | Z0 -> Z0
  | Zpos p -> (match p with
               | XH -> Z0
               | _ -> Zpos (Pos.div2 p))
  | Zneg p -> Zneg (Pos.div2_up p)

  (** val shiftl : z -> z -> z **)

  let shiftl a = function
  | Z0 -> a
  | Zpos p -> Pos.iter (mul (Zpos (XO XH))) a p
  | Zneg p -> Pos.iter div2 a p

  (** val shiftr : z -> z -> z **)

  let shiftr a n0 =
    shiftl a (opp n0)

  (** val coq_land : z -> z -> z **)

  let coq_land a b =
    match a with
    | Z0 -> Z0
    | Zpos a0 ->
      (match b with
       | Z0 -> Z0
       | Zpos b0 -> of_N (Pos.coq_land a0 b0)
       | Zneg b0 -> of_N (N.ldiff (Npos a0) (Pos.pred_N b0)))
    | Zneg a0 ->
      (match b with
       | Z0 -> Z0
       | Zpos b0 -> of_N (N.ldiff (Npos b0) (Pos.pred_N a0))
       | Zneg b0 ->
         Zneg (N.succ_pos (N.coq_lor (Pos.pred_N a0) (Pos.pred_N b0))))
 end

(** val eAGAIN : z **)

let eAGAIN =
  Zpos (XI (XI (XO XH)))

(** val eFBIG : z **)

let eFBIG =
  Zpos (XI (XI (XO (XI XH))))

(** val eINTR : z **)

let eINTR =
  Zpos (XO (XO XH))

(** val eINVAL : z **)

let eINVAL =
  Zpos (XO (XI (XI (XO XH))))

(** val eIO : z **)

let eIO =
  Zpos (XI (XO XH))

(** val eISDIR : z **)

let eISDIR =
  Zpos (XI (XO (XI (XO XH))))

(** val eNOSPC : z **)

let eNOSPC =
  Zpos (XO (XO (XI (XI XH))))

(** val eNOTSUP : z **)

let eNOTSUP =
  Zpos (XI (XI (XI (XI (XI (XO XH))))))

(** val ePIPE : z **)

let ePIPE =
  Zpos (XO (XO (XO (XO (XO XH)))))

(** val eROFS : z **)

let eROFS =
  Zpos (XO (XI (XI (XI XH))))

(** val sIGABRT : z **)

let sIGABRT =
  Zpos (XO (XI XH))

(** val sIGPIPE : z **)

let sIGPIPE =
  Zpos (XI (XO (XI XH)))

(** val read_retry_errnos : z list **)

let read_retry_errnos =
  eINTR :: []

(** val read_throw_below : z **)

let read_throw_below =
  Z0

(** val write_retry_errnos : z list **)

let write_retry_errnos =
  eINTR :: []

(** val write_throw_below : z **)

let write_throw_below =
  Zpos XH

(** val fsync_ignored_errnos : z list **)

let fsync_ignored_errnos =
  eROFS :: (eINVAL :: (eNOTSUP :: []))

(** val close_failure_aborts : bool **)

let close_failure_aborts =
  true

(** val kBufferSize : z **)

let kBufferSize =
  Zpos (XO (XO (XO (XO (XO (XO (XO (XO (XO (XO (XO (XO (XO XH)))))))))))))

(** val wait_has_signal_branch : bool **)

let wait_has_signal_branch =
  true

(** val wait_signal_base : z **)

let wait_signal_base =
  Zpos (XO (XO (XO (XO (XO (XO (XO XH)))))))

(** val wait_fallback : z **)

let wait_fallback =
  Zpos (XI (XI (XI (XI (XI (XI (XI XH)))))))

(** val cache_main_swallows_exceptions : bool **)

let cache_main_swallows_exceptions =
  false

(** val foldfilter_main_swallows_exceptions : bool **)

let foldfilter_main_swallows_exceptions =
  false

(** val b64filter_main_swallows_exceptions : bool **)

let b64filter_main_swallows_exceptions =
  false

(** val process_unicode_flushes_cout : bool **)

let process_unicode_flushes_cout =
  true

(** val process_unicode_checks_cout : bool **)

let process_unicode_checks_cout =
  true

(** val process_unicode_cout_fail_code : z **)

let process_unicode_cout_fail_code =
  Zpos XH

(** val process_unicode_checks_cin : bool **)

let process_unicode_checks_cin =
  true

(** val mmhsum_flushes_cout : bool **)

let mmhsum_flushes_cout =
  true

(** val mmhsum_checks_cout : bool **)

let mmhsum_checks_cout =
  true

(** val mmhsum_cout_fail_code : z **)

let mmhsum_cout_fail_code =
  Zpos XH

(** val mmhsum_checks_cin : bool **)

let mmhsum_checks_cin =
  true

(** val gigaword_unwrap_flushes_cout : bool **)

let gigaword_unwrap_flushes_cout =
  true

(** val gigaword_unwrap_checks_cout : bool **)

let gigaword_unwrap_checks_cout =
  true

(** val gigaword_unwrap_cout_fail_code : z **)

let gigaword_unwrap_cout_fail_code =
  Zpos XH

(** val gigaword_unwrap_checks_cin : bool **)

let gigaword_unwrap_checks_cin =
  true

(** val order_independent_hash_flushes_cout : bool **)

let order_independent_hash_flushes_cout =
  true

(** val order_independent_hash_checks_cout : bool **)

let order_independent_hash_checks_cout =
  true

(** val order_independent_hash_cout_fail_code : z **)

let order_independent_hash_cout_fail_code =
  Zpos XH

(** val order_independent_hash_checks_cin : bool **)

let order_independent_hash_checks_cin =
  true

type op =
| OpRead
| OpWrite
| OpFsync
| OpClose

type outcome =
| Ok of z * z list
| Err of z

type event = { ev_op : op; ev_fd : z; ev_req : z; ev_data : z list;
               ev_out : outcome }

(** val default_outcome : op -> z -> outcome **)

let default_outcome o req =
  match o with
  | OpWrite -> Ok (req, [])
  | _ -> Ok (Z0, [])

type 'a res =
| Val of 'a
| Exn
| Abort
| Fuel

(** val cast : 'a1 res -> 'a2 res **)

let cast = function
| Abort -> Abort
| Fuel -> Fuel
| _ -> Exn

type 'a m = outcome list -> ('a res * event list) * outcome list

(** val ret : 'a1 -> 'a1 m **)

let ret a orc =
  (((Val a), []), orc)

(** val bind : 'a1 m -> ('a1 -> 'a2 m) -> 'a2 m **)

let bind m0 k orc =
  let (p, orc') = m0 orc in
  let (r, ev) = p in
  (match r with
   | Val a ->
     let (p0, orc'') = k a orc' in
     let (r0, ev') = p0 in ((r0, (app ev ev')), orc'')
   | _ -> (((cast r), ev), orc'))

(** val sys :
    op -> z -> z -> z list -> outcome list -> (outcome * event
    list) * outcome list **)

let sys o fd req data = function
| [] ->
  let r = default_outcome o req in
  ((r, ({ ev_op = o; ev_fd = fd; ev_req = req; ev_data = data; ev_out =
  r } :: [])), [])
| r :: rest ->
  ((r, ({ ev_op = o; ev_fd = fd; ev_req = req; ev_data = data; ev_out =
    r } :: [])), rest)

(** val zmem : z -> z list -> bool **)

let zmem x l =
  existsb (Z.eqb x) l

(** val partial_read :
    nat -> z -> z -> outcome list -> (z list res * event list) * outcome list **)

let rec partial_read fuel fd amount orc =
  match fuel with
  | O -> ((Fuel, []), orc)
  | S f ->
    let (p, orc') = sys OpRead fd amount [] orc in
    let (o, ev) = p in
    (match o with
     | Ok (n0, d) ->
       if Z.ltb n0 read_throw_below
       then ((Exn, ev), orc')
       else (((Val d), ev), orc')
     | Err e ->
       if zmem e read_retry_errnos
       then let (p0, orc'') = partial_read f fd amount orc' in
            let (r, ev') = p0 in ((r, (app ev ev')), orc'')
       else ((Exn, ev), orc'))

(** val partialRead : z -> z -> z list m **)

let partialRead fd amount orc =
  partial_read (S (length orc)) fd amount orc

(** val write_or_throw :
    nat -> z -> z list -> outcome list -> (unit res * event list) * outcome
    list **)

let rec write_or_throw fuel fd data orc =
  match data with
  | [] -> (((Val ()), []), orc)
  | _ :: _ ->
    (match fuel with
     | O -> ((Fuel, []), orc)
     | S f ->
       let (p, orc') = sys OpWrite fd (Z.of_nat (length data)) data orc in
       let (o, ev) = p in
       (match o with
        | Ok (n0, _) ->
          if Z.ltb n0 write_throw_below
          then ((Exn, ev), orc')
          else let (p0, orc'') =
                 write_or_throw f fd (skipn (Z.to_nat n0) data) orc'
               in
               let (r, ev') = p0 in ((r, (app ev ev')), orc'')
        | Err e ->
          if zmem e write_retry_errnos
          then let (p0, orc'') = write_or_throw f fd data orc' in
               let (r, ev') = p0 in ((r, (app ev ev')), orc'')
          else ((Exn, ev), orc')))

(** val writeOrThrow : z -> z list -> unit m **)

let writeOrThrow fd data orc =
  write_or_throw (S (add (length data) (length orc))) fd data orc

(** val fSyncIgnoreUnsupported : z -> unit m **)

let fSyncIgnoreUnsupported fd orc =
  let (p, orc') = sys OpFsync fd Z0 [] orc in
  let (o, ev) = p in
  (match o with
   | Ok (_, _) -> (((Val ()), ev), orc')
   | Err e ->
     if zmem e fsync_ignored_errnos
     then (((Val ()), ev), orc')
     else ((Exn, ev), orc'))

(** val close_scoped_fd : z -> unit m **)

let close_scoped_fd fd orc =
  let (p, orc') = sys OpClose fd Z0 [] orc in
  let (o, ev) = p in
  (match o with
   | Ok (_, _) -> (((Val ()), ev), orc')
   | Err _ ->
     if close_failure_aborts
     then ((Abort, ev), orc')
     else (((Val ()), ev), orc'))

(** val in_destructor : 'a1 m -> 'a1 m **)

let in_destructor m0 orc =
  let (p, orc') = m0 orc in
  let (r, ev) = p in
  (match r with
   | Exn -> ((Abort, ev), orc')
   | x -> ((x, ev), orc'))

type bstream = { bs_fd : z; bs_buf : z list }

(** val blen : z list -> z **)

let blen l =
  Z.of_nat (length l)

(** val spillBuffer : bstream -> bstream m **)

let spillBuffer s =
  match s.bs_buf with
  | [] -> ret s
  | _ :: _ ->
    bind (writeOrThrow s.bs_fd s.bs_buf) (fun _ ->
      ret { bs_fd = s.bs_fd; bs_buf = [] })

(** val bs_write : bstream -> z list -> bstream m **)

let bs_write s data =
  if Z.leb (Z.add (blen s.bs_buf) (blen data)) kBufferSize
  then ret { bs_fd = s.bs_fd; bs_buf = (app s.bs_buf data) }
  else bind (spillBuffer s) (fun s1 ->
         if Z.leb (Z.add (blen s1.bs_buf) (blen data)) kBufferSize
         then ret { bs_fd = s1.bs_fd; bs_buf = (app s1.bs_buf data) }
         else bind (writeOrThrow s1.bs_fd data) (fun _ -> ret s1))

(** val bs_flush : bstream -> bstream m **)

let bs_flush s =
  bind (spillBuffer s) (fun s1 ->
    bind (fSyncIgnoreUnsupported s1.bs_fd) (fun _ -> ret s1))

(** val bs_destroy : bstream -> unit m **)

let bs_destroy s =
  bind (in_destructor (bs_flush s)) (fun s1 -> close_scoped_fd s1.bs_fd)

type status =
| Exited of z
| Signaled of z
| StFuel

(** val status_of : z res -> status **)

let status_of = function
| Val c ->
  Exited (Z.modulo c (Zpos (XO (XO (XO (XO (XO (XO (XO (XO XH))))))))))
| Fuel -> StFuel
| _ -> Signaled sIGABRT

(** val tool_loop :
    ('a1 -> z list -> 'a1 * z list) -> z -> nat -> 'a1 -> bstream -> outcome
    list -> (('a1 * bstream) res * event list) * outcome list **)

let rec tool_loop step chunk fuel s o orc =
  match fuel with
  | O -> ((Fuel, []), orc)
  | S f ->
    let (p, orc1) = partialRead Z0 chunk orc in
    let (r, ev) = p in
    (match r with
     | Val d ->
       (match d with
        | [] -> (((Val (s, o)), ev), orc1)
        | _ :: _ ->
          let (s', out) = step s d in
          let (p0, orc2) = bs_write o out orc1 in
          let (r0, ev2) = p0 in
          (match r0 with
           | Val o' ->
             let (p1, orc3) = tool_loop step chunk f s' o' orc2 in
             let (r1, ev3) = p1 in ((r1, (app ev (app ev2 ev3))), orc3)
           | _ -> (((cast r0), (app ev ev2)), orc2)))
     | _ -> (((cast r), ev), orc1))

(** val tool_main :
    ('a1 -> z list -> 'a1 * z list) -> ('a1 -> z list) -> z -> 'a1 -> z m **)

let tool_main step fin chunk s0 =
  bind (fun orc ->
    tool_loop step chunk (S (length orc)) s0 { bs_fd = (Zpos XH); bs_buf =
      [] } orc) (fun so ->
    bind (bs_write (snd so) (fin (fst so))) (fun o ->
      bind (bs_destroy o) (fun _ ->
        bind (close_scoped_fd Z0) (fun _ -> ret Z0))))

(** val tool_run :
    ('a1 -> z list -> 'a1 * z list) -> ('a1 -> z list) -> z -> 'a1 -> outcome
    list -> status * event list **)

let tool_run step fin chunk s0 orc =
  let (p, _) = tool_main step fin chunk s0 orc in
  let (r, ev) = p in ((status_of r), ev)

type act =
| ARead of z * z
| AWrite of z * z list
| AFsync of z
| AClose of z
| AFlushClose of z * z list

(** val do_act : act -> unit m **)

let do_act = function
| ARead (fd, req) -> bind (partialRead fd req) (fun _ -> ret ())
| AWrite (fd, d) -> writeOrThrow fd d
| AFsync fd -> fSyncIgnoreUnsupported fd
| AClose fd -> close_scoped_fd fd
| AFlushClose (fd, d) -> bs_destroy { bs_fd = fd; bs_buf = d }

(** val run_script : act list -> unit m **)

let rec run_script = function
| [] -> ret ()
| a :: r -> bind (do_act a) (fun _ -> run_script r)

(** val script_run :
    bool -> act list -> outcome list -> status * event list **)

let script_run catches acts orc =
  let (p, _) = run_script acts orc in
  let (r, ev) = p in
  (match r with
   | Val _ -> ((Exited Z0), ev)
   | Exn -> ((if catches then Exited (Zpos XH) else Signaled sIGABRT), ev)
   | Abort -> ((Signaled sIGABRT), ev)
   | Fuel -> (StFuel, ev))

(** val ev_failed : event -> bool **)

let ev_failed e =
  match e.ev_out with
  | Ok (n0, _) ->
    (match e.ev_op with
     | OpRead -> Z.ltb n0 read_throw_below
     | OpWrite -> Z.ltb n0 write_throw_below
     | _ -> false)
  | Err x ->
    (match e.ev_op with
     | OpRead -> negb (zmem x read_retry_errnos)
     | OpWrite -> negb (zmem x write_retry_errnos)
     | OpFsync -> negb (zmem x fsync_ignored_errnos)
     | OpClose -> close_failure_aborts)

(** val any_failed : event list -> bool **)

let any_failed evs =
  existsb ev_failed evs

(** val is_write : op -> bool **)

let is_write = function
| OpWrite -> true
| _ -> false

(** val accepted : z -> event list -> z list **)

let rec accepted fd = function
| [] -> []
| e :: r ->
  app
    (if (&&) (is_write e.ev_op) (Z.eqb e.ev_fd fd)
     then (match e.ev_out with
           | Ok (n0, _) -> firstn (Z.to_nat n0) e.ev_data
           | Err _ -> [])
     else []) (accepted fd r)

(** val try_write : z -> z list -> bool m **)

let try_write fd data orc =
  let (p, orc') = writeOrThrow fd data orc in
  let (r, ev) = p in
  (match r with
   | Val _ -> (((Val true), ev), orc')
   | Exn -> (((Val false), ev), orc')
   | _ -> (((cast r), ev), orc'))

(** val cout_emit : z list list -> bool -> bool m **)

let rec cout_emit chunks bad =
  match chunks with
  | [] -> ret bad
  | c :: r ->
    if bad
    then ret true
    else bind (try_write (Zpos XH) c) (fun ok -> cout_emit r (negb ok))

(** val cin_read_all :
    nat -> outcome list -> (bool res * event list) * outcome list **)

let rec cin_read_all fuel orc =
  match fuel with
  | O -> ((Fuel, []), orc)
  | S f ->
    let (p, orc') =
      partialRead Z0 (Zpos (XO (XO (XO (XO (XO (XO (XO (XO (XO (XO (XO (XO
        XH))))))))))))) orc
    in
    let (r, ev) = p in
    (match r with
     | Val a ->
       (match a with
        | [] -> (((Val false), ev), orc')
        | _ :: _ ->
          let (p0, orc'') = cin_read_all f orc' in
          let (r0, ev') = p0 in ((r0, (app ev ev')), orc''))
     | Exn -> (((Val true), ev), orc')
     | _ -> (((cast r), ev), orc'))

type ioconf = { io_flushes : bool; io_checks_cout : bool; io_fail_code : 
                z; io_checks_cin : bool; io_uses_cin : bool }

(** val cout_part : ioconf -> z list list -> z list list -> z m **)

let cout_part cf early late =
  bind (cout_emit early false) (fun bad1 ->
    if cf.io_flushes
    then bind (cout_emit late bad1) (fun bad2 ->
           ret (if (&&) bad2 cf.io_checks_cout then cf.io_fail_code else Z0))
    else let code =
           if (&&) bad1 cf.io_checks_cout then cf.io_fail_code else Z0
         in
         bind (cout_emit late bad1) (fun _ -> ret code))

(** val iostream_main : ioconf -> z list list -> z list list -> z m **)

let iostream_main cf early late =
  bind
    (if cf.io_uses_cin
     then (fun orc -> cin_read_all (S (length orc)) orc)
     else ret false) (fun rerr ->
    if (&&) rerr cf.io_checks_cin
    then ret (Zpos XH)
    else cout_part cf early late)

(** val iostream_run :
    ioconf -> z list list -> z list list -> outcome list -> status * event
    list **)

let iostream_run cf early late orc =
  let (p, _) = iostream_main cf early late orc in
  let (r, ev) = p in ((status_of r), ev)

(** val conf_process_unicode : ioconf **)

let conf_process_unicode =
  { io_flushes = process_unicode_flushes_cout; io_checks_cout =
    process_unicode_checks_cout; io_fail_code =
    process_unicode_cout_fail_code; io_checks_cin =
    process_unicode_checks_cin; io_uses_cin = true }

(** val conf_mmhsum : ioconf **)

let conf_mmhsum =
  { io_flushes = mmhsum_flushes_cout; io_checks_cout = mmhsum_checks_cout;
    io_fail_code = mmhsum_cout_fail_code; io_checks_cin = mmhsum_checks_cin;
    io_uses_cin = true }

(** val conf_gigaword_unwrap : ioconf **)

let conf_gigaword_unwrap =
  { io_flushes = gigaword_unwrap_flushes_cout; io_checks_cout =
    gigaword_unwrap_checks_cout; io_fail_code =
    gigaword_unwrap_cout_fail_code; io_checks_cin =
    gigaword_unwrap_checks_cin; io_uses_cin = false }

(** val conf_order_independent_hash : ioconf **)

let conf_order_independent_hash =
  { io_flushes = order_independent_hash_flushes_cout; io_checks_cout =
    order_independent_hash_checks_cout; io_fail_code =
    order_independent_hash_cout_fail_code; io_checks_cin =
    order_independent_hash_checks_cin; io_uses_cin = false }

type term =
| TExit of z
| TSignal of z * bool

(** val wstatus : term -> z **)

let wstatus = function
| TExit c ->
  Z.mul (Z.modulo c (Zpos (XO (XO (XO (XO (XO (XO (XO (XO XH)))))))))) (Zpos
    (XO (XO (XO (XO (XO (XO (XO (XO XH)))))))))
| TSignal (s, core) ->
  Z.add (Z.modulo s (Zpos (XO (XO (XO (XO (XO (XO (XO XH)))))))))
    (if core then Zpos (XO (XO (XO (XO (XO (XO (XO XH))))))) else Z0)

(** val wIFEXITED : z -> bool **)

let wIFEXITED w =
  Z.eqb (Z.coq_land w (Zpos (XI (XI (XI (XI (XI (XI XH)))))))) Z0

(** val wEXITSTATUS : z -> z **)

let wEXITSTATUS w =
  Z.coq_land (Z.shiftr w (Zpos (XO (XO (XO XH))))) (Zpos (XI (XI (XI (XI (XI
    (XI (XI XH))))))))

(** val wTERMSIG : z -> z **)

let wTERMSIG w =
  Z.coq_land w (Zpos (XI (XI (XI (XI (XI (XI XH)))))))

(** val wIFSIGNALED : z -> bool **)

let wIFSIGNALED w =
  (&&) (Z.ltb Z0 (Z.coq_land w (Zpos (XI (XI (XI (XI (XI (XI XH)))))))))
    (Z.ltb (Z.coq_land w (Zpos (XI (XI (XI (XI (XI (XI XH)))))))) (Zpos (XI
      (XI (XI (XI (XI (XI XH))))))))

(** val wait : z -> z **)

let wait w =
  if wIFEXITED w
  then wEXITSTATUS w
  else if (&&) wait_has_signal_branch (wIFSIGNALED w)
       then Z.add wait_signal_base (wTERMSIG w)
       else wait_fallback

type wrapper =
| Cache
| Foldfilter
| B64filter

(** val collect : nat list -> nat -> nat option **)

let rec collect needs avail =
  match needs with
  | [] -> Some avail
  | n0 :: r -> if Nat.leb n0 avail then collect r (sub avail n0) else None

(** val swallows : wrapper -> bool **)

let swallows = function
| Cache -> cache_main_swallows_exceptions
| Foldfilter -> foldfilter_main_swallows_exceptions
| B64filter -> b64filter_main_swallows_exceptions

(** val wrapper_status :
    wrapper -> nat list -> nat -> term -> bool -> status **)

let wrapper_status wr needs child_lines t feeder_ok =
  let ret0 = Exited
    (Z.modulo (wait (wstatus t)) (Zpos (XO (XO (XO (XO (XO (XO (XO (XO
      XH))))))))))
  in
  if swallows wr
  then ret0
  else (match collect needs child_lines with
        | Some rest ->
          if negb feeder_ok
          then Signaled sIGABRT
          else (match wr with
                | B64filter ->
                  if Nat.ltb O rest then Signaled sIGABRT else ret0
                | _ -> ret0)
        | None -> Signaled sIGABRT)
