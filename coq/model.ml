
type nat =
| O
| S of nat

(** val length : 'a1 list -> nat **)

let rec length = function
| [] -> O
| _ :: l' -> S (length l')

(** val app : 'a1 list -> 'a1 list -> 'a1 list **)

let rec app l m =
  match l with
  | [] -> m
  | a :: l1 -> a :: (app l1 m)

type comparison =
| Eq
| Lt
| Gt

module Coq__1 = struct
 (** val add : nat -> nat -> nat **)
 let rec add n0 m =
   match n0 with
   | O -> m
   | S p -> S (add p m)
end
include Coq__1

(** val flat_map : ('a1 -> 'a2 list) -> 'a1 list -> 'a2 list **)

let rec flat_map f = function
| [] -> []
| x :: t -> app (f x) (flat_map f t)

(** val existsb : ('a1 -> bool) -> 'a1 list -> bool **)

let rec existsb f = function
| [] -> false
| a :: l0 -> (||) (f a) (existsb f l0)

(** val firstn : nat -> 'a1 list -> 'a1 list **)

let rec firstn n0 l =
  match n0 with
  | O -> []
  | S n1 -> (match l with
             | [] -> []
             | a :: l0 -> a :: (firstn n1 l0))

(** val skipn : nat -> 'a1 list -> 'a1 list **)

let rec skipn n0 l =
  match n0 with
  | O -> l
  | S n1 -> (match l with
             | [] -> []
             | _ :: l0 -> skipn n1 l0)

type positive =
| XI of positive
| XO of positive
| XH

type n =
| N0
| Npos of positive

type z =
| Z0
| Zpos of positive
| Zneg of positive

module Pos =
 struct
  type mask =
  | IsNul
  | IsPos of positive
  | IsNeg
 end

module Coq_Pos =
 struct
  (** val succ : positive -> positive **)

  let rec succ = function
  | XI p -> XO (succ p)
  | XO p -> XI p
  | XH -> XO XH

  (** val add : positive -> positive -> positive **)

  let rec add x y =
    match x with
    | XI p ->
      (match y with
       | XI q -> XO (add_carry p q)
       | XO q -> XI (add p q)
       | XH -> XO (succ p))
    | XO p ->
      (match y with
       | XI q -> XI (add p q)
       | XO q -> XO (add p q)
       | XH -> XI p)
    | XH -> (match y with
             | XI q -> XO (succ q)
             | XO q -> XI q
             | XH -> XO XH)

  (** val add_carry : positive -> positive -> positive **)

  and add_carry x y =
    match x with
    | XI p ->
      (match y with
       | XI q -> XI (add_carry p q)
       | XO q -> XO (add_carry p q)
       | XH -> XI (succ p))
    | XO p ->
      (match y with
       | XI q -> XO (add_carry p q)
       | XO q -> XI (add p q)
       | XH -> XO (succ p))
    | XH ->
      (match y with
       | XI q -> XI (succ q)
       | XO q -> XO (succ q)
       | XH -> XI XH)

  (** val pred_double : positive -> positive **)

  let rec pred_double = function
  | XI p -> XI (XO p)
  | XO p -> XI (pred_double p)
  | XH -> XH

  type mask = Pos.mask =
  | IsNul
  | IsPos of positive
  | IsNeg

  (** val succ_double_mask : mask -> mask **)

  let succ_double_mask = function
  | IsNul -> IsPos XH
  | IsPos p -> IsPos (XI p)
  | IsNeg -> IsNeg

  (** val double_mask : mask -> mask **)

  let double_mask = function
  | IsPos p -> IsPos (XO p)
  | x0 -> x0

  (** val double_pred_mask : positive -> mask **)

  let double_pred_mask = function
  | XI p -> IsPos (XO (XO p))
  | XO p -> IsPos (XO (pred_double p))
  | XH -> IsNul

  (** val sub_mask : positive -> positive -> mask **)

  let rec sub_mask x y =
    match x with
    | XI p ->
      (match y with
       | XI q -> double_mask (sub_mask p q)
       | XO q -> succ_double_mask (sub_mask p q)
       | XH -> IsPos (XO p))
    | XO p ->
      (match y with
       | XI q -> succ_double_mask (sub_mask_carry p q)
       | XO q -> double_mask (sub_mask p q)
       | XH -> IsPos (pred_double p))
    | XH -> (match y with
             | XH -> IsNul
             | _ -> IsNeg)

  (** val sub_mask_carry : positive -> positive -> mask **)

  and sub_mask_carry x y =
    match x with
    | XI p ->
      (match y with
       | XI q -> succ_double_mask (sub_mask_carry p q)
       | XO q -> double_mask (sub_mask p q)
       | XH -> IsPos (pred_double p))
    | XO p ->
      (match y with
       | XI q -> double_mask (sub_mask_carry p q)
       | XO q -> succ_double_mask (sub_mask_carry p q)
       | XH -> double_pred_mask p)
    | XH -> IsNeg

  (** val mul : positive -> positive -> positive **)

  let rec mul x y =
    match x with
    | XI p -> add y (XO (mul p y))
    | XO p -> XO (mul p y)
    | XH -> y

  (** val compare_cont : comparison -> positive -> positive -> comparison **)

  let rec compare_cont r x y =
    match x with
    | XI p ->
      (match y with
       | XI q -> compare_cont r p q
       | XO q -> compare_cont Gt p q
       | XH -> Gt)
    | XO p ->
      (match y with
       | XI q -> compare_cont Lt p q
       | XO q -> compare_cont r p q
       | XH -> Gt)
    | XH -> (match y with
             | XH -> r
             | _ -> Lt)

  (** val compare : positive -> positive -> comparison **)

  let compare =
    compare_cont Eq

  (** val eqb : positive -> positive -> bool **)

  let rec eqb p q =
    match p with
    | XI p0 -> (match q with
                | XI q0 -> eqb p0 q0
                | _ -> false)
    | XO p0 -> (match q with
                | XO q0 -> eqb p0 q0
                | _ -> false)
    | XH -> (match q with
             | XH -> true
             | _ -> false)

  (** val iter_op : ('a1 -> 'a1 -> 'a1) -> positive -> 'a1 -> 'a1 **)

  let rec iter_op op p a =
    match p with
    | XI p0 -> op a (iter_op op p0 (op a a))
    | XO p0 -> iter_op op p0 (op a a)
    | XH -> a

  (** val to_nat : positive -> nat **)

  let to_nat x =
    iter_op Coq__1.add x (S O)

  (** val of_succ_nat : nat -> positive **)

  let rec of_succ_nat = function
  | O -> XH
  | S x -> succ (of_succ_nat x)
 end

module N =
 struct
  (** val add : n -> n -> n **)

  let add n0 m =
    match n0 with
    | N0 -> m
    | Npos p -> (match m with
                 | N0 -> n0
                 | Npos q -> Npos (Coq_Pos.add p q))

  (** val sub : n -> n -> n **)

  let sub n0 m =
    match n0 with
    | N0 -> N0
    | Npos n' ->
      (match m with
       | N0 -> n0
       | Npos m' ->
         (match Coq_Pos.sub_mask n' m' with
          | Coq_Pos.IsPos p -> Npos p
          | _ -> N0))

  (** val mul : n -> n -> n **)

  let mul n0 m =
    match n0 with
    | N0 -> N0
    | Npos p -> (match m with
                 | N0 -> N0
                 | Npos q -> Npos (Coq_Pos.mul p q))

  (** val compare : n -> n -> comparison **)

  let compare n0 m =
    match n0 with
    | N0 -> (match m with
             | N0 -> Eq
             | Npos _ -> Lt)
    | Npos n' -> (match m with
                  | N0 -> Gt
                  | Npos m' -> Coq_Pos.compare n' m')

  (** val eqb : n -> n -> bool **)

  let eqb n0 m =
    match n0 with
    | N0 -> (match m with
             | N0 -> true
             | Npos _ -> false)
    | Npos p -> (match m with
                 | N0 -> false
                 | Npos q -> Coq_Pos.eqb p q)

  (** val ltb : n -> n -> bool **)

  let ltb x y =
    match compare x y with
    | Lt -> true
    | _ -> false

  (** val min : n -> n -> n **)

  let min n0 n' =
    match compare n0 n' with
    | Gt -> n'
    | _ -> n0

  (** val max : n -> n -> n **)

  let max n0 n' =
    match compare n0 n' with
    | Gt -> n0
    | _ -> n'

  (** val to_nat : n -> nat **)

  let to_nat = function
  | N0 -> O
  | Npos p -> Coq_Pos.to_nat p

  (** val of_nat : nat -> n **)

  let of_nat = function
  | O -> N0
  | S n' -> Npos (Coq_Pos.of_succ_nat n')
 end

module Z =
 struct
  (** val opp : z -> z **)

  let opp = function
  | Z0 -> Z0
  | Zpos x0 -> Zneg x0
  | Zneg x0 -> Zpos x0

  (** val eqb : z -> z -> bool **)

  let eqb x y =
    match x with
    | Z0 -> (match y with
             | Z0 -> true
             | _ -> false)
    | Zpos p -> (match y with
                 | Zpos q -> Coq_Pos.eqb p q
                 | _ -> false)
    | Zneg p -> (match y with
                 | Zneg q -> Coq_Pos.eqb p q
                 | _ -> false)

  (** val to_nat : z -> nat **)

  let to_nat = function
  | Zpos p -> Coq_Pos.to_nat p
  | _ -> O

  (** val to_N : z -> n **)

  let to_N = function
  | Zpos p -> Npos p
  | _ -> N0

  (** val of_nat : nat -> z **)

  let of_nat = function
  | O -> Z0
  | S n1 -> Zpos (Coq_Pos.of_succ_nat n1)

  (** val of_N : n -> z **)

  let of_N = function
  | N0 -> Z0
  | Npos p -> Zpos p
 end

(** val kMagicSize : n **)

let kMagicSize =
  Npos (XO (XI XH))

(** val kInputBuffer : n **)

let kInputBuffer =
  Npos (XO (XO (XO (XO (XO (XO (XO (XO (XO (XO (XO (XO (XO (XO
    XH))))))))))))))

(** val gz_kMinOutput : n **)

let gz_kMinOutput =
  Npos (XO (XI XH))

(** val bz_kMinOutput : n **)

let bz_kMinOutput =
  Npos XH

(** val compressed_buffer : n **)

let compressed_buffer =
  Npos (XO (XO (XO (XO (XO (XO (XO (XO (XO (XO (XO (XO XH))))))))))))

(** val kSizeMax : n **)

let kSizeMax =
  Npos (XI (XI (XI (XI (XI (XI (XI (XI (XI (XI (XI (XI (XI (XI (XI (XI (XI
    (XI (XI (XI (XI (XI (XI (XI (XI (XI (XI (XI (XI (XI (XI
    XH)))))))))))))))))))))))))))))))

(** val gzc_initial : n **)

let gzc_initial =
  Npos (XO (XO (XO (XO (XO (XO (XO (XO (XO (XO (XO (XO XH))))))))))))

(** val gzc_increment : n **)

let gzc_increment =
  Npos (XO (XO (XO (XO (XO (XO (XO (XO (XO (XO (XO (XO XH))))))))))))

(** val dirty_initial : bool **)

let dirty_initial =
  true

(** val bz_read_stall_check : bool **)

let bz_read_stall_check =
  true

(** val gz_magic : z list **)

let gz_magic =
  (Zpos (XI (XI (XI (XI XH))))) :: ((Zpos (XI (XI (XO (XI (XO (XO (XO
    XH)))))))) :: [])

(** val bz_magic : z list **)

let bz_magic =
  (Zpos (XO (XI (XO (XO (XO (XO XH))))))) :: ((Zpos (XO (XI (XO (XI (XI (XO
    XH))))))) :: ((Zpos (XO (XO (XO (XI (XO (XI XH))))))) :: []))

(** val xz_magic : z list **)

let xz_magic =
  (Zpos (XI (XO (XI (XI (XI (XI (XI XH)))))))) :: ((Zpos (XI (XI (XI (XO (XI
    XH)))))) :: ((Zpos (XO (XI (XO (XI (XI (XI XH))))))) :: ((Zpos (XO (XO
    (XO (XI (XI (XO XH))))))) :: ((Zpos (XO (XI (XO (XI (XI (XO
    XH))))))) :: (Z0 :: [])))))

(** val bZ_FINISH : z **)

let bZ_FINISH =
  Zpos (XO XH)

(** val bZ_RUN : z **)

let bZ_RUN =
  Z0

(** val bZ_STREAM_END : z **)

let bZ_STREAM_END =
  Zpos (XO (XO XH))

(** val lZMA_FINISH : z **)

let lZMA_FINISH =
  Zpos (XI XH)

(** val lZMA_RUN : z **)

let lZMA_RUN =
  Z0

(** val lZMA_STREAM_END : z **)

let lZMA_STREAM_END =
  Zpos XH

(** val z_FINISH : z **)

let z_FINISH =
  Zpos (XO (XO XH))

(** val z_NO_FLUSH : z **)

let z_NO_FLUSH =
  Z0

(** val z_OK : z **)

let z_OK =
  Z0

(** val gz_read_continue : z list **)

let gz_read_continue =
  Z0 :: []

(** val gz_read_end : z list **)

let gz_read_end =
  (Zpos XH) :: []

(** val gz_finish_done : z list **)

let gz_finish_done =
  (Zpos XH) :: []

(** val gz_finish_again : z list **)

let gz_finish_again =
  Z0 :: ((Zneg (XI (XO XH))) :: [])

(** val bz_fine : z list **)

let bz_fine =
  Z0 :: ((Zpos XH) :: [])

(** val bz_finish_done : z list **)

let bz_finish_done =
  (Zpos (XO (XO XH))) :: []

(** val bz_finish_again : z list **)

let bz_finish_again =
  (Zpos (XI XH)) :: []

(** val xz_fine : z list **)

let xz_fine =
  Z0 :: []

(** val len : 'a1 list -> n **)

let len l =
  N.of_nat (length l)

(** val takeN : n -> 'a1 list -> 'a1 list **)

let takeN n0 l =
  firstn (N.to_nat n0) l

(** val dropN : n -> 'a1 list -> 'a1 list **)

let dropN n0 l =
  skipn (N.to_nat n0) l

(** val is_nil : 'a1 list -> bool **)

let is_nil = function
| [] -> true
| _ :: _ -> false

type kind =
| KGz
| KBz
| KXz

(** val mem : z -> z list -> bool **)

let mem x l =
  existsb (Z.eqb x) l

(** val starts_with : z list -> z list -> bool **)

let rec starts_with p l =
  match p with
  | [] -> true
  | a :: p' ->
    (match l with
     | [] -> false
     | b :: l' -> (&&) (Z.eqb a b) (starts_with p' l'))

(** val detect_magic : z list -> kind option **)

let detect_magic h =
  if starts_with gz_magic h
  then Some KGz
  else if starts_with bz_magic h
       then Some KBz
       else if starts_with xz_magic h then Some KXz else None

type frags = z list list

(** val partial_read : frags -> n -> z list * frags **)

let rec partial_read f n0 =
  match f with
  | [] -> ([], [])
  | fr :: r ->
    (match fr with
     | [] -> partial_read r n0
     | _ :: _ ->
       if N.ltb n0 (len fr)
       then ((takeN n0 fr), ((dropN n0 fr) :: r))
       else (fr, r))

(** val read_or_eof_loop : nat -> frags -> n -> z list * frags **)

let rec read_or_eof_loop fuel f n0 =
  match fuel with
  | O -> ([], f)
  | S k ->
    if N.eqb n0 N0
    then ([], f)
    else let (got, f') = partial_read f n0 in
         (match got with
          | [] -> ([], f')
          | _ :: _ ->
            let (more, f'') = read_or_eof_loop k f' (N.sub n0 (len got)) in
            ((app got more), f''))

(** val read_or_eof : frags -> n -> z list * frags **)

let read_or_eof f n0 =
  read_or_eof_loop (N.to_nat n0) f n0

type 's cres = { c_st : 's; c_used : n; c_out : z list; c_rc : z }

type pstep =
| PContinue
| PEnd
| PThrow

(** val process_read : kind -> z -> bool -> bool -> pstep **)

let process_read k rc no_input no_output =
  match k with
  | KGz ->
    if mem rc gz_read_continue
    then PContinue
    else if mem rc gz_read_end then PEnd else PThrow
  | KBz ->
    if Z.eqb rc bZ_STREAM_END
    then PEnd
    else if mem rc bz_fine
         then if (&&) ((&&) bz_read_stall_check no_input) no_output
              then PThrow
              else PContinue
         else PThrow
  | KXz ->
    if Z.eqb rc lZMA_STREAM_END
    then PEnd
    else if mem rc xz_fine then PContinue else PThrow

(** val read_action : kind -> bool -> z **)

let read_action k fin =
  match k with
  | KXz -> if fin then lZMA_FINISH else lZMA_RUN
  | _ -> Z0

type rerr =
| EGz
| EBz
| EXz
| ECompressed
| EHang

(** val err_of : kind -> rerr **)

let err_of = function
| KGz -> EGz
| KBz -> EBz
| KXz -> EXz

type 'dstate reader =
| RComplete
| RPlain
| RHeader of z list
| RStream of kind * 'dstate * z list * bool

type ('world, 'dstate) rstate = { r_file : frags; r_world : 'world;
                                  r_rd : 'dstate reader }

type ('world, 'dstate) rres =
| ROk of z list * ('world, 'dstate) rstate
| RErr of rerr

(** val read_factory :
    ('a1 -> kind -> 'a2 * 'a1) -> frags -> 'a1 -> z list -> bool -> (('a2
    reader * frags) * 'a1) option **)

let read_factory dnew f w already require =
  if N.ltb (len already) kMagicSize
  then let (got, f') = read_or_eof f (N.sub kMagicSize (len already)) in
       let header = app already got in
       (match header with
        | [] -> Some ((RComplete, f'), w)
        | _ :: _ ->
          (match detect_magic header with
           | Some k ->
             let (st, w') = dnew w k in
             Some (((RStream (k, st, header, false)), f'), w')
           | None ->
             if require then None else Some (((RHeader header), f'), w)))
  else (match already with
        | [] -> Some ((RComplete, f), w)
        | _ :: _ ->
          (match detect_magic already with
           | Some k ->
             let (st, w') = dnew w k in
             Some (((RStream (k, st, already, false)), f), w')
           | None ->
             if require then None else Some (((RHeader already), f), w)))

(** val rd :
    ('a1 -> kind -> 'a2 * 'a1) -> (kind -> 'a2 -> z -> z list -> n -> 'a2
    cres) -> nat -> ('a1, 'a2) rstate -> n -> ('a1, 'a2) rres **)

let rec rd dnew dcall fuel s amount =
  match s.r_rd with
  | RComplete -> ROk ([], s)
  | RPlain ->
    let (got, f') = partial_read s.r_file amount in
    ROk (got, { r_file = f'; r_world = s.r_world; r_rd = RPlain })
  | RHeader buf ->
    let sending = N.min amount (len buf) in
    let rest = dropN sending buf in
    ROk ((takeN sending buf), { r_file = s.r_file; r_world = s.r_world;
    r_rd = (match rest with
            | [] -> RPlain
            | _ :: _ -> RHeader rest) })
  | RStream (k, st, inbuf, fin) ->
    if N.eqb amount N0
    then ROk ([], s)
    else (match fuel with
          | O -> RErr EHang
          | S fuel' ->
            (match inbuf with
             | [] ->
               let (got, f') = read_or_eof s.r_file kInputBuffer in
               let p = (got, f') in
               let fin1 =
                 (||) fin (match k with
                           | KXz -> is_nil got
                           | _ -> false)
               in
               let (inbuf1, f1) = p in
               let cap =
                 match k with
                 | KXz -> amount
                 | _ -> N.min kSizeMax amount
               in
               let r = dcall k st (read_action k fin1) inbuf1 cap in
               let inbuf2 = dropN r.c_used inbuf1 in
               let out = r.c_out in
               (match process_read k r.c_rc (is_nil inbuf1) (is_nil out) with
                | PContinue ->
                  let s1 = { r_file = f1; r_world = s.r_world; r_rd =
                    (RStream (k, r.c_st, inbuf2, fin1)) }
                  in
                  (match out with
                   | [] -> rd dnew dcall fuel' s1 amount
                   | _ :: _ -> ROk (out, s1))
                | PEnd ->
                  (match read_factory dnew f1 s.r_world inbuf2 true with
                   | Some p0 ->
                     let (p1, w2) = p0 in
                     let (rdr, f2) = p1 in
                     let s2 = { r_file = f2; r_world = w2; r_rd = rdr } in
                     (match out with
                      | [] -> rd dnew dcall fuel' s2 amount
                      | _ :: _ -> ROk (out, s2))
                   | None -> RErr ECompressed)
                | PThrow -> RErr (err_of k))
             | _ :: _ ->
               let p = (inbuf, s.r_file) in
               let (inbuf1, f1) = p in
               let cap =
                 match k with
                 | KXz -> amount
                 | _ -> N.min kSizeMax amount
               in
               let r = dcall k st (read_action k fin) inbuf1 cap in
               let inbuf2 = dropN r.c_used inbuf1 in
               let out = r.c_out in
               (match process_read k r.c_rc (is_nil inbuf1) (is_nil out) with
                | PContinue ->
                  let s1 = { r_file = f1; r_world = s.r_world; r_rd =
                    (RStream (k, r.c_st, inbuf2, fin)) }
                  in
                  (match out with
                   | [] -> rd dnew dcall fuel' s1 amount
                   | _ :: _ -> ROk (out, s1))
                | PEnd ->
                  (match read_factory dnew f1 s.r_world inbuf2 true with
                   | Some p0 ->
                     let (p1, w2) = p0 in
                     let (rdr, f2) = p1 in
                     let s2 = { r_file = f2; r_world = w2; r_rd = rdr } in
                     (match out with
                      | [] -> rd dnew dcall fuel' s2 amount
                      | _ :: _ -> ROk (out, s2))
                   | None -> RErr ECompressed)
                | PThrow -> RErr (err_of k))))

(** val rc_open :
    ('a1 -> kind -> 'a2 * 'a1) -> frags -> 'a1 -> ('a1, 'a2) rstate option **)

let rc_open dnew f w =
  match read_factory dnew f w [] false with
  | Some p ->
    let (p0, w1) = p in
    let (rdr, f1) = p0 in Some { r_file = f1; r_world = w1; r_rd = rdr }
  | None -> None

type allres =
| AOk of z list * n list
| AErr of rerr * z list * n list

(** val read_all :
    ('a1 -> kind -> 'a2 * 'a1) -> (kind -> 'a2 -> z -> z list -> n -> 'a2
    cres) -> nat -> nat -> ('a1, 'a2) rstate -> (nat -> n) -> nat -> allres **)

let rec read_all dnew dcall n0 fuel s amt i =
  match n0 with
  | O -> AErr (EHang, [], [])
  | S n' ->
    (match rd dnew dcall fuel s (amt i) with
     | ROk (out, s') ->
       (match out with
        | [] -> AOk ([], (N0 :: []))
        | _ :: _ ->
          (match read_all dnew dcall n' fuel s' amt (S i) with
           | AOk (d, z0) -> AOk ((app out d), ((len out) :: z0))
           | AErr (e, d, z0) -> AErr (e, (app out d), ((len out) :: z0))))
     | RErr e -> AErr (e, [], []))

(** val read_file :
    ('a1 -> kind -> 'a2 * 'a1) -> (kind -> 'a2 -> z -> z list -> n -> 'a2
    cres) -> nat -> nat -> frags -> 'a1 -> (nat -> n) -> allres **)

let read_file dnew dcall n0 fuel f w amt =
  match rc_open dnew f w with
  | Some s -> read_all dnew dcall n0 fuel s amt O
  | None -> AErr (ECompressed, [], [])

(** val min_output : kind -> n **)

let min_output = function
| KGz -> gz_kMinOutput
| _ -> bz_kMinOutput

(** val buf_size : kind -> n **)

let buf_size k =
  N.max (min_output k) compressed_buffer

(** val run_flag : kind -> z **)

let run_flag = function
| KGz -> z_NO_FLUSH
| _ -> bZ_RUN

(** val finish_flag : kind -> z **)

let finish_flag = function
| KGz -> z_FINISH
| _ -> bZ_FINISH

(** val run_ok : kind -> z -> bool **)

let run_ok k rc =
  match k with
  | KGz -> Z.eqb rc z_OK
  | _ -> mem rc bz_fine

type fstep =
| FDone
| FAgain
| FThrow

(** val finish_step : kind -> z -> fstep **)

let finish_step k rc =
  match k with
  | KGz ->
    if mem rc gz_finish_done
    then FDone
    else if mem rc gz_finish_again then FAgain else FThrow
  | _ ->
    if mem rc bz_finish_done
    then FDone
    else if mem rc bz_finish_again then FAgain else FThrow

type wop =
| OpWrite of z list
| OpFlush

(** val op_data : wop -> z list **)

let op_data = function
| OpWrite d -> d
| OpFlush -> []

type 'estate wstate = { w_file : z list; w_buf : z list; w_est : 'estate;
                        w_dirty : bool }

type 'estate wres =
| WOk of 'estate wstate
| WErr of bool

(** val avail_out : kind -> 'a1 wstate -> n **)

let avail_out k s =
  N.sub (buf_size k) (len s.w_buf)

(** val ensure_output : kind -> 'a1 wstate -> 'a1 wstate **)

let ensure_output k s =
  if N.ltb (avail_out k s) (min_output k)
  then { w_file = (app s.w_file s.w_buf); w_buf = []; w_est = s.w_est;
         w_dirty = s.w_dirty }
  else s

(** val write_loop :
    (kind -> 'a1 -> z -> z list -> n -> 'a1 cres) -> nat -> kind -> 'a1
    wstate -> z list -> 'a1 wres **)

let rec write_loop ecall fuel k s inp = match inp with
| [] -> WOk s
| _ :: _ ->
  (match fuel with
   | O -> WErr true
   | S f ->
     let s1 = ensure_output k s in
     let r = ecall k s1.w_est (run_flag k) inp (avail_out k s1) in
     if run_ok k r.c_rc
     then write_loop ecall f k { w_file = s1.w_file; w_buf =
            (app s1.w_buf r.c_out); w_est = r.c_st; w_dirty = s1.w_dirty }
            (dropN r.c_used inp)
     else WErr false)

(** val ws_write :
    (kind -> 'a1 -> z -> z list -> n -> 'a1 cres) -> nat -> kind -> 'a1
    wstate -> z list -> 'a1 wres **)

let ws_write ecall fuel k s data =
  match write_loop ecall fuel k s data with
  | WOk s' ->
    WOk { w_file = s'.w_file; w_buf = s'.w_buf; w_est = s'.w_est; w_dirty =
      true }
  | WErr hang -> WErr hang

(** val flush_loop :
    (kind -> 'a1 -> z -> z list -> n -> 'a1 cres) -> nat -> kind -> 'a1
    wstate -> 'a1 wres **)

let rec flush_loop ecall fuel k s =
  match fuel with
  | O -> WErr true
  | S f ->
    let s1 = ensure_output k s in
    let r = ecall k s1.w_est (finish_flag k) [] (avail_out k s1) in
    let s2 = { w_file = s1.w_file; w_buf = (app s1.w_buf r.c_out); w_est =
      r.c_st; w_dirty = s1.w_dirty }
    in
    (match finish_step k r.c_rc with
     | FDone -> WOk s2
     | FAgain -> flush_loop ecall f k s2
     | FThrow -> WErr false)

(** val ws_flush :
    (kind -> 'a1 -> 'a1) -> (kind -> 'a1 -> z -> z list -> n -> 'a1 cres) ->
    nat -> kind -> 'a1 wstate -> 'a1 wres **)

let ws_flush ereset ecall fuel k s =
  if s.w_dirty
  then (match flush_loop ecall fuel k s with
        | WOk s2 ->
          WOk { w_file = (app s2.w_file s2.w_buf); w_buf = []; w_est =
            (ereset k s2.w_est); w_dirty = false }
        | WErr hang -> WErr hang)
  else WOk s

(** val run_ops :
    (kind -> 'a1 -> 'a1) -> (kind -> 'a1 -> z -> z list -> n -> 'a1 cres) ->
    nat -> kind -> 'a1 wstate -> wop list -> 'a1 wres **)

let rec run_ops ereset ecall fuel k s = function
| [] -> WOk s
| op :: r ->
  (match match op with
         | OpWrite d -> ws_write ecall fuel k s d
         | OpFlush -> ws_flush ereset ecall fuel k s with
   | WOk s' -> run_ops ereset ecall fuel k s' r
   | WErr hang -> WErr hang)

type fileres =
| FileOk of z list
| FileErr of bool

(** val write_session :
    ('a1 -> kind -> 'a2 * 'a1) -> (kind -> 'a2 -> 'a2) -> (kind -> 'a2 -> z
    -> z list -> n -> 'a2 cres) -> nat -> kind -> 'a1 -> wop list -> fileres **)

let write_session enew ereset ecall fuel k w ops =
  let (est, _) = enew w k in
  (match run_ops ereset ecall fuel k { w_file = []; w_buf = []; w_est = est;
           w_dirty = dirty_initial } ops with
   | WOk s ->
     (match ws_flush ereset ecall fuel k s with
      | WOk s' -> FileOk s'.w_file
      | WErr h -> FileErr h)
   | WErr h -> FileErr h)

(** val gzc_ensure : z list -> n -> n **)

let gzc_ensure out size =
  if N.ltb (N.sub size (len out)) gz_kMinOutput
  then N.add size gzc_increment
  else size

(** val gzc_pre :
    (kind -> 'a1 -> z -> z list -> n -> 'a1 cres) -> nat -> 'a1 -> z list ->
    z list -> n -> ((('a1 * z list) * z list) * n) option option **)

let rec gzc_pre ecall fuel est inp out size =
  if N.ltb (N.sub size (len out)) gz_kMinOutput
  then (match fuel with
        | O -> None
        | S f ->
          let size1 = gzc_ensure out size in
          let r =
            ecall KGz est z_NO_FLUSH inp
              (N.min kSizeMax (N.sub size1 (len out)))
          in
          if run_ok KGz r.c_rc
          then gzc_pre ecall f r.c_st (dropN r.c_used inp) (app out r.c_out)
                 size1
          else Some None)
  else Some (Some (((est, inp), out), size))

(** val gzc_finish :
    (kind -> 'a1 -> z -> z list -> n -> 'a1 cres) -> nat -> 'a1 -> z list ->
    z list -> n -> fileres **)

let rec gzc_finish ecall fuel est inp out size =
  match fuel with
  | O -> FileErr true
  | S f ->
    let size1 = gzc_ensure out size in
    let r =
      ecall KGz est z_FINISH inp (N.min kSizeMax (N.sub size1 (len out)))
    in
    (match finish_step KGz r.c_rc with
     | FDone -> FileOk (app out r.c_out)
     | FAgain ->
       gzc_finish ecall f r.c_st (dropN r.c_used inp) (app out r.c_out) size1
     | FThrow -> FileErr false)

(** val gz_compress :
    ('a1 -> kind -> 'a2 * 'a1) -> (kind -> 'a2 -> z -> z list -> n -> 'a2
    cres) -> nat -> 'a1 -> z list -> fileres **)

let gz_compress enew ecall fuel w from =
  let (est, _) = enew w KGz in
  (match gzc_pre ecall fuel est from [] gzc_initial with
   | Some o ->
     (match o with
      | Some p ->
        let (p0, size1) = p in
        let (p1, out1) = p0 in
        let (est1, inp1) = p1 in gzc_finish ecall fuel est1 inp1 out1 size1
      | None -> FileErr false)
   | None -> FileErr true)

(** val write_plain : wop list -> z list **)

let write_plain ops =
  flat_map op_data ops
