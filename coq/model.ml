
(** val negb : bool -> bool **)

let negb = function
| true -> false
| false -> true

type nat =
| O
| S of nat

type ('a, 'b) sum =
| Inl of 'a
| Inr of 'b

(** val length : 'a1 list -> nat **)

let rec length = function
| [] -> O
| _ :: l' -> S (length l')

(** val app : 'a1 list -> 'a1 list -> 'a1 list **)

let rec app l m =
  match l with
  | [] -> m
  | a :: l1 -> a :: (app l1 m)

type comparison =
| Eq
| Lt
| Gt

(** val compOpp : comparison -> comparison **)

let compOpp = function
| Eq -> Eq
| Lt -> Gt
| Gt -> Lt

module Coq__1 = struct
 (** val add : nat -> nat -> nat **)
 let rec add n0 m =
   match n0 with
   | O -> m
   | S p -> S (add p m)
end
include Coq__1

(** val sub : nat -> nat -> nat **)

let rec sub n0 m =
  match n0 with
  | O -> n0
  | S k -> (match m with
            | O -> n0
            | S l -> sub k l)

module Nat =
 struct
  (** val eqb : nat -> nat -> bool **)

  let rec eqb n0 m =
    match n0 with
    | O -> (match m with
            | O -> true
            | S _ -> false)
    | S n' -> (match m with
               | O -> false
               | S m' -> eqb n' m')

  (** val leb : nat -> nat -> bool **)

  let rec leb n0 m =
    match n0 with
    | O -> true
    | S n' -> (match m with
               | O -> false
               | S m' -> leb n' m')
 end

(** val rev : 'a1 list -> 'a1 list **)

let rec rev = function
| [] -> []
| x :: l' -> app (rev l') (x :: [])

(** val existsb : ('a1 -> bool) -> 'a1 list -> bool **)

let rec existsb f = function
| [] -> false
| a :: l0 -> (||) (f a) (existsb f l0)

(** val firstn : nat -> 'a1 list -> 'a1 list **)

let rec firstn n0 l =
  match n0 with
  | O -> []
  | S n1 -> (match l with
             | [] -> []
             | a :: l0 -> a :: (firstn n1 l0))

(** val skipn : nat -> 'a1 list -> 'a1 list **)

let rec skipn n0 l =
  match n0 with
  | O -> l
  | S n1 -> (match l with
             | [] -> []
             | _ :: l0 -> skipn n1 l0)

type positive =
| XI of positive
| XO of positive
| XH

type n =
| N0
| Npos of positive

type z =
| Z0
| Zpos of positive
| Zneg of positive

module Pos =
 struct
  type mask =
  | IsNul
  | IsPos of positive
  | IsNeg
 end

module Coq_Pos =
 struct
  (** val succ : positive -> positive **)

  let rec succ = function
  | XI p -> XO (succ p)
  | XO p -> XI p
  | XH -> XO XH

  (** val add : positive -> positive -> positive **)

  let rec add x y =
    match x with
    | XI p ->
      (match y with
       | XI q -> XO (add_carry p q)
       | XO q -> XI (add p q)
       | XH -> XO (succ p))
    | XO p ->
      (match y with
       | XI q -> XI (add p q)
       | XO q -> XO (add p q)
       | XH -> XI p)
    | XH -> (match y with
             | XI q -> XO (succ q)
             | XO q -> XI q
             | XH -> XO XH)

  (** val add_carry : positive -> positive -> positive **)

  and add_carry x y =
    match x with
    | XI p ->
      (match y with
       | XI q -> XI (add_carry p q)
       | XO q -> XO (add_carry p q)
       | XH -> XI (succ p))
    | XO p ->
      (match y with
       | XI q -> XO (add_carry p q)
       | XO q -> XI (add p q)
       | XH -> XO (succ p))
    | XH ->
      (match y with
       | XI q -> XI (succ q)
       | XO q -> XO (succ q)
       | XH -> XI XH)

  (** val pred_double : positive -> positive **)

  let rec pred_double = function
  | XI p -> XI (XO p)
  | XO p -> XI (pred_double p)
  | XH -> XH

  type mask = Pos.mask =
  | IsNul
  | IsPos of positive
  | IsNeg

  (** val succ_double_mask : mask -> mask **)

  let succ_double_mask = function
  | IsNul -> IsPos XH
  | IsPos p -> IsPos (XI p)
  | IsNeg -> IsNeg

  (** val double_mask : mask -> mask **)

  let double_mask = function
  | IsPos p -> IsPos (XO p)
  | x0 -> x0

  (** val double_pred_mask : positive -> mask **)

  let double_pred_mask = function
  | XI p -> IsPos (XO (XO p))
  | XO p -> IsPos (XO (pred_double p))
  | XH -> IsNul

  (** val sub_mask : positive -> positive -> mask **)

  let rec sub_mask x y =
    match x with
    | XI p ->
      (match y with
       | XI q -> double_mask (sub_mask p q)
       | XO q -> succ_double_mask (sub_mask p q)
       | XH -> IsPos (XO p))
    | XO p ->
      (match y with
       | XI q -> succ_double_mask (sub_mask_carry p q)
       | XO q -> double_mask (sub_mask p q)
       | XH -> IsPos (pred_double p))
    | XH -> (match y with
             | XH -> IsNul
             | _ -> IsNeg)

  (** val sub_mask_carry : positive -> positive -> mask **)

  and sub_mask_carry x y =
    match x with
    | XI p ->
      (match y with
       | XI q -> succ_double_mask (sub_mask_carry p q)
       | XO q -> double_mask (sub_mask p q)
       | XH -> IsPos (pred_double p))
    | XO p ->
      (match y with
       | XI q -> double_mask (sub_mask_carry p q)
       | XO q -> succ_double_mask (sub_mask_carry p q)
       | XH -> double_pred_mask p)
    | XH -> IsNeg

  (** val mul : positive -> positive -> positive **)

  let rec mul x y =
    match x with
    | XI p -> add y (XO (mul p y))
    | XO p -> XO (mul p y)
    | XH -> y

  (** val compare_cont : comparison -> positive -> positive -> comparison **)

  let rec compare_cont r x y =
    match x with
    | XI p ->
      (match y with
       | XI q -> compare_cont r p q
       | XO q -> compare_cont Gt p q
       | XH -> Gt)
    | XO p ->
      (match y with
       | XI q -> compare_cont Lt p q
       | XO q -> compare_cont r p q
       | XH -> Gt)
    | XH -> (match y with
             | XH -> r
             | _ -> Lt)

  (** val compare : positive -> positive -> comparison **)

  let compare =
    compare_cont Eq

  (** val eqb : positive -> positive -> bool **)

  let rec eqb p q =
    match p with
    | XI p0 -> (match q with
                | XI q0 -> eqb p0 q0
                | _ -> false)
    | XO p0 -> (match q with
                | XO q0 -> eqb p0 q0
                | _ -> false)
    | XH -> (match q with
             | XH -> true
             | _ -> false)

  (** val iter_op : ('a1 -> 'a1 -> 'a1) -> positive -> 'a1 -> 'a1 **)

  let rec iter_op op p a =
    match p with
    | XI p0 -> op a (iter_op op p0 (op a a))
    | XO p0 -> iter_op op p0 (op a a)
    | XH -> a

  (** val to_nat : positive -> nat **)

  let to_nat x =
    iter_op Coq__1.add x (S O)

  (** val of_succ_nat : nat -> positive **)

  let rec of_succ_nat = function
  | O -> XH
  | S x -> succ (of_succ_nat x)
 end

module N =
 struct
  (** val add : n -> n -> n **)

  let add n0 m =
    match n0 with
    | N0 -> m
    | Npos p -> (match m with
                 | N0 -> n0
                 | Npos q -> Npos (Coq_Pos.add p q))

  (** val sub : n -> n -> n **)

  let sub n0 m =
    match n0 with
    | N0 -> N0
    | Npos n' ->
      (match m with
       | N0 -> n0
       | Npos m' ->
         (match Coq_Pos.sub_mask n' m' with
          | Coq_Pos.IsPos p -> Npos p
          | _ -> N0))

  (** val mul : n -> n -> n **)

  let mul n0 m =
    match n0 with
    | N0 -> N0
    | Npos p -> (match m with
                 | N0 -> N0
                 | Npos q -> Npos (Coq_Pos.mul p q))

  (** val compare : n -> n -> comparison **)

  let compare n0 m =
    match n0 with
    | N0 -> (match m with
             | N0 -> Eq
             | Npos _ -> Lt)
    | Npos n' -> (match m with
                  | N0 -> Gt
                  | Npos m' -> Coq_Pos.compare n' m')

  (** val eqb : n -> n -> bool **)

  let eqb n0 m =
    match n0 with
    | N0 -> (match m with
             | N0 -> true
             | Npos _ -> false)
    | Npos p -> (match m with
                 | N0 -> false
                 | Npos q -> Coq_Pos.eqb p q)

  (** val ltb : n -> n -> bool **)

  let ltb x y =
    match compare x y with
    | Lt -> true
    | _ -> false

  (** val min : n -> n -> n **)

  let min n0 n' =
    match compare n0 n' with
    | Gt -> n'
    | _ -> n0

  (** val to_nat : n -> nat **)

  let to_nat = function
  | N0 -> O
  | Npos p -> Coq_Pos.to_nat p

  (** val of_nat : nat -> n **)

  let of_nat = function
  | O -> N0
  | S n' -> Npos (Coq_Pos.of_succ_nat n')
 end

module Z =
 struct
  (** val double : z -> z **)

  let double = function
  | Z0 -> Z0
  | Zpos p -> Zpos (XO p)
  | Zneg p -> Zneg (XO p)

  (** val succ_double : z -> z **)

  let succ_double = function
  | Z0 -> Zpos XH
  | Zpos p -> Zpos (XI p)
  | Zneg p -> Zneg (Coq_Pos.pred_double p)

  (** val pred_double : z -> z **)

  let pred_double = function
  | Z0 -> Zneg XH
  | Zpos p -> Zpos (Coq_Pos.pred_double p)
  | Zneg p -> Zneg (XI p)

  (** val pos_sub : positive -> positive -> z **)

  let rec pos_sub x y =
    match x with
    | XI p ->
      (match y with
       | XI q -> double (pos_sub p q)
       | XO q -> succ_double (pos_sub p q)
       | XH -> Zpos (XO p))
    | XO p ->
      (match y with
       | XI q -> pred_double (pos_sub p q)
       | XO q -> double (pos_sub p q)
       | XH -> Zpos (Coq_Pos.pred_double p))
    | XH ->
      (match y with
       | XI q -> Zneg (XO q)
       | XO q -> Zneg (Coq_Pos.pred_double q)
       | XH -> Z0)

  (** val add : z -> z -> z **)

  let add x y =
    match x with
    | Z0 -> y
    | Zpos x' ->
      (match y with
       | Z0 -> x
       | Zpos y' -> Zpos (Coq_Pos.add x' y')
       | Zneg y' -> pos_sub x' y')
    | Zneg x' ->
      (match y with
       | Z0 -> x
       | Zpos y' -> pos_sub y' x'
       | Zneg y' -> Zneg (Coq_Pos.add x' y'))

  (** val opp : z -> z **)

  let opp = function
  | Z0 -> Z0
  | Zpos x0 -> Zneg x0
  | Zneg x0 -> Zpos x0

  (** val sub : z -> z -> z **)

  let sub m n0 =
    add m (opp n0)

  (** val mul : z -> z -> z **)

  let mul x y =
    match x with
    | Z0 -> Z0
    | Zpos x' ->
      (match y with
       | Z0 -> Z0
       | Zpos y' -> Zpos (Coq_Pos.mul x' y')
       | Zneg y' -> Zneg (Coq_Pos.mul x' y'))
    | Zneg x' ->
      (match y with
       | Z0 -> Z0
       | Zpos y' -> Zneg (Coq_Pos.mul x' y')
       | Zneg y' -> Zpos (Coq_Pos.mul x' y'))

  (** val compare : z -> z -> comparison **)

  let compare x y =
    match x with
    | Z0 -> (match y with
             | Z0 -> Eq
             | Zpos _ -> Lt
             | Zneg _ -> Gt)
    | Zpos x' -> (match y with
                  | Zpos y' -> Coq_Pos.compare x' y'
                  | _ -> Gt)
    | Zneg x' ->
      (match y with
       | Zneg y' -> compOpp (Coq_Pos.compare x' y')
       | _ -> Lt)

  (** val leb : z -> z -> bool **)

  let leb x y =
    match compare x y with
    | Gt -> false
    | _ -> true

  (** val ltb : z -> z -> bool **)

  let ltb x y =
    match compare x y with
    | Lt -> true
    | _ -> false

  (** val geb : z -> z -> bool **)

  let geb x y =
    match compare x y with
    | Lt -> false
    | _ -> true

  (** val gtb : z -> z -> bool **)

  let gtb x y =
    match compare x y with
    | Gt -> true
    | _ -> false

  (** val eqb : z -> z -> bool **)

  let eqb x y =
    match x with
    | Z0 -> (match y with
             | Z0 -> true
             | _ -> false)
    | Zpos p -> (match y with
                 | Zpos q -> Coq_Pos.eqb p q
                 | _ -> false)
    | Zneg p -> (match y with
                 | Zneg q -> Coq_Pos.eqb p q
                 | _ -> false)

  (** val to_nat : z -> nat **)

  let to_nat = function
  | Zpos p -> Coq_Pos.to_nat p
  | _ -> O

  (** val to_N : z -> n **)

  let to_N = function
  | Zpos p -> Npos p
  | _ -> N0

  (** val of_nat : nat -> z **)

  let of_nat = function
  | O -> Z0
  | S n1 -> Zpos (Coq_Pos.of_succ_nat n1)

  (** val of_N : n -> z **)

  let of_N = function
  | N0 -> Z0
  | Npos p -> Zpos p

  (** val pos_div_eucl : positive -> z -> z * z **)

  let rec pos_div_eucl a b =
    match a with
    | XI a' ->
      let (q, r) = pos_div_eucl a' b in
      let r' = add (mul (Zpos (XO XH)) r) (Zpos XH) in
      if ltb r' b
      then ((mul (Zpos (XO XH)) q), r')
      else ((add (mul (Zpos (XO XH)) q) (Zpos XH)), (sub r' b))
    | XO a' ->
      let (q, r) = pos_div_eucl a' b in
      let r' = mul (Zpos (XO XH)) r in
      if ltb r' b
      then ((mul (Zpos (XO XH)) q), r')
      else ((add (mul (Zpos (XO XH)) q) (Zpos XH)), (sub r' b))
    | XH -> if leb (Zpos (XO XH)) b then (Z0, (Zpos XH)) else ((Zpos XH), Z0)

  (** val div_eucl : z -> z -> z * z **)

  let div_eucl a b =
    match a with
    | Z0 -> (Z0, Z0)
    | Zpos a' ->
      (match b with
       | Z0 -> (Z0, a)
       | Zpos _ -> pos_div_eucl a' b
       | Zneg b' ->
         let (q, r) = pos_div_eucl a' (Zpos b') in
         (match r with
          | Z0 -> ((opp q), Z0)
          | _ -> ((opp (add q (Zpos XH))), (add b r))))
    | Zneg a' ->
      (match b with
       | Z0 -> (Z0, a)
       | Zpos _ ->
         let (q, r) = pos_div_eucl a' b in
         (match r with
          | Z0 -> ((opp q), Z0)
          | _ -> ((opp (add q (Zpos XH))), (sub b r)))
       | Zneg b' -> let (q, r) = pos_div_eucl a' (Zpos b') in (q, (opp r)))

  (** val modulo : z -> z -> z **)

  let modulo a b =
    let (_, r) = div_eucl a b in r
 end

(** val warc_kRead : n **)

let warc_kRead =
  Npos (XO (XO (XO (XO (XO (XO (XO (XO (XO (XO (XO (XO XH))))))))))))

(** val warc_version : z list **)

let warc_version =
  (Zpos (XI (XI (XI (XO (XI (XO XH))))))) :: ((Zpos (XI (XO (XO (XO (XO (XO
    XH))))))) :: ((Zpos (XO (XI (XO (XO (XI (XO XH))))))) :: ((Zpos (XI (XI
    (XO (XO (XO (XO XH))))))) :: ((Zpos (XI (XI (XI (XI (XO
    XH)))))) :: ((Zpos (XI (XO (XO (XO (XI XH)))))) :: ((Zpos (XO (XI (XI (XI
    (XO XH)))))) :: ((Zpos (XO (XO (XO (XO (XI XH)))))) :: [])))))))

(** val warc_cl_name : z list **)

let warc_cl_name =
  (Zpos (XI (XI (XO (XO (XO (XO XH))))))) :: ((Zpos (XI (XI (XI (XI (XO (XI
    XH))))))) :: ((Zpos (XO (XI (XI (XI (XO (XI XH))))))) :: ((Zpos (XO (XO
    (XI (XO (XI (XI XH))))))) :: ((Zpos (XI (XO (XI (XO (XO (XI
    XH))))))) :: ((Zpos (XO (XI (XI (XI (XO (XI XH))))))) :: ((Zpos (XO (XO
    (XI (XO (XI (XI XH))))))) :: ((Zpos (XI (XO (XI (XI (XO
    XH)))))) :: ((Zpos (XO (XO (XI (XI (XO (XO XH))))))) :: ((Zpos (XI (XO
    (XI (XO (XO (XI XH))))))) :: ((Zpos (XO (XI (XI (XI (XO (XI
    XH))))))) :: ((Zpos (XI (XI (XI (XO (XO (XI XH))))))) :: ((Zpos (XO (XO
    (XI (XO (XI (XI XH))))))) :: ((Zpos (XO (XO (XO (XI (XO (XI
    XH))))))) :: ((Zpos (XO (XI (XO (XI (XI XH)))))) :: []))))))))))))))

(** val warc_trailer : z list **)

let warc_trailer =
  (Zpos (XI (XO (XI XH)))) :: ((Zpos (XO (XI (XO XH)))) :: ((Zpos (XI (XO (XI
    XH)))) :: ((Zpos (XO (XI (XO XH)))) :: [])))

(** val warc_trailer_len : n **)

let warc_trailer_len =
  Npos (XO (XO XH))

(** val warc_reject_negative : bool **)

let warc_reject_negative =
  true

(** val warc_reject_nodigit : bool **)

let warc_reject_nodigit =
  true

(** val warc_overhang_le : bool **)

let warc_overhang_le =
  false

(** val kMagicSize : n **)

let kMagicSize =
  Npos (XO (XI XH))

(** val kInputBuffer : n **)

let kInputBuffer =
  Npos (XO (XO (XO (XO (XO (XO (XO (XO (XO (XO (XO (XO (XO (XO
    XH))))))))))))))

(** val kSizeMax : n **)

let kSizeMax =
  Npos (XI (XI (XI (XI (XI (XI (XI (XI (XI (XI (XI (XI (XI (XI (XI (XI (XI
    (XI (XI (XI (XI (XI (XI (XI (XI (XI (XI (XI (XI (XI (XI
    XH)))))))))))))))))))))))))))))))

(** val bz_read_stall_check : bool **)

let bz_read_stall_check =
  true

(** val gz_magic : z list **)

let gz_magic =
  (Zpos (XI (XI (XI (XI XH))))) :: ((Zpos (XI (XI (XO (XI (XO (XO (XO
    XH)))))))) :: [])

(** val bz_magic : z list **)

let bz_magic =
  (Zpos (XO (XI (XO (XO (XO (XO XH))))))) :: ((Zpos (XO (XI (XO (XI (XI (XO
    XH))))))) :: ((Zpos (XO (XO (XO (XI (XO (XI XH))))))) :: []))

(** val xz_magic : z list **)

let xz_magic =
  (Zpos (XI (XO (XI (XI (XI (XI (XI XH)))))))) :: ((Zpos (XI (XI (XI (XO (XI
    XH)))))) :: ((Zpos (XO (XI (XO (XI (XI (XI XH))))))) :: ((Zpos (XO (XO
    (XO (XI (XI (XO XH))))))) :: ((Zpos (XO (XI (XO (XI (XI (XO
    XH))))))) :: (Z0 :: [])))))

(** val bZ_STREAM_END : z **)

let bZ_STREAM_END =
  Zpos (XO (XO XH))

(** val lZMA_FINISH : z **)

let lZMA_FINISH =
  Zpos (XI XH)

(** val lZMA_RUN : z **)

let lZMA_RUN =
  Z0

(** val lZMA_STREAM_END : z **)

let lZMA_STREAM_END =
  Zpos XH

(** val gz_read_continue : z list **)

let gz_read_continue =
  Z0 :: []

(** val gz_read_end : z list **)

let gz_read_end =
  (Zpos XH) :: []

(** val bz_fine : z list **)

let bz_fine =
  Z0 :: ((Zpos XH) :: [])

(** val xz_fine : z list **)

let xz_fine =
  Z0 :: []

(** val len : 'a1 list -> n **)

let len l =
  N.of_nat (length l)

(** val takeN : n -> 'a1 list -> 'a1 list **)

let takeN n0 l =
  firstn (N.to_nat n0) l

(** val dropN : n -> 'a1 list -> 'a1 list **)

let dropN n0 l =
  skipn (N.to_nat n0) l

(** val is_nil : 'a1 list -> bool **)

let is_nil = function
| [] -> true
| _ :: _ -> false

type kind =
| KGz
| KBz
| KXz

(** val mem : z -> z list -> bool **)

let mem x l =
  existsb (Z.eqb x) l

(** val starts_with : z list -> z list -> bool **)

let rec starts_with p l =
  match p with
  | [] -> true
  | a :: p' ->
    (match l with
     | [] -> false
     | b :: l' -> (&&) (Z.eqb a b) (starts_with p' l'))

(** val detect_magic : z list -> kind option **)

let detect_magic h =
  if starts_with gz_magic h
  then Some KGz
  else if starts_with bz_magic h
       then Some KBz
       else if starts_with xz_magic h then Some KXz else None

type frags = z list list

(** val partial_read : frags -> n -> z list * frags **)

let rec partial_read f n0 =
  match f with
  | [] -> ([], [])
  | fr :: r ->
    (match fr with
     | [] -> partial_read r n0
     | _ :: _ ->
       if N.ltb n0 (len fr)
       then ((takeN n0 fr), ((dropN n0 fr) :: r))
       else (fr, r))

(** val read_or_eof_loop : nat -> frags -> n -> z list * frags **)

let rec read_or_eof_loop fuel f n0 =
  match fuel with
  | O -> ([], f)
  | S k ->
    if N.eqb n0 N0
    then ([], f)
    else let (got, f') = partial_read f n0 in
         (match got with
          | [] -> ([], f')
          | _ :: _ ->
            let (more, f'') = read_or_eof_loop k f' (N.sub n0 (len got)) in
            ((app got more), f''))

(** val read_or_eof : frags -> n -> z list * frags **)

let read_or_eof f n0 =
  read_or_eof_loop (N.to_nat n0) f n0

type 's cres = { c_st : 's; c_used : n; c_out : z list; c_rc : z }

type pstep =
| PContinue
| PEnd
| PThrow

(** val process_read : kind -> z -> bool -> bool -> pstep **)

let process_read k rc no_input no_output =
  match k with
  | KGz ->
    if mem rc gz_read_continue
    then PContinue
    else if mem rc gz_read_end then PEnd else PThrow
  | KBz ->
    if Z.eqb rc bZ_STREAM_END
    then PEnd
    else if mem rc bz_fine
         then if (&&) ((&&) bz_read_stall_check no_input) no_output
              then PThrow
              else PContinue
         else PThrow
  | KXz ->
    if Z.eqb rc lZMA_STREAM_END
    then PEnd
    else if mem rc xz_fine then PContinue else PThrow

(** val read_action : kind -> bool -> z **)

let read_action k fin =
  match k with
  | KXz -> if fin then lZMA_FINISH else lZMA_RUN
  | _ -> Z0

type rerr =
| EGz
| EBz
| EXz
| ECompressed
| EHang

(** val err_of : kind -> rerr **)

let err_of = function
| KGz -> EGz
| KBz -> EBz
| KXz -> EXz

type 'dstate reader =
| RComplete
| RPlain
| RHeader of z list
| RStream of kind * 'dstate * z list * bool

type ('world, 'dstate) rstate = { r_file : frags; r_world : 'world;
                                  r_rd : 'dstate reader }

type ('world, 'dstate) rres =
| ROk of z list * ('world, 'dstate) rstate
| RErr of rerr

(** val read_factory :
    ('a1 -> kind -> 'a2 * 'a1) -> frags -> 'a1 -> z list -> bool -> (('a2
    reader * frags) * 'a1) option **)

let read_factory dnew f w already require =
  if N.ltb (len already) kMagicSize
  then let (got, f') = read_or_eof f (N.sub kMagicSize (len already)) in
       let header = app already got in
       (match header with
        | [] -> Some ((RComplete, f'), w)
        | _ :: _ ->
          (match detect_magic header with
           | Some k ->
             let (st, w') = dnew w k in
             Some (((RStream (k, st, header, false)), f'), w')
           | None ->
             if require then None else Some (((RHeader header), f'), w)))
  else (match already with
        | [] -> Some ((RComplete, f), w)
        | _ :: _ ->
          (match detect_magic already with
           | Some k ->
             let (st, w') = dnew w k in
             Some (((RStream (k, st, already, false)), f), w')
           | None ->
             if require then None else Some (((RHeader already), f), w)))

(** val rd :
    ('a1 -> kind -> 'a2 * 'a1) -> (kind -> 'a2 -> z -> z list -> n -> 'a2
    cres) -> nat -> ('a1, 'a2) rstate -> n -> ('a1, 'a2) rres **)

let rec rd dnew dcall fuel s amount =
  match s.r_rd with
  | RComplete -> ROk ([], s)
  | RPlain ->
    let (got, f') = partial_read s.r_file amount in
    ROk (got, { r_file = f'; r_world = s.r_world; r_rd = RPlain })
  | RHeader buf ->
    let sending = N.min amount (len buf) in
    let rest = dropN sending buf in
    ROk ((takeN sending buf), { r_file = s.r_file; r_world = s.r_world;
    r_rd = (match rest with
            | [] -> RPlain
            | _ :: _ -> RHeader rest) })
  | RStream (k, st, inbuf, fin) ->
    if N.eqb amount N0
    then ROk ([], s)
    else (match fuel with
          | O -> RErr EHang
          | S fuel' ->
            (match inbuf with
             | [] ->
               let (got, f') = read_or_eof s.r_file kInputBuffer in
               let p = (got, f') in
               let fin1 =
                 (||) fin (match k with
                           | KXz -> is_nil got
                           | _ -> false)
               in
               let (inbuf1, f1) = p in
               let cap =
                 match k with
                 | KXz -> amount
                 | _ -> N.min kSizeMax amount
               in
               let r = dcall k st (read_action k fin1) inbuf1 cap in
               let inbuf2 = dropN r.c_used inbuf1 in
               let out = r.c_out in
               (match process_read k r.c_rc (is_nil inbuf1) (is_nil out) with
                | PContinue ->
                  let s1 = { r_file = f1; r_world = s.r_world; r_rd =
                    (RStream (k, r.c_st, inbuf2, fin1)) }
                  in
                  (match out with
                   | [] -> rd dnew dcall fuel' s1 amount
                   | _ :: _ -> ROk (out, s1))
                | PEnd ->
                  (match read_factory dnew f1 s.r_world inbuf2 true with
                   | Some p0 ->
                     let (p1, w2) = p0 in
                     let (rdr, f2) = p1 in
                     let s2 = { r_file = f2; r_world = w2; r_rd = rdr } in
                     (match out with
                      | [] -> rd dnew dcall fuel' s2 amount
                      | _ :: _ -> ROk (out, s2))
                   | None -> RErr ECompressed)
                | PThrow -> RErr (err_of k))
             | _ :: _ ->
               let p = (inbuf, s.r_file) in
               let (inbuf1, f1) = p in
               let cap =
                 match k with
                 | KXz -> amount
                 | _ -> N.min kSizeMax amount
               in
               let r = dcall k st (read_action k fin) inbuf1 cap in
               let inbuf2 = dropN r.c_used inbuf1 in
               let out = r.c_out in
               (match process_read k r.c_rc (is_nil inbuf1) (is_nil out) with
                | PContinue ->
                  let s1 = { r_file = f1; r_world = s.r_world; r_rd =
                    (RStream (k, r.c_st, inbuf2, fin)) }
                  in
                  (match out with
                   | [] -> rd dnew dcall fuel' s1 amount
                   | _ :: _ -> ROk (out, s1))
                | PEnd ->
                  (match read_factory dnew f1 s.r_world inbuf2 true with
                   | Some p0 ->
                     let (p1, w2) = p0 in
                     let (rdr, f2) = p1 in
                     let s2 = { r_file = f2; r_world = w2; r_rd = rdr } in
                     (match out with
                      | [] -> rd dnew dcall fuel' s2 amount
                      | _ :: _ -> ROk (out, s2))
                   | None -> RErr ECompressed)
                | PThrow -> RErr (err_of k))))

(** val rc_open :
    ('a1 -> kind -> 'a2 * 'a1) -> frags -> 'a1 -> ('a1, 'a2) rstate option **)

let rc_open dnew f w =
  match read_factory dnew f w [] false with
  | Some p ->
    let (p0, w1) = p in
    let (rdr, f1) = p0 in Some { r_file = f1; r_world = w1; r_rd = rdr }
  | None -> None

type werr =
| WEof
| WFormat
| WLength
| WReader
| WHang

(** val is_space : z -> bool **)

let is_space b =
  (||) (Z.eqb b (Zpos (XO (XO (XO (XO (XO XH)))))))
    ((&&) (Z.leb (Zpos (XI (XO (XO XH)))) b)
      (Z.leb b (Zpos (XI (XO (XI XH))))))

(** val is_digit : z -> bool **)

let is_digit b =
  (&&) (Z.leb (Zpos (XO (XO (XO (XO (XI XH)))))) b)
    (Z.leb b (Zpos (XI (XO (XO (XI (XI XH)))))))

(** val skip_space : z list -> nat -> z list * nat **)

let rec skip_space l n0 =
  match l with
  | [] -> ([], n0)
  | b :: r -> if is_space b then skip_space r (S n0) else (l, n0)

(** val scan_digits : z list -> z -> nat -> z * nat **)

let rec scan_digits l acc cnt =
  match l with
  | [] -> (acc, cnt)
  | b :: r ->
    if is_digit b
    then scan_digits r
           (Z.add (Z.mul acc (Zpos (XO (XI (XO XH)))))
             (Z.sub b (Zpos (XO (XO (XO (XO (XI XH)))))))) (S cnt)
    else (acc, cnt)

(** val llong_max : z **)

let llong_max =
  Zpos (XI (XI (XI (XI (XI (XI (XI (XI (XI (XI (XI (XI (XI (XI (XI (XI (XI
    (XI (XI (XI (XI (XI (XI (XI (XI (XI (XI (XI (XI (XI (XI (XI (XI (XI (XI
    (XI (XI (XI (XI (XI (XI (XI (XI (XI (XI (XI (XI (XI (XI (XI (XI (XI (XI
    (XI (XI (XI (XI (XI (XI (XI (XI (XI
    XH))))))))))))))))))))))))))))))))))))))))))))))))))))))))))))))

(** val llong_min : z **)

let llong_min =
  Zneg (XO (XO (XO (XO (XO (XO (XO (XO (XO (XO (XO (XO (XO (XO (XO (XO (XO
    (XO (XO (XO (XO (XO (XO (XO (XO (XO (XO (XO (XO (XO (XO (XO (XO (XO (XO
    (XO (XO (XO (XO (XO (XO (XO (XO (XO (XO (XO (XO (XO (XO (XO (XO (XO (XO
    (XO (XO (XO (XO (XO (XO (XO (XO (XO (XO
    XH)))))))))))))))))))))))))))))))))))))))))))))))))))))))))))))))

(** val clamp_ll : z -> z **)

let clamp_ll v =
  if Z.gtb v llong_max
  then llong_max
  else if Z.ltb v llong_min then llong_min else v

(** val strtoll : z list -> z * nat **)

let strtoll l =
  let (l1, n1) = skip_space l O in
  (match l1 with
   | [] ->
     let p = (false, l1) in
     let (neg, l2) = p in
     let (v, cnt) = scan_digits l2 Z0 O in
     (match cnt with
      | O -> (Z0, O)
      | S _ -> ((clamp_ll (if neg then Z.opp v else v)), (add n1 cnt)))
   | z0 :: r ->
     (match z0 with
      | Zpos p ->
        (match p with
         | XI p0 ->
           (match p0 with
            | XI p1 ->
              (match p1 with
               | XO p2 ->
                 (match p2 with
                  | XI p3 ->
                    (match p3 with
                     | XO p4 ->
                       (match p4 with
                        | XH ->
                          let p5 = (false, r) in
                          let n2 = S n1 in
                          let (neg, l2) = p5 in
                          let (v, cnt) = scan_digits l2 Z0 O in
                          (match cnt with
                           | O -> (Z0, O)
                           | S _ ->
                             ((clamp_ll (if neg then Z.opp v else v)),
                               (add n2 cnt)))
                        | _ ->
                          let p5 = (false, l1) in
                          let (neg, l2) = p5 in
                          let (v, cnt) = scan_digits l2 Z0 O in
                          (match cnt with
                           | O -> (Z0, O)
                           | S _ ->
                             ((clamp_ll (if neg then Z.opp v else v)),
                               (add n1 cnt))))
                     | _ ->
                       let p4 = (false, l1) in
                       let (neg, l2) = p4 in
                       let (v, cnt) = scan_digits l2 Z0 O in
                       (match cnt with
                        | O -> (Z0, O)
                        | S _ ->
                          ((clamp_ll (if neg then Z.opp v else v)),
                            (add n1 cnt))))
                  | _ ->
                    let p3 = (false, l1) in
                    let (neg, l2) = p3 in
                    let (v, cnt) = scan_digits l2 Z0 O in
                    (match cnt with
                     | O -> (Z0, O)
                     | S _ ->
                       ((clamp_ll (if neg then Z.opp v else v)), (add n1 cnt))))
               | _ ->
                 let p2 = (false, l1) in
                 let (neg, l2) = p2 in
                 let (v, cnt) = scan_digits l2 Z0 O in
                 (match cnt with
                  | O -> (Z0, O)
                  | S _ ->
                    ((clamp_ll (if neg then Z.opp v else v)), (add n1 cnt))))
            | XO p1 ->
              (match p1 with
               | XI p2 ->
                 (match p2 with
                  | XI p3 ->
                    (match p3 with
                     | XO p4 ->
                       (match p4 with
                        | XH ->
                          let p5 = (true, r) in
                          let n2 = S n1 in
                          let (neg, l2) = p5 in
                          let (v, cnt) = scan_digits l2 Z0 O in
                          (match cnt with
                           | O -> (Z0, O)
                           | S _ ->
                             ((clamp_ll (if neg then Z.opp v else v)),
                               (add n2 cnt)))
                        | _ ->
                          let p5 = (false, l1) in
                          let (neg, l2) = p5 in
                          let (v, cnt) = scan_digits l2 Z0 O in
                          (match cnt with
                           | O -> (Z0, O)
                           | S _ ->
                             ((clamp_ll (if neg then Z.opp v else v)),
                               (add n1 cnt))))
                     | _ ->
                       let p4 = (false, l1) in
                       let (neg, l2) = p4 in
                       let (v, cnt) = scan_digits l2 Z0 O in
                       (match cnt with
                        | O -> (Z0, O)
                        | S _ ->
                          ((clamp_ll (if neg then Z.opp v else v)),
                            (add n1 cnt))))
                  | _ ->
                    let p3 = (false, l1) in
                    let (neg, l2) = p3 in
                    let (v, cnt) = scan_digits l2 Z0 O in
                    (match cnt with
                     | O -> (Z0, O)
                     | S _ ->
                       ((clamp_ll (if neg then Z.opp v else v)), (add n1 cnt))))
               | _ ->
                 let p2 = (false, l1) in
                 let (neg, l2) = p2 in
                 let (v, cnt) = scan_digits l2 Z0 O in
                 (match cnt with
                  | O -> (Z0, O)
                  | S _ ->
                    ((clamp_ll (if neg then Z.opp v else v)), (add n1 cnt))))
            | XH ->
              let p1 = (false, l1) in
              let (neg, l2) = p1 in
              let (v, cnt) = scan_digits l2 Z0 O in
              (match cnt with
               | O -> (Z0, O)
               | S _ ->
                 ((clamp_ll (if neg then Z.opp v else v)), (add n1 cnt))))
         | _ ->
           let p0 = (false, l1) in
           let (neg, l2) = p0 in
           let (v, cnt) = scan_digits l2 Z0 O in
           (match cnt with
            | O -> (Z0, O)
            | S _ -> ((clamp_ll (if neg then Z.opp v else v)), (add n1 cnt))))
      | _ ->
        let p = (false, l1) in
        let (neg, l2) = p in
        let (v, cnt) = scan_digits l2 Z0 O in
        (match cnt with
         | O -> (Z0, O)
         | S _ -> ((clamp_ll (if neg then Z.opp v else v)), (add n1 cnt)))))

(** val lower : z -> z **)

let lower b =
  if (&&) (Z.leb (Zpos (XI (XO (XO (XO (XO (XO XH))))))) b)
       (Z.leb b (Zpos (XO (XI (XO (XI (XI (XO XH))))))))
  then Z.add b (Zpos (XO (XO (XO (XO (XO XH))))))
  else b

(** val ci_prefix : z list -> z list -> bool **)

let rec ci_prefix p l =
  match p with
  | [] -> true
  | a :: p' ->
    (match l with
     | [] -> false
     | b :: l' -> (&&) (Z.eqb (lower a) (lower b)) (ci_prefix p' l'))

(** val find_nl : z list -> nat -> nat option **)

let rec find_nl l i =
  match l with
  | [] -> None
  | b :: r ->
    if Z.eqb b (Zpos (XO (XI (XO XH)))) then Some i else find_nl r (S i)

(** val find_from : z list -> nat -> nat option **)

let find_from out start =
  find_nl (skipn start out) start

(** val strip_cr_end : z list -> z list **)

let strip_cr_end l =
  match rev l with
  | [] -> l
  | z0 :: r ->
    (match z0 with
     | Zpos p ->
       (match p with
        | XI p0 ->
          (match p0 with
           | XO p1 ->
             (match p1 with
              | XI p2 -> (match p2 with
                          | XH -> rev r
                          | _ -> l)
              | _ -> l)
           | _ -> l)
        | _ -> l)
     | _ -> l)

(** val list_eqb : z list -> z list -> bool **)

let rec list_eqb a b =
  match a with
  | [] -> (match b with
           | [] -> true
           | _ :: _ -> false)
  | x :: a' ->
    (match b with
     | [] -> false
     | y :: b' -> (&&) (Z.eqb x y) (list_eqb a' b'))

(** val size_max : z **)

let size_max =
  Zpos (XO (XO (XO (XO (XO (XO (XO (XO (XO (XO (XO (XO (XO (XO (XO (XO (XO
    (XO (XO (XO (XO (XO (XO (XO (XO (XO (XO (XO (XO (XO (XO (XO (XO (XO (XO
    (XO (XO (XO (XO (XO (XO (XO (XO (XO (XO (XO (XO (XO (XO (XO (XO (XO (XO
    (XO (XO (XO (XO (XO (XO (XO (XO (XO (XO (XO
    XH))))))))))))))))))))))))))))))))))))))))))))))))))))))))))))))))

(** val alloc_limit : z **)

let alloc_limit =
  Zpos (XO (XO (XO (XO (XO (XO (XO (XO (XO (XO (XO (XO (XO (XO (XO (XO (XO
    (XO (XO (XO (XO (XO (XO (XO (XO (XO (XO (XO (XO (XO (XO (XO (XO (XO (XO
    (XO (XO (XO (XO (XO (XO (XO (XO (XO (XO (XO
    XH))))))))))))))))))))))))))))))))))))))))))))))

(** val overhang_test : z -> z -> bool **)

let overhang_test total size =
  if warc_overhang_le then Z.leb total size else Z.ltb total size

type 'rstate more_res =
| MoreOk of z list * 'rstate
| MoreEnd of 'rstate
| MoreErr of werr

(** val read_more :
    ('a1 -> n -> (z list * 'a1) option) -> 'a1 -> z list -> 'a1 more_res **)

let read_more rread rs out =
  match rread rs warc_kRead with
  | Some p ->
    let (got, rs') = p in
    (match got with
     | [] -> (match out with
              | [] -> MoreEnd rs'
              | _ :: _ -> MoreErr WEof)
     | _ :: _ -> MoreOk ((app out got), rs'))
  | None -> MoreErr WReader

type 'rstate line_res =
| LineOk of z list * nat * z list * 'rstate
| LineEnd of 'rstate
| LineErr of werr

(** val hline :
    ('a1 -> n -> (z list * 'a1) option) -> nat -> 'a1 -> z list -> nat -> nat
    -> 'a1 line_res **)

let rec hline rread fuel rs out consumed nstart =
  match find_from out nstart with
  | Some nl ->
    LineOk ((strip_cr_end (firstn (sub nl consumed) (skipn consumed out))),
      (S nl), out, rs)
  | None ->
    (match fuel with
     | O -> LineErr WHang
     | S f ->
       (match read_more rread rs out with
        | MoreOk (out', rs') -> hline rread f rs' out' consumed (length out)
        | MoreEnd rs' -> LineEnd rs'
        | MoreErr e -> LineErr e))

type 'rstate hdr_res =
| HdrOk of 'rstate * z list * nat * z
| HdrErr of werr

(** val is_content_length : z list -> bool **)

let is_content_length line =
  (&&) (Nat.leb (length warc_cl_name) (length line))
    (ci_prefix warc_cl_name line)

(** val header_loop :
    ('a1 -> n -> (z list * 'a1) option) -> nat -> nat -> 'a1 -> z list -> nat
    -> z list -> bool -> z -> 'a1 hdr_res **)

let rec header_loop rread fuel lfuel rs out consumed line seen length_ =
  match line with
  | [] -> if seen then HdrOk (rs, out, consumed, length_) else HdrErr WFormat
  | _ :: _ ->
    (match fuel with
     | O -> HdrErr WHang
     | S f ->
       (match hline rread lfuel rs out consumed consumed with
        | LineOk (line', consumed', out', rs') ->
          if is_content_length line'
          then if seen
               then HdrErr WFormat
               else let namelen = length warc_cl_name in
                    let (v, used) =
                      strtoll (skipn (add consumed namelen) out')
                    in
                    if (||) ((&&) warc_reject_nodigit (Nat.eqb used O))
                         (negb (Nat.eqb used (sub (length line') namelen)))
                    then HdrErr WFormat
                    else if (&&) warc_reject_negative (Z.ltb v Z0)
                         then HdrErr WFormat
                         else header_loop rread f lfuel rs' out' consumed'
                                line' true v
          else header_loop rread f lfuel rs' out' consumed' line' seen length_
        | LineEnd _ -> HdrErr WEof
        | LineErr e -> HdrErr e))

type 'rstate rec_res =
| RecOk of z list * 'rstate * z list
| RecEnd
| RecErr of werr

(** val read_exact :
    ('a1 -> n -> (z list * 'a1) option) -> nat -> 'a1 -> z list -> z -> (z
    list * 'a1, werr) sum **)

let rec read_exact rread fuel rs out total =
  if Z.eqb (Z.of_nat (length out)) total
  then Inl (out, rs)
  else (match fuel with
        | O -> Inr WHang
        | S f ->
          (match rread rs (Z.to_N (Z.sub total (Z.of_nat (length out)))) with
           | Some p ->
             let (got, rs') = p in
             (match got with
              | [] -> Inr WEof
              | _ :: _ -> read_exact rread f rs' (app out got) total)
           | None -> Inr WReader))

(** val warc_read :
    ('a1 -> n -> (z list * 'a1) option) -> nat -> 'a1 -> z list -> 'a1 rec_res **)

let warc_read rread fuel rs overhang =
  match hline rread fuel rs overhang O O with
  | LineOk (line, consumed, out, rs1) ->
    if negb (list_eqb line warc_version)
    then RecErr WFormat
    else (match header_loop rread fuel fuel rs1 out consumed line false Z0 with
          | HdrOk (rs2, out2, consumed2, len0) ->
            let total =
              Z.modulo
                (Z.add (Z.add (Z.of_nat consumed2) (Z.modulo len0 size_max))
                  (Z.of_N warc_trailer_len)) size_max
            in
            if overhang_test total (Z.of_nat (length out2))
            then let rec0 = firstn (Z.to_nat total) out2 in
                 if list_eqb
                      (skipn (sub (length rec0) (N.to_nat warc_trailer_len))
                        rec0) warc_trailer
                 then RecOk (rec0, rs2, (skipn (Z.to_nat total) out2))
                 else RecErr WFormat
            else if Z.geb total alloc_limit
                 then RecErr WLength
                 else (match read_exact rread fuel rs2 out2 total with
                       | Inl p ->
                         let (rec0, rs3) = p in
                         if list_eqb
                              (skipn
                                (sub (length rec0)
                                  (N.to_nat warc_trailer_len)) rec0)
                              warc_trailer
                         then RecOk (rec0, rs3, [])
                         else RecErr WFormat
                       | Inr e -> RecErr e)
          | HdrErr e -> RecErr e)
  | LineEnd _ -> RecEnd
  | LineErr e -> RecErr e

type all_res =
| AllOk of z list list
| AllErr of werr * z list list

(** val warc_read_all :
    ('a1 -> n -> (z list * 'a1) option) -> nat -> nat -> 'a1 -> z list ->
    all_res **)

let rec warc_read_all rread n0 fuel rs overhang =
  match n0 with
  | O -> AllErr (WHang, [])
  | S n' ->
    (match warc_read rread fuel rs overhang with
     | RecOk (rec0, rs', ov) ->
       (match warc_read_all rread n' fuel rs' ov with
        | AllOk l -> AllOk (rec0 :: l)
        | AllErr (e, l) -> AllErr (e, (rec0 :: l)))
     | RecEnd -> AllOk []
     | RecErr e -> AllErr (e, []))

(** val no_codec_new : unit -> kind -> unit * unit **)

let no_codec_new _ _ =
  ((), ())

(** val no_codec_call : kind -> unit -> z -> z list -> n -> unit cres **)

let no_codec_call _ _ _ _ _ =
  { c_st = (); c_used = N0; c_out = []; c_rc = (Zneg (XO (XO (XI (XO (XO (XI
    XH))))))) }

(** val rc_read :
    (unit, unit) rstate -> n -> (z list * (unit, unit) rstate) option **)

let rc_read s n0 =
  match rd no_codec_new no_codec_call (S O) s n0 with
  | ROk (out, s') -> Some (out, s')
  | RErr _ -> None

(** val warc_file : nat -> nat -> frags -> all_res **)

let warc_file n0 fuel f =
  match rc_open no_codec_new f () with
  | Some s -> warc_read_all rc_read n0 fuel s []
  | None -> AllErr (WReader, [])
