
(** val negb : bool -> bool **)

let negb = function
| true -> false
| false -> true

type nat =
| O
| S of nat

(** val length : 'a1 list -> nat **)

let rec length = function
| [] -> O
| _ :: l' -> S (length l')

(** val app : 'a1 list -> 'a1 list -> 'a1 list **)

let rec app l m =
  match l with
  | [] -> m
  | a :: l1 -> a :: (app l1 m)

type uint =
| Nil
| D0 of uint
| D1 of uint
| D2 of uint
| D3 of uint
| D4 of uint
| D5 of uint
| D6 of uint
| D7 of uint
| D8 of uint
| D9 of uint

type uint0 =
| Nil0
| D10 of uint0
| D11 of uint0
| D12 of uint0
| D13 of uint0
| D14 of uint0
| D15 of uint0
| D16 of uint0
| D17 of uint0
| D18 of uint0
| D19 of uint0
| Da of uint0
| Db of uint0
| Dc of uint0
| Dd of uint0
| De of uint0
| Df of uint0

type uint1 =
| UIntDecimal of uint
| UIntHexadecimal of uint0

module Coq__1 = struct
 (** val add : nat -> nat -> nat **)
 let rec add n0 m =
   match n0 with
   | O -> m
   | S p -> S (add p m)
end
include Coq__1

(** val sub : nat -> nat -> nat **)

let rec sub n0 m =
  match n0 with
  | O -> n0
  | S k -> (match m with
            | O -> n0
            | S l -> sub k l)

(** val tail_add : nat -> nat -> nat **)

let rec tail_add n0 m =
  match n0 with
  | O -> m
  | S n1 -> tail_add n1 (S m)

(** val tail_addmul : nat -> nat -> nat -> nat **)

let rec tail_addmul r n0 m =
  match n0 with
  | O -> r
  | S n1 -> tail_addmul (tail_add m r) n1 m

(** val tail_mul : nat -> nat -> nat **)

let tail_mul n0 m =
  tail_addmul O n0 m

(** val of_uint_acc : uint -> nat -> nat **)

let rec of_uint_acc d acc =
  match d with
  | Nil -> acc
  | D0 d0 ->
    of_uint_acc d0 (tail_mul (S (S (S (S (S (S (S (S (S (S O)))))))))) acc)
  | D1 d0 ->
    of_uint_acc d0 (S
      (tail_mul (S (S (S (S (S (S (S (S (S (S O)))))))))) acc))
  | D2 d0 ->
    of_uint_acc d0 (S (S
      (tail_mul (S (S (S (S (S (S (S (S (S (S O)))))))))) acc)))
  | D3 d0 ->
    of_uint_acc d0 (S (S (S
      (tail_mul (S (S (S (S (S (S (S (S (S (S O)))))))))) acc))))
  | D4 d0 ->
    of_uint_acc d0 (S (S (S (S
      (tail_mul (S (S (S (S (S (S (S (S (S (S O)))))))))) acc)))))
  | D5 d0 ->
    of_uint_acc d0 (S (S (S (S (S
      (tail_mul (S (S (S (S (S (S (S (S (S (S O)))))))))) acc))))))
  | D6 d0 ->
    of_uint_acc d0 (S (S (S (S (S (S
      (tail_mul (S (S (S (S (S (S (S (S (S (S O)))))))))) acc)))))))
  | D7 d0 ->
    of_uint_acc d0 (S (S (S (S (S (S (S
      (tail_mul (S (S (S (S (S (S (S (S (S (S O)))))))))) acc))))))))
  | D8 d0 ->
    of_uint_acc d0 (S (S (S (S (S (S (S (S
      (tail_mul (S (S (S (S (S (S (S (S (S (S O)))))))))) acc)))))))))
  | D9 d0 ->
    of_uint_acc d0 (S (S (S (S (S (S (S (S (S
      (tail_mul (S (S (S (S (S (S (S (S (S (S O)))))))))) acc))))))))))

(** val of_uint : uint -> nat **)

let of_uint d =
  of_uint_acc d O

(** val of_hex_uint_acc : uint0 -> nat -> nat **)

let rec of_hex_uint_acc d acc =
  match d with
  | Nil0 -> acc
  | D10 d0 ->
    of_hex_uint_acc d0
      (tail_mul (S (S (S (S (S (S (S (S (S (S (S (S (S (S (S (S
        O)))))))))))))))) acc)
  | D11 d0 ->
    of_hex_uint_acc d0 (S
      (tail_mul (S (S (S (S (S (S (S (S (S (S (S (S (S (S (S (S
        O)))))))))))))))) acc))
  | D12 d0 ->
    of_hex_uint_acc d0 (S (S
      (tail_mul (S (S (S (S (S (S (S (S (S (S (S (S (S (S (S (S
        O)))))))))))))))) acc)))
  | D13 d0 ->
    of_hex_uint_acc d0 (S (S (S
      (tail_mul (S (S (S (S (S (S (S (S (S (S (S (S (S (S (S (S
        O)))))))))))))))) acc))))
  | D14 d0 ->
    of_hex_uint_acc d0 (S (S (S (S
      (tail_mul (S (S (S (S (S (S (S (S (S (S (S (S (S (S (S (S
        O)))))))))))))))) acc)))))
  | D15 d0 ->
    of_hex_uint_acc d0 (S (S (S (S (S
      (tail_mul (S (S (S (S (S (S (S (S (S (S (S (S (S (S (S (S
        O)))))))))))))))) acc))))))
  | D16 d0 ->
    of_hex_uint_acc d0 (S (S (S (S (S (S
      (tail_mul (S (S (S (S (S (S (S (S (S (S (S (S (S (S (S (S
        O)))))))))))))))) acc)))))))
  | D17 d0 ->
    of_hex_uint_acc d0 (S (S (S (S (S (S (S
      (tail_mul (S (S (S (S (S (S (S (S (S (S (S (S (S (S (S (S
        O)))))))))))))))) acc))))))))
  | D18 d0 ->
    of_hex_uint_acc d0 (S (S (S (S (S (S (S (S
      (tail_mul (S (S (S (S (S (S (S (S (S (S (S (S (S (S (S (S
        O)))))))))))))))) acc)))))))))
  | D19 d0 ->
    of_hex_uint_acc d0 (S (S (S (S (S (S (S (S (S
      (tail_mul (S (S (S (S (S (S (S (S (S (S (S (S (S (S (S (S
        O)))))))))))))))) acc))))))))))
  | Da d0 ->
    of_hex_uint_acc d0 (S (S (S (S (S (S (S (S (S (S
      (tail_mul (S (S (S (S (S (S (S (S (S (S (S (S (S (S (S (S
        O)))))))))))))))) acc)))))))))))
  | Db d0 ->
    of_hex_uint_acc d0 (S (S (S (S (S (S (S (S (S (S (S
      (tail_mul (S (S (S (S (S (S (S (S (S (S (S (S (S (S (S (S
        O)))))))))))))))) acc))))))))))))
  | Dc d0 ->
    of_hex_uint_acc d0 (S (S (S (S (S (S (S (S (S (S (S (S
      (tail_mul (S (S (S (S (S (S (S (S (S (S (S (S (S (S (S (S
        O)))))))))))))))) acc)))))))))))))
  | Dd d0 ->
    of_hex_uint_acc d0 (S (S (S (S (S (S (S (S (S (S (S (S (S
      (tail_mul (S (S (S (S (S (S (S (S (S (S (S (S (S (S (S (S
        O)))))))))))))))) acc))))))))))))))
  | De d0 ->
    of_hex_uint_acc d0 (S (S (S (S (S (S (S (S (S (S (S (S (S (S
      (tail_mul (S (S (S (S (S (S (S (S (S (S (S (S (S (S (S (S
        O)))))))))))))))) acc)))))))))))))))
  | Df d0 ->
    of_hex_uint_acc d0 (S (S (S (S (S (S (S (S (S (S (S (S (S (S (S
      (tail_mul (S (S (S (S (S (S (S (S (S (S (S (S (S (S (S (S
        O)))))))))))))))) acc))))))))))))))))

(** val of_hex_uint : uint0 -> nat **)

let of_hex_uint d =
  of_hex_uint_acc d O

(** val of_num_uint : uint1 -> nat **)

let of_num_uint = function
| UIntDecimal d0 -> of_uint d0
| UIntHexadecimal d0 -> of_hex_uint d0

module Nat =
 struct
  (** val eqb : nat -> nat -> bool **)

  let rec eqb n0 m =
    match n0 with
    | O -> (match m with
            | O -> true
            | S _ -> false)
    | S n' -> (match m with
               | O -> false
               | S m' -> eqb n' m')

  (** val leb : nat -> nat -> bool **)

  let rec leb n0 m =
    match n0 with
    | O -> true
    | S n' -> (match m with
               | O -> false
               | S m' -> leb n' m')

  (** val ltb : nat -> nat -> bool **)

  let ltb n0 m =
    leb (S n0) m
 end

type positive =
| XI of positive
| XO of positive
| XH

type n =
| N0
| Npos of positive

type z =
| Z0
| Zpos of positive
| Zneg of positive

module Pos =
 struct
  (** val succ : positive -> positive **)

  let rec succ = function
  | XI p -> XO (succ p)
  | XO p -> XI p
  | XH -> XO XH

  (** val add : positive -> positive -> positive **)

  let rec add x y =
    match x with
    | XI p ->
      (match y with
       | XI q -> XO (add_carry p q)
       | XO q -> XI (add p q)
       | XH -> XO (succ p))
    | XO p ->
      (match y with
       | XI q -> XI (add p q)
       | XO q -> XO (add p q)
       | XH -> XI p)
    | XH -> (match y with
             | XI q -> XO (succ q)
             | XO q -> XI q
             | XH -> XO XH)

  (** val add_carry : positive -> positive -> positive **)

  and add_carry x y =
    match x with
    | XI p ->
      (match y with
       | XI q -> XI (add_carry p q)
       | XO q -> XO (add_carry p q)
       | XH -> XI (succ p))
    | XO p ->
      (match y with
       | XI q -> XO (add_carry p q)
       | XO q -> XI (add p q)
       | XH -> XO (succ p))
    | XH ->
      (match y with
       | XI q -> XI (succ q)
       | XO q -> XO (succ q)
       | XH -> XI XH)

  (** val mul : positive -> positive -> positive **)

  let rec mul x y =
    match x with
    | XI p -> add y (XO (mul p y))
    | XO p -> XO (mul p y)
    | XH -> y

  (** val iter_op : ('a1 -> 'a1 -> 'a1) -> positive -> 'a1 -> 'a1 **)

  let rec iter_op op p a =
    match p with
    | XI p0 -> op a (iter_op op p0 (op a a))
    | XO p0 -> iter_op op p0 (op a a)
    | XH -> a

  (** val to_nat : positive -> nat **)

  let to_nat x =
    iter_op Coq__1.add x (S O)

  (** val of_succ_nat : nat -> positive **)

  let rec of_succ_nat = function
  | O -> XH
  | S x -> succ (of_succ_nat x)
 end

module N =
 struct
  (** val add : n -> n -> n **)

  let add n0 m =
    match n0 with
    | N0 -> m
    | Npos p -> (match m with
                 | N0 -> n0
                 | Npos q -> Npos (Pos.add p q))

  (** val mul : n -> n -> n **)

  let mul n0 m =
    match n0 with
    | N0 -> N0
    | Npos p -> (match m with
                 | N0 -> N0
                 | Npos q -> Npos (Pos.mul p q))

  (** val to_nat : n -> nat **)

  let to_nat = function
  | N0 -> O
  | Npos p -> Pos.to_nat p

  (** val of_nat : nat -> n **)

  let of_nat = function
  | O -> N0
  | S n' -> Npos (Pos.of_succ_nat n')
 end

(** val nth_error : 'a1 list -> nat -> 'a1 option **)

let rec nth_error l = function
| O -> (match l with
        | [] -> None
        | x :: _ -> Some x)
| S n1 -> (match l with
           | [] -> None
           | _ :: l0 -> nth_error l0 n1)

(** val existsb : ('a1 -> bool) -> 'a1 list -> bool **)

let rec existsb f = function
| [] -> false
| a :: l0 -> (||) (f a) (existsb f l0)

(** val filter : ('a1 -> bool) -> 'a1 list -> 'a1 list **)

let rec filter f = function
| [] -> []
| x :: l0 -> if f x then x :: (filter f l0) else filter f l0

(** val firstn : nat -> 'a1 list -> 'a1 list **)

let rec firstn n0 l =
  match n0 with
  | O -> []
  | S n1 -> (match l with
             | [] -> []
             | a :: l0 -> a :: (firstn n1 l0))

(** val skipn : nat -> 'a1 list -> 'a1 list **)

let rec skipn n0 l =
  match n0 with
  | O -> l
  | S n1 -> (match l with
             | [] -> []
             | _ :: l0 -> skipn n1 l0)

module Z =
 struct
  (** val opp : z -> z **)

  let opp = function
  | Z0 -> Z0
  | Zpos x0 -> Zneg x0
  | Zneg x0 -> Zpos x0

  (** val to_nat : z -> nat **)

  let to_nat = function
  | Zpos p -> Pos.to_nat p
  | _ -> O

  (** val to_N : z -> n **)

  let to_N = function
  | Zpos p -> Npos p
  | _ -> N0

  (** val of_nat : nat -> z **)

  let of_nat = function
  | O -> Z0
  | S n1 -> Zpos (Pos.of_succ_nat n1)

  (** val of_N : n -> z **)

  let of_N = function
  | N0 -> Z0
  | Npos p -> Zpos p
 end

(** val usq_page_size : nat **)

let usq_page_size =
  S (S (S (S (S (S (S (S (S (S (S (S (S (S (S (S (S (S (S (S (S (S (S (S (S
    (S (S (S (S (S (S (S (S (S (S (S (S (S (S (S (S (S (S (S (S (S (S (S (S
    (S (S (S (S (S (S (S (S (S (S (S (S (S (S (S (S (S (S (S (S (S (S (S (S
    (S (S (S (S (S (S (S (S (S (S (S (S (S (S (S (S (S (S (S (S (S (S (S (S
    (S (S (S (S (S (S (S (S (S (S (S (S (S (S (S (S (S (S (S (S (S (S (S (S
    (S (S (S (S (S (S (S (S (S (S (S (S (S (S (S (S (S (S (S (S (S (S (S (S
    (S (S (S (S (S (S (S (S (S (S (S (S (S (S (S (S (S (S (S (S (S (S (S (S
    (S (S (S (S (S (S (S (S (S (S (S (S (S (S (S (S (S (S (S (S (S (S (S (S
    (S (S (S (S (S (S (S (S (S (S (S (S (S (S (S (S (S (S (S (S (S (S (S (S
    (S (S (S (S (S (S (S (S (S (S (S (S (S (S (S (S (S (S (S (S (S (S (S (S
    (S (S (S (S (S (S (S (S (S (S (S (S (S (S (S (S (S (S (S (S (S (S (S (S
    (S (S (S (S (S (S (S (S (S (S (S (S (S (S (S (S (S (S (S (S (S (S (S (S
    (S (S (S (S (S (S (S (S (S (S (S (S (S (S (S (S (S (S (S (S (S (S (S (S
    (S (S (S (S (S (S (S (S (S (S (S (S (S (S (S (S (S (S (S (S (S (S (S (S
    (S (S (S (S (S (S (S (S (S (S (S (S (S (S (S (S (S (S (S (S (S (S (S (S
    (S (S (S (S (S (S (S (S (S (S (S (S (S (S (S (S (S (S (S (S (S (S (S (S
    (S (S (S (S (S (S (S (S (S (S (S (S (S (S (S (S (S (S (S (S (S (S (S (S
    (S (S (S (S (S (S (S (S (S (S (S (S (S (S (S (S (S (S (S (S (S (S (S (S
    (S (S (S (S (S (S (S (S (S (S (S (S (S (S (S (S (S (S (S (S (S (S (S (S
    (S (S (S (S (S (S (S (S (S (S (S (S (S (S (S (S (S (S (S (S (S (S (S (S
    (S (S (S (S (S (S (S (S (S (S (S (S (S (S (S (S (S (S (S (S (S (S (S (S
    (S (S (S (S (S (S (S (S (S (S (S (S (S (S (S (S (S (S (S (S (S (S (S (S
    (S (S (S (S (S (S (S (S (S (S (S (S (S (S (S (S (S (S (S (S (S (S (S (S
    (S (S (S (S (S (S (S (S (S (S (S (S (S (S (S (S (S (S (S (S (S (S (S (S
    (S (S (S (S (S (S (S (S (S (S (S (S (S (S (S (S (S (S (S (S (S (S (S (S
    (S (S (S (S (S (S (S (S (S (S (S (S (S (S (S (S (S (S (S (S (S (S (S (S
    (S (S (S (S (S (S (S (S (S (S (S (S (S (S (S (S (S (S (S (S (S (S (S (S
    (S (S (S (S (S (S (S (S (S (S (S (S (S (S (S (S (S (S (S (S (S (S (S (S
    (S (S (S (S (S (S (S (S (S (S (S (S (S (S (S (S (S (S (S (S (S (S (S (S
    (S (S (S (S (S (S (S (S (S (S (S (S (S (S (S (S (S (S (S (S (S (S (S (S
    (S (S (S (S (S (S (S (S (S (S (S (S (S (S (S (S (S (S (S (S (S (S (S (S
    (S (S (S (S (S (S (S (S (S (S (S (S (S (S (S (S (S (S (S (S (S (S (S (S
    (S (S (S (S (S (S (S (S (S (S (S (S (S (S (S (S (S (S (S (S (S (S (S (S
    (S (S (S (S (S (S (S (S (S (S (S (S (S (S (S (S (S (S (S (S (S (S (S (S
    (S (S (S (S (S (S (S (S (S (S (S (S (S (S (S (S (S (S (S (S (S (S (S (S
    (S (S (S (S (S (S (S (S (S (S (S (S (S (S (S (S (S (S (S (S (S (S (S (S
    (S (S (S (S (S (S (S (S (S (S (S (S (S (S (S (S (S (S (S (S (S (S (S (S
    (S (S (S (S (S (S (S (S (S (S (S (S (S (S (S (S (S (S (S (S (S (S (S (S
    (S (S (S (S (S (S (S (S (S (S (S (S (S (S (S (S (S (S (S (S (S (S (S (S
    (S (S (S (S (S (S (S (S (S (S (S (S (S (S (S (S (S (S (S (S (S (S (S (S
    (S (S (S (S (S (S (S (S (S (S (S (S (S (S (S (S (S (S (S (S (S (S (S (S
    (S (S (S (S (S (S (S (S (S (S (S (S (S (S (S (S (S (S (S (S (S (S (S (S
    (S (S (S (S (S (S (S (S (S (S (S (S (S (S
    O))))))))))))))))))))))))))))))))))))))))))))))))))))))))))))))))))))))))))))))))))))))))))))))))))))))))))))))))))))))))))))))))))))))))))))))))))))))))))))))))))))))))))))))))))))))))))))))))))))))))))))))))))))))))))))))))))))))))))))))))))))))))))))))))))))))))))))))))))))))))))))))))))))))))))))))))))))))))))))))))))))))))))))))))))))))))))))))))))))))))))))))))))))))))))))))))))))))))))))))))))))))))))))))))))))))))))))))))))))))))))))))))))))))))))))))))))))))))))))))))))))))))))))))))))))))))))))))))))))))))))))))))))))))))))))))))))))))))))))))))))))))))))))))))))))))))))))))))))))))))))))))))))))))))))))))))))))))))))))))))))))))))))))))))))))))))))))))))))))))))))))))))))))))))))))))))))))))))))))))))))))))))))))))))))))))))))))))))))))))))))))))))))))))))))))))))))))))))))))))))))))))))))))))))))))))))))))))))))))))))))))))))))))))))))))))))))))))))))))))))))))))))))))))))))))))))))))))))))))))))))))))))))))))))))))))))))))))))))))))))))))))))))))))))))))))))))))))))))))))))))))))))))))))))))))))

(** val usq_valid_init : nat **)

let usq_valid_init =
  O

(** val pcq_empty_init : nat -> nat **)

let pcq_empty_init k =
  k

(** val pcq_used_init : nat -> nat **)

let pcq_used_init _ =
  O

(** val ring_blocks : nat **)

let ring_blocks =
  S (S (S O))

(** val ring_block_size : nat **)

let ring_block_size =
  of_num_uint (UIntDecimal (D8 (D1 (D9 (D2 Nil)))))

(** val ring_output_init : nat -> nat **)

let ring_output_init _ =
  O

(** val ring_trash_init : nat -> nat **)

let ring_trash_init k =
  k

(** val py_pending : nat list -> nat -> bool **)

let py_pending pend tid =
  existsb (Nat.eqb tid) pend

(** val py_step :
    ('a1 -> nat -> 'a1 option) -> ('a1 -> nat -> bool) -> ('a1 * nat list) ->
    nat -> ('a1 * nat list) option **)

let py_step step is_post sp tid =
  let (s, pend) = sp in
  if py_pending pend tid
  then Some (s, (filter (fun t -> negb (Nat.eqb tid t)) pend))
  else (match step s tid with
        | Some s' -> Some (s', (if is_post s tid then tid :: pend else pend))
        | None -> None)

(** val upd : (nat -> 'a1) -> nat -> 'a1 -> nat -> 'a1 **)

let upd f k v x =
  if Nat.eqb x k then v else f x

type upage =
| UUnalloc
| UFreed
| ULive of (nat -> z option) * nat option

type uerr =
| UUseAfterFree
| UNullNext
| UReadUnwritten

type uppc =
| UPLink
| UPWrite
| UPPost

type ucpc =
| UCWait
| UCSwitch
| UCRead

type ustate = { u_valid : nat; u_heap : (nat -> upage); u_nalloc : nat;
                u_fill : nat; u_fidx : nat; u_rd : nat; u_ridx : nat;
                u_ppc : uppc; u_cpc : ucpc; u_todo : z list; u_want : 
                nat; u_got : z list; u_err : uerr option }

(** val uempty_entries : nat -> z option **)

let uempty_entries _ =
  None

(** val usq_init : nat -> z list -> nat -> ustate **)

let usq_init valid0 items want =
  { u_valid = valid0; u_heap =
    (upd (fun _ -> UUnalloc) O (ULive (uempty_entries, None))); u_nalloc = (S
    O); u_fill = O; u_fidx = O; u_rd = O; u_ridx = O; u_ppc = UPLink; u_cpc =
    UCWait; u_todo = items; u_want = want; u_got = []; u_err = None }

(** val u_fail : ustate -> uerr -> ustate **)

let u_fail s e =
  { u_valid = s.u_valid; u_heap = s.u_heap; u_nalloc = s.u_nalloc; u_fill =
    s.u_fill; u_fidx = s.u_fidx; u_rd = s.u_rd; u_ridx = s.u_ridx; u_ppc =
    s.u_ppc; u_cpc = s.u_cpc; u_todo = s.u_todo; u_want = s.u_want; u_got =
    s.u_got; u_err = (Some e) }

(** val usq_step_prod : nat -> ustate -> ustate option **)

let usq_step_prod p s =
  match s.u_todo with
  | [] -> None
  | v :: rest ->
    (match s.u_ppc with
     | UPLink ->
       if Nat.eqb s.u_fidx p
       then (match s.u_heap s.u_fill with
             | ULive (e, _) ->
               let n0 = s.u_nalloc in
               Some { u_valid = s.u_valid; u_heap =
               (upd (upd s.u_heap n0 (ULive (uempty_entries, None))) s.u_fill
                 (ULive (e, (Some n0)))); u_nalloc = (S n0); u_fill = n0;
               u_fidx = O; u_rd = s.u_rd; u_ridx = s.u_ridx; u_ppc = UPWrite;
               u_cpc = s.u_cpc; u_todo = s.u_todo; u_want = s.u_want; u_got =
               s.u_got; u_err = None }
             | _ -> Some (u_fail s UUseAfterFree))
       else Some { u_valid = s.u_valid; u_heap = s.u_heap; u_nalloc =
              s.u_nalloc; u_fill = s.u_fill; u_fidx = s.u_fidx; u_rd =
              s.u_rd; u_ridx = s.u_ridx; u_ppc = UPWrite; u_cpc = s.u_cpc;
              u_todo = s.u_todo; u_want = s.u_want; u_got = s.u_got; u_err =
              None }
     | UPWrite ->
       (match s.u_heap s.u_fill with
        | ULive (e, nx) ->
          Some { u_valid = s.u_valid; u_heap =
            (upd s.u_heap s.u_fill (ULive ((upd e s.u_fidx (Some v)), nx)));
            u_nalloc = s.u_nalloc; u_fill = s.u_fill; u_fidx = (S s.u_fidx);
            u_rd = s.u_rd; u_ridx = s.u_ridx; u_ppc = UPPost; u_cpc =
            s.u_cpc; u_todo = s.u_todo; u_want = s.u_want; u_got = s.u_got;
            u_err = None }
        | _ -> Some (u_fail s UUseAfterFree))
     | UPPost ->
       Some { u_valid = (S s.u_valid); u_heap = s.u_heap; u_nalloc =
         s.u_nalloc; u_fill = s.u_fill; u_fidx = s.u_fidx; u_rd = s.u_rd;
         u_ridx = s.u_ridx; u_ppc = UPLink; u_cpc = s.u_cpc; u_todo = rest;
         u_want = s.u_want; u_got = s.u_got; u_err = None })

(** val usq_step_cons : nat -> ustate -> ustate option **)

let usq_step_cons p s =
  match s.u_want with
  | O -> None
  | S w ->
    (match s.u_cpc with
     | UCWait ->
       (match s.u_valid with
        | O -> None
        | S v ->
          Some { u_valid = v; u_heap = s.u_heap; u_nalloc = s.u_nalloc;
            u_fill = s.u_fill; u_fidx = s.u_fidx; u_rd = s.u_rd; u_ridx =
            s.u_ridx; u_ppc = s.u_ppc; u_cpc = UCSwitch; u_todo = s.u_todo;
            u_want = s.u_want; u_got = s.u_got; u_err = None })
     | UCSwitch ->
       if Nat.eqb s.u_ridx p
       then (match s.u_heap s.u_rd with
             | ULive (_, next) ->
               (match next with
                | Some n0 ->
                  Some { u_valid = s.u_valid; u_heap =
                    (upd s.u_heap s.u_rd UFreed); u_nalloc = s.u_nalloc;
                    u_fill = s.u_fill; u_fidx = s.u_fidx; u_rd = n0; u_ridx =
                    O; u_ppc = s.u_ppc; u_cpc = UCRead; u_todo = s.u_todo;
                    u_want = s.u_want; u_got = s.u_got; u_err = None }
                | None -> Some (u_fail s UNullNext))
             | _ -> Some (u_fail s UUseAfterFree))
       else Some { u_valid = s.u_valid; u_heap = s.u_heap; u_nalloc =
              s.u_nalloc; u_fill = s.u_fill; u_fidx = s.u_fidx; u_rd =
              s.u_rd; u_ridx = s.u_ridx; u_ppc = s.u_ppc; u_cpc = UCRead;
              u_todo = s.u_todo; u_want = s.u_want; u_got = s.u_got; u_err =
              None }
     | UCRead ->
       (match s.u_heap s.u_rd with
        | ULive (e, _) ->
          (match e s.u_ridx with
           | Some v ->
             Some { u_valid = s.u_valid; u_heap = s.u_heap; u_nalloc =
               s.u_nalloc; u_fill = s.u_fill; u_fidx = s.u_fidx; u_rd =
               s.u_rd; u_ridx = (S s.u_ridx); u_ppc = s.u_ppc; u_cpc =
               UCWait; u_todo = s.u_todo; u_want = w; u_got = (v :: s.u_got);
               u_err = None }
           | None -> Some (u_fail s UReadUnwritten))
        | _ -> Some (u_fail s UUseAfterFree)))

(** val usq_step : nat -> ustate -> nat -> ustate option **)

let usq_step p s tid =
  match s.u_err with
  | Some _ -> None
  | None ->
    (match tid with
     | O -> usq_step_prod p s
     | S n0 -> (match n0 with
                | O -> usq_step_cons p s
                | S _ -> None))

(** val usq_tag : ustate -> nat -> nat **)

let usq_tag s = function
| O -> (match s.u_ppc with
        | UPLink -> O
        | UPWrite -> S O
        | UPPost -> S (S O))
| S _ ->
  (match s.u_cpc with
   | UCWait -> S (S (S O))
   | UCSwitch -> S (S (S (S O)))
   | UCRead -> S (S (S (S (S O)))))

(** val usq_finished : ustate -> nat -> bool **)

let usq_finished s = function
| O -> (match s.u_todo with
        | [] -> true
        | _ :: _ -> false)
| S n0 -> (match n0 with
           | O -> Nat.eqb s.u_want O
           | S _ -> true)

type qppc =
| QPWait
| QPLock
| QPWrite
| QPUnlock
| QPPost

type qcpc =
| QCWait
| QCLock
| QCRead
| QCUnlock
| QCPost

type qthread =
| QProd of qppc * z list
| QCons of qcpc * nat * z list

type qstate = { q_empty : nat; q_used : nat; q_slots : (nat -> z);
                q_pat : nat; q_cat : nat; q_pmx : bool; q_cmx : bool;
                q_threads : qthread list }

(** val list_upd : 'a1 list -> nat -> 'a1 -> 'a1 list **)

let rec list_upd l i x =
  match l with
  | [] -> []
  | a :: r -> (match i with
               | O -> x :: r
               | S j -> a :: (list_upd r j x))

(** val q_default : z **)

let q_default =
  Zneg XH

(** val pcq_init : nat -> nat -> qthread list -> qstate **)

let pcq_init empty0 used0 threads =
  { q_empty = empty0; q_used = used0; q_slots = (fun _ -> q_default); q_pat =
    O; q_cat = O; q_pmx = false; q_cmx = false; q_threads = threads }

(** val q_next : nat -> nat -> nat **)

let q_next n0 i =
  if Nat.eqb (S i) n0 then O else S i

(** val q_set_thread : qstate -> nat -> qthread -> qthread list **)

let q_set_thread s i t =
  list_upd s.q_threads i t

(** val pcq_step : nat -> qstate -> nat -> qstate option **)

let pcq_step n0 s i =
  match nth_error s.q_threads i with
  | Some q ->
    (match q with
     | QProd (pc, todo) ->
       (match todo with
        | [] -> None
        | v :: rest ->
          (match pc with
           | QPWait ->
             (match s.q_empty with
              | O -> None
              | S e ->
                Some { q_empty = e; q_used = s.q_used; q_slots = s.q_slots;
                  q_pat = s.q_pat; q_cat = s.q_cat; q_pmx = s.q_pmx; q_cmx =
                  s.q_cmx; q_threads =
                  (q_set_thread s i (QProd (QPLock, todo))) })
           | QPLock ->
             if s.q_pmx
             then None
             else Some { q_empty = s.q_empty; q_used = s.q_used; q_slots =
                    s.q_slots; q_pat = s.q_pat; q_cat = s.q_cat; q_pmx =
                    true; q_cmx = s.q_cmx; q_threads =
                    (q_set_thread s i (QProd (QPWrite, todo))) }
           | QPWrite ->
             Some { q_empty = s.q_empty; q_used = s.q_used; q_slots =
               (upd s.q_slots s.q_pat v); q_pat = (q_next n0 s.q_pat);
               q_cat = s.q_cat; q_pmx = s.q_pmx; q_cmx = s.q_cmx; q_threads =
               (q_set_thread s i (QProd (QPUnlock, todo))) }
           | QPUnlock ->
             Some { q_empty = s.q_empty; q_used = s.q_used; q_slots =
               s.q_slots; q_pat = s.q_pat; q_cat = s.q_cat; q_pmx = false;
               q_cmx = s.q_cmx; q_threads =
               (q_set_thread s i (QProd (QPPost, todo))) }
           | QPPost ->
             Some { q_empty = s.q_empty; q_used = (S s.q_used); q_slots =
               s.q_slots; q_pat = s.q_pat; q_cat = s.q_cat; q_pmx = s.q_pmx;
               q_cmx = s.q_cmx; q_threads =
               (q_set_thread s i (QProd (QPWait, rest))) }))
     | QCons (pc, want, got) ->
       (match want with
        | O -> None
        | S w ->
          (match pc with
           | QCWait ->
             (match s.q_used with
              | O -> None
              | S u ->
                Some { q_empty = s.q_empty; q_used = u; q_slots = s.q_slots;
                  q_pat = s.q_pat; q_cat = s.q_cat; q_pmx = s.q_pmx; q_cmx =
                  s.q_cmx; q_threads =
                  (q_set_thread s i (QCons (QCLock, want, got))) })
           | QCLock ->
             if s.q_cmx
             then None
             else Some { q_empty = s.q_empty; q_used = s.q_used; q_slots =
                    s.q_slots; q_pat = s.q_pat; q_cat = s.q_cat; q_pmx =
                    s.q_pmx; q_cmx = true; q_threads =
                    (q_set_thread s i (QCons (QCRead, want, got))) }
           | QCRead ->
             Some { q_empty = s.q_empty; q_used = s.q_used; q_slots =
               s.q_slots; q_pat = s.q_pat; q_cat = (q_next n0 s.q_cat);
               q_pmx = s.q_pmx; q_cmx = s.q_cmx; q_threads =
               (q_set_thread s i (QCons (QCUnlock, want,
                 ((s.q_slots s.q_cat) :: got)))) }
           | QCUnlock ->
             Some { q_empty = s.q_empty; q_used = s.q_used; q_slots =
               s.q_slots; q_pat = s.q_pat; q_cat = s.q_cat; q_pmx = s.q_pmx;
               q_cmx = false; q_threads =
               (q_set_thread s i (QCons (QCPost, want, got))) }
           | QCPost ->
             Some { q_empty = (S s.q_empty); q_used = s.q_used; q_slots =
               s.q_slots; q_pat = s.q_pat; q_cat = s.q_cat; q_pmx = s.q_pmx;
               q_cmx = s.q_cmx; q_threads =
               (q_set_thread s i (QCons (QCWait, w, got))) })))
  | None -> None

(** val pcq_tag : qstate -> nat -> nat **)

let pcq_tag s i =
  match nth_error s.q_threads i with
  | Some q ->
    (match q with
     | QProd (pc, _) ->
       (match pc with
        | QPWait -> O
        | QPLock -> S O
        | QPWrite -> S (S O)
        | QPUnlock -> S (S (S O))
        | QPPost -> S (S (S (S O))))
     | QCons (pc, _, _) ->
       (match pc with
        | QCWait -> S (S (S (S (S O))))
        | QCLock -> S (S (S (S (S (S O)))))
        | QCRead -> S (S (S (S (S (S (S O))))))
        | QCUnlock -> S (S (S (S (S (S (S (S O)))))))
        | QCPost -> S (S (S (S (S (S (S (S (S O))))))))))
  | None ->
    S (S (S (S (S (S (S (S (S (S (S (S (S (S (S (S (S (S (S (S (S (S (S (S (S
      (S (S (S (S (S (S (S (S (S (S (S (S (S (S (S (S (S (S (S (S (S (S (S (S
      (S (S (S (S (S (S (S (S (S (S (S (S (S (S (S (S (S (S (S (S (S (S (S (S
      (S (S (S (S (S (S (S (S (S (S (S (S (S (S (S (S (S (S (S (S (S (S (S (S
      (S (S
      O))))))))))))))))))))))))))))))))))))))))))))))))))))))))))))))))))))))))))))))))))))))))))))))))))

(** val qthread_finished : qthread -> bool **)

let qthread_finished = function
| QProd (_, todo) -> (match todo with
                      | [] -> true
                      | _ :: _ -> false)
| QCons (_, want, _) -> (match want with
                         | O -> true
                         | S _ -> false)

(** val pcq_finished : qstate -> nat -> bool **)

let pcq_finished s i =
  match nth_error s.q_threads i with
  | Some t -> qthread_finished t
  | None -> true

type rppc =
| RPCtorWait
| RPSpawn
| RPFill
| RPRest
| RPSpillPost of bool
| RPSpillWait of bool
| RPPoisonPost
| RPPoisonWait
| RPJoin
| RPLeasePost
| RPDone

type rcpc =
| RCNotStarted
| RCBegin
| RCWait
| RCWrite
| RCPostTrash
| RCExitPost
| RCFlush
| RCEnd
| RCDone

type rstate = { r_out : nat; r_trash : nat; r_data : (nat -> z list);
                r_size : (nat -> nat); r_pi : nat; r_ci : nat; r_cur : 
                nat; r_ppc : rppc; r_cpc : rcpc; r_prog : z list list;
                r_pend : z list; r_file : z list; r_wsizes : nat list;
                r_flushes : nat }

(** val ring_init : nat -> nat -> nat -> z list list -> rstate **)

let ring_init out0 trash0 bsize prog =
  { r_out = out0; r_trash = trash0; r_data = (fun _ -> []); r_size =
    (fun _ -> bsize); r_pi = O; r_ci = O; r_cur = O; r_ppc = RPCtorWait;
    r_cpc = RCNotStarted; r_prog = prog; r_pend = []; r_file = []; r_wsizes =
    []; r_flushes = O }

(** val r_next : nat -> nat -> nat **)

let r_next k i =
  if Nat.eqb (S i) k then O else S i

(** val r_loop_test : nat -> nat -> z list -> rppc **)

let r_loop_test b cur pend =
  if Nat.ltb b (add cur (length pend)) then RPFill else RPRest

(** val r_set_p :
    rstate -> (nat -> z list) -> (nat -> nat) -> nat -> nat -> rppc -> z list
    list -> z list -> rstate **)

let r_set_p s data size pi cur pc prog pend =
  { r_out = s.r_out; r_trash = s.r_trash; r_data = data; r_size = size;
    r_pi = pi; r_ci = s.r_ci; r_cur = cur; r_ppc = pc; r_cpc = s.r_cpc;
    r_prog = prog; r_pend = pend; r_file = s.r_file; r_wsizes = s.r_wsizes;
    r_flushes = s.r_flushes }

(** val r_dtor : nat -> rstate -> (nat -> z list) -> nat -> rstate **)

let r_dtor k s data cur =
  if Nat.eqb cur O
  then r_set_p s data (upd s.r_size s.r_pi O) (r_next k s.r_pi) cur
         RPPoisonPost [] []
  else r_set_p s data (upd s.r_size s.r_pi cur) (r_next k s.r_pi) cur
         (RPSpillPost true) [] []

(** val r_next_write :
    nat -> nat -> rstate -> (nat -> z list) -> nat -> rstate **)

let r_next_write k b s data cur =
  match s.r_prog with
  | [] -> r_dtor k s data cur
  | w :: rest ->
    r_set_p s data s.r_size s.r_pi cur (r_loop_test b cur w) rest w

(** val r_set_sem : rstate -> nat -> nat -> rppc -> rstate **)

let r_set_sem s out trash pc =
  { r_out = out; r_trash = trash; r_data = s.r_data; r_size = s.r_size;
    r_pi = s.r_pi; r_ci = s.r_ci; r_cur = s.r_cur; r_ppc = pc; r_cpc =
    s.r_cpc; r_prog = s.r_prog; r_pend = s.r_pend; r_file = s.r_file;
    r_wsizes = s.r_wsizes; r_flushes = s.r_flushes }

(** val ring_step_owner : nat -> nat -> rstate -> rstate option **)

let ring_step_owner k b s =
  match s.r_ppc with
  | RPCtorWait ->
    (match s.r_trash with
     | O -> None
     | S t -> Some (r_set_sem s s.r_out t RPSpawn))
  | RPSpawn ->
    let s1 = { r_out = s.r_out; r_trash = s.r_trash; r_data = s.r_data;
      r_size = s.r_size; r_pi = s.r_pi; r_ci = s.r_ci; r_cur = s.r_cur;
      r_ppc = s.r_ppc; r_cpc = RCBegin; r_prog = s.r_prog; r_pend = s.r_pend;
      r_file = s.r_file; r_wsizes = s.r_wsizes; r_flushes = s.r_flushes }
    in
    Some (r_next_write k b s1 s.r_data s.r_cur)
  | RPFill ->
    let k0 = sub b s.r_cur in
    let data =
      upd s.r_data s.r_pi
        (app (firstn s.r_cur (s.r_data s.r_pi)) (firstn k0 s.r_pend))
    in
    let pend = skipn k0 s.r_pend in
    if Nat.eqb b O
    then Some
           (r_set_p s data s.r_size s.r_pi b (r_loop_test b b pend) s.r_prog
             pend)
    else Some
           (r_set_p s data (upd s.r_size s.r_pi b) (r_next k s.r_pi) b
             (RPSpillPost false) s.r_prog pend)
  | RPRest ->
    let data =
      upd s.r_data s.r_pi (app (firstn s.r_cur (s.r_data s.r_pi)) s.r_pend)
    in
    Some (r_next_write k b s data (add s.r_cur (length s.r_pend)))
  | RPSpillPost d -> Some (r_set_sem s (S s.r_out) s.r_trash (RPSpillWait d))
  | RPSpillWait d ->
    (match s.r_trash with
     | O -> None
     | S t ->
       let s1 = r_set_sem s s.r_out t s.r_ppc in
       if d
       then Some
              (r_set_p s1 s.r_data (upd s.r_size s.r_pi O) (r_next k s.r_pi)
                O RPPoisonPost [] [])
       else Some
              (r_set_p s1 s.r_data s.r_size s.r_pi O
                (r_loop_test b O s.r_pend) s.r_prog s.r_pend))
  | RPPoisonPost -> Some (r_set_sem s (S s.r_out) s.r_trash RPPoisonWait)
  | RPPoisonWait ->
    (match s.r_trash with
     | O -> None
     | S t -> Some (r_set_sem s s.r_out t RPJoin))
  | RPJoin ->
    (match s.r_cpc with
     | RCDone -> Some (r_set_sem s s.r_out s.r_trash RPLeasePost)
     | _ -> None)
  | RPLeasePost -> Some (r_set_sem s s.r_out (S s.r_trash) RPDone)
  | RPDone -> None

(** val r_set_c :
    rstate -> nat -> nat -> nat -> rcpc -> z list -> nat list -> nat -> rstate **)

let r_set_c s out trash ci pc file ws fl =
  { r_out = out; r_trash = trash; r_data = s.r_data; r_size = s.r_size;
    r_pi = s.r_pi; r_ci = ci; r_cur = s.r_cur; r_ppc = s.r_ppc; r_cpc = pc;
    r_prog = s.r_prog; r_pend = s.r_pend; r_file = file; r_wsizes = ws;
    r_flushes = fl }

(** val ring_step_writer : nat -> rstate -> rstate option **)

let ring_step_writer k s =
  match s.r_cpc with
  | RCBegin ->
    Some
      (r_set_c s s.r_out s.r_trash s.r_ci RCWait s.r_file s.r_wsizes
        s.r_flushes)
  | RCWait ->
    (match s.r_out with
     | O -> None
     | S o ->
       let pc = if Nat.eqb (s.r_size s.r_ci) O then RCExitPost else RCWrite in
       Some (r_set_c s o s.r_trash s.r_ci pc s.r_file s.r_wsizes s.r_flushes))
  | RCWrite ->
    let sz = s.r_size s.r_ci in
    Some
    (r_set_c s s.r_out s.r_trash (r_next k s.r_ci) RCPostTrash
      (app s.r_file (firstn sz (s.r_data s.r_ci))) (sz :: s.r_wsizes)
      s.r_flushes)
  | RCPostTrash ->
    Some
      (r_set_c s s.r_out (S s.r_trash) s.r_ci RCWait s.r_file s.r_wsizes
        s.r_flushes)
  | RCExitPost ->
    Some
      (r_set_c s (S s.r_out) s.r_trash s.r_ci RCFlush s.r_file s.r_wsizes
        s.r_flushes)
  | RCFlush ->
    Some
      (r_set_c s s.r_out s.r_trash s.r_ci RCEnd s.r_file s.r_wsizes (S
        s.r_flushes))
  | RCEnd ->
    Some
      (r_set_c s s.r_out s.r_trash s.r_ci RCDone s.r_file s.r_wsizes
        s.r_flushes)
  | _ -> None

(** val ring_step : nat -> nat -> rstate -> nat -> rstate option **)

let ring_step k b s = function
| O -> ring_step_owner k b s
| S n0 -> (match n0 with
           | O -> ring_step_writer k s
           | S _ -> None)

(** val ring_tag : rstate -> nat -> nat **)

let ring_tag s = function
| O ->
  (match s.r_ppc with
   | RPSpawn -> S O
   | RPFill -> S (S O)
   | RPRest -> S (S (S O))
   | RPSpillPost _ -> S (S (S (S O)))
   | RPPoisonPost -> S (S (S (S O)))
   | RPJoin -> S (S (S (S (S O))))
   | RPLeasePost -> S (S (S (S (S (S O)))))
   | RPDone ->
     S (S (S (S (S (S (S (S (S (S (S (S (S (S (S (S (S (S (S (S (S (S (S (S
       (S (S (S (S (S (S (S (S (S (S (S (S (S (S (S (S (S (S (S (S (S (S (S
       (S (S (S (S (S (S (S (S (S (S (S (S (S (S (S (S (S (S (S (S (S (S (S
       (S (S (S (S (S (S (S (S (S (S (S (S (S (S (S (S (S (S (S (S (S (S (S
       (S (S (S (S (S (S
       O))))))))))))))))))))))))))))))))))))))))))))))))))))))))))))))))))))))))))))))))))))))))))))))))))
   | _ -> O)
| S _ ->
  (match s.r_cpc with
   | RCNotStarted ->
     S (S (S (S (S (S (S (S (S (S (S (S (S (S (S (S (S (S (S (S (S (S (S (S
       (S (S (S (S (S (S (S (S (S (S (S (S (S (S (S (S (S (S (S (S (S (S (S
       (S (S (S (S (S (S (S (S (S (S (S (S (S (S (S (S (S (S (S (S (S (S (S
       (S (S (S (S (S (S (S (S (S (S (S (S (S (S (S (S (S (S (S (S (S (S (S
       (S (S (S (S (S
       O)))))))))))))))))))))))))))))))))))))))))))))))))))))))))))))))))))))))))))))))))))))))))))))))))
   | RCBegin -> S (S (S (S (S (S (S (S (S (S O)))))))))
   | RCWait -> S (S (S (S (S (S (S (S (S (S (S O))))))))))
   | RCWrite -> S (S (S (S (S (S (S (S (S (S (S (S O)))))))))))
   | RCPostTrash -> S (S (S (S (S (S O)))))
   | RCExitPost -> S (S (S (S O)))
   | RCFlush -> S (S (S (S (S (S (S (S (S (S (S (S (S O))))))))))))
   | RCEnd -> S (S (S (S (S (S (S (S (S (S (S (S (S (S O)))))))))))))
   | RCDone ->
     S (S (S (S (S (S (S (S (S (S (S (S (S (S (S (S (S (S (S (S (S (S (S (S
       (S (S (S (S (S (S (S (S (S (S (S (S (S (S (S (S (S (S (S (S (S (S (S
       (S (S (S (S (S (S (S (S (S (S (S (S (S (S (S (S (S (S (S (S (S (S (S
       (S (S (S (S (S (S (S (S (S (S (S (S (S (S (S (S (S (S (S (S (S (S (S
       (S (S (S (S (S (S
       O)))))))))))))))))))))))))))))))))))))))))))))))))))))))))))))))))))))))))))))))))))))))))))))))))))

(** val ring_finished : rstate -> nat -> bool **)

let ring_finished s = function
| O -> (match s.r_ppc with
        | RPDone -> true
        | _ -> false)
| S n0 ->
  (match n0 with
   | O -> (match s.r_cpc with
           | RCDone -> true
           | _ -> false)
   | S _ -> true)

(** val ring_started : rstate -> nat -> bool **)

let ring_started s = function
| O -> true
| S n0 ->
  (match n0 with
   | O -> (match s.r_cpc with
           | RCNotStarted -> false
           | _ -> true)
   | S _ -> true)
