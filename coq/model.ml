
(** val negb : bool -> bool **)

let negb = function
| true -> false
| false -> true

type nat =
| O
| S of nat

(** val fst : ('a1 * 'a2) -> 'a1 **)

let fst = function
| (x, _) -> x

(** val snd : ('a1 * 'a2) -> 'a2 **)

let snd = function
| (_, y) -> y

(** val length : 'a1 list -> nat **)

let rec length = function
| [] -> O
| _ :: l' -> S (length l')

(** val app : 'a1 list -> 'a1 list -> 'a1 list **)

let rec app l m =
  match l with
  | [] -> m
  | a :: l1 -> a :: (app l1 m)

type comparison =
| Eq
| Lt
| Gt

(** val compOpp : comparison -> comparison **)

let compOpp = function
| Eq -> Eq
| Lt -> Gt
| Gt -> Lt

module Coq__1 = struct
 (** val add : nat -> nat -> nat **)
 let rec add n0 m =
   match n0 with
   | O -> m
   | S p -> S (add p m)
end
include Coq__1

(** val tl : 'a1 list -> 'a1 list **)

let tl = function
| [] -> []
| _ :: m -> m

(** val nth : nat -> 'a1 list -> 'a1 -> 'a1 **)

let rec nth n0 l default =
  match n0 with
  | O -> (match l with
          | [] -> default
          | x :: _ -> x)
  | S m -> (match l with
            | [] -> default
            | _ :: t -> nth m t default)

(** val removelast : 'a1 list -> 'a1 list **)

let rec removelast = function
| [] -> []
| a :: l0 -> (match l0 with
              | [] -> []
              | _ :: _ -> a :: (removelast l0))

(** val concat : 'a1 list list -> 'a1 list **)

let rec concat = function
| [] -> []
| x :: l0 -> app x (concat l0)

(** val map : ('a1 -> 'a2) -> 'a1 list -> 'a2 list **)

let rec map f = function
| [] -> []
| a :: t -> (f a) :: (map f t)

(** val fold_left : ('a1 -> 'a2 -> 'a1) -> 'a2 list -> 'a1 -> 'a1 **)

let rec fold_left f l a0 =
  match l with
  | [] -> a0
  | b :: t -> fold_left f t (f a0 b)

(** val fold_right : ('a2 -> 'a1 -> 'a1) -> 'a1 -> 'a2 list -> 'a1 **)

let rec fold_right f a0 = function
| [] -> a0
| b :: t -> f b (fold_right f a0 t)

(** val forallb : ('a1 -> bool) -> 'a1 list -> bool **)

let rec forallb f = function
| [] -> true
| a :: l0 -> (&&) (f a) (forallb f l0)

(** val filter : ('a1 -> bool) -> 'a1 list -> 'a1 list **)

let rec filter f = function
| [] -> []
| x :: l0 -> if f x then x :: (filter f l0) else filter f l0

(** val firstn : nat -> 'a1 list -> 'a1 list **)

let rec firstn n0 l =
  match n0 with
  | O -> []
  | S n1 -> (match l with
             | [] -> []
             | a :: l0 -> a :: (firstn n1 l0))

(** val skipn : nat -> 'a1 list -> 'a1 list **)

let rec skipn n0 l =
  match n0 with
  | O -> l
  | S n1 -> (match l with
             | [] -> []
             | _ :: l0 -> skipn n1 l0)

type positive =
| XI of positive
| XO of positive
| XH

type n =
| N0
| Npos of positive

type z =
| Z0
| Zpos of positive
| Zneg of positive

module Pos =
 struct
  (** val succ : positive -> positive **)

  let rec succ = function
  | XI p -> XO (succ p)
  | XO p -> XI p
  | XH -> XO XH

  (** val add : positive -> positive -> positive **)

  let rec add x y =
    match x with
    | XI p ->
      (match y with
       | XI q -> XO (add_carry p q)
       | XO q -> XI (add p q)
       | XH -> XO (succ p))
    | XO p ->
      (match y with
       | XI q -> XI (add p q)
       | XO q -> XO (add p q)
       | XH -> XI p)
    | XH -> (match y with
             | XI q -> XO (succ q)
             | XO q -> XI q
             | XH -> XO XH)

  (** val add_carry : positive -> positive -> positive **)

  and add_carry x y =
    match x with
    | XI p ->
      (match y with
       | XI q -> XI (add_carry p q)
       | XO q -> XO (add_carry p q)
       | XH -> XI (succ p))
    | XO p ->
      (match y with
       | XI q -> XO (add_carry p q)
       | XO q -> XI (add p q)
       | XH -> XO (succ p))
    | XH ->
      (match y with
       | XI q -> XI (succ q)
       | XO q -> XO (succ q)
       | XH -> XI XH)

  (** val pred_double : positive -> positive **)

  let rec pred_double = function
  | XI p -> XI (XO p)
  | XO p -> XI (pred_double p)
  | XH -> XH

  (** val pred_N : positive -> n **)

  let pred_N = function
  | XI p -> Npos (XO p)
  | XO p -> Npos (pred_double p)
  | XH -> N0

  (** val mul : positive -> positive -> positive **)

  let rec mul x y =
    match x with
    | XI p -> add y (XO (mul p y))
    | XO p -> XO (mul p y)
    | XH -> y

  (** val iter : ('a1 -> 'a1) -> 'a1 -> positive -> 'a1 **)

  let rec iter f x = function
  | XI n' -> f (iter f (iter f x n') n')
  | XO n' -> iter f (iter f x n') n'
  | XH -> f x

  (** val div2 : positive -> positive **)

  let div2 = function
  | XI p0 -> p0
  | XO p0 -> p0
  | XH -> XH

  (** val div2_up : positive -> positive **)

  let div2_up = function
  | XI p0 -> succ p0
  | XO p0 -> p0
  | XH -> XH

  (** val compare_cont : comparison -> positive -> positive -> comparison **)

  let rec compare_cont r x y =
    match x with
    | XI p ->
      (match y with
       | XI q -> compare_cont r p q
       | XO q -> compare_cont Gt p q
       | XH -> Gt)
    | XO p ->
      (match y with
       | XI q -> compare_cont Lt p q
       | XO q -> compare_cont r p q
       | XH -> Gt)
    | XH -> (match y with
             | XH -> r
             | _ -> Lt)

  (** val compare : positive -> positive -> comparison **)

  let compare =
    compare_cont Eq

  (** val eqb : positive -> positive -> bool **)

  let rec eqb p q =
    match p with
    | XI p0 -> (match q with
                | XI q0 -> eqb p0 q0
                | _ -> false)
    | XO p0 -> (match q with
                | XO q0 -> eqb p0 q0
                | _ -> false)
    | XH -> (match q with
             | XH -> true
             | _ -> false)

  (** val coq_Nsucc_double : n -> n **)

  let coq_Nsucc_double = function
  | N0 -> Npos XH
  | Npos p -> Npos (XI p)

  (** val coq_Ndouble : n -> n **)

  let coq_Ndouble = function
  | N0 -> N0
  | Npos p -> Npos (XO p)

  (** val coq_lor : positive -> positive -> positive **)

  let rec coq_lor p q =
    match p with
    | XI p0 ->
      (match q with
       | XI q0 -> XI (coq_lor p0 q0)
       | XO q0 -> XI (coq_lor p0 q0)
       | XH -> p)
    | XO p0 ->
      (match q with
       | XI q0 -> XI (coq_lor p0 q0)
       | XO q0 -> XO (coq_lor p0 q0)
       | XH -> XI p0)
    | XH -> (match q with
             | XO q0 -> XI q0
             | _ -> q)

  (** val coq_land : positive -> positive -> n **)

  let rec coq_land p q =
    match p with
    | XI p0 ->
      (match q with
       | XI q0 -> coq_Nsucc_double (coq_land p0 q0)
       | XO q0 -> coq_Ndouble (coq_land p0 q0)
       | XH -> Npos XH)
    | XO p0 ->
      (match q with
       | XI q0 -> coq_Ndouble (coq_land p0 q0)
       | XO q0 -> coq_Ndouble (coq_land p0 q0)
       | XH -> N0)
    | XH -> (match q with
             | XO _ -> N0
             | _ -> Npos XH)

  (** val ldiff : positive -> positive -> n **)

  let rec ldiff p q =
    match p with
    | XI p0 ->
      (match q with
       | XI q0 -> coq_Ndouble (ldiff p0 q0)
       | XO q0 -> coq_Nsucc_double (ldiff p0 q0)
       | XH -> Npos (XO p0))
    | XO p0 ->
      (match q with
       | XI q0 -> coq_Ndouble (ldiff p0 q0)
       | XO q0 -> coq_Ndouble (ldiff p0 q0)
       | XH -> Npos p)
    | XH -> (match q with
             | XO _ -> Npos XH
             | _ -> N0)

  (** val coq_lxor : positive -> positive -> n **)

  let rec coq_lxor p q =
    match p with
    | XI p0 ->
      (match q with
       | XI q0 -> coq_Ndouble (coq_lxor p0 q0)
       | XO q0 -> coq_Nsucc_double (coq_lxor p0 q0)
       | XH -> Npos (XO p0))
    | XO p0 ->
      (match q with
       | XI q0 -> coq_Nsucc_double (coq_lxor p0 q0)
       | XO q0 -> coq_Ndouble (coq_lxor p0 q0)
       | XH -> Npos (XI p0))
    | XH ->
      (match q with
       | XI q0 -> Npos (XO q0)
       | XO q0 -> Npos (XI q0)
       | XH -> N0)

  (** val iter_op : ('a1 -> 'a1 -> 'a1) -> positive -> 'a1 -> 'a1 **)

  let rec iter_op op p a =
    match p with
    | XI p0 -> op a (iter_op op p0 (op a a))
    | XO p0 -> iter_op op p0 (op a a)
    | XH -> a

  (** val to_nat : positive -> nat **)

  let to_nat x =
    iter_op Coq__1.add x (S O)

  (** val of_succ_nat : nat -> positive **)

  let rec of_succ_nat = function
  | O -> XH
  | S x -> succ (of_succ_nat x)
 end

module N =
 struct
  (** val succ_pos : n -> positive **)

  let succ_pos = function
  | N0 -> XH
  | Npos p -> Pos.succ p

  (** val add : n -> n -> n **)

  let add n0 m =
    match n0 with
    | N0 -> m
    | Npos p -> (match m with
                 | N0 -> n0
                 | Npos q -> Npos (Pos.add p q))

  (** val mul : n -> n -> n **)

  let mul n0 m =
    match n0 with
    | N0 -> N0
    | Npos p -> (match m with
                 | N0 -> N0
                 | Npos q -> Npos (Pos.mul p q))

  (** val coq_lor : n -> n -> n **)

  let coq_lor n0 m =
    match n0 with
    | N0 -> m
    | Npos p -> (match m with
                 | N0 -> n0
                 | Npos q -> Npos (Pos.coq_lor p q))

  (** val coq_land : n -> n -> n **)

  let coq_land n0 m =
    match n0 with
    | N0 -> N0
    | Npos p -> (match m with
                 | N0 -> N0
                 | Npos q -> Pos.coq_land p q)

  (** val ldiff : n -> n -> n **)

  let ldiff n0 m =
    match n0 with
    | N0 -> N0
    | Npos p -> (match m with
                 | N0 -> n0
                 | Npos q -> Pos.ldiff p q)

  (** val coq_lxor : n -> n -> n **)

  let coq_lxor n0 m =
    match n0 with
    | N0 -> m
    | Npos p -> (match m with
                 | N0 -> n0
                 | Npos q -> Pos.coq_lxor p q)

  (** val to_nat : n -> nat **)

  let to_nat = function
  | N0 -> O
  | Npos p -> Pos.to_nat p

  (** val of_nat : nat -> n **)

  let of_nat = function
  | O -> N0
  | S n' -> Npos (Pos.of_succ_nat n')
 end

module Z =
 struct
  (** val double : z -> z **)

  let double = function
  | Z0 -> Z0
  | Zpos p -> Zpos (XO p)
  | Zneg p -> Zneg (XO p)

  (** val succ_double : z -> z **)

  let succ_double = function
  | Z0 -> Zpos XH
  | Zpos p -> Zpos (XI p)
  | Zneg p -> Zneg (Pos.pred_double p)

  (** val pred_double : z -> z **)

  let pred_double = function
  | Z0 -> Zneg XH
  | Zpos p -> Zpos (Pos.pred_double p)
  | Zneg p -> Zneg (XI p)

  (** val pos_sub : positive -> positive -> z **)

  let rec pos_sub x y =
    match x with
    | XI p ->
      (match y with
       | XI q -> double (pos_sub p q)
       | XO q -> succ_double (pos_sub p q)
       | XH -> Zpos (XO p))
    | XO p ->
      (match y with
       | XI q -> pred_double (pos_sub p q)
       | XO q -> double (pos_sub p q)
       | XH -> Zpos (Pos.pred_double p))
    | XH ->
      (match y with
       | XI q -> Zneg (XO q)
       | XO q -> Zneg (Pos.pred_double q)
       | XH -> Z0)

  (** val add : z -> z -> z **)

  let add x y =
    match x with
    | Z0 -> y
    | Zpos x' ->
      (match y with
       | Z0 -> x
       | Zpos y' -> Zpos (Pos.add x' y')
       | Zneg y' -> pos_sub x' y')
    | Zneg x' ->
      (match y with
       | Z0 -> x
       | Zpos y' -> pos_sub y' x'
       | Zneg y' -> Zneg (Pos.add x' y'))

  (** val opp : z -> z **)

  let opp = function
  | Z0 -> Z0
  | Zpos x0 -> Zneg x0
  | Zneg x0 -> Zpos x0

  (** val sub : z -> z -> z **)

  let sub m n0 =
    add m (opp n0)

  (** val mul : z -> z -> z **)

  let mul x y =
    match x with
    | Z0 -> Z0
    | Zpos x' ->
      (match y with
       | Z0 -> Z0
       | Zpos y' -> Zpos (Pos.mul x' y')
       | Zneg y' -> Zneg (Pos.mul x' y'))
    | Zneg x' ->
      (match y with
       | Z0 -> Z0
       | Zpos y' -> Zneg (Pos.mul x' y')
       | Zneg y' -> Zpos (Pos.mul x' y'))

  (** val compare : z -> z -> comparison **)

  let compare x y =
    match x with
    | Z0 -> (match y with
             | Z0 -> Eq
             | Zpos _ -> Lt
             | Zneg _ -> Gt)
    | Zpos x' -> (match y with
                  | Zpos y' -> Pos.compare x' y'
                  | _ -> Gt)
    | Zneg x' ->
      (match y with
       | Zneg y' -> compOpp (Pos.compare x' y')
       | _ -> Lt)

  (** val leb : z -> z -> bool **)

  let leb x y =
    match compare x y with
    | Gt -> false
    | _ -> true

  (** val ltb : z -> z -> bool **)

  let ltb x y =
    match compare x y with
    | Lt -> true
    | _ -> false

  (** val eqb : z -> z -> bool **)

  let eqb x y =
    match x with
    | Z0 -> (match y with
             | Z0 -> true
             | _ -> false)
    | Zpos p -> (match y with
                 | Zpos q -> Pos.eqb p q
                 | _ -> false)
    | Zneg p -> (match y with
                 | Zneg q -> Pos.eqb p q
                 | _ -> false)

  (** val min : z -> z -> z **)

  let min n0 m =
    match compare n0 m with
    | Gt -> m
    | _ -> n0

  (** val to_nat : z -> nat **)

  let to_nat = function
  | Zpos p -> Pos.to_nat p
  | _ -> O

  (** val to_N : z -> n **)

  let to_N = function
  | Zpos p -> Npos p
  | _ -> N0

  (** val of_nat : nat -> z **)

  let of_nat = function
  | O -> Z0
  | S n1 -> Zpos (Pos.of_succ_nat n1)

  (** val of_N : n -> z **)

  let of_N = function
  | N0 -> Z0
  | Npos p -> Zpos p

  (** val pos_div_eucl : positive -> z -> z * z **)

  let rec pos_div_eucl a b =
    match a with
    | XI a' ->
      let (q, r) = pos_div_eucl a' b in
      let r' = add (mul (Zpos (XO XH)) r) (Zpos XH) in
      if ltb r' b
      then ((mul (Zpos (XO XH)) q), r')
      else ((add (mul (Zpos (XO XH)) q) (Zpos XH)), (sub r' b))
    | XO a' ->
      let (q, r) = pos_div_eucl a' b in
      let r' = mul (Zpos (XO XH)) r in
      if ltb r' b
      then ((mul (Zpos (XO XH)) q), r')
      else ((add (mul (Zpos (XO XH)) q) (Zpos XH)), (sub r' b))
    | XH -> if leb (Zpos (XO XH)) b then (Z0, (Zpos XH)) else ((Zpos XH), Z0)

  (** val div_eucl : z -> z -> z * z **)

  let div_eucl a b =
    match a with
    | Z0 -> (Z0, Z0)
    | Zpos a' ->
      (match b with
       | Z0 -> (Z0, a)
       | Zpos _ -> pos_div_eucl a' b
       | Zneg b' ->
         let (q, r) = pos_div_eucl a' (Zpos b') in
         (match r with
          | Z0 -> ((opp q), Z0)
          | _ -> ((opp (add q (Zpos XH))), (add b r))))
    | Zneg a' ->
      (match b with
       | Z0 -> (Z0, a)
       | Zpos _ ->
         let (q, r) = pos_div_eucl a' b in
         (match r with
          | Z0 -> ((opp q), Z0)
          | _ -> ((opp (add q (Zpos XH))), (sub b r)))
       | Zneg b' -> let (q, r) = pos_div_eucl a' (Zpos b') in (q, (opp r)))

  (** val div : z -> z -> z **)

  let div a b =
    let (q, _) = div_eucl a b in q

  (** val div2 : z -> z **)

  let div2 = function
  | Z0 -> Z0
  | Zpos p -> (match p with
               | XH -> Z0
               | _ -> Zpos (Pos.div2 p))
  | Zneg p -> Zneg (Pos.div2_up p)

  (** val shiftl : z -> z -> z **)

  let shiftl a = function
  | Z0 -> a
  | Zpos p -> Pos.iter (mul (Zpos (XO XH))) a p
  | Zneg p -> Pos.iter div2 a p

  (** val shiftr : z -> z -> z **)

  let shiftr a n0 =
    shiftl a (opp n0)

  (** val coq_lor : z -> z -> z **)

  let coq_lor a b =
    match a with
    | Z0 -> b
    | Zpos a0 ->
      (match b with
       | Z0 -> a
       | Zpos b0 -> Zpos (Pos.coq_lor a0 b0)
       | Zneg b0 -> Zneg (N.succ_pos (N.ldiff (Pos.pred_N b0) (Npos a0))))
    | Zneg a0 ->
      (match b with
       | Z0 -> a
       | Zpos b0 -> Zneg (N.succ_pos (N.ldiff (Pos.pred_N a0) (Npos b0)))
       | Zneg b0 ->
         Zneg (N.succ_pos (N.coq_land (Pos.pred_N a0) (Pos.pred_N b0))))

  (** val coq_land : z -> z -> z **)

  let coq_land a b =
    match a with
    | Z0 -> Z0
    | Zpos a0 ->
      (match b with
       | Z0 -> Z0
       | Zpos b0 -> of_N (Pos.coq_land a0 b0)
       | Zneg b0 -> of_N (N.ldiff (Npos a0) (Pos.pred_N b0)))
    | Zneg a0 ->
      (match b with
       | Z0 -> Z0
       | Zpos b0 -> of_N (N.ldiff (Npos b0) (Pos.pred_N a0))
       | Zneg b0 ->
         Zneg (N.succ_pos (N.coq_lor (Pos.pred_N a0) (Pos.pred_N b0))))

  (** val coq_lxor : z -> z -> z **)

  let coq_lxor a b =
    match a with
    | Z0 -> b
    | Zpos a0 ->
      (match b with
       | Z0 -> a
       | Zpos b0 -> of_N (Pos.coq_lxor a0 b0)
       | Zneg b0 -> Zneg (N.succ_pos (N.coq_lxor (Npos a0) (Pos.pred_N b0))))
    | Zneg a0 ->
      (match b with
       | Z0 -> a
       | Zpos b0 -> Zneg (N.succ_pos (N.coq_lxor (Pos.pred_N a0) (Npos b0)))
       | Zneg b0 -> of_N (N.coq_lxor (Pos.pred_N a0) (Pos.pred_N b0)))
 end

(** val kInfiniteEnd : z **)

let kInfiniteEnd =
  Zpos (XI (XI (XI (XI (XI (XI (XI (XI (XI (XI (XI (XI (XI (XI (XI (XI (XI
    (XI (XI (XI (XI (XI (XI (XI (XI (XI (XI (XI (XI (XI (XI
    XH)))))))))))))))))))))))))))))))

(** val ulong_max : z **)

let ulong_max =
  Zpos (XI (XI (XI (XI (XI (XI (XI (XI (XI (XI (XI (XI (XI (XI (XI (XI (XI
    (XI (XI (XI (XI (XI (XI (XI (XI (XI (XI (XI (XI (XI (XI (XI (XI (XI (XI
    (XI (XI (XI (XI (XI (XI (XI (XI (XI (XI (XI (XI (XI (XI (XI (XI (XI (XI
    (XI (XI (XI (XI (XI (XI (XI (XI (XI (XI
    XH)))))))))))))))))))))))))))))))))))))))))))))))))))))))))))))))

(** val dedupe_default_fields : z list **)

let dedupe_default_fields =
  (Zpos (XI (XO (XO (XO (XI XH)))))) :: ((Zpos (XI (XO (XI (XI (XO
    XH)))))) :: [])

(** val dedupe_default_delim : z **)

let dedupe_default_delim =
  Zpos (XI (XO (XO XH)))

(** val shard_default_fields : z list **)

let shard_default_fields =
  (Zpos (XI (XO (XO (XO (XI XH)))))) :: ((Zpos (XI (XO (XI (XI (XO
    XH)))))) :: [])

(** val shard_default_delim : z **)

let shard_default_delim =
  Zpos (XI (XO (XO XH)))

(** val cache_default_key : z list **)

let cache_default_key =
  (Zpos (XI (XO (XI (XI (XO XH)))))) :: []

(** val cache_default_separator : z **)

let cache_default_separator =
  Zpos (XI (XO (XO XH)))

(** val murmur_m : z **)

let murmur_m =
  Zpos (XI (XO (XI (XO (XI (XO (XO (XI (XI (XO (XO (XI (XO (XI (XI (XI (XI
    (XO (XO (XO (XI (XO (XI (XI (XI (XI (XO (XI (XI (XO (XI (XO (XI (XI (XO
    (XO (XI (XO (XO (XI (XI (XI (XI (XO (XO (XI (XO (XI (XO (XO (XI (XO (XO
    (XI (XO (XI (XO (XI (XI (XO (XO (XO (XI
    XH)))))))))))))))))))))))))))))))))))))))))))))))))))))))))))))))

(** val murmur_r : z **)

let murmur_r =
  Zpos (XI (XI (XI (XI (XO XH)))))

(** val murmur_block : z **)

let murmur_block =
  Zpos (XO (XO (XO XH)))

(** val murmur_tail_mask : z **)

let murmur_tail_mask =
  Zpos (XI (XI XH))

(** val murmur_tail_cases : ((z * nat) * z) list **)

let murmur_tail_cases =
  (((Zpos (XI (XI XH))), (S (S (S (S (S (S O))))))), (Zpos (XO (XO (XO (XO
    (XI XH))))))) :: ((((Zpos (XO (XI XH))), (S (S (S (S (S O)))))), (Zpos
    (XO (XO (XO (XI (XO XH))))))) :: ((((Zpos (XI (XO XH))), (S (S (S (S
    O))))), (Zpos (XO (XO (XO (XO (XO XH))))))) :: ((((Zpos (XO (XO XH))), (S
    (S (S O)))), (Zpos (XO (XO (XO (XI XH)))))) :: ((((Zpos (XI XH)), (S (S
    O))), (Zpos (XO (XO (XO (XO XH)))))) :: ((((Zpos (XO XH)), (S O)), (Zpos
    (XO (XO (XO XH))))) :: ((((Zpos XH), O), Z0) :: []))))))

(** val murmur_tail_mul_case : z **)

let murmur_tail_mul_case =
  Zpos XH

(** val shard_seed : z **)

let shard_seed =
  Zpos (XI (XO (XO (XI (XO (XO (XI (XO (XO (XI (XI (XO (XI (XI (XO (XI (XI
    (XO (XI (XO (XI (XI (XI (XI (XO (XO (XI (XI (XO (XO (XI (XI (XO (XO (XI
    (XO (XO (XO (XO (XI (XI (XI (XO (XI (XO
    XH)))))))))))))))))))))))))))))))))))))))))))))

(** val dedupe_line_seed : z **)

let dedupe_line_seed =
  Zpos XH

(** val dedupe_field_seed : z **)

let dedupe_field_seed =
  Zpos XH

(** val cache_seed : z **)

let cache_seed =
  Z0

(** val mask64 : z **)

let mask64 =
  Zpos (XI (XI (XI (XI (XI (XI (XI (XI (XI (XI (XI (XI (XI (XI (XI (XI (XI
    (XI (XI (XI (XI (XI (XI (XI (XI (XI (XI (XI (XI (XI (XI (XI (XI (XI (XI
    (XI (XI (XI (XI (XI (XI (XI (XI (XI (XI (XI (XI (XI (XI (XI (XI (XI (XI
    (XI (XI (XI (XI (XI (XI (XI (XI (XI (XI
    XH)))))))))))))))))))))))))))))))))))))))))))))))))))))))))))))))

(** val w64 : z -> z **)

let w64 x =
  Z.coq_land x mask64

(** val mul64 : z -> z -> z **)

let mul64 a b =
  w64 (Z.mul a b)

(** val word_bytes : nat **)

let word_bytes =
  S (S (S (S (S (S (S (S O)))))))

(** val load_le : nat -> z list -> z **)

let rec load_le n0 mem =
  match n0 with
  | O -> Z0
  | S n' ->
    (match mem with
     | [] -> Z0
     | b :: r ->
       Z.coq_lor b (Z.shiftl (load_le n' r) (Zpos (XO (XO (XO XH))))))

(** val mix_k : z -> z **)

let mix_k k =
  let k1 = mul64 k murmur_m in
  let k2 = Z.coq_lxor k1 (Z.shiftr k1 murmur_r) in mul64 k2 murmur_m

(** val mm_body : nat -> z list -> z -> z * z list **)

let rec mm_body nblocks data h =
  match nblocks with
  | O -> (h, data)
  | S n0 ->
    mm_body n0 (skipn word_bytes data)
      (mul64 (Z.coq_lxor h (mix_k (load_le word_bytes data))) murmur_m)

(** val tail_case : z -> z list -> z -> ((z * nat) * z) -> z **)

let tail_case t data2 h = function
| (p, sh) ->
  let (label, idx) = p in
  if Z.leb label t
  then let h1 = Z.coq_lxor h (w64 (Z.shiftl (nth idx data2 Z0) sh)) in
       if Z.eqb label murmur_tail_mul_case then mul64 h1 murmur_m else h1
  else h

(** val mm_tail : z -> z list -> z -> z **)

let mm_tail t data2 h =
  fold_left (tail_case t data2) murmur_tail_cases h

(** val murmur64a_mem : z list -> z -> z -> z **)

let murmur64a_mem mem len seed =
  let h0 = Z.coq_lxor seed (mul64 len murmur_m) in
  let (h1, data) = mm_body (Z.to_nat (Z.div len murmur_block)) mem h0 in
  let h2 = mm_tail (Z.coq_land len murmur_tail_mask) data h1 in
  let h3 = Z.coq_lxor h2 (Z.shiftr h2 murmur_r) in
  let h4 = mul64 h3 murmur_m in Z.coq_lxor h4 (Z.shiftr h4 murmur_r)

(** val murmur64a : z list -> z -> z **)

let murmur64a bs seed =
  murmur64a_mem bs (Z.of_nat (length bs)) seed

(** val murmur_native : z list -> z -> z **)

let murmur_native =
  murmur64a

(** val hash_fold : z -> z list list -> z **)

let hash_fold seed pieces =
  fold_left (fun h p -> murmur_native p h) pieces seed

(** val dedupe_line_key : z list -> z **)

let dedupe_line_key line =
  murmur_native line dedupe_line_seed

type range = z * z

(** val is_digit : z -> bool **)

let is_digit c =
  (&&) (Z.leb (Zpos (XO (XO (XO (XO (XI XH)))))) c)
    (Z.leb c (Zpos (XI (XO (XO (XI (XI XH)))))))

(** val digits_value : z -> z list -> z * z list **)

let rec digits_value acc s = match s with
| [] -> (acc, [])
| c :: r ->
  if is_digit c
  then digits_value
         (Z.add (Z.mul acc (Zpos (XO (XI (XO XH)))))
           (Z.sub c (Zpos (XO (XO (XO (XO (XI XH)))))))) r
  else (acc, s)

type perr =
| PNotNumber
| POutOfRange
| PEmptyRange
| PBadSeparator
| PEmptyList
| PTrailingComma
| PFuel

type 'a pres =
| POk of 'a
| PErr of perr

(** val consume_int : z list -> (z * z list) pres **)

let consume_int s = match s with
| [] -> PErr PNotNumber
| c :: _ ->
  if is_digit c
  then let (v, rest) = digits_value Z0 s in
       let ret = Z.min v ulong_max in
       if (||) (Z.eqb ret Z0) (Z.leb kInfiniteEnd ret)
       then PErr POutOfRange
       else POk (ret, rest)
  else PErr PNotNumber

(** val comma : z **)

let comma =
  Zpos (XO (XO (XI (XI (XO XH)))))

(** val dash : z **)

let dash =
  Zpos (XI (XO (XI (XI (XO XH)))))

(** val head0 : z list -> z **)

let head0 = function
| [] -> Z0
| c :: _ -> c

(** val parse_one : z list -> (range * z list) pres **)

let parse_one s =
  if Z.eqb (head0 s) dash
  then let a = (Z0, s) in
       let (b, s1) = a in
       (match if (||) (Z.eqb (head0 s1) comma) (Z.eqb (head0 s1) Z0)
              then POk ((Z.add b (Zpos XH)), s1)
              else if Z.eqb (head0 s1) dash
                   then let s2 = tl s1 in
                        if (||) (Z.eqb (head0 s2) Z0) (Z.eqb (head0 s2) comma)
                        then POk (kInfiniteEnd, s2)
                        else (match consume_int s2 with
                              | POk a0 ->
                                let (e, s3) = a0 in
                                if Z.leb e b
                                then PErr PEmptyRange
                                else POk (e, s3)
                              | PErr er -> PErr er)
                   else PErr PBadSeparator with
        | POk a0 ->
          let (e, s2) = a0 in
          if (&&) (negb (Z.eqb (head0 s2) Z0)) (negb (Z.eqb (head0 s2) comma))
          then PErr PBadSeparator
          else if Z.eqb (head0 s2) comma
               then if Z.eqb (head0 (tl s2)) Z0
                    then PErr PTrailingComma
                    else POk ((b, e), (tl s2))
               else POk ((b, e), s2)
        | PErr e -> PErr e)
  else (match consume_int s with
        | POk a ->
          let (v, r) = a in
          let a0 = ((Z.sub v (Zpos XH)), r) in
          let (b, s1) = a0 in
          (match if (||) (Z.eqb (head0 s1) comma) (Z.eqb (head0 s1) Z0)
                 then POk ((Z.add b (Zpos XH)), s1)
                 else if Z.eqb (head0 s1) dash
                      then let s2 = tl s1 in
                           if (||) (Z.eqb (head0 s2) Z0)
                                (Z.eqb (head0 s2) comma)
                           then POk (kInfiniteEnd, s2)
                           else (match consume_int s2 with
                                 | POk a1 ->
                                   let (e, s3) = a1 in
                                   if Z.leb e b
                                   then PErr PEmptyRange
                                   else POk (e, s3)
                                 | PErr er -> PErr er)
                      else PErr PBadSeparator with
           | POk a1 ->
             let (e, s2) = a1 in
             if (&&) (negb (Z.eqb (head0 s2) Z0))
                  (negb (Z.eqb (head0 s2) comma))
             then PErr PBadSeparator
             else if Z.eqb (head0 s2) comma
                  then if Z.eqb (head0 (tl s2)) Z0
                       then PErr PTrailingComma
                       else POk ((b, e), (tl s2))
                  else POk ((b, e), s2)
           | PErr e -> PErr e)
        | PErr e -> PErr e)

(** val parse_loop : nat -> z list -> range list pres **)

let rec parse_loop fuel s =
  if Z.eqb (head0 s) Z0
  then POk []
  else (match fuel with
        | O -> PErr PFuel
        | S f ->
          (match parse_one s with
           | POk a ->
             let (r, s') = a in
             (match parse_loop f s' with
              | POk rs -> POk (r :: rs)
              | PErr e -> PErr e)
           | PErr e -> PErr e))

(** val parse_fields : z list -> range list pres **)

let parse_fields s =
  if Z.eqb (head0 s) Z0 then PErr PEmptyList else parse_loop (length s) s

(** val insert_range : range -> range list -> range list **)

let rec insert_range r l = match l with
| [] -> r :: []
| x :: t -> if Z.ltb (fst r) (fst x) then r :: l else x :: (insert_range r t)

(** val sort_ranges : range list -> range list **)

let sort_ranges l =
  fold_right insert_range [] l

(** val defrag_loop : range -> range list -> range list option **)

let rec defrag_loop prev = function
| [] -> Some (prev :: [])
| r :: rest' ->
  if Z.ltb (fst r) (snd prev)
  then None
  else if Z.eqb (snd prev) (fst r)
       then defrag_loop ((fst prev), (snd r)) rest'
       else (match defrag_loop r rest' with
             | Some l -> Some (prev :: l)
             | None -> None)

(** val defragment : range list -> range list option **)

let defragment l =
  match sort_ranges l with
  | [] -> Some []
  | r :: rest -> defrag_loop r rest

(** val parse_key_spec : z list -> range list option **)

let parse_key_spec s =
  match parse_fields s with
  | POk rs -> defragment rs
  | PErr _ -> None

(** val find_delim : z -> z list -> z list * z list option **)

let rec find_delim d = function
| [] -> ([], None)
| c :: r ->
  if Z.eqb c d
  then ([], (Some r))
  else let (f, x) = find_delim d r in ((c :: f), x)

type skipres =
| SkipAt of z * z list
| SkipReturn
| SkipFuel

(** val skip_fields : nat -> z -> z -> z -> z list -> skipres **)

let rec skip_fields fuel d index fbegin s =
  if Z.ltb index fbegin
  then (match fuel with
        | O -> SkipFuel
        | S f ->
          let (_, o) = find_delim d s in
          (match o with
           | Some r -> skip_fields f d (Z.add index (Zpos XH)) fbegin r
           | None -> SkipReturn))
  else SkipAt (index, s)

type takeres =
| TakeEnd of z list
| TakeUpTo of z * z list * z list
| TakeBadLength
| TakeFuel

(** val take_fields : nat -> z -> z -> z -> z list -> z list -> takeres **)

let rec take_fields fuel d index fend s acc =
  if Z.ltb index fend
  then (match fuel with
        | O -> TakeFuel
        | S f ->
          let (fld, o) = find_delim d s in
          (match o with
           | Some r ->
             take_fields f d (Z.add index (Zpos XH)) fend r
               (app acc (app fld (d :: [])))
           | None -> TakeEnd (app acc fld)))
  else (match acc with
        | [] -> TakeBadLength
        | _ :: _ -> TakeUpTo (index, s, (removelast acc)))

type rres =
| ROk of z list list
| RBadLength
| RFuel

(** val rcons : z list -> rres -> rres **)

let rcons p r = match r with
| ROk l -> ROk (p :: l)
| _ -> r

(** val range_fields_loop : nat -> z -> range list -> z -> z list -> rres **)

let rec range_fields_loop fuel d ranges index s =
  match ranges with
  | [] -> ROk []
  | r :: rest ->
    let (fb, fe) = r in
    (match skip_fields fuel d index fb s with
     | SkipAt (index1, s1) ->
       if Z.eqb fe kInfiniteEnd
       then ROk (s1 :: [])
       else (match take_fields fuel d index1 fe s1 [] with
             | TakeEnd p -> ROk (p :: [])
             | TakeUpTo (index2, s2, p) ->
               rcons p (range_fields_loop fuel d rest index2 s2)
             | TakeBadLength -> RBadLength
             | TakeFuel -> RFuel)
     | SkipReturn -> ROk []
     | SkipFuel -> RFuel)

(** val range_fields : z list -> range list -> z -> rres **)

let range_fields line ranges d =
  range_fields_loop (S (length line)) d ranges Z0 line

type ires =
| IOk of z list list
| IFuel

type eachres =
| EachEnd of z list list
| EachUpTo of z * z list * z list list
| EachFuel

(** val each_field : nat -> z -> z -> z -> z list -> eachres **)

let rec each_field fuel d index fend s =
  if Z.ltb index fend
  then (match fuel with
        | O -> EachFuel
        | S f ->
          let (fld, o) = find_delim d s in
          (match o with
           | Some r ->
             (match each_field f d (Z.add index (Zpos XH)) fend r with
              | EachEnd ps -> EachEnd (fld :: ps)
              | EachUpTo (i, s', ps) -> EachUpTo (i, s', (fld :: ps))
              | EachFuel -> EachFuel)
           | None -> EachEnd (fld :: [])))
  else EachUpTo (index, s, [])

(** val individual_fields_loop :
    nat -> z -> range list -> z -> z list -> ires **)

let rec individual_fields_loop fuel d ranges index s =
  match ranges with
  | [] -> IOk []
  | r :: rest ->
    let (fb, fe) = r in
    (match skip_fields fuel d index fb s with
     | SkipAt (index1, s1) ->
       (match each_field fuel d index1 fe s1 with
        | EachEnd ps -> IOk ps
        | EachUpTo (index2, s2, ps) ->
          (match individual_fields_loop fuel d rest index2 s2 with
           | IOk l -> IOk (app ps l)
           | IFuel -> IFuel)
        | EachFuel -> IFuel)
     | SkipReturn -> IOk []
     | SkipFuel -> IFuel)

(** val individual_fields : z list -> range list -> z -> ires **)

let individual_fields line ranges d =
  individual_fields_loop (S (length line)) d ranges Z0 line

(** val key_of : z -> z list -> range list -> z -> z option **)

let key_of seed line ranges d =
  match range_fields line ranges d with
  | ROk pieces -> Some (hash_fold seed pieces)
  | _ -> None

(** val shard_key : z list -> range list -> z -> z option **)

let shard_key line ranges d =
  key_of shard_seed line ranges d

(** val dedupe_key : z list -> range list -> z -> z option **)

let dedupe_key line ranges d =
  match ranges with
  | [] -> key_of dedupe_field_seed line ranges d
  | r :: l ->
    let (z0, e) = r in
    (match z0 with
     | Z0 ->
       (match l with
        | [] ->
          if Z.eqb e kInfiniteEnd
          then Some (dedupe_line_key line)
          else key_of dedupe_field_seed line ranges d
        | _ :: _ -> key_of dedupe_field_seed line ranges d)
     | _ -> key_of dedupe_field_seed line ranges d)

(** val cache_key_of : z list -> range list -> z -> z option **)

let cache_key_of line ranges d =
  key_of cache_seed line ranges d

(** val split_fields : z -> z list -> z list list **)

let rec split_fields d = function
| [] -> [] :: []
| c :: r ->
  if Z.eqb c d
  then [] :: (split_fields d r)
  else (match split_fields d r with
        | [] -> (c :: []) :: []
        | f :: fs -> (c :: f) :: fs)

(** val join_fields : z -> z list list -> z list **)

let rec join_fields d = function
| [] -> []
| f :: rest ->
  (match rest with
   | [] -> f
   | _ :: _ -> app f (d :: (join_fields d rest)))

(** val select_from : z list list -> z -> range -> z list list **)

let select_from fs off r =
  let rest = skipn (Z.to_nat (Z.sub (fst r) off)) fs in
  if Z.eqb (snd r) kInfiniteEnd
  then rest
  else firstn (Z.to_nat (Z.sub (snd r) (fst r))) rest

(** val select_range : z list list -> range -> z list list **)

let select_range fs r =
  select_from fs Z0 r

(** val select : z list list -> range list -> z list list list **)

let select fs rs =
  map (select_range fs) rs

(** val spec_pieces : z -> z list -> range list -> z list list **)

let spec_pieces d line rs =
  map (join_fields d)
    (filter (fun sel -> match sel with
                        | [] -> false
                        | _ :: _ -> true) (select (split_fields d line) rs))

(** val spec_individual : z -> z list -> range list -> z list list **)

let spec_individual d line rs =
  concat (select (split_fields d line) rs)

(** val contains_allb : z -> range list -> bool **)

let contains_allb nfields rs =
  forallb (fun r ->
    if Z.eqb (snd r) kInfiniteEnd
    then Z.ltb (fst r) nfields
    else Z.leb (snd r) nfields) rs
