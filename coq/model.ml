
(** val negb : bool -> bool **)

let negb = function
| true -> false
| false -> true

type nat =
| O
| S of nat

type ('a, 'b) sum =
| Inl of 'a
| Inr of 'b

(** val fst : ('a1 * 'a2) -> 'a1 **)

let fst = function
| (x, _) -> x

(** val snd : ('a1 * 'a2) -> 'a2 **)

let snd = function
| (_, y) -> y

(** val length : 'a1 list -> nat **)

let rec length = function
| [] -> O
| _ :: l' -> S (length l')

(** val app : 'a1 list -> 'a1 list -> 'a1 list **)

let rec app l m =
  match l with
  | [] -> m
  | a :: l1 -> a :: (app l1 m)

type comparison =
| Eq
| Lt
| Gt

(** val compOpp : comparison -> comparison **)

let compOpp = function
| Eq -> Eq
| Lt -> Gt
| Gt -> Lt

module Coq__1 = struct
 (** val add : nat -> nat -> nat **)
 let rec add n0 m =
   match n0 with
   | O -> m
   | S p -> S (add p m)
end
include Coq__1

(** val sub : nat -> nat -> nat **)

let rec sub n0 m =
  match n0 with
  | O -> n0
  | S k -> (match m with
            | O -> n0
            | S l -> sub k l)

type positive =
| XI of positive
| XO of positive
| XH

type n =
| N0
| Npos of positive

type z =
| Z0
| Zpos of positive
| Zneg of positive

module Nat =
 struct
  (** val eqb : nat -> nat -> bool **)

  let rec eqb n0 m =
    match n0 with
    | O -> (match m with
            | O -> true
            | S _ -> false)
    | S n' -> (match m with
               | O -> false
               | S m' -> eqb n' m')

  (** val max : nat -> nat -> nat **)

  let rec max n0 m =
    match n0 with
    | O -> m
    | S n' -> (match m with
               | O -> n0
               | S m' -> S (max n' m'))
 end

module Pos =
 struct
  type mask =
  | IsNul
  | IsPos of positive
  | IsNeg
 end

module Coq_Pos =
 struct
  (** val succ : positive -> positive **)

  let rec succ = function
  | XI p -> XO (succ p)
  | XO p -> XI p
  | XH -> XO XH

  (** val add : positive -> positive -> positive **)

  let rec add x y =
    match x with
    | XI p ->
      (match y with
       | XI q -> XO (add_carry p q)
       | XO q -> XI (add p q)
       | XH -> XO (succ p))
    | XO p ->
      (match y with
       | XI q -> XI (add p q)
       | XO q -> XO (add p q)
       | XH -> XI p)
    | XH -> (match y with
             | XI q -> XO (succ q)
             | XO q -> XI q
             | XH -> XO XH)

  (** val add_carry : positive -> positive -> positive **)

  and add_carry x y =
    match x with
    | XI p ->
      (match y with
       | XI q -> XI (add_carry p q)
       | XO q -> XO (add_carry p q)
       | XH -> XI (succ p))
    | XO p ->
      (match y with
       | XI q -> XO (add_carry p q)
       | XO q -> XI (add p q)
       | XH -> XO (succ p))
    | XH ->
      (match y with
       | XI q -> XI (succ q)
       | XO q -> XO (succ q)
       | XH -> XI XH)

  (** val pred_double : positive -> positive **)

  let rec pred_double = function
  | XI p -> XI (XO p)
  | XO p -> XI (pred_double p)
  | XH -> XH

  (** val pred_N : positive -> n **)

  let pred_N = function
  | XI p -> Npos (XO p)
  | XO p -> Npos (pred_double p)
  | XH -> N0

  type mask = Pos.mask =
  | IsNul
  | IsPos of positive
  | IsNeg

  (** val succ_double_mask : mask -> mask **)

  let succ_double_mask = function
  | IsNul -> IsPos XH
  | IsPos p -> IsPos (XI p)
  | IsNeg -> IsNeg

  (** val double_mask : mask -> mask **)

  let double_mask = function
  | IsPos p -> IsPos (XO p)
  | x0 -> x0

  (** val double_pred_mask : positive -> mask **)

  let double_pred_mask = function
  | XI p -> IsPos (XO (XO p))
  | XO p -> IsPos (XO (pred_double p))
  | XH -> IsNul

  (** val sub_mask : positive -> positive -> mask **)

  let rec sub_mask x y =
    match x with
    | XI p ->
      (match y with
       | XI q -> double_mask (sub_mask p q)
       | XO q -> succ_double_mask (sub_mask p q)
       | XH -> IsPos (XO p))
    | XO p ->
      (match y with
       | XI q -> succ_double_mask (sub_mask_carry p q)
       | XO q -> double_mask (sub_mask p q)
       | XH -> IsPos (pred_double p))
    | XH -> (match y with
             | XH -> IsNul
             | _ -> IsNeg)

  (** val sub_mask_carry : positive -> positive -> mask **)

  and sub_mask_carry x y =
    match x with
    | XI p ->
      (match y with
       | XI q -> succ_double_mask (sub_mask_carry p q)
       | XO q -> double_mask (sub_mask p q)
       | XH -> IsPos (pred_double p))
    | XO p ->
      (match y with
       | XI q -> double_mask (sub_mask_carry p q)
       | XO q -> succ_double_mask (sub_mask_carry p q)
       | XH -> double_pred_mask p)
    | XH -> IsNeg

  (** val mul : positive -> positive -> positive **)

  let rec mul x y =
    match x with
    | XI p -> add y (XO (mul p y))
    | XO p -> XO (mul p y)
    | XH -> y

  (** val iter : ('a1 -> 'a1) -> 'a1 -> positive -> 'a1 **)

  let rec iter f x = function
  | XI n' -> f (iter f (iter f x n') n')
  | XO n' -> iter f (iter f x n') n'
  | XH -> f x

  (** val div2 : positive -> positive **)

  let div2 = function
  | XI p0 -> p0
  | XO p0 -> p0
  | XH -> XH

  (** val div2_up : positive -> positive **)

  let div2_up = function
  | XI p0 -> succ p0
  | XO p0 -> p0
  | XH -> XH

  (** val compare_cont : comparison -> positive -> positive -> comparison **)

  let rec compare_cont r x y =
    match x with
    | XI p ->
      (match y with
       | XI q -> compare_cont r p q
       | XO q -> compare_cont Gt p q
       | XH -> Gt)
    | XO p ->
      (match y with
       | XI q -> compare_cont Lt p q
       | XO q -> compare_cont r p q
       | XH -> Gt)
    | XH -> (match y with
             | XH -> r
             | _ -> Lt)

  (** val compare : positive -> positive -> comparison **)

  let compare =
    compare_cont Eq

  (** val eqb : positive -> positive -> bool **)

  let rec eqb p q =
    match p with
    | XI p0 -> (match q with
                | XI q0 -> eqb p0 q0
                | _ -> false)
    | XO p0 -> (match q with
                | XO q0 -> eqb p0 q0
                | _ -> false)
    | XH -> (match q with
             | XH -> true
             | _ -> false)

  (** val coq_Nsucc_double : n -> n **)

  let coq_Nsucc_double = function
  | N0 -> Npos XH
  | Npos p -> Npos (XI p)

  (** val coq_Ndouble : n -> n **)

  let coq_Ndouble = function
  | N0 -> N0
  | Npos p -> Npos (XO p)

  (** val coq_lor : positive -> positive -> positive **)

  let rec coq_lor p q =
    match p with
    | XI p0 ->
      (match q with
       | XI q0 -> XI (coq_lor p0 q0)
       | XO q0 -> XI (coq_lor p0 q0)
       | XH -> p)
    | XO p0 ->
      (match q with
       | XI q0 -> XI (coq_lor p0 q0)
       | XO q0 -> XO (coq_lor p0 q0)
       | XH -> XI p0)
    | XH -> (match q with
             | XO q0 -> XI q0
             | _ -> q)

  (** val coq_land : positive -> positive -> n **)

  let rec coq_land p q =
    match p with
    | XI p0 ->
      (match q with
       | XI q0 -> coq_Nsucc_double (coq_land p0 q0)
       | XO q0 -> coq_Ndouble (coq_land p0 q0)
       | XH -> Npos XH)
    | XO p0 ->
      (match q with
       | XI q0 -> coq_Ndouble (coq_land p0 q0)
       | XO q0 -> coq_Ndouble (coq_land p0 q0)
       | XH -> N0)
    | XH -> (match q with
             | XO _ -> N0
             | _ -> Npos XH)

  (** val ldiff : positive -> positive -> n **)

  let rec ldiff p q =
    match p with
    | XI p0 ->
      (match q with
       | XI q0 -> coq_Ndouble (ldiff p0 q0)
       | XO q0 -> coq_Nsucc_double (ldiff p0 q0)
       | XH -> Npos (XO p0))
    | XO p0 ->
      (match q with
       | XI q0 -> coq_Ndouble (ldiff p0 q0)
       | XO q0 -> coq_Ndouble (ldiff p0 q0)
       | XH -> Npos p)
    | XH -> (match q with
             | XO _ -> Npos XH
             | _ -> N0)

  (** val shiftl : positive -> n -> positive **)

  let shiftl p = function
  | N0 -> p
  | Npos n1 -> iter (fun x -> XO x) p n1

  (** val iter_op : ('a1 -> 'a1 -> 'a1) -> positive -> 'a1 -> 'a1 **)

  let rec iter_op op p a =
    match p with
    | XI p0 -> op a (iter_op op p0 (op a a))
    | XO p0 -> iter_op op p0 (op a a)
    | XH -> a

  (** val to_nat : positive -> nat **)

  let to_nat x =
    iter_op Coq__1.add x (S O)

  (** val of_succ_nat : nat -> positive **)

  let rec of_succ_nat = function
  | O -> XH
  | S x -> succ (of_succ_nat x)
 end

module N =
 struct
  (** val succ_double : n -> n **)

  let succ_double = function
  | N0 -> Npos XH
  | Npos p -> Npos (XI p)

  (** val double : n -> n **)

  let double = function
  | N0 -> N0
  | Npos p -> Npos (XO p)

  (** val succ_pos : n -> positive **)

  let succ_pos = function
  | N0 -> XH
  | Npos p -> Coq_Pos.succ p

  (** val add : n -> n -> n **)

  let add n0 m =
    match n0 with
    | N0 -> m
    | Npos p -> (match m with
                 | N0 -> n0
                 | Npos q -> Npos (Coq_Pos.add p q))

  (** val sub : n -> n -> n **)

  let sub n0 m =
    match n0 with
    | N0 -> N0
    | Npos n' ->
      (match m with
       | N0 -> n0
       | Npos m' ->
         (match Coq_Pos.sub_mask n' m' with
          | Coq_Pos.IsPos p -> Npos p
          | _ -> N0))

  (** val mul : n -> n -> n **)

  let mul n0 m =
    match n0 with
    | N0 -> N0
    | Npos p -> (match m with
                 | N0 -> N0
                 | Npos q -> Npos (Coq_Pos.mul p q))

  (** val compare : n -> n -> comparison **)

  let compare n0 m =
    match n0 with
    | N0 -> (match m with
             | N0 -> Eq
             | Npos _ -> Lt)
    | Npos n' -> (match m with
                  | N0 -> Gt
                  | Npos m' -> Coq_Pos.compare n' m')

  (** val eqb : n -> n -> bool **)

  let eqb n0 m =
    match n0 with
    | N0 -> (match m with
             | N0 -> true
             | Npos _ -> false)
    | Npos p -> (match m with
                 | N0 -> false
                 | Npos q -> Coq_Pos.eqb p q)

  (** val leb : n -> n -> bool **)

  let leb x y =
    match compare x y with
    | Gt -> false
    | _ -> true

  (** val ltb : n -> n -> bool **)

  let ltb x y =
    match compare x y with
    | Lt -> true
    | _ -> false

  (** val min : n -> n -> n **)

  let min n0 n' =
    match compare n0 n' with
    | Gt -> n'
    | _ -> n0

  (** val max : n -> n -> n **)

  let max n0 n' =
    match compare n0 n' with
    | Gt -> n0
    | _ -> n'

  (** val div2 : n -> n **)

  let div2 = function
  | N0 -> N0
  | Npos p0 -> (match p0 with
                | XI p -> Npos p
                | XO p -> Npos p
                | XH -> N0)

  (** val pos_div_eucl : positive -> n -> n * n **)

  let rec pos_div_eucl a b =
    match a with
    | XI a' ->
      let (q, r) = pos_div_eucl a' b in
      let r' = succ_double r in
      if leb b r' then ((succ_double q), (sub r' b)) else ((double q), r')
    | XO a' ->
      let (q, r) = pos_div_eucl a' b in
      let r' = double r in
      if leb b r' then ((succ_double q), (sub r' b)) else ((double q), r')
    | XH ->
      (match b with
       | N0 -> (N0, (Npos XH))
       | Npos p -> (match p with
                    | XH -> ((Npos XH), N0)
                    | _ -> (N0, (Npos XH))))

  (** val div_eucl : n -> n -> n * n **)

  let div_eucl a b =
    match a with
    | N0 -> (N0, N0)
    | Npos na -> (match b with
                  | N0 -> (N0, a)
                  | Npos _ -> pos_div_eucl na b)

  (** val div : n -> n -> n **)

  let div a b =
    fst (div_eucl a b)

  (** val modulo : n -> n -> n **)

  let modulo a b =
    snd (div_eucl a b)

  (** val coq_lor : n -> n -> n **)

  let coq_lor n0 m =
    match n0 with
    | N0 -> m
    | Npos p -> (match m with
                 | N0 -> n0
                 | Npos q -> Npos (Coq_Pos.coq_lor p q))

  (** val coq_land : n -> n -> n **)

  let coq_land n0 m =
    match n0 with
    | N0 -> N0
    | Npos p -> (match m with
                 | N0 -> N0
                 | Npos q -> Coq_Pos.coq_land p q)

  (** val ldiff : n -> n -> n **)

  let ldiff n0 m =
    match n0 with
    | N0 -> N0
    | Npos p -> (match m with
                 | N0 -> n0
                 | Npos q -> Coq_Pos.ldiff p q)

  (** val shiftl : n -> n -> n **)

  let shiftl a n0 =
    match a with
    | N0 -> N0
    | Npos a0 -> Npos (Coq_Pos.shiftl a0 n0)

  (** val shiftr : n -> n -> n **)

  let shiftr a = function
  | N0 -> a
  | Npos p -> Coq_Pos.iter div2 a p

  (** val to_nat : n -> nat **)

  let to_nat = function
  | N0 -> O
  | Npos p -> Coq_Pos.to_nat p

  (** val of_nat : nat -> n **)

  let of_nat = function
  | O -> N0
  | S n' -> Npos (Coq_Pos.of_succ_nat n')
 end

module Z =
 struct
  (** val double : z -> z **)

  let double = function
  | Z0 -> Z0
  | Zpos p -> Zpos (XO p)
  | Zneg p -> Zneg (XO p)

  (** val succ_double : z -> z **)

  let succ_double = function
  | Z0 -> Zpos XH
  | Zpos p -> Zpos (XI p)
  | Zneg p -> Zneg (Coq_Pos.pred_double p)

  (** val pred_double : z -> z **)

  let pred_double = function
  | Z0 -> Zneg XH
  | Zpos p -> Zpos (Coq_Pos.pred_double p)
  | Zneg p -> Zneg (XI p)

  (** val pos_sub : positive -> positive -> z **)

  let rec pos_sub x y =
    match x with
    | XI p ->
      (match y with
       | XI q -> double (pos_sub p q)
       | XO q -> succ_double (pos_sub p q)
       | XH -> Zpos (XO p))
    | XO p ->
      (match y with
       | XI q -> pred_double (pos_sub p q)
       | XO q -> double (pos_sub p q)
       | XH -> Zpos (Coq_Pos.pred_double p))
    | XH ->
      (match y with
       | XI q -> Zneg (XO q)
       | XO q -> Zneg (Coq_Pos.pred_double q)
       | XH -> Z0)

  (** val add : z -> z -> z **)

  let add x y =
    match x with
    | Z0 -> y
    | Zpos x' ->
      (match y with
       | Z0 -> x
       | Zpos y' -> Zpos (Coq_Pos.add x' y')
       | Zneg y' -> pos_sub x' y')
    | Zneg x' ->
      (match y with
       | Z0 -> x
       | Zpos y' -> pos_sub y' x'
       | Zneg y' -> Zneg (Coq_Pos.add x' y'))

  (** val opp : z -> z **)

  let opp = function
  | Z0 -> Z0
  | Zpos x0 -> Zneg x0
  | Zneg x0 -> Zpos x0

  (** val sub : z -> z -> z **)

  let sub m n0 =
    add m (opp n0)

  (** val mul : z -> z -> z **)

  let mul x y =
    match x with
    | Z0 -> Z0
    | Zpos x' ->
      (match y with
       | Z0 -> Z0
       | Zpos y' -> Zpos (Coq_Pos.mul x' y')
       | Zneg y' -> Zneg (Coq_Pos.mul x' y'))
    | Zneg x' ->
      (match y with
       | Z0 -> Z0
       | Zpos y' -> Zneg (Coq_Pos.mul x' y')
       | Zneg y' -> Zpos (Coq_Pos.mul x' y'))

  (** val pow_pos : z -> positive -> z **)

  let pow_pos z0 =
    Coq_Pos.iter (mul z0) (Zpos XH)

  (** val pow : z -> z -> z **)

  let pow x = function
  | Z0 -> Zpos XH
  | Zpos p -> pow_pos x p
  | Zneg _ -> Z0

  (** val compare : z -> z -> comparison **)

  let compare x y =
    match x with
    | Z0 -> (match y with
             | Z0 -> Eq
             | Zpos _ -> Lt
             | Zneg _ -> Gt)
    | Zpos x' -> (match y with
                  | Zpos y' -> Coq_Pos.compare x' y'
                  | _ -> Gt)
    | Zneg x' ->
      (match y with
       | Zneg y' -> compOpp (Coq_Pos.compare x' y')
       | _ -> Lt)

  (** val leb : z -> z -> bool **)

  let leb x y =
    match compare x y with
    | Gt -> false
    | _ -> true

  (** val ltb : z -> z -> bool **)

  let ltb x y =
    match compare x y with
    | Lt -> true
    | _ -> false

  (** val geb : z -> z -> bool **)

  let geb x y =
    match compare x y with
    | Lt -> false
    | _ -> true

  (** val eqb : z -> z -> bool **)

  let eqb x y =
    match x with
    | Z0 -> (match y with
             | Z0 -> true
             | _ -> false)
    | Zpos p -> (match y with
                 | Zpos q -> Coq_Pos.eqb p q
                 | _ -> false)
    | Zneg p -> (match y with
                 | Zneg q -> Coq_Pos.eqb p q
                 | _ -> false)

  (** val to_nat : z -> nat **)

  let to_nat = function
  | Zpos p -> Coq_Pos.to_nat p
  | _ -> O

  (** val to_N : z -> n **)

  let to_N = function
  | Zpos p -> Npos p
  | _ -> N0

  (** val of_nat : nat -> z **)

  let of_nat = function
  | O -> Z0
  | S n1 -> Zpos (Coq_Pos.of_succ_nat n1)

  (** val of_N : n -> z **)

  let of_N = function
  | N0 -> Z0
  | Npos p -> Zpos p

  (** val pos_div_eucl : positive -> z -> z * z **)

  let rec pos_div_eucl a b =
    match a with
    | XI a' ->
      let (q, r) = pos_div_eucl a' b in
      let r' = add (mul (Zpos (XO XH)) r) (Zpos XH) in
      if ltb r' b
      then ((mul (Zpos (XO XH)) q), r')
      else ((add (mul (Zpos (XO XH)) q) (Zpos XH)), (sub r' b))
    | XO a' ->
      let (q, r) = pos_div_eucl a' b in
      let r' = mul (Zpos (XO XH)) r in
      if ltb r' b
      then ((mul (Zpos (XO XH)) q), r')
      else ((add (mul (Zpos (XO XH)) q) (Zpos XH)), (sub r' b))
    | XH -> if leb (Zpos (XO XH)) b then (Z0, (Zpos XH)) else ((Zpos XH), Z0)

  (** val div_eucl : z -> z -> z * z **)

  let div_eucl a b =
    match a with
    | Z0 -> (Z0, Z0)
    | Zpos a' ->
      (match b with
       | Z0 -> (Z0, a)
       | Zpos _ -> pos_div_eucl a' b
       | Zneg b' ->
         let (q, r) = pos_div_eucl a' (Zpos b') in
         (match r with
          | Z0 -> ((opp q), Z0)
          | _ -> ((opp (add q (Zpos XH))), (add b r))))
    | Zneg a' ->
      (match b with
       | Z0 -> (Z0, a)
       | Zpos _ ->
         let (q, r) = pos_div_eucl a' b in
         (match r with
          | Z0 -> ((opp q), Z0)
          | _ -> ((opp (add q (Zpos XH))), (sub b r)))
       | Zneg b' -> let (q, r) = pos_div_eucl a' (Zpos b') in (q, (opp r)))

  (** val div : z -> z -> z **)

  let div a b =
    let (q, _) = div_eucl a b in q

  (** val modulo : z -> z -> z **)

  let modulo a b =
    let (_, r) = div_eucl a b in r

  (** val div2 : z -> z **)

  let div2 = function
  | Z0 -> Z0
  | Zpos p -> (match p with
               | XH -> Z0
               | _ -> Zpos (Coq_Pos.div2 p))
  | Zneg p -> Zneg (Coq_Pos.div2_up p)

  (** val shiftl : z -> z -> z **)

  let shiftl a = function
  | Z0 -> a
  | Zpos p -> Coq_Pos.iter (mul (Zpos (XO XH))) a p
  | Zneg p -> Coq_Pos.iter div2 a p

  (** val shiftr : z -> z -> z **)

  let shiftr a n0 =
    shiftl a (opp n0)

  (** val coq_land : z -> z -> z **)

  let coq_land a b =
    match a with
    | Z0 -> Z0
    | Zpos a0 ->
      (match b with
       | Z0 -> Z0
       | Zpos b0 -> of_N (Coq_Pos.coq_land a0 b0)
       | Zneg b0 -> of_N (N.ldiff (Npos a0) (Coq_Pos.pred_N b0)))
    | Zneg a0 ->
      (match b with
       | Z0 -> Z0
       | Zpos b0 -> of_N (N.ldiff (Npos b0) (Coq_Pos.pred_N a0))
       | Zneg b0 ->
         Zneg (N.succ_pos (N.coq_lor (Coq_Pos.pred_N a0) (Coq_Pos.pred_N b0))))
 end

(** val nth : nat -> 'a1 list -> 'a1 -> 'a1 **)

let rec nth n0 l default =
  match n0 with
  | O -> (match l with
          | [] -> default
          | x :: _ -> x)
  | S m -> (match l with
            | [] -> default
            | _ :: t -> nth m t default)

(** val nth_error : 'a1 list -> nat -> 'a1 option **)

let rec nth_error l = function
| O -> (match l with
        | [] -> None
        | x :: _ -> Some x)
| S n1 -> (match l with
           | [] -> None
           | _ :: l0 -> nth_error l0 n1)

(** val rev : 'a1 list -> 'a1 list **)

let rec rev = function
| [] -> []
| x :: l' -> app (rev l') (x :: [])

(** val map : ('a1 -> 'a2) -> 'a1 list -> 'a2 list **)

let rec map f = function
| [] -> []
| a :: t -> (f a) :: (map f t)

(** val flat_map : ('a1 -> 'a2 list) -> 'a1 list -> 'a2 list **)

let rec flat_map f = function
| [] -> []
| x :: t -> app (f x) (flat_map f t)

(** val fold_left : ('a1 -> 'a2 -> 'a1) -> 'a2 list -> 'a1 -> 'a1 **)

let rec fold_left f l a0 =
  match l with
  | [] -> a0
  | b :: t -> fold_left f t (f a0 b)

(** val existsb : ('a1 -> bool) -> 'a1 list -> bool **)

let rec existsb f = function
| [] -> false
| a :: l0 -> (||) (f a) (existsb f l0)

(** val filter : ('a1 -> bool) -> 'a1 list -> 'a1 list **)

let rec filter f = function
| [] -> []
| x :: l0 -> if f x then x :: (filter f l0) else filter f l0

(** val repeat : 'a1 -> nat -> 'a1 list **)

let rec repeat x = function
| O -> []
| S k -> x :: (repeat x k)

(** val wrap32 : z -> z **)

let wrap32 z0 =
  Z.sub
    (Z.modulo
      (Z.add z0 (Zpos (XO (XO (XO (XO (XO (XO (XO (XO (XO (XO (XO (XO (XO (XO
        (XO (XO (XO (XO (XO (XO (XO (XO (XO (XO (XO (XO (XO (XO (XO (XO (XO
        XH))))))))))))))))))))))))))))))))) (Zpos (XO (XO (XO (XO (XO (XO (XO
      (XO (XO (XO (XO (XO (XO (XO (XO (XO (XO (XO (XO (XO (XO (XO (XO (XO (XO
      (XO (XO (XO (XO (XO (XO (XO XH)))))))))))))))))))))))))))))))))) (Zpos
    (XO (XO (XO (XO (XO (XO (XO (XO (XO (XO (XO (XO (XO (XO (XO (XO (XO (XO
    (XO (XO (XO (XO (XO (XO (XO (XO (XO (XO (XO (XO (XO
    XH))))))))))))))))))))))))))))))))

(** val split_at : z -> z list -> z list -> z list list * z list **)

let rec split_at d bs cur =
  match bs with
  | [] -> ([], (rev cur))
  | b :: r ->
    if Z.eqb b d
    then let (rs, t) = split_at d r [] in (((rev cur) :: rs), t)
    else split_at d r (b :: cur)

(** val strip_cr : z list -> z list **)

let strip_cr l =
  match rev l with
  | [] -> l
  | z0 :: r ->
    (match z0 with
     | Zpos p ->
       (match p with
        | XI p0 ->
          (match p0 with
           | XO p1 ->
             (match p1 with
              | XI p2 -> (match p2 with
                          | XH -> rev r
                          | _ -> l)
              | _ -> l)
           | _ -> l)
        | _ -> l)
     | _ -> l)

(** val records : z -> bool -> z list -> z list list **)

let records d cr bs =
  let (rs, t) = split_at d bs [] in
  app (map (if cr then strip_cr else (fun x -> x)) rs)
    (match t with
     | [] -> []
     | _ :: _ -> t :: [])

(** val unrecords : z -> z list list -> z list **)

let unrecords d rs =
  flat_map (fun r -> app r (d :: [])) rs

(** val invalid_key : n **)

let invalid_key =
  N0

(** val init_size : n **)

let init_size =
  Npos (XI (XO XH))

(** val size_plus : n **)

let size_plus =
  Npos XH

(** val mult_num : n **)

let mult_num =
  Npos (XO (XI (XI XH)))

(** val mult_den : n **)

let mult_den =
  Npos (XO (XI (XO XH)))

(** val thr_sub : n **)

let thr_sub =
  Npos XH

(** val thr_num : n **)

let thr_num =
  Npos (XI (XI (XO (XI (XO (XO XH))))))

(** val thr_den : n **)

let thr_den =
  Npos (XO (XO (XI (XO (XO (XI XH))))))

(** val grow_factor : n **)

let grow_factor =
  Npos (XO XH)

(** val mask_shl : n **)

let mask_shl =
  Npos XH

(** val mask_or : n **)

let mask_or =
  Npos XH

(** val round_shifts : n list **)

let round_shifts =
  (Npos XH) :: ((Npos (XO XH)) :: ((Npos (XO (XO XH))) :: ((Npos (XO (XO (XO
    XH)))) :: ((Npos (XO (XO (XO (XO XH))))) :: ((Npos (XO (XO (XO (XO (XO
    XH)))))) :: [])))))

type 'a res =
| Ok of 'a
| ErrFuel
| ErrBounds
| ErrFull

(** val bind : 'a1 res -> ('a1 -> 'a2 res) -> 'a2 res **)

let bind r f =
  match r with
  | Ok a -> f a
  | ErrFuel -> ErrFuel
  | ErrBounds -> ErrBounds
  | ErrFull -> ErrFull

(** val invalid : n **)

let invalid =
  invalid_key

(** val get : 'a1 list -> n -> 'a1 option **)

let get l i =
  nth_error l (N.to_nat i)

(** val upd_nat : 'a1 list -> nat -> 'a1 -> 'a1 list **)

let rec upd_nat l n0 x =
  match l with
  | [] -> []
  | h :: t -> (match n0 with
               | O -> x :: t
               | S m -> h :: (upd_nat t m x))

(** val upd : 'a1 list -> n -> 'a1 -> 'a1 list **)

let upd l i x =
  upd_nat l (N.to_nat i) x

(** val two64 : n **)

let two64 =
  Npos (XO (XO (XO (XO (XO (XO (XO (XO (XO (XO (XO (XO (XO (XO (XO (XO (XO
    (XO (XO (XO (XO (XO (XO (XO (XO (XO (XO (XO (XO (XO (XO (XO (XO (XO (XO
    (XO (XO (XO (XO (XO (XO (XO (XO (XO (XO (XO (XO (XO (XO (XO (XO (XO (XO
    (XO (XO (XO (XO (XO (XO (XO (XO (XO (XO (XO
    XH))))))))))))))))))))))))))))))))))))))))))))))))))))))))))))))))

(** val round_buckets : n -> n **)

let round_buckets from =
  let f0 = N.modulo (N.sub (N.add from two64) (Npos XH)) two64 in
  N.modulo
    (N.add
      (fold_left (fun f s -> N.coq_lor f (N.shiftr f s)) round_shifts f0)
      (Npos XH)) two64

(** val mask_double : n -> n **)

let mask_double mask1 =
  N.coq_lor (N.shiftl mask1 mask_shl) mask_or

type 'v entry = n * 'v

(** val ekey : 'a1 entry -> n **)

let ekey =
  fst

(** val set_key : 'a1 entry -> n -> 'a1 entry **)

let set_key e k =
  (k, (snd e))

type 'v ptable = { cells : 'v entry list; nbuckets : n; mask0 : n; entries : n }

(** val ideal : (n -> n) -> n -> n -> n **)

let ideal hash mask1 k =
  N.coq_land (hash k) mask1

(** val next : n -> n -> n **)

let next mask1 i =
  N.coq_land (N.add i (Npos XH)) mask1

(** val find_loop : nat -> 'a1 entry list -> n -> n -> n -> n option res **)

let rec find_loop fuel cs mask1 i k =
  match fuel with
  | O -> ErrFuel
  | S f ->
    (match get cs i with
     | Some e ->
       if N.eqb (ekey e) k
       then Ok (Some i)
       else if N.eqb (ekey e) invalid
            then Ok None
            else find_loop f cs mask1 (next mask1 i) k
     | None -> ErrBounds)

(** val find : (n -> n) -> 'a1 ptable -> n -> n option res **)

let find hash t k =
  find_loop (length t.cells) t.cells t.mask0 (ideal hash t.mask0 k) k

(** val foi_loop :
    nat -> 'a1 ptable -> n -> 'a1 entry -> ((bool * n) * 'a1 ptable) res **)

let rec foi_loop fuel t i e =
  match fuel with
  | O -> ErrFuel
  | S f ->
    (match get t.cells i with
     | Some got ->
       if N.eqb (ekey got) (ekey e)
       then Ok ((true, i), t)
       else if N.eqb (ekey got) invalid
            then let entries' = N.add t.entries (Npos XH) in
                 if N.leb t.nbuckets entries'
                 then ErrFull
                 else Ok ((false, i), { cells = (upd t.cells i e); nbuckets =
                        t.nbuckets; mask0 = t.mask0; entries = entries' })
            else foi_loop f t (next t.mask0 i) e
     | None -> ErrBounds)

(** val find_or_insert :
    (n -> n) -> 'a1 ptable -> 'a1 entry -> ((bool * n) * 'a1 ptable) res **)

let find_or_insert hash t e =
  foi_loop (length t.cells) t (ideal hash t.mask0 (ekey e)) e

(** val ui_loop :
    nat -> 'a1 entry list -> n -> n -> 'a1 entry -> ('a1 entry list * n) res **)

let rec ui_loop fuel cs mask1 i e =
  match fuel with
  | O -> ErrFuel
  | S f ->
    (match get cs i with
     | Some got ->
       if N.eqb (ekey got) invalid
       then Ok ((upd cs i e), i)
       else ui_loop f cs mask1 (next mask1 i) e
     | None -> ErrBounds)

(** val unchecked_insert :
    (n -> n) -> 'a1 entry list -> n -> 'a1 entry -> ('a1 entry list * n) res **)

let unchecked_insert hash cs mask1 e =
  ui_loop (length cs) cs mask1 (ideal hash mask1 (ekey e)) e

(** val park_loop :
    nat -> 'a1 entry list -> n -> 'a1 entry list -> ('a1 entry list * 'a1
    entry list) res **)

let rec park_loop n0 cs i rolled =
  match n0 with
  | O -> Ok (cs, rolled)
  | S n' ->
    (match get cs i with
     | Some e ->
       if N.eqb (ekey e) invalid
       then Ok (cs, rolled)
       else park_loop n' (upd cs i (set_key e invalid)) (N.add i (Npos XH))
              (app rolled (e :: []))
     | None -> ErrBounds)

(** val reinsert_loop :
    (n -> n) -> nat -> 'a1 entry list -> n -> n -> 'a1 entry list res **)

let rec reinsert_loop hash n0 cs mask1 i =
  match n0 with
  | O -> Ok cs
  | S n' ->
    (match get cs i with
     | Some e ->
       if N.eqb (ekey e) invalid
       then reinsert_loop hash n' cs mask1 (N.add i (Npos XH))
       else bind
              (unchecked_insert hash (upd cs i (set_key e invalid)) mask1 e)
              (fun r ->
              reinsert_loop hash n' (fst r) mask1 (N.add i (Npos XH)))
     | None -> ErrBounds)

(** val unpark_loop :
    (n -> n) -> 'a1 entry list -> 'a1 entry list -> n -> 'a1 entry list res **)

let rec unpark_loop hash rolled cs mask1 =
  match rolled with
  | [] -> Ok cs
  | e :: r ->
    bind (unchecked_insert hash cs mask1 e) (fun x ->
      unpark_loop hash r (fst x) mask1)

(** val double0 : 'a1 -> (n -> n) -> 'a1 ptable -> 'a1 ptable res **)

let double0 v0 hash t =
  let old_end = t.nbuckets in
  let nb' = N.mul t.nbuckets grow_factor in
  let mask' = mask_double t.mask0 in
  let cs0 = app t.cells (repeat (invalid, v0) (N.to_nat (N.sub nb' old_end)))
  in
  bind (park_loop (N.to_nat old_end) cs0 N0 []) (fun pr ->
    bind (reinsert_loop hash (N.to_nat old_end) (fst pr) mask' N0)
      (fun cs2 ->
      bind (unpark_loop hash (snd pr) cs2 mask') (fun cs3 -> Ok { cells =
        cs3; nbuckets = nb'; mask0 = mask'; entries = t.entries })))

type 'v auto = { backend : 'v ptable; threshold : n }

(** val threshold_of : n -> n **)

let threshold_of nb =
  N.min (N.sub nb thr_sub) (N.div (N.mul nb thr_num) thr_den)

(** val initial_buckets : n -> n **)

let initial_buckets n0 =
  round_buckets
    (N.max (N.add n0 size_plus) (N.div (N.mul n0 mult_num) mult_den))

(** val auto_init_n : 'a1 -> n -> 'a1 auto **)

let auto_init_n v0 n0 =
  let nb = initial_buckets n0 in
  { backend = { cells = (repeat (invalid, v0) (N.to_nat nb)); nbuckets = nb;
  mask0 = (N.sub nb (Npos XH)); entries = N0 }; threshold =
  (threshold_of nb) }

(** val auto_init : 'a1 -> 'a1 auto **)

let auto_init v0 =
  auto_init_n v0 init_size

(** val auto_size : 'a1 auto -> n **)

let auto_size a =
  a.backend.entries

(** val double_if_needed : 'a1 -> (n -> n) -> 'a1 auto -> 'a1 auto res **)

let double_if_needed v0 hash a =
  if N.ltb (auto_size a) a.threshold
  then Ok a
  else bind (double0 v0 hash a.backend) (fun t' -> Ok { backend = t';
         threshold = (threshold_of t'.nbuckets) })

(** val auto_find_or_insert :
    'a1 -> (n -> n) -> 'a1 auto -> 'a1 entry -> ((bool * n) * 'a1 auto) res **)

let auto_find_or_insert v0 hash a e =
  bind (double_if_needed v0 hash a) (fun a1 ->
    bind (find_or_insert hash a1.backend e) (fun r ->
      let (p, t') = r in
      let (found, pos) = p in
      Ok ((found, pos), { backend = t'; threshold = a1.threshold })))

(** val auto_find : (n -> n) -> 'a1 auto -> n -> n option res **)

let auto_find hash a k =
  find hash a.backend k

type dtable = unit auto

(** val idhash : n -> n **)

let idhash x =
  x

type dstate = { d_tab : dtable; d_seen_zero : bool }

(** val dedupe_init : dstate **)

let dedupe_init =
  { d_tab = (auto_init ()); d_seen_zero = false }

(** val seen_pass : bool -> n -> dstate -> n -> (bool * dstate) res **)

let seen_pass guard rk s k =
  if (&&) guard (N.eqb k rk)
  then Ok ((negb s.d_seen_zero), { d_tab = s.d_tab; d_seen_zero = true })
  else bind (auto_find_or_insert () idhash s.d_tab (k, ())) (fun r ->
         let (p, t') = r in
         let (found, _) = p in
         Ok ((negb found), { d_tab = t'; d_seen_zero = s.d_seen_zero }))

(** val seen_find : bool -> n -> dstate -> n -> bool res **)

let seen_find guard rk s k =
  if (&&) guard (N.eqb k rk)
  then Ok s.d_seen_zero
  else bind (auto_find idhash s.d_tab k) (fun r -> Ok
         (match r with
          | Some _ -> true
          | None -> false))

(** val mem : n -> n list -> bool **)

let mem k seen =
  existsb (N.eqb k) seen

(** val first_occ_from : ('a1 -> n) -> n list -> 'a1 list -> 'a1 list **)

let rec first_occ_from key seen = function
| [] -> []
| l :: r ->
  if mem (key l) seen
  then first_occ_from key seen r
  else l :: (first_occ_from key ((key l) :: seen) r)

(** val newline : z **)

let newline =
  Zpos (XO (XI (XO XH)))

(** val subtract_has_reserved_guard : bool **)

let subtract_has_reserved_guard =
  true

(** val cc_has_reserved_guard : bool **)

let cc_has_reserved_guard =
  true

(** val cc_magic : z list **)

let cc_magic =
  (Zpos (XO (XO (XI (XO (XO (XI XH))))))) :: ((Zpos (XO (XI (XI (XO (XO (XI
    XH))))))) :: ((Zpos (XO (XI (XI (XO (XI XH)))))) :: ((Zpos (XO (XI (XI
    (XO (XO (XI XH))))))) :: ((Zpos (XI (XO (XO (XO (XO (XI
    XH))))))) :: ((Zpos (XI (XO (XO (XO (XI XH)))))) :: ((Zpos (XI (XO (XO
    (XO (XO (XI XH))))))) :: ((Zpos (XO (XI (XO (XO (XO (XI
    XH))))))) :: ((Zpos (XO (XI (XO (XO (XO (XI XH))))))) :: ((Zpos (XI (XO
    (XI (XO (XI XH)))))) :: ((Zpos (XO (XO (XO (XI (XI XH)))))) :: ((Zpos (XI
    (XO (XI (XO (XI XH)))))) :: ((Zpos (XO (XO (XI (XO (XI XH)))))) :: ((Zpos
    (XI (XO (XO (XI (XI XH)))))) :: ((Zpos (XO (XI (XO (XO (XI
    XH)))))) :: ((Zpos (XO (XO (XO (XI (XI XH)))))) :: ((Zpos (XI (XI (XI (XO
    (XI XH)))))) :: ((Zpos (XI (XO (XO (XO (XI XH)))))) :: ((Zpos (XI (XO (XO
    (XO (XI XH)))))) :: ((Zpos (XI (XO (XO (XO (XI XH)))))) :: ((Zpos (XO (XI
    (XO (XO (XO (XI XH))))))) :: ((Zpos (XI (XO (XO (XO (XO (XI
    XH))))))) :: ((Zpos (XO (XO (XO (XI (XI XH)))))) :: ((Zpos (XO (XO (XI
    (XO (XO (XI XH))))))) :: ((Zpos (XI (XI (XI (XO (XI XH)))))) :: ((Zpos
    (XI (XI (XI (XO (XI XH)))))) :: ((Zpos (XO (XI (XI (XO (XI
    XH)))))) :: ((Zpos (XI (XI (XI (XO (XI XH)))))) :: ((Zpos (XI (XI (XO (XO
    (XI XH)))))) :: ((Zpos (XI (XI (XO (XO (XI XH)))))) :: ((Zpos (XI (XO (XI
    (XO (XO (XI XH))))))) :: ((Zpos (XI (XO (XO (XI (XI
    XH)))))) :: [])))))))))))))))))))))))))))))))

(** val kSpaces : bool list **)

let kSpaces =
  false :: (false :: (false :: (false :: (false :: (false :: (false :: (false :: (false :: (true :: (true :: (true :: (true :: (true :: (false :: (false :: (false :: (false :: (false :: (false :: (false :: (false :: (false :: (false :: (false :: (false :: (false :: (false :: (false :: (false :: (false :: (false :: (true :: (false :: (false :: (false :: (false :: (false :: (false :: (false :: (false :: (false :: (false :: (false :: (false :: (false :: (false :: (false :: (false :: (false :: (false :: (false :: (false :: (false :: (false :: (false :: (false :: (false :: (false :: (false :: (false :: (false :: (false :: (false :: (false :: (false :: (false :: (false :: (false :: (false :: (false :: (false :: (false :: (false :: (false :: (false :: (false :: (false :: (false :: (false :: (false :: (false :: (false :: (false :: (false :: (false :: (false :: (false :: (false :: (false :: (false :: (false :: (false :: (false :: (false :: (false :: (false :: (false :: (false :: (false :: (false :: (false :: (false :: (false :: (false :: (false :: (false :: (false :: (false :: (false :: (false :: (false :: (false :: (false :: (false :: (false :: (false :: (false :: (false :: (false :: (false :: (false :: (false :: (false :: (false :: (false :: (false :: (false :: (false :: (false :: (false :: (false :: (false :: (false :: (false :: (false :: (false :: (false :: (false :: (false :: (false :: (false :: (false :: (false :: (false :: (false :: (false :: (false :: (false :: (false :: (false :: (false :: (false :: (false :: (false :: (false :: (false :: (false :: (false :: (false :: (false :: (false :: (false :: (false :: (false :: (false :: (false :: (false :: (false :: (false :: (false :: (false :: (false :: (false :: (false :: (false :: (false :: (false :: (false :: (false :: (false :: (false :: (false :: (false :: (false :: (false :: (false :: (false :: (false :: (false :: (false :: (false :: (false :: (false :: (false :: (false :: (false :: (false :: (false :: (false :: (false :: (false :: (false :: (false :: (false :: (false :: (false :: (false :: (false :: (false :: (false :: (false :: (false :: (false :: (false :: (false :: (false :: (false :: (false :: (false :: (false :: (false :: (false :: (false :: (false :: (false :: (false :: (false :: (false :: (false :: (false :: (false :: (false :: (false :: (false :: (false :: (false :: (false :: (false :: (false :: (false :: (false :: (false :: (false :: (false :: (false :: (false :: (false :: (false :: (false :: (false :: (false :: (false :: (false :: (false :: (false :: [])))))))))))))))))))))))))))))))))))))))))))))))))))))))))))))))))))))))))))))))))))))))))))))))))))))))))))))))))))))))))))))))))))))))))))))))))))))))))))))))))))))))))))))))))))))))))))))))))))))))))))))))))))))))))))))))))))))))))))))))))))))))))))))))

(** val sc_control_bound : z **)

let sc_control_bound =
  Zpos (XO (XO (XO (XO (XO XH)))))

(** val iNV_TABLE : z list **)

let iNV_TABLE =
  (Zneg XH) :: ((Zneg XH) :: ((Zneg XH) :: ((Zneg XH) :: ((Zneg XH) :: ((Zneg
    XH) :: ((Zneg XH) :: ((Zneg XH) :: ((Zneg XH) :: ((Zneg XH) :: ((Zneg
    XH) :: ((Zneg XH) :: ((Zneg XH) :: ((Zneg XH) :: ((Zneg XH) :: ((Zneg
    XH) :: ((Zneg XH) :: ((Zneg XH) :: ((Zneg XH) :: ((Zneg XH) :: ((Zneg
    XH) :: ((Zneg XH) :: ((Zneg XH) :: ((Zneg XH) :: ((Zneg XH) :: ((Zneg
    XH) :: ((Zneg XH) :: ((Zneg XH) :: ((Zneg XH) :: ((Zneg XH) :: ((Zneg
    XH) :: ((Zneg XH) :: ((Zneg XH) :: ((Zneg XH) :: ((Zneg XH) :: ((Zneg
    XH) :: ((Zneg XH) :: ((Zneg XH) :: ((Zneg XH) :: ((Zneg XH) :: ((Zneg
    XH) :: ((Zneg XH) :: ((Zneg XH) :: ((Zpos (XO (XI (XI (XI (XI
    XH)))))) :: ((Zneg XH) :: ((Zneg XH) :: ((Zneg XH) :: ((Zpos (XI (XI (XI
    (XI (XI XH)))))) :: ((Zpos (XO (XO (XI (XO (XI XH)))))) :: ((Zpos (XI (XO
    (XI (XO (XI XH)))))) :: ((Zpos (XO (XI (XI (XO (XI XH)))))) :: ((Zpos (XI
    (XI (XI (XO (XI XH)))))) :: ((Zpos (XO (XO (XO (XI (XI XH)))))) :: ((Zpos
    (XI (XO (XO (XI (XI XH)))))) :: ((Zpos (XO (XI (XO (XI (XI
    XH)))))) :: ((Zpos (XI (XI (XO (XI (XI XH)))))) :: ((Zpos (XO (XO (XI (XI
    (XI XH)))))) :: ((Zpos (XI (XO (XI (XI (XI XH)))))) :: ((Zneg
    XH) :: ((Zneg XH) :: ((Zneg XH) :: ((Zneg XH) :: ((Zneg XH) :: ((Zneg
    XH) :: ((Zneg XH) :: (Z0 :: ((Zpos XH) :: ((Zpos (XO XH)) :: ((Zpos (XI
    XH)) :: ((Zpos (XO (XO XH))) :: ((Zpos (XI (XO XH))) :: ((Zpos (XO (XI
    XH))) :: ((Zpos (XI (XI XH))) :: ((Zpos (XO (XO (XO XH)))) :: ((Zpos (XI
    (XO (XO XH)))) :: ((Zpos (XO (XI (XO XH)))) :: ((Zpos (XI (XI (XO
    XH)))) :: ((Zpos (XO (XO (XI XH)))) :: ((Zpos (XI (XO (XI
    XH)))) :: ((Zpos (XO (XI (XI XH)))) :: ((Zpos (XI (XI (XI
    XH)))) :: ((Zpos (XO (XO (XO (XO XH))))) :: ((Zpos (XI (XO (XO (XO
    XH))))) :: ((Zpos (XO (XI (XO (XO XH))))) :: ((Zpos (XI (XI (XO (XO
    XH))))) :: ((Zpos (XO (XO (XI (XO XH))))) :: ((Zpos (XI (XO (XI (XO
    XH))))) :: ((Zpos (XO (XI (XI (XO XH))))) :: ((Zpos (XI (XI (XI (XO
    XH))))) :: ((Zpos (XO (XO (XO (XI XH))))) :: ((Zpos (XI (XO (XO (XI
    XH))))) :: ((Zneg XH) :: ((Zneg XH) :: ((Zneg XH) :: ((Zneg XH) :: ((Zneg
    XH) :: ((Zneg XH) :: ((Zpos (XO (XI (XO (XI XH))))) :: ((Zpos (XI (XI (XO
    (XI XH))))) :: ((Zpos (XO (XO (XI (XI XH))))) :: ((Zpos (XI (XO (XI (XI
    XH))))) :: ((Zpos (XO (XI (XI (XI XH))))) :: ((Zpos (XI (XI (XI (XI
    XH))))) :: ((Zpos (XO (XO (XO (XO (XO XH)))))) :: ((Zpos (XI (XO (XO (XO
    (XO XH)))))) :: ((Zpos (XO (XI (XO (XO (XO XH)))))) :: ((Zpos (XI (XI (XO
    (XO (XO XH)))))) :: ((Zpos (XO (XO (XI (XO (XO XH)))))) :: ((Zpos (XI (XO
    (XI (XO (XO XH)))))) :: ((Zpos (XO (XI (XI (XO (XO XH)))))) :: ((Zpos (XI
    (XI (XI (XO (XO XH)))))) :: ((Zpos (XO (XO (XO (XI (XO XH)))))) :: ((Zpos
    (XI (XO (XO (XI (XO XH)))))) :: ((Zpos (XO (XI (XO (XI (XO
    XH)))))) :: ((Zpos (XI (XI (XO (XI (XO XH)))))) :: ((Zpos (XO (XO (XI (XI
    (XO XH)))))) :: ((Zpos (XI (XO (XI (XI (XO XH)))))) :: ((Zpos (XO (XI (XI
    (XI (XO XH)))))) :: ((Zpos (XI (XI (XI (XI (XO XH)))))) :: ((Zpos (XO (XO
    (XO (XO (XI XH)))))) :: ((Zpos (XI (XO (XO (XO (XI XH)))))) :: ((Zpos (XO
    (XI (XO (XO (XI XH)))))) :: ((Zpos (XI (XI (XO (XO (XI XH)))))) :: ((Zneg
    XH) :: ((Zneg XH) :: ((Zneg XH) :: ((Zneg XH) :: ((Zneg XH) :: ((Zneg
    XH) :: ((Zneg XH) :: ((Zneg XH) :: ((Zneg XH) :: ((Zneg XH) :: ((Zneg
    XH) :: ((Zneg XH) :: ((Zneg XH) :: ((Zneg XH) :: ((Zneg XH) :: ((Zneg
    XH) :: ((Zneg XH) :: ((Zneg XH) :: ((Zneg XH) :: ((Zneg XH) :: ((Zneg
    XH) :: ((Zneg XH) :: ((Zneg XH) :: ((Zneg XH) :: ((Zneg XH) :: ((Zneg
    XH) :: ((Zneg XH) :: ((Zneg XH) :: ((Zneg XH) :: ((Zneg XH) :: ((Zneg
    XH) :: ((Zneg XH) :: ((Zneg XH) :: ((Zneg XH) :: ((Zneg XH) :: ((Zneg
    XH) :: ((Zneg XH) :: ((Zneg XH) :: ((Zneg XH) :: ((Zneg XH) :: ((Zneg
    XH) :: ((Zneg XH) :: ((Zneg XH) :: ((Zneg XH) :: ((Zneg XH) :: ((Zneg
    XH) :: ((Zneg XH) :: ((Zneg XH) :: ((Zneg XH) :: ((Zneg XH) :: ((Zneg
    XH) :: ((Zneg XH) :: ((Zneg XH) :: ((Zneg XH) :: ((Zneg XH) :: ((Zneg
    XH) :: ((Zneg XH) :: ((Zneg XH) :: ((Zneg XH) :: ((Zneg XH) :: ((Zneg
    XH) :: ((Zneg XH) :: ((Zneg XH) :: ((Zneg XH) :: ((Zneg XH) :: ((Zneg
    XH) :: ((Zneg XH) :: ((Zneg XH) :: ((Zneg XH) :: ((Zneg XH) :: ((Zneg
    XH) :: ((Zneg XH) :: ((Zneg XH) :: ((Zneg XH) :: ((Zneg XH) :: ((Zneg
    XH) :: ((Zneg XH) :: ((Zneg XH) :: ((Zneg XH) :: ((Zneg XH) :: ((Zneg
    XH) :: ((Zneg XH) :: ((Zneg XH) :: ((Zneg XH) :: ((Zneg XH) :: ((Zneg
    XH) :: ((Zneg XH) :: ((Zneg XH) :: ((Zneg XH) :: ((Zneg XH) :: ((Zneg
    XH) :: ((Zneg XH) :: ((Zneg XH) :: ((Zneg XH) :: ((Zneg XH) :: ((Zneg
    XH) :: ((Zneg XH) :: ((Zneg XH) :: ((Zneg XH) :: ((Zneg XH) :: ((Zneg
    XH) :: ((Zneg XH) :: ((Zneg XH) :: ((Zneg XH) :: ((Zneg XH) :: ((Zneg
    XH) :: ((Zneg XH) :: ((Zneg XH) :: ((Zneg XH) :: ((Zneg XH) :: ((Zneg
    XH) :: ((Zneg XH) :: ((Zneg XH) :: ((Zneg XH) :: ((Zneg XH) :: ((Zneg
    XH) :: ((Zneg XH) :: ((Zneg XH) :: ((Zneg XH) :: ((Zneg XH) :: ((Zneg
    XH) :: ((Zneg XH) :: ((Zneg XH) :: ((Zneg XH) :: ((Zneg XH) :: ((Zneg
    XH) :: ((Zneg XH) :: ((Zneg XH) :: ((Zneg XH) :: ((Zneg XH) :: ((Zneg
    XH) :: ((Zneg XH) :: ((Zneg
    XH) :: [])))))))))))))))))))))))))))))))))))))))))))))))))))))))))))))))))))))))))))))))))))))))))))))))))))))))))))))))))))))))))))))))))))))))))))))))))))))))))))))))))))))))))))))))))))))))))))))))))))))))))))))))))))))))))))))))))))))))))))))))))))))))))))))))

(** val dec_val0 : z **)

let dec_val0 =
  Z0

(** val dec_valb0 : z **)

let dec_valb0 =
  Zneg (XO (XO (XO XH)))

(** val dec_pad_char : z **)

let dec_pad_char =
  Zpos (XI (XO (XI (XI (XI XH)))))

(** val dec_reject : z **)

let dec_reject =
  Zneg XH

(** val dec_shift : z **)

let dec_shift =
  Zpos (XO (XI XH))

(** val dec_valb_add : z **)

let dec_valb_add =
  Zpos (XO (XI XH))

(** val dec_out_bound : z **)

let dec_out_bound =
  Z0

(** val dec_mask : z **)

let dec_mask =
  Zpos (XI (XI (XI (XI (XI (XI (XI XH)))))))

(** val dec_valb_sub : z **)

let dec_valb_sub =
  Zpos (XO (XO (XO XH)))

(** val inv : z -> z **)

let inv c =
  nth (Z.to_nat c) iNV_TABLE Z0

(** val sel : z -> z -> z -> z **)

let sel val0 valb mask1 =
  Z.coq_land (Z.shiftr val0 valb) mask1

type dres =
| DOk of z list
| DBadChar of z
| DLengthError

(** val count_padding_rev : z list -> nat **)

let rec count_padding_rev = function
| [] -> O
| c :: r' ->
  if Z.eqb c (Zpos (XI (XO (XI (XI (XI XH))))))
  then S (count_padding_rev r')
  else O

(** val count_padding : z list -> nat **)

let count_padding cs =
  count_padding_rev (rev cs)

(** val dec_loop : z list -> z -> z -> dres **)

let rec dec_loop cs val0 valb =
  match cs with
  | [] -> DOk []
  | c :: r ->
    if Z.eqb c dec_pad_char
    then DOk []
    else if Z.eqb (inv c) dec_reject
         then DBadChar c
         else let val' =
                wrap32
                  (Z.add (Z.mul val0 (Z.pow (Zpos (XO XH)) dec_shift))
                    (inv c))
              in
              let valb' = Z.add valb dec_valb_add in
              if Z.geb valb' dec_out_bound
              then (match dec_loop r val' (Z.sub valb' dec_valb_sub) with
                    | DOk o -> DOk ((sel val' valb' dec_mask) :: o)
                    | x -> x)
              else dec_loop r val' valb'

(** val base64_decode : z list -> dres **)

let base64_decode cs =
  if Z.ltb
       (Z.div (Z.mul (Z.of_nat (length cs)) (Zpos (XI XH))) (Zpos (XO (XO
         XH)))) (Z.of_nat (count_padding cs))
  then DLengthError
  else dec_loop cs dec_val0 dec_valb0

type line = z list

(** val long_keep : n -> line -> bool **)

let long_keep limit l =
  N.leb (N.of_nat (length l)) limit

(** val remove_long_lines : n -> line list -> line list **)

let remove_long_lines limit ls =
  filter (long_keep limit) ls

(** val trail : z -> bool **)

let trail b =
  (&&) (Z.leb (Zpos (XO (XO (XO (XO (XO (XO (XO XH)))))))) b)
    (Z.leb b (Zpos (XI (XI (XI (XI (XI (XI (XO XH)))))))))

(** val decode1 : z list -> (z * z list) option **)

let decode1 = function
| [] -> None
| b0 :: r0 ->
  if Z.ltb b0 (Zpos (XO (XO (XO (XO (XO (XO (XO XH))))))))
  then Some (b0, r0)
  else (match r0 with
        | [] -> None
        | b1 :: r1 ->
          if (&&)
               ((&&) (Z.leb (Zpos (XO (XI (XO (XO (XO (XO (XI XH)))))))) b0)
                 (Z.leb b0 (Zpos (XI (XI (XI (XI (XI (XO (XI XH))))))))))
               (trail b1)
          then Some
                 ((Z.add
                    (Z.mul
                      (Z.sub b0 (Zpos (XO (XO (XO (XO (XO (XO (XI XH)))))))))
                      (Zpos (XO (XO (XO (XO (XO (XO XH))))))))
                    (Z.sub b1 (Zpos (XO (XO (XO (XO (XO (XO (XO XH)))))))))),
                 r1)
          else (match r1 with
                | [] -> None
                | b2 :: r2 ->
                  if (&&)
                       ((||)
                         ((||)
                           ((||)
                             ((&&)
                               ((&&)
                                 (Z.eqb b0 (Zpos (XO (XO (XO (XO (XO (XI (XI
                                   XH)))))))))
                                 (Z.leb (Zpos (XO (XO (XO (XO (XO (XI (XO
                                   XH)))))))) b1))
                               (Z.leb b1 (Zpos (XI (XI (XI (XI (XI (XI (XO
                                 XH))))))))))
                             ((&&)
                               ((&&)
                                 (Z.leb (Zpos (XI (XO (XO (XO (XO (XI (XI
                                   XH)))))))) b0)
                                 (Z.leb b0 (Zpos (XO (XO (XI (XI (XO (XI (XI
                                   XH)))))))))) (trail b1)))
                           ((&&)
                             ((&&)
                               (Z.eqb b0 (Zpos (XI (XO (XI (XI (XO (XI (XI
                                 XH)))))))))
                               (Z.leb (Zpos (XO (XO (XO (XO (XO (XO (XO
                                 XH)))))))) b1))
                             (Z.leb b1 (Zpos (XI (XI (XI (XI (XI (XO (XO
                               XH)))))))))))
                         ((&&)
                           ((&&)
                             (Z.leb (Zpos (XO (XI (XI (XI (XO (XI (XI
                               XH)))))))) b0)
                             (Z.leb b0 (Zpos (XI (XI (XI (XI (XO (XI (XI
                               XH)))))))))) (trail b1))) (trail b2)
                  then Some
                         ((Z.add
                            (Z.add
                              (Z.mul
                                (Z.sub b0 (Zpos (XO (XO (XO (XO (XO (XI (XI
                                  XH))))))))) (Zpos (XO (XO (XO (XO (XO (XO
                                (XO (XO (XO (XO (XO (XO XH))))))))))))))
                              (Z.mul
                                (Z.sub b1 (Zpos (XO (XO (XO (XO (XO (XO (XO
                                  XH))))))))) (Zpos (XO (XO (XO (XO (XO (XO
                                XH)))))))))
                            (Z.sub b2 (Zpos (XO (XO (XO (XO (XO (XO (XO
                              XH)))))))))), r2)
                  else (match r2 with
                        | [] -> None
                        | b3 :: r3 ->
                          if (&&)
                               ((&&)
                                 ((||)
                                   ((||)
                                     ((&&)
                                       ((&&)
                                         (Z.eqb b0 (Zpos (XO (XO (XO (XO (XI
                                           (XI (XI XH)))))))))
                                         (Z.leb (Zpos (XO (XO (XO (XO (XI (XO
                                           (XO XH)))))))) b1))
                                       (Z.leb b1 (Zpos (XI (XI (XI (XI (XI
                                         (XI (XO XH))))))))))
                                     ((&&)
                                       ((&&)
                                         (Z.leb (Zpos (XI (XO (XO (XO (XI (XI
                                           (XI XH)))))))) b0)
                                         (Z.leb b0 (Zpos (XI (XI (XO (XO (XI
                                           (XI (XI XH)))))))))) (trail b1)))
                                   ((&&)
                                     ((&&)
                                       (Z.eqb b0 (Zpos (XO (XO (XI (XO (XI
                                         (XI (XI XH)))))))))
                                       (Z.leb (Zpos (XO (XO (XO (XO (XO (XO
                                         (XO XH)))))))) b1))
                                     (Z.leb b1 (Zpos (XI (XI (XI (XI (XO (XO
                                       (XO XH))))))))))) (trail b2))
                               (trail b3)
                          then Some
                                 ((Z.add
                                    (Z.add
                                      (Z.add
                                        (Z.mul
                                          (Z.sub b0 (Zpos (XO (XO (XO (XO (XI
                                            (XI (XI XH))))))))) (Zpos (XO (XO
                                          (XO (XO (XO (XO (XO (XO (XO (XO (XO
                                          (XO (XO (XO (XO (XO (XO (XO
                                          XH))))))))))))))))))))
                                        (Z.mul
                                          (Z.sub b1 (Zpos (XO (XO (XO (XO (XO
                                            (XO (XO XH))))))))) (Zpos (XO (XO
                                          (XO (XO (XO (XO (XO (XO (XO (XO (XO
                                          (XO XH)))))))))))))))
                                      (Z.mul
                                        (Z.sub b2 (Zpos (XO (XO (XO (XO (XO
                                          (XO (XO XH))))))))) (Zpos (XO (XO
                                        (XO (XO (XO (XO XH)))))))))
                                    (Z.sub b3 (Zpos (XO (XO (XO (XO (XO (XO
                                      (XO XH)))))))))), r3)
                          else None)))

(** val wf_utf8_fuel : nat -> z list -> bool **)

let rec wf_utf8_fuel fuel bs = match bs with
| [] -> true
| _ :: _ ->
  (match fuel with
   | O -> false
   | S f ->
     (match decode1 bs with
      | Some p -> let (_, r) = p in wf_utf8_fuel f r
      | None -> false))

(** val wf_utf8 : z list -> bool **)

let wf_utf8 bs =
  wf_utf8_fuel (length bs) bs

(** val remove_invalid_utf8 : line list -> line list **)

let remove_invalid_utf8 ls =
  filter wf_utf8 ls

(** val remove_invalid_utf8_base64 : line list -> line list option **)

let rec remove_invalid_utf8_base64 = function
| [] -> Some []
| l :: r ->
  (match base64_decode l with
   | DOk decoded ->
     (match remove_invalid_utf8_base64 r with
      | Some out -> Some ((if wf_utf8 decoded then l else []) :: out)
      | None -> None)
   | _ -> None)

(** val subtract_load : (line -> n) -> dstate -> line list -> dstate res **)

let rec subtract_load key s = function
| [] -> Ok s
| l :: r ->
  bind (seen_pass subtract_has_reserved_guard invalid s (key l)) (fun x ->
    subtract_load key (snd x) r)

(** val subtract_filter :
    (line -> n) -> dstate -> line list -> line list res **)

let rec subtract_filter key s = function
| [] -> Ok []
| l :: r ->
  bind (seen_find subtract_has_reserved_guard invalid s (key l))
    (fun present ->
    bind (subtract_filter key s r) (fun out -> Ok
      (if present then out else l :: out)))

(** val subtract_lines :
    (line -> n) -> line list -> line list -> line list res **)

let subtract_lines key sub0 ls =
  bind (subtract_load key dedupe_init sub0) (fun s ->
    subtract_filter key s ls)

(** val is_space : z -> bool **)

let is_space b =
  nth (Z.to_nat b) kSpaces false

(** val drop_spaces : line -> line **)

let rec drop_spaces l = match l with
| [] -> []
| b :: r -> if is_space b then drop_spaces r else l

(** val strip_spaces : line -> line **)

let strip_spaces l =
  rev (drop_spaces (rev (drop_spaces l)))

(** val starts_with : line -> line -> bool **)

let rec starts_with l = function
| [] -> true
| c :: p' ->
  (match l with
   | [] -> false
   | b :: l' -> (&&) (Z.eqb b c) (starts_with l' p'))

(** val is_new_line : (line -> n) -> dstate -> line -> (bool * dstate) res **)

let is_new_line key s l =
  seen_pass cc_has_reserved_guard invalid s (key l)

(** val cc_load : (line -> n) -> dstate -> line list -> dstate res **)

let rec cc_load key s = function
| [] -> Ok s
| l :: r ->
  bind (is_new_line key s (strip_spaces l)) (fun x -> cc_load key (snd x) r)

(** val cc_filter : (line -> n) -> dstate -> line list -> line list res **)

let rec cc_filter key s = function
| [] -> Ok []
| l0 :: r ->
  let l = strip_spaces l0 in
  if starts_with l cc_magic
  then cc_filter key s r
  else bind (is_new_line key s l) (fun x ->
         bind (cc_filter key (snd x) r) (fun out -> Ok
           (if (&&) (fst x) (wf_utf8 l) then l :: out else out)))

(** val commoncrawl_dedupe :
    (line -> n) -> line list -> line list -> line list res **)

let commoncrawl_dedupe key rem ls =
  bind (cc_load key dedupe_init rem) (fun s -> cc_filter key s ls)

(** val subtract_spec : (line -> n) -> line list -> line list -> line list **)

let subtract_spec key sub0 ls =
  filter (fun l -> negb (mem (key l) (map key sub0))) ls

(** val cc_spec : (line -> n) -> line list -> line list -> line list **)

let cc_spec key rem ls =
  filter wf_utf8
    (first_occ_from key (map key (map strip_spaces rem))
      (filter (fun l -> negb (starts_with l cc_magic)) (map strip_spaces ls)))

type sc_options = { sc_min_chars : n; sc_character_run : n;
                    sc_min_punct_sample_size : n; sc_nscripts : nat }

(** val two0 : n **)

let two0 =
  Npos (XO (XO (XO (XO (XO (XO (XO (XO (XO (XO (XO (XO (XO (XO (XO (XO (XO
    (XO (XO (XO (XO (XO (XO (XO (XO (XO (XO (XO (XO (XO (XO (XO (XO (XO (XO
    (XO (XO (XO (XO (XO (XO (XO (XO (XO (XO (XO (XO (XO (XO (XO (XO (XO (XO
    (XO (XO (XO (XO (XO (XO (XO (XO (XO (XO (XO
    XH))))))))))))))))))))))))))))))))))))))))))))))))))))))))))))))))

type sc_state = { counts : (n -> n); punct : n; spaces : n; total : n;
                  previous : z; previous_run : n }

(** val sc_init : sc_state **)

let sc_init =
  { counts = (fun _ -> N0); punct = N0; spaces = N0; total = N0; previous =
    Z0; previous_run = N0 }

(** val sc_char :
    (z -> n option) -> (z -> bool) -> (z -> bool) -> sc_options -> sc_state
    -> z -> sc_state option **)

let sc_char script_of is_punct is_uspace o st c =
  if (&&)
       ((&&) (Z.ltb c sc_control_bound)
         (negb (Z.eqb c (Zpos (XI (XO (XO XH)))))))
       (negb (Z.eqb c (Zpos (XI (XO (XI XH))))))
  then None
  else (match script_of c with
        | Some sc ->
          let counts' = fun x ->
            if N.eqb x sc then N.add (st.counts x) (Npos XH) else st.counts x
          in
          let punct' =
            if is_punct c then N.add st.punct (Npos XH) else st.punct
          in
          let spaces' =
            if is_uspace c then N.add st.spaces (Npos XH) else st.spaces
          in
          if Z.eqb st.previous c
          then let run = N.add st.previous_run (Npos XH) in
               if (&&) (N.leb o.sc_character_run run) (negb (is_uspace c))
               then None
               else Some { counts = counts'; punct = punct'; spaces =
                      spaces'; total = (N.add st.total (Npos XH)); previous =
                      st.previous; previous_run = run }
          else Some { counts = counts'; punct = punct'; spaces = spaces';
                 total = (N.add st.total (Npos XH)); previous = c;
                 previous_run = (Npos XH) }
        | None -> None)

(** val sc_loop :
    (z -> n option) -> (z -> bool) -> (z -> bool) -> sc_options -> nat ->
    sc_state -> z list -> sc_state option **)

let rec sc_loop script_of is_punct is_uspace o fuel st bs = match bs with
| [] -> Some st
| _ :: _ ->
  (match fuel with
   | O -> None
   | S f ->
     (match decode1 bs with
      | Some p ->
        let (c, r) = p in
        (match sc_char script_of is_punct is_uspace o st c with
         | Some st' -> sc_loop script_of is_punct is_uspace o f st' r
         | None -> None)
      | None -> None))

(** val sc_filter :
    (z -> n option) -> (z -> bool) -> (z -> bool) -> n -> n -> (n -> n ->
    bool) -> (n -> n -> bool) -> ((n -> n) -> n -> bool) -> sc_options ->
    line -> bool **)

let sc_filter script_of is_punct is_uspace script_common script_inherited too_common little_punct script_low o l =
  match sc_loop script_of is_punct is_uspace o (length l) sc_init l with
  | Some st ->
    let characters = st.total in
    if N.ltb characters o.sc_min_chars
    then false
    else let common_inherited =
           N.modulo
             (N.sub
               (N.add
                 (N.add (st.counts script_inherited)
                   (st.counts script_common)) two0) st.spaces) two0
         in
         if too_common common_inherited characters
         then false
         else if (&&) (N.ltb o.sc_min_punct_sample_size characters)
                   (little_punct st.punct characters)
              then false
              else if (&&) (negb (Nat.eqb o.sc_nscripts O))
                        (script_low st.counts characters)
                   then false
                   else true
  | None -> false

(** val split_first : z -> z list -> z list -> z list * z list option **)

let rec split_first d bs acc =
  match bs with
  | [] -> ((rev acc), None)
  | b :: r ->
    if Z.eqb b d then ((rev acc), (Some r)) else split_first d r (b :: acc)

(** val skip_fields : nat -> z -> z list -> z list option **)

let rec skip_fields n0 d rest =
  match n0 with
  | O -> Some rest
  | S n' ->
    (match snd (split_first d rest []) with
     | Some r -> (match r with
                  | [] -> None
                  | _ :: _ -> skip_fields n' d r)
     | None -> None)

(** val take_fields :
    (z -> n option) -> (z -> bool) -> (z -> bool) -> n -> n -> (n -> n ->
    bool) -> (n -> n -> bool) -> ((n -> n) -> n -> bool) -> sc_options -> nat
    -> nat option -> z -> z list -> (bool, z list) sum **)

let rec take_fields script_of is_punct is_uspace script_common script_inherited too_common little_punct script_low o fuel n0 d rest =
  match fuel with
  | O -> Inl true
  | S fuel' ->
    (match n0 with
     | Some n1 ->
       (match n1 with
        | O -> Inr rest
        | S _ ->
          let (field, after) = split_first d rest [] in
          if negb
               (sc_filter script_of is_punct is_uspace script_common
                 script_inherited too_common little_punct script_low o field)
          then Inl false
          else (match after with
                | Some r ->
                  (match r with
                   | [] -> Inl true
                   | _ :: _ ->
                     take_fields script_of is_punct is_uspace script_common
                       script_inherited too_common little_punct script_low o
                       fuel'
                       (match n0 with
                        | Some n2 -> (match n2 with
                                      | O -> None
                                      | S k -> Some k)
                        | None -> None) d r)
                | None -> Inl true))
     | None ->
       let (field, after) = split_first d rest [] in
       if negb
            (sc_filter script_of is_punct is_uspace script_common
              script_inherited too_common little_punct script_low o field)
       then Inl false
       else (match after with
             | Some r ->
               (match r with
                | [] -> Inl true
                | _ :: _ ->
                  take_fields script_of is_punct is_uspace script_common
                    script_inherited too_common little_punct script_low o
                    fuel'
                    (match n0 with
                     | Some n1 -> (match n1 with
                                   | O -> None
                                   | S k -> Some k)
                     | None -> None) d r)
             | None -> Inl true))

(** val individual_fields :
    (z -> n option) -> (z -> bool) -> (z -> bool) -> n -> n -> (n -> n ->
    bool) -> (n -> n -> bool) -> ((n -> n) -> n -> bool) -> sc_options ->
    (nat * nat option) list -> nat -> z -> z list -> bool **)

let rec individual_fields script_of is_punct is_uspace script_common script_inherited too_common little_punct script_low o ranges index d rest =
  match ranges with
  | [] -> true
  | p :: more ->
    let (b, e) = p in
    (match skip_fields (sub b index) d rest with
     | Some rest1 ->
       let idx1 = Nat.max index b in
       (match take_fields script_of is_punct is_uspace script_common
                script_inherited too_common little_punct script_low o (S
                (length rest1))
                (match e with
                 | Some e' -> Some (sub e' idx1)
                 | None -> None) d rest1 with
        | Inl r -> r
        | Inr rest2 ->
          individual_fields script_of is_punct is_uspace script_common
            script_inherited too_common little_punct script_low o more
            (match e with
             | Some e' -> Nat.max idx1 e'
             | None -> idx1) d rest2)
     | None -> true)

(** val sc_line_keep :
    (z -> n option) -> (z -> bool) -> (z -> bool) -> n -> n -> (n -> n ->
    bool) -> (n -> n -> bool) -> ((n -> n) -> n -> bool) -> sc_options ->
    (nat * nat option) list -> z -> line -> bool **)

let sc_line_keep script_of is_punct is_uspace script_common script_inherited too_common little_punct script_low o ranges d l =
  individual_fields script_of is_punct is_uspace script_common
    script_inherited too_common little_punct script_low o ranges O d l

(** val simple_cleaning :
    (z -> n option) -> (z -> bool) -> (z -> bool) -> n -> n -> (n -> n ->
    bool) -> (n -> n -> bool) -> ((n -> n) -> n -> bool) -> sc_options ->
    (nat * nat option) list -> z -> line list -> line list **)

let simple_cleaning script_of is_punct is_uspace script_common script_inherited too_common little_punct script_low o ranges d ls =
  filter
    (sc_line_keep script_of is_punct is_uspace script_common script_inherited
      too_common little_punct script_low o ranges d) ls

(** val lines_of : z list -> line list **)

let lines_of input =
  records newline true input

(** val bytes_of : line list -> z list **)

let bytes_of ls =
  unrecords newline ls
