
type nat =
| O
| S of nat

(** val length : 'a1 list -> nat **)

let rec length = function
| [] -> O
| _ :: l' -> S (length l')

(** val app : 'a1 list -> 'a1 list -> 'a1 list **)

let rec app l m =
  match l with
  | [] -> m
  | a :: l1 -> a :: (app l1 m)

module Coq__1 = struct
 (** val add : nat -> nat -> nat **)
 let rec add n0 m =
   match n0 with
   | O -> m
   | S p -> S (add p m)
end
include Coq__1

(** val sub : nat -> nat -> nat **)

let rec sub n0 m =
  match n0 with
  | O -> n0
  | S k -> (match m with
            | O -> n0
            | S l -> sub k l)

module Nat =
 struct
  (** val leb : nat -> nat -> bool **)

  let rec leb n0 m =
    match n0 with
    | O -> true
    | S n' -> (match m with
               | O -> false
               | S m' -> leb n' m')

  (** val ltb : nat -> nat -> bool **)

  let ltb n0 m =
    leb (S n0) m

  (** val max : nat -> nat -> nat **)

  let rec max n0 m =
    match n0 with
    | O -> m
    | S n' -> (match m with
               | O -> n0
               | S m' -> S (max n' m'))

  (** val min : nat -> nat -> nat **)

  let rec min n0 m =
    match n0 with
    | O -> O
    | S n' -> (match m with
               | O -> O
               | S m' -> S (min n' m'))
 end

(** val firstn : nat -> 'a1 list -> 'a1 list **)

let rec firstn n0 l =
  match n0 with
  | O -> []
  | S n1 -> (match l with
             | [] -> []
             | a :: l0 -> a :: (firstn n1 l0))

(** val skipn : nat -> 'a1 list -> 'a1 list **)

let rec skipn n0 l =
  match n0 with
  | O -> l
  | S n1 -> (match l with
             | [] -> []
             | _ :: l0 -> skipn n1 l0)

(** val repeat : 'a1 -> nat -> 'a1 list **)

let rec repeat x = function
| O -> []
| S k -> x :: (repeat x k)

type positive =
| XI of positive
| XO of positive
| XH

type n =
| N0
| Npos of positive

type z =
| Z0
| Zpos of positive
| Zneg of positive

module Pos =
 struct
  (** val succ : positive -> positive **)

  let rec succ = function
  | XI p -> XO (succ p)
  | XO p -> XI p
  | XH -> XO XH

  (** val add : positive -> positive -> positive **)

  let rec add x y =
    match x with
    | XI p ->
      (match y with
       | XI q -> XO (add_carry p q)
       | XO q -> XI (add p q)
       | XH -> XO (succ p))
    | XO p ->
      (match y with
       | XI q -> XI (add p q)
       | XO q -> XO (add p q)
       | XH -> XI p)
    | XH -> (match y with
             | XI q -> XO (succ q)
             | XO q -> XI q
             | XH -> XO XH)

  (** val add_carry : positive -> positive -> positive **)

  and add_carry x y =
    match x with
    | XI p ->
      (match y with
       | XI q -> XI (add_carry p q)
       | XO q -> XO (add_carry p q)
       | XH -> XI (succ p))
    | XO p ->
      (match y with
       | XI q -> XO (add_carry p q)
       | XO q -> XI (add p q)
       | XH -> XO (succ p))
    | XH ->
      (match y with
       | XI q -> XI (succ q)
       | XO q -> XO (succ q)
       | XH -> XI XH)

  (** val mul : positive -> positive -> positive **)

  let rec mul x y =
    match x with
    | XI p -> add y (XO (mul p y))
    | XO p -> XO (mul p y)
    | XH -> y

  (** val eqb : positive -> positive -> bool **)

  let rec eqb p q =
    match p with
    | XI p0 -> (match q with
                | XI q0 -> eqb p0 q0
                | _ -> false)
    | XO p0 -> (match q with
                | XO q0 -> eqb p0 q0
                | _ -> false)
    | XH -> (match q with
             | XH -> true
             | _ -> false)

  (** val iter_op : ('a1 -> 'a1 -> 'a1) -> positive -> 'a1 -> 'a1 **)

  let rec iter_op op p a =
    match p with
    | XI p0 -> op a (iter_op op p0 (op a a))
    | XO p0 -> iter_op op p0 (op a a)
    | XH -> a

  (** val to_nat : positive -> nat **)

  let to_nat x =
    iter_op Coq__1.add x (S O)

  (** val of_succ_nat : nat -> positive **)

  let rec of_succ_nat = function
  | O -> XH
  | S x -> succ (of_succ_nat x)
 end

module N =
 struct
  (** val add : n -> n -> n **)

  let add n0 m =
    match n0 with
    | N0 -> m
    | Npos p -> (match m with
                 | N0 -> n0
                 | Npos q -> Npos (Pos.add p q))

  (** val mul : n -> n -> n **)

  let mul n0 m =
    match n0 with
    | N0 -> N0
    | Npos p -> (match m with
                 | N0 -> N0
                 | Npos q -> Npos (Pos.mul p q))

  (** val to_nat : n -> nat **)

  let to_nat = function
  | N0 -> O
  | Npos p -> Pos.to_nat p

  (** val of_nat : nat -> n **)

  let of_nat = function
  | O -> N0
  | S n' -> Npos (Pos.of_succ_nat n')
 end

module Z =
 struct
  (** val opp : z -> z **)

  let opp = function
  | Z0 -> Z0
  | Zpos x0 -> Zneg x0
  | Zneg x0 -> Zpos x0

  (** val eqb : z -> z -> bool **)

  let eqb x y =
    match x with
    | Z0 -> (match y with
             | Z0 -> true
             | _ -> false)
    | Zpos p -> (match y with
                 | Zpos q -> Pos.eqb p q
                 | _ -> false)
    | Zneg p -> (match y with
                 | Zneg q -> Pos.eqb p q
                 | _ -> false)

  (** val to_nat : z -> nat **)

  let to_nat = function
  | Zpos p -> Pos.to_nat p
  | _ -> O

  (** val to_N : z -> n **)

  let to_N = function
  | Zpos p -> Npos p
  | _ -> N0

  (** val of_nat : nat -> z **)

  let of_nat = function
  | O -> Z0
  | S n1 -> Zpos (Pos.of_succ_nat n1)

  (** val of_N : n -> z **)

  let of_N = function
  | N0 -> Z0
  | Npos p -> Zpos p
 end

(** val rc_magic_size : nat **)

let rc_magic_size =
  S (S (S (S (S (S O)))))

(** val wr_min_progress : nat **)

let wr_min_progress =
  S O

(** val bs_buffer_size : n **)

let bs_buffer_size =
  Npos (XO (XO (XO (XO (XO (XO (XO (XO (XO (XO (XO (XO (XO XH)))))))))))))

(** val tbs_block_size : n **)

let tbs_block_size =
  Npos (XO (XO (XO (XO (XO (XO (XO (XO (XO (XO (XO (XO (XO XH)))))))))))))

(** val rc_magic_gz : z list **)

let rc_magic_gz =
  (Zpos (XI (XI (XI (XI XH))))) :: ((Zpos (XI (XI (XO (XI (XO (XO (XO
    XH)))))))) :: [])

(** val rc_magic_bz : z list **)

let rc_magic_bz =
  (Zpos (XO (XI (XO (XO (XO (XO XH))))))) :: ((Zpos (XO (XI (XO (XI (XI (XO
    XH))))))) :: ((Zpos (XO (XO (XO (XI (XO (XI XH))))))) :: []))

(** val rc_magic_xz : z list **)

let rc_magic_xz =
  (Zpos (XI (XO (XI (XI (XI (XI (XI XH)))))))) :: ((Zpos (XI (XI (XI (XO (XI
    XH)))))) :: ((Zpos (XO (XI (XO (XI (XI (XI XH))))))) :: ((Zpos (XO (XO
    (XO (XI (XI (XO XH))))))) :: ((Zpos (XO (XI (XO (XI (XI (XO
    XH))))))) :: (Z0 :: [])))))

type outcome =
| Full
| Short of nat
| Eintr
| Err of z

type os = { os_src : z list; os_script : outcome list;
            os_trace : (nat * z) list; os_sink : z list }

(** val os_trace : os -> (nat * z) list **)

let os_trace o =
  o.os_trace

(** val os_sink : os -> z list **)

let os_sink o =
  o.os_sink

(** val os_init : z list -> outcome list -> os **)

let os_init src script =
  { os_src = src; os_script = script; os_trace = []; os_sink = [] }

type sysres =
| SData of z list
| SEintr
| SErr of z

(** val granted : outcome -> nat -> nat **)

let granted oc n0 =
  match oc with
  | Short k -> Nat.min n0 (Nat.max (S O) k)
  | _ -> n0

(** val next_outcome : os -> outcome * outcome list **)

let next_outcome o =
  match o.os_script with
  | [] -> (Full, [])
  | oc :: r -> (oc, r)

(** val sys_read : nat -> os -> sysres * os **)

let sys_read n0 o =
  let (oc, rest) = next_outcome o in
  (match oc with
   | Eintr ->
     (SEintr, { os_src = o.os_src; os_script = rest; os_trace = ((n0, (Zneg
       XH)) :: o.os_trace); os_sink = o.os_sink })
   | Err e ->
     ((SErr e), { os_src = o.os_src; os_script = rest; os_trace = ((n0, (Zneg
       (XO XH))) :: o.os_trace); os_sink = o.os_sink })
   | _ ->
     let m = granted oc n0 in
     let l = firstn m o.os_src in
     ((SData l), { os_src = (skipn m o.os_src); os_script = rest; os_trace =
     ((n0, (Z.of_nat (length l))) :: o.os_trace); os_sink = o.os_sink }))

(** val sys_write : z list -> os -> sysres * os **)

let sys_write data o =
  let n0 = length data in
  let (oc, rest) = next_outcome o in
  (match oc with
   | Eintr ->
     (SEintr, { os_src = o.os_src; os_script = rest; os_trace = ((n0, (Zneg
       XH)) :: o.os_trace); os_sink = o.os_sink })
   | Err e ->
     ((SErr e), { os_src = o.os_src; os_script = rest; os_trace = ((n0, (Zneg
       (XO XH))) :: o.os_trace); os_sink = o.os_sink })
   | _ ->
     let m = granted oc n0 in
     let l = firstn m data in
     ((SData l), { os_src = o.os_src; os_script = rest; os_trace = ((n0,
     (Z.of_nat (length l))) :: o.os_trace); os_sink = (app o.os_sink l) }))

type ioerr =
| EFuel
| EErrno of z
| EEndOfFile
| EWriteZero
| ECompressed

type 'a res =
| Ok of 'a
| Fail of ioerr

(** val eintr_fuel : os -> nat **)

let eintr_fuel o =
  S (length o.os_script)

(** val partial_read_loop : nat -> nat -> os -> z list res * os **)

let rec partial_read_loop fuel amount o =
  match fuel with
  | O -> ((Fail EFuel), o)
  | S f ->
    let (s, o') = sys_read amount o in
    (match s with
     | SData l -> ((Ok l), o')
     | SEintr -> partial_read_loop f amount o'
     | SErr e -> ((Fail (EErrno e)), o'))

(** val partial_read : nat -> os -> z list res * os **)

let partial_read amount o =
  partial_read_loop (eintr_fuel o) amount o

(** val read_or_eof_loop : nat -> nat -> z list -> os -> z list res * os **)

let rec read_or_eof_loop fuel remaining acc o =
  match remaining with
  | O -> ((Ok acc), o)
  | S _ ->
    (match fuel with
     | O -> ((Fail EFuel), o)
     | S f ->
       let (r, o') = partial_read remaining o in
       (match r with
        | Ok l ->
          (match l with
           | [] -> ((Ok acc), o')
           | _ :: _ ->
             read_or_eof_loop f (sub remaining (length l)) (app acc l) o')
        | Fail e -> ((Fail e), o')))

(** val read_or_eof : nat -> os -> z list res * os **)

let read_or_eof amount o =
  read_or_eof_loop (S amount) amount [] o

(** val read_or_throw_loop : nat -> nat -> z list -> os -> z list res * os **)

let rec read_or_throw_loop fuel amount acc o =
  match amount with
  | O -> ((Ok acc), o)
  | S _ ->
    (match fuel with
     | O -> ((Fail EFuel), o)
     | S f ->
       let (r, o') = partial_read amount o in
       (match r with
        | Ok l ->
          (match l with
           | [] -> ((Fail EEndOfFile), o')
           | _ :: _ ->
             read_or_throw_loop f (sub amount (length l)) (app acc l) o')
        | Fail e -> ((Fail e), o')))

(** val read_or_throw : nat -> os -> z list res * os **)

let read_or_throw amount o =
  read_or_throw_loop (S amount) amount [] o

(** val write_retry : nat -> z list -> os -> z list res * os **)

let rec write_retry fuel data o =
  match fuel with
  | O -> ((Fail EFuel), o)
  | S f ->
    let (s, o') = sys_write data o in
    (match s with
     | SData l -> ((Ok l), o')
     | SEintr -> write_retry f data o'
     | SErr e -> ((Fail (EErrno e)), o'))

(** val write_or_throw_loop : nat -> z list -> os -> unit res * os **)

let rec write_or_throw_loop fuel data o =
  match data with
  | [] -> ((Ok ()), o)
  | _ :: _ ->
    (match fuel with
     | O -> ((Fail EFuel), o)
     | S f ->
       let (r, o') = write_retry (eintr_fuel o) data o in
       (match r with
        | Ok l ->
          if Nat.ltb (length l) wr_min_progress
          then ((Fail EWriteZero), o')
          else write_or_throw_loop f (skipn (length l) data) o'
        | Fail e -> ((Fail e), o')))

(** val write_or_throw : z list -> os -> unit res * os **)

let write_or_throw data o =
  write_or_throw_loop (S (length data)) data o

(** val sys_pread : nat -> nat -> z list -> os -> sysres * os **)

let sys_pread n0 off file o =
  let (oc, rest) = next_outcome o in
  (match oc with
   | Eintr ->
     (SEintr, { os_src = o.os_src; os_script = rest; os_trace = ((n0, (Zneg
       XH)) :: o.os_trace); os_sink = o.os_sink })
   | Err e ->
     ((SErr e), { os_src = o.os_src; os_script = rest; os_trace = ((n0, (Zneg
       (XO XH))) :: o.os_trace); os_sink = o.os_sink })
   | _ ->
     let l = firstn (granted oc n0) (skipn off file) in
     ((SData l), { os_src = o.os_src; os_script = rest; os_trace = ((n0,
     (Z.of_nat (length l))) :: o.os_trace); os_sink = o.os_sink }))

(** val ersatz_pread_loop :
    nat -> nat -> nat -> z list -> z list -> os -> z list res * os **)

let rec ersatz_pread_loop fuel size off file acc o =
  match size with
  | O -> ((Ok acc), o)
  | S _ ->
    (match fuel with
     | O -> ((Fail EFuel), o)
     | S f ->
       let (s, o') = sys_pread size off file o in
       (match s with
        | SData l ->
          (match l with
           | [] -> ((Fail EEndOfFile), o')
           | _ :: _ ->
             ersatz_pread_loop f (sub size (length l)) (add off (length l))
               file (app acc l) o')
        | SEintr -> ersatz_pread_loop f size off file acc o'
        | SErr e -> ((Fail (EErrno e)), o')))

(** val ersatz_pread : nat -> nat -> z list -> os -> z list res * os **)

let ersatz_pread size off file o =
  ersatz_pread_loop (add (S size) (length o.os_script)) size off file [] o

(** val overwrite : z list -> nat -> z list -> z list **)

let overwrite file off l =
  let padded = app file (repeat Z0 (sub off (length file))) in
  app (firstn off padded) (app l (skipn (add off (length l)) padded))

(** val sys_pwrite :
    z list -> nat -> z list -> os -> (sysres * os) * z list **)

let sys_pwrite data off file o =
  let n0 = length data in
  let (oc, rest) = next_outcome o in
  (match oc with
   | Eintr ->
     ((SEintr, { os_src = o.os_src; os_script = rest; os_trace = ((n0, (Zneg
       XH)) :: o.os_trace); os_sink = o.os_sink }), file)
   | Err e ->
     (((SErr e), { os_src = o.os_src; os_script = rest; os_trace = ((n0,
       (Zneg (XO XH))) :: o.os_trace); os_sink = o.os_sink }), file)
   | _ ->
     let l = firstn (granted oc n0) data in
     (((SData l), { os_src = o.os_src; os_script = rest; os_trace = ((n0,
     (Z.of_nat (length l))) :: o.os_trace); os_sink = o.os_sink }),
     (overwrite file off l)))

(** val ersatz_pwrite_loop :
    nat -> z list -> nat -> z list -> os -> z list res * os **)

let rec ersatz_pwrite_loop fuel data off file o =
  match data with
  | [] -> ((Ok file), o)
  | _ :: _ ->
    (match fuel with
     | O -> ((Fail EFuel), o)
     | S f ->
       let (p, file') = sys_pwrite data off file o in
       let (s, o') = p in
       (match s with
        | SData l ->
          (match l with
           | [] -> ((Fail EEndOfFile), o')
           | _ :: _ ->
             ersatz_pwrite_loop f (skipn (length l) data)
               (add off (length l)) file' o')
        | SEintr -> ersatz_pwrite_loop f data off file' o'
        | SErr e -> ((Fail (EErrno e)), o')))

(** val ersatz_pwrite : z list -> nat -> z list -> os -> z list res * os **)

let ersatz_pwrite data off file o =
  ersatz_pwrite_loop (add (S (length data)) (length o.os_script)) data off
    file o

type bstream = { bs_buf : z list; bs_cap : nat }

(** val bs_spill : bstream -> os -> bstream res * os **)

let bs_spill b o =
  match b.bs_buf with
  | [] -> ((Ok b), o)
  | _ :: _ ->
    let (r, o') = write_or_throw b.bs_buf o in
    (match r with
     | Ok _ -> ((Ok { bs_buf = []; bs_cap = b.bs_cap }), o')
     | Fail e -> ((Fail e), o'))

(** val bs_write : z list -> bstream -> os -> bstream res * os **)

let bs_write data b o =
  if Nat.leb (add (length b.bs_buf) (length data)) b.bs_cap
  then ((Ok { bs_buf = (app b.bs_buf data); bs_cap = b.bs_cap }), o)
  else let (r, o') = bs_spill b o in
       (match r with
        | Ok b' ->
          if Nat.leb (add (length b'.bs_buf) (length data)) b'.bs_cap
          then ((Ok { bs_buf = (app b'.bs_buf data); bs_cap = b'.bs_cap }),
                 o')
          else let (r0, o'') = write_or_throw data o' in
               (match r0 with
                | Ok _ -> ((Ok b'), o'')
                | Fail e -> ((Fail e), o''))
        | Fail e -> ((Fail e), o'))

(** val bs_flush : bstream -> os -> bstream res * os **)

let bs_flush =
  bs_spill

(** val bs_run : z list list -> bstream -> os -> bstream res * os **)

let rec bs_run ws b o =
  match ws with
  | [] -> bs_flush b o
  | w :: r ->
    let (r0, o') = bs_write w b o in
    (match r0 with
     | Ok b' -> bs_run r b' o'
     | Fail e -> ((Fail e), o'))

(** val tbs_write :
    nat -> z list -> z list -> nat -> (z list list * z list) res **)

let rec tbs_write fuel data buf bsize =
  match fuel with
  | O -> Fail EFuel
  | S f ->
    if Nat.leb (add (length buf) (length data)) bsize
    then Ok ([], (app buf data))
    else let room = sub bsize (length buf) in
         let full = app buf (firstn room data) in
         (match full with
          | [] -> Fail EFuel
          | _ :: _ ->
            (match tbs_write f (skipn room data) [] bsize with
             | Ok a -> let (blocks, buf') = a in Ok ((full :: blocks), buf')
             | Fail e -> Fail e))

(** val tbs_blocks : z list list -> z list -> nat -> z list list res **)

let rec tbs_blocks ws buf bsize =
  match ws with
  | [] -> Ok (match buf with
              | [] -> []
              | _ :: _ -> buf :: [])
  | w :: r ->
    (match tbs_write (add (length w) (S (S O))) w buf bsize with
     | Ok a ->
       let (blocks, buf') = a in
       (match tbs_blocks r buf' bsize with
        | Ok more -> Ok (app blocks more)
        | Fail e -> Fail e)
     | Fail e -> Fail e)

(** val write_blocks : z list list -> os -> unit res * os **)

let rec write_blocks blocks o =
  match blocks with
  | [] -> ((Ok ()), o)
  | b :: r ->
    let (r0, o') = write_or_throw b o in
    (match r0 with
     | Ok _ -> write_blocks r o'
     | Fail e -> ((Fail e), o'))

(** val tbs_run : z list list -> nat -> os -> unit res * os **)

let tbs_run ws bsize o =
  match tbs_blocks ws [] bsize with
  | Ok blocks -> write_blocks blocks o
  | Fail e -> ((Fail e), o)

type rcstate =
| RcHeader of z list
| RcFd
| RcComplete
| RcIStream

(** val is_prefix : z list -> z list -> bool **)

let rec is_prefix p l =
  match p with
  | [] -> true
  | a :: p' ->
    (match l with
     | [] -> false
     | b :: l' -> (&&) (Z.eqb a b) (is_prefix p' l'))

(** val detect_magic : z list -> bool **)

let detect_magic h =
  (||) ((||) (is_prefix rc_magic_gz h) (is_prefix rc_magic_bz h))
    (is_prefix rc_magic_xz h)

(** val read_factory : os -> rcstate res * os **)

let read_factory o =
  let (r, o') = read_or_eof rc_magic_size o in
  (match r with
   | Ok h ->
     (match h with
      | [] -> ((Ok RcComplete), o')
      | _ :: _ ->
        if detect_magic h
        then ((Fail ECompressed), o')
        else ((Ok (RcHeader h)), o'))
   | Fail e -> ((Fail e), o'))

(** val rc_read : nat -> rcstate -> os -> (z list res * rcstate) * os **)

let rc_read amount rc o =
  match rc with
  | RcHeader h ->
    let l = firstn amount h in
    (((Ok l),
    (match skipn amount h with
     | [] -> RcFd
     | z0 :: l0 -> RcHeader (z0 :: l0))), o)
  | RcFd -> let (r, o') = partial_read amount o in ((r, RcFd), o')
  | RcComplete -> (((Ok []), RcComplete), o)
  | RcIStream ->
    (((Ok (firstn amount o.os_src)), RcIStream), { os_src =
      (skipn amount o.os_src); os_script = o.os_script; os_trace =
      o.os_trace; os_sink = o.os_sink })

(** val rc_read_or_eof_loop :
    nat -> nat -> z list -> rcstate -> os -> (z list res * rcstate) * os **)

let rec rc_read_or_eof_loop fuel amount acc rc o =
  match amount with
  | O -> (((Ok acc), rc), o)
  | S _ ->
    (match fuel with
     | O -> (((Fail EFuel), rc), o)
     | S f ->
       let (p, o') = rc_read amount rc o in
       let (r, rc') = p in
       (match r with
        | Ok l ->
          (match l with
           | [] -> (((Ok acc), rc'), o')
           | _ :: _ ->
             rc_read_or_eof_loop f (sub amount (length l)) (app acc l) rc' o')
        | Fail e -> (((Fail e), rc'), o')))

(** val rc_read_or_eof :
    nat -> rcstate -> os -> (z list res * rcstate) * os **)

let rc_read_or_eof amount rc o =
  rc_read_or_eof_loop (S amount) amount [] rc o

(** val rc_open_read_or_eof : nat -> os -> z list res * os **)

let rc_open_read_or_eof amount o =
  let (r, o') = read_factory o in
  (match r with
   | Ok rc ->
     let (p, o'') = rc_read_or_eof amount rc o' in
     let (r0, _) = p in (r0, o'')
   | Fail e -> ((Fail e), o'))
