
type nat =
| O
| S of nat

(** val fst : ('a1 * 'a2) -> 'a1 **)

let fst = function
| (x, _) -> x

(** val snd : ('a1 * 'a2) -> 'a2 **)

let snd = function
| (_, y) -> y

(** val length : 'a1 list -> nat **)

let rec length = function
| [] -> O
| _ :: l' -> S (length l')

(** val app : 'a1 list -> 'a1 list -> 'a1 list **)

let rec app l m =
  match l with
  | [] -> m
  | a :: l1 -> a :: (app l1 m)

type comparison =
| Eq
| Lt
| Gt

(** val compOpp : comparison -> comparison **)

let compOpp = function
| Eq -> Eq
| Lt -> Gt
| Gt -> Lt

module Coq__1 = struct
 (** val add : nat -> nat -> nat **)
 let rec add n0 m =
   match n0 with
   | O -> m
   | S p -> S (add p m)
end
include Coq__1

(** val sub : nat -> nat -> nat **)

let rec sub n0 m =
  match n0 with
  | O -> n0
  | S k -> (match m with
            | O -> n0
            | S l -> sub k l)

(** val rev : 'a1 list -> 'a1 list **)

let rec rev = function
| [] -> []
| x :: l' -> app (rev l') (x :: [])

(** val map : ('a1 -> 'a2) -> 'a1 list -> 'a2 list **)

let rec map f = function
| [] -> []
| a :: t -> (f a) :: (map f t)

(** val flat_map : ('a1 -> 'a2 list) -> 'a1 list -> 'a2 list **)

let rec flat_map f = function
| [] -> []
| x :: t -> app (f x) (flat_map f t)

(** val fold_left : ('a1 -> 'a2 -> 'a1) -> 'a2 list -> 'a1 -> 'a1 **)

let rec fold_left f l a0 =
  match l with
  | [] -> a0
  | b :: t -> fold_left f t (f a0 b)

(** val firstn : nat -> 'a1 list -> 'a1 list **)

let rec firstn n0 l =
  match n0 with
  | O -> []
  | S n1 -> (match l with
             | [] -> []
             | a :: l0 -> a :: (firstn n1 l0))

(** val skipn : nat -> 'a1 list -> 'a1 list **)

let rec skipn n0 l =
  match n0 with
  | O -> l
  | S n1 -> (match l with
             | [] -> []
             | _ :: l0 -> skipn n1 l0)

(** val seq : nat -> nat -> nat list **)

let rec seq start = function
| O -> []
| S len0 -> start :: (seq (S start) len0)

(** val repeat : 'a1 -> nat -> 'a1 list **)

let rec repeat x = function
| O -> []
| S k -> x :: (repeat x k)

type positive =
| XI of positive
| XO of positive
| XH

type n =
| N0
| Npos of positive

type z =
| Z0
| Zpos of positive
| Zneg of positive

module Pos =
 struct
  type mask =
  | IsNul
  | IsPos of positive
  | IsNeg
 end

module Coq_Pos =
 struct
  (** val succ : positive -> positive **)

  let rec succ = function
  | XI p -> XO (succ p)
  | XO p -> XI p
  | XH -> XO XH

  (** val add : positive -> positive -> positive **)

  let rec add x y =
    match x with
    | XI p ->
      (match y with
       | XI q -> XO (add_carry p q)
       | XO q -> XI (add p q)
       | XH -> XO (succ p))
    | XO p ->
      (match y with
       | XI q -> XI (add p q)
       | XO q -> XO (add p q)
       | XH -> XI p)
    | XH -> (match y with
             | XI q -> XO (succ q)
             | XO q -> XI q
             | XH -> XO XH)

  (** val add_carry : positive -> positive -> positive **)

  and add_carry x y =
    match x with
    | XI p ->
      (match y with
       | XI q -> XI (add_carry p q)
       | XO q -> XO (add_carry p q)
       | XH -> XI (succ p))
    | XO p ->
      (match y with
       | XI q -> XO (add_carry p q)
       | XO q -> XI (add p q)
       | XH -> XO (succ p))
    | XH ->
      (match y with
       | XI q -> XI (succ q)
       | XO q -> XO (succ q)
       | XH -> XI XH)

  (** val pred_double : positive -> positive **)

  let rec pred_double = function
  | XI p -> XI (XO p)
  | XO p -> XI (pred_double p)
  | XH -> XH

  type mask = Pos.mask =
  | IsNul
  | IsPos of positive
  | IsNeg

  (** val succ_double_mask : mask -> mask **)

  let succ_double_mask = function
  | IsNul -> IsPos XH
  | IsPos p -> IsPos (XI p)
  | IsNeg -> IsNeg

  (** val double_mask : mask -> mask **)

  let double_mask = function
  | IsPos p -> IsPos (XO p)
  | x0 -> x0

  (** val double_pred_mask : positive -> mask **)

  let double_pred_mask = function
  | XI p -> IsPos (XO (XO p))
  | XO p -> IsPos (XO (pred_double p))
  | XH -> IsNul

  (** val sub_mask : positive -> positive -> mask **)

  let rec sub_mask x y =
    match x with
    | XI p ->
      (match y with
       | XI q -> double_mask (sub_mask p q)
       | XO q -> succ_double_mask (sub_mask p q)
       | XH -> IsPos (XO p))
    | XO p ->
      (match y with
       | XI q -> succ_double_mask (sub_mask_carry p q)
       | XO q -> double_mask (sub_mask p q)
       | XH -> IsPos (pred_double p))
    | XH -> (match y with
             | XH -> IsNul
             | _ -> IsNeg)

  (** val sub_mask_carry : positive -> positive -> mask **)

  and sub_mask_carry x y =
    match x with
    | XI p ->
      (match y with
       | XI q -> succ_double_mask (sub_mask_carry p q)
       | XO q -> double_mask (sub_mask p q)
       | XH -> IsPos (pred_double p))
    | XO p ->
      (match y with
       | XI q -> double_mask (sub_mask_carry p q)
       | XO q -> succ_double_mask (sub_mask_carry p q)
       | XH -> double_pred_mask p)
    | XH -> IsNeg

  (** val mul : positive -> positive -> positive **)

  let rec mul x y =
    match x with
    | XI p -> add y (XO (mul p y))
    | XO p -> XO (mul p y)
    | XH -> y

  (** val compare_cont : comparison -> positive -> positive -> comparison **)

  let rec compare_cont r x y =
    match x with
    | XI p ->
      (match y with
       | XI q -> compare_cont r p q
       | XO q -> compare_cont Gt p q
       | XH -> Gt)
    | XO p ->
      (match y with
       | XI q -> compare_cont Lt p q
       | XO q -> compare_cont r p q
       | XH -> Gt)
    | XH -> (match y with
             | XH -> r
             | _ -> Lt)

  (** val compare : positive -> positive -> comparison **)

  let compare =
    compare_cont Eq

  (** val eqb : positive -> positive -> bool **)

  let rec eqb p q =
    match p with
    | XI p0 -> (match q with
                | XI q0 -> eqb p0 q0
                | _ -> false)
    | XO p0 -> (match q with
                | XO q0 -> eqb p0 q0
                | _ -> false)
    | XH -> (match q with
             | XH -> true
             | _ -> false)

  (** val iter_op : ('a1 -> 'a1 -> 'a1) -> positive -> 'a1 -> 'a1 **)

  let rec iter_op op p a =
    match p with
    | XI p0 -> op a (iter_op op p0 (op a a))
    | XO p0 -> iter_op op p0 (op a a)
    | XH -> a

  (** val to_nat : positive -> nat **)

  let to_nat x =
    iter_op Coq__1.add x (S O)

  (** val of_succ_nat : nat -> positive **)

  let rec of_succ_nat = function
  | O -> XH
  | S x -> succ (of_succ_nat x)
 end

module N =
 struct
  (** val succ_double : n -> n **)

  let succ_double = function
  | N0 -> Npos XH
  | Npos p -> Npos (XI p)

  (** val double : n -> n **)

  let double = function
  | N0 -> N0
  | Npos p -> Npos (XO p)

  (** val add : n -> n -> n **)

  let add n0 m =
    match n0 with
    | N0 -> m
    | Npos p -> (match m with
                 | N0 -> n0
                 | Npos q -> Npos (Coq_Pos.add p q))

  (** val sub : n -> n -> n **)

  let sub n0 m =
    match n0 with
    | N0 -> N0
    | Npos n' ->
      (match m with
       | N0 -> n0
       | Npos m' ->
         (match Coq_Pos.sub_mask n' m' with
          | Coq_Pos.IsPos p -> Npos p
          | _ -> N0))

  (** val mul : n -> n -> n **)

  let mul n0 m =
    match n0 with
    | N0 -> N0
    | Npos p -> (match m with
                 | N0 -> N0
                 | Npos q -> Npos (Coq_Pos.mul p q))

  (** val compare : n -> n -> comparison **)

  let compare n0 m =
    match n0 with
    | N0 -> (match m with
             | N0 -> Eq
             | Npos _ -> Lt)
    | Npos n' -> (match m with
                  | N0 -> Gt
                  | Npos m' -> Coq_Pos.compare n' m')

  (** val eqb : n -> n -> bool **)

  let eqb n0 m =
    match n0 with
    | N0 -> (match m with
             | N0 -> true
             | Npos _ -> false)
    | Npos p -> (match m with
                 | N0 -> false
                 | Npos q -> Coq_Pos.eqb p q)

  (** val leb : n -> n -> bool **)

  let leb x y =
    match compare x y with
    | Gt -> false
    | _ -> true

  (** val pos_div_eucl : positive -> n -> n * n **)

  let rec pos_div_eucl a b =
    match a with
    | XI a' ->
      let (q, r) = pos_div_eucl a' b in
      let r' = succ_double r in
      if leb b r' then ((succ_double q), (sub r' b)) else ((double q), r')
    | XO a' ->
      let (q, r) = pos_div_eucl a' b in
      let r' = double r in
      if leb b r' then ((succ_double q), (sub r' b)) else ((double q), r')
    | XH ->
      (match b with
       | N0 -> (N0, (Npos XH))
       | Npos p -> (match p with
                    | XH -> ((Npos XH), N0)
                    | _ -> (N0, (Npos XH))))

  (** val div_eucl : n -> n -> n * n **)

  let div_eucl a b =
    match a with
    | N0 -> (N0, N0)
    | Npos na -> (match b with
                  | N0 -> (N0, a)
                  | Npos _ -> pos_div_eucl na b)

  (** val div : n -> n -> n **)

  let div a b =
    fst (div_eucl a b)

  (** val modulo : n -> n -> n **)

  let modulo a b =
    snd (div_eucl a b)

  (** val to_nat : n -> nat **)

  let to_nat = function
  | N0 -> O
  | Npos p -> Coq_Pos.to_nat p

  (** val of_nat : nat -> n **)

  let of_nat = function
  | O -> N0
  | S n' -> Npos (Coq_Pos.of_succ_nat n')
 end

module Z =
 struct
  (** val double : z -> z **)

  let double = function
  | Z0 -> Z0
  | Zpos p -> Zpos (XO p)
  | Zneg p -> Zneg (XO p)

  (** val succ_double : z -> z **)

  let succ_double = function
  | Z0 -> Zpos XH
  | Zpos p -> Zpos (XI p)
  | Zneg p -> Zneg (Coq_Pos.pred_double p)

  (** val pred_double : z -> z **)

  let pred_double = function
  | Z0 -> Zneg XH
  | Zpos p -> Zpos (Coq_Pos.pred_double p)
  | Zneg p -> Zneg (XI p)

  (** val pos_sub : positive -> positive -> z **)

  let rec pos_sub x y =
    match x with
    | XI p ->
      (match y with
       | XI q -> double (pos_sub p q)
       | XO q -> succ_double (pos_sub p q)
       | XH -> Zpos (XO p))
    | XO p ->
      (match y with
       | XI q -> pred_double (pos_sub p q)
       | XO q -> double (pos_sub p q)
       | XH -> Zpos (Coq_Pos.pred_double p))
    | XH ->
      (match y with
       | XI q -> Zneg (XO q)
       | XO q -> Zneg (Coq_Pos.pred_double q)
       | XH -> Z0)

  (** val add : z -> z -> z **)

  let add x y =
    match x with
    | Z0 -> y
    | Zpos x' ->
      (match y with
       | Z0 -> x
       | Zpos y' -> Zpos (Coq_Pos.add x' y')
       | Zneg y' -> pos_sub x' y')
    | Zneg x' ->
      (match y with
       | Z0 -> x
       | Zpos y' -> pos_sub y' x'
       | Zneg y' -> Zneg (Coq_Pos.add x' y'))

  (** val opp : z -> z **)

  let opp = function
  | Z0 -> Z0
  | Zpos x0 -> Zneg x0
  | Zneg x0 -> Zpos x0

  (** val sub : z -> z -> z **)

  let sub m n0 =
    add m (opp n0)

  (** val mul : z -> z -> z **)

  let mul x y =
    match x with
    | Z0 -> Z0
    | Zpos x' ->
      (match y with
       | Z0 -> Z0
       | Zpos y' -> Zpos (Coq_Pos.mul x' y')
       | Zneg y' -> Zneg (Coq_Pos.mul x' y'))
    | Zneg x' ->
      (match y with
       | Z0 -> Z0
       | Zpos y' -> Zneg (Coq_Pos.mul x' y')
       | Zneg y' -> Zpos (Coq_Pos.mul x' y'))

  (** val compare : z -> z -> comparison **)

  let compare x y =
    match x with
    | Z0 -> (match y with
             | Z0 -> Eq
             | Zpos _ -> Lt
             | Zneg _ -> Gt)
    | Zpos x' -> (match y with
                  | Zpos y' -> Coq_Pos.compare x' y'
                  | _ -> Gt)
    | Zneg x' ->
      (match y with
       | Zneg y' -> compOpp (Coq_Pos.compare x' y')
       | _ -> Lt)

  (** val leb : z -> z -> bool **)

  let leb x y =
    match compare x y with
    | Gt -> false
    | _ -> true

  (** val ltb : z -> z -> bool **)

  let ltb x y =
    match compare x y with
    | Lt -> true
    | _ -> false

  (** val eqb : z -> z -> bool **)

  let eqb x y =
    match x with
    | Z0 -> (match y with
             | Z0 -> true
             | _ -> false)
    | Zpos p -> (match y with
                 | Zpos q -> Coq_Pos.eqb p q
                 | _ -> false)
    | Zneg p -> (match y with
                 | Zneg q -> Coq_Pos.eqb p q
                 | _ -> false)

  (** val to_nat : z -> nat **)

  let to_nat = function
  | Zpos p -> Coq_Pos.to_nat p
  | _ -> O

  (** val to_N : z -> n **)

  let to_N = function
  | Zpos p -> Npos p
  | _ -> N0

  (** val of_nat : nat -> z **)

  let of_nat = function
  | O -> Z0
  | S n1 -> Zpos (Coq_Pos.of_succ_nat n1)

  (** val of_N : n -> z **)

  let of_N = function
  | N0 -> Z0
  | Npos p -> Zpos p

  (** val pos_div_eucl : positive -> z -> z * z **)

  let rec pos_div_eucl a b =
    match a with
    | XI a' ->
      let (q, r) = pos_div_eucl a' b in
      let r' = add (mul (Zpos (XO XH)) r) (Zpos XH) in
      if ltb r' b
      then ((mul (Zpos (XO XH)) q), r')
      else ((add (mul (Zpos (XO XH)) q) (Zpos XH)), (sub r' b))
    | XO a' ->
      let (q, r) = pos_div_eucl a' b in
      let r' = mul (Zpos (XO XH)) r in
      if ltb r' b
      then ((mul (Zpos (XO XH)) q), r')
      else ((add (mul (Zpos (XO XH)) q) (Zpos XH)), (sub r' b))
    | XH -> if leb (Zpos (XO XH)) b then (Z0, (Zpos XH)) else ((Zpos XH), Z0)

  (** val div_eucl : z -> z -> z * z **)

  let div_eucl a b =
    match a with
    | Z0 -> (Z0, Z0)
    | Zpos a' ->
      (match b with
       | Z0 -> (Z0, a)
       | Zpos _ -> pos_div_eucl a' b
       | Zneg b' ->
         let (q, r) = pos_div_eucl a' (Zpos b') in
         (match r with
          | Z0 -> ((opp q), Z0)
          | _ -> ((opp (add q (Zpos XH))), (add b r))))
    | Zneg a' ->
      (match b with
       | Z0 -> (Z0, a)
       | Zpos _ ->
         let (q, r) = pos_div_eucl a' b in
         (match r with
          | Z0 -> ((opp q), Z0)
          | _ -> ((opp (add q (Zpos XH))), (sub b r)))
       | Zneg b' -> let (q, r) = pos_div_eucl a' (Zpos b') in (q, (opp r)))

  (** val modulo : z -> z -> z **)

  let modulo a b =
    let (_, r) = div_eucl a b in r
 end

(** val split_at : z -> z list -> z list -> z list list * z list **)

let rec split_at d bs cur =
  match bs with
  | [] -> ([], (rev cur))
  | b :: r ->
    if Z.eqb b d
    then let (rs, t) = split_at d r [] in (((rev cur) :: rs), t)
    else split_at d r (b :: cur)

(** val strip_cr : z list -> z list **)

let strip_cr l =
  match rev l with
  | [] -> l
  | z0 :: r ->
    (match z0 with
     | Zpos p ->
       (match p with
        | XI p0 ->
          (match p0 with
           | XO p1 ->
             (match p1 with
              | XI p2 -> (match p2 with
                          | XH -> rev r
                          | _ -> l)
              | _ -> l)
           | _ -> l)
        | _ -> l)
     | _ -> l)

(** val records : z -> bool -> z list -> z list list **)

let records d cr bs =
  let (rs, t) = split_at d bs [] in
  app (map (if cr then strip_cr else (fun x -> x)) rs)
    (match t with
     | [] -> []
     | _ :: _ -> t :: [])

(** val unrecords : z -> z list list -> z list **)

let unrecords d rs =
  flat_map (fun r -> app r (d :: [])) rs

(** val shard_seed : n **)

let shard_seed =
  Npos (XI (XO (XO (XI (XO (XO (XI (XO (XO (XI (XI (XO (XI (XI (XO (XI (XI
    (XO (XI (XO (XI (XI (XI (XI (XO (XO (XI (XI (XO (XO (XI (XI (XO (XO (XI
    (XO (XO (XO (XO (XI (XI (XI (XO (XI (XO
    XH)))))))))))))))))))))))))))))))))))))))))))))

(** val kBlockSize : n **)

let kBlockSize =
  Npos (XO (XO (XO (XO (XO (XO (XO (XO (XO (XO (XO (XO XH))))))))))))

(** val shard_strip_cr : bool **)

let shard_strip_cr =
  true

(** val index : (z list -> n) -> n -> z list -> n **)

let index keyhash n0 line =
  N.modulo (keyhash line) n0

(** val update : 'a1 list -> nat -> ('a1 -> 'a1) -> 'a1 list **)

let rec update l i f =
  match l with
  | [] -> []
  | x :: r -> (match i with
               | O -> (f x) :: r
               | S j -> x :: (update r j f))

(** val shard_step :
    (z list -> n) -> n -> z list list list -> z list -> z list list list **)

let shard_step keyhash n0 outs line =
  update outs (N.to_nat (index keyhash n0 line)) (fun o -> app o (line :: []))

(** val shard : (z list -> n) -> n -> z list list -> z list list list **)

let shard keyhash n0 ls =
  fold_left (shard_step keyhash n0) ls (repeat [] (N.to_nat n0))

(** val shard_bytes : z list list -> z list **)

let shard_bytes lines =
  unrecords (Zpos (XO (XI (XO XH)))) lines

(** val shard_tool : (z list -> n) -> n -> z list -> z list list **)

let shard_tool keyhash n0 input =
  map shard_bytes
    (shard keyhash n0 (records (Zpos (XO (XI (XO XH)))) shard_strip_cr input))

(** val chunks : nat -> nat -> z list -> z list list **)

let rec chunks fuel size bs =
  match fuel with
  | O -> []
  | S f ->
    (match bs with
     | [] -> []
     | _ :: _ -> (firstn size bs) :: (chunks f size (skipn size bs)))

(** val blocks : z list -> z list list **)

let blocks bs =
  chunks (S (length bs)) (N.to_nat kBlockSize) bs

(** val digits_loop : nat -> n -> n -> n **)

let rec digits_loop fuel compare0 digits =
  if N.eqb compare0 N0
  then digits
  else (match fuel with
        | O -> digits
        | S f ->
          digits_loop f (N.div compare0 (Npos (XO (XI (XO XH)))))
            (N.add digits (Npos XH)))

(** val u32N : z -> n **)

let u32N x =
  Z.to_N
    (Z.modulo x (Zpos (XO (XO (XO (XO (XO (XO (XO (XO (XO (XO (XO (XO (XO (XO
      (XO (XO (XO (XO (XO (XO (XO (XO (XO (XO (XO (XO (XO (XO (XO (XO (XO (XO
      XH))))))))))))))))))))))))))))))))))

(** val digits_of : n -> n **)

let digits_of number =
  digits_loop (S (S (S (S (S (S (S (S (S (S (S (S (S (S (S (S (S (S (S (S (S
    (S (S (S (S (S (S (S (S (S (S (S (S (S (S (S (S (S (S (S
    O))))))))))))))))))))))))))))))))))))))))
    (u32N (Z.sub (Z.of_N number) (Zpos XH))) N0

(** val dec_loop : nat -> n -> z list -> z list **)

let rec dec_loop fuel x acc =
  match fuel with
  | O -> acc
  | S f ->
    let acc' =
      (Z.add (Zpos (XO (XO (XO (XO (XI XH))))))
        (Z.of_N (N.modulo x (Npos (XO (XI (XO XH))))))) :: acc
    in
    if N.eqb (N.div x (Npos (XO (XI (XO XH))))) N0
    then acc'
    else dec_loop f (N.div x (Npos (XO (XI (XO XH))))) acc'

(** val decimal : n -> z list **)

let decimal x =
  dec_loop (S (S (S (S (S (S (S (S (S (S (S (S (S (S (S (S (S (S (S (S (S (S
    (S (S (S (S (S (S (S (S (S (S (S (S (S (S (S (S (S (S
    O)))))))))))))))))))))))))))))))))))))))) x []

(** val pad : n -> n -> z list **)

let pad width i =
  let d = decimal i in
  app
    (repeat (Zpos (XO (XO (XO (XO (XI XH))))))
      (sub (N.to_nat width) (length d))) d

(** val names : z list -> n -> z list list **)

let names prefix number =
  map (fun i -> app prefix (pad (digits_of number) (N.of_nat i)))
    (seq O (N.to_nat number))
