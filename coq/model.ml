
(** val negb : bool -> bool **)

let negb = function
| true -> false
| false -> true

type nat =
| O
| S of nat

(** val option_map : ('a1 -> 'a2) -> 'a1 option -> 'a2 option **)

let option_map f = function
| Some a -> Some (f a)
| None -> None

(** val fst : ('a1 * 'a2) -> 'a1 **)

let fst = function
| (x, _) -> x

(** val snd : ('a1 * 'a2) -> 'a2 **)

let snd = function
| (_, y) -> y

(** val length : 'a1 list -> nat **)

let rec length = function
| [] -> O
| _ :: l' -> S (length l')

(** val app : 'a1 list -> 'a1 list -> 'a1 list **)

let rec app l m =
  match l with
  | [] -> m
  | a :: l1 -> a :: (app l1 m)

module Coq__1 = struct
 (** val add : nat -> nat -> nat **)
 let rec add n0 m =
   match n0 with
   | O -> m
   | S p -> S (add p m)
end
include Coq__1

(** val mul : nat -> nat -> nat **)

let rec mul n0 m =
  match n0 with
  | O -> O
  | S p -> add m (mul p m)

(** val sub : nat -> nat -> nat **)

let rec sub n0 m =
  match n0 with
  | O -> n0
  | S k -> (match m with
            | O -> n0
            | S l -> sub k l)

module Nat =
 struct
  (** val sub : nat -> nat -> nat **)

  let rec sub n0 m =
    match n0 with
    | O -> n0
    | S k -> (match m with
              | O -> n0
              | S l -> sub k l)

  (** val eqb : nat -> nat -> bool **)

  let rec eqb n0 m =
    match n0 with
    | O -> (match m with
            | O -> true
            | S _ -> false)
    | S n' -> (match m with
               | O -> false
               | S m' -> eqb n' m')

  (** val leb : nat -> nat -> bool **)

  let rec leb n0 m =
    match n0 with
    | O -> true
    | S n' -> (match m with
               | O -> false
               | S m' -> leb n' m')

  (** val ltb : nat -> nat -> bool **)

  let ltb n0 m =
    leb (S n0) m

  (** val max : nat -> nat -> nat **)

  let rec max n0 m =
    match n0 with
    | O -> m
    | S n' -> (match m with
               | O -> n0
               | S m' -> S (max n' m'))

  (** val min : nat -> nat -> nat **)

  let rec min n0 m =
    match n0 with
    | O -> O
    | S n' -> (match m with
               | O -> O
               | S m' -> S (min n' m'))

  (** val divmod : nat -> nat -> nat -> nat -> nat * nat **)

  let rec divmod x y q u =
    match x with
    | O -> (q, u)
    | S x' ->
      (match u with
       | O -> divmod x' y (S q) y
       | S u' -> divmod x' y q u')

  (** val div : nat -> nat -> nat **)

  let div x y = match y with
  | O -> y
  | S y' -> fst (divmod x y' O y')

  (** val modulo : nat -> nat -> nat **)

  let modulo x = function
  | O -> x
  | S y' -> sub y' (snd (divmod x y' O y'))
 end

(** val nth : nat -> 'a1 list -> 'a1 -> 'a1 **)

let rec nth n0 l default =
  match n0 with
  | O -> (match l with
          | [] -> default
          | x :: _ -> x)
  | S m -> (match l with
            | [] -> default
            | _ :: t -> nth m t default)

(** val rev : 'a1 list -> 'a1 list **)

let rec rev = function
| [] -> []
| x :: l' -> app (rev l') (x :: [])

(** val map : ('a1 -> 'a2) -> 'a1 list -> 'a2 list **)

let rec map f = function
| [] -> []
| a :: t -> (f a) :: (map f t)

(** val firstn : nat -> 'a1 list -> 'a1 list **)

let rec firstn n0 l =
  match n0 with
  | O -> []
  | S n1 -> (match l with
             | [] -> []
             | a :: l0 -> a :: (firstn n1 l0))

(** val skipn : nat -> 'a1 list -> 'a1 list **)

let rec skipn n0 l =
  match n0 with
  | O -> l
  | S n1 -> (match l with
             | [] -> []
             | _ :: l0 -> skipn n1 l0)

type positive =
| XI of positive
| XO of positive
| XH

type n =
| N0
| Npos of positive

type z =
| Z0
| Zpos of positive
| Zneg of positive

module Pos =
 struct
  (** val succ : positive -> positive **)

  let rec succ = function
  | XI p -> XO (succ p)
  | XO p -> XI p
  | XH -> XO XH

  (** val add : positive -> positive -> positive **)

  let rec add x y =
    match x with
    | XI p ->
      (match y with
       | XI q -> XO (add_carry p q)
       | XO q -> XI (add p q)
       | XH -> XO (succ p))
    | XO p ->
      (match y with
       | XI q -> XI (add p q)
       | XO q -> XO (add p q)
       | XH -> XI p)
    | XH -> (match y with
             | XI q -> XO (succ q)
             | XO q -> XI q
             | XH -> XO XH)

  (** val add_carry : positive -> positive -> positive **)

  and add_carry x y =
    match x with
    | XI p ->
      (match y with
       | XI q -> XI (add_carry p q)
       | XO q -> XO (add_carry p q)
       | XH -> XI (succ p))
    | XO p ->
      (match y with
       | XI q -> XO (add_carry p q)
       | XO q -> XI (add p q)
       | XH -> XO (succ p))
    | XH ->
      (match y with
       | XI q -> XI (succ q)
       | XO q -> XO (succ q)
       | XH -> XI XH)

  (** val mul : positive -> positive -> positive **)

  let rec mul x y =
    match x with
    | XI p -> add y (XO (mul p y))
    | XO p -> XO (mul p y)
    | XH -> y

  (** val eqb : positive -> positive -> bool **)

  let rec eqb p q =
    match p with
    | XI p0 -> (match q with
                | XI q0 -> eqb p0 q0
                | _ -> false)
    | XO p0 -> (match q with
                | XO q0 -> eqb p0 q0
                | _ -> false)
    | XH -> (match q with
             | XH -> true
             | _ -> false)

  (** val iter_op : ('a1 -> 'a1 -> 'a1) -> positive -> 'a1 -> 'a1 **)

  let rec iter_op op p a =
    match p with
    | XI p0 -> op a (iter_op op p0 (op a a))
    | XO p0 -> iter_op op p0 (op a a)
    | XH -> a

  (** val to_nat : positive -> nat **)

  let to_nat x =
    iter_op Coq__1.add x (S O)

  (** val of_succ_nat : nat -> positive **)

  let rec of_succ_nat = function
  | O -> XH
  | S x -> succ (of_succ_nat x)
 end

module N =
 struct
  (** val add : n -> n -> n **)

  let add n0 m =
    match n0 with
    | N0 -> m
    | Npos p -> (match m with
                 | N0 -> n0
                 | Npos q -> Npos (Pos.add p q))

  (** val mul : n -> n -> n **)

  let mul n0 m =
    match n0 with
    | N0 -> N0
    | Npos p -> (match m with
                 | N0 -> N0
                 | Npos q -> Npos (Pos.mul p q))

  (** val to_nat : n -> nat **)

  let to_nat = function
  | N0 -> O
  | Npos p -> Pos.to_nat p

  (** val of_nat : nat -> n **)

  let of_nat = function
  | O -> N0
  | S n' -> Npos (Pos.of_succ_nat n')
 end

module Z =
 struct
  (** val opp : z -> z **)

  let opp = function
  | Z0 -> Z0
  | Zpos x0 -> Zneg x0
  | Zneg x0 -> Zpos x0

  (** val eqb : z -> z -> bool **)

  let eqb x y =
    match x with
    | Z0 -> (match y with
             | Z0 -> true
             | _ -> false)
    | Zpos p -> (match y with
                 | Zpos q -> Pos.eqb p q
                 | _ -> false)
    | Zneg p -> (match y with
                 | Zneg q -> Pos.eqb p q
                 | _ -> false)

  (** val to_nat : z -> nat **)

  let to_nat = function
  | Zpos p -> Pos.to_nat p
  | _ -> O

  (** val to_N : z -> n **)

  let to_N = function
  | Zpos p -> Npos p
  | _ -> N0

  (** val of_nat : nat -> z **)

  let of_nat = function
  | O -> Z0
  | S n1 -> Zpos (Pos.of_succ_nat n1)

  (** val of_N : n -> z **)

  let of_N = function
  | N0 -> Z0
  | Npos p -> Zpos p
 end

(** val split_at : z -> z list -> z list -> z list list * z list **)

let rec split_at d bs cur =
  match bs with
  | [] -> ([], (rev cur))
  | b :: r ->
    if Z.eqb b d
    then let (rs, t) = split_at d r [] in (((rev cur) :: rs), t)
    else split_at d r (b :: cur)

(** val strip_cr : z list -> z list **)

let strip_cr l =
  match rev l with
  | [] -> l
  | z0 :: r ->
    (match z0 with
     | Zpos p ->
       (match p with
        | XI p0 ->
          (match p0 with
           | XO p1 ->
             (match p1 with
              | XI p2 -> (match p2 with
                          | XH -> rev r
                          | _ -> l)
              | _ -> l)
           | _ -> l)
        | _ -> l)
     | _ -> l)

(** val records : z -> bool -> z list -> z list list **)

let records d cr bs =
  let (rs, t) = split_at d bs [] in
  app (map (if cr then strip_cr else (fun x -> x)) rs)
    (match t with
     | [] -> []
     | _ :: _ -> t :: [])

(** val fp_init_add : nat **)

let fp_init_add =
  S O

(** val fp_init_min_pages : nat **)

let fp_init_min_pages =
  S (S O)

(** val fp_mmap_grow : nat **)

let fp_mmap_grow =
  S (S O)

(** val fp_read_grow : nat **)

let fp_read_grow =
  S (S O)

(** val fp_eof_read_return : nat **)

let fp_eof_read_return =
  O

(** val fp_cr_byte : z **)

let fp_cr_byte =
  Zpos (XI (XO (XI XH)))

(** val fp_cr_subtract : nat **)

let fp_cr_subtract =
  S O

(** val fp_cr_else : nat **)

let fp_cr_else =
  O

(** val rc_magic_size : nat **)

let rc_magic_size =
  S (S (S (S (S (S O)))))

(** val rc_magic_gz : z list **)

let rc_magic_gz =
  (Zpos (XI (XI (XI (XI XH))))) :: ((Zpos (XI (XI (XO (XI (XO (XO (XO
    XH)))))))) :: [])

(** val rc_magic_bz : z list **)

let rc_magic_bz =
  (Zpos (XO (XI (XO (XO (XO (XO XH))))))) :: ((Zpos (XO (XI (XO (XI (XI (XO
    XH))))))) :: ((Zpos (XO (XO (XO (XI (XO (XI XH))))))) :: []))

(** val rc_magic_xz : z list **)

let rc_magic_xz =
  (Zpos (XI (XO (XI (XI (XI (XI (XI XH)))))))) :: ((Zpos (XI (XI (XI (XO (XI
    XH)))))) :: ((Zpos (XO (XI (XO (XI (XI (XI XH))))))) :: ((Zpos (XO (XO
    (XO (XI (XI (XO XH))))))) :: ((Zpos (XO (XI (XO (XI (XI (XO
    XH))))))) :: (Z0 :: [])))))

type outcome =
| Full
| Short of nat
| Eintr
| Err of z

type os = { os_src : z list; os_script : outcome list;
            os_trace : (nat * z) list; os_sink : z list }

(** val os_trace : os -> (nat * z) list **)

let os_trace o =
  o.os_trace

(** val os_init : z list -> outcome list -> os **)

let os_init src script =
  { os_src = src; os_script = script; os_trace = []; os_sink = [] }

type sysres =
| SData of z list
| SEintr
| SErr of z

(** val granted : outcome -> nat -> nat **)

let granted oc n0 =
  match oc with
  | Short k -> Nat.min n0 (Nat.max (S O) k)
  | _ -> n0

(** val next_outcome : os -> outcome * outcome list **)

let next_outcome o =
  match o.os_script with
  | [] -> (Full, [])
  | oc :: r -> (oc, r)

(** val sys_read : nat -> os -> sysres * os **)

let sys_read n0 o =
  let (oc, rest) = next_outcome o in
  (match oc with
   | Eintr ->
     (SEintr, { os_src = o.os_src; os_script = rest; os_trace = ((n0, (Zneg
       XH)) :: o.os_trace); os_sink = o.os_sink })
   | Err e ->
     ((SErr e), { os_src = o.os_src; os_script = rest; os_trace = ((n0, (Zneg
       (XO XH))) :: o.os_trace); os_sink = o.os_sink })
   | _ ->
     let m = granted oc n0 in
     let l = firstn m o.os_src in
     ((SData l), { os_src = (skipn m o.os_src); os_script = rest; os_trace =
     ((n0, (Z.of_nat (length l))) :: o.os_trace); os_sink = o.os_sink }))

type ioerr =
| EFuel
| EErrno of z
| EEndOfFile
| EWriteZero
| ECompressed

type 'a res =
| Ok of 'a
| Fail of ioerr

(** val eintr_fuel : os -> nat **)

let eintr_fuel o =
  S (length o.os_script)

(** val partial_read_loop : nat -> nat -> os -> z list res * os **)

let rec partial_read_loop fuel amount o =
  match fuel with
  | O -> ((Fail EFuel), o)
  | S f ->
    let (s, o') = sys_read amount o in
    (match s with
     | SData l -> ((Ok l), o')
     | SEintr -> partial_read_loop f amount o'
     | SErr e -> ((Fail (EErrno e)), o'))

(** val partial_read : nat -> os -> z list res * os **)

let partial_read amount o =
  partial_read_loop (eintr_fuel o) amount o

(** val read_or_eof_loop : nat -> nat -> z list -> os -> z list res * os **)

let rec read_or_eof_loop fuel remaining acc o =
  match remaining with
  | O -> ((Ok acc), o)
  | S _ ->
    (match fuel with
     | O -> ((Fail EFuel), o)
     | S f ->
       let (r, o') = partial_read remaining o in
       (match r with
        | Ok l ->
          (match l with
           | [] -> ((Ok acc), o')
           | _ :: _ ->
             read_or_eof_loop f (sub remaining (length l)) (app acc l) o')
        | Fail e -> ((Fail e), o')))

(** val read_or_eof : nat -> os -> z list res * os **)

let read_or_eof amount o =
  read_or_eof_loop (S amount) amount [] o

type rcstate =
| RcHeader of z list
| RcFd
| RcComplete
| RcIStream

(** val is_prefix : z list -> z list -> bool **)

let rec is_prefix p l =
  match p with
  | [] -> true
  | a :: p' ->
    (match l with
     | [] -> false
     | b :: l' -> (&&) (Z.eqb a b) (is_prefix p' l'))

(** val detect_magic : z list -> bool **)

let detect_magic h =
  (||) ((||) (is_prefix rc_magic_gz h) (is_prefix rc_magic_bz h))
    (is_prefix rc_magic_xz h)

(** val read_factory : os -> rcstate res * os **)

let read_factory o =
  let (r, o') = read_or_eof rc_magic_size o in
  (match r with
   | Ok h ->
     (match h with
      | [] -> ((Ok RcComplete), o')
      | _ :: _ ->
        if detect_magic h
        then ((Fail ECompressed), o')
        else ((Ok (RcHeader h)), o'))
   | Fail e -> ((Fail e), o'))

(** val rc_read : nat -> rcstate -> os -> (z list res * rcstate) * os **)

let rc_read amount rc o =
  match rc with
  | RcHeader h ->
    let l = firstn amount h in
    (((Ok l),
    (match skipn amount h with
     | [] -> RcFd
     | z0 :: l0 -> RcHeader (z0 :: l0))), o)
  | RcFd -> let (r, o') = partial_read amount o in ((r, RcFd), o')
  | RcComplete -> (((Ok []), RcComplete), o)
  | RcIStream ->
    (((Ok (firstn amount o.os_src)), RcIStream), { os_src =
      (skipn amount o.os_src); os_script = o.os_script; os_trace =
      o.os_trace; os_sink = o.os_sink })

type fp = { fp_buf : z list; fp_pos : nat; fp_cap : nat; fp_at_end : 
            bool; fp_moff : nat; fp_fallback : bool; fp_mapped : bool;
            fp_rc : rcstate; fp_os : os; fp_file : z list; fp_page : 
            nat; fp_maps : (nat * nat) list }

(** val fp_os : fp -> os **)

let fp_os f =
  f.fp_os

(** val fp_maps : fp -> (nat * nat) list **)

let fp_maps f =
  f.fp_maps

(** val set_pos : fp -> nat -> fp **)

let set_pos s p =
  { fp_buf = s.fp_buf; fp_pos = p; fp_cap = s.fp_cap; fp_at_end =
    s.fp_at_end; fp_moff = s.fp_moff; fp_fallback = s.fp_fallback;
    fp_mapped = s.fp_mapped; fp_rc = s.fp_rc; fp_os = s.fp_os; fp_file =
    s.fp_file; fp_page = s.fp_page; fp_maps = s.fp_maps }

(** val initial_cap : nat -> nat -> nat **)

let initial_cap page min_buffer =
  mul page
    (Nat.max (add (Nat.div min_buffer page) fp_init_add) fp_init_min_pages)

(** val read_shift : fp -> fp res **)

let read_shift s =
  if Nat.eqb s.fp_pos (length s.fp_buf)
  then let p = ([], O) in
       let moff1 = add s.fp_moff (length s.fp_buf) in
       let (buf1, pos1) = p in
       let already = length buf1 in
       if Nat.eqb already s.fp_cap
       then if Nat.eqb pos1 O
            then let p0 = (buf1, pos1) in
                 let cap2 = mul s.fp_cap fp_read_grow in
                 let (buf2, pos2) = p0 in
                 let (p1, o') =
                   rc_read (sub cap2 (length buf2)) s.fp_rc s.fp_os
                 in
                 let (r, rc') = p1 in
                 (match r with
                  | Ok l ->
                    Ok { fp_buf = (app buf2 l); fp_pos = pos2; fp_cap = cap2;
                      fp_at_end =
                      (if Nat.eqb (length l) fp_eof_read_return
                       then true
                       else s.fp_at_end); fp_moff = moff1; fp_fallback =
                      s.fp_fallback; fp_mapped = s.fp_mapped; fp_rc = rc';
                      fp_os = o'; fp_file = s.fp_file; fp_page = s.fp_page;
                      fp_maps = s.fp_maps }
                  | Fail e -> Fail e)
            else let p0 = ((skipn pos1 buf1), O) in
                 let cap2 = s.fp_cap in
                 let (buf2, pos2) = p0 in
                 let (p1, o') =
                   rc_read (sub cap2 (length buf2)) s.fp_rc s.fp_os
                 in
                 let (r, rc') = p1 in
                 (match r with
                  | Ok l ->
                    Ok { fp_buf = (app buf2 l); fp_pos = pos2; fp_cap = cap2;
                      fp_at_end =
                      (if Nat.eqb (length l) fp_eof_read_return
                       then true
                       else s.fp_at_end); fp_moff = moff1; fp_fallback =
                      s.fp_fallback; fp_mapped = s.fp_mapped; fp_rc = rc';
                      fp_os = o'; fp_file = s.fp_file; fp_page = s.fp_page;
                      fp_maps = s.fp_maps }
                  | Fail e -> Fail e)
       else let p0 = (buf1, pos1) in
            let cap2 = s.fp_cap in
            let (buf2, pos2) = p0 in
            let (p1, o') = rc_read (sub cap2 (length buf2)) s.fp_rc s.fp_os in
            let (r, rc') = p1 in
            (match r with
             | Ok l ->
               Ok { fp_buf = (app buf2 l); fp_pos = pos2; fp_cap = cap2;
                 fp_at_end =
                 (if Nat.eqb (length l) fp_eof_read_return
                  then true
                  else s.fp_at_end); fp_moff = moff1; fp_fallback =
                 s.fp_fallback; fp_mapped = s.fp_mapped; fp_rc = rc'; fp_os =
                 o'; fp_file = s.fp_file; fp_page = s.fp_page; fp_maps =
                 s.fp_maps }
             | Fail e -> Fail e)
  else let p = (s.fp_buf, s.fp_pos) in
       let moff1 = s.fp_moff in
       let (buf1, pos1) = p in
       let already = length buf1 in
       if Nat.eqb already s.fp_cap
       then if Nat.eqb pos1 O
            then let p0 = (buf1, pos1) in
                 let cap2 = mul s.fp_cap fp_read_grow in
                 let (buf2, pos2) = p0 in
                 let (p1, o') =
                   rc_read (sub cap2 (length buf2)) s.fp_rc s.fp_os
                 in
                 let (r, rc') = p1 in
                 (match r with
                  | Ok l ->
                    Ok { fp_buf = (app buf2 l); fp_pos = pos2; fp_cap = cap2;
                      fp_at_end =
                      (if Nat.eqb (length l) fp_eof_read_return
                       then true
                       else s.fp_at_end); fp_moff = moff1; fp_fallback =
                      s.fp_fallback; fp_mapped = s.fp_mapped; fp_rc = rc';
                      fp_os = o'; fp_file = s.fp_file; fp_page = s.fp_page;
                      fp_maps = s.fp_maps }
                  | Fail e -> Fail e)
            else let p0 = ((skipn pos1 buf1), O) in
                 let cap2 = s.fp_cap in
                 let (buf2, pos2) = p0 in
                 let (p1, o') =
                   rc_read (sub cap2 (length buf2)) s.fp_rc s.fp_os
                 in
                 let (r, rc') = p1 in
                 (match r with
                  | Ok l ->
                    Ok { fp_buf = (app buf2 l); fp_pos = pos2; fp_cap = cap2;
                      fp_at_end =
                      (if Nat.eqb (length l) fp_eof_read_return
                       then true
                       else s.fp_at_end); fp_moff = moff1; fp_fallback =
                      s.fp_fallback; fp_mapped = s.fp_mapped; fp_rc = rc';
                      fp_os = o'; fp_file = s.fp_file; fp_page = s.fp_page;
                      fp_maps = s.fp_maps }
                  | Fail e -> Fail e)
       else let p0 = (buf1, pos1) in
            let cap2 = s.fp_cap in
            let (buf2, pos2) = p0 in
            let (p1, o') = rc_read (sub cap2 (length buf2)) s.fp_rc s.fp_os in
            let (r, rc') = p1 in
            (match r with
             | Ok l ->
               Ok { fp_buf = (app buf2 l); fp_pos = pos2; fp_cap = cap2;
                 fp_at_end =
                 (if Nat.eqb (length l) fp_eof_read_return
                  then true
                  else s.fp_at_end); fp_moff = moff1; fp_fallback =
                 s.fp_fallback; fp_mapped = s.fp_mapped; fp_rc = rc'; fp_os =
                 o'; fp_file = s.fp_file; fp_page = s.fp_page; fp_maps =
                 s.fp_maps }
             | Fail e -> Fail e)

(** val transition_to_read : fp -> fp res **)

let transition_to_read s =
  let (r, o') = read_factory s.fp_os in
  (match r with
   | Ok rc ->
     Ok { fp_buf = []; fp_pos = O; fp_cap = s.fp_cap; fp_at_end =
       s.fp_at_end; fp_moff = s.fp_moff; fp_fallback = true; fp_mapped =
       s.fp_mapped; fp_rc = rc; fp_os = o'; fp_file = s.fp_file; fp_page =
       s.fp_page; fp_maps = s.fp_maps }
   | Fail e -> Fail e)

(** val mmap_shift : fp -> fp res **)

let mmap_shift s =
  let desired_begin = add s.fp_pos s.fp_moff in
  let ignore = Nat.modulo desired_begin s.fp_page in
  let cap' =
    if (&&) (Nat.eqb s.fp_pos ignore) s.fp_mapped
    then mul s.fp_cap fp_mmap_grow
    else s.fp_cap
  in
  let mapped_offset = sub desired_begin ignore in
  let total = length s.fp_file in
  if Nat.leb (sub total mapped_offset) cap'
  then let at_end' = true in
       let mapped_size = sub total mapped_offset in
       if Nat.eqb mapped_size O
       then let o = s.fp_os in
            let o1 =
              if Nat.eqb desired_begin O
              then o
              else { os_src = (skipn desired_begin s.fp_file); os_script =
                     o.os_script; os_trace = o.os_trace; os_sink = o.os_sink }
            in
            transition_to_read { fp_buf = []; fp_pos = O; fp_cap = cap';
              fp_at_end = false; fp_moff = s.fp_moff; fp_fallback = false;
              fp_mapped = s.fp_mapped; fp_rc = s.fp_rc; fp_os = o1; fp_file =
              s.fp_file; fp_page = s.fp_page; fp_maps = ((mapped_offset,
              mapped_size) :: s.fp_maps) }
       else Ok { fp_buf =
              (firstn mapped_size (skipn mapped_offset s.fp_file)); fp_pos =
              ignore; fp_cap = cap'; fp_at_end = at_end'; fp_moff =
              mapped_offset; fp_fallback = false; fp_mapped = true; fp_rc =
              s.fp_rc; fp_os = s.fp_os; fp_file = s.fp_file; fp_page =
              s.fp_page; fp_maps = ((mapped_offset,
              mapped_size) :: s.fp_maps) }
  else let at_end' = s.fp_at_end in
       if Nat.eqb cap' O
       then let o = s.fp_os in
            let o1 =
              if Nat.eqb desired_begin O
              then o
              else { os_src = (skipn desired_begin s.fp_file); os_script =
                     o.os_script; os_trace = o.os_trace; os_sink = o.os_sink }
            in
            transition_to_read { fp_buf = []; fp_pos = O; fp_cap = cap';
              fp_at_end = false; fp_moff = s.fp_moff; fp_fallback = false;
              fp_mapped = s.fp_mapped; fp_rc = s.fp_rc; fp_os = o1; fp_file =
              s.fp_file; fp_page = s.fp_page; fp_maps = ((mapped_offset,
              cap') :: s.fp_maps) }
       else Ok { fp_buf = (firstn cap' (skipn mapped_offset s.fp_file));
              fp_pos = ignore; fp_cap = cap'; fp_at_end = at_end'; fp_moff =
              mapped_offset; fp_fallback = false; fp_mapped = true; fp_rc =
              s.fp_rc; fp_os = s.fp_os; fp_file = s.fp_file; fp_page =
              s.fp_page; fp_maps = ((mapped_offset, cap') :: s.fp_maps) }

(** val shift : fp -> fp res **)

let shift s =
  if s.fp_at_end
  then Fail EEndOfFile
  else (match if s.fp_fallback then Ok s else mmap_shift s with
        | Ok s1 -> if s1.fp_fallback then read_shift s1 else Ok s1
        | Fail e -> Fail e)

(** val fp_open_read : nat -> os -> fp res **)

let fp_open_read cap o =
  match transition_to_read { fp_buf = []; fp_pos = O; fp_cap = cap;
          fp_at_end = false; fp_moff = O; fp_fallback = false; fp_mapped =
          false; fp_rc = RcFd; fp_os = o; fp_file = []; fp_page = (S O);
          fp_maps = [] } with
  | Ok s -> shift s
  | Fail e -> Fail e

(** val fp_open_istream : nat -> z list -> fp **)

let fp_open_istream cap src =
  { fp_buf = []; fp_pos = O; fp_cap = cap; fp_at_end = false; fp_moff = O;
    fp_fallback = true; fp_mapped = false; fp_rc = RcIStream; fp_os =
    (os_init src []); fp_file = []; fp_page = (S O); fp_maps = [] }

(** val fp_open_file :
    nat -> nat -> z list -> nat -> outcome list -> fp res **)

let fp_open_file page cap file off script =
  match shift { fp_buf = []; fp_pos = O; fp_cap = cap; fp_at_end = false;
          fp_moff = off; fp_fallback = false; fp_mapped = false; fp_rc =
          RcFd; fp_os = (os_init (skipn off file) script); fp_file = file;
          fp_page = page; fp_maps = [] } with
  | Ok s ->
    if (&&)
         ((&&) (negb s.fp_fallback)
           (Nat.leb rc_magic_size (sub (length s.fp_buf) s.fp_pos)))
         (detect_magic (firstn rc_magic_size (skipn s.fp_pos s.fp_buf)))
    then Fail ECompressed
    else Ok s
  | Fail e -> Fail e

(** val find_idx : z -> z list -> nat option **)

let rec find_idx d = function
| [] -> None
| b :: r ->
  if Z.eqb b d then Some O else option_map (fun x -> S x) (find_idx d r)

type rl =
| RlLine of z list
| RlEOF
| RlFail of ioerr

(** val read_line_loop : nat -> z -> bool -> nat -> fp -> rl * fp **)

let rec read_line_loop fuel d cr skip s =
  match fuel with
  | O -> ((RlFail EFuel), s)
  | S f ->
    (match find_idx d (skipn (add s.fp_pos skip) s.fp_buf) with
     | Some j ->
       let i = add (add s.fp_pos skip) j in
       let subtract_cr =
         if (&&) ((&&) cr (Nat.ltb s.fp_pos i))
              (Z.eqb (nth (sub i (S O)) s.fp_buf Z0) fp_cr_byte)
         then fp_cr_subtract
         else fp_cr_else
       in
       ((RlLine
       (firstn (sub (sub i s.fp_pos) subtract_cr) (skipn s.fp_pos s.fp_buf))),
       (set_pos s (S i)))
     | None ->
       if s.fp_at_end
       then if Nat.eqb s.fp_pos (length s.fp_buf)
            then (RlEOF, s)
            else ((RlLine (skipn s.fp_pos s.fp_buf)),
                   (set_pos s (length s.fp_buf)))
       else (match shift s with
             | Ok s' ->
               read_line_loop f d cr (sub (length s.fp_buf) s.fp_pos) s'
             | Fail e -> ((RlFail e), s)))

(** val pending : fp -> nat **)

let pending s =
  add
    (add (match s.fp_rc with
          | RcHeader h -> length h
          | _ -> O) (length s.fp_os.os_src)) (length s.fp_file)

(** val line_fuel : fp -> nat **)

let line_fuel s =
  add (add (pending s) rc_magic_size) (S (S (S (S O))))

(** val read_line : z -> bool -> fp -> rl * fp **)

let read_line d cr s =
  read_line_loop (line_fuel s) d cr O s

(** val read_all_loop : nat -> z -> bool -> fp -> z list list res * fp **)

let rec read_all_loop n0 d cr s =
  match n0 with
  | O -> ((Fail EFuel), s)
  | S n' ->
    let (r, s') = read_line d cr s in
    (match r with
     | RlLine l ->
       let (r0, s'') = read_all_loop n' d cr s' in
       (match r0 with
        | Ok ls -> ((Ok (l :: ls)), s'')
        | Fail e -> ((Fail e), s''))
     | RlEOF -> ((Ok []), s')
     | RlFail e -> ((Fail e), s'))

(** val read_all : z -> bool -> fp -> z list list res * fp **)

let read_all d cr s =
  read_all_loop (add (add (pending s) (length s.fp_buf)) (S (S O))) d cr s
