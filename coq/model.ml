
type nat =
| O
| S of nat

(** val length : 'a1 list -> nat **)

let rec length = function
| [] -> O
| _ :: l' -> S (length l')

(** val app : 'a1 list -> 'a1 list -> 'a1 list **)

let rec app l m =
  match l with
  | [] -> m
  | a :: l1 -> a :: (app l1 m)

type comparison =
| Eq
| Lt
| Gt

(** val compOpp : comparison -> comparison **)

let compOpp = function
| Eq -> Eq
| Lt -> Gt
| Gt -> Lt

module Coq__1 = struct
 (** val add : nat -> nat -> nat **)
 let rec add n0 m =
   match n0 with
   | O -> m
   | S p -> S (add p m)
end
include Coq__1

(** val nth : nat -> 'a1 list -> 'a1 -> 'a1 **)

let rec nth n0 l default =
  match n0 with
  | O -> (match l with
          | [] -> default
          | x :: _ -> x)
  | S m -> (match l with
            | [] -> default
            | _ :: t -> nth m t default)

(** val rev : 'a1 list -> 'a1 list **)

let rec rev = function
| [] -> []
| x :: l' -> app (rev l') (x :: [])

(** val map : ('a1 -> 'a2) -> 'a1 list -> 'a2 list **)

let rec map f = function
| [] -> []
| a :: t -> (f a) :: (map f t)

(** val flat_map : ('a1 -> 'a2 list) -> 'a1 list -> 'a2 list **)

let rec flat_map f = function
| [] -> []
| x :: t -> app (f x) (flat_map f t)

(** val filter : ('a1 -> bool) -> 'a1 list -> 'a1 list **)

let rec filter f = function
| [] -> []
| x :: l0 -> if f x then x :: (filter f l0) else filter f l0

(** val repeat : 'a1 -> nat -> 'a1 list **)

let rec repeat x = function
| O -> []
| S k -> x :: (repeat x k)

type positive =
| XI of positive
| XO of positive
| XH

type n =
| N0
| Npos of positive

type z =
| Z0
| Zpos of positive
| Zneg of positive

module Pos =
 struct
  (** val succ : positive -> positive **)

  let rec succ = function
  | XI p -> XO (succ p)
  | XO p -> XI p
  | XH -> XO XH

  (** val add : positive -> positive -> positive **)

  let rec add x y =
    match x with
    | XI p ->
      (match y with
       | XI q -> XO (add_carry p q)
       | XO q -> XI (add p q)
       | XH -> XO (succ p))
    | XO p ->
      (match y with
       | XI q -> XI (add p q)
       | XO q -> XO (add p q)
       | XH -> XI p)
    | XH -> (match y with
             | XI q -> XO (succ q)
             | XO q -> XI q
             | XH -> XO XH)

  (** val add_carry : positive -> positive -> positive **)

  and add_carry x y =
    match x with
    | XI p ->
      (match y with
       | XI q -> XI (add_carry p q)
       | XO q -> XO (add_carry p q)
       | XH -> XI (succ p))
    | XO p ->
      (match y with
       | XI q -> XO (add_carry p q)
       | XO q -> XI (add p q)
       | XH -> XO (succ p))
    | XH ->
      (match y with
       | XI q -> XI (succ q)
       | XO q -> XO (succ q)
       | XH -> XI XH)

  (** val pred_double : positive -> positive **)

  let rec pred_double = function
  | XI p -> XI (XO p)
  | XO p -> XI (pred_double p)
  | XH -> XH

  (** val pred_N : positive -> n **)

  let pred_N = function
  | XI p -> Npos (XO p)
  | XO p -> Npos (pred_double p)
  | XH -> N0

  (** val mul : positive -> positive -> positive **)

  let rec mul x y =
    match x with
    | XI p -> add y (XO (mul p y))
    | XO p -> XO (mul p y)
    | XH -> y

  (** val iter : ('a1 -> 'a1) -> 'a1 -> positive -> 'a1 **)

  let rec iter f x = function
  | XI n' -> f (iter f (iter f x n') n')
  | XO n' -> iter f (iter f x n') n'
  | XH -> f x

  (** val div2 : positive -> positive **)

  let div2 = function
  | XI p0 -> p0
  | XO p0 -> p0
  | XH -> XH

  (** val div2_up : positive -> positive **)

  let div2_up = function
  | XI p0 -> succ p0
  | XO p0 -> p0
  | XH -> XH

  (** val compare_cont : comparison -> positive -> positive -> comparison **)

  let rec compare_cont r x y =
    match x with
    | XI p ->
      (match y with
       | XI q -> compare_cont r p q
       | XO q -> compare_cont Gt p q
       | XH -> Gt)
    | XO p ->
      (match y with
       | XI q -> compare_cont Lt p q
       | XO q -> compare_cont r p q
       | XH -> Gt)
    | XH -> (match y with
             | XH -> r
             | _ -> Lt)

  (** val compare : positive -> positive -> comparison **)

  let compare =
    compare_cont Eq

  (** val eqb : positive -> positive -> bool **)

  let rec eqb p q =
    match p with
    | XI p0 -> (match q with
                | XI q0 -> eqb p0 q0
                | _ -> false)
    | XO p0 -> (match q with
                | XO q0 -> eqb p0 q0
                | _ -> false)
    | XH -> (match q with
             | XH -> true
             | _ -> false)

  (** val coq_Nsucc_double : n -> n **)

  let coq_Nsucc_double = function
  | N0 -> Npos XH
  | Npos p -> Npos (XI p)

  (** val coq_Ndouble : n -> n **)

  let coq_Ndouble = function
  | N0 -> N0
  | Npos p -> Npos (XO p)

  (** val coq_lor : positive -> positive -> positive **)

  let rec coq_lor p q =
    match p with
    | XI p0 ->
      (match q with
       | XI q0 -> XI (coq_lor p0 q0)
       | XO q0 -> XI (coq_lor p0 q0)
       | XH -> p)
    | XO p0 ->
      (match q with
       | XI q0 -> XI (coq_lor p0 q0)
       | XO q0 -> XO (coq_lor p0 q0)
       | XH -> XI p0)
    | XH -> (match q with
             | XO q0 -> XI q0
             | _ -> q)

  (** val coq_land : positive -> positive -> n **)

  let rec coq_land p q =
    match p with
    | XI p0 ->
      (match q with
       | XI q0 -> coq_Nsucc_double (coq_land p0 q0)
       | XO q0 -> coq_Ndouble (coq_land p0 q0)
       | XH -> Npos XH)
    | XO p0 ->
      (match q with
       | XI q0 -> coq_Ndouble (coq_land p0 q0)
       | XO q0 -> coq_Ndouble (coq_land p0 q0)
       | XH -> N0)
    | XH -> (match q with
             | XO _ -> N0
             | _ -> Npos XH)

  (** val ldiff : positive -> positive -> n **)

  let rec ldiff p q =
    match p with
    | XI p0 ->
      (match q with
       | XI q0 -> coq_Ndouble (ldiff p0 q0)
       | XO q0 -> coq_Nsucc_double (ldiff p0 q0)
       | XH -> Npos (XO p0))
    | XO p0 ->
      (match q with
       | XI q0 -> coq_Ndouble (ldiff p0 q0)
       | XO q0 -> coq_Ndouble (ldiff p0 q0)
       | XH -> Npos p)
    | XH -> (match q with
             | XO _ -> Npos XH
             | _ -> N0)

  (** val iter_op : ('a1 -> 'a1 -> 'a1) -> positive -> 'a1 -> 'a1 **)

  let rec iter_op op p a =
    match p with
    | XI p0 -> op a (iter_op op p0 (op a a))
    | XO p0 -> iter_op op p0 (op a a)
    | XH -> a

  (** val to_nat : positive -> nat **)

  let to_nat x =
    iter_op Coq__1.add x (S O)

  (** val of_succ_nat : nat -> positive **)

  let rec of_succ_nat = function
  | O -> XH
  | S x -> succ (of_succ_nat x)
 end

module N =
 struct
  (** val succ_pos : n -> positive **)

  let succ_pos = function
  | N0 -> XH
  | Npos p -> Pos.succ p

  (** val add : n -> n -> n **)

  let add n0 m =
    match n0 with
    | N0 -> m
    | Npos p -> (match m with
                 | N0 -> n0
                 | Npos q -> Npos (Pos.add p q))

  (** val mul : n -> n -> n **)

  let mul n0 m =
    match n0 with
    | N0 -> N0
    | Npos p -> (match m with
                 | N0 -> N0
                 | Npos q -> Npos (Pos.mul p q))

  (** val coq_lor : n -> n -> n **)

  let coq_lor n0 m =
    match n0 with
    | N0 -> m
    | Npos p -> (match m with
                 | N0 -> n0
                 | Npos q -> Npos (Pos.coq_lor p q))

  (** val ldiff : n -> n -> n **)

  let ldiff n0 m =
    match n0 with
    | N0 -> N0
    | Npos p -> (match m with
                 | N0 -> n0
                 | Npos q -> Pos.ldiff p q)

  (** val to_nat : n -> nat **)

  let to_nat = function
  | N0 -> O
  | Npos p -> Pos.to_nat p

  (** val of_nat : nat -> n **)

  let of_nat = function
  | O -> N0
  | S n' -> Npos (Pos.of_succ_nat n')
 end

module Z =
 struct
  (** val double : z -> z **)

  let double = function
  | Z0 -> Z0
  | Zpos p -> Zpos (XO p)
  | Zneg p -> Zneg (XO p)

  (** val succ_double : z -> z **)

  let succ_double = function
  | Z0 -> Zpos XH
  | Zpos p -> Zpos (XI p)
  | Zneg p -> Zneg (Pos.pred_double p)

  (** val pred_double : z -> z **)

  let pred_double = function
  | Z0 -> Zneg XH
  | Zpos p -> Zpos (Pos.pred_double p)
  | Zneg p -> Zneg (XI p)

  (** val pos_sub : positive -> positive -> z **)

  let rec pos_sub x y =
    match x with
    | XI p ->
      (match y with
       | XI q -> double (pos_sub p q)
       | XO q -> succ_double (pos_sub p q)
       | XH -> Zpos (XO p))
    | XO p ->
      (match y with
       | XI q -> pred_double (pos_sub p q)
       | XO q -> double (pos_sub p q)
       | XH -> Zpos (Pos.pred_double p))
    | XH ->
      (match y with
       | XI q -> Zneg (XO q)
       | XO q -> Zneg (Pos.pred_double q)
       | XH -> Z0)

  (** val add : z -> z -> z **)

  let add x y =
    match x with
    | Z0 -> y
    | Zpos x' ->
      (match y with
       | Z0 -> x
       | Zpos y' -> Zpos (Pos.add x' y')
       | Zneg y' -> pos_sub x' y')
    | Zneg x' ->
      (match y with
       | Z0 -> x
       | Zpos y' -> pos_sub y' x'
       | Zneg y' -> Zneg (Pos.add x' y'))

  (** val opp : z -> z **)

  let opp = function
  | Z0 -> Z0
  | Zpos x0 -> Zneg x0
  | Zneg x0 -> Zpos x0

  (** val sub : z -> z -> z **)

  let sub m n0 =
    add m (opp n0)

  (** val mul : z -> z -> z **)

  let mul x y =
    match x with
    | Z0 -> Z0
    | Zpos x' ->
      (match y with
       | Z0 -> Z0
       | Zpos y' -> Zpos (Pos.mul x' y')
       | Zneg y' -> Zneg (Pos.mul x' y'))
    | Zneg x' ->
      (match y with
       | Z0 -> Z0
       | Zpos y' -> Zneg (Pos.mul x' y')
       | Zneg y' -> Zpos (Pos.mul x' y'))

  (** val pow_pos : z -> positive -> z **)

  let pow_pos z0 =
    Pos.iter (mul z0) (Zpos XH)

  (** val pow : z -> z -> z **)

  let pow x = function
  | Z0 -> Zpos XH
  | Zpos p -> pow_pos x p
  | Zneg _ -> Z0

  (** val compare : z -> z -> comparison **)

  let compare x y =
    match x with
    | Z0 -> (match y with
             | Z0 -> Eq
             | Zpos _ -> Lt
             | Zneg _ -> Gt)
    | Zpos x' -> (match y with
                  | Zpos y' -> Pos.compare x' y'
                  | _ -> Gt)
    | Zneg x' ->
      (match y with
       | Zneg y' -> compOpp (Pos.compare x' y')
       | _ -> Lt)

  (** val leb : z -> z -> bool **)

  let leb x y =
    match compare x y with
    | Gt -> false
    | _ -> true

  (** val ltb : z -> z -> bool **)

  let ltb x y =
    match compare x y with
    | Lt -> true
    | _ -> false

  (** val geb : z -> z -> bool **)

  let geb x y =
    match compare x y with
    | Lt -> false
    | _ -> true

  (** val gtb : z -> z -> bool **)

  let gtb x y =
    match compare x y with
    | Gt -> true
    | _ -> false

  (** val eqb : z -> z -> bool **)

  let eqb x y =
    match x with
    | Z0 -> (match y with
             | Z0 -> true
             | _ -> false)
    | Zpos p -> (match y with
                 | Zpos q -> Pos.eqb p q
                 | _ -> false)
    | Zneg p -> (match y with
                 | Zneg q -> Pos.eqb p q
                 | _ -> false)

  (** val to_nat : z -> nat **)

  let to_nat = function
  | Zpos p -> Pos.to_nat p
  | _ -> O

  (** val to_N : z -> n **)

  let to_N = function
  | Zpos p -> Npos p
  | _ -> N0

  (** val of_nat : nat -> z **)

  let of_nat = function
  | O -> Z0
  | S n1 -> Zpos (Pos.of_succ_nat n1)

  (** val of_N : n -> z **)

  let of_N = function
  | N0 -> Z0
  | Npos p -> Zpos p

  (** val pos_div_eucl : positive -> z -> z * z **)

  let rec pos_div_eucl a b =
    match a with
    | XI a' ->
      let (q, r) = pos_div_eucl a' b in
      let r' = add (mul (Zpos (XO XH)) r) (Zpos XH) in
      if ltb r' b
      then ((mul (Zpos (XO XH)) q), r')
      else ((add (mul (Zpos (XO XH)) q) (Zpos XH)), (sub r' b))
    | XO a' ->
      let (q, r) = pos_div_eucl a' b in
      let r' = mul (Zpos (XO XH)) r in
      if ltb r' b
      then ((mul (Zpos (XO XH)) q), r')
      else ((add (mul (Zpos (XO XH)) q) (Zpos XH)), (sub r' b))
    | XH -> if leb (Zpos (XO XH)) b then (Z0, (Zpos XH)) else ((Zpos XH), Z0)

  (** val div_eucl : z -> z -> z * z **)

  let div_eucl a b =
    match a with
    | Z0 -> (Z0, Z0)
    | Zpos a' ->
      (match b with
       | Z0 -> (Z0, a)
       | Zpos _ -> pos_div_eucl a' b
       | Zneg b' ->
         let (q, r) = pos_div_eucl a' (Zpos b') in
         (match r with
          | Z0 -> ((opp q), Z0)
          | _ -> ((opp (add q (Zpos XH))), (add b r))))
    | Zneg a' ->
      (match b with
       | Z0 -> (Z0, a)
       | Zpos _ ->
         let (q, r) = pos_div_eucl a' b in
         (match r with
          | Z0 -> ((opp q), Z0)
          | _ -> ((opp (add q (Zpos XH))), (sub b r)))
       | Zneg b' -> let (q, r) = pos_div_eucl a' (Zpos b') in (q, (opp r)))

  (** val div : z -> z -> z **)

  let div a b =
    let (q, _) = div_eucl a b in q

  (** val modulo : z -> z -> z **)

  let modulo a b =
    let (_, r) = div_eucl a b in r

  (** val div2 : z -> z **)

  let div2 = function
  | Z0 -> Z0
  | Zpos p -> (match p with
               | XH -> Z0
               | _ -> Zpos (Pos.div2 p))
  | Zneg p -> Zneg (Pos.div2_up p)

  (** val shiftl : z -> z -> z **)

  let shiftl a = function
  | Z0 -> a
  | Zpos p -> Pos.iter (mul (Zpos (XO XH))) a p
  | Zneg p -> Pos.iter div2 a p

  (** val shiftr : z -> z -> z **)

  let shiftr a n0 =
    shiftl a (opp n0)

  (** val coq_land : z -> z -> z **)

  let coq_land a b =
    match a with
    | Z0 -> Z0
    | Zpos a0 ->
      (match b with
       | Z0 -> Z0
       | Zpos b0 -> of_N (Pos.coq_land a0 b0)
       | Zneg b0 -> of_N (N.ldiff (Npos a0) (Pos.pred_N b0)))
    | Zneg a0 ->
      (match b with
       | Z0 -> Z0
       | Zpos b0 -> of_N (N.ldiff (Npos b0) (Pos.pred_N a0))
       | Zneg b0 ->
         Zneg (N.succ_pos (N.coq_lor (Pos.pred_N a0) (Pos.pred_N b0))))
 end

(** val wrap32 : z -> z **)

let wrap32 z0 =
  Z.sub
    (Z.modulo
      (Z.add z0 (Zpos (XO (XO (XO (XO (XO (XO (XO (XO (XO (XO (XO (XO (XO (XO
        (XO (XO (XO (XO (XO (XO (XO (XO (XO (XO (XO (XO (XO (XO (XO (XO (XO
        XH))))))))))))))))))))))))))))))))) (Zpos (XO (XO (XO (XO (XO (XO (XO
      (XO (XO (XO (XO (XO (XO (XO (XO (XO (XO (XO (XO (XO (XO (XO (XO (XO (XO
      (XO (XO (XO (XO (XO (XO (XO XH)))))))))))))))))))))))))))))))))) (Zpos
    (XO (XO (XO (XO (XO (XO (XO (XO (XO (XO (XO (XO (XO (XO (XO (XO (XO (XO
    (XO (XO (XO (XO (XO (XO (XO (XO (XO (XO (XO (XO (XO
    XH))))))))))))))))))))))))))))))))

(** val split_at : z -> z list -> z list -> z list list * z list **)

let rec split_at d bs cur =
  match bs with
  | [] -> ([], (rev cur))
  | b :: r ->
    if Z.eqb b d
    then let (rs, t) = split_at d r [] in (((rev cur) :: rs), t)
    else split_at d r (b :: cur)

(** val strip_cr : z list -> z list **)

let strip_cr l =
  match rev l with
  | [] -> l
  | z0 :: r ->
    (match z0 with
     | Zpos p ->
       (match p with
        | XI p0 ->
          (match p0 with
           | XO p1 ->
             (match p1 with
              | XI p2 -> (match p2 with
                          | XH -> rev r
                          | _ -> l)
              | _ -> l)
           | _ -> l)
        | _ -> l)
     | _ -> l)

(** val records : z -> bool -> z list -> z list list **)

let records d cr bs =
  let (rs, t) = split_at d bs [] in
  app (map (if cr then strip_cr else (fun x -> x)) rs)
    (match t with
     | [] -> []
     | _ :: _ -> t :: [])

(** val unrecords : z -> z list list -> z list **)

let unrecords d rs =
  flat_map (fun r -> app r (d :: [])) rs

(** val tABLE : z list **)

let tABLE =
  (Zpos (XI (XO (XO (XO (XO (XO XH))))))) :: ((Zpos (XO (XI (XO (XO (XO (XO
    XH))))))) :: ((Zpos (XI (XI (XO (XO (XO (XO XH))))))) :: ((Zpos (XO (XO
    (XI (XO (XO (XO XH))))))) :: ((Zpos (XI (XO (XI (XO (XO (XO
    XH))))))) :: ((Zpos (XO (XI (XI (XO (XO (XO XH))))))) :: ((Zpos (XI (XI
    (XI (XO (XO (XO XH))))))) :: ((Zpos (XO (XO (XO (XI (XO (XO
    XH))))))) :: ((Zpos (XI (XO (XO (XI (XO (XO XH))))))) :: ((Zpos (XO (XI
    (XO (XI (XO (XO XH))))))) :: ((Zpos (XI (XI (XO (XI (XO (XO
    XH))))))) :: ((Zpos (XO (XO (XI (XI (XO (XO XH))))))) :: ((Zpos (XI (XO
    (XI (XI (XO (XO XH))))))) :: ((Zpos (XO (XI (XI (XI (XO (XO
    XH))))))) :: ((Zpos (XI (XI (XI (XI (XO (XO XH))))))) :: ((Zpos (XO (XO
    (XO (XO (XI (XO XH))))))) :: ((Zpos (XI (XO (XO (XO (XI (XO
    XH))))))) :: ((Zpos (XO (XI (XO (XO (XI (XO XH))))))) :: ((Zpos (XI (XI
    (XO (XO (XI (XO XH))))))) :: ((Zpos (XO (XO (XI (XO (XI (XO
    XH))))))) :: ((Zpos (XI (XO (XI (XO (XI (XO XH))))))) :: ((Zpos (XO (XI
    (XI (XO (XI (XO XH))))))) :: ((Zpos (XI (XI (XI (XO (XI (XO
    XH))))))) :: ((Zpos (XO (XO (XO (XI (XI (XO XH))))))) :: ((Zpos (XI (XO
    (XO (XI (XI (XO XH))))))) :: ((Zpos (XO (XI (XO (XI (XI (XO
    XH))))))) :: ((Zpos (XI (XO (XO (XO (XO (XI XH))))))) :: ((Zpos (XO (XI
    (XO (XO (XO (XI XH))))))) :: ((Zpos (XI (XI (XO (XO (XO (XI
    XH))))))) :: ((Zpos (XO (XO (XI (XO (XO (XI XH))))))) :: ((Zpos (XI (XO
    (XI (XO (XO (XI XH))))))) :: ((Zpos (XO (XI (XI (XO (XO (XI
    XH))))))) :: ((Zpos (XI (XI (XI (XO (XO (XI XH))))))) :: ((Zpos (XO (XO
    (XO (XI (XO (XI XH))))))) :: ((Zpos (XI (XO (XO (XI (XO (XI
    XH))))))) :: ((Zpos (XO (XI (XO (XI (XO (XI XH))))))) :: ((Zpos (XI (XI
    (XO (XI (XO (XI XH))))))) :: ((Zpos (XO (XO (XI (XI (XO (XI
    XH))))))) :: ((Zpos (XI (XO (XI (XI (XO (XI XH))))))) :: ((Zpos (XO (XI
    (XI (XI (XO (XI XH))))))) :: ((Zpos (XI (XI (XI (XI (XO (XI
    XH))))))) :: ((Zpos (XO (XO (XO (XO (XI (XI XH))))))) :: ((Zpos (XI (XO
    (XO (XO (XI (XI XH))))))) :: ((Zpos (XO (XI (XO (XO (XI (XI
    XH))))))) :: ((Zpos (XI (XI (XO (XO (XI (XI XH))))))) :: ((Zpos (XO (XO
    (XI (XO (XI (XI XH))))))) :: ((Zpos (XI (XO (XI (XO (XI (XI
    XH))))))) :: ((Zpos (XO (XI (XI (XO (XI (XI XH))))))) :: ((Zpos (XI (XI
    (XI (XO (XI (XI XH))))))) :: ((Zpos (XO (XO (XO (XI (XI (XI
    XH))))))) :: ((Zpos (XI (XO (XO (XI (XI (XI XH))))))) :: ((Zpos (XO (XI
    (XO (XI (XI (XI XH))))))) :: ((Zpos (XO (XO (XO (XO (XI
    XH)))))) :: ((Zpos (XI (XO (XO (XO (XI XH)))))) :: ((Zpos (XO (XI (XO (XO
    (XI XH)))))) :: ((Zpos (XI (XI (XO (XO (XI XH)))))) :: ((Zpos (XO (XO (XI
    (XO (XI XH)))))) :: ((Zpos (XI (XO (XI (XO (XI XH)))))) :: ((Zpos (XO (XI
    (XI (XO (XI XH)))))) :: ((Zpos (XI (XI (XI (XO (XI XH)))))) :: ((Zpos (XO
    (XO (XO (XI (XI XH)))))) :: ((Zpos (XI (XO (XO (XI (XI XH)))))) :: ((Zpos
    (XI (XI (XO (XI (XO XH)))))) :: ((Zpos (XI (XI (XI (XI (XO
    XH)))))) :: [])))))))))))))))))))))))))))))))))))))))))))))))))))))))))))))))

(** val iNV_TABLE : z list **)

let iNV_TABLE =
  (Zneg XH) :: ((Zneg XH) :: ((Zneg XH) :: ((Zneg XH) :: ((Zneg XH) :: ((Zneg
    XH) :: ((Zneg XH) :: ((Zneg XH) :: ((Zneg XH) :: ((Zneg XH) :: ((Zneg
    XH) :: ((Zneg XH) :: ((Zneg XH) :: ((Zneg XH) :: ((Zneg XH) :: ((Zneg
    XH) :: ((Zneg XH) :: ((Zneg XH) :: ((Zneg XH) :: ((Zneg XH) :: ((Zneg
    XH) :: ((Zneg XH) :: ((Zneg XH) :: ((Zneg XH) :: ((Zneg XH) :: ((Zneg
    XH) :: ((Zneg XH) :: ((Zneg XH) :: ((Zneg XH) :: ((Zneg XH) :: ((Zneg
    XH) :: ((Zneg XH) :: ((Zneg XH) :: ((Zneg XH) :: ((Zneg XH) :: ((Zneg
    XH) :: ((Zneg XH) :: ((Zneg XH) :: ((Zneg XH) :: ((Zneg XH) :: ((Zneg
    XH) :: ((Zneg XH) :: ((Zneg XH) :: ((Zpos (XO (XI (XI (XI (XI
    XH)))))) :: ((Zneg XH) :: ((Zneg XH) :: ((Zneg XH) :: ((Zpos (XI (XI (XI
    (XI (XI XH)))))) :: ((Zpos (XO (XO (XI (XO (XI XH)))))) :: ((Zpos (XI (XO
    (XI (XO (XI XH)))))) :: ((Zpos (XO (XI (XI (XO (XI XH)))))) :: ((Zpos (XI
    (XI (XI (XO (XI XH)))))) :: ((Zpos (XO (XO (XO (XI (XI XH)))))) :: ((Zpos
    (XI (XO (XO (XI (XI XH)))))) :: ((Zpos (XO (XI (XO (XI (XI
    XH)))))) :: ((Zpos (XI (XI (XO (XI (XI XH)))))) :: ((Zpos (XO (XO (XI (XI
    (XI XH)))))) :: ((Zpos (XI (XO (XI (XI (XI XH)))))) :: ((Zneg
    XH) :: ((Zneg XH) :: ((Zneg XH) :: ((Zneg XH) :: ((Zneg XH) :: ((Zneg
    XH) :: ((Zneg XH) :: (Z0 :: ((Zpos XH) :: ((Zpos (XO XH)) :: ((Zpos (XI
    XH)) :: ((Zpos (XO (XO XH))) :: ((Zpos (XI (XO XH))) :: ((Zpos (XO (XI
    XH))) :: ((Zpos (XI (XI XH))) :: ((Zpos (XO (XO (XO XH)))) :: ((Zpos (XI
    (XO (XO XH)))) :: ((Zpos (XO (XI (XO XH)))) :: ((Zpos (XI (XI (XO
    XH)))) :: ((Zpos (XO (XO (XI XH)))) :: ((Zpos (XI (XO (XI
    XH)))) :: ((Zpos (XO (XI (XI XH)))) :: ((Zpos (XI (XI (XI
    XH)))) :: ((Zpos (XO (XO (XO (XO XH))))) :: ((Zpos (XI (XO (XO (XO
    XH))))) :: ((Zpos (XO (XI (XO (XO XH))))) :: ((Zpos (XI (XI (XO (XO
    XH))))) :: ((Zpos (XO (XO (XI (XO XH))))) :: ((Zpos (XI (XO (XI (XO
    XH))))) :: ((Zpos (XO (XI (XI (XO XH))))) :: ((Zpos (XI (XI (XI (XO
    XH))))) :: ((Zpos (XO (XO (XO (XI XH))))) :: ((Zpos (XI (XO (XO (XI
    XH))))) :: ((Zneg XH) :: ((Zneg XH) :: ((Zneg XH) :: ((Zneg XH) :: ((Zneg
    XH) :: ((Zneg XH) :: ((Zpos (XO (XI (XO (XI XH))))) :: ((Zpos (XI (XI (XO
    (XI XH))))) :: ((Zpos (XO (XO (XI (XI XH))))) :: ((Zpos (XI (XO (XI (XI
    XH))))) :: ((Zpos (XO (XI (XI (XI XH))))) :: ((Zpos (XI (XI (XI (XI
    XH))))) :: ((Zpos (XO (XO (XO (XO (XO XH)))))) :: ((Zpos (XI (XO (XO (XO
    (XO XH)))))) :: ((Zpos (XO (XI (XO (XO (XO XH)))))) :: ((Zpos (XI (XI (XO
    (XO (XO XH)))))) :: ((Zpos (XO (XO (XI (XO (XO XH)))))) :: ((Zpos (XI (XO
    (XI (XO (XO XH)))))) :: ((Zpos (XO (XI (XI (XO (XO XH)))))) :: ((Zpos (XI
    (XI (XI (XO (XO XH)))))) :: ((Zpos (XO (XO (XO (XI (XO XH)))))) :: ((Zpos
    (XI (XO (XO (XI (XO XH)))))) :: ((Zpos (XO (XI (XO (XI (XO
    XH)))))) :: ((Zpos (XI (XI (XO (XI (XO XH)))))) :: ((Zpos (XO (XO (XI (XI
    (XO XH)))))) :: ((Zpos (XI (XO (XI (XI (XO XH)))))) :: ((Zpos (XO (XI (XI
    (XI (XO XH)))))) :: ((Zpos (XI (XI (XI (XI (XO XH)))))) :: ((Zpos (XO (XO
    (XO (XO (XI XH)))))) :: ((Zpos (XI (XO (XO (XO (XI XH)))))) :: ((Zpos (XO
    (XI (XO (XO (XI XH)))))) :: ((Zpos (XI (XI (XO (XO (XI XH)))))) :: ((Zneg
    XH) :: ((Zneg XH) :: ((Zneg XH) :: ((Zneg XH) :: ((Zneg XH) :: ((Zneg
    XH) :: ((Zneg XH) :: ((Zneg XH) :: ((Zneg XH) :: ((Zneg XH) :: ((Zneg
    XH) :: ((Zneg XH) :: ((Zneg XH) :: ((Zneg XH) :: ((Zneg XH) :: ((Zneg
    XH) :: ((Zneg XH) :: ((Zneg XH) :: ((Zneg XH) :: ((Zneg XH) :: ((Zneg
    XH) :: ((Zneg XH) :: ((Zneg XH) :: ((Zneg XH) :: ((Zneg XH) :: ((Zneg
    XH) :: ((Zneg XH) :: ((Zneg XH) :: ((Zneg XH) :: ((Zneg XH) :: ((Zneg
    XH) :: ((Zneg XH) :: ((Zneg XH) :: ((Zneg XH) :: ((Zneg XH) :: ((Zneg
    XH) :: ((Zneg XH) :: ((Zneg XH) :: ((Zneg XH) :: ((Zneg XH) :: ((Zneg
    XH) :: ((Zneg XH) :: ((Zneg XH) :: ((Zneg XH) :: ((Zneg XH) :: ((Zneg
    XH) :: ((Zneg XH) :: ((Zneg XH) :: ((Zneg XH) :: ((Zneg XH) :: ((Zneg
    XH) :: ((Zneg XH) :: ((Zneg XH) :: ((Zneg XH) :: ((Zneg XH) :: ((Zneg
    XH) :: ((Zneg XH) :: ((Zneg XH) :: ((Zneg XH) :: ((Zneg XH) :: ((Zneg
    XH) :: ((Zneg XH) :: ((Zneg XH) :: ((Zneg XH) :: ((Zneg XH) :: ((Zneg
    XH) :: ((Zneg XH) :: ((Zneg XH) :: ((Zneg XH) :: ((Zneg XH) :: ((Zneg
    XH) :: ((Zneg XH) :: ((Zneg XH) :: ((Zneg XH) :: ((Zneg XH) :: ((Zneg
    XH) :: ((Zneg XH) :: ((Zneg XH) :: ((Zneg XH) :: ((Zneg XH) :: ((Zneg
    XH) :: ((Zneg XH) :: ((Zneg XH) :: ((Zneg XH) :: ((Zneg XH) :: ((Zneg
    XH) :: ((Zneg XH) :: ((Zneg XH) :: ((Zneg XH) :: ((Zneg XH) :: ((Zneg
    XH) :: ((Zneg XH) :: ((Zneg XH) :: ((Zneg XH) :: ((Zneg XH) :: ((Zneg
    XH) :: ((Zneg XH) :: ((Zneg XH) :: ((Zneg XH) :: ((Zneg XH) :: ((Zneg
    XH) :: ((Zneg XH) :: ((Zneg XH) :: ((Zneg XH) :: ((Zneg XH) :: ((Zneg
    XH) :: ((Zneg XH) :: ((Zneg XH) :: ((Zneg XH) :: ((Zneg XH) :: ((Zneg
    XH) :: ((Zneg XH) :: ((Zneg XH) :: ((Zneg XH) :: ((Zneg XH) :: ((Zneg
    XH) :: ((Zneg XH) :: ((Zneg XH) :: ((Zneg XH) :: ((Zneg XH) :: ((Zneg
    XH) :: ((Zneg XH) :: ((Zneg XH) :: ((Zneg XH) :: ((Zneg XH) :: ((Zneg
    XH) :: ((Zneg XH) :: ((Zneg XH) :: ((Zneg XH) :: ((Zneg XH) :: ((Zneg
    XH) :: ((Zneg XH) :: ((Zneg
    XH) :: [])))))))))))))))))))))))))))))))))))))))))))))))))))))))))))))))))))))))))))))))))))))))))))))))))))))))))))))))))))))))))))))))))))))))))))))))))))))))))))))))))))))))))))))))))))))))))))))))))))))))))))))))))))))))))))))))))))))))))))))))))))))))))))))))

(** val enc_val0 : z **)

let enc_val0 =
  Z0

(** val enc_valb0 : z **)

let enc_valb0 =
  Zneg (XO (XI XH))

(** val enc_shift : z **)

let enc_shift =
  Zpos (XO (XO (XO XH)))

(** val enc_valb_add : z **)

let enc_valb_add =
  Zpos (XO (XO (XO XH)))

(** val enc_loop_bound : z **)

let enc_loop_bound =
  Z0

(** val enc_mask : z **)

let enc_mask =
  Zpos (XI (XI (XI (XI (XI XH)))))

(** val enc_valb_sub : z **)

let enc_valb_sub =
  Zpos (XO (XI XH))

(** val enc_tail_bound : z **)

let enc_tail_bound =
  Zneg (XO (XI XH))

(** val enc_tail_shl : z **)

let enc_tail_shl =
  Zpos (XO (XO (XO XH)))

(** val enc_tail_add : z **)

let enc_tail_add =
  Zpos (XO (XO (XO XH)))

(** val enc_tail_mask : z **)

let enc_tail_mask =
  Zpos (XI (XI (XI (XI (XI XH)))))

(** val enc_pad_mod : z **)

let enc_pad_mod =
  Zpos (XO (XO XH))

(** val pad_char : z **)

let pad_char =
  Zpos (XI (XO (XI (XI (XI XH)))))

(** val dec_val0 : z **)

let dec_val0 =
  Z0

(** val dec_valb0 : z **)

let dec_valb0 =
  Zneg (XO (XO (XO XH)))

(** val dec_pad_char : z **)

let dec_pad_char =
  Zpos (XI (XO (XI (XI (XI XH)))))

(** val dec_reject : z **)

let dec_reject =
  Zneg XH

(** val dec_shift : z **)

let dec_shift =
  Zpos (XO (XI XH))

(** val dec_valb_add : z **)

let dec_valb_add =
  Zpos (XO (XI XH))

(** val dec_out_bound : z **)

let dec_out_bound =
  Z0

(** val dec_mask : z **)

let dec_mask =
  Zpos (XI (XI (XI (XI (XI (XI (XI XH)))))))

(** val dec_valb_sub : z **)

let dec_valb_sub =
  Zpos (XO (XO (XO XH)))

(** val tbl : z -> z **)

let tbl i =
  nth (Z.to_nat i) tABLE Z0

(** val inv : z -> z **)

let inv c =
  nth (Z.to_nat c) iNV_TABLE Z0

(** val sel : z -> z -> z -> z **)

let sel val0 valb mask =
  Z.coq_land (Z.shiftr val0 valb) mask

(** val enc_drain : nat -> z -> z -> (z list * z) option **)

let rec enc_drain fuel val0 valb =
  if Z.geb valb enc_loop_bound
  then (match fuel with
        | O -> None
        | S f ->
          (match enc_drain f val0 (Z.sub valb enc_valb_sub) with
           | Some p ->
             let (o, vb) = p in
             Some (((tbl (sel val0 valb enc_mask)) :: o), vb)
           | None -> None))
  else Some ([], valb)

(** val drain_fuel : nat **)

let drain_fuel =
  S (S (S (S (S (S (S (S O)))))))

(** val enc_bytes : z list -> z -> z -> ((z list * z) * z) option **)

let rec enc_bytes bs val0 valb =
  match bs with
  | [] -> Some (([], val0), valb)
  | c :: r ->
    let val' = wrap32 (Z.add (Z.mul val0 (Z.pow (Zpos (XO XH)) enc_shift)) c)
    in
    (match enc_drain drain_fuel val' (Z.add valb enc_valb_add) with
     | Some p ->
       let (o, vb) = p in
       (match enc_bytes r val' vb with
        | Some p0 ->
          let (p1, b) = p0 in let (o2, v) = p1 in Some (((app o o2), v), b)
        | None -> None)
     | None -> None)

(** val enc_pad : nat -> z list **)

let enc_pad n0 =
  repeat pad_char
    (Z.to_nat
      (Z.modulo (Z.sub enc_pad_mod (Z.modulo (Z.of_nat n0) enc_pad_mod))
        enc_pad_mod))

(** val base64_encode : z list -> z list option **)

let base64_encode bs =
  match enc_bytes bs enc_val0 enc_valb0 with
  | Some p ->
    let (p0, valb) = p in
    let (o, val0) = p0 in
    let o' =
      if Z.gtb valb enc_tail_bound
      then app o
             ((tbl
                (sel
                  (wrap32 (Z.mul val0 (Z.pow (Zpos (XO XH)) enc_tail_shl)))
                  (Z.add valb enc_tail_add) enc_tail_mask)) :: [])
      else o
    in
    Some (app o' (enc_pad (length o')))
  | None -> None

type dres =
| DOk of z list
| DBadChar of z
| DLengthError

(** val count_padding_rev : z list -> nat **)

let rec count_padding_rev = function
| [] -> O
| c :: r' ->
  if Z.eqb c (Zpos (XI (XO (XI (XI (XI XH))))))
  then S (count_padding_rev r')
  else O

(** val count_padding : z list -> nat **)

let count_padding cs =
  count_padding_rev (rev cs)

(** val dec_loop : z list -> z -> z -> dres **)

let rec dec_loop cs val0 valb =
  match cs with
  | [] -> DOk []
  | c :: r ->
    if Z.eqb c dec_pad_char
    then DOk []
    else if Z.eqb (inv c) dec_reject
         then DBadChar c
         else let val' =
                wrap32
                  (Z.add (Z.mul val0 (Z.pow (Zpos (XO XH)) dec_shift))
                    (inv c))
              in
              let valb' = Z.add valb dec_valb_add in
              if Z.geb valb' dec_out_bound
              then (match dec_loop r val' (Z.sub valb' dec_valb_sub) with
                    | DOk o -> DOk ((sel val' valb' dec_mask) :: o)
                    | x -> x)
              else dec_loop r val' valb'

(** val base64_decode : z list -> dres **)

let base64_decode cs =
  if Z.ltb
       (Z.div (Z.mul (Z.of_nat (length cs)) (Zpos (XI XH))) (Zpos (XO (XO
         XH)))) (Z.of_nat (count_padding cs))
  then DLengthError
  else dec_loop cs dec_val0 dec_valb0

(** val b64f_feeder_strip_cr : bool **)

let b64f_feeder_strip_cr =
  true

(** val b64f_collector_strip_cr : bool **)

let b64f_collector_strip_cr =
  false

(** val b64f_back_guarded : bool **)

let b64f_back_guarded =
  true

(** val b64f_nl_test : z **)

let b64f_nl_test =
  Zpos (XO (XI (XO XH)))

(** val b64f_nl_push : z **)

let b64f_nl_push =
  Zpos (XO (XI (XO XH)))

(** val b64f_nl_count : z **)

let b64f_nl_count =
  Zpos (XO (XI (XO XH)))

(** val b64f_nl_back : z **)

let b64f_nl_back =
  Zpos (XO (XI (XO XH)))

(** val b64f_nl_out : z **)

let b64f_nl_out =
  Zpos (XO (XI (XO XH)))

type docmeta = { line_cnt : nat; has_nl : bool }

(** val last_byte : z list -> z option **)

let last_byte doc =
  match rev doc with
  | [] -> None
  | b :: _ -> Some b

(** val count_byte : z -> z list -> nat **)

let count_byte c bs =
  length (filter (fun b -> Z.eqb b c) bs)

type fres =
| FOk of z list * docmeta
| FUB

(** val feed_doc : z list -> fres **)

let feed_doc doc =
  let has =
    match last_byte doc with
    | Some b -> Some (Z.eqb b b64f_nl_test)
    | None -> if b64f_back_guarded then Some false else None
  in
  (match has with
   | Some h ->
     let doc' = if h then doc else app doc (b64f_nl_push :: []) in
     FOk (doc', { line_cnt = (count_byte b64f_nl_count doc'); has_nl = h })
   | None -> FUB)

(** val rebuild :
    nat -> bool -> z list list -> (z list * z list list) option **)

let rec rebuild cnt has answers =
  match cnt with
  | O -> Some ([], answers)
  | S k ->
    (match answers with
     | [] -> None
     | a :: r ->
       (match rebuild k has r with
        | Some p ->
          let (d, rest) = p in
          Some
          ((app a
             (app
               (if (||) (Z.ltb Z0 (Z.of_nat k)) has
                then b64f_nl_back :: []
                else []) d)), rest)
        | None -> None))

type cres =
| COk of z list list
| CChildShort
| CSurplus

(** val collect : docmeta list -> z list list -> cres **)

let rec collect metas answers =
  match metas with
  | [] -> (match answers with
           | [] -> COk []
           | _ :: _ -> CSurplus)
  | m :: r ->
    (match m.line_cnt with
     | O -> (match answers with
             | [] -> COk []
             | _ :: _ -> CSurplus)
     | S _ ->
       (match rebuild m.line_cnt m.has_nl answers with
        | Some p ->
          let (d, rest) = p in
          (match collect r rest with
           | COk ds -> COk (d :: ds)
           | x -> x)
        | None -> CChildShort))

type bres =
| BOk of z list
| BBadInput
| BUB
| BChildShort
| BSurplus
| BFuel

(** val decode_all : z list list -> z list list option **)

let rec decode_all = function
| [] -> Some []
| l :: r ->
  (match base64_decode l with
   | DOk d ->
     (match decode_all r with
      | Some ds -> Some (d :: ds)
      | None -> None)
   | _ -> None)

(** val feed_all : z list list -> (z list * docmeta list) option **)

let rec feed_all = function
| [] -> Some ([], [])
| d :: r ->
  (match feed_doc d with
   | FOk (sent, m) ->
     (match feed_all r with
      | Some p -> let (s, ms) = p in Some ((app sent s), (m :: ms))
      | None -> None)
   | FUB -> None)

(** val encode_all : z list list -> z list option **)

let rec encode_all = function
| [] -> Some []
| d :: r ->
  (match base64_encode d with
   | Some e ->
     (match encode_all r with
      | Some o -> Some (app e (app (b64f_nl_out :: []) o))
      | None -> None)
   | None -> None)

(** val child_output : (z list -> z list) -> z list -> z list **)

let child_output g child_in =
  unrecords (Zpos (XO (XI (XO XH))))
    (map g (records (Zpos (XO (XI (XO XH)))) false child_in))

(** val b64filter_docs : (z list -> z list) -> bool -> z list list -> bres **)

let b64filter_docs g cr_out docs =
  match feed_all docs with
  | Some p ->
    let (child_in, metas) = p in
    (match collect metas
             (records (Zpos (XO (XI (XO XH)))) cr_out
               (child_output g child_in)) with
     | COk out_docs ->
       (match encode_all out_docs with
        | Some o -> BOk o
        | None -> BFuel)
     | CChildShort -> BChildShort
     | CSurplus -> BSurplus)
  | None -> BUB

(** val b64filter : (z list -> z list) -> bool -> bool -> z list -> bres **)

let b64filter g cr_in cr_out input =
  match decode_all (records (Zpos (XO (XI (XO XH)))) cr_in input) with
  | Some docs -> b64filter_docs g cr_out docs
  | None -> BBadInput

(** val b64filter_tool : (z list -> z list) -> z list -> bres **)

let b64filter_tool g input =
  b64filter g b64f_feeder_strip_cr b64f_collector_strip_cr input

(** val b64filter_child_stdin : z list -> z list option **)

let b64filter_child_stdin input =
  match decode_all
          (records (Zpos (XO (XI (XO XH)))) b64f_feeder_strip_cr input) with
  | Some docs ->
    (match feed_all docs with
     | Some p -> let (s, _) = p in Some s
     | None -> None)
  | None -> None

(** val doc_lines : z list -> z list list **)

let doc_lines d = match d with
| [] -> [] :: []
| _ :: _ -> records (Zpos (XO (XI (XO XH)))) false d

(** val ends_nl : z list -> bool **)

let ends_nl d =
  match last_byte d with
  | Some b -> Z.eqb b (Zpos (XO (XI (XO XH))))
  | None -> false

(** val join_lines : z list list -> bool -> z list **)

let rec join_lines ls final =
  match ls with
  | [] -> []
  | l :: r ->
    (match r with
     | [] -> app l (if final then (Zpos (XO (XI (XO XH)))) :: [] else [])
     | _ :: _ ->
       app l (app ((Zpos (XO (XI (XO XH)))) :: []) (join_lines r final)))

(** val doc_spec : (z list -> z list) -> z list -> z list **)

let doc_spec g d =
  join_lines (map g (doc_lines d)) (ends_nl d)
