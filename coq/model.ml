
(** val negb : bool -> bool **)

let negb = function
| true -> false
| false -> true

type nat =
| O
| S of nat

(** val fst : ('a1 * 'a2) -> 'a1 **)

let fst = function
| (x, _) -> x

(** val snd : ('a1 * 'a2) -> 'a2 **)

let snd = function
| (_, y) -> y

(** val length : 'a1 list -> nat **)

let rec length = function
| [] -> O
| _ :: l' -> S (length l')

(** val app : 'a1 list -> 'a1 list -> 'a1 list **)

let rec app l m =
  match l with
  | [] -> m
  | a :: l1 -> a :: (app l1 m)

type comparison =
| Eq
| Lt
| Gt

(** val compOpp : comparison -> comparison **)

let compOpp = function
| Eq -> Eq
| Lt -> Gt
| Gt -> Lt

module Coq__1 = struct
 (** val add : nat -> nat -> nat **)
 let rec add n0 m =
   match n0 with
   | O -> m
   | S p -> S (add p m)
end
include Coq__1

module Nat =
 struct
  (** val eqb : nat -> nat -> bool **)

  let rec eqb n0 m =
    match n0 with
    | O -> (match m with
            | O -> true
            | S _ -> false)
    | S n' -> (match m with
               | O -> false
               | S m' -> eqb n' m')
 end

(** val nth : nat -> 'a1 list -> 'a1 -> 'a1 **)

let rec nth n0 l default =
  match n0 with
  | O -> (match l with
          | [] -> default
          | x :: _ -> x)
  | S m -> (match l with
            | [] -> default
            | _ :: t -> nth m t default)

(** val rev : 'a1 list -> 'a1 list **)

let rec rev = function
| [] -> []
| x :: l' -> app (rev l') (x :: [])

(** val map : ('a1 -> 'a2) -> 'a1 list -> 'a2 list **)

let rec map f = function
| [] -> []
| a :: t -> (f a) :: (map f t)

(** val forallb : ('a1 -> bool) -> 'a1 list -> bool **)

let rec forallb f = function
| [] -> true
| a :: l0 -> (&&) (f a) (forallb f l0)

(** val combine : 'a1 list -> 'a2 list -> ('a1 * 'a2) list **)

let rec combine l l' =
  match l with
  | [] -> []
  | x :: tl ->
    (match l' with
     | [] -> []
     | y :: tl' -> (x, y) :: (combine tl tl'))

(** val firstn : nat -> 'a1 list -> 'a1 list **)

let rec firstn n0 l =
  match n0 with
  | O -> []
  | S n1 -> (match l with
             | [] -> []
             | a :: l0 -> a :: (firstn n1 l0))

(** val skipn : nat -> 'a1 list -> 'a1 list **)

let rec skipn n0 l =
  match n0 with
  | O -> l
  | S n1 -> (match l with
             | [] -> []
             | _ :: l0 -> skipn n1 l0)

(** val repeat : 'a1 -> nat -> 'a1 list **)

let rec repeat x = function
| O -> []
| S k -> x :: (repeat x k)

type positive =
| XI of positive
| XO of positive
| XH

type n =
| N0
| Npos of positive

type z =
| Z0
| Zpos of positive
| Zneg of positive

module Pos =
 struct
  (** val succ : positive -> positive **)

  let rec succ = function
  | XI p -> XO (succ p)
  | XO p -> XI p
  | XH -> XO XH

  (** val add : positive -> positive -> positive **)

  let rec add x y =
    match x with
    | XI p ->
      (match y with
       | XI q -> XO (add_carry p q)
       | XO q -> XI (add p q)
       | XH -> XO (succ p))
    | XO p ->
      (match y with
       | XI q -> XI (add p q)
       | XO q -> XO (add p q)
       | XH -> XI p)
    | XH -> (match y with
             | XI q -> XO (succ q)
             | XO q -> XI q
             | XH -> XO XH)

  (** val add_carry : positive -> positive -> positive **)

  and add_carry x y =
    match x with
    | XI p ->
      (match y with
       | XI q -> XI (add_carry p q)
       | XO q -> XO (add_carry p q)
       | XH -> XI (succ p))
    | XO p ->
      (match y with
       | XI q -> XO (add_carry p q)
       | XO q -> XI (add p q)
       | XH -> XO (succ p))
    | XH ->
      (match y with
       | XI q -> XI (succ q)
       | XO q -> XO (succ q)
       | XH -> XI XH)

  (** val pred_double : positive -> positive **)

  let rec pred_double = function
  | XI p -> XI (XO p)
  | XO p -> XI (pred_double p)
  | XH -> XH

  (** val pred_N : positive -> n **)

  let pred_N = function
  | XI p -> Npos (XO p)
  | XO p -> Npos (pred_double p)
  | XH -> N0

  (** val mul : positive -> positive -> positive **)

  let rec mul x y =
    match x with
    | XI p -> add y (XO (mul p y))
    | XO p -> XO (mul p y)
    | XH -> y

  (** val iter : ('a1 -> 'a1) -> 'a1 -> positive -> 'a1 **)

  let rec iter f x = function
  | XI n' -> f (iter f (iter f x n') n')
  | XO n' -> iter f (iter f x n') n'
  | XH -> f x

  (** val div2 : positive -> positive **)

  let div2 = function
  | XI p0 -> p0
  | XO p0 -> p0
  | XH -> XH

  (** val div2_up : positive -> positive **)

  let div2_up = function
  | XI p0 -> succ p0
  | XO p0 -> p0
  | XH -> XH

  (** val compare_cont : comparison -> positive -> positive -> comparison **)

  let rec compare_cont r x y =
    match x with
    | XI p ->
      (match y with
       | XI q -> compare_cont r p q
       | XO q -> compare_cont Gt p q
       | XH -> Gt)
    | XO p ->
      (match y with
       | XI q -> compare_cont Lt p q
       | XO q -> compare_cont r p q
       | XH -> Gt)
    | XH -> (match y with
             | XH -> r
             | _ -> Lt)

  (** val compare : positive -> positive -> comparison **)

  let compare =
    compare_cont Eq

  (** val eqb : positive -> positive -> bool **)

  let rec eqb p q =
    match p with
    | XI p0 -> (match q with
                | XI q0 -> eqb p0 q0
                | _ -> false)
    | XO p0 -> (match q with
                | XO q0 -> eqb p0 q0
                | _ -> false)
    | XH -> (match q with
             | XH -> true
             | _ -> false)

  (** val coq_Nsucc_double : n -> n **)

  let coq_Nsucc_double = function
  | N0 -> Npos XH
  | Npos p -> Npos (XI p)

  (** val coq_Ndouble : n -> n **)

  let coq_Ndouble = function
  | N0 -> N0
  | Npos p -> Npos (XO p)

  (** val coq_lor : positive -> positive -> positive **)

  let rec coq_lor p q =
    match p with
    | XI p0 ->
      (match q with
       | XI q0 -> XI (coq_lor p0 q0)
       | XO q0 -> XI (coq_lor p0 q0)
       | XH -> p)
    | XO p0 ->
      (match q with
       | XI q0 -> XI (coq_lor p0 q0)
       | XO q0 -> XO (coq_lor p0 q0)
       | XH -> XI p0)
    | XH -> (match q with
             | XO q0 -> XI q0
             | _ -> q)

  (** val coq_land : positive -> positive -> n **)

  let rec coq_land p q =
    match p with
    | XI p0 ->
      (match q with
       | XI q0 -> coq_Nsucc_double (coq_land p0 q0)
       | XO q0 -> coq_Ndouble (coq_land p0 q0)
       | XH -> Npos XH)
    | XO p0 ->
      (match q with
       | XI q0 -> coq_Ndouble (coq_land p0 q0)
       | XO q0 -> coq_Ndouble (coq_land p0 q0)
       | XH -> N0)
    | XH -> (match q with
             | XO _ -> N0
             | _ -> Npos XH)

  (** val ldiff : positive -> positive -> n **)

  let rec ldiff p q =
    match p with
    | XI p0 ->
      (match q with
       | XI q0 -> coq_Ndouble (ldiff p0 q0)
       | XO q0 -> coq_Nsucc_double (ldiff p0 q0)
       | XH -> Npos (XO p0))
    | XO p0 ->
      (match q with
       | XI q0 -> coq_Ndouble (ldiff p0 q0)
       | XO q0 -> coq_Ndouble (ldiff p0 q0)
       | XH -> Npos p)
    | XH -> (match q with
             | XO _ -> Npos XH
             | _ -> N0)

  (** val iter_op : ('a1 -> 'a1 -> 'a1) -> positive -> 'a1 -> 'a1 **)

  let rec iter_op op p a =
    match p with
    | XI p0 -> op a (iter_op op p0 (op a a))
    | XO p0 -> iter_op op p0 (op a a)
    | XH -> a

  (** val to_nat : positive -> nat **)

  let to_nat x =
    iter_op Coq__1.add x (S O)

  (** val of_succ_nat : nat -> positive **)

  let rec of_succ_nat = function
  | O -> XH
  | S x -> succ (of_succ_nat x)
 end

module N =
 struct
  (** val succ_pos : n -> positive **)

  let succ_pos = function
  | N0 -> XH
  | Npos p -> Pos.succ p

  (** val add : n -> n -> n **)

  let add n0 m =
    match n0 with
    | N0 -> m
    | Npos p -> (match m with
                 | N0 -> n0
                 | Npos q -> Npos (Pos.add p q))

  (** val mul : n -> n -> n **)

  let mul n0 m =
    match n0 with
    | N0 -> N0
    | Npos p -> (match m with
                 | N0 -> N0
                 | Npos q -> Npos (Pos.mul p q))

  (** val coq_lor : n -> n -> n **)

  let coq_lor n0 m =
    match n0 with
    | N0 -> m
    | Npos p -> (match m with
                 | N0 -> n0
                 | Npos q -> Npos (Pos.coq_lor p q))

  (** val coq_land : n -> n -> n **)

  let coq_land n0 m =
    match n0 with
    | N0 -> N0
    | Npos p -> (match m with
                 | N0 -> N0
                 | Npos q -> Pos.coq_land p q)

  (** val ldiff : n -> n -> n **)

  let ldiff n0 m =
    match n0 with
    | N0 -> N0
    | Npos p -> (match m with
                 | N0 -> n0
                 | Npos q -> Pos.ldiff p q)

  (** val to_nat : n -> nat **)

  let to_nat = function
  | N0 -> O
  | Npos p -> Pos.to_nat p

  (** val of_nat : nat -> n **)

  let of_nat = function
  | O -> N0
  | S n' -> Npos (Pos.of_succ_nat n')
 end

module Z =
 struct
  (** val double : z -> z **)

  let double = function
  | Z0 -> Z0
  | Zpos p -> Zpos (XO p)
  | Zneg p -> Zneg (XO p)

  (** val succ_double : z -> z **)

  let succ_double = function
  | Z0 -> Zpos XH
  | Zpos p -> Zpos (XI p)
  | Zneg p -> Zneg (Pos.pred_double p)

  (** val pred_double : z -> z **)

  let pred_double = function
  | Z0 -> Zneg XH
  | Zpos p -> Zpos (Pos.pred_double p)
  | Zneg p -> Zneg (XI p)

  (** val pos_sub : positive -> positive -> z **)

  let rec pos_sub x y =
    match x with
    | XI p ->
      (match y with
       | XI q -> double (pos_sub p q)
       | XO q -> succ_double (pos_sub p q)
       | XH -> Zpos (XO p))
    | XO p ->
      (match y with
       | XI q -> pred_double (pos_sub p q)
       | XO q -> double (pos_sub p q)
       | XH -> Zpos (Pos.pred_double p))
    | XH ->
      (match y with
       | XI q -> Zneg (XO q)
       | XO q -> Zneg (Pos.pred_double q)
       | XH -> Z0)

  (** val add : z -> z -> z **)

  let add x y =
    match x with
    | Z0 -> y
    | Zpos x' ->
      (match y with
       | Z0 -> x
       | Zpos y' -> Zpos (Pos.add x' y')
       | Zneg y' -> pos_sub x' y')
    | Zneg x' ->
      (match y with
       | Z0 -> x
       | Zpos y' -> pos_sub y' x'
       | Zneg y' -> Zneg (Pos.add x' y'))

  (** val opp : z -> z **)

  let opp = function
  | Z0 -> Z0
  | Zpos x0 -> Zneg x0
  | Zneg x0 -> Zpos x0

  (** val sub : z -> z -> z **)

  let sub m n0 =
    add m (opp n0)

  (** val mul : z -> z -> z **)

  let mul x y =
    match x with
    | Z0 -> Z0
    | Zpos x' ->
      (match y with
       | Z0 -> Z0
       | Zpos y' -> Zpos (Pos.mul x' y')
       | Zneg y' -> Zneg (Pos.mul x' y'))
    | Zneg x' ->
      (match y with
       | Z0 -> Z0
       | Zpos y' -> Zneg (Pos.mul x' y')
       | Zneg y' -> Zpos (Pos.mul x' y'))

  (** val compare : z -> z -> comparison **)

  let compare x y =
    match x with
    | Z0 -> (match y with
             | Z0 -> Eq
             | Zpos _ -> Lt
             | Zneg _ -> Gt)
    | Zpos x' -> (match y with
                  | Zpos y' -> Pos.compare x' y'
                  | _ -> Gt)
    | Zneg x' ->
      (match y with
       | Zneg y' -> compOpp (Pos.compare x' y')
       | _ -> Lt)

  (** val leb : z -> z -> bool **)

  let leb x y =
    match compare x y with
    | Gt -> false
    | _ -> true

  (** val ltb : z -> z -> bool **)

  let ltb x y =
    match compare x y with
    | Lt -> true
    | _ -> false

  (** val geb : z -> z -> bool **)

  let geb x y =
    match compare x y with
    | Lt -> false
    | _ -> true

  (** val gtb : z -> z -> bool **)

  let gtb x y =
    match compare x y with
    | Gt -> true
    | _ -> false

  (** val eqb : z -> z -> bool **)

  let eqb x y =
    match x with
    | Z0 -> (match y with
             | Z0 -> true
             | _ -> false)
    | Zpos p -> (match y with
                 | Zpos q -> Pos.eqb p q
                 | _ -> false)
    | Zneg p -> (match y with
                 | Zneg q -> Pos.eqb p q
                 | _ -> false)

  (** val to_nat : z -> nat **)

  let to_nat = function
  | Zpos p -> Pos.to_nat p
  | _ -> O

  (** val to_N : z -> n **)

  let to_N = function
  | Zpos p -> Npos p
  | _ -> N0

  (** val of_nat : nat -> z **)

  let of_nat = function
  | O -> Z0
  | S n1 -> Zpos (Pos.of_succ_nat n1)

  (** val of_N : n -> z **)

  let of_N = function
  | N0 -> Z0
  | Npos p -> Zpos p

  (** val pos_div_eucl : positive -> z -> z * z **)

  let rec pos_div_eucl a b =
    match a with
    | XI a' ->
      let (q, r) = pos_div_eucl a' b in
      let r' = add (mul (Zpos (XO XH)) r) (Zpos XH) in
      if ltb r' b
      then ((mul (Zpos (XO XH)) q), r')
      else ((add (mul (Zpos (XO XH)) q) (Zpos XH)), (sub r' b))
    | XO a' ->
      let (q, r) = pos_div_eucl a' b in
      let r' = mul (Zpos (XO XH)) r in
      if ltb r' b
      then ((mul (Zpos (XO XH)) q), r')
      else ((add (mul (Zpos (XO XH)) q) (Zpos XH)), (sub r' b))
    | XH -> if leb (Zpos (XO XH)) b then (Z0, (Zpos XH)) else ((Zpos XH), Z0)

  (** val div_eucl : z -> z -> z * z **)

  let div_eucl a b =
    match a with
    | Z0 -> (Z0, Z0)
    | Zpos a' ->
      (match b with
       | Z0 -> (Z0, a)
       | Zpos _ -> pos_div_eucl a' b
       | Zneg b' ->
         let (q, r) = pos_div_eucl a' (Zpos b') in
         (match r with
          | Z0 -> ((opp q), Z0)
          | _ -> ((opp (add q (Zpos XH))), (add b r))))
    | Zneg a' ->
      (match b with
       | Z0 -> (Z0, a)
       | Zpos _ ->
         let (q, r) = pos_div_eucl a' b in
         (match r with
          | Z0 -> ((opp q), Z0)
          | _ -> ((opp (add q (Zpos XH))), (sub b r)))
       | Zneg b' -> let (q, r) = pos_div_eucl a' (Zpos b') in (q, (opp r)))

  (** val modulo : z -> z -> z **)

  let modulo a b =
    let (_, r) = div_eucl a b in r

  (** val div2 : z -> z **)

  let div2 = function
  | Z0 -> Z0
  | Zpos p -> (match p with
               | XH -> Z0
               | _ -> Zpos (Pos.div2 p))
  | Zneg p -> Zneg (Pos.div2_up p)

  (** val shiftl : z -> z -> z **)

  let shiftl a = function
  | Z0 -> a
  | Zpos p -> Pos.iter (mul (Zpos (XO XH))) a p
  | Zneg p -> Pos.iter div2 a p

  (** val coq_lor : z -> z -> z **)

  let coq_lor a b =
    match a with
    | Z0 -> b
    | Zpos a0 ->
      (match b with
       | Z0 -> a
       | Zpos b0 -> Zpos (Pos.coq_lor a0 b0)
       | Zneg b0 -> Zneg (N.succ_pos (N.ldiff (Pos.pred_N b0) (Npos a0))))
    | Zneg a0 ->
      (match b with
       | Z0 -> a
       | Zpos b0 -> Zneg (N.succ_pos (N.ldiff (Pos.pred_N a0) (Npos b0)))
       | Zneg b0 ->
         Zneg (N.succ_pos (N.coq_land (Pos.pred_N a0) (Pos.pred_N b0))))

  (** val coq_land : z -> z -> z **)

  let coq_land a b =
    match a with
    | Z0 -> Z0
    | Zpos a0 ->
      (match b with
       | Z0 -> Z0
       | Zpos b0 -> of_N (Pos.coq_land a0 b0)
       | Zneg b0 -> of_N (N.ldiff (Npos a0) (Pos.pred_N b0)))
    | Zneg a0 ->
      (match b with
       | Z0 -> Z0
       | Zpos b0 -> of_N (N.ldiff (Npos b0) (Pos.pred_N a0))
       | Zneg b0 ->
         Zneg (N.succ_pos (N.coq_lor (Pos.pred_N a0) (Pos.pred_N b0))))
 end

(** val wrap32 : z -> z **)

let wrap32 z0 =
  Z.sub
    (Z.modulo
      (Z.add z0 (Zpos (XO (XO (XO (XO (XO (XO (XO (XO (XO (XO (XO (XO (XO (XO
        (XO (XO (XO (XO (XO (XO (XO (XO (XO (XO (XO (XO (XO (XO (XO (XO (XO
        XH))))))))))))))))))))))))))))))))) (Zpos (XO (XO (XO (XO (XO (XO (XO
      (XO (XO (XO (XO (XO (XO (XO (XO (XO (XO (XO (XO (XO (XO (XO (XO (XO (XO
      (XO (XO (XO (XO (XO (XO (XO XH)))))))))))))))))))))))))))))))))) (Zpos
    (XO (XO (XO (XO (XO (XO (XO (XO (XO (XO (XO (XO (XO (XO (XO (XO (XO (XO
    (XO (XO (XO (XO (XO (XO (XO (XO (XO (XO (XO (XO (XO
    XH))))))))))))))))))))))))))))))))

(** val u64 : z -> z **)

let u64 z0 =
  Z.modulo z0 (Zpos (XO (XO (XO (XO (XO (XO (XO (XO (XO (XO (XO (XO (XO (XO
    (XO (XO (XO (XO (XO (XO (XO (XO (XO (XO (XO (XO (XO (XO (XO (XO (XO (XO
    (XO (XO (XO (XO (XO (XO (XO (XO (XO (XO (XO (XO (XO (XO (XO (XO (XO (XO
    (XO (XO (XO (XO (XO (XO (XO (XO (XO (XO (XO (XO (XO (XO
    XH)))))))))))))))))))))))))))))))))))))))))))))))))))))))))))))))))

(** val split_at : z -> z list -> z list -> z list list * z list **)

let rec split_at d bs cur =
  match bs with
  | [] -> ([], (rev cur))
  | b :: r ->
    if Z.eqb b d
    then let (rs, t) = split_at d r [] in (((rev cur) :: rs), t)
    else split_at d r (b :: cur)

(** val strip_cr : z list -> z list **)

let strip_cr l =
  match rev l with
  | [] -> l
  | z0 :: r ->
    (match z0 with
     | Zpos p ->
       (match p with
        | XI p0 ->
          (match p0 with
           | XO p1 ->
             (match p1 with
              | XI p2 -> (match p2 with
                          | XH -> rev r
                          | _ -> l)
              | _ -> l)
           | _ -> l)
        | _ -> l)
     | _ -> l)

(** val records : z -> bool -> z list -> z list list **)

let records d cr bs =
  let (rs, t) = split_at d bs [] in
  app (map (if cr then strip_cr else (fun x -> x)) rs)
    (match t with
     | [] -> []
     | _ :: _ -> t :: [])

(** val fold_default_width : z **)

let fold_default_width =
  Zpos (XO (XO (XO (XO (XI (XO XH))))))

(** val fold_default_keep : bool **)

let fold_default_keep =
  true

(** val fold_default_delims : z list **)

let fold_default_delims =
  (Zpos (XO (XI (XO (XI (XI XH)))))) :: ((Zpos (XO (XO (XI (XI (XO
    XH)))))) :: ((Zpos (XO (XO (XO (XO (XO XH)))))) :: ((Zpos (XI (XO (XI (XI
    (XO XH)))))) :: ((Zpos (XO (XI (XI (XI (XO XH)))))) :: ((Zpos (XI (XI (XI
    (XI (XO XH)))))) :: [])))))

(** val fold_s_sets_keep : bool **)

let fold_s_sets_keep =
  false

(** val fold_feeder_strip_cr : bool **)

let fold_feeder_strip_cr =
  false

(** val fold_collector_strip_cr : bool **)

let fold_collector_strip_cr =
  false

(** val fu8_trail_bound : z **)

let fu8_trail_bound =
  Zneg (XO (XO (XO (XO (XO (XO XH))))))

(** val fu8_valid_lt : z **)

let fu8_valid_lt =
  Zpos (XO (XO (XO (XO (XO (XO (XO (XO (XO (XO (XO (XI (XI (XO (XI
    XH)))))))))))))))

(** val fu8_valid_ge : z **)

let fu8_valid_ge =
  Zpos (XO (XO (XO (XO (XO (XO (XO (XO (XO (XO (XO (XO (XO (XI (XI
    XH)))))))))))))))

(** val fu8_valid_le : z **)

let fu8_valid_le =
  Zpos (XI (XI (XI (XI (XI (XI (XI (XI (XI (XI (XI (XI (XI (XI (XI (XI (XO
    (XO (XO (XO XH))))))))))))))))))))

(** val fu8_b1_lt : z **)

let fu8_b1_lt =
  Zpos (XO (XO (XO (XO (XO (XO (XO XH)))))))

(** val fu8_b1_len : z **)

let fu8_b1_len =
  Zpos XH

(** val fu8_b2_len : z **)

let fu8_b2_len =
  Zpos (XO XH)

(** val fu8_b2_leadmask : z **)

let fu8_b2_leadmask =
  Zpos (XO (XO (XO (XO (XO (XI (XI XH)))))))

(** val fu8_b2_leadval : z **)

let fu8_b2_leadval =
  Zpos (XO (XO (XO (XO (XO (XO (XI XH)))))))

(** val fu8_b2_m0 : z **)

let fu8_b2_m0 =
  Zpos (XI (XI (XI (XI XH))))

(** val fu8_b2_s0 : z **)

let fu8_b2_s0 =
  Zpos (XO (XI XH))

(** val fu8_b2_m1 : z **)

let fu8_b2_m1 =
  Zpos (XI (XI (XI (XI (XI XH)))))

(** val fu8_b2_min : z **)

let fu8_b2_min =
  Zpos (XO (XO (XO (XO (XO (XO (XO XH)))))))

(** val fu8_b2_mblen : z **)

let fu8_b2_mblen =
  Zpos (XO XH)

(** val fu8_b3_len : z **)

let fu8_b3_len =
  Zpos (XI XH)

(** val fu8_b3_leadmask : z **)

let fu8_b3_leadmask =
  Zpos (XO (XO (XO (XO (XI (XI (XI XH)))))))

(** val fu8_b3_leadval : z **)

let fu8_b3_leadval =
  Zpos (XO (XO (XO (XO (XO (XI (XI XH)))))))

(** val fu8_b3_m0 : z **)

let fu8_b3_m0 =
  Zpos (XI (XI (XI XH)))

(** val fu8_b3_s0 : z **)

let fu8_b3_s0 =
  Zpos (XO (XO (XI XH)))

(** val fu8_b3_m1 : z **)

let fu8_b3_m1 =
  Zpos (XI (XI (XI (XI (XI XH)))))

(** val fu8_b3_s1 : z **)

let fu8_b3_s1 =
  Zpos (XO (XI XH))

(** val fu8_b3_m2 : z **)

let fu8_b3_m2 =
  Zpos (XI (XI (XI (XI (XI XH)))))

(** val fu8_b3_min : z **)

let fu8_b3_min =
  Zpos (XO (XO (XO (XO (XO (XO (XO (XO (XO (XO (XO XH)))))))))))

(** val fu8_b3_mblen : z **)

let fu8_b3_mblen =
  Zpos (XI XH)

(** val fu8_b4_len : z **)

let fu8_b4_len =
  Zpos (XO (XO XH))

(** val fu8_b4_leadmask : z **)

let fu8_b4_leadmask =
  Zpos (XO (XO (XO (XI (XI (XI (XI XH)))))))

(** val fu8_b4_leadval : z **)

let fu8_b4_leadval =
  Zpos (XO (XO (XO (XO (XI (XI (XI XH)))))))

(** val fu8_b4_m0 : z **)

let fu8_b4_m0 =
  Zpos (XI (XI XH))

(** val fu8_b4_s0 : z **)

let fu8_b4_s0 =
  Zpos (XO (XI (XO (XO XH))))

(** val fu8_b4_m1 : z **)

let fu8_b4_m1 =
  Zpos (XI (XI (XI (XI (XI XH)))))

(** val fu8_b4_s1 : z **)

let fu8_b4_s1 =
  Zpos (XO (XO (XI XH)))

(** val fu8_b4_m2 : z **)

let fu8_b4_m2 =
  Zpos (XI (XI (XI (XI (XI XH)))))

(** val fu8_b4_s2 : z **)

let fu8_b4_s2 =
  Zpos (XO (XI XH))

(** val fu8_b4_m3 : z **)

let fu8_b4_m3 =
  Zpos (XI (XI (XI (XI (XI XH)))))

(** val fu8_b4_min : z **)

let fu8_b4_min =
  Zpos (XO (XO (XO (XO (XO (XO (XO (XO (XO (XO (XO (XO (XO (XO (XO (XO
    XH))))))))))))))))

(** val fu8_b4_mblen : z **)

let fu8_b4_mblen =
  Zpos (XO (XO XH))

(** val schar : z -> z **)

let schar x =
  if Z.ltb x (Zpos (XO (XO (XO (XO (XO (XO (XO XH))))))))
  then x
  else Z.sub x (Zpos (XO (XO (XO (XO (XO (XO (XO (XO XH)))))))))

(** val is_trail : z -> bool **)

let is_trail x =
  Z.ltb (schar x) fu8_trail_bound

(** val is_valid_cp : z -> bool **)

let is_valid_cp c =
  (||) (Z.ltb c fu8_valid_lt)
    ((&&) (Z.leb fu8_valid_ge c) (Z.leb c fu8_valid_le))

(** val byte_at : z list -> nat -> z **)

let byte_at bs i =
  nth i bs Z0

(** val decode_utf8 : z list -> (z * z) option **)

let decode_utf8 bs = match bs with
| [] -> None
| b0 :: _ ->
  let len = Z.of_nat (length bs) in
  if Z.ltb b0 fu8_b1_lt
  then Some (b0, fu8_b1_len)
  else if (&&) (Z.leb fu8_b2_len len)
            (Z.eqb (Z.coq_land b0 fu8_b2_leadmask) fu8_b2_leadval)
       then let cp =
              Z.coq_lor (Z.shiftl (Z.coq_land b0 fu8_b2_m0) fu8_b2_s0)
                (Z.coq_land (byte_at bs (S O)) fu8_b2_m1)
            in
            if (&&)
                 ((&&) (is_trail (byte_at bs (S O))) (Z.leb fu8_b2_min cp))
                 (is_valid_cp cp)
            then Some (cp, fu8_b2_mblen)
            else None
       else if (&&) (Z.leb fu8_b3_len len)
                 (Z.eqb (Z.coq_land b0 fu8_b3_leadmask) fu8_b3_leadval)
            then let cp =
                   Z.coq_lor
                     (Z.coq_lor
                       (Z.shiftl (Z.coq_land b0 fu8_b3_m0) fu8_b3_s0)
                       (Z.shiftl (Z.coq_land (byte_at bs (S O)) fu8_b3_m1)
                         fu8_b3_s1))
                     (Z.coq_land (byte_at bs (S (S O))) fu8_b3_m2)
                 in
                 if (&&)
                      ((&&)
                        ((&&) (is_trail (byte_at bs (S O)))
                          (is_trail (byte_at bs (S (S O)))))
                        (Z.leb fu8_b3_min cp)) (is_valid_cp cp)
                 then Some (cp, fu8_b3_mblen)
                 else None
            else if (&&) (Z.leb fu8_b4_len len)
                      (Z.eqb (Z.coq_land b0 fu8_b4_leadmask) fu8_b4_leadval)
                 then let cp =
                        Z.coq_lor
                          (Z.coq_lor
                            (Z.coq_lor
                              (Z.shiftl (Z.coq_land b0 fu8_b4_m0) fu8_b4_s0)
                              (Z.shiftl
                                (Z.coq_land (byte_at bs (S O)) fu8_b4_m1)
                                fu8_b4_s1))
                            (Z.shiftl
                              (Z.coq_land (byte_at bs (S (S O))) fu8_b4_m2)
                              fu8_b4_s2))
                          (Z.coq_land (byte_at bs (S (S (S O)))) fu8_b4_m3)
                      in
                      if (&&)
                           ((&&)
                             ((&&)
                               ((&&) (is_trail (byte_at bs (S O)))
                                 (is_trail (byte_at bs (S (S O)))))
                               (is_trail (byte_at bs (S (S (S O))))))
                             (Z.leb fu8_b4_min cp)) (is_valid_cp cp)
                      then Some (cp, fu8_b4_mblen)
                      else None
                 else None

(** val dec_at : z list -> z -> (z * z) option **)

let dec_at line p =
  decode_utf8 (skipn (Z.to_nat p) line)

(** val substr : z list -> z -> z -> z list **)

let substr line p n0 =
  firstn (Z.to_nat n0) (skipn (Z.to_nat p) line)

type wopts = { w_width : z; w_keep : bool; w_delims : z list }

(** val find_delimiter : z list -> z -> nat option **)

let rec find_delimiter ds c =
  match ds with
  | [] -> None
  | d :: r ->
    if Z.eqb d c
    then Some O
    else (match find_delimiter r c with
          | Some i -> Some (S i)
          | None -> None)

(** val is_delim : z list -> z -> bool **)

let is_delim ds c =
  match find_delimiter ds c with
  | Some _ -> true
  | None -> false

(** val set_nth : nat -> z -> z list -> z list **)

let rec set_nth i v = function
| [] -> []
| x :: r -> (match i with
             | O -> v :: r
             | S j -> x :: (set_nth j v r))

type wres =
| WOk of z list list * z list list
| WBadUtf8
| WFuel

type wstate = { s_pos : z; s_last_cut : z; s_pds : z list; s_pfd : z;
                s_lines : z list list; s_dels : z list list }

(** val lookback : z list -> z -> z -> z **)

let rec lookback pds last_cut dflt =
  match pds with
  | [] -> dflt
  | e :: r ->
    let pd = u64 (wrap32 e) in
    if Z.gtb pd last_cut then pd else lookback r last_cut dflt

type peekres =
| PeekOk of z
| PeekBad
| PeekFuel

(** val peek : nat -> z list -> wopts -> z -> z -> peekres **)

let rec peek fuel line o last_cut cut_end =
  if Z.ltb cut_end (Z.of_nat (length line))
  then if (&&) o.w_keep (Z.geb (u64 (Z.sub cut_end last_cut)) o.w_width)
       then PeekOk cut_end
       else (match dec_at line cut_end with
             | Some p ->
               let (c, n0) = p in
               if is_delim o.w_delims c
               then if (&&) o.w_keep
                         (Z.gtb (u64 (Z.sub (Z.add cut_end n0) last_cut))
                           o.w_width)
                    then PeekOk cut_end
                    else (match fuel with
                          | O -> PeekFuel
                          | S f -> peek f line o last_cut (Z.add cut_end n0))
               else PeekOk cut_end
             | None -> PeekBad)
  else PeekOk cut_end

type stepres =
| StScan of wstate
| StCut of wstate
| StDone of wstate
| StBad
| StFuel

(** val step : z list -> wopts -> wstate -> stepres **)

let step line o s =
  let length0 = Z.of_nat (length line) in
  if Z.ltb s.s_pos length0
  then (match dec_at line s.s_pos with
        | Some p ->
          let (c, n0) = p in
          let pos = Z.add s.s_pos n0 in
          (match find_delimiter o.w_delims c with
           | Some i ->
             let pds = set_nth i (u64 s.s_pfd) s.s_pds in
             let pfd = s.s_pfd in
             if Z.ltb (u64 (Z.sub pos s.s_last_cut)) o.w_width
             then StScan { s_pos = pos; s_last_cut = s.s_last_cut; s_pds =
                    pds; s_pfd = pfd; s_lines = s.s_lines; s_dels = s.s_dels }
             else let hard =
                    if (&&) (Z.gtb (u64 (Z.sub pos s.s_last_cut)) o.w_width)
                         (Z.gtb s.s_pos s.s_last_cut)
                    then s.s_pos
                    else pos
                  in
                  let pos_cut = lookback pds s.s_last_cut hard in
                  (match peek (length line) line o s.s_last_cut pos_cut with
                   | PeekOk cut_end ->
                     if o.w_keep
                     then let piece =
                            substr line s.s_last_cut
                              (u64 (Z.sub cut_end s.s_last_cut))
                          in
                          let del = [] in
                          StCut { s_pos = cut_end; s_last_cut = cut_end;
                          s_pds = pds; s_pfd = pfd; s_lines =
                          (piece :: s.s_lines); s_dels = (del :: s.s_dels) }
                     else let piece =
                            substr line s.s_last_cut
                              (u64 (Z.sub pos_cut s.s_last_cut))
                          in
                          let del =
                            substr line pos_cut (u64 (Z.sub cut_end pos_cut))
                          in
                          StCut { s_pos = cut_end; s_last_cut = cut_end;
                          s_pds = pds; s_pfd = pfd; s_lines =
                          (piece :: s.s_lines); s_dels = (del :: s.s_dels) }
                   | PeekBad -> StBad
                   | PeekFuel -> StFuel)
           | None ->
             let pds = s.s_pds in
             let pfd = wrap32 pos in
             if Z.ltb (u64 (Z.sub pos s.s_last_cut)) o.w_width
             then StScan { s_pos = pos; s_last_cut = s.s_last_cut; s_pds =
                    pds; s_pfd = pfd; s_lines = s.s_lines; s_dels = s.s_dels }
             else let hard =
                    if (&&) (Z.gtb (u64 (Z.sub pos s.s_last_cut)) o.w_width)
                         (Z.gtb s.s_pos s.s_last_cut)
                    then s.s_pos
                    else pos
                  in
                  let pos_cut = lookback pds s.s_last_cut hard in
                  (match peek (length line) line o s.s_last_cut pos_cut with
                   | PeekOk cut_end ->
                     if o.w_keep
                     then let piece =
                            substr line s.s_last_cut
                              (u64 (Z.sub cut_end s.s_last_cut))
                          in
                          let del = [] in
                          StCut { s_pos = cut_end; s_last_cut = cut_end;
                          s_pds = pds; s_pfd = pfd; s_lines =
                          (piece :: s.s_lines); s_dels = (del :: s.s_dels) }
                     else let piece =
                            substr line s.s_last_cut
                              (u64 (Z.sub pos_cut s.s_last_cut))
                          in
                          let del =
                            substr line pos_cut (u64 (Z.sub cut_end pos_cut))
                          in
                          StCut { s_pos = cut_end; s_last_cut = cut_end;
                          s_pds = pds; s_pfd = pfd; s_lines =
                          (piece :: s.s_lines); s_dels = (del :: s.s_dels) }
                   | PeekBad -> StBad
                   | PeekFuel -> StFuel))
        | None -> StBad)
  else StDone s

(** val wrap_loop : nat -> z list -> wopts -> nat -> wstate -> stepres **)

let rec wrap_loop n0 line o f1 s =
  match f1 with
  | O -> StFuel
  | S f1' ->
    let rec inner f2 s0 =
      match f2 with
      | O -> StFuel
      | S f2' ->
        (match step line o s0 with
         | StScan s' -> inner f2' s'
         | StCut s' -> wrap_loop n0 line o f1' s'
         | x -> x)
    in inner n0 s

(** val init_state : wopts -> wstate **)

let init_state o =
  { s_pos = Z0; s_last_cut = Z0; s_pds = (repeat Z0 (length o.w_delims));
    s_pfd = Z0; s_lines = []; s_dels = [] }

(** val wrap_lines : z list -> wopts -> wres **)

let wrap_lines line o =
  let n0 = S (S (length line)) in
  (match wrap_loop n0 line o n0 (init_state o) with
   | StDone s ->
     if (||) (Z.ltb s.s_last_cut s.s_pos) (Z.eqb s.s_pos Z0)
     then WOk
            ((rev
               ((substr line s.s_last_cut (u64 (Z.sub s.s_pos s.s_last_cut))) :: s.s_lines)),
            (rev ([] :: s.s_dels)))
     else WOk ((rev s.s_lines), (rev s.s_dels))
   | StBad -> WBadUtf8
   | _ -> WFuel)

(** val c_str : z list -> z list **)

let rec c_str = function
| [] -> []
| b :: r -> if Z.eqb b Z0 then [] else b :: (c_str r)

(** val join : z list list -> z list list -> (z list * z list list) option **)

let rec join answers = function
| [] -> Some ([], answers)
| d :: dr ->
  (match answers with
   | [] -> None
   | a :: ar ->
     (match join ar dr with
      | Some p -> let (s, rest) = p in Some ((app a (app (c_str d) s)), rest)
      | None -> None))

(** val interleave : z list list -> z list list -> z list **)

let rec interleave ps ds =
  match ps with
  | [] -> []
  | p :: pr ->
    (match ds with
     | [] -> []
     | d :: dr -> app p (app d (interleave pr dr)))

type tres =
| TOk of z list
| TBadUtf8
| TFuel
| TChildShort

(** val cr_strip : bool -> z list -> z list **)

let cr_strip cr l =
  if cr then strip_cr l else l

(** val tool_lines :
    wopts -> (z list -> z list) -> bool -> z list list -> tres **)

let rec tool_lines o g cr_out = function
| [] -> TOk []
| l :: r ->
  (match wrap_lines l o with
   | WOk (ps, ds) ->
     (match join (map (fun p -> cr_strip cr_out (g p)) ps) ds with
      | Some p ->
        let (s, _) = p in
        (match tool_lines o g cr_out r with
         | TOk out -> TOk (app s (app ((Zpos (XO (XI (XO XH)))) :: []) out))
         | x -> x)
      | None -> TChildShort)
   | WBadUtf8 -> TBadUtf8
   | WFuel -> TFuel)

(** val foldfilter :
    wopts -> (z list -> z list) -> bool -> bool -> z list -> tres **)

let foldfilter o g cr_in cr_out input =
  tool_lines o g cr_out (records (Zpos (XO (XI (XO XH)))) cr_in input)

(** val foldfilter_tool : wopts -> (z list -> z list) -> z list -> tres **)

let foldfilter_tool o g input =
  foldfilter o g fold_feeder_strip_cr fold_collector_strip_cr input

(** val count_cps : nat -> z list -> nat option **)

let rec count_cps fuel bs = match bs with
| [] -> Some O
| _ :: _ ->
  (match fuel with
   | O -> None
   | S f ->
     (match decode_utf8 bs with
      | Some p ->
        let (_, n0) = p in
        (match count_cps f (skipn (Z.to_nat n0) bs) with
         | Some k -> Some (S k)
         | None -> None)
      | None -> None))

(** val utf8_valid : z list -> bool **)

let utf8_valid bs =
  match count_cps (length bs) bs with
  | Some _ -> true
  | None -> false

(** val all_delims : nat -> z list -> z list -> bool **)

let rec all_delims fuel ds bs = match bs with
| [] -> true
| _ :: _ ->
  (match fuel with
   | O -> false
   | S f ->
     (match decode_utf8 bs with
      | Some p ->
        let (c, n0) = p in
        (&&) (is_delim ds c) (all_delims f ds (skipn (Z.to_nat n0) bs))
      | None -> false))

(** val width_ok : z -> z list -> bool **)

let width_ok w piece =
  (||) (Z.leb (Z.of_nat (length piece)) w)
    (match count_cps (length piece) piece with
     | Some n0 ->
       (match n0 with
        | O -> false
        | S n1 -> (match n1 with
                   | O -> true
                   | S _ -> false))
     | None -> false)

(** val check_wrap : z list -> wopts -> z list list -> z list list -> bool **)

let check_wrap line o ps ds =
  (&&)
    ((&&)
      ((&&)
        ((&&)
          ((&&)
            ((&&)
              ((&&) (Nat.eqb (length ps) (length ds))
                (negb (Nat.eqb (length ps) O)))
              (forallb (fun x -> Z.eqb (fst x) (snd x))
                (combine (interleave ps ds) line)))
            (Nat.eqb (length (interleave ps ds)) (length line)))
          (forallb utf8_valid ps))
        (forallb (fun d -> all_delims (length d) o.w_delims d) ds))
      (if o.w_keep
       then forallb (fun d -> match d with
                              | [] -> true
                              | _ :: _ -> false) ds
       else true)) (forallb (width_ok o.w_width) ps)
