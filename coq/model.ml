
(** val negb : bool -> bool **)

let negb = function
| true -> false
| false -> true

type nat =
| O
| S of nat

(** val fst : ('a1 * 'a2) -> 'a1 **)

let fst = function
| (x, _) -> x

(** val snd : ('a1 * 'a2) -> 'a2 **)

let snd = function
| (_, y) -> y

(** val length : 'a1 list -> nat **)

let rec length = function
| [] -> O
| _ :: l' -> S (length l')

(** val app : 'a1 list -> 'a1 list -> 'a1 list **)

let rec app l m =
  match l with
  | [] -> m
  | a :: l1 -> a :: (app l1 m)

type comparison =
| Eq
| Lt
| Gt

module Coq__1 = struct
 (** val add : nat -> nat -> nat **)
 let rec add n0 m =
   match n0 with
   | O -> m
   | S p -> S (add p m)
end
include Coq__1

type positive =
| XI of positive
| XO of positive
| XH

type n =
| N0
| Npos of positive

type z =
| Z0
| Zpos of positive
| Zneg of positive

module Pos =
 struct
  type mask =
  | IsNul
  | IsPos of positive
  | IsNeg
 end

module Coq_Pos =
 struct
  (** val succ : positive -> positive **)

  let rec succ = function
  | XI p -> XO (succ p)
  | XO p -> XI p
  | XH -> XO XH

  (** val add : positive -> positive -> positive **)

  let rec add x y =
    match x with
    | XI p ->
      (match y with
       | XI q -> XO (add_carry p q)
       | XO q -> XI (add p q)
       | XH -> XO (succ p))
    | XO p ->
      (match y with
       | XI q -> XI (add p q)
       | XO q -> XO (add p q)
       | XH -> XI p)
    | XH -> (match y with
             | XI q -> XO (succ q)
             | XO q -> XI q
             | XH -> XO XH)

  (** val add_carry : positive -> positive -> positive **)

  and add_carry x y =
    match x with
    | XI p ->
      (match y with
       | XI q -> XI (add_carry p q)
       | XO q -> XO (add_carry p q)
       | XH -> XI (succ p))
    | XO p ->
      (match y with
       | XI q -> XO (add_carry p q)
       | XO q -> XI (add p q)
       | XH -> XO (succ p))
    | XH ->
      (match y with
       | XI q -> XI (succ q)
       | XO q -> XO (succ q)
       | XH -> XI XH)

  (** val pred_double : positive -> positive **)

  let rec pred_double = function
  | XI p -> XI (XO p)
  | XO p -> XI (pred_double p)
  | XH -> XH

  type mask = Pos.mask =
  | IsNul
  | IsPos of positive
  | IsNeg

  (** val succ_double_mask : mask -> mask **)

  let succ_double_mask = function
  | IsNul -> IsPos XH
  | IsPos p -> IsPos (XI p)
  | IsNeg -> IsNeg

  (** val double_mask : mask -> mask **)

  let double_mask = function
  | IsPos p -> IsPos (XO p)
  | x0 -> x0

  (** val double_pred_mask : positive -> mask **)

  let double_pred_mask = function
  | XI p -> IsPos (XO (XO p))
  | XO p -> IsPos (XO (pred_double p))
  | XH -> IsNul

  (** val sub_mask : positive -> positive -> mask **)

  let rec sub_mask x y =
    match x with
    | XI p ->
      (match y with
       | XI q -> double_mask (sub_mask p q)
       | XO q -> succ_double_mask (sub_mask p q)
       | XH -> IsPos (XO p))
    | XO p ->
      (match y with
       | XI q -> succ_double_mask (sub_mask_carry p q)
       | XO q -> double_mask (sub_mask p q)
       | XH -> IsPos (pred_double p))
    | XH -> (match y with
             | XH -> IsNul
             | _ -> IsNeg)

  (** val sub_mask_carry : positive -> positive -> mask **)

  and sub_mask_carry x y =
    match x with
    | XI p ->
      (match y with
       | XI q -> succ_double_mask (sub_mask_carry p q)
       | XO q -> double_mask (sub_mask p q)
       | XH -> IsPos (pred_double p))
    | XO p ->
      (match y with
       | XI q -> double_mask (sub_mask_carry p q)
       | XO q -> succ_double_mask (sub_mask_carry p q)
       | XH -> double_pred_mask p)
    | XH -> IsNeg

  (** val mul : positive -> positive -> positive **)

  let rec mul x y =
    match x with
    | XI p -> add y (XO (mul p y))
    | XO p -> XO (mul p y)
    | XH -> y

  (** val iter : ('a1 -> 'a1) -> 'a1 -> positive -> 'a1 **)

  let rec iter f x = function
  | XI n' -> f (iter f (iter f x n') n')
  | XO n' -> iter f (iter f x n') n'
  | XH -> f x

  (** val compare_cont : comparison -> positive -> positive -> comparison **)

  let rec compare_cont r x y =
    match x with
    | XI p ->
      (match y with
       | XI q -> compare_cont r p q
       | XO q -> compare_cont Gt p q
       | XH -> Gt)
    | XO p ->
      (match y with
       | XI q -> compare_cont Lt p q
       | XO q -> compare_cont r p q
       | XH -> Gt)
    | XH -> (match y with
             | XH -> r
             | _ -> Lt)

  (** val compare : positive -> positive -> comparison **)

  let compare =
    compare_cont Eq

  (** val eqb : positive -> positive -> bool **)

  let rec eqb p q =
    match p with
    | XI p0 -> (match q with
                | XI q0 -> eqb p0 q0
                | _ -> false)
    | XO p0 -> (match q with
                | XO q0 -> eqb p0 q0
                | _ -> false)
    | XH -> (match q with
             | XH -> true
             | _ -> false)

  (** val coq_Nsucc_double : n -> n **)

  let coq_Nsucc_double = function
  | N0 -> Npos XH
  | Npos p -> Npos (XI p)

  (** val coq_Ndouble : n -> n **)

  let coq_Ndouble = function
  | N0 -> N0
  | Npos p -> Npos (XO p)

  (** val coq_lor : positive -> positive -> positive **)

  let rec coq_lor p q =
    match p with
    | XI p0 ->
      (match q with
       | XI q0 -> XI (coq_lor p0 q0)
       | XO q0 -> XI (coq_lor p0 q0)
       | XH -> p)
    | XO p0 ->
      (match q with
       | XI q0 -> XI (coq_lor p0 q0)
       | XO q0 -> XO (coq_lor p0 q0)
       | XH -> XI p0)
    | XH -> (match q with
             | XO q0 -> XI q0
             | _ -> q)

  (** val coq_land : positive -> positive -> n **)

  let rec coq_land p q =
    match p with
    | XI p0 ->
      (match q with
       | XI q0 -> coq_Nsucc_double (coq_land p0 q0)
       | XO q0 -> coq_Ndouble (coq_land p0 q0)
       | XH -> Npos XH)
    | XO p0 ->
      (match q with
       | XI q0 -> coq_Ndouble (coq_land p0 q0)
       | XO q0 -> coq_Ndouble (coq_land p0 q0)
       | XH -> N0)
    | XH -> (match q with
             | XO _ -> N0
             | _ -> Npos XH)

  (** val shiftl : positive -> n -> positive **)

  let shiftl p = function
  | N0 -> p
  | Npos n1 -> iter (fun x -> XO x) p n1

  (** val iter_op : ('a1 -> 'a1 -> 'a1) -> positive -> 'a1 -> 'a1 **)

  let rec iter_op op p a =
    match p with
    | XI p0 -> op a (iter_op op p0 (op a a))
    | XO p0 -> iter_op op p0 (op a a)
    | XH -> a

  (** val to_nat : positive -> nat **)

  let to_nat x =
    iter_op Coq__1.add x (S O)

  (** val of_succ_nat : nat -> positive **)

  let rec of_succ_nat = function
  | O -> XH
  | S x -> succ (of_succ_nat x)
 end

module N =
 struct
  (** val succ_double : n -> n **)

  let succ_double = function
  | N0 -> Npos XH
  | Npos p -> Npos (XI p)

  (** val double : n -> n **)

  let double = function
  | N0 -> N0
  | Npos p -> Npos (XO p)

  (** val add : n -> n -> n **)

  let add n0 m =
    match n0 with
    | N0 -> m
    | Npos p -> (match m with
                 | N0 -> n0
                 | Npos q -> Npos (Coq_Pos.add p q))

  (** val sub : n -> n -> n **)

  let sub n0 m =
    match n0 with
    | N0 -> N0
    | Npos n' ->
      (match m with
       | N0 -> n0
       | Npos m' ->
         (match Coq_Pos.sub_mask n' m' with
          | Coq_Pos.IsPos p -> Npos p
          | _ -> N0))

  (** val mul : n -> n -> n **)

  let mul n0 m =
    match n0 with
    | N0 -> N0
    | Npos p -> (match m with
                 | N0 -> N0
                 | Npos q -> Npos (Coq_Pos.mul p q))

  (** val compare : n -> n -> comparison **)

  let compare n0 m =
    match n0 with
    | N0 -> (match m with
             | N0 -> Eq
             | Npos _ -> Lt)
    | Npos n' -> (match m with
                  | N0 -> Gt
                  | Npos m' -> Coq_Pos.compare n' m')

  (** val eqb : n -> n -> bool **)

  let eqb n0 m =
    match n0 with
    | N0 -> (match m with
             | N0 -> true
             | Npos _ -> false)
    | Npos p -> (match m with
                 | N0 -> false
                 | Npos q -> Coq_Pos.eqb p q)

  (** val leb : n -> n -> bool **)

  let leb x y =
    match compare x y with
    | Gt -> false
    | _ -> true

  (** val ltb : n -> n -> bool **)

  let ltb x y =
    match compare x y with
    | Lt -> true
    | _ -> false

  (** val min : n -> n -> n **)

  let min n0 n' =
    match compare n0 n' with
    | Gt -> n'
    | _ -> n0

  (** val max : n -> n -> n **)

  let max n0 n' =
    match compare n0 n' with
    | Gt -> n0
    | _ -> n'

  (** val div2 : n -> n **)

  let div2 = function
  | N0 -> N0
  | Npos p0 -> (match p0 with
                | XI p -> Npos p
                | XO p -> Npos p
                | XH -> N0)

  (** val pos_div_eucl : positive -> n -> n * n **)

  let rec pos_div_eucl a b =
    match a with
    | XI a' ->
      let (q, r) = pos_div_eucl a' b in
      let r' = succ_double r in
      if leb b r' then ((succ_double q), (sub r' b)) else ((double q), r')
    | XO a' ->
      let (q, r) = pos_div_eucl a' b in
      let r' = double r in
      if leb b r' then ((succ_double q), (sub r' b)) else ((double q), r')
    | XH ->
      (match b with
       | N0 -> (N0, (Npos XH))
       | Npos p -> (match p with
                    | XH -> ((Npos XH), N0)
                    | _ -> (N0, (Npos XH))))

  (** val div_eucl : n -> n -> n * n **)

  let div_eucl a b =
    match a with
    | N0 -> (N0, N0)
    | Npos na -> (match b with
                  | N0 -> (N0, a)
                  | Npos _ -> pos_div_eucl na b)

  (** val div : n -> n -> n **)

  let div a b =
    fst (div_eucl a b)

  (** val modulo : n -> n -> n **)

  let modulo a b =
    snd (div_eucl a b)

  (** val coq_lor : n -> n -> n **)

  let coq_lor n0 m =
    match n0 with
    | N0 -> m
    | Npos p -> (match m with
                 | N0 -> n0
                 | Npos q -> Npos (Coq_Pos.coq_lor p q))

  (** val coq_land : n -> n -> n **)

  let coq_land n0 m =
    match n0 with
    | N0 -> N0
    | Npos p -> (match m with
                 | N0 -> N0
                 | Npos q -> Coq_Pos.coq_land p q)

  (** val shiftl : n -> n -> n **)

  let shiftl a n0 =
    match a with
    | N0 -> N0
    | Npos a0 -> Npos (Coq_Pos.shiftl a0 n0)

  (** val shiftr : n -> n -> n **)

  let shiftr a = function
  | N0 -> a
  | Npos p -> Coq_Pos.iter div2 a p

  (** val to_nat : n -> nat **)

  let to_nat = function
  | N0 -> O
  | Npos p -> Coq_Pos.to_nat p

  (** val of_nat : nat -> n **)

  let of_nat = function
  | O -> N0
  | S n' -> Npos (Coq_Pos.of_succ_nat n')
 end

module Z =
 struct
  (** val opp : z -> z **)

  let opp = function
  | Z0 -> Z0
  | Zpos x0 -> Zneg x0
  | Zneg x0 -> Zpos x0

  (** val eqb : z -> z -> bool **)

  let eqb x y =
    match x with
    | Z0 -> (match y with
             | Z0 -> true
             | _ -> false)
    | Zpos p -> (match y with
                 | Zpos q -> Coq_Pos.eqb p q
                 | _ -> false)
    | Zneg p -> (match y with
                 | Zneg q -> Coq_Pos.eqb p q
                 | _ -> false)

  (** val to_nat : z -> nat **)

  let to_nat = function
  | Zpos p -> Coq_Pos.to_nat p
  | _ -> O

  (** val to_N : z -> n **)

  let to_N = function
  | Zpos p -> Npos p
  | _ -> N0

  (** val of_nat : nat -> z **)

  let of_nat = function
  | O -> Z0
  | S n1 -> Zpos (Coq_Pos.of_succ_nat n1)

  (** val of_N : n -> z **)

  let of_N = function
  | N0 -> Z0
  | Npos p -> Zpos p
 end

(** val nth_error : 'a1 list -> nat -> 'a1 option **)

let rec nth_error l = function
| O -> (match l with
        | [] -> None
        | x :: _ -> Some x)
| S n1 -> (match l with
           | [] -> None
           | _ :: l0 -> nth_error l0 n1)

(** val rev : 'a1 list -> 'a1 list **)

let rec rev = function
| [] -> []
| x :: l' -> app (rev l') (x :: [])

(** val map : ('a1 -> 'a2) -> 'a1 list -> 'a2 list **)

let rec map f = function
| [] -> []
| a :: t -> (f a) :: (map f t)

(** val flat_map : ('a1 -> 'a2 list) -> 'a1 list -> 'a2 list **)

let rec flat_map f = function
| [] -> []
| x :: t -> app (f x) (flat_map f t)

(** val fold_left : ('a1 -> 'a2 -> 'a1) -> 'a2 list -> 'a1 -> 'a1 **)

let rec fold_left f l a0 =
  match l with
  | [] -> a0
  | b :: t -> fold_left f t (f a0 b)

(** val existsb : ('a1 -> bool) -> 'a1 list -> bool **)

let rec existsb f = function
| [] -> false
| a :: l0 -> (||) (f a) (existsb f l0)

(** val repeat : 'a1 -> nat -> 'a1 list **)

let rec repeat x = function
| O -> []
| S k -> x :: (repeat x k)

(** val split_at : z -> z list -> z list -> z list list * z list **)

let rec split_at d bs cur =
  match bs with
  | [] -> ([], (rev cur))
  | b :: r ->
    if Z.eqb b d
    then let (rs, t) = split_at d r [] in (((rev cur) :: rs), t)
    else split_at d r (b :: cur)

(** val strip_cr : z list -> z list **)

let strip_cr l =
  match rev l with
  | [] -> l
  | z0 :: r ->
    (match z0 with
     | Zpos p ->
       (match p with
        | XI p0 ->
          (match p0 with
           | XO p1 ->
             (match p1 with
              | XI p2 -> (match p2 with
                          | XH -> rev r
                          | _ -> l)
              | _ -> l)
           | _ -> l)
        | _ -> l)
     | _ -> l)

(** val records : z -> bool -> z list -> z list list **)

let records d cr bs =
  let (rs, t) = split_at d bs [] in
  app (map (if cr then strip_cr else (fun x -> x)) rs)
    (match t with
     | [] -> []
     | _ :: _ -> t :: [])

(** val unrecords : z -> z list list -> z list **)

let unrecords d rs =
  flat_map (fun r -> app r (d :: [])) rs

(** val invalid_key : n **)

let invalid_key =
  N0

(** val init_size : n **)

let init_size =
  Npos (XI (XO XH))

(** val size_plus : n **)

let size_plus =
  Npos XH

(** val mult_num : n **)

let mult_num =
  Npos (XO (XI (XI XH)))

(** val mult_den : n **)

let mult_den =
  Npos (XO (XI (XO XH)))

(** val thr_sub : n **)

let thr_sub =
  Npos XH

(** val thr_num : n **)

let thr_num =
  Npos (XI (XI (XO (XI (XO (XO XH))))))

(** val thr_den : n **)

let thr_den =
  Npos (XO (XO (XI (XO (XO (XI XH))))))

(** val grow_factor : n **)

let grow_factor =
  Npos (XO XH)

(** val mask_shl : n **)

let mask_shl =
  Npos XH

(** val mask_or : n **)

let mask_or =
  Npos XH

(** val round_shifts : n list **)

let round_shifts =
  (Npos XH) :: ((Npos (XO XH)) :: ((Npos (XO (XO XH))) :: ((Npos (XO (XO (XO
    XH)))) :: ((Npos (XO (XO (XO (XO XH))))) :: ((Npos (XO (XO (XO (XO (XO
    XH)))))) :: [])))))

type 'a res =
| Ok of 'a
| ErrFuel
| ErrBounds
| ErrFull

(** val bind : 'a1 res -> ('a1 -> 'a2 res) -> 'a2 res **)

let bind r f =
  match r with
  | Ok a -> f a
  | ErrFuel -> ErrFuel
  | ErrBounds -> ErrBounds
  | ErrFull -> ErrFull

(** val invalid : n **)

let invalid =
  invalid_key

(** val get : 'a1 list -> n -> 'a1 option **)

let get l i =
  nth_error l (N.to_nat i)

(** val upd_nat : 'a1 list -> nat -> 'a1 -> 'a1 list **)

let rec upd_nat l n0 x =
  match l with
  | [] -> []
  | h :: t -> (match n0 with
               | O -> x :: t
               | S m -> h :: (upd_nat t m x))

(** val upd : 'a1 list -> n -> 'a1 -> 'a1 list **)

let upd l i x =
  upd_nat l (N.to_nat i) x

(** val two64 : n **)

let two64 =
  Npos (XO (XO (XO (XO (XO (XO (XO (XO (XO (XO (XO (XO (XO (XO (XO (XO (XO
    (XO (XO (XO (XO (XO (XO (XO (XO (XO (XO (XO (XO (XO (XO (XO (XO (XO (XO
    (XO (XO (XO (XO (XO (XO (XO (XO (XO (XO (XO (XO (XO (XO (XO (XO (XO (XO
    (XO (XO (XO (XO (XO (XO (XO (XO (XO (XO (XO
    XH))))))))))))))))))))))))))))))))))))))))))))))))))))))))))))))))

(** val round_buckets : n -> n **)

let round_buckets from =
  let f0 = N.modulo (N.sub (N.add from two64) (Npos XH)) two64 in
  N.modulo
    (N.add
      (fold_left (fun f s -> N.coq_lor f (N.shiftr f s)) round_shifts f0)
      (Npos XH)) two64

(** val mask_double : n -> n **)

let mask_double mask1 =
  N.coq_lor (N.shiftl mask1 mask_shl) mask_or

type 'v entry = n * 'v

(** val ekey : 'a1 entry -> n **)

let ekey =
  fst

(** val set_key : 'a1 entry -> n -> 'a1 entry **)

let set_key e k =
  (k, (snd e))

type 'v ptable = { cells : 'v entry list; nbuckets : n; mask0 : n; entries : n }

(** val ideal : (n -> n) -> n -> n -> n **)

let ideal hash mask1 k =
  N.coq_land (hash k) mask1

(** val next : n -> n -> n **)

let next mask1 i =
  N.coq_land (N.add i (Npos XH)) mask1

(** val foi_loop :
    nat -> 'a1 ptable -> n -> 'a1 entry -> ((bool * n) * 'a1 ptable) res **)

let rec foi_loop fuel t i e =
  match fuel with
  | O -> ErrFuel
  | S f ->
    (match get t.cells i with
     | Some got ->
       if N.eqb (ekey got) (ekey e)
       then Ok ((true, i), t)
       else if N.eqb (ekey got) invalid
            then let entries' = N.add t.entries (Npos XH) in
                 if N.leb t.nbuckets entries'
                 then ErrFull
                 else Ok ((false, i), { cells = (upd t.cells i e); nbuckets =
                        t.nbuckets; mask0 = t.mask0; entries = entries' })
            else foi_loop f t (next t.mask0 i) e
     | None -> ErrBounds)

(** val find_or_insert :
    (n -> n) -> 'a1 ptable -> 'a1 entry -> ((bool * n) * 'a1 ptable) res **)

let find_or_insert hash t e =
  foi_loop (length t.cells) t (ideal hash t.mask0 (ekey e)) e

(** val ui_loop :
    nat -> 'a1 entry list -> n -> n -> 'a1 entry -> ('a1 entry list * n) res **)

let rec ui_loop fuel cs mask1 i e =
  match fuel with
  | O -> ErrFuel
  | S f ->
    (match get cs i with
     | Some got ->
       if N.eqb (ekey got) invalid
       then Ok ((upd cs i e), i)
       else ui_loop f cs mask1 (next mask1 i) e
     | None -> ErrBounds)

(** val unchecked_insert :
    (n -> n) -> 'a1 entry list -> n -> 'a1 entry -> ('a1 entry list * n) res **)

let unchecked_insert hash cs mask1 e =
  ui_loop (length cs) cs mask1 (ideal hash mask1 (ekey e)) e

(** val park_loop :
    nat -> 'a1 entry list -> n -> 'a1 entry list -> ('a1 entry list * 'a1
    entry list) res **)

let rec park_loop n0 cs i rolled =
  match n0 with
  | O -> Ok (cs, rolled)
  | S n' ->
    (match get cs i with
     | Some e ->
       if N.eqb (ekey e) invalid
       then Ok (cs, rolled)
       else park_loop n' (upd cs i (set_key e invalid)) (N.add i (Npos XH))
              (app rolled (e :: []))
     | None -> ErrBounds)

(** val reinsert_loop :
    (n -> n) -> nat -> 'a1 entry list -> n -> n -> 'a1 entry list res **)

let rec reinsert_loop hash n0 cs mask1 i =
  match n0 with
  | O -> Ok cs
  | S n' ->
    (match get cs i with
     | Some e ->
       if N.eqb (ekey e) invalid
       then reinsert_loop hash n' cs mask1 (N.add i (Npos XH))
       else bind
              (unchecked_insert hash (upd cs i (set_key e invalid)) mask1 e)
              (fun r ->
              reinsert_loop hash n' (fst r) mask1 (N.add i (Npos XH)))
     | None -> ErrBounds)

(** val unpark_loop :
    (n -> n) -> 'a1 entry list -> 'a1 entry list -> n -> 'a1 entry list res **)

let rec unpark_loop hash rolled cs mask1 =
  match rolled with
  | [] -> Ok cs
  | e :: r ->
    bind (unchecked_insert hash cs mask1 e) (fun x ->
      unpark_loop hash r (fst x) mask1)

(** val double0 : 'a1 -> (n -> n) -> 'a1 ptable -> 'a1 ptable res **)

let double0 v0 hash t =
  let old_end = t.nbuckets in
  let nb' = N.mul t.nbuckets grow_factor in
  let mask' = mask_double t.mask0 in
  let cs0 = app t.cells (repeat (invalid, v0) (N.to_nat (N.sub nb' old_end)))
  in
  bind (park_loop (N.to_nat old_end) cs0 N0 []) (fun pr ->
    bind (reinsert_loop hash (N.to_nat old_end) (fst pr) mask' N0)
      (fun cs2 ->
      bind (unpark_loop hash (snd pr) cs2 mask') (fun cs3 -> Ok { cells =
        cs3; nbuckets = nb'; mask0 = mask'; entries = t.entries })))

type 'v auto = { backend : 'v ptable; threshold : n }

(** val threshold_of : n -> n **)

let threshold_of nb =
  N.min (N.sub nb thr_sub) (N.div (N.mul nb thr_num) thr_den)

(** val initial_buckets : n -> n **)

let initial_buckets n0 =
  round_buckets
    (N.max (N.add n0 size_plus) (N.div (N.mul n0 mult_num) mult_den))

(** val auto_init_n : 'a1 -> n -> 'a1 auto **)

let auto_init_n v0 n0 =
  let nb = initial_buckets n0 in
  { backend = { cells = (repeat (invalid, v0) (N.to_nat nb)); nbuckets = nb;
  mask0 = (N.sub nb (Npos XH)); entries = N0 }; threshold =
  (threshold_of nb) }

(** val auto_init : 'a1 -> 'a1 auto **)

let auto_init v0 =
  auto_init_n v0 init_size

(** val auto_size : 'a1 auto -> n **)

let auto_size a =
  a.backend.entries

(** val double_if_needed : 'a1 -> (n -> n) -> 'a1 auto -> 'a1 auto res **)

let double_if_needed v0 hash a =
  if N.ltb (auto_size a) a.threshold
  then Ok a
  else bind (double0 v0 hash a.backend) (fun t' -> Ok { backend = t';
         threshold = (threshold_of t'.nbuckets) })

(** val auto_find_or_insert :
    'a1 -> (n -> n) -> 'a1 auto -> 'a1 entry -> ((bool * n) * 'a1 auto) res **)

let auto_find_or_insert v0 hash a e =
  bind (double_if_needed v0 hash a) (fun a1 ->
    bind (find_or_insert hash a1.backend e) (fun r ->
      let (p, t') = r in
      let (found, pos) = p in
      Ok ((found, pos), { backend = t'; threshold = a1.threshold })))

(** val dedupe_has_reserved_guard : bool **)

let dedupe_has_reserved_guard =
  true

(** val dedupe_reserved_key : n **)

let dedupe_reserved_key =
  N0

type dtable = unit auto

(** val idhash : n -> n **)

let idhash x =
  x

type dstate = { d_tab : dtable; d_seen_zero : bool }

(** val dedupe_init : dstate **)

let dedupe_init =
  { d_tab = (auto_init ()); d_seen_zero = false }

(** val seen_pass : bool -> n -> dstate -> n -> (bool * dstate) res **)

let seen_pass guard rk s k =
  if (&&) guard (N.eqb k rk)
  then Ok ((negb s.d_seen_zero), { d_tab = s.d_tab; d_seen_zero = true })
  else bind (auto_find_or_insert () idhash s.d_tab (k, ())) (fun r ->
         let (p, t') = r in
         let (found, _) = p in
         Ok ((negb found), { d_tab = t'; d_seen_zero = s.d_seen_zero }))

(** val dedupe_pass : dstate -> n -> (bool * dstate) res **)

let dedupe_pass =
  seen_pass dedupe_has_reserved_guard dedupe_reserved_key

(** val filter_loop : ('a1 -> n) -> dstate -> 'a1 list -> 'a1 list res **)

let rec filter_loop key s = function
| [] -> Ok []
| l :: r ->
  bind (dedupe_pass s (key l)) (fun x ->
    bind (filter_loop key (snd x) r) (fun out -> Ok
      (if fst x then l :: out else out)))

(** val dedupe : ('a1 -> n) -> 'a1 list -> 'a1 list res **)

let dedupe key ls =
  filter_loop key dedupe_init ls

type pstatus =
| PDone
| PUnbalanced
| PAbort

(** val par_loop :
    ('a1 -> n) -> ('a1 -> n) -> dstate -> dstate -> 'a1 list -> 'a1 list ->
    (pstatus * ('a1 * 'a1) list) res **)

let rec par_loop key key1 s0 s1 in0 in1 =
  match in0 with
  | [] -> Ok ((match in1 with
               | [] -> PDone
               | _ :: _ -> PUnbalanced), [])
  | l0 :: r0 ->
    (match in1 with
     | [] -> Ok (PAbort, [])
     | l1 :: r1 ->
       bind (dedupe_pass s0 (key l0)) (fun x0 ->
         if fst x0
         then bind (dedupe_pass s1 (key1 l1)) (fun x1 ->
                bind (par_loop key key1 (snd x0) (snd x1) r0 r1) (fun rest ->
                  Ok ((fst rest),
                  (if fst x1 then (l0, l1) :: (snd rest) else snd rest))))
         else par_loop key key1 (snd x0) s1 r0 r1))

(** val dedupe_par :
    ('a1 -> n) -> ('a1 -> n) -> 'a1 list -> 'a1 list ->
    (pstatus * ('a1 * 'a1) list) res **)

let dedupe_par key key1 in0 in1 =
  par_loop key key1 dedupe_init dedupe_init in0 in1

(** val mem : n -> n list -> bool **)

let mem k seen =
  existsb (N.eqb k) seen

(** val first_occ_from : ('a1 -> n) -> n list -> 'a1 list -> 'a1 list **)

let rec first_occ_from key seen = function
| [] -> []
| l :: r ->
  if mem (key l) seen
  then first_occ_from key seen r
  else l :: (first_occ_from key ((key l) :: seen) r)

(** val first_occ : ('a1 -> n) -> 'a1 list -> 'a1 list **)

let first_occ key ls =
  first_occ_from key [] ls

(** val par_spec_from :
    ('a1 -> n) -> ('a1 -> n) -> n list -> n list -> ('a1 * 'a1) list ->
    ('a1 * 'a1) list **)

let rec par_spec_from key key1 seen0 seen1 = function
| [] -> []
| p :: r ->
  let (l0, l1) = p in
  if mem (key l0) seen0
  then par_spec_from key key1 seen0 seen1 r
  else if mem (key1 l1) seen1
       then par_spec_from key key1 ((key l0) :: seen0) seen1 r
       else (l0,
              l1) :: (par_spec_from key key1 ((key l0) :: seen0)
                       ((key1 l1) :: seen1) r)

(** val par_spec :
    ('a1 -> n) -> ('a1 -> n) -> ('a1 * 'a1) list -> ('a1 * 'a1) list **)

let par_spec key key1 ps =
  par_spec_from key key1 [] [] ps

(** val newline : z **)

let newline =
  Zpos (XO (XI (XO XH)))

(** val dedupe_tool : (z list -> n) -> z list -> z list res **)

let dedupe_tool key input =
  bind (dedupe key (records newline true input)) (fun out -> Ok
    (unrecords newline out))

(** val dedupe_par_tool :
    (z list -> n) -> z list -> z list -> ((pstatus * z list) * z list) res **)

let dedupe_par_tool key input0 input1 =
  bind
    (dedupe_par key key (records newline true input0)
      (records newline true input1)) (fun r -> Ok (((fst r),
    (unrecords newline (map fst (snd r)))),
    (unrecords newline (map snd (snd r)))))
