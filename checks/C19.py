"""C19 -- process_unicode applies the requested transforms to every line, each char once."""
import os
import sys

sys.path.insert(0, os.path.join(os.path.dirname(os.path.abspath(__file__)), "..", "tools"))
from checklib import *  # noqa

FLAGSETS = ["000", "100", "010", "001", "110", "101", "011", "111"]


def hx(b):
    return b.hex() if b else "-"


def unhx(s):
    return b"" if s == "-" else bytes.fromhex(s)


def u8(s):
    return s.encode("utf-8")


# ---------------------------------------------------------------- independent reference (Python)
def build_starts(P, lang_var):
    """AddToFlatten semantics over code points, written from the description in utf8_icu.cc"""
    starts = {}
    for tname, rb in P["ops"][lang_var]:
        for frm, to in P["tables"][tname]:
            c = frm[0]
            if len(frm) == 1:
                if c not in starts:
                    starts[c] = [[], ""]
                starts[c][1] = to
            else:
                if c not in starts:
                    starts[c] = [[], c]
                starts[c][0].append((frm[1:], to, rb == "true"))
    return starts


def py_flatten(starts, s, isspace):
    """left to right; listed longer alternatives in order, then the single character; others copied once"""
    out = []
    i = 0
    while i < len(s):
        c = s[i]
        if c in starts:
            longer, ch = starts[c]
            for suf, to, rb in longer:
                e = i + 1 + len(suf)
                if s[i + 1:e] == suf and (not rb or e == len(s) or isspace(s[e])):
                    out.append(to)
                    i = e
                    break
            else:
                out.append(ch)
                i += 1
        else:
            out.append(c)
            i += 1
    return "".join(out)


class ICU:
    """ICU's toLower / NFKC / u_isspace obtained from the real library through hx_flatten"""

    def __init__(self, exe):
        self.exe = exe
        self.cache = {"L": {}, "N": {}, "S": {}}

    def need(self, kind, keys):
        miss = [k for k in dict.fromkeys(keys) if k not in self.cache[kind]]
        if not miss:
            return
        if kind == "S":
            lines = ["S %d" % k for k in miss]
        else:
            lines = ["%s %s" % (kind, hx(u8(k))) for k in miss]
        rc, out, err = run_lines(self.exe, lines)
        if len(out) != len(lines):
            raise RuntimeError("hx_flatten died: " + err[-300:])
        for k, o in zip(miss, out):
            t = o.split()
            if t[0] != "OK":
                raise RuntimeError("hx_flatten: %s" % o)
            self.cache[kind][k] = (t[1] == "1") if kind == "S" else unhx(t[1]).decode("utf-8")

    def lower(self, s):
        self.need("L", [s])
        return self.cache["L"][s]

    def nfkc(self, s):
        self.need("N", [s])
        return self.cache["N"][s]

    def isspace(self, ch):
        self.need("S", [ord(ch)])
        return self.cache["S"][ord(ch)]

    def defs(self):
        out = []
        for k, v in self.cache["L"].items():
            out.append("DEF L %s %s" % (hx(u8(k)), hx(u8(v))))
        for k, v in self.cache["N"].items():
            out.append("DEF N %s %s" % (hx(u8(k)), hx(u8(v))))
        for k, v in self.cache["S"].items():
            out.append("DEF S %d %d" % (k, 1 if v else 0))
        return out


def alphabet(P):
    toks = ["a", "b", "s", "S", "A", "Z", "x", " ", " ", "\t", "'", "`", "{", "0", "7", "-", "&", ";", "year", "old", "quot", "amp",
            "É", "ß", "İ", "Σ", "σ", "ﬁ", "Å", "Å", "①", " ", " ", "　", "�", "\u0085",
            "\U0001F600", "\U0001D400", "\U00010400", "\U0010FFFF", "\U00020000"]
    # characters below U+0300 that NFKC changes (no combining mark involved), characters that toLower changes
    # although they are not category Lu (titlecase digraphs, Roman numerals, circled capitals)
    toks += list(BELOW_0300_NFKC) + list(NON_LU_LOWER) + list(POST32_NFKC)
    for t in P["tables"].values():
        for frm, to in t:
            toks.append(frm)
            toks.append(frm[0])
            # supplementary-plane characters whose low 16 bits equal a rule trigger
            for plane in (1, 2, 16):
                cp = plane * 0x10000 + ord(frm[0])
                if cp <= 0x10FFFF:
                    toks.append(chr(cp))
            if len(frm) > 2:
                toks.append(frm[:len(frm) // 2])
                toks.append(frm[1:])
                toks.append(frm + "x")
                toks.append(frm + " ")
    return list(dict.fromkeys(toks))


BELOW_0300_NFKC = "\u00a0\u00a8\u00aa\u00af\u00b2\u00b3\u00b4\u00b5\u00b8\u00b9\u00ba\u00bc\u00bd\u00be\u0132\u0133\u013f\u0140\u0149\u017f\u01c4\u01c5\u01c6\u01c7\u01c8\u01c9\u01ca\u01cb\u01cc\u01f1\u01f2\u01f3\u02b0\u02b2\u02b7\u02d8\u02d9\u02da\u02db\u02dc\u02dd\u02e0\u02e2\u02e3"
# assigned after Unicode 3.2, with a compatibility mapping (BMP and supplementary)
POST32_NFKC = "\u1d2c\u1d43\u1d9b\u1d62\u2c7c\u2c7d\ua770\ua7f8\U0001f110\U0001f12a\U0001f131\U0001f200\U0001d6a4"
NON_LU_LOWER = "\u01c5\u01c8\u01cb\u01f2\u1f88\u1f8f\u1fbc\u2160\u2167\u216f\u24b6\u24cf"


def rand_line(rng, toks, n):
    return "".join(rng.choice(toks) for _ in range(n))



def coqchk_except_sweeps(c):
    """thorough tier: coqchk over the closure of the property file, except Fold/Utf8Grammar.v whose
    exhaustive vm_compute sweeps (1.1 million byte sequences) coqchk would re-evaluate without the VM
    (> 15 min); that file is checked by coqc's kernel only, which the evidence states."""
    mod = "PP.Props.Properties_%s" % c.prop
    with Lock("coq"):
        rc, out = run(["coqchk", "-silent", "-o", "-Q", "theories", "PP", "-admit", "PP.Fold.Utf8Grammar", mod], cwd=COQ, timeout=1500)
    text = out.decode("utf-8", "replace")
    ok = rc == 0 and "type-in-type: <none>" in text and "unsafe (co)fixpoints: <none>" in text
    c.cov["coqchk"] = ("ok" if ok else "FAILED") + " (Utf8Grammar admitted): " + " ".join(text.split())[-300:]
    c.cov["trusted_base"].append("coqchk -o over %s with -admit PP.Fold.Utf8Grammar (the Table 3-7 sweeps are checked by coqc + vm_compute only): %s" % (mod, "ok" if ok else "FAILED"))
    if not ok:
        c.broken.append("coqchk failed on %s: %s" % (mod, text[-400:]))
    return ok


def main(argv):
    c = Check("C19", argv)
    quick = c.tier == "quick"
    ok, blog = build_repo(["hx_flatten", "process_unicode"])
    if not ok:
        c.broken.append("build of the repo working tree failed: " + blog[-800:])
        return c.finish(rule="build failed")
    c.proofs()
    if not quick:
        coqchk_except_sweeps(c)
    drv, dlog = build_driver("C19")
    if drv is None:
        c.broken.append("extraction/driver build failed: " + dlog[-600:])
    impl = hx_bin("hx_flatten")
    tool = repo_bin("process_unicode")
    sys.path.insert(0, os.path.join(VERIF, "tools"))
    try:
        from gen import g_flatten
        P = g_flatten.parse(REPO)
    except Exception as e:
        c.broken.append("translator(flatten) cannot read the rule tables: %s" % e)
        return c.finish(rule="translator failed")
    # (code patterns the translator does not understand are reported by c.proofs(); the cases below still run
    #  so that a concrete failing input is found)
    icu = ICU(impl)
    langs = list(P["langvar"].items())        # (variable, code)
    toks = alphabet(P)
    rng = c.rng

    # ---- the translator's assumption: Normalize(to) = to for every listed replacement
    tos = sorted({to for t in P["tables"].values() for _, to in t})
    icu.need("N", tos)
    for to in tos:
        if icu.nfkc(to) != to:
            c.broken.append("translator(flatten): NFKC changes the replacement %r to %r; the model uses the table text" % (to, icu.nfkc(to)))

    # ---- lines
    lines = [""] + toks[:]
    for t in P["tables"].values():            # triggers adjacent to each other and at line ends
        for frm, to in t:
            lines += [frm + frm, "a" + frm, frm + "a", "a " + frm + " b", frm + "\U0001F600", "\U0001F600" + frm]
    lines += ["a\U0001F600b", "\U0001F600", "\U0001F600\U0001F600", "x\U0010FFFF", "' s", "' s ", "a' s", "' sfoo", "' s x", "' s\U0001F600",
              "\u1d2c\u1d43", "x\u2c7c", "\U0001f110 \U0001f131", "\ua770\u1d9b", "a' s", "a' s b", "5 - year - old", "5 - years - old x", "3{", "x\r", "' s\r", "\r", "chapter \u2167", "\u01c5", "\u24b6\u24cf x", "\u1f88 a", "x\u2160\u216f", "a\u00a0b", "1\u00bd kg", "\u00b5m \u00b2", "n\u00ba 3", "\u0133 \u0140 \u017f", "\u02b0\u02e2", "\u01c5 \u01f2",
              "a\U000200abb", "\U00020027 s", "\U00022026", "\U00012019x", "\U0001201c\U0001201d", "\U00010026 amp ;", "\U00010020- year - old",
              "' S", "a' S b", "5 - YEAR - OLD", "& QUOT ;", "& Amp ;", "Æ' S", "' s\u00a0x", "' s\u2028", "' s\tx", "' s\u3000", "' s\u0085", "' s\u200b", "' s\u00a0", "5 - year - old\u00a0k",
              "5 - year - old", "5 - year - old ", "5 - year - olds", "5 - years - old\t", "''' s ", "````", "& amp ; quot ;", "& amp", "& amp ;;",
              "3{4{{", "ΑΣ ΑΣΑ", "İstanbul", "ǅ", "ﬁﬁ", "Å̧"]
    for i in range(300 if quick else 20000):
        lines.append(rand_line(rng, toks, rng.choice((1, 2, 3, 4, 6, 9, 14))))
    lines = list(dict.fromkeys(lines))
    icu.need("S", [ord(ch) for l in lines for ch in l])

    # ---- library level: Flatten::Apply, model vs implementation vs Python reference
    fcases = [(code, l) for (var, code) in langs for l in lines]
    fl = ["F %s %s" % (code, hx(u8(l))) for code, l in fcases] + ["F xx 61", "F EN 61", "F - 61"]
    rc, fout, err = run_lines(impl, fl)
    if len(fout) != len(fl):
        c.broken.append("harness hx_flatten died: rc=%s %s" % (rc, err[-300:]))
        fout = None
    if drv is not None and fout is not None:
        rc, mout, err = run_lines(drv, icu.defs() + fl)
        mout = mout[len(icu.defs()):]
        dis = [(l, a, b) for l, a, b in zip(fl, mout, fout) if a != b]
        c.cov["traces_validated_against_impl"] += len(fl)
        if dis:
            l, a, b = min(dis, key=lambda d: len(d[0]))
            c.broken.append("correspondence Flatten::Apply model vs util/utf8_icu.cc: %d disagreement(s); smallest: case %r (%r) model=%r impl=%r" % (
                len(dis), l, unhx(l.split()[2]).decode("utf-8"), a[:200], b[:200]))
    # ---- the conversions UnicodeString::fromUTF8 / toUTF8String on valid text: model vs ICU
    if drv is not None:
        ul = ["U " + hx(u8(l)) for l in lines]
        rc, uo, err = run_lines(impl, ul)
        rc2, um, err2 = run_lines(drv, ul)
        if len(uo) != len(ul) or len(um) != len(ul):
            c.broken.append("UTF-16 conversion runs died: %s %s" % (err[-200:], err2[-200:]))
        else:
            c.cov["traces_validated_against_impl"] += len(ul)
            dis = [(l, a, b) for l, a, b in zip(ul, um, uo) if a != b]
            if dis:
                l, a, b = min(dis, key=lambda d: len(d[0]))
                c.broken.append("correspondence fromUTF8/toUTF8String model vs ICU: %d disagreement(s); smallest %r model=%r icu=%r" % (len(dis), l, a[:200], b[:200]))
            for l, o in zip(lines, uo):
                # direct oracle: Python's UTF-16 encoding and the round trip
                b = l.encode("utf-16-be")
                want = "OK" + "".join(" %d" % (b[i] * 256 + b[i + 1]) for i in range(0, len(b), 2)) + " | " + hx(u8(l))
                if o != want:
                    c.violation("utf16-conversion: fromUTF8/toUTF8String(%r) = %s, expected %s" % (l, o[:120], want[:120]), {"op": "fromUTF8", "input": l, "impl": o, "expected": want})
                    break
    if not quick:
        asan_lines(c, "hx_flatten", fl + ["L " + hx(u8(l)) for l in lines[:3000]] + ["N " + hx(u8(l)) for l in lines[:3000]], what="(Flatten::Apply, toLower, Normalize)")
    # ---- library level: util::Normalize (both overloads) and util::ToLower vs ICU's NFKC / toLower
    icu.need("N", lines)
    icu.need("L", lines)
    rc, nuo, err = run_lines(impl, ["NU " + hx(u8(l)) for l in lines] + ["LU " + hx(u8(l)) for l in lines])
    if len(nuo) != 2 * len(lines):
        c.broken.append("harness hx_flatten died on Normalize/ToLower cases: " + err[-300:])
    else:
        c.cov["traces_validated_against_impl"] += 2 * len(lines)
        for l, o in zip(lines, nuo[:len(lines)]):
            cat = "all-below-U+0300" if l and all(ord(ch) < 0x300 for ch in l) else "other"
            c.count(("NU", l), nontrivial=len(l) > 0, bucket="normalize/" + cat + ("/changed" if icu.nfkc(l) != l else "/unchanged"))
            want = "OK " + hx(u8(icu.nfkc(l)))
            if o != want:
                c.violation("normalize: util::Normalize(%r) = %s, ICU NFKC gives %r" % (l, (unhx(o.split()[1]).decode("utf-8", "replace") if o.startswith("OK ") else o), icu.nfkc(l)),
                            {"op": "util::Normalize", "input": l, "input_hex": hx(u8(l)), "impl": o, "expected": want, "how": "harness hx_flatten: NU %s  |  printf '%%s\\n' <input> | process_unicode --normalize" % hx(u8(l))})
                break
        import unicodedata
        for l, o in zip(lines, nuo[len(lines):]):
            cat = "no-Lu" if l and not any(unicodedata.category(ch) == "Lu" for ch in l) else "has-Lu"
            c.count(("LU", l), nontrivial=len(l) > 0, bucket="lower/" + cat + ("/changed" if icu.lower(l) != l else "/unchanged"))
            want = "OK " + hx(u8(icu.lower(l)))
            if o != want and "\u03a3" not in l:      # (final sigma: UnicodeString::toLower and ucasemap agree, kept out only to be safe)
                c.violation("lower: util::ToLower(%r) = %s, UnicodeString::toLower gives %r" % (l, o, icu.lower(l)), {"op": "util::ToLower", "input": l, "impl": o, "expected": want})
                break
    # The composition per language is pinned here from the property ("the listed substitutions for the language"):
    # the table CONTENTS are regenerated from the source, which tables a language uses is the specification.
    PINNED = {"en": [("kGeneralReplace", "false"), ("kReplaceWithQuote", "false"), ("kReplaceForEnglishRightBoundary", "true"), ("kReplaceForEnglish", "false")],
              "fr": [("kGeneralReplace", "false"), ("kReplaceForFrench", "false")],
              "de": [("kGeneralReplace", "false"), ("kReplaceWithQuote", "false")],
              "es": [("kGeneralReplace", "false"), ("kReplaceWithQuote", "false")],
              "cs": [("kGeneralReplace", "false")]}
    starts = {}
    for var, code in langs:
        if code in PINNED and all(t in P["tables"] for t, _ in PINNED[code]):
            if P["ops"][var] != PINNED[code]:
                c.broken.append("AllFlattenData composes %r for language %s, the property lists %r" % (P["ops"][var], code, PINNED[code]))
            starts[code] = build_starts(dict(P, ops={var: PINNED[code]}), var)
        else:
            starts[code] = build_starts(P, var)
    if fout is not None:
        for (code, l), o in zip(fcases, fout):
            has_supp = any(ord(ch) > 0xFFFF for ch in l)
            trig = any(ch in starts[code] for ch in l)
            c.count(("F", code, l), nontrivial=len(l) > 0, bucket="flatten/%s/%s%s" % (code, "trigger" if trig else "no-trigger", "+supplementary" if has_supp else ""))
            want = py_flatten(starts[code], l, icu.isspace)
            got = unhx(o.split()[1]).decode("utf-8", "replace") if o.startswith("OK ") else o
            if got != want:
                kind = "flatten-codepoint-not-once" if (not trig or has_supp) else "flatten-substitution"
                c.violation("%s: Flatten(%s).Apply(%r) = %r, expected %r" % (kind, code, l, got, want),
                            {"op": "Flatten::Apply", "language": code, "input": l, "input_hex": hx(u8(l)), "impl": got, "expected": want,
                             "how": "harness hx_flatten: F %s %s   |  printf '%%s\\n' <input> | process_unicode -l %s --flatten --normalize" % (code, hx(u8(l)), code)})
        for l, o in zip(fl[len(fcases):], fout[len(fcases):]):
            if o != "NOLANG":
                c.violation("unsupported-language-accepted: %s answered %s" % (l, o), {"op": "Flatten", "case": l, "impl": o})

    # ---- tool level: bin/process_unicode x 8 flag sets x languages
    inputs = []
    fixed = [["A“x” É", "B“y” É", "C“z” É", "D“w” É", "E“v” É"], ["ﬁ", "ﬁ", "ﬁ"], ["a\U0001F600b"], [""], ["", "", "x"],
             ["' s", "5 - year - old", "``q''"], ["İ", "ΑΣ", "①"], ["a' S", "5 - YEAR - OLD x", "& QUOT ;"],
             ["\u1d2c\u1d43", "x\u2c7c y", "\U0001f110\U0001f131"], ["a\r", "\r", "b\rc", "' s\r", "\u201cq\u201d\r", "last\r"], ["a' s", "5 - year - old", "7{ - years - old"],
             ["chapter \u2167", "\u01c5", "\u24b6\u24cf x", "\u1f88"], ["a\u00a0b", "1\u00bd kg", "\u00b5m\u00b2", "n\u00ba 3 \u0133\u017f"],
             ["a\U000200abb", "\U00020027 s", "\U00022026 \U00012019"]]
    for f in fixed:
        inputs.append(f)
    for i in range(12 if quick else 400):
        inputs.append([rand_line(rng, toks, rng.choice((0, 1, 2, 3, 5, 8))) for _ in range(rng.choice((1, 2, 3, 4, 5, 7)))])
    low = [ch for ch in BELOW_0300_NFKC] + ["a", "b", " ", "e", "1"]
    nolu = [ch for ch in NON_LU_LOWER] + ["a", "b", " ", "x", "3"]
    for i in range(6 if quick else 80):
        inputs.append([rand_line(rng, low, rng.choice((1, 2, 4, 7))) for _ in range(rng.choice((1, 2, 3)))])    # every unit < U+0300
        inputs.append([rand_line(rng, nolu, rng.choice((1, 2, 4, 7))) for _ in range(rng.choice((1, 2, 3)))])   # no category-Lu character
    truns = []
    for k, ls in enumerate(inputs):
        for fs in FLAGSETS:
            for (var, code) in (langs if (not quick or k < len(fixed)) else rng.sample(langs, 2)):
                data = u8("\n".join(ls) + "\n")
                if k % 5 == 4 and ls[-1] != "":
                    data = data[:-1]               # last line without newline
                truns.append((fs, code, ls, data))
    truns.append(("010", None, fixed[0], u8("\n".join(fixed[0]) + "\n")))   # default language
    # expected outputs from the Python reference + real ICU lower/NFKC, stage by stage
    st1 = []
    icu.need("L", [l for fs, code, ls, d in truns if fs[0] == "1" for l in ls])
    for fs, code, ls, d in truns:
        st1.append([icu.lower(l) if fs[0] == "1" else l for l in ls])
    icu.need("S", [ord(ch) for ls in st1 for l in ls for ch in l])
    st2 = []
    for (fs, code, ls, d), cur in zip(truns, st1):
        sts = starts[code or P["default_language"]]
        st2.append([py_flatten(sts, l, icu.isspace) if fs[1] == "1" else l for l in cur])
    icu.need("N", [l for (fs, code, ls, d), cur in zip(truns, st2) if fs[2] == "1" for l in cur])
    expected = [[icu.nfkc(l) if fs[2] == "1" else l for l in cur] for (fs, code, ls, d), cur in zip(truns, st2)]

    outs = []
    for (fs, code, ls, data), want in zip(truns, expected):
        argv = [tool] + (["-l", code] if code else []) + [a for a, b in zip(("--lower", "--flatten", "--normalize"), fs) if b == "1"]
        st, so, se = run_limited(argv, stdin=data, timeout=30)
        outs.append((st, so))
        nflag = fs.count("1")
        c.count(("P", fs, code, data), nontrivial=len(data) > 1, bucket="tool/flags=%s/%d-lines" % (fs, min(len(ls), 4)))
        import unicodedata as _ud
        for src in ls:
            if fs[2] == "1" and src and all(ord(ch) < 0x300 for ch in src) and icu.nfkc(src) != src and fs[:2] == "00":
                c.cov["distribution"]["tool-line/normalize-only,all-below-U+0300,NFKC-changes-it"] = c.cov["distribution"].get("tool-line/normalize-only,all-below-U+0300,NFKC-changes-it", 0) + 1
            if fs[0] == "1" and src and not any(_ud.category(ch) == "Lu" for ch in src) and icu.lower(src) != src:
                c.cov["distribution"]["tool-line/lower,no-Lu-character,toLower-changes-it"] = c.cov["distribution"].get("tool-line/lower,no-Lu-character,toLower-changes-it", 0) + 1
        rep = {"op": "process_unicode", "argv": argv[1:], "stdin": data.decode("utf-8"), "stdin_hex": hx(data), "status": st,
               "stdout": so.decode("utf-8", "replace"), "stderr": se.decode("utf-8", "replace")[-300:],
               "how": "printf '<stdin>' | process_unicode " + " ".join(argv[1:])}
        if st == "timeout":
            c.violation("hang: process_unicode did not finish", rep)
            continue
        if st != 0:
            c.violation("tool-failed: process_unicode exit status %s on valid UTF-8" % st, rep)
            continue
        got = so.decode("utf-8", "replace").split("\n")
        if so.endswith(b"\n") or so == b"":
            got.pop()
        if len(got) != len(want):
            c.violation("line-count: %d lines in, %d lines out" % (len(want), len(got)), rep)
            continue
        for i, (g, w, src) in enumerate(zip(got, want, ls)):
            if g != w:
                if g == (icu.lower(src) if fs[0] == "1" else src) and fs[1:] != "00":
                    kind = "transform-not-applied"
                elif any(ord(ch) > 0xFFFF for ch in src):
                    kind = "codepoint-not-once"
                else:
                    kind = "wrong-output"
                c.violation("%s: flags lower/flatten/normalize=%s language %s: line %d (counting from 1) %r came out as %r, expected %r" % (kind, fs, code, i + 1, src, g, w),
                            dict(rep, kind=kind, line_index=i + 1, got=g, expected=w))
                break
    # lines longer than 65535 bytes with something that must not be cut straddling byte 65535 (a reader with a
    # fixed 64 KiB buffer would transform the two halves separately); every flag set; oracle = Python + ICU
    strad = ["\u00e9", "\U0001F600", "``", "e\u0301", "\u201c"]
    longs = ["a" * 65534 + x + " tail" for x in strad] + ["b" * 131069 + "\U0001F600" + "x"]
    icu.need("L", longs)
    icu.need("S", [ord(ch) for l in longs for ch in set(l)])
    fl1 = [py_flatten(starts["en"], l, icu.isspace) for l in longs]
    fl2 = [py_flatten(starts["en"], icu.lower(l), icu.isspace) for l in longs]
    icu.need("N", longs + fl1 + fl2 + [icu.lower(l) for l in longs])
    for fs in FLAGSETS:
        want = []
        for l in longs:
            x = icu.lower(l) if fs[0] == "1" else l
            x = py_flatten(starts["en"], x, icu.isspace) if fs[1] == "1" else x
            want.append(icu.nfkc(x) if fs[2] == "1" else x)
        data = u8("\n".join(longs) + "\n")
        argv = [tool, "-l", "en"] + [a for a, b in zip(("--lower", "--flatten", "--normalize"), fs) if b == "1"]
        st, so, se = run_limited(argv, stdin=data, timeout=60)
        c.count(("long", fs), nontrivial=True, bucket="tool/line>65535-bytes")
        got = so.decode("utf-8", "replace").split("\n")[:-1] if st == 0 else None
        if got != want:
            j = 0 if got is None or len(got) != len(want) else [k for k in range(len(want)) if got[k] != want[k]][0]
            c.violation("long-line: flags lower/flatten/normalize=%s: line %d (%d bytes, %r straddles byte 65535) is not transformed as a whole: status %s, %s" % (
                fs, j + 1, len(u8(longs[j])), (strad + ["\U0001F600"])[j], st,
                "no output" if got is None else ("%d lines out" % len(got) if len(got) != len(want) else "got ...%r expected ...%r" % (got[j][65520:65550], want[j][65520:65550]))),
                {"op": "process_unicode", "argv": argv[1:], "stdin": "%d lines: 65534 x 'a' + <straddler> + ' tail' for straddlers %r, and 131069 x 'b' + U+1F600 + 'x'" % (len(longs), strad), "status": st})
            break
    # unsupported languages: the model says PNoLanguage (UnsupportedLanguageException), the tool must not end with 0
    for code in ("xx", "EN", "e", "english", ""):
        st, so, se = run_limited([tool, "-l", code, "--flatten"], stdin=u8("a\u201cb\n"), timeout=30)
        c.count(("lang", code), nontrivial=True, bucket="tool/unsupported-language")
        m_ok = True
        if drv is not None:
            rc, mo, err = run_lines(drv, ["P 010 %s %s" % (code or "-", hx(u8("a\u201cb\n")))])
            m_ok = bool(mo) and mo[0] == "NOLANG"
            if not m_ok:
                c.broken.append("model accepts the unsupported language %r: %s" % (code, mo[:1]))
        if st == 0 or st == "timeout":
            c.violation("unsupported-language-accepted: process_unicode -l %r --flatten ended with status %s and printed %r" % (code, st, so[:60]),
                        {"op": "process_unicode", "argv": ["-l", code, "--flatten"], "status": st, "stdout": so.decode("utf-8", "replace")})
    # model of the tool vs the tool
    if drv is not None:
        pl = ["P %s %s %s" % (fs, code or P["default_language"], hx(data)) for fs, code, ls, data in truns]
        mout = None
        for attempt in range(6):
            defs = icu.defs()
            rc, mo, err = run_lines(drv, defs + pl)
            if len(mo) != len(defs) + len(pl):
                c.broken.append("model driver died on tool cases: " + err[-300:])
                break
            mo = mo[len(defs):]
            miss = [m.split()[1:] for m in mo if m.startswith("MISSING")]
            if not miss:
                mout = mo
                break
            for kind in ("L", "N"):
                icu.need(kind, [unhx(m[1]).decode("utf-8") for m in miss if m[0] == kind])
            icu.need("S", [int(m[1]) for m in miss if m[0] == "S"])
        if mout is None:
            c.broken.append("model of process_unicode: ICU tables could not be completed")
        else:
            dis = []
            for l, m, (st, so) in zip(pl, mout, outs):
                want = ("OK " + hx(so)) if st == 0 else "status %s" % st
                if m != want:
                    dis.append((l, m, want))
            c.cov["traces_validated_against_impl"] += len(pl)
            if dis:
                l, a, b = min(dis, key=lambda d: len(d[0]))
                c.broken.append("correspondence process_unicode model vs bin/process_unicode: %d disagreement(s); smallest: %r model=%r tool=%r" % (len(dis), l[:200], a[:200], b[:200]))
    c.sample({"flatten_case": {"language": "en", "input": lines[len(toks) + 5]}})
    c.sample({"tool_case": {"flags": truns[9][0], "language": truns[9][1], "stdin": truns[9][3].decode("utf-8")}})
    c.sample({"tool_case": {"flags": truns[-2][0], "language": truns[-2][1], "stdin": truns[-2][3].decode("utf-8")}})
    return c.finish(level="proof",
                    rule="Flatten::Apply (library) x 5 languages on: every rule trigger alone, doubled, next to letters/spaces/supplementary characters and at both line ends, halves and extensions of every multi-character rule, right-boundary cases with ASCII/NBSP/ideographic space/supplementary followers, random token lines (ASCII, accents, Turkish dotted I, final sigma, ligatures, combining marks, U+1F600/U+1D400/U+10400/U+10FFFF); bin/process_unicode x 8 flag sets x languages on multi-line inputs (1-7 lines, empty lines, unterminated last line), each output line compared by index with Python reference + real ICU lower/NFKC; model run with the same ICU answers",
                    assumptions=["ICU: UnicodeString::toLower (root locale), NFKC, u_isspace, fromUTF8/toUTF8String are environment functions; their values for the strings of the run come from the real ICU through harness/hx_flatten",
                                 "NFKC leaves every listed replacement text unchanged (checked on every run)",
                                 "input lines are valid UTF-8 (ICU would substitute U+FFFD otherwise)"])


if __name__ == "__main__":
    sys.exit(main(sys.argv[1:]))
