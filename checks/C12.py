"""C12 -- UTF-8 validation accepts exactly well-formed UTF-8 (util/utf8.hh, utf8.cc,
remove_invalid_utf8)."""
import os
import sys
import tempfile
import time

sys.path.insert(0, os.path.join(os.path.dirname(os.path.abspath(__file__)), "..", "tools"))
from checklib import *  # noqa

SCRATCH = os.path.join(BUILD_ROOT, "scratch-C12")

# boundary scalar values of Table 3-7 (both ends of every row) and a few inner ones
BOUNDARY_CPS = [0x00, 0x01, 0x41, 0x7F, 0x80, 0xFF, 0x7FF, 0x800, 0xFFF, 0x1000, 0x20AC, 0xCFFF, 0xD000, 0xD7FF,
                0xE000, 0xFFFD, 0xFFFF, 0x10000, 0x1F600, 0x3FFFF, 0x40000, 0xFFFFF, 0x100000, 0x10FFFF]
# ill-formed pieces: overlongs, surrogates, > U+10FFFF, stray trail, truncated leads, invalid leads
BAD_PIECES = [b"\xc0\x80", b"\xc1\xbf", b"\xe0\x80\x80", b"\xe0\x9f\xbf", b"\xf0\x80\x80\x80", b"\xf0\x8f\xbf\xbf",
              b"\xed\xa0\x80", b"\xed\xbf\xbf", b"\xf4\x90\x80\x80", b"\xf5\x80\x80\x80", b"\xf7\xbf\xbf\xbf",
              b"\xf8\x88\x80\x80\x80", b"\xfc\x84\x80\x80\x80\x80", b"\xfe", b"\xff", b"\x80", b"\xbf",
              b"\xc2", b"\xe2\x82", b"\xf0\x9f\x98", b"\xc2\x41", b"\xe2\x41\x80", b"\xe2\x82\x41", b"\xf0\x41\x80\x80",
              b"\xf0\x9f\x41\x80", b"\xf0\x9f\x98\x41", b"\xc2\xc0", b"\xe2\x82\xc0", b"\xf0\x9f\x98\xc0", b"\xdf\x7f", b"\xef\xbf\x7f"]
B_CLASS = [0x00, 0x41, 0x7F, 0x80, 0x8F, 0x90, 0x9F, 0xA0, 0xBF, 0xC0, 0xC2, 0xE0, 0xF0, 0xFF]


def py_first(bs):
    """independent oracle for DecodeUTF8: (code point, length) of the well-formed sequence
    the buffer starts with, or None (Python's strict decoder)"""
    for k in range(1, min(4, len(bs)) + 1):
        try:
            s = bs[:k].decode("utf-8", "strict")
        except UnicodeDecodeError:
            continue
        if len(s) == 1:
            return (ord(s), k)
    return None


def py_is_utf8(bs):
    try:
        bs.decode("utf-8", "strict")
        return True
    except UnicodeDecodeError:
        return False


def py_items(bs):
    """oracle for the iterator: items before the first ill-formed position, and whether the end was reached"""
    items = []
    pos = 0
    while pos < len(bs):
        r = py_first(bs[pos:pos + 4])
        if r is None:
            return False, items
        items.append(r)
        pos += r[1]
    return True, items


def py_cell(r):
    return "B" if r is None else "%d/%d" % r


def oracle_table():
    rows = [" ".join(py_cell(py_first(bytes([b]))) for b in range(256))]
    for b0 in range(256):
        rows.append(" ".join(";".join(py_cell(py_first(bytes([b0, b1]) + suffix)) for suffix in (b"", b"\x80", b"\x80\x80"))
                             for b1 in range(256)))
    return rows


def enc(cp):
    return chr(cp).encode("utf-8")


def gen_cases(c):
    rng = c.rng
    D, U, I = [], [], []
    # --- exhaustive 1- and 2-byte buffers, and the same windows followed by more bytes
    for b0 in range(256):
        D.append(bytes([b0]))
        for b1 in range(256):
            D.append(bytes([b0, b1]))
    for b0 in range(0x80, 256):
        for b1 in range(256):
            D.append(bytes([b0, b1, 0x80]))
            D.append(bytes([b0, b1, 0x80, 0x80]))
            D.append(bytes([b0, b1, 0x80, 0x80, 0x80]))
    # --- 3- and 4-byte windows: every (b0,b1) with a multi-byte lead x boundary classes of b2 (, b3)
    for b0 in range(0xC0, 256):
        for b1 in range(256):
            for b2 in B_CLASS:
                D.append(bytes([b0, b1, b2]))
                D.append(bytes([b0, b1, b2, 0x41]))
    lead4 = range(0xE0, 256) if c.tier == "thorough" else range(0xEC, 0xF9)
    for b0 in lead4:
        for b1 in (range(256) if c.tier == "thorough" else sorted(set(B_CLASS + list(range(0x7E, 0xC2))))):
            for b2 in B_CLASS:
                for b3 in B_CLASS:
                    D.append(bytes([b0, b1, b2, b3]))
    # --- every boundary code point, every truncation of it, each followed by 0..2 further bytes
    for cp in BOUNDARY_CPS + [rng.randrange(0x110000) for _ in range(300)]:
        if 0xD800 <= cp < 0xE000:
            cp = 0xD7FF
        e = enc(cp)
        for cut in range(1, len(e) + 1):
            for suf in (b"", b"\x80", b"A", b"\xbf\xbf", bytes([rng.randrange(256)])):
                D.append(e[:cut] + suf)
    for p in BAD_PIECES:
        D.append(p)
        D.append(p + b"\x80\x80\x80")
    for _ in range(2000 if c.tier == "quick" else 50000):
        D.append(bytes(rng.randrange(256) for _ in range(rng.randrange(1, 7))))
    # --- compositions for IsUTF8 / the iterator: mostly valid, with at most one ill-formed piece / truncation
    def valid_piece():
        r = rng.random()
        if r < 0.4:
            return enc(rng.choice(BOUNDARY_CPS))
        if r < 0.7:
            return bytes([rng.randrange(0x80)])
        cp = rng.randrange(0x110000)
        return enc(cp if not 0xD800 <= cp < 0xE000 else 0xE000)
    comps = [b""]
    for n in list(range(1, 30)) + [rng.randrange(30, 400) for _ in range(150 if c.tier == "quick" else 2000)] + [4096, 20000]:
        good = [valid_piece() for _ in range(n)]
        comps.append(b"".join(good))
        pos = rng.randrange(n + 1)
        comps.append(b"".join(good[:pos]) + rng.choice(BAD_PIECES) + b"".join(good[pos:]))
        s = b"".join(good)
        comps.append(s[:rng.randrange(len(s) + 1)])           # cut anywhere (maybe inside a sequence)
        comps.append(s[rng.randrange(len(s) + 1):])           # start anywhere (maybe on a trail byte)
    for cp in BOUNDARY_CPS:                                      # each boundary sequence alone / doubled / at the very end
        comps += [enc(cp), enc(cp) * 2, b"xyz" + enc(cp), enc(cp)[:-1], b"xyz" + enc(cp)[:-1]]
    for p in BAD_PIECES:
        comps += [p, b"ok" + p, p + b"ok", b"\xe2\x82\xac" + p]
    for _ in range(300 if c.tier == "quick" else 5000):
        comps.append(bytes(rng.randrange(256) for _ in range(rng.randrange(0, 12))))
    I = [x for x in comps if len(x) <= 600]
    # ASCII runs of every length 0..70 (a word-at-a-time fast path would have its edges here) in front of / behind every
    # ill-formed piece, at 4 different offsets, and the well-formed twin
    runs = []
    for run in range(0, 71):
        for off in range(4):
            pre = b"\xe2\x82\xac"[:0] + b"\xc3\xa9" * (off // 2) + b"z" * (off % 2)
            for p in BAD_PIECES[:: (1 if c.tier == "thorough" else 4)]:
                runs.append(pre + b"a" * run + p + b"tail")
                runs.append(pre + p + b"a" * run)
            runs.append(pre + b"a" * run + b"\xf0\x9f\x98\x80" + b"a" * run)
    U = comps + runs
    return D, U, I


def gen_files(c):
    """inputs for bin/remove_invalid_utf8: lines of every kind, CR, NUL, empty lines, missing final newline"""
    rng = c.rng
    files = []

    def line():
        r = rng.random()
        if r < 0.1:
            return b""
        parts = [rng.choice([b"abc", b"\xc3\xa9", b"\xe2\x82\xac", b"\xf0\x9f\x98\x80", b" ", b"\x00", b"\t", enc(rng.choice(BOUNDARY_CPS))])
                 for _ in range(rng.randrange(1, 8))]
        parts = [p for p in parts if p != b"\n"]
        if r < 0.45:
            parts.insert(rng.randrange(len(parts) + 1), rng.choice(BAD_PIECES))
        if rng.random() < 0.15:
            parts.append(b"\r")
        if rng.random() < 0.05:
            parts.insert(0, b"\r")
        return b"".join(parts).replace(b"\n", b"")
    fixed = [b"", b"\n", b"a", b"a\n", b"\xff", b"\xff\n", b"a\n\xff\nb\n", b"\n\n\n", b"\xc3\n\xa9\n", b"a\r\nb\xff\r\nc\r", b"\r\n", b"\r",
             b"a\x00b\n\x00\n", b"\xe2\x82\xac\n\xe2\x82\n\xac\n", b"ok\n\xed\xa0\x80\nok2"]
    files += fixed
    for _ in range(60 if c.tier == "quick" else 600):
        ls = [line() for _ in range(rng.randrange(1, 12))]
        data = b"\n".join(ls) + (b"\n" if rng.random() < 0.8 else b"")
        files.append(data)
    # long lines (longer than any fixed-size prefix a tool might look at) with one ill-formed byte at the start / middle / very end,
    # and their well-formed twins; bytes behind a NUL
    for n in (300, 5000, 70000) if c.tier == "quick" else (300, 5000, 70000, 300000):
        good = (b"abc \xc3\xa9 \xe2\x82\xac " * (n // 11 + 1))[:n]
        while not py_is_utf8(good):
            good = good[:-1]
        for pos in (0, len(good) // 2, len(good)):
            files.append(b"ok\n" + good[:pos] + b"\xff" + good[pos:] + b"\n" + good + b"\nend\n")
    files += [b"a\x00\xff\n", b"\x00\xc0\xaf\nfine\n", b"fine\x00\nfine\x00\xe2\x82\n"]
    # one long file crossing reader buffers
    ls = [line() for _ in range(3000)]
    files.append(b"\n".join(ls) + b"\n")
    return files


def tool_oracle(data):
    """the statement: output = the well-formed lines, unchanged, each terminated by newline"""
    lines = data.split(b"\n")
    if lines and lines[-1] == b"":
        lines.pop()
    return b"".join(l + b"\n" for l in lines if py_is_utf8(l))


def shrink(impl, op, data, expect_fn, budget=12):
    """delta-debugging on bytes: the smallest input found on which the implementation still disagrees with the oracle
    (candidates of one round are evaluated in one harness run)"""
    cur = data
    for _ in range(budget):
        cands = []
        n = len(cur)
        k = max(1, n // 2)
        while k >= 1:
            for i in range(0, n, k):
                cand = cur[:i] + cur[i + k:]
                if len(cand) < n and cand not in cands:
                    cands.append(cand)
            k //= 2
        if not cands:
            break
        cands = cands[:400]
        rc, out, err = run_lines(impl, ["%s %s" % (op, hexs(x)) for x in cands])
        if len(out) != len(cands):
            break
        better = [x for x, o in zip(cands, out) if o != expect_fn(x)]
        if not better:
            break
        cur = min(better, key=len)
    return cur


def load_replay(c):
    if not c.replay:
        return None
    body = json.load(open(c.replay))
    return body.get("replay") if isinstance(body.get("replay"), dict) else None


def main(argv):
    c = Check("C12", argv)
    ok, blog = build_repo(["hx_utf8", "remove_invalid_utf8", "commoncrawl_dedupe", "foldfilter"])
    if not ok:
        c.broken.append("build of repo working tree failed: " + blog[-800:])
        return c.finish(rule="build failed")
    c.proofs(only=["utf8"])
    from gen.fallback import shape_note
    note = shape_note("Src_utf8.v")
    if note:
        c.assumptions.append("translator: the shape of the anchored code changed (" + note[:300] + "); the tie of the model to the code rests on the correspondence run below")
        log("  note: " + note[:300])
    if c.tier == "thorough":
        coqchk(c)
    # cross-property link (Utf8/FiltersInstance.v: the wf_utf8 of the C18 filter models = the model of the real IsUTF8);
    # recorded in the evidence, not one of C12's obligations (it depends on C18's model and translator)
    ok_inst, ilog = coq_make(["theories/Utf8/FiltersInstance.vo"], timeout=900)
    c.cov["filters_instance_for_C18"] = "compiled" if ok_inst else ("not compiled: " + " ".join(ilog.split())[-300:])
    drv, dlog = build_driver("C12")
    impl = hx_bin("hx_utf8")
    tool = repo_bin("remove_invalid_utf8")
    os.makedirs(SCRATCH, exist_ok=True)

    D, U, I = gen_cases(c)
    rp = load_replay(c)
    if rp is not None:       # --replay: the recorded input is evaluated first, then the normal run
        if rp.get("op") in ("DecodeUTF8", "grid") and rp.get("input_hex"):
            D.insert(0, bytes.fromhex(rp["input_hex"]))
        if rp.get("op") in ("IsUTF8", "iterator") and rp.get("input_hex") is not None:
            U.insert(0, bytes.fromhex(rp["input_hex"]))
            I.insert(0, bytes.fromhex(rp["input_hex"]))
    lines = ["C"] + ["D " + hexs(b) for b in D] + ["U " + hexs(b) for b in U] + ["I " + hexs(b) for b in I]
    for b in D:
        r = py_first(b[:4])
        c.count(("D", b), bucket="decode/buf%d/%s" % (min(len(b), 5), "bad" if r is None else "len%d" % r[1]))
    for b in U:
        c.count(("U", b), nontrivial=len(b) > 0, bucket="is_utf8/" + ("well-formed" if py_is_utf8(b) else "ill-formed"))
    for b in I:
        c.count(("I", b), nontrivial=len(b) > 0, bucket="iterator")
    c.sample({"op": "D", "hex": hexs(D[min(70000, len(D) - 1)])})
    c.sample({"op": "U", "hex": hexs(U[40])})
    c.sample({"op": "U", "hex": hexs(U[41])})

    # ---- correspondence 1: extracted model vs implementation, line protocol
    if drv is None:
        c.broken.append("extraction/driver build failed: " + dlog[-600:])
    else:
        correspond(c, "utf8 model vs util/utf8.hh (DecodeUTF8, IsUTF8, iterator)", drv, impl, lines, chunk=200000)

    # ---- correspondence 2: native exhaustive window sweeps against the model's pair table
    otable = oracle_table()
    table = None
    if drv is not None:
        rc, out, err = run_lines(drv, ["W1"] + ["P %d" % b for b in range(256)])
        if len(out) == 257:
            table = out
            diff = [i for i in range(257) if out[i] != otable[i]]
            if diff:
                # model and Table 3-7 (Python) disagree on a pair: the theorems cannot hold either
                i = diff[0]
                a, b = out[i].split(" "), otable[i].split(" ")
                j = [k for k in range(256) if a[k] != b[k]][0]
                c.broken.append("pair table of the model differs from the strict-decoder table at b0=%s b1=%d: model %s oracle %s" % (
                    "-" if i == 0 else i - 1, j, a[j], b[j]))
        else:
            c.broken.append("driver did not print the pair table: " + err[-300:])
    tpath = os.path.join(SCRATCH, "table.txt")
    with open(tpath, "w") as f:
        f.write("\n".join(table if table is not None else otable) + "\n")
    opath = os.path.join(SCRATCH, "otable.txt")
    with open(opath, "w") as f:
        f.write("\n".join(otable) + "\n")
    sweeps = [(1, 0, 256), (2, 0, 256), (3, 0, 256)] + ([(4, 0, 256)] if c.tier == "thorough" else [(4, 0xF0, 0xF8)])
    mism = []
    sweep_t0 = time.time()
    for k, lo, hi in sweeps:
        if k == 4 and hi - lo > 1 and c.tier == "quick" and time.time() - sweep_t0 > 6:
            # the machine is slow right now (the 2^24 sweeps of all 1-3 byte buffers took > 6 s, normally about 1 s): keep the quick tier quick and sweep
            # only the two boundary four-byte leads; theorem C12_window_composite + the line-protocol classes cover the rest
            for k2, lo2, hi2 in ((4, 0xF0, 0xF1), (4, 0xF4, 0xF5)):
                sweeps.append((k2, lo2, hi2))
            c.assumptions.append("slow machine: quick-tier 4-byte sweep reduced to leads F0 and F4 (full F0..F7 when the 1-3 byte sweeps take < 6 s; all 2^32 in the thorough tier)")
            continue
        for which, path in (("model" if table is not None else "strict-decoder", tpath), ("oracle", opath)):
            if which == "oracle" and (k == 4 or table is None or table == otable):
                continue   # identical tables: one run serves as correspondence and as oracle
            st, out, err = run_tool([impl, "SWEEP", path, str(k), "8", str(lo), str(hi)], timeout=3000)
            text = out.decode("utf-8", "replace").split("\n")
            if st != 0 or not text or not text[0].startswith("SWEEP k="):
                c.broken.append("native sweep k=%d died: status %s %s" % (k, st, (text[0] if text else "") + err.decode("utf-8", "replace")[-200:]))
                continue
            n = int(text[0].split("windows=")[1].split()[0])
            m = int(text[0].split("mismatches=")[1].split()[0])
            c.cov["evaluations"] += n
            c.cov["traces_validated_against_impl"] += n
            d = c.cov["distribution"]
            d["sweep/buf%d/b0=%02x..%02x" % (k, lo, hi - 1)] = d.get("sweep/buf%d/b0=%02x..%02x" % (k, lo, hi - 1), 0) + n
            if m:
                c.broken.append("native sweep of all %d-byte buffers (b0 in [%d,%d)) vs %s table: %d mismatching windows, e.g. %s" % (
                    k, lo, hi, which, m, "; ".join(text[1:4])))
                for t in text[1:]:
                    if t.startswith("MISMATCH "):
                        mism.append(bytes.fromhex(t.split()[1]))

    # ---- direct property oracle on the implementation's answers (independent of the model)
    rc, out, err = run_lines(impl, lines + ["D " + hexs(b) for b in mism])
    if len(out) != len(lines) + len(mism):
        c.broken.append("harness hx_utf8 died: rc=%s %s" % (rc, err[-300:]))
    else:
        out = out[1:]          # the constants line "C" is compared model-vs-compiled code only
        lines = lines[1:]
        nD, nU = len(D), len(U)
        for b, o in list(zip(D, out[:nD])) + list(zip(mism, out[len(lines):])):
            r = py_first(b[:4])
            want = "BAD" if r is None else "OK %d %d" % r
            if o != want:
                kind = "ill-formed-accepted" if r is None else ("well-formed-rejected" if o == "BAD" else "wrong-codepoint-or-length")
                c.violation("decode/%s: DecodeUTF8(%s) gave %s, Unicode Table 3-7 says %s" % (kind, hexs(b), o, want),
                            {"op": "DecodeUTF8", "input_hex": hexs(b), "impl": o, "expected": want,
                             "how": "echo 'D %s' | hx_utf8" % hexs(b)})
        shrunk = set()
        for b, o in zip(U, out[nD:nD + nU]):
            want = "T" if py_is_utf8(b) else "F"
            if o != want:
                if "U" not in shrunk and len(b) > 6:      # minimise the first failing input
                    shrunk.add("U")
                    b = shrink(impl, "U", b, lambda x: "T" if py_is_utf8(x) else "F")
                    want = "T" if py_is_utf8(b) else "F"
                    o = "F" if want == "T" else "T"
                c.violation("is_utf8/%s: IsUTF8(%s) = %s but the string is %s" % ("ill-formed-accepted" if want == "F" else "well-formed-rejected", hexs(b), o,
                                                                                 "well-formed" if want == "T" else "ill-formed"),
                            {"op": "IsUTF8", "input_hex": hexs(b), "impl": o, "expected": want,
                             "how": "printf '<bytes>\\n' | remove_invalid_utf8   (or: echo 'U %s' | hx_utf8)" % hexs(b)})
        for b, o in zip(I, out[nD + nU:len(lines)]):
            okk, items = py_items(b)
            want = ("OK" if okk else "BAD") + "".join(" %d:%d" % it for it in items)
            if o != want and "I" not in shrunk and len(b) > 6:
                shrunk.add("I")

                def want_items(x):
                    k2, it2 = py_items(x)
                    return ("OK" if k2 else "BAD") + "".join(" %d:%d" % t for t in it2)
                b = shrink(impl, "I", b, want_items)
                want = want_items(b)
                rc3, o3, _ = run_lines(impl, ["I " + hexs(b)])
                o = o3[0] if o3 else o
            if o != want:
                c.violation("iterator: DecodeUTF8Iterator over %s visited %r, expected %r" % (hexs(b), o, want),
                            {"op": "iterator", "input_hex": hexs(b), "impl": o, "expected": want})

    # ---- tool level: bin/remove_invalid_utf8 vs model and vs the statement
    files = gen_files(c)
    if rp is not None and rp.get("op") == "remove_invalid_utf8" and rp.get("stdin_hex") is not None:
        files.insert(0, bytes.fromhex(rp["stdin_hex"]))
    model_out = None
    # the record splitter of Base/Lines.v uses the quadratic List.rev: files with very long lines go to the oracle only
    for_model = [max([len(l) for l in f.split(b"\n")] or [0]) <= 6000 for f in files]
    if drv is not None:
        rc, mo, err = run_lines(drv, ["R " + hexs(f) for f, okm in zip(files, for_model) if okm])
        if len(mo) == sum(for_model):
            it = iter(mo)
            model_out = [next(it) if okm else None for okm in for_model]
        else:
            c.broken.append("driver died on tool-level cases: " + err[-300:])
    tool_dis = 0
    for idx, data in enumerate(files):
        st, so, se = run_tool([tool], stdin=data, timeout=60)
        c.count(("tool", data), nontrivial=len(data) > 0, bucket="tool/remove_invalid_utf8/" + ("has-CR" if b"\r" in data else "no-CR"))
        c.cov["traces_validated_against_impl"] += 1
        small = data if len(data) <= 400 else None
        if st != 0:
            c.violation("tool-status: remove_invalid_utf8 ended with %s on a %d-byte input" % (st, len(data)),
                        {"op": "remove_invalid_utf8", "stdin_hex": hexs(data[:2000]), "status": str(st)})
            continue
        if model_out is not None and model_out[idx] is not None and model_out[idx] != "OK " + hexs(so):
            tool_dis += 1
            if tool_dis == 1:
                c.broken.append("correspondence remove_invalid_utf8 tool vs model: stdin %s model %s impl %s" % (
                    hexs(data[:200]), model_out[idx][:200], hexs(so[:200])))
        want = tool_oracle(data)
        if so != want:
            # find the first line that is treated wrongly, for a small replay
            lines_in = data.split(b"\n")
            if lines_in and lines_in[-1] == b"":
                lines_in.pop()
            culprit = None
            for l in lines_in:
                st1, so1, _ = run_tool([tool], stdin=l + b"\n", timeout=60)
                if so1 != tool_oracle(l + b"\n"):
                    culprit = (l, so1)
                    break
            if culprit is not None:
                l, so1 = culprit
                w = "kept" if py_is_utf8(l) else "dropped"
                kind = "line-changed-CR" if (py_is_utf8(l) and l.endswith(b"\r") and so1 == l[:-1] + b"\n") else \
                    ("ill-formed-line-kept" if not py_is_utf8(l) else ("well-formed-line-dropped" if so1 == b"" else "line-changed"))
                c.violation("tool/%s: remove_invalid_utf8 on line %r wrote %r; the line is %s and must be %s unchanged" % (
                    kind, l, so1, "well-formed" if py_is_utf8(l) else "ill-formed", w),
                    {"op": "remove_invalid_utf8", "kind": kind, "stdin_hex": hexs(l + b"\n"), "stdout_hex": hexs(so1), "expected_hex": hexs(tool_oracle(l + b"\n")),
                     "how": "printf '<stdin>' | bin/remove_invalid_utf8 | xxd"})
            else:
                c.violation("tool/output-differs: remove_invalid_utf8 output differs from the well-formed lines of a %d-byte input" % len(data),
                            {"op": "remove_invalid_utf8", "kind": "whole-file", "stdin_hex": hexs(data[:4000]), "stdout_hex": hexs(so[:4000]), "expected_hex": hexs(want[:4000])})
    c.sample({"op": "remove_invalid_utf8", "stdin": repr(files[9])})

    # ---- commoncrawl_dedupe promises valid UTF-8 output: every line it writes must be well-formed, and it must
    #      write exactly the stripped, new, non-delimiter, well-formed lines
    SP = b"\t\n\x0b\x0c\r "
    MAGIC = b"df6fa1abb58549287111ba8d776733e9"
    # well-formed lines whose LAST byte is every continuation byte 80..BF (2-, 3- and 4-byte sequences, incl. 85 and A0, the
    # bytes some libraries call spaces) and whose FIRST byte is every lead byte, alone and padded with real spaces
    edge = []
    for last in range(0x80, 0xC0):
        for seq in (bytes([0xC3, last]), bytes([0xE2, 0x82, last]), bytes([0xF0, 0x9F, 0x98, last]), bytes([0xD0, last])):
            edge += [b"citt" + seq, b"  citt" + seq + b" \t", seq, seq + b" "]
    for lead in range(0xC2, 0xF5):
        seq = bytes([lead]) + {2: b"\xa0", 3: b"\xa0\xa0", 4: b"\xa0\xa0\xa0"}[2 if lead < 0xE0 else (3 if lead < 0xF0 else 4)]
        if lead == 0xED:
            seq = b"\xed\x9f\xa0"
        if lead == 0xF4:
            seq = b"\xf4\x8f\xa0\xa0"
        if lead == 0xF0:
            seq = b"\xf0\xa0\xa0\xa0"
        edge += [seq + b"word", b" \t" + seq + b"word  "]
    edge = [e for e in edge if py_is_utf8(e)]
    edge_files = [b"".join(l + b"\n" for l in edge[i:i + 60]) for i in range(0, len(edge), 60)]
    for data in (files if c.tier == "thorough" else files[:40] + [f for f in files[40:] if len(f) > 250]) + edge_files:
        st, so, se = run_tool([repo_bin("commoncrawl_dedupe")], stdin=data, timeout=60)
        c.count(("ccd", data), nontrivial=len(data) > 0, bucket="tool/commoncrawl_dedupe")
        c.cov["traces_validated_against_impl"] += 1
        seen, want = set(), []
        lines_in = data.split(b"\n")
        if lines_in and lines_in[-1] == b"":
            lines_in.pop()
        for l in lines_in:
            l = l.strip(SP)
            if l.startswith(MAGIC) or l in seen:
                continue
            seen.add(l)
            if py_is_utf8(l):
                want.append(l)
        bad = [l for l in so.split(b"\n")[:-1] if not py_is_utf8(l)]
        if st != 0 or bad:
            c.violation("tool/commoncrawl_dedupe-ill-formed-output: commoncrawl_dedupe wrote the ill-formed line %r (status %s)" % (bad[0] if bad else b"", st),
                        {"op": "commoncrawl_dedupe", "kind": "ill-formed-output", "stdin_hex": hexs(data[:4000]), "stdout_hex": hexs(so[:4000])})
        elif so != b"".join(l + b"\n" for l in want):
            c.violation("tool/commoncrawl_dedupe-output: output differs from the stripped, first-seen, well-formed lines of a %d-byte input" % len(data),
                        {"op": "commoncrawl_dedupe", "kind": "output", "stdin_hex": hexs(data[:4000]), "stdout_hex": hexs(so[:4000]),
                         "expected_hex": hexs(b"".join(l + b"\n" for l in want)[:4000])})

    # commoncrawl_dedupe with a file of lines to exclude: still only well-formed lines, minus the excluded ones
    rm_lines = [b"abc", b"  \xc3\xa9  ", b"\xff", b"a\x00b"]
    rm_path = os.path.join(SCRATCH, "remove_these")
    os.makedirs(SCRATCH, exist_ok=True)
    open(rm_path, "wb").write(b"".join(l + b"\n" for l in rm_lines))
    rm_set = set(l.strip(SP) for l in rm_lines)
    for data in files[:25]:
        data = data + b"\nabc\n\xc3\xa9\nkept \xe2\x82\xac\nbad\xc0\xaf\n"
        st, so, se = run_tool([repo_bin("commoncrawl_dedupe"), rm_path], stdin=data, timeout=60)
        c.count(("ccd-remove", data), bucket="tool/commoncrawl_dedupe-with-remove-file")
        c.cov["traces_validated_against_impl"] += 1
        seen, want = set(rm_set), []
        lines_in = data.split(b"\n")
        if lines_in and lines_in[-1] == b"":
            lines_in.pop()
        for l in lines_in:
            l = l.strip(SP)
            if l.startswith(MAGIC) or l in seen:
                continue
            seen.add(l)
            if py_is_utf8(l):
                want.append(l)
        if st != 0 or so != b"".join(l + b"\n" for l in want):
            bad = [l for l in so.split(b"\n")[:-1] if not py_is_utf8(l)]
            c.violation("tool/commoncrawl_dedupe-remove-file: with a file of lines to exclude the output %s (status %s)" % (
                "contains the ill-formed line %r" % bad[0] if bad else "differs from the stripped, first-seen, not excluded, well-formed lines", st),
                {"op": "commoncrawl_dedupe", "kind": "remove-file", "remove_file_hex": hexs(open(rm_path, "rb").read()), "stdin_hex": hexs(data[:4000]),
                 "stdout_hex": hexs(so[:4000]), "expected_hex": hexs(b"".join(l + b"\n" for l in want)[:4000])})
            break

    # ---- foldfilter hands its child pieces of (well-formed) lines: every piece must be well-formed, whatever the width
    good_lines = []
    for _ in range(25 if c.tier == "quick" else 250):
        n = c.rng.randrange(1, 40)
        good_lines.append(b"".join(c.rng.choice([b"a", b" ", b".", b",", b"\xc3\xa9", b"\xe2\x82\xac", b"\xf0\x9f\x98\x80", b"\xe3\x80\x82", enc(c.rng.choice(BOUNDARY_CPS[1:]))])
                                   for _ in range(n)).replace(b"\n", b"").replace(b"\r", b"").replace(b"\x00", b"a"))
    data = b"".join(l + b"\n" for l in good_lines)
    for width in (1, 2, 3, 4, 5, 7, 10, 40):
        for extra in ([], ["-s"], ["-d", ",.\u3002\u20ac"], ["-s", "-d", "\u00e9 "]):
            seen_path = os.path.join(SCRATCH, "pieces")
            os.makedirs(SCRATCH, exist_ok=True)
            if os.path.exists(seen_path):
                os.unlink(seen_path)
            st, so, se = run_tool([repo_bin("foldfilter"), "-w", str(width)] + extra + ["tee", seen_path], stdin=data, timeout=60)
            c.count(("foldfilter", width, tuple(extra)), bucket="tool/foldfilter-pieces")
            c.cov["traces_validated_against_impl"] += 1
            pieces = open(seen_path, "rb").read().split(b"\n")[:-1] if os.path.exists(seen_path) else []
            bad = [p_ for p_ in pieces if not py_is_utf8(p_)]
            if st == "timeout" or bad:
                c.violation("tool/foldfilter-ill-formed-piece: foldfilter -w %d %s handed its child the ill-formed piece %r (status %s)" % (width, " ".join(extra), bad[0] if bad else b"", st),
                            {"op": "foldfilter", "kind": "ill-formed-piece", "args": ["-w", str(width)] + extra + ["tee", "<file>"], "stdin_hex": hexs(data[:4000]),
                             "piece_hex": hexs(bad[0]) if bad else ""})
                break

    # ---- foldfilter on ILL-FORMED lines of every length relative to the width (shorter, width-1, width, width+1, longer;
    #      bad byte first / middle / last; default width too): it may stop with a diagnosed failure, but no ill-formed
    #      piece may reach the child and no ill-formed line may reach stdout
    ff_cases = []
    for width in (None, 5, 10, 16):
        wv = 80 if width is None else width
        for ln in sorted(set([1, 2, 3, wv - 2, wv - 1, wv, wv + 1, wv + 5, 2 * wv + 3])):
            if ln < 1:
                continue
            for bad in (b"\xff", b"\xc0\xaf", b"\xed\xa0\x80", b"\xe2\x82", b"\x80"):
                if len(bad) > ln:
                    continue
                for where in ("first", "middle", "last"):
                    fill = ln - len(bad)
                    k = 0 if where == "first" else (fill // 2 if where == "middle" else fill)
                    body = (b"abcdefghij" * 20)
                    ff_cases.append((width, body[:k] + bad + body[k:fill]))
    if c.tier == "quick":
        ff_cases = [x for i, x in enumerate(ff_cases) if i % 3 == 0 or len(x[1]) <= 12]
    for width, badline in ff_cases:
        seen_path = os.path.join(SCRATCH, "pieces_bad")
        os.makedirs(SCRATCH, exist_ok=True)
        if os.path.exists(seen_path):
            os.unlink(seen_path)
        data = b"fine line\n" + badline + b"\n" + b"fine again\n"
        args = ([] if width is None else ["-w", str(width)]) + (["-s"] if (len(badline) + len(data)) % 4 == 0 else [])
        st, so, se = run_tool([repo_bin("foldfilter")] + args + ["tee", seen_path], stdin=data, timeout=60)
        wv = 80 if width is None else width
        rel = "shorter" if len(badline) < wv else ("equal" if len(badline) == wv else "longer")
        c.count(("foldfilter-bad", width, badline), bucket="tool/foldfilter-ill-formed-line/" + rel + "-than-width")
        c.cov["traces_validated_against_impl"] += 1
        pieces = open(seen_path, "rb").read().split(b"\n") if os.path.exists(seen_path) else []
        bad_p = [p_ for p_ in pieces if not py_is_utf8(p_)]
        bad_o = [l_ for l_ in so.split(b"\n") if not py_is_utf8(l_)]
        if st == "timeout":
            c.violation("tool/foldfilter-hang: foldfilter %s hung on the ill-formed %d-byte line %r" % (" ".join(args), len(badline), badline),
                        {"op": "foldfilter", "kind": "hang", "args": args + ["tee", "<file>"], "stdin_hex": hexs(data)})
        elif bad_p or bad_o:
            c.violation("tool/foldfilter-ill-formed-forwarded: foldfilter %s forwarded the ill-formed %d-byte line %r (%s than the width %d) to %s instead of stopping (status %s)" % (
                " ".join(args), len(badline), badline, rel, wv, "its child" if bad_p else "stdout", st),
                {"op": "foldfilter", "kind": "ill-formed-forwarded", "args": args + ["tee", "<file>"], "stdin_hex": hexs(data),
                 "piece_hex": hexs(bad_p[0]) if bad_p else "", "stdout_hex": hexs(so[:2000]), "status": str(st),
                 "how": "printf '<stdin>' | bin/foldfilter %s tee /tmp/pieces | xxd" % " ".join(args)})
            break

    # ASan/UBSan build of the harness: buffers are exact-size heap blocks, so any read past `end` is reported
    asan_lines(c, "hx_utf8", lines if c.tier == "thorough" else lines[:70000] + lines[-3000:], "(exact-size heap buffers)")

    shutil.rmtree(SCRATCH, ignore_errors=True)
    return c.finish(level="proof",
                    rule="DecodeUTF8: every buffer of exactly 1, 2 and 3 bytes natively (2^8+2^16+2^24) and every 4-byte buffer with lead F0..F7 (quick) / all 2^32 (thorough) "
                         "against the model's 65,536-row pair table composed with the trail tests (theorem C12_window_composite), plus model-vs-implementation on all 1/2-byte buffers, "
                         "all (b0,b1) x boundary classes of (b2,b3), every truncation of boundary code points with following bytes, random buffers; IsUTF8/iterator: compositions of "
                         "boundary sequences with one ill-formed piece or cut; tool: remove_invalid_utf8 on generated files incl. CR, NUL, empty lines, missing final newline; commoncrawl_dedupe output; foldfilter pieces for well-formed lines and ill-formed lines shorter/equal/longer than the width. "
                         "Oracle: Python strict UTF-8 decoder. distinct = distinct non-empty inputs (sweep windows counted in evaluations only)",
                    assumptions=["bytes are Z in [0,256); char is signed (x86-64 g++), modelled by signed_char",
                                 "NotUTF8Exception = rejection; DecodeUTF8 is only called with a non-empty buffer (the iterator guarantees it)",
                                 "remove_invalid_utf8 reads records as specified by Base/Lines.v records (property C02)"])


if __name__ == "__main__":
    sys.exit(main(sys.argv[1:]))
