"""C10 -- field keys depend only on the selected fields (cut -f semantics):
preprocess/fields.hh RangeFields / IndividualFields, fields.cc ParseFields / DefragmentFields,
and dedupe -f / shard -f / cache -k on top."""
import itertools
import os
import re
import sys

sys.path.insert(0, os.path.join(os.path.dirname(os.path.abspath(__file__)), "..", "tools"))
from checklib import *  # noqa

SCRATCH = os.path.join(BUILD_ROOT, "scratch-C10")
INF = 4294967295
MAXN = INF - 1           # largest field number: the half-open end must stay below kInfiniteEnd


def hx(b):
    return hexs(b) if len(b) else "-"


# ------------------------------------------------------------------ oracles (independent of the model)
ITEM = re.compile(rb"(\d+)(?:(-)(\d+)?)?|(-)(\d+)?")


def cut_parse(spec):
    """the cut grammar of the property: LIST = range (',' range)*, range = N | N-M | N- | -M | - ;
    1 <= N <= M <= 2^32-2.  Returns half-open 0-based ranges in list order, or None."""
    if spec == b"":
        return None
    out = []
    for item in spec.split(b","):
        m = ITEM.fullmatch(item)
        if not m:
            return None
        if m.group(4):                     # -M | -
            lo = 1
            hi = int(m.group(5)) if m.group(5) else None
        else:
            lo = int(m.group(1))
            hi = lo if not m.group(2) else (int(m.group(3)) if m.group(3) else None)
        for v in (lo, hi):
            if v is not None and not 1 <= v <= MAXN:
                return None
        if hi is not None and hi < lo:
            return None
        out.append((lo - 1, INF if hi is None else hi))
    return out


def canonical(ranges):
    """sorted, adjacent merged; None when two ranges overlap"""
    rs = sorted(ranges)
    out = []
    for b, e in rs:
        if out and b < out[-1][1]:
            return None
        if out and b == out[-1][1]:
            out[-1] = (out[-1][0], e)
        else:
            out.append((b, e))
    return out


def show_ranges(rs):
    return ("OK " + " ".join("%d:%s" % (b, "inf" if e == INF else e) for b, e in rs)).strip()


def cut_pieces(line, delim, rs):
    """one piece per range that selects an existing field: those fields joined by the delimiter"""
    fields = line.split(delim)
    out = []
    for b, e in rs:
        sel = fields[b:e]
        if sel:
            out.append(delim.join(sel))
    return out


def cut_individual(line, delim, rs):
    fields = line.split(delim)
    out = []
    for b, e in rs:
        out += fields[b:e]
    return out


def contains_all(line, delim, rs):
    n = len(line.split(delim))
    return all((b < n) if e == INF else (e <= n) for b, e in rs)


def selected(line, delim, rs):
    fields = line.split(delim)
    return [fields[b:e] for b, e in rs]


def branch(line, delim, rs):
    """which exits of the RangeFields loops the case takes (the case split of loop_spec)"""
    n = len(line.split(delim))
    for b, e in rs:
        if b >= n:
            return "skip-returns"
        if e == INF:
            return "open-range"
        if e >= n:
            return "line-ends-in-range"
    return "all-ranges-closed-by-delimiter" if rs else "no-range"


def shape(line, delim, rs):
    n = len(line.split(delim))
    need = max([(b + 1) if e == INF else e for b, e in rs] or [0])
    s = "fewer" if n < need else ("exact" if n == need else "more")
    if line.endswith(delim):
        s += "+trailing-delim"
    if line == b"":
        s = "empty-line"
    return s


MASK64 = (1 << 64) - 1


def murmur64a_py(data, seed):
    """reference MurmurHash64A (as in checks/C14.py), used to predict which shard a key goes to"""
    import struct
    M, R = 0xc6a4a7935bd1e995, 47
    h = (seed ^ (len(data) * M)) & MASK64
    n = len(data) // 8
    for k in struct.unpack_from("<%dQ" % n, data):
        k = (k * M) & MASK64
        k ^= k >> R
        k = (k * M) & MASK64
        h ^= k
        h = (h * M) & MASK64
    tail = data[n * 8:]
    if tail:
        h ^= int.from_bytes(tail, "little")
        h = (h * M) & MASK64
    h ^= h >> R
    h = (h * M) & MASK64
    h ^= h >> R
    return h


# ------------------------------------------------------------------ generators
def all_small_lists():
    """every list of <= 3 ranges over field numbers <= 4"""
    rng1 = []
    for n in range(1, 5):
        rng1.append(b"%d" % n)
        rng1.append(b"%d-" % n)
        rng1.append(b"-%d" % n)
        for m in range(n, 5):
            rng1.append(b"%d-%d" % (n, m))
    rng1.append(b"-")
    out = []
    for k in (1, 2, 3):
        for combo in itertools.product(rng1, repeat=k):
            out.append(b",".join(combo))
    return out


MALFORMED = [b"", b"0", b"00", b"1,", b",1", b"1,,2", b",", b",,", b" 1", b"1 ", b"1 2", b"1, 2", b"\t1", b"+1", b"-1-", b"2-3-1", b"1--2", b"--", b"--1",
             b"-,-", b"a", b"1a", b"a1", b"1-a", b"1,a", b"01", b"001-002", b"1-1", b"2-2", b"3-2", b"0-1", b"1-0", b"-0", b"0-", b"0,1",
             b"4294967293", b"4294967294", b"4294967295", b"4294967296", b"4294967297", b"18446744073709551615", b"18446744073709551616",
             b"18446744073709551617", b"99999999999999999999999", b"1-4294967294", b"1-4294967295", b"1-4294967296", b"-4294967294", b"-4294967295",
             b"4294967294-", b"4294967295-", b"4294967296-", b"4294967294,4294967293", b"4294967293-4294967294,1", b"-1", b"-1,2", b"-2,2-", b"1-,3",
             b"1-2,2-3", b"1,1", b"2,1", b"3,1-2,7-", b"1-3,9,12-", b"1.5", b"1;2", b"1-2-", b"1-2,", b"-,", b",-", b"5-,1-2", b"0x10", b"1e3", b"\xc2\xb9",
             b"1\n", b"1,2,3,4,5,6,7,8,9,10", b"10,9,8,7,6,5,4,3,2,1", b"1-2,3-4,5-6", b"2-3,1,4-", b"-1-2", b"1-2-3"]


def selections():
    """31 non-empty selections over fields {1,2,3,4,5-} as canonical list strings"""
    out = []
    for mask in range(1, 32):
        items = [b"%d" % (i + 1) for i in range(4) if mask >> i & 1] + ([b"5-"] if mask >> 4 & 1 else [])
        out.append(b",".join(items))
    return out


def gen_range_cases(c):
    rng = c.rng
    cases = []   # (delim byte, list, line)
    maxlen = 7 if c.volume == "quick" else 9
    alpha = [ord("a"), ord("b"), 9]
    lines = [b""]
    for n in range(1, maxlen + 1):
        for t in itertools.product(alpha, repeat=n):
            lines.append(bytes(t))
    sels = selections()
    if c.volume == "quick":
        # every line with every selection up to length 6; length-7 lines with a rotating third of the selections
        for i, l in enumerate(lines):
            for j, s in enumerate(sels):
                if len(l) <= 6 or (i + j) % 3 == 0:
                    cases.append((9, s, l))
    else:
        for l in lines:
            for s in sels:
                cases.append((9, s, l))
    # other lists (ranges, open ranges, unsorted, adjacent) on all lines up to length 5 + random longer ones
    others = [b"-", b"1-", b"2-", b"-2", b"2-3", b"1-2,4", b"3,1", b"2,1,3", b"1-2,3-4", b"-1,3-", b"2-4", b"4-", b"1,2-3,5-", b"3-", b"2,4-"]
    for l in lines:
        if len(l) <= 5:
            for s in others:
                cases.append((9, s, l))
    # every delimiter byte 0..255: all lines over {x, delimiter} up to length 4 (x differs from the delimiter)
    for d in range(256):
        x = 120 if d != 120 else 121
        for n in range(0, 5):
            for t in itertools.product((x, d), repeat=n):
                for s in ((b"2", b"1,3", b"2-") if c.volume == "quick" else (b"1", b"2", b"1,3", b"2-", b"-2", b"2-3")):
                    cases.append((d, s, bytes(t)))
    # many fields: field numbers around 2^8 and 2^16 (an index kept in a narrower type would wrap)
    for nf in (300, 70000):
        fields = [bytes([97 + (i % 26)]) + (b"%d" % i if i % 1000 == 0 else b"") for i in range(nf)]
        for d in (9, 44):
            line = bytes([d]).join(fields)
            for s in ([b"255", b"256", b"257", b"255-257", b"1,256", b"300", b"301", b"299-", b"2,257-258,300"] if nf == 300 else
                      [b"65535", b"65536", b"65537", b"65535-65537", b"1,65536", b"70000", b"70001", b"69999-", b"256,65536-65537"]):
                cases.append((d, s, line))
                cases.append((d, s, line + bytes([d])))
    # random: longer lines, other delimiters (incl. bytes >= 0x80), larger field numbers, multi-byte content
    delims = [9, 32, 44, 0x7C, 0xFF, 0x80, 1]
    for _ in range(4000 if c.volume == "quick" else 40000):
        d = rng.choice(delims)
        nf = rng.randrange(1, 14)
        fields = []
        for _ in range(nf):
            k = rng.choice((0, 0, 1, 1, 2, 3, 8))
            fields.append(bytes(rng.choice([x for x in (97, 98, 0xC3, 0xA9, 32, 9, 44, 0xFF) if x != d]) for _ in range(k)))
        line = bytes([d]).join(fields)
        r = rng.random()
        if r < 0.3:
            s = rng.choice(sels + others)
        else:
            items = []
            for _ in range(rng.randrange(1, 4)):
                a = rng.randrange(1, 15)
                k = rng.random()
                items.append(b"%d" % a if k < 0.4 else (b"%d-%d" % (a, a + rng.randrange(0, 4)) if k < 0.7 else (b"%d-" % a if k < 0.85 else b"-%d" % a)))
            s = b",".join(items)
        cases.append((d, s, line))
    return cases


def gen_pairs(c):
    """line pairs for the tools: (list, delim, l1, l2, same_selected)"""
    rng = c.rng
    out = []
    specs = [b"1", b"2", b"3", b"1-2", b"2-3", b"1,3", b"2-", b"-2", b"2,4-", b"1-", b"3,1",
             b"1,3-", b"3-,1", b"-1,3-", b"1,4-", b"1-2,4-", b"5,1,3", b"1,3,5-"]       # gapped lists that start at field 1 and end open
    fixed = [  # the shapes named in the property
        (b"2", 9, b"a\tb", b"x\tb\t", True), (b"2", 9, b"a\tb", b"x\tb\tc", True), (b"2", 9, b"a\t", b"b\t\tc", True),
        (b"2", 9, b"a\t", b"b\t\t", True), (b"2", 9, b"a\tb", b"a\tb\t\t", True), (b"1", 9, b"k", b"k\t", True), (b"1", 9, b"", b"\tzzz", True),
        (b"2-3", 9, b"a\tb\t", b"x\tb\t\ty", True), (b"2-3", 9, b"a\tb\t", b"a\tb", False), (b"2", 9, b"a\tb", b"a\tb ", False),
        (b"1,3", 9, b"a\tb\tc", b"a\tB\tc\t", True), (b"1,3", 9, b"a\tb\tc", b"a\tb\tC", False), (b"2-", 9, b"a\tb\t", b"a\tb", False),
        (b"1-2", 32, b"ab c d", b"a bc d", False), (b"1-2", 32, b"ab c d", b"ab c", True), (b"1-2", 32, b"ab c ", b"ab c", True),
        # an empty selected field in different positions is a different selection
        (b"1,3", 9, b"a\tx\t", b"\ty\ta", False), (b"1,3", 9, b"a\tx\t", b"a\tz\t\tmore", True), (b"3,1", 9, b"\tq\tb", b"b\tq\t", False),
        (b"5,1,3", 44, b"x,q,,q,y", b",q,x,q,y", False), (b"5,1,3", 44, b"x,q,,q,y", b"x,q,y,q,", False), (b"5,1,3", 44, b"x,q,,q,y", b"x,r,,r,y,tail", True),
        (b"2,4", 9, b"k\t\tk\tv", b"k\tv\tk\t", False),
        # gapped lists that start at field 1 and end with an open range: the unselected middle never matters
        (b"1,3-", 9, b"a\tX\tc\td", b"a\tY\tc\td", True), (b"3-,1", 9, b"a\tX\tc", b"a\t\tc", True), (b"-1,3-", 9, b"a\tX\tc\td", b"a\tY\tc\td", True),
        (b"1,4-", 9, b"a\tX\tQ\td", b"a\tY\tR\td", True), (b"1,3-", 32, b"a X c d", b"a  c d", True), (b"1,3-", 9, b"a\tX\tc\td", b"a\tX\tc\te", False),
        (b"1,3,4-", 9, b"a\tX\tc\td", b"a\tZZ\tc\td", True), (b"1-1,4-", 9, b"a\tX\tQ\td\tmore", b"a\tY\tR\td\tmore", True),
    ]
    out += fixed
    for _ in range(60 if c.volume == "quick" else 600):
        spec = rng.choice(specs)
        rs = canonical(cut_parse(spec))
        d = rng.choice((9, 32, 44))
        need = max((b + 1) if e == INF else e for b, e in rs)
        nf = need + rng.choice((0, 0, 1, 2))
        f1 = [bytes(rng.choice(b"abc") for _ in range(rng.choice((0, 1, 1, 2, 3)))) for _ in range(nf)]
        f2 = list(f1)
        selidx = set()
        for b, e in rs:
            selidx |= set(range(b, min(e, nf + 6)))
        same = rng.random() < 0.6
        has_open = any(e == INF for b, e in rs)
        if same:
            # change unselected fields; add / remove unselected fields behind the last selected one
            for i in range(nf):
                if i not in selidx and rng.random() < 0.7:
                    f2[i] = bytes(rng.choice(b"xyz") for _ in range(rng.choice((0, 1, 2))))
            if not has_open:
                f2 = f2[:need] + [rng.choice((b"", b"", b"q")) for _ in range(rng.choice((0, 1, 1, 2)))]
        else:
            cand = [i for i in sorted(selidx) if i < nf]
            i = rng.choice(cand)
            f2[i] = f2[i] + b"z" if rng.random() < 0.7 or not f2[i] else f2[i][:-1]
        dl = bytes([d])
        l1, l2 = dl.join(f1), dl.join(f2)
        if not (contains_all(l1, dl, rs) and contains_all(l2, dl, rs)):
            continue
        out.append((spec, d, l1, l2, selected(l1, dl, rs) == selected(l2, dl, rs)))
    return out


def load_replay(c):
    if not c.replay:
        return None
    body = json.load(open(c.replay))
    return body.get("replay") if isinstance(body.get("replay"), dict) else None


def main(argv):
    c = Check("C10", argv)
    c.volume = c.tier     # generator volume; raised to thorough when the translator could only keep old constants
    ok, blog = build_repo(["hx_fields", "dedupe", "shard", "cache"])
    if not ok:
        c.broken.append("build of repo working tree failed: " + blog[-800:])
        return c.finish(rule="build failed")
    c.proofs(only=["fields", "murmur"])
    from gen.fallback import shape_note
    note = shape_note("Src_fields.v")
    if note:
        c.assumptions.append("translator: the shape of the anchored code changed (" + note[:300] + "); the tie of the model to the code rests on the correspondence run below")
        log("  note: " + note[:300])
        c.volume = "thorough"   # the shape of the code changed: the tie rests on the correspondence run, so make it the big one
    if c.tier == "thorough":
        coqchk(c)
    # cross-property instances (Fields/KeyInstances.v plugs the real key functions into the C01 / C06 / C04 tool models);
    # recorded in the evidence, not one of C10's own obligations (it also depends on other properties' model files)
    ok_inst, ilog = coq_make(["theories/Fields/KeyInstances.vo"], timeout=900)
    c.cov["key_instances_for_C01_C06_C04"] = "compiled" if ok_inst else ("FAILED: " + " ".join(ilog.split())[-300:])
    if not ok_inst:
        log("  note: Fields/KeyInstances.v did not compile: " + " ".join(ilog.split())[-300:])
    drv, dlog = build_driver("C10")
    impl = hx_bin("hx_fields")
    os.makedirs(SCRATCH, exist_ok=True)
    rng = c.rng

    # ---------------- cases
    lists = all_small_lists() + MALFORMED
    alphabet = b"0123456789,,--  +a"
    for _ in range(3000 if c.volume == "quick" else 30000):
        lists.append(bytes(rng.choice(alphabet[:14] if rng.random() < 0.8 else alphabet) for _ in range(rng.randrange(1, 9))))
    lists = [l for l in lists if b"\0" not in l and b"\n" not in l or l == b"1\n"]
    rcases = gen_range_cases(c)
    rp = load_replay(c)
    rp_pair = None
    if rp is not None:       # --replay: the recorded case is evaluated first, then the normal run
        if rp.get("op") in ("ParseFields", "DefragmentFields") and rp.get("list") is not None:
            lists.insert(0, rp["list"].encode("latin1"))
        if rp.get("op") in ("RangeFields", "IndividualFields") and rp.get("line_hex") is not None:
            rcases.insert(0, (int(rp["delim"]), rp["list"].encode("latin1"), bytes.fromhex(rp["line_hex"])))
        if rp.get("kind") == "pair" and rp.get("stdin_hex"):
            ls = bytes.fromhex(rp["stdin_hex"]).split(b"\n")
            a = rp["args"]
            if len(ls) >= 2:
                dl = a[3].encode("latin1")
                rs = canonical(cut_parse(a[1].encode("latin1")) or []) or []
                rp_pair = (a[1].encode("latin1"), dl[0], ls[0], ls[1], selected(ls[0], dl, rs) == selected(ls[1], dl, rs))
    plines = ["Q " + hx(l) for l in lists] + ["P " + hx(l) for l in lists]
    rlines = ["R %d %s %s" % (d, hx(s), hx(l)) for d, s, l in rcases]
    vsel = [x for i, x in enumerate(rcases) if i % 4 == 0]
    vlines = ["V %d %s %s" % (d, hx(s), hx(l)) for d, s, l in vsel]
    ksel = [x for i, x in enumerate(rcases) if i % 97 == 0]
    kseeds = [seed for _, seed in zip(ksel, itertools.cycle((1, 47849374332489, 0)))]
    # engineered key cases: for lists with several non-adjacent ranges, every combination of selected fields over
    # {"", "a", "b"} (an EMPTY selected field in every position), unselected fields random, optional extra fields
    keyfam = []       # (family id, delim, list, line, seed)
    fam = 0
    for spec, d in ((b"1,3", 9), (b"3,1", 9), (b"5,1,3", 44), (b"1,3-", 9), (b"-1,3-4,6", 32), (b"2,4", 9), (b"1-2,4", 9)):
        rs = canonical(cut_parse(spec))
        dl = bytes([d])
        idx = sorted(set(i for b, e in rs for i in range(b, min(e, b + 2))))
        nf = max(idx) + 1
        for seed in (1, 47849374332489):
            fam += 1
            for combo in itertools.product((b"", b"a", b"b"), repeat=len(idx)):
                for variant in range(2):
                    fields = [bytes(rng.choice(b"xyz") for _ in range(rng.choice((0, 1, 2)))) for _ in range(nf)]
                    for i, v in zip(idx, combo):
                        fields[i] = v
                    if variant and not any(e == INF for b, e in rs):
                        fields += [rng.choice((b"", b"q"))]
                    keyfam.append((fam, d, spec, dl.join(fields), seed))
    for f_, d, spec, l, seed in keyfam:
        ksel.append((d, spec, l))
        kseeds.append(seed)
    klines = ["K %d %d %s %s" % (seed, d, hx(s), hx(l)) for (d, s, l), seed in zip(ksel, kseeds)]
    lines = plines + rlines + vlines + klines
    for l in lists:
        p = cut_parse(l)
        cn = canonical(p) if p is not None else None
        c.count(("P", l), nontrivial=len(l) > 0, bucket="list/" + ("malformed" if p is None else ("overlapping" if cn is None else ("merged" if len(cn) < len(p) else "plain"))))
    for d, s, l in rcases:
        rs = canonical(cut_parse(s) or []) or []
        c.count(("R", d, s, l), nontrivial=len(l) > 0, bucket="range/" + shape(l, bytes([d]), rs))
        bk = "branch/" + branch(l, bytes([d]), rs)
        c.cov["distribution"][bk] = c.cov["distribution"].get(bk, 0) + 1
    c.sample({"op": "P", "list": lists[200].decode("latin1")})
    c.sample({"op": "R", "delim": rcases[5000][0], "list": rcases[5000][1].decode(), "line": repr(rcases[5000][2])})
    c.sample({"op": "R", "delim": rcases[-1][0], "list": rcases[-1][1].decode(), "line": repr(rcases[-1][2])})

    # ---------------- correspondence: extracted model vs implementation
    if drv is None:
        c.broken.append("extraction/driver build failed: " + dlog[-600:])
    else:
        correspond(c, "fields model vs preprocess/fields.hh + fields.cc", drv, impl, ["C"] + lines, chunk=100000)

    # ---------------- direct oracle on the implementation: cut semantics
    rc, out, err = run_lines(impl, lines)
    if len(out) != len(lines):
        c.broken.append("harness hx_fields died: rc=%s after %d of %d cases %s" % (rc, len(out), len(lines), err[-300:]))
        if len(out) < len(lines):
            l = lines[len(out)]
            c.violation("crash: hx_fields died (status %s) on case %s" % (rc, l[:200]), {"op": "harness", "case": l, "status": str(rc)})
    else:
        nl = len(lists)
        for l, oq, op in zip(lists, out[:nl], out[nl:2 * nl]):
            p = cut_parse(l)
            wantq = "ERR" if p is None else show_ranges(p)
            cn = canonical(p) if p is not None else None
            wantp = "ERR" if cn is None else show_ranges(cn)
            if oq != wantq:
                kind = "malformed-list-accepted" if p is None else ("valid-list-rejected" if oq == "ERR" else "wrong-ranges")
                c.violation("parse/%s: ParseFields(%r) gave %s; the cut grammar says %s" % (kind, l, oq, wantq),
                            {"op": "ParseFields", "kind": kind, "list": l.decode("latin1"), "list_hex": hexs(l), "impl": oq, "expected": wantq,
                             "how": "dedupe -f '%s' </dev/null ; echo 'Q %s' | hx_fields" % (l.decode("latin1"), hx(l))})
            elif op != wantp:
                kind = "overlap-accepted" if cn is None else ("valid-list-rejected" if op == "ERR" else "wrong-merge")
                c.violation("defragment/%s: ParseFields+DefragmentFields(%r) gave %s; expected %s" % (kind, l, op, wantp),
                            {"op": "DefragmentFields", "kind": kind, "list": l.decode("latin1"), "impl": op, "expected": wantp})
        base = 2 * nl
        for (d, s, l), o in zip(rcases, out[base:base + len(rcases)]):
            p = cut_parse(s)
            rs = canonical(p) if p is not None else None
            if rs is None:
                want = "ERR"
            else:
                want = ("OK " + " ".join(hx(x) for x in cut_pieces(l, bytes([d]), rs))).strip()
            if o != want:
                dl = bytes([d])
                kind = "pieces"
                if rs is not None and l.endswith(dl):
                    kind = "trailing-delimiter"
                if rs is not None and o == "OK" and want != "OK":
                    kind = "empty-last-field-no-callback" if l.endswith(dl) else "missing-callback"
                c.violation("range-fields/%s: RangeFields(line %r, -f %s, -d %r) called back with %s; cut semantics (fields %r) give %s" % (
                    kind, l, s.decode(), dl, o, l.split(dl), want),
                    {"op": "RangeFields", "kind": kind, "line_hex": hexs(l), "list": s.decode(), "delim": d, "impl": o, "expected": want,
                     "how": "echo 'R %d %s %s' | hx_fields" % (d, hx(s), hx(l))})
        base += len(rcases)
        # keys: the value HashCallback ends with must be the fold of reference MurmurHash64A over the cut pieces
        # (an empty piece is a piece), and within a family keys are equal exactly when the selected fields are
        kout = out[base + len(vsel):base + len(vsel) + len(ksel)]
        for (d, s, l), seed, o in zip(ksel, kseeds, kout):
            p = cut_parse(s)
            rs = canonical(p) if p is not None else None
            if rs is None:
                want = "ERR"
            else:
                h = seed
                for piece in cut_pieces(l, bytes([d]), rs):
                    h = murmur64a_py(piece, h)
                want = str(h)
            c.count(("K", seed, d, s, l), nontrivial=len(l) > 0, bucket="key/" + ("has-empty-selected-field" if rs and b"" in [x for sel in selected(l, bytes([d]), rs) for x in sel] else "no-empty-selected-field"))
            if o != want:
                c.violation("key/value: HashCallback(seed %d) over RangeFields(line %r, -f %s, -d %r) ended with %s; the left fold of MurmurHash64A over the cut pieces %r is %s" % (
                    seed, l, s.decode(), bytes([d]), o, cut_pieces(l, bytes([d]), rs) if rs else None, want),
                    {"op": "HashCallback", "kind": "key-value", "seed": seed, "line_hex": hexs(l), "list": s.decode(), "delim": d, "impl": o, "expected": want,
                     "how": "echo 'K %d %d %s %s' | hx_fields" % (seed, d, hx(s), hx(l))})
        famkeys = {}
        for (f_, d, spec, l, seed), o in zip(keyfam, kout[len(ksel) - len(keyfam):]):
            rs = canonical(cut_parse(spec))
            sel = tuple(tuple(x) for x in selected(l, bytes([d]), rs))
            famkeys.setdefault(f_, []).append((sel, o, l, d, spec, seed))
        for f_, items in famkeys.items():
            by_key, by_sel = {}, {}
            for sel, o, l, d, spec, seed in items:
                if o in by_key and by_key[o][0] != sel:
                    l0 = by_key[o][1]
                    c.violation("key/different-selected-same-key: -f %s -d %r: lines %r and %r have different selected fields %r / %r but the same key %s" % (
                        spec.decode(), bytes([d]), l0, l, by_key[o][0], sel, o),
                        {"op": "HashCallback", "kind": "key-collision", "seed": seed, "list": spec.decode(), "delim": d, "line1_hex": hexs(l0), "line2_hex": hexs(l), "key": o,
                         "how": "printf '<line1>\\n<line2>\\n' | dedupe -f %s -d '<delim>'   (must print both lines)" % spec.decode()})
                    break
                by_key.setdefault(o, (sel, l))
                if sel in by_sel and by_sel[sel][0] != o:
                    c.violation("key/same-selected-different-key: -f %s: lines %r and %r have the same selected fields but keys %s / %s" % (spec.decode(), by_sel[sel][1], l, by_sel[sel][0], o),
                                {"op": "HashCallback", "kind": "key-split", "seed": seed, "list": spec.decode(), "delim": d, "line1_hex": hexs(by_sel[sel][1]), "line2_hex": hexs(l)})
                    break
                by_sel.setdefault(sel, (o, l))
        for (d, s, l), o in zip(vsel, out[base:base + len(vsel)]):
            p = cut_parse(s)
            rs = canonical(p) if p is not None else None
            want = "ERR" if rs is None else ("OK " + " ".join(hx(x) for x in cut_individual(l, bytes([d]), rs))).strip()
            if o != want:
                c.violation("individual-fields: IndividualFields(line %r, -f %s, -d %r) called back with %s; cut semantics give %s" % (l, s.decode(), bytes([d]), o, want),
                            {"op": "IndividualFields", "kind": "individual", "line_hex": hexs(l), "list": s.decode(), "delim": d, "impl": o, "expected": want})

    # ASan/UBSan build of the harness: the line is an exact-size heap copy, pieces outside it or reads past it are reported
    asan_lines(c, "hx_fields", lines if c.volume == "thorough" else lines[::3], "(exact-size heap copy of the line)")

    # ---------------- tool level: the key relation on line pairs
    pairs = gen_pairs(c)
    if rp_pair is not None:
        pairs.insert(0, rp_pair)
    for spec, d, l1, l2, same in pairs:
        dl = bytes([d])
        data = l1 + b"\n" + l2 + b"\n"
        c.count(("pair", spec, d, l1, l2), bucket="tool/pair/" + ("same-selected" if same else "different-selected") + ("+trailing" if l1.endswith(dl) or l2.endswith(dl) else ""))
        dargs = ["-f", spec.decode()] + ([] if d == 9 and len(l1) % 2 == 0 else ["-d", dl.decode("latin1")])   # TAB is the default
        st, so, se = run_tool([repo_bin("dedupe")] + dargs, stdin=data, timeout=60)
        c.cov["traces_validated_against_impl"] += 1
        want = l1 + b"\n" if same else data
        if l1 == l2:
            want = l1 + b"\n"
        if st != 0 or so != want:
            c.violation("tool/dedupe-key: dedupe -f %s -d %r on lines %r and %r printed %r (status %s); their selected fields are %s so the second line must be %s" % (
                spec.decode(), dl, l1, l2, so, st, "identical" if same else "different", "dropped" if same else "kept"),
                {"op": "dedupe", "kind": "pair", "args": ["-f", spec.decode(), "-d", dl.decode("latin1")], "actual_args": dargs, "stdin_hex": hexs(data), "stdout_hex": hexs(so), "expected_hex": hexs(want)})
    # dedupe in parallel mode (four files) uses the same field keys on both sides: with all-distinct right lines the
    # second pair is kept exactly when the left lines' selected fields differ
    for n_, (spec, d, l1, l2, same) in enumerate(pairs[:30 if c.volume == "quick" else 200]):
        dl = bytes([d])
        if l1 == l2:
            continue
        need = 12
        r1 = dl.join(b"r1f%d" % j for j in range(need))
        r2 = dl.join(b"r2f%d" % j for j in range(need))
        fl, fr, ol, orr = [os.path.join(SCRATCH, x) for x in ("par_l", "par_r", "par_lo", "par_ro")]
        open(fl, "wb").write(l1 + b"\n" + l2 + b"\n")
        open(fr, "wb").write(r1 + b"\n" + r2 + b"\n")
        st, so, se = run_tool([repo_bin("dedupe"), "-f", spec.decode(), "-d", dl.decode("latin1"), fl, fr, ol, orr], timeout=60)
        c.count(("parallel", spec, d, l1, l2), bucket="tool/dedupe-parallel")
        c.cov["traces_validated_against_impl"] += 1
        gl = open(ol, "rb").read() if os.path.exists(ol) else b""
        gr = open(orr, "rb").read() if os.path.exists(orr) else b""
        wl = l1 + b"\n" + (b"" if same else l2 + b"\n")
        wr = r1 + b"\n" + (b"" if same else r2 + b"\n")
        if st != 0 or gl != wl or gr != wr:
            c.violation("tool/dedupe-parallel-key: dedupe -f %s -d %r in_l in_r out_l out_r with left lines %r, %r (selected fields %s) wrote left %r right %r (status %s)" % (
                spec.decode(), dl, l1, l2, "identical" if same else "different", gl, gr, st),
                {"op": "dedupe", "kind": "parallel", "args": ["-f", spec.decode(), "-d", dl.decode("latin1"), "in_l", "in_r", "out_l", "out_r"],
                 "left_hex": hexs(l1 + b"\n" + l2 + b"\n"), "right_hex": hexs(r1 + b"\n" + r2 + b"\n"), "out_left_hex": hexs(gl), "expected_left_hex": hexs(wl)})
            break

    for spec, d, l1, l2, same in pairs[:40 if c.volume == "quick" else 300]:
        dl = bytes([d])
        data = l1 + b"\n" + l2 + b"\n"
        cargs = ["-k", spec.decode()] + ([] if d == 9 and len(l1) % 2 == 1 else ["-t", dl.decode("latin1")])
        st, so, se = run_tool([repo_bin("cache")] + cargs + ["cat"], stdin=data, timeout=60)
        c.cov["traces_validated_against_impl"] += 1
        c.count(("cache-pair", spec, d, l1, l2), bucket="tool/cache-pair")
        want = l1 + b"\n" + (l1 if same else l2) + b"\n"
        if st != 0 or so != want:
            c.violation("tool/cache-key: cache -k %s -t %r cat on lines %r and %r printed %r (status %s); selected fields are %s" % (
                spec.decode(), dl, l1, l2, so, st, "identical" if same else "different"),
                {"op": "cache", "kind": "pair", "args": ["-k", spec.decode(), "-t", dl.decode("latin1"), "cat"], "stdin_hex": hexs(data), "stdout_hex": hexs(so), "expected_hex": hexs(want)})
        # shard: same selected fields -> same file
        if same:
            outs = [os.path.join(SCRATCH, "s%d" % i) for i in range(5)]
            st, so, se = run_tool([repo_bin("shard"), "-f", spec.decode(), "-d", dl.decode("latin1")] + outs, stdin=data, timeout=60)
            c.cov["traces_validated_against_impl"] += 1
            where = [i for i, o in enumerate(outs) if os.path.exists(o) and os.path.getsize(o) > 0]
            if st != 0 or len(where) != 1:
                c.violation("tool/shard-key: shard -f %s -d %r put lines %r and %r (identical selected fields) into files %s (status %s)" % (spec.decode(), dl, l1, l2, where, st),
                            {"op": "shard", "kind": "pair", "args": ["-f", spec.decode(), "-d", dl.decode("latin1")], "stdin_hex": hexs(data), "files": where})
    # shard -f: the file a line lands in is hash_fold(seed, cut pieces) mod n -- also for lines with trailing / empty fields
    SHARD_SEED = 47849374332489
    for spec, d, nsh in ((b"2", 9, 5), (b"1,3", 9, 4), (b"2-", 32, 3), (b"-2", 44, 7), (b"2,4-", 9, 6), (b"3,1", 9, 5), (b"2,1", 32, 4), (b"4-,1-2", 9, 3)):
        dl = bytes([d])
        rs = canonical(cut_parse(spec))
        batch = []
        for _ in range(30 if c.volume == "quick" else 300):
            nf = rng.randrange(1, 7)
            batch.append(dl.join(bytes(rng.choice(b"abc") for _ in range(rng.choice((0, 0, 1, 2)))) for _ in range(nf)))
        batch = [l for l in dict.fromkeys(batch)]
        outs = [os.path.join(SCRATCH, "p%d" % i) for i in range(nsh)]
        for o in outs:
            if os.path.exists(o):
                os.unlink(o)
        st, so, se = run_tool([repo_bin("shard"), "-f", spec.decode(), "-d", dl.decode("latin1")] + outs, stdin=b"".join(l + b"\n" for l in batch), timeout=60)
        if st != 0:
            c.violation("tool/shard-status: shard -f %s ended with %s" % (spec.decode(), st), {"op": "shard", "kind": "status", "args": ["-f", spec.decode()], "status": str(st)})
            continue
        got = {}
        for i, o in enumerate(outs):
            for l in open(o, "rb").read().split(b"\n")[:-1]:
                got.setdefault(l, set()).add(i)
        for l in batch:
            h = SHARD_SEED
            for piece in cut_pieces(l, dl, rs):
                h = murmur64a_py(piece, h)
            c.count(("shard-place", spec, d, l), bucket="tool/shard-placement/" + shape(l, dl, rs))
            c.cov["traces_validated_against_impl"] += 1
            if got.get(l) != {h % nsh}:
                c.violation("tool/shard-placement: shard -f %s -d %r put line %r into file(s) %s; the fold over its cut pieces %r mod %d is %d" % (
                    spec.decode(), dl, l, sorted(got.get(l, [])), cut_pieces(l, dl, rs), nsh, h % nsh),
                    {"op": "shard", "kind": "placement", "args": ["-f", spec.decode(), "-d", dl.decode("latin1"), "<%d outputs>" % nsh], "line_hex": hexs(l),
                     "impl_files": sorted(got.get(l, [])), "expected_file": h % nsh})
                break

    # defaults: without -f / -k the whole line is the key (and TAB the delimiter)
    dflt = b"a\tb\na\tc\na\tb\na\tb\t\n \ta\tb\n"
    st, so, se = run_tool([repo_bin("dedupe")], stdin=dflt, timeout=60)
    c.count(("default", "dedupe"), bucket="tool/default-key")
    c.cov["traces_validated_against_impl"] += 1
    if st != 0 or so != b"a\tb\na\tc\na\tb\t\n \ta\tb\n":
        c.violation("tool/default-key: dedupe without -f must use the whole line as the key: printed %r for %r (status %s)" % (so, dflt, st),
                    {"op": "dedupe", "kind": "default-key", "args": [], "stdin_hex": hexs(dflt), "stdout_hex": hexs(so)})
    st, so, se = run_tool([repo_bin("cache"), "cat"], stdin=dflt, timeout=60)
    c.count(("default", "cache"), bucket="tool/default-key")
    c.cov["traces_validated_against_impl"] += 1
    if st != 0 or so != dflt:
        c.violation("tool/default-key: cache without -k must use the whole line as the key: `cache cat` printed %r for %r (status %s)" % (so, dflt, st),
                    {"op": "cache", "kind": "default-key", "args": ["cat"], "stdin_hex": hexs(dflt), "stdout_hex": hexs(so)})
    st, so, se = run_tool([repo_bin("dedupe"), "-f", "2"], stdin=dflt, timeout=60)     # default delimiter TAB
    if st != 0 or so != b"a\tb\na\tc\n \ta\tb\n":
        c.violation("tool/default-delimiter: dedupe -f 2 (TAB by default) printed %r for %r (status %s)" % (so, dflt, st),
                    {"op": "dedupe", "kind": "default-delimiter", "args": ["-f", "2"], "stdin_hex": hexs(dflt), "stdout_hex": hexs(so)})

    # malformed lists at the command line: an error, not a run
    for bad in (b"0", b"2-3-1", b" 1", b"4294967297", b"1,", b"", b"1-2,2-3", b"3-2", b"+1", b"a"):
        for tool, flag in (("dedupe", "-f"), ("shard", "-f")):
            args = [repo_bin(tool), flag, bad.decode()] + ([os.path.join(SCRATCH, "x0"), os.path.join(SCRATCH, "x1")] if tool == "shard" else [])
            st, so, se = run_tool(args, stdin=b"a\tb\n", timeout=60)
            c.count(("reject", tool, bad), bucket="tool/malformed-list")
            c.cov["traces_validated_against_impl"] += 1
            if st == 0:
                c.violation("tool/malformed-list-accepted: %s %s '%s' ran to exit status 0 (output %r) instead of rejecting the list" % (tool, flag, bad.decode(), so[:60]),
                            {"op": tool, "kind": "malformed-list", "args": [flag, bad.decode()], "stdin": "a\\tb\\n", "status": st, "stdout_hex": hexs(so)})

    shutil.rmtree(SCRATCH, ignore_errors=True)
    return c.finish(level="proof",
                    rule="RangeFields: every line over {a,b,TAB} up to length 7 (thorough: 9) x the 31 selections over fields {1,2,3,4,5-} (quick: length 7 with a third of the selections), 15 further "
                         "lists on all lines up to length 5, all 256 delimiter bytes x every line over {x, delimiter} up to length 4 x 3 (6) lists; random longer lines x random lists x 7 delimiters (incl. bytes >= 0x80); IndividualFields on a quarter of them; "
                         "ParseFields/DefragmentFields: every list of <= 3 ranges over field numbers <= 4, a malformed corpus (signs, blanks, 0, N-M-K, trailing/leading/double commas, "
                         "numbers around 2^32 and 2^64) and random strings; tools: dedupe -f / cache -k / shard -f on line pairs with identical / different selected fields, malformed lists. "
                         "Oracle: Python cut semantics (split/select/join) and a regex cut grammar. distinct = distinct non-empty cases",
                    assumptions=["unsigned int is 32 bits, unsigned long 64 bits (strtoul saturates at 2^64-1)",
                                 "util::Exception from ParseFields/DefragmentFields = the list is rejected",
                                 "keys are compared through dedupe/cache behaviour; 64-bit hash collisions are ignored (C14 covers the hash)"])


if __name__ == "__main__":
    sys.exit(main(sys.argv[1:]))
