"""C17 -- WARC records are framed exactly and survive parallel processing intact."""
import collections
import gzip
import os
import shutil
import sys
import zlib

sys.path.insert(0, os.path.join(os.path.dirname(os.path.abspath(__file__)), "..", "tools"))
from checklib import *  # noqa
import codeclog

CRLF2 = b"\r\n\r\n"


def rec(body, headers=(b"WARC-Type: response", b"WARC-Target-URI: http://example.com/a"), cl=None, eol=b"\r\n", cl_pos=None):
    cl = (b"Content-Length: %d" % len(body)) if cl is None else cl
    hs = list(headers)
    hs.insert(len(hs) if cl_pos is None else cl_pos, cl)
    return b"WARC/1.0" + eol + b"".join(h + eol for h in hs) + eol + body + CRLF2


def py_parse(stream):
    """independent strict WARC framing parser -> list of records, or None if the framing is broken"""
    out = []
    pos = 0
    while pos < len(stream):
        start = pos
        end = stream.find(b"\n", pos)
        if end < 0 or stream[pos:end].rstrip(b"\r") != b"WARC/1.0":
            return None
        pos = end + 1
        length = None
        while True:
            end = stream.find(b"\n", pos)
            if end < 0:
                return None
            line = stream[pos:end]
            if line.endswith(b"\r"):
                line = line[:-1]
            pos = end + 1
            if not line:
                break
            if line[:15].lower() == b"content-length:":
                if length is not None:
                    return None
                v = line[15:].strip(b" \t")
                if v.startswith(b"+"):
                    v = v[1:]
                if not v.isdigit():
                    return None
                length = int(v)
        if length is None:
            return None
        if stream[pos + length:pos + length + 4] != CRLF2:
            return None
        pos += length + 4
        out.append(stream[start:pos])
    return out


def rand_frags(rng, n, mean):
    out = []
    left = n
    while left > 0:
        k = min(left, max(1, int(rng.expovariate(1.0 / mean))))
        out.append(k)
        left -= k
    return out


def csv(xs):
    return ",".join(str(x) for x in xs) if xs else "-"


def recs_str(rs):
    return ",".join(r.hex() if r else "e" for r in rs) if rs else "-"


def gen_cases(c):
    rng = c.rng
    cases = []

    def add(stream, frags, expect, bucket, records=None):
        cases.append({"stream": stream, "frags": frags, "expect": expect, "bucket": bucket, "records": records})

    def rbytes(n, alphabet=None):
        if alphabet:
            return bytes(rng.choice(alphabet) for _ in range(n))
        return bytes(rng.randrange(256) for _ in range(n))

    small_bodies = [b"", b"x", b"hello world", b"line1\r\nline2\r\n", b"\r\n\r\n", b"WARC/1.0\r\nContent-Length: 3\r\n\r\nabc\r\n\r\n",
                    b"\x00\xff\n\n", b"Content-Length: 99"]
    # --- valid streams: every split point and 1-byte fragments of small ones
    smalls = []
    for k in range(6):
        n = rng.randrange(1, 4)
        recs = [rec(rng.choice(small_bodies), headers=rng.choice([(), (b"WARC-Type: x",), (b"A: b", b"C: d")]),
                    cl_pos=rng.choice([None, 0])) for _ in range(n)]
        smalls.append(recs)
    smalls.append([rec(b"abc", cl=b"content-length: 3"), rec(b"", cl=b"CONTENT-LENGTH:\t0"), rec(b"q", cl=b"Content-Length: +1")])
    smalls.append([rec(b"abc", eol=b"\n"), rec(b"de", headers=(b"X: y\r",), eol=b"\n")])
    for recs in smalls:
        s = b"".join(recs)
        add(s, [], ("ok", recs), "valid/small/whole", recs)
        add(s, [1] * len(s), ("ok", recs), "valid/small/1-byte-fragments", recs)
        for p in range(1, len(s)):
            add(s, [p, len(s) - p], ("ok", recs), "valid/small/every-split-point", recs)
        add(s, rand_frags(rng, len(s), 7), ("ok", recs), "valid/small/random-fragments", recs)
    # --- valid: bodies and header blocks larger than kRead (4096), the reserve (32768) and a pipe buffer
    bigs = []
    bigs.append([rec(rbytes(5000)), rec(b"t"), rec(rbytes(40000))])
    bigs.append([rec(b"b" * 10, headers=tuple(b"X-Header-%d: %s" % (i, b"v" * 50) for i in range(120))), rec(rbytes(4096 - 60))])
    bigs.append([rec(rbytes(rng.randrange(3900, 4300))) for _ in range(4)])
    bigs.append([rec(rbytes(70000)), rec(b"")])
    if c.tier == "thorough":
        bigs.append([rec(rbytes(rng.randrange(0, 9000))) for _ in range(40)])
        bigs.append([rec(rbytes(1 << 20))])
    for recs in bigs:
        s = b"".join(recs)
        add(s, [], ("ok", recs), "valid/large/whole", recs)
        add(s, rand_frags(rng, len(s), rng.choice((100, 3000))), ("ok", recs), "valid/large/random-fragments", recs)
        add(s, [4096] * (len(s) // 4096 + 1), ("ok", recs), "valid/large/4096-fragments", recs)
        add(s, [4095, 1, 4097, 2], ("ok", recs), "valid/large/around-4096", recs)
    # --- record boundary exactly at / around a multiple of kRead: overhang empty, 1..3 bytes of the next record
    for delta in (-3, -2, -1, 0, 1, 2, 3):
        base = rec(b"")
        body = rbytes(4096 + delta - len(base))
        recs = [rec(body), rec(b"second")]
        s = b"".join(recs)
        add(s, [], ("ok", recs), "valid/boundary-at-kRead%+d" % delta, recs)
        add(s, [4096, 1, 1, 1, 1], ("ok", recs), "valid/boundary-at-kRead%+d" % delta, recs)
    # --- compressed input: one gzip member for the whole stream, one member per record
    for recs in smalls[:3] + bigs[:2]:
        s = b"".join(recs)
        add(gzip.compress(s), rand_frags(rng, 10 ** 6, 999), ("ok", recs), "valid/gz/one-member", recs)
        add(b"".join(gzip.compress(r) for r in recs), [], ("ok", recs), "valid/gz/member-per-record", recs)
    # --- .warc.gz with one gzip member per record, the FIRST member ending on / around an input-buffer
    #     refill of ReadStream (absolute offset 6 + 16384*j + d): the trailer straddles the refill, END
    #     arrives in a call that produced no output, and the next member must still be read
    def stored_member(data):
        co = zlib.compressobj(0, zlib.DEFLATED, 31)
        return co.compress(data) + co.flush()
    for j in (1, 2):
        for d in range(-2, 17):
            target = 6 + 16384 * j + d
            r1 = None
            for n in range(target - 200, target):
                body = rbytes(max(0, n - 60))
                cand = rec(body, headers=())
                if len(stored_member(cand)) == target:
                    r1 = cand
                    break
                # adjust the body length by the difference and try once more
                diff = target - len(stored_member(cand))
                body = rbytes(max(0, len(body) + diff))
                cand = rec(body, headers=())
                if len(stored_member(cand)) == target:
                    r1 = cand
                    break
            if r1 is None:
                continue
            r2 = rec(b"second record %d" % d)
            r3 = rec(b"")
            stream = stored_member(r1) + gzip.compress(r2) + gzip.compress(r3)
            add(stream, [] if d % 2 else rand_frags(rng, len(stream), 5000), ("ok", [r1, r2, r3]),
                "valid/gz/member-ends-at-refill-boundary%+d" % d, [r1, r2, r3])
    # --- .warc.gz cut exactly where the DECODED bytes end on a record boundary: one gzip member for the whole
    #     file with a deflate flush point (sync / full flush, stored blocks) between the records, cut at the
    #     flush point, and cut before / inside the 8-byte trailer.  The framing of what was decoded is intact,
    #     only the decompressor can tell: it must be an error, the records before it intact or not delivered
    ra, rb, rc_ = rec(b"first body"), rec(rbytes(300)), rec(b"")
    for lvl in (0, 6):
        for flush in (zlib.Z_SYNC_FLUSH, zlib.Z_FULL_FLUSH):
            co = zlib.compressobj(lvl, zlib.DEFLATED, 31)
            p1 = co.compress(ra) + co.flush(flush)
            p2 = co.compress(rb) + co.flush(flush)
            whole = p1 + p2 + co.compress(rc_) + co.flush()
            for cut in sorted(set([len(p1), len(p1) + len(p2)] + list(range(len(whole) - 8, len(whole))))):
                add(whole[:cut], rng.choice(([], rand_frags(rng, cut, 30))), ("err", None), "broken/gz-cut-at-record-boundary-of-the-decoded-data")
    # --- broken framing -> must be an error, records before it intact
    good = rec(b"first body")
    tail = rec(b"tail")

    def bad(stream, bucket, before=()):
        for fr in ([], [1] * len(stream) if len(stream) < 400 else rand_frags(rng, len(stream), 50), rand_frags(rng, len(stream), 9)):
            add(stream, fr, ("err", list(before)), bucket)

    for first in (b"WARC/1.1", b"warc/1.0", b"WARC/1.0 ", b" WARC/1.0", b"HTTP/1.1 200 OK", b"", b"WARC/1.0\x00"):
        bad(first + b"\r\nContent-Length: 1\r\n\r\nx\r\n\r\n", "broken/version-line")
        bad(good + first + b"\r\nContent-Length: 1\r\n\r\nx\r\n\r\n", "broken/version-line", [good])
    bad(b"\r\n" + good, "broken/leading-blank-line")
    bad(good + b"\n" + tail, "broken/garbage-between-records", [good])
    bad(b"WARC/1.0\r\nWARC-Type: x\r\n\r\nbody\r\n\r\n", "broken/missing-content-length")
    bad(good + b"WARC/1.0\r\n\r\n" + tail, "broken/missing-content-length", [good])
    for d in (b"Content-Length: 3", b"content-length: 3", b"CONTENT-LENGTH: 4"):
        bad(rec(b"abc", headers=(d,)), "broken/duplicate-content-length")
        bad(good + rec(b"abc", headers=(b"A: b", d, b"C: d")), "broken/duplicate-content-length", [good])
    # a duplicate whose FIRST value is 0 (a "seen" test on the value instead of a flag lets the second one through):
    # 0 then 11, 0 then 0, 0 then 6000 (beyond one read), in both cases of the name, also as the second record
    for body in (b"hello world", b"", rbytes(6000)):
        for z in (b"Content-Length: 0", b"content-length:0", b"Content-Length: +0"):
            bad(rec(body, headers=(z,)), "broken/duplicate-content-length-first-is-zero")
        bad(good + rec(body, headers=(b"A: b", b"Content-Length: 0", b"C: d")) + tail, "broken/duplicate-content-length-first-is-zero", [good])
        bad(rec(body, headers=(b"Content-Length: 0",), cl_pos=0), "broken/duplicate-content-length-second-is-zero")
    for term in (b"\r\n\r\r", b"\n\n\n\n", b"\r\n\r", b"\r\nXX", b"    "):
        bad(b"WARC/1.0\r\nContent-Length: 3\r\n\r\nabc" + term + tail, "broken/bad-terminator")
    for dl in (-3, -1, 1, 2, 5):
        body = rbytes(20, b"abcdefgh")
        bad(b"WARC/1.0\r\nContent-Length: %d\r\n\r\n" % (len(body) + dl) + body + CRLF2 + tail, "broken/content-length-off-by-%+d" % dl)
    for v in (b"-4", b"-1", b"-0x4", b" -4", b"-5", b"-18446744073709551612", b"-9223372036854775808"):
        bad(b"WARC/1.0\r\nContent-Length: " + v + b"\r\n\r\n", "broken/negative-content-length")
        bad(b"WARC/1.0\r\nContent-Length: " + v + b"\r\n\r\n" + tail, "broken/negative-content-length")
    for following in (b"\r\n", b"123\r\n\r\n", b"12: x\r\n\r\n\r\n\r\n", b"abc\r\n\r\n", b"\r\n\r\n" + tail):
        bad(b"WARC/1.0\r\nContent-Length:\r\n" + following, "broken/empty-content-length")
        bad(b"WARC/1.0\r\nContent-Length: \r\n" + following, "broken/empty-content-length")
    for v in (b"3 ", b"3x", b"0x3", b"three", b"3.0", b"3\t", b"+", b"-", b"+-3", b"3 3"):
        bad(b"WARC/1.0\r\nContent-Length: " + v + b"\r\n\r\nabc\r\n\r\n", "broken/non-numeric-content-length")
    for v in (b"9223372036854775807", b"9223372036854775808", b"18446744073709551616", b"18446744073709551626", b"99999999999999999999999", b"4611686018427387904"):
        bad(b"WARC/1.0\r\nContent-Length: " + v + b"\r\n\r\nabcdefghij\r\n\r\n", "broken/astronomic-content-length")
    # truncation at every byte that is not a record boundary
    two = [rec(b"one"), rec(b"two!", headers=())]
    s = b"".join(two)
    for cut in range(1, len(s)):
        if cut == len(two[0]):
            continue
        before = [two[0]] if cut > len(two[0]) else []
        add(s[:cut], rand_frags(rng, cut, 11), ("err", before), "broken/truncated-every-byte")
    big = b"".join(bigs[0])
    for cut in (4096, 4097, 5000, len(bigs[0][0]) + 3, len(big) - 1, len(big) - 4):
        add(big[:cut], [], ("err", None), "broken/truncated-large")
    # --- mutants of valid streams (1-3 byte edits with bytes that matter to the parser): no expectation
    #     except the model's answer, no hang/crash, and C17_success_is_exact as a run-time oracle
    interesting = [13, 10, 32, 9, 11, 12, 0, 43, 45, 48, 57, 58, 255, 67, 99]
    seeds = [b"".join(x) for x in smalls[:5]] + [rec(b"0123456789", headers=(b"Content-Type: text/plain",)) + rec(b"")]
    for _ in range(700 if c.tier == "quick" else 8000):
        sdata = bytearray(rng.choice(seeds))
        for _ in range(rng.randrange(1, 4)):
            pos = rng.randrange(len(sdata) + 1)
            op = rng.random()
            b = rng.choice(interesting) if rng.random() < 0.8 else rng.randrange(256)
            if op < 0.4 and pos < len(sdata):
                sdata[pos] = b
            elif op < 0.75:
                sdata.insert(pos, b)
            elif pos < len(sdata):
                del sdata[pos]
        sdata = bytes(sdata)
        if sdata[:2] == b"\x1f\x8b" or sdata[:3] == b"BZh" or sdata[:6] == b"\xfd7zXZ\x00":
            continue
        add(sdata, rng.choice(([], rand_frags(rng, len(sdata), 6), [1] * len(sdata))), ("fuzz",), "fuzz/mutated-valid-stream")
    return cases


def run_parallel(c, rng, work, recs, jobs, gz, inputs, gz_input=False, child=("cat",), sched=None):
    names = []
    if inputs:
        k = len(recs) // inputs
        for i in range(inputs):
            part = recs[i * k:] if i == inputs - 1 else recs[i * k:(i + 1) * k]
            nm = os.path.join(work, "in%d.warc%s" % (i, ".gz" if gz_input else ""))
            data = b"".join(part)
            open(nm, "wb").write(gzip.compress(data) if gz_input else data)
            names.append(nm)
        argv_ = [repo_bin("warc_parallel"), "-j", str(jobs)] + (["-z"] if gz else []) + ["-i"] + names + ["--"] + list(child)
        stdin = b""
    else:
        argv_ = [repo_bin("warc_parallel"), "-j", str(jobs)] + (["-z"] if gz else []) + list(child)
        stdin = b"".join(recs)
    env = None
    pre = ""
    if sched is not None:
        # random delays at the scheduling points of util::PCQueue (weak PREPROCESS_VERIF hooks, harness/libvsched.c)
        env = dict(os.environ, LD_PRELOAD=hx_bin("libvsched.so"), VSCHED_SEED=str(sched[0]), VSCHED_PERMILLE=str(sched[1]), VSCHED_USEC=str(sched[2]))
        pre = "LD_PRELOAD=libvsched.so VSCHED_SEED=%d VSCHED_PERMILLE=%d VSCHED_USEC=%d " % sched
    st, so, se = codeclog.run_tool_limited(argv_, stdin=stdin, timeout=40 if sched else 25, env=env)
    how = pre + "warc_parallel -j %d %s%s %s   (%d records, %d bytes)" % (jobs, "-z " if gz else "", ("-i %d files%s --" % (inputs, " (gz)" if gz_input else "")) if inputs else "<stdin", " ".join(child), len(recs), sum(len(r) for r in recs))
    rep = {"op": "warc_parallel", "how": how, "jobs": jobs, "gzip": gz, "inputs": inputs, "status": st,
           "records_hex": [r.hex() for r in recs[:6]] if sum(len(r) for r in recs[:6]) < 3000 else "large", "stderr": se.decode("utf-8", "replace")[-200:]}
    if st != 0:
        c.violation("warc_parallel-failed(%s): %s ended with status %s" % ("hang" if st == "timeout" else "status", how, st), rep)
        return "timeout" if st == "timeout" else None
    if gz:
        got = []
        rest = so
        while rest:
            d = zlib.decompressobj(31)
            try:
                m = d.decompress(rest) + d.flush()
            except Exception as e:
                c.violation("warc_parallel-z-invalid-gzip: %s: %s" % (how, e), rep)
                return
            if not d.eof:
                c.violation("warc_parallel-z-truncated-member: %s" % how, rep)
                return
            rest = d.unused_data
            p = py_parse(m)
            if p is None or len(p) != 1:
                c.violation("warc_parallel-z-member-is-not-one-record: %s: a gzip member expands to %s records (%d bytes)" % (how, "broken framing, no" if p is None else len(p), len(m)), rep)
                return
            got.append(m)
    else:
        got = py_parse(so)
        if got is None:
            c.violation("warc_parallel-output-framing-broken: %s: the output is not a sequence of WARC records (bytes of records interleaved?)" % how, rep)
            return
    if jobs == 1 and inputs <= 1 and got != recs and collections.Counter(got) == collections.Counter(recs):
        c.violation("warc_parallel-single-worker-reorders: %s: with one input and one worker the order must be kept (C17_parallel_single_worker_keeps_order)" % how, rep)
    if collections.Counter(got) != collections.Counter(recs):
        miss = collections.Counter(recs) - collections.Counter(got)
        extra = collections.Counter(got) - collections.Counter(recs)
        c.violation("warc_parallel-not-exactly-once: %s: %d records missing, %d records not in the input / duplicated" % (how, sum(miss.values()), sum(extra.values())), rep)


def main(argv):
    c = Check("C17", argv)
    ok, blog = build_repo(["hx_warc", "warc_parallel", "vcodec", "vsched"])
    if not ok:
        c.broken.append("build of the repo working tree failed: " + blog[-800:])
        return c.finish(rule="build failed")
    c.proofs(extra_trusted=["independent strict WARC framing parser py_parse in checks/C17.py", "Python gzip/zlib as independent codecs"])
    if c.tier == "thorough":
        coqchk(c)
    drv, dlog = build_driver("C17")
    impl = hx_bin("hx_warc")
    rng = c.rng
    cases = gen_cases(c)
    lines = ["R %s %s" % (x["stream"].hex() if x["stream"] else "-", csv(x["frags"])) for x in cases]
    for x in cases:
        c.count(("R", x["stream"], tuple(x["frags"])), nontrivial=len(x["stream"]) > 0, bucket=x["bucket"])
    c.sample({"case": lines[0][:300]})
    c.sample({"case": lines[len(lines) // 2][:300]})
    c.sample({"case": lines[-40][:300]})
    results, _ = codeclog.run_logged(impl, lines, timeout_case=20, preload=False, max_bad=4)

    # --- correspondence with the extracted model (for compressed input: the model
    #     reads the decompressed stream; by C17_records_exact the fragmentation is irrelevant)
    if drv is None:
        c.broken.append("extraction/driver build failed: " + dlog[-600:])
    else:
        mlines = []
        for x, l in zip(cases, lines):
            if x["bucket"].startswith("valid/gz"):
                mlines.append("R %s -" % gzip.decompress(x["stream"]).hex())
            else:
                mlines.append(l)
        rc, mout, merr = codeclog.run_lines_bigstack(drv, mlines, timeout=1800)
        if len(mout) != len(mlines):
            c.broken.append("model driver produced %d lines for %d cases (rc %s) %s" % (len(mout), len(mlines), rc, merr[-300:]))
        else:
            # (a truncated compressed input is outside the plain-source model: oracle only)
            dis = [(l, a, b) for x, l, a, b in zip(cases, lines, mout, results)
                   if a != b and b != "SKIPPED" and not x["bucket"].startswith("broken/gz-cut")]
            c.cov["traces_validated_against_impl"] += len(lines)
            if dis:
                l, a, b = min(dis, key=lambda d: len(d[0]))
                c.broken.append("correspondence WarcDefs vs preprocess/warc.cc: %d disagreement(s); smallest: case %r model=%r impl=%r"
                                % (len(dis), l[:300], a[:160], b[:160]))

    # --- direct oracles
    for x, res, l in zip(cases, results, lines):
        rep = {"op": "WARCReader::Read", "harness_line": l[:5000], "bucket": x["bucket"], "impl": res[:300], "stream": repr(x["stream"][:300]),
               "how": "echo '<harness_line>' | hx_warc   (or: printf '<stream>' | warc_parallel -j 1 cat)"}
        if res == "SKIPPED":
            continue
        if res.startswith("HANG") or res.startswith("CRASH"):
            c.violation("warc-hang-or-crash: %s gave %s" % (x["bucket"], res), rep)
            continue
        if x["expect"][0] == "fuzz":
            if res.startswith("OK"):
                got = res.split(" ")[1]
                recs_ = [] if got == "-" else [b"" if r == "e" else bytes.fromhex(r) for r in got.split(",")]
                if b"".join(recs_) != x["stream"] or any(not r.endswith(CRLF2) for r in recs_):
                    c.violation("success-is-not-exact: a stream read successfully is not the concatenation of the returned CRLFCRLF-terminated records: %r -> %s" % (x["stream"][:80], res[:80]), rep)
            continue
        kind, want = x["expect"]
        if kind == "ok":
            if res != "OK " + recs_str(want):
                c.violation("records-not-exact(%s): (%d-byte stream, fragments %s): expected %d records byte for byte, got %s"
                            % (x["bucket"].split("/")[0] + "/" + x["bucket"].split("/")[1], len(x["stream"]), csv(x["frags"])[:40], len(want), res[:100]), rep)
        else:
            if res.startswith("OK"):
                c.violation("broken-framing-accepted(%s): stream %r read successfully as %s" % (x["bucket"], x["stream"][:70], res[:80]), rep)
            elif want is not None:
                got = res.split(" ")[2] if len(res.split(" ")) > 2 else "-"
                if got != recs_str(want):
                    c.violation("records-before-error-wrong: %s: expected %d intact records before the error, got %s" % (x["bucket"], len(want), res[:80]), rep)

    # --- thorough: the same cases through the ASan+UBSan build of the harness (reads outside the
    #     buffers, e.g. the trailer test of a record shorter than 4 bytes, show up here)
    if c.tier == "thorough":
        asan_lines(c, "hx_warc", [l for l in lines if len(l) < 400000], what="(WARCReader)")

    # --- warc_parallel: every record exactly once and intact, any -j, -z one member per record
    work = os.path.join(codeclog.scratch_dir(), "c17-%d" % os.getpid())
    shutil.rmtree(work, ignore_errors=True)
    os.makedirs(work)

    def make_records(n, maxbody):
        out = []
        for i in range(n):
            sz = rng.choice((0, 1, 10, 100, 1000, maxbody)) if rng.random() < 0.7 else rng.randrange(0, maxbody)
            body = bytes(rng.randrange(256) for _ in range(sz)) if rng.random() < 0.5 else (b"rec %d " % i) * (sz // 7)
            out.append(rec(body, headers=(b"WARC-Record-ID: <urn:uuid:%08d>" % i,)))
        return out

    runs = []
    for j in range(1, 9):
        runs.append((j, False, 0, False, make_records(rng.randrange(20, 80), 5000)))
        runs.append((j, True, 0, False, make_records(rng.randrange(10, 50), 5000)))
    runs.append((3, False, 2, False, make_records(60, 3000)))
    runs.append((4, True, 3, False, make_records(60, 3000)))
    runs.append((2, False, 2, True, make_records(40, 3000)))
    runs.append((5, False, 0, False, make_records(30, 200000)))      # records larger than a pipe buffer
    runs.append((8, False, 0, False, []))                             # empty input
    runs.append((1, True, 0, False, make_records(1, 10)))
    if c.tier == "thorough":
        for _ in range(40):
            runs.append((rng.randrange(1, 17), rng.random() < 0.5, rng.choice((0, 0, 1, 3)), rng.random() < 0.3, make_records(rng.randrange(1, 400), rng.choice((100, 5000, 100000)))))
    # truncated input to the TOOL (stdin, -i file, plain and gz): must not exit 0
    two = [rec(b"one"), rec(b"two!", headers=())]
    full = b"".join(two)
    cuts = [k for k in range(1, len(full)) if k != len(two[0])]
    if c.tier == "quick":
        cuts = cuts[::3] + [len(two[0]) - 1, len(two[0]) + 1, len(full) - 1, len(full) - 4]
    for idx, k in enumerate(sorted(set(cuts))):
        mode = idx % 3
        data_in = full[:k]
        if mode == 0:
            argv_ = [repo_bin("warc_parallel"), "-j", "1", "cat"]
            st, so, se = codeclog.run_tool_limited(argv_, stdin=data_in, timeout=25)
            how = "head -c %d two-records.warc | warc_parallel -j 1 cat" % k
        else:
            nm = os.path.join(work, "cut%d.warc%s" % (k, ".gz" if mode == 2 else ""))
            open(nm, "wb").write(gzip.compress(data_in) if mode == 2 else data_in)
            argv_ = [repo_bin("warc_parallel"), "-j", "2", "-i", nm, "--", "cat"]
            st, so, se = codeclog.run_tool_limited(argv_, stdin=b"", timeout=25)
            how = "warc_parallel -j 2 -i <first %d bytes of a 2-record stream%s> -- cat" % (k, ", gzipped" if mode == 2 else "")
        c.count(("truncated-tool-input", k, mode), bucket="warc_parallel/truncated-input/%s" % ("stdin", "file", "gz-file")[mode])
        if st == 0:
            c.violation("warc_parallel-truncated-input-accepted: %s exits 0 (%d output bytes); a stream cut inside a record must be an error" % (how, len(so)),
                        {"op": "warc_parallel", "how": how, "input_hex": data_in.hex(), "status": st, "stdout_len": len(so)})
    # .warc.gz cut at a deflate flush point between two records / before the trailer, through the tool
    for x in [y for y in cases if y["bucket"] == "broken/gz-cut-at-record-boundary-of-the-decoded-data"][::5]:
        nm = os.path.join(work, "flushcut.warc.gz")
        open(nm, "wb").write(x["stream"])
        st, so, se = codeclog.run_tool_limited([repo_bin("warc_parallel"), "-j", "2", "-i", nm, "--", "cat"], stdin=b"", timeout=25)
        c.count(("gz-flush-cut-tool", len(x["stream"])), bucket="warc_parallel/truncated-input/gz-cut-at-flush-point")
        if st == 0:
            c.violation("warc_parallel-truncated-input-accepted: a .warc.gz cut after %d bytes (at a deflate flush point between records / inside the trailer) is accepted, exit 0, %d output bytes" % (len(x["stream"]), len(so)),
                        {"op": "warc_parallel", "how": "warc_parallel -j 2 -i <cut.warc.gz> -- cat", "stream_hex": x["stream"].hex(), "status": st})
    # several inputs, only one of them truncated
    good_in = os.path.join(work, "good.warc")
    open(good_in, "wb").write(b"".join(make_records(12, 500)))
    for k in (len(full) - 2, len(two[0]) + 7):
        bad_in = os.path.join(work, "bad%d.warc" % k)
        open(bad_in, "wb").write(full[:k])
        for order in ([good_in, bad_in], [bad_in, good_in]):
            st, so, se = codeclog.run_tool_limited([repo_bin("warc_parallel"), "-j", "3", "-i"] + order + ["--", "cat"], stdin=b"", timeout=25)
            c.count(("truncated-one-of-two", k, order[0] == good_in), bucket="warc_parallel/truncated-input/one-of-two-files")
            if st == 0:
                c.violation("warc_parallel-truncated-input-accepted: one of two -i files is cut after %d bytes, the tool exits 0" % k,
                            {"op": "warc_parallel", "how": "warc_parallel -j 3 -i good.warc <first %d bytes of a 2-record stream> -- cat" % k, "status": st})
    # .warc.gz files whose first member ends around a refill boundary, through the tool
    for x in [y for y in cases if y["bucket"].startswith("valid/gz/member-ends-at-refill-boundary")][::4]:
        nm = os.path.join(work, "boundary.warc.gz")
        open(nm, "wb").write(x["stream"])
        st, so, se = codeclog.run_tool_limited([repo_bin("warc_parallel"), "-j", "2", "-i", nm, "--", "cat"], stdin=b"", timeout=25)
        c.count(("gz-boundary-tool", x["bucket"]), bucket="warc_parallel/gz-member-at-refill-boundary")
        got = py_parse(so) if st == 0 else None
        if st != 0 or got is None or collections.Counter(got) != collections.Counter(x["records"]):
            c.violation("warc_parallel-loses-records-of-multi-member-gz: %s: status %s, %s of %d records" % (x["bucket"], st, "?" if got is None else len(got), len(x["records"])),
                        {"op": "warc_parallel", "how": "warc_parallel -j 2 -i <stream.gz> -- cat", "stream_hex": x["stream"].hex()[:200000], "bucket": x["bucket"]})
    # many tiny records, all workers emitting at once: contention on the shared output stream
    # several reader threads producing into the queue at the same time (ProduceSwap from more than one thread):
    # thousands of small records over 3-4 input files, repeated; every record exactly once
    for rep_ in range(3 if c.tier == "quick" else 10):
        runs.append((4, False, 3, False, make_records(9000, 30)))
    runs.append((8, False, 4, False, make_records(12000, 20)))
    runs.append((2, True, 3, False, make_records(3000, 30)))
    # the same with random delays injected at every scheduling point of the queue (semaphore wait/post, inside and
    # right after the two index mutexes): windows between "slot claimed" and "slot filled/read" are held open
    for k_ in range(6 if c.tier == "quick" else 30):
        runs.append((rng.choice((1, 2, 4, 7)), k_ % 3 == 2, rng.choice((2, 3, 5)), False, make_records(rng.choice((600, 2000)), 30), ("cat",),
                     (k_ + 1, rng.choice((20, 100, 300)), rng.choice((20, 50, 200)))))
    runs.append((3, False, 0, False, make_records(1500, 30), ("cat",), (7, 100, 50)))       # one producer, delays
    runs.append((8, False, 0, False, make_records(4000, 60)))
    runs.append((6, True, 2, False, make_records(1500, 60)))
    # an identity child that re-chunks its output (7-byte writes): the collector's WARCReader sees the
    # records of the child in small fragments
    runs.append((2, False, 0, False, make_records(25, 400), ("dd", "bs=7", "status=none")))
    runs.append((3, True, 0, False, make_records(25, 400), ("dd", "bs=4099", "status=none")))
    hangs = 0
    for run in runs:
        jobs, gz, inputs, gzin, recs = run[:5]
        child = run[5] if len(run) > 5 else ("cat",)
        sched = run[6] if len(run) > 6 else None
        c.count(("parallel", jobs, gz, inputs, len(recs), child, sched), bucket="warc_parallel/j=%d/%s/%s%s%s" % (jobs, "gz-out" if gz else "plain-out", ("%d-files" % inputs) if inputs else "stdin", "" if child == ("cat",) else "/child=" + child[0], "/delays-at-queue-hooks" if sched else ""))
        if hangs >= 2:
            c.broken.append("warc_parallel runs skipped after two hangs")
            break
        if run_parallel(c, rng, work, recs, jobs, gz, inputs, gzin, child, sched) == "timeout":
            hangs += 1
    shutil.rmtree(work, ignore_errors=True)

    return c.finish(level="proof",
                    rule="WARCReader on a pipe with controlled fragments: small 1-3 record streams at EVERY split point and in 1-byte fragments, bodies containing CRLF CRLF / a nested record / NUL, header lines with LF only, case variants and '+' in Content-Length, header blocks and bodies beyond 4096/32768/65536, record boundaries at 4096+-3, gz input; broken framing classes (version line, missing/duplicate/negative/empty/non-numeric/astronomic Content-Length, bad terminator, length off by k, truncation at every byte) each whole, in 1-byte and random fragments; warc_parallel -j 1..8 with cat, with and without -z, stdin and -i files (plain and gz), records larger than a pipe buffer, empty input. distinct = distinct non-empty streams x fragmentations",
                    assumptions=["the byte source delivers the stream in pieces (1..request bytes, 0 only at end of file): the contract of util::ReadCompressed::Read proved in C15",
                                 "requests above 2^46 bytes cannot be allocated (std::length_error / std::bad_alloc); Content-Length values between 2^27 and 2^46 are not exercised",
                                 "thread timings of warc_parallel are covered by C16's queue model; here the output is compared as a multiset of records over several -j"])


if __name__ == "__main__":
    sys.exit(main(sys.argv[1:]))
