"""C14 -- line hashing is MurmurHash64A, identical across tools, runs and alignments
(util/murmur_hash.cc, preprocess/fields.hh HashCallback, the seeds of the tools)."""
import os
import struct
import sys

sys.path.insert(0, os.path.join(os.path.dirname(os.path.abspath(__file__)), "..", "tools"))
from checklib import *  # noqa

SCRATCH = os.path.join(BUILD_ROOT, "scratch-C14")
MASK = (1 << 64) - 1
SHARD_SEED = 47849374332489          # documented in fields.hh ("Be different from deduper")


def murmur64a_py(data, seed):
    """MurmurHash64A, transcribed from Appleby's published MurmurHash2 64-bit (independent of the Coq model)"""
    M = 0xc6a4a7935bd1e995
    R = 47
    h = (seed ^ (len(data) * M)) & MASK
    n = len(data) // 8
    for k in struct.unpack_from("<%dQ" % n, data):
        k = (k * M) & MASK
        k ^= k >> R
        k = (k * M) & MASK
        h ^= k
        h = (h * M) & MASK
    tail = data[n * 8:]
    if tail:
        h ^= int.from_bytes(tail, "little")
        h = (h * M) & MASK
    h ^= h >> R
    h = (h * M) & MASK
    h ^= h >> R
    return h


def murmur64b_py(data, seed):
    """MurmurHash64B, transcribed from Appleby's published MurmurHash2 (64-bit hash for 32-bit platforms)"""
    M, R, M32 = 0x5bd1e995, 24, 0xFFFFFFFF
    n = len(data)
    h1 = (seed ^ n) & M32
    h2 = 0
    pos = 0
    def mix(h, k):
        k = (k * M) & M32
        k ^= k >> R
        k = (k * M) & M32
        return ((h * M) & M32) ^ k
    while n >= 8:
        k1, k2 = struct.unpack_from("<II", data, pos)
        pos += 8
        h1 = mix(h1, k1)
        h2 = mix(h2, k2)
        n -= 8
    if n >= 4:
        (k1,) = struct.unpack_from("<I", data, pos)
        pos += 4
        h1 = mix(h1, k1)
        n -= 4
    if n >= 3:
        h2 ^= data[pos + 2] << 16
    if n >= 2:
        h2 ^= data[pos + 1] << 8
    if n >= 1:
        h2 ^= data[pos]
        h2 = (h2 * M) & M32
    h1 ^= h2 >> 18
    h1 = (h1 * M) & M32
    h2 ^= h1 >> 22
    h2 = (h2 * M) & M32
    h1 ^= h2 >> 17
    h1 = (h1 * M) & M32
    h2 ^= h1 >> 19
    h2 = (h2 * M) & M32
    return (h1 << 32) | h2


def ulower(b):
    """ICU ToLower of a UTF-8 word (root locale) = Python's str.lower for the words used here"""
    return b.decode("utf-8").lower().encode("utf-8")


def fold_py(seed, pieces):
    h = seed
    for p in pieces:
        h = murmur64a_py(p, h)
    return h


def hx(b):
    return hexs(b) if len(b) else "-"


def gen_cases(c):
    rng = c.rng
    seeds = [0, 1, SHARD_SEED, MASK, 1 << 63, rng.getrandbits(64), rng.getrandbits(64)]
    lines, meta = [], []

    def content(n, kind):
        if kind == "rand":
            return bytes(rng.randrange(256) for _ in range(n))
        if kind == "hi":
            return bytes(rng.randrange(0x80, 256) for _ in range(n))      # sign-extension of tail bytes
        if kind == "zero":
            return bytes(n)
        if kind == "ff":
            return b"\xff" * n
        return bytes(rng.choice(b"abc \t") for _ in range(n))
    # every length 0..72 (all tail lengths with 0..9 blocks) x content kinds; then sparser
    lens = list(range(0, 73)) + [79, 80, 81, 127, 128, 129, 255, 256, 257] + [rng.randrange(73, 700) for _ in range(12)]
    if c.volume == "thorough":
        lens += list(range(73, 200)) + [rng.randrange(200, 3000) for _ in range(40)]
    for n in lens:
        for kind in (("rand", "hi", "zero", "ff", "text") if n <= 72 else ("rand", "hi")):
            b = content(n, kind)
            seed = rng.choice(seeds)
            op = rng.choice(("H", "N"))
            lines.append("%s %d %s" % (op, seed, hx(b)))
            meta.append((op, seed, b, None))
    # MurmurHash64B (what MurmurHashNative would be with 4-byte pointers): every length 0..40, samples beyond
    for n in list(range(0, 41)) + [63, 64, 65, 100, 255, 256, 257]:
        for kind in ("rand", "hi"):
            b = content(n, kind)
            seed = rng.choice(seeds)
            lines.append("B %d %s" % (seed, hx(b)))
            meta.append(("B", seed, b, None))
    # every start alignment (mod 16) x tail length, a few block counts (the ASan/UBSan pass of the thorough tier sees misaligned loads)
    for al in range(16):
        for n in (0, 1, 7, 8, 9, 15, 16, 17, 33):
            b = content(n, "rand")
            seed = rng.choice(seeds)
            lines.append("A %d %d %s" % (al, seed, hx(b)))
            meta.append(("A", seed, b, None))
    # memory longer than the string
    for n in list(range(0, 20)) + [31, 32, 33, 64]:
        b = content(n + rng.randrange(1, 12), "hi")
        seed = rng.choice(seeds)
        lines.append("M %d %d %s" % (seed, n, hx(b)))
        meta.append(("M", seed, b[:n], None))
    # the field fold and the shard index
    for _ in range(250 if c.volume == "quick" else 2500):
        k = rng.choice((0, 1, 1, 2, 2, 3, 5))
        pieces = [content(rng.choice((0, 0, 1, 3, 7, 8, 9, 15, 16, 17, rng.randrange(0, 40))), rng.choice(("text", "rand", "hi"))) for _ in range(k)]
        if rng.random() < 0.6:
            seed = rng.choice(seeds)
            lines.append("F %d %s" % (seed, " ".join(hx(p) for p in pieces)))
            meta.append(("F", seed, pieces, None))
        else:
            n = rng.choice((1, 2, 3, 5, 7, 10, 16, 100, 4093, (1 << 32) + 1, (1 << 63) + 5))
            lines.append("S %d %s" % (n, " ".join(hx(p) for p in pieces)))
            meta.append(("S", SHARD_SEED, pieces, n))
    return lines, meta


def expected(m):
    op, seed, data, n = m
    if op == "B":
        return murmur64b_py(data, seed)
    if op in ("H", "N", "M", "A"):
        return murmur64a_py(data, seed)
    if op == "F":
        return fold_py(seed, data)
    return fold_py(seed, data) % n


def giza_case_inputs(pairs):
    """train_case inputs (GIZA A3 alignment, source, target) for one sentence whose word i aligns to word i"""
    src = [b"<s>"] + [s for s, t in pairs]
    tgt = [b"<t>"] + [t for s, t in pairs]
    n = len(src)
    align = b"# Sentence pair (1) source length %d target length %d alignment score : 0.1\n" % (n, n)
    align += b" ".join(tgt) + b"\n"
    align += b"NULL ({ }) " + b" ".join(w + b" ({ %d })" % (i + 1) for i, w in enumerate(src)) + b"\n"
    return align, b" ".join(src) + b"\n", b" ".join(tgt) + b"\n"


def load_replay(c):
    if not c.replay:
        return None
    body = json.load(open(c.replay))
    return body.get("replay") if isinstance(body.get("replay"), dict) else None


def meta_of_line(l):
    t = l.split()
    b = lambda h: b"" if h == "-" else bytes.fromhex(h)
    if t[0] in ("H", "N"):
        return (t[0], int(t[1]), b(t[2]), None)
    if t[0] == "M":
        return ("M", int(t[1]), b(t[3])[:int(t[2])], None)
    if t[0] == "A":
        return ("A", int(t[2]), b(t[3]), None)
    if t[0] == "B":
        return ("B", int(t[1]), b(t[2]), None)
    if t[0] == "F":
        return ("F", int(t[1]), [b(x) for x in t[2:]], None)
    return ("S", SHARD_SEED, [b(x) for x in t[2:]], int(t[1]))


def main(argv):
    c = Check("C14", argv)
    c.volume = c.tier     # generator volume; raised to thorough when the translator could only keep old constants
    tools = ["hx_murmur", "mmhsum", "order_independent_hash", "shard", "subtract_lines", "train_case", "apply_case"]
    ok, blog = build_repo(tools)
    if not ok:
        # ICU tools are optional: retry without them
        tools = tools[:5]
        ok, blog = build_repo(tools)
    if not ok:
        c.broken.append("build of repo working tree failed: " + blog[-800:])
        return c.finish(rule="build failed")
    c.proofs(only=["murmur"])
    from gen.fallback import shape_note
    note = shape_note("Src_murmur.v")
    if note:
        c.assumptions.append("translator: the shape of the anchored code changed (" + note[:300] + "); the tie of the model to the code rests on the correspondence run below")
        log("  note: " + note[:300])
        c.volume = "thorough"   # the shape of the code changed: the tie rests on the correspondence run, so make it the big one
    if c.tier == "thorough":
        coqchk(c)
    drv, dlog = build_driver("C14")
    impl = hx_bin("hx_murmur")
    os.makedirs(SCRATCH, exist_ok=True)
    rng = c.rng

    lines, meta = gen_cases(c)
    rp = load_replay(c)
    if rp is not None:       # --replay: the recorded case is evaluated first, then the normal run
        case = rp.get("case")
        if case is None and rp.get("input_hex") is not None and "seed" in rp:
            case = "H %d %s" % (rp["seed"], rp["input_hex"] or "-")
        if case is None and rp.get("op") == "grid" and rp.get("input_hex") is not None:
            case = "H 0 %s" % (rp["input_hex"] or "-")
        if case:
            lines.insert(0, case)
            meta.insert(0, meta_of_line(case))
    for l, m in zip(lines, meta):
        op, seed, data, n = m
        if op in ("H", "N", "M", "A", "B"):
            c.count(l, nontrivial=len(data) > 0, bucket="%s/blocks=%d/tail=%d" % (op, min(len(data) // 8, 3), len(data) % 8))
        else:
            c.count(l, nontrivial=len(data) > 0, bucket="%s/pieces=%d" % (op, len(data)))
    c.sample({"line": lines[5]})
    c.sample({"line": lines[200]})
    c.sample({"line": lines[-1]})

    # ---- correspondence: extracted model vs implementation (first line: the regenerated constants vs the compiled ones)
    if drv is None:
        c.broken.append("extraction/driver build failed: " + dlog[-600:])
    else:
        correspond(c, "murmur model vs util/murmur_hash.cc + HashCallback", drv, impl, ["C"] + lines)

    # ---- direct oracle: implementation vs the independent Python reference
    rc, out, err = run_lines(impl, lines)
    if len(out) != len(lines):
        c.broken.append("harness hx_murmur died: rc=%s %s" % (rc, err[-300:]))
    else:
        for l, m, o in zip(lines, meta, out):
            want = str(expected(m))
            if o != want:
                what = {"H": "MurmurHash64A", "N": "MurmurHashNative", "A": "MurmurHash64A/Native at a given start alignment", "B": "MurmurHash64B", "M": "MurmurHash64A(len shorter than buffer)",
                        "F": "HashCallback fold", "S": "shard index"}[m[0]]
                c.violation("%s: %s gave %s, reference %s says %s (case %s)" % (
                    "hash-value" if m[0] in "HNMAB" else ("fold" if m[0] == "F" else "shard-index"), what, o,
                    "MurmurHash64B" if m[0] == "B" else ("MurmurHash64A left fold" if m[0] in "FS" else "MurmurHash64A"), want, l[:160]),
                    {"op": what, "case": l, "impl": o, "expected": want, "how": "echo '%s' | hx_murmur" % l[:300]})

    # ASan/UBSan build of the harness: exact-size heap buffers and every start alignment (over-reads, misaligned loads)
    asan_lines(c, "hx_murmur", lines, "(exact-size heap buffers)")

    # ---- native grid: all lengths x 8 alignments next to a PROT_NONE page, vs the Python reference
    maxlen = 512 if c.volume == "quick" else 4096
    gseeds = [0, 1, SHARD_SEED, rng.getrandbits(64)]
    st, mo, _ = run_tool([impl, "MASTER", str(maxlen)], timeout=60)
    master = bytes.fromhex(mo.decode().strip()) if st == 0 else b""
    st, go, ge = run_tool([impl, "GRID", str(maxlen)] + [str(s) for s in gseeds], timeout=1200)
    glines = go.decode("utf-8", "replace").split("\n")
    if glines and glines[-1] == "":
        glines.pop()
    if st != 0 or len(glines) != (maxlen + 1) * 8:
        fault = [g for g in glines if g.startswith("FAULT") or "FAULT" in g]
        if fault:
            f = fault[-1][fault[-1].index("FAULT"):]
            ln = int(f.split("len=")[1].split()[0])
            al = int(f.split("align=")[1].split()[0])
            s = master[ln % 64: ln % 64 + ln]
            c.violation("over-read: MurmurHash64A/Native touched the PROT_NONE page behind a %d-byte string (start alignment %d)" % (ln, al),
                        {"op": "grid", "len": ln, "align": al, "input_hex": hexs(s), "how": "hx_murmur GRID %d 0" % maxlen})
        else:
            c.broken.append("grid run died: status %s, %d lines %s" % (st, len(glines), ge.decode("utf-8", "replace")[-200:]))
    else:
        ref = {}
        for g in glines:
            t = g.split()
            ln, al = int(t[1]), int(t[2])
            s = master[ln % 64: ln % 64 + ln]
            c.count(("G", ln, al), nontrivial=ln > 0, bucket="grid/tail=%d" % (ln % 8))
            c.cov["traces_validated_against_impl"] += 1
            if "OUTSIDE-BYTES-INFLUENCE" in t:
                c.violation("over-read: bytes outside a %d-byte string (start alignment %d) change MurmurHash64A/Native" % (ln, al),
                            {"op": "grid", "len": ln, "align": al, "input_hex": hexs(s), "how": "hx_murmur GRID %d 0" % maxlen})
                continue
            vals = [int(x) for x in t[3:]]
            for i, seed in enumerate(gseeds):
                if (ln, seed) not in ref:
                    ref[(ln, seed)] = murmur64a_py(s, seed)
                want = ref[(ln, seed)]
                for which, v in (("MurmurHash64A", vals[2 * i]), ("MurmurHashNative", vals[2 * i + 1])):
                    if v != want:
                        c.violation("hash-value: %s(len %d, start alignment %d, seed %d) = %d, reference %d" % (which, ln, al, seed, v, want),
                                    {"op": which, "len": ln, "align": al, "seed": seed, "input_hex": hexs(s), "impl": v, "expected": want,
                                     "how": "echo 'H %d %s' | hx_murmur" % (seed, hx(s)[:400])})

    # ---- tool level
    def rnd(n):
        return bytes(rng.getrandbits(8) for _ in range(n)) if n < 5000 else os.urandom(0) + rng.getrandbits(8 * n).to_bytes(n, "little")
    # mmhsum: chained over 1 MiB reads
    MIB = 1 << 20
    sizes = [0, 1, 7, 8, 9, 1000, MIB - 1, MIB, MIB + 1, 2 * MIB + 5] + ([3 * MIB, 5 * MIB + 123] if c.tier == "thorough" else [])
    small_model = []
    for n in sizes:
        data = rnd(n)
        st, so, se = run_tool([repo_bin("mmhsum")], stdin=data, timeout=120)
        h = 0
        for i in range(0, len(data), MIB):
            h = murmur64a_py(data[i:i + MIB], h)
        want = ("%x\n" % h).encode()
        c.count(("mmhsum", n), bucket="tool/mmhsum/%s" % ("multi-chunk" if n > MIB else "single-chunk"))
        c.cov["traces_validated_against_impl"] += 1
        if st != 0 or so != want:
            c.violation("tool/mmhsum: %d-byte input printed %r (status %s), chained reference MurmurHash64A gives %r" % (n, so[:40], st, want),
                        {"op": "mmhsum", "size": n, "stdin_hex": hexs(data[:2000]), "stdout": so[:80].decode("latin1"), "expected": want.decode()})
        if n <= 1000:
            small_model.append(("X " + hx(data), so.decode("latin1").strip()))
    # order_independent_hash
    oih = []
    for _ in range(12 if c.volume == "quick" else 100):
        ls = [bytes(rng.choice(b"abcdefgh \t\x80\xff") for _ in range(rng.choice((0, 1, 5, 8, 13, 30, 30, 2000, 70001)))) for _ in range(rng.randrange(0, 9))]
        data = b"".join(l + b"\n" for l in ls)
        st, so, se = run_tool([repo_bin("order_independent_hash")], stdin=data, timeout=60)
        want = ("%d\n" % (sum(murmur64a_py(l, 0) for l in ls) & MASK)).encode()
        c.count(("oih", data), nontrivial=len(ls) > 0, bucket="tool/order_independent_hash")
        c.cov["traces_validated_against_impl"] += 1
        if st != 0 or so != want:
            c.violation("tool/order_independent_hash: printed %r (status %s), reference sum of line hashes is %r" % (so[:40], st, want),
                        {"op": "order_independent_hash", "stdin_hex": hexs(data), "stdout": so[:80].decode("latin1"), "expected": want.decode()})
        if sum(len(l) for l in ls) < 400:
            oih.append(("O " + " ".join(hx(l) for l in ls), so.decode("latin1").strip()))
    if drv is not None:
        mlines = [x for x, _ in small_model + oih]
        rc, mo2, err = run_lines(drv, mlines)
        if len(mo2) != len(mlines):
            c.broken.append("driver died on tool-level cases: " + err[-200:])
        else:
            for (l, implout), m in zip(small_model + oih, mo2):
                mm = ("%x" % int(m)) if l.startswith("X") else m
                if mm != implout:
                    c.broken.append("correspondence tool vs model: case %s model %s tool %s" % (l[:120], mm, implout))
                    break
    # shard placement: whole-line key (default -f 1-), and a field key where cut semantics are not in question
    def cutfn(spec):
        # the documented fold: adjacent/unordered items merge into ranges, one piece per range (fields joined by the delimiter)
        nums = sorted(set(spec))
        runs = []
        for n_ in nums:
            if runs and n_ - 1 == runs[-1][1]:
                runs[-1][1] = n_
            else:
                runs.append([n_ - 1, n_])
        def f(l, openlast=False):
            w = l.split(b" ")
            return [b" ".join(w[b_:e_]) for b_, e_ in runs if w[b_:e_]]
        return f

    def cutfn_open(spec, start):
        base = cutfn(spec + [start])
        def f(l):
            w = l.split(b" ")
            ps = cutfn(spec)(l) if spec else []
            # the open range start- merges with a preceding adjacent closed item
            nums = sorted(set(spec))
            if nums and nums[-1] == start - 1:
                lo = start - 1
                while lo - 1 in nums:
                    lo -= 1
                return cutfn([x for x in nums if x < lo])(l) + [b" ".join(w[lo - 1:])]
            return ps + ([b" ".join(w[start - 1:])] if w[start - 1:] else [])
        return f
    for nsh, fargs, keyfn in ((3, [], lambda l: [l]), (7, [], lambda l: [l]), (4, ["-f", "2", "-d", " "], lambda l: [l.split(b" ")[1]]),
                              (5, ["-f", "1,3", "-d", " "], lambda l: [l.split(b" ")[0], l.split(b" ")[2]]),
                              (5, ["-f", "1,2,3", "-d", " "], cutfn([1, 2, 3])), (4, ["-f", "3,1,2", "-d", " "], cutfn([3, 1, 2])),
                              (6, ["-f", "1,3,4", "-d", " "], cutfn([1, 3, 4])), (3, ["-f", "2,3,4-", "-d", " "], cutfn_open([2, 3], 4)),
                              (7, ["-f", "1,3,4-", "-d", " "], cutfn_open([1, 3], 4)), (5, ["-f", "4,2,3,1", "-d", " "], cutfn([4, 2, 3, 1]))):
        ls = []
        for _ in range(40 if c.volume == "quick" else 400):
            words = [bytes(rng.choice(b"abcdefxyz\xc3\xa9") for _ in range(rng.randrange(1, 12))) for _ in range(4)]
            ls.append(b" ".join(words))
        for n in (100, 1000, 9000, 70000):          # long keys: every byte of the key counts
            w = bytes(rng.choice(b"abcdefxyz") for _ in range(n))
            ls.append(b"k " + w + b" " + w[:7] + b" z")
            ls.append(b"k " + w[:-1] + b"Q " + w[:7] + b" z")
        outs = [os.path.join(SCRATCH, "shard%d" % i) for i in range(nsh)]
        for o in outs:
            if os.path.exists(o):
                os.unlink(o)
        st, so, se = run_tool([repo_bin("shard")] + fargs + outs, stdin=b"".join(l + b"\n" for l in ls), timeout=60)
        if st != 0:
            c.violation("tool/shard: status %s %s" % (st, se[-200:]), {"op": "shard", "args": fargs, "status": str(st)})
            continue
        got = {}
        for i, o in enumerate(outs):
            for l in open(o, "rb").read().split(b"\n")[:-1]:
                got.setdefault(l, set()).add(i)
        for l in ls:
            want = fold_py(SHARD_SEED, keyfn(l)) % nsh
            c.count(("shard", nsh, tuple(fargs), l), bucket="tool/shard/n=%d%s" % (nsh, "/fields" if fargs else ""))
            c.cov["traces_validated_against_impl"] += 1
            if got.get(l) != {want}:
                c.violation("tool/shard-placement: shard %s put line %r into file(s) %s; hash_fold(seed %d, key pieces) mod %d = %d" % (
                    " ".join(fargs), l, sorted(got.get(l, [])), SHARD_SEED, nsh, want),
                    {"op": "shard", "args": fargs + ["<%d outputs>" % nsh], "line_hex": hexs(l), "impl_files": sorted(got.get(l, [])), "expected_file": want})
                break
    # shard -f with bounded multi-column ranges on lines that END with the delimiter or have empty columns inside the range:
    # the file is the reference fold over the cut pieces (fields b..e-1 joined by the delimiter, empty fields included)
    def cut_ranges(spec):
        rs = []
        for it in spec.split(","):
            if it.endswith("-"):
                rs.append((int(it[:-1]) - 1, 1 << 40))
            elif it.startswith("-"):
                rs.append((0, int(it[1:])))
            elif "-" in it:
                a_, b_ = it.split("-")
                rs.append((int(a_) - 1, int(b_)))
            else:
                rs.append((int(it) - 1, int(it)))
        out_ = []
        for b_, e_ in sorted(rs):
            if out_ and b_ == out_[-1][1]:
                out_[-1] = (out_[-1][0], e_)
            else:
                out_.append((b_, e_))
        return out_
    for spec, dch, nsh in (("2-3", b"\t", 5), ("1-2", b"\t", 4), ("2-3,5-6", b" ", 7), ("1-3", b",", 3), ("2-4,6", b"\t", 6)):
        rs = cut_ranges(spec)
        batch = [b"x" + dch + b"b" + dch, b"y" + dch + b"b", b"a" + dch, b"a", dch, dch + dch, b"p" + dch + b"q" + dch + dch, b"p" + dch + b"q" + dch + dch + b"r"]
        for _ in range(40 if c.volume == "quick" else 400):
            nf = rng.randrange(1, 8)
            l = dch.join(bytes(rng.choice(b"abc") for _ in range(rng.choice((0, 0, 1, 2)))) for _ in range(nf))
            batch.append(l)
            batch.append(l + dch)
        batch = list(dict.fromkeys(batch))
        outs = [os.path.join(SCRATCH, "q%d" % i) for i in range(nsh)]
        for o in outs:
            if os.path.exists(o):
                os.unlink(o)
        st, so, se = run_tool([repo_bin("shard"), "-f", spec, "-d", dch.decode()] + outs, stdin=b"".join(l + b"\n" for l in batch), timeout=60)
        if st != 0:
            c.violation("tool/shard: status %s for -f %s" % (st, spec), {"op": "shard", "args": ["-f", spec], "status": str(st)})
            continue
        got = {}
        for i, o in enumerate(outs):
            for l in open(o, "rb").read().split(b"\n")[:-1]:
                got.setdefault(l, set()).add(i)
        for l in batch:
            fields = l.split(dch)
            pieces = [dch.join(fields[b_:e_]) for b_, e_ in rs if fields[b_:e_]]
            want = fold_py(SHARD_SEED, pieces) % nsh
            c.count(("shard-bounded", spec, l), bucket="tool/shard/bounded-ranges/" + ("trailing-delimiter" if l.endswith(dch) else "other"))
            c.cov["traces_validated_against_impl"] += 1
            if got.get(l) != {want}:
                c.violation("tool/shard-placement: shard -f %s -d %r put line %r into file(s) %s; the reference fold over its cut pieces %r mod %d is %d" % (
                    spec, dch, l, sorted(got.get(l, [])), pieces, nsh, want),
                    {"op": "shard", "args": ["-f", spec, "-d", dch.decode(), "<%d outputs>" % nsh], "line_hex": hexs(l), "impl_files": sorted(got.get(l, [])), "expected_file": want})
                break

    # subtract_lines hashes both files with the same seed: exactly the lines of the subtract file disappear
    sub = [bytes(rng.choice(b"abcdefgh ") for _ in range(rng.choice((0, 1, 7, 8, 9, 20)))) for _ in range(8)]
    keep = [l for l in (bytes(rng.choice(b"ijklmnop ") for _ in range(rng.choice((1, 7, 8, 9, 20)))) for _ in range(8)) if l not in sub]
    fsub = os.path.join(SCRATCH, "subtract")
    open(fsub, "wb").write(b"".join(l + b"\n" for l in sub))
    mixed = sub[:4] + keep + sub[4:] + keep[:2]
    st, so, se = run_tool([repo_bin("subtract_lines"), fsub], stdin=b"".join(l + b"\n" for l in mixed), timeout=60)
    c.count(("subtract_lines",), bucket="tool/subtract_lines-seeds")
    c.cov["traces_validated_against_impl"] += 1
    want = b"".join(l + b"\n" for l in mixed if l not in sub)
    if st != 0 or so != want:
        c.violation("tool/subtract_lines: the lines of the subtract file were not removed exactly (insert and lookup hash differently?): output %r, expected %r" % (so[:200], want[:200]),
                    {"op": "subtract_lines", "subtract_hex": hexs(b"".join(l + b"\n" for l in sub)), "stdin_hex": hexs(b"".join(l + b"\n" for l in mixed)),
                     "stdout_hex": hexs(so), "expected_hex": hexs(want)})

    # train_case writes keys, apply_case must find them again
    if "train_case" in tools:
        pairs = [(b"haus", b"House"), (b"Der", b"The"), (b"x" * 9, b"Yy"), (b"klein", b"little"), (b"\xc3\xa9t\xc3\xa9", b"Summer"), (b"ab", b"Q")]
        align, src, tgt = giza_case_inputs(pairs)
        fa, fs, ft = [os.path.join(SCRATCH, n) for n in ("align", "src", "tgt")]
        for p, d in ((fa, align), (fs, src), (ft, tgt)):
            open(p, "wb").write(d)
        st, so, se = run_tool([repo_bin("train_case"), fa, fs, ft], timeout=60)
        keys = {}
        for l in so.split(b"\n"):
            if l:
                k, rest = l.split(b"\t", 1)
                keys[int(k)] = rest
        for s, t in pairs:
            want = murmur64a_py(t.lower(), murmur64a_py(s, 0))
            c.count(("train_case", s, t), bucket="tool/train_case-key")
            c.cov["traces_validated_against_impl"] += 1
            if st != 0 or want not in keys or not keys[want].startswith(t + b" "):
                c.violation("tool/case-key: train_case did not write key MurmurHash64A(lower(%r), MurmurHash64A(%r)) = %d (status %s, output %r)" % (t, s, want, st, so[:300]),
                            {"op": "train_case", "source": s.decode("latin1"), "target": t.decode("latin1"), "expected_key": want, "stdout": so[:600].decode("latin1")})
                break
        else:
            # apply_case: model file + alignment "0-0 1-1 ..." must restore the casing from lower-cased target
            fm, fal = os.path.join(SCRATCH, "model"), os.path.join(SCRATCH, "sym")
            open(fm, "wb").write(so)
            n = len(pairs) + 1
            open(fal, "wb").write(b"0 ||| " + b" ".join(b"%d-%d" % (i, i) for i in range(n)) + b"\n")
            open(ft + ".lc", "wb").write(tgt.lower())
            st2, so2, se2 = run_tool([repo_bin("apply_case"), fal, fs, ft + ".lc", fm], timeout=60)
            c.count(("apply_case",), bucket="tool/apply_case-key")
            c.cov["traces_validated_against_impl"] += 1
            want2 = b"<t> " + b" ".join(t for s, t in pairs) + b"\n"
            if st2 != 0 or so2 != want2:
                c.violation("tool/case-key: apply_case did not find the keys train_case wrote: output %r (status %s), expected %r" % (so2[:200], st2, want2),
                            {"op": "apply_case", "model": so[:600].decode("latin1"), "stdout": so2[:300].decode("latin1"), "stderr": se2[-300:].decode("latin1"), "expected": want2.decode("latin1")})

    # train_case on several sentences (repeated and alternating words, the same source index in consecutive sentences):
    # the model it writes must be exactly {64A(lower(target), 64A(source)) : {cased target : count}} over all aligned
    # pairs except those touching the first word of a sentence
    if "train_case" in tools:
        sents = [[(b"Der", b"The"), (b"haus", b"House"), (b"maus", b"house"), (b"klein", b"little")],
                 [(b"haus", b"house")],
                 [(b"klein", b"House"), (b"haus", b"House"), (b"haus", b"Little")],
                 [(b"Der", b"House"), (b"klein", b"little"), (b"klein", b"little")],
                 # lower-casing changes the UTF-8 length: U+0130 (2 bytes -> i + U+0307, 3 bytes), U+212A Kelvin sign (3 -> 1)
                 [(b"Der", b"The"), (b"stadt", b"\xc4\xb0stanbul"), (b"grad", b"\xe2\x84\xaaelvin"), (b"stadt", b"\xc4\xb0STANBUL"), (b"k", b"\xe2\x84\xaa"), (b"stadt", b"\xc4\xb0stanbul")],
                 # words whose only capitals are non-ASCII (a scan for A-Z sees nothing to lower): \u00c9t\u00e9, \u00dc, \u0416
                 [(b"Der", b"The"), (b"sommer", b"\xc3\x89T\xc3\x89"), (b"sommer", b"\xc3\x89T\xc3\x89"), (b"ue", b"\xc3\xbc"), (b"ue", b"\xc3\xbc"),
                  (b"zh", b"\xd0\xb6"), (b"zh", b"\xd0\xb6"), (b"sommer", b"\xc3\x89t\xc3\xa9")]]
        al_b, src_b, tgt_b = b"", b"", b""
        expect = {}
        for n_, pairs2 in enumerate(sents):
            a1, s1, t1 = giza_case_inputs(pairs2)
            al_b += a1.replace(b"(1)", b"(%d)" % (n_ + 1))
            src_b += s1
            tgt_b += t1
            for s_, t_ in pairs2:
                k = murmur64a_py(ulower(t_), murmur64a_py(s_, 0))
                expect.setdefault(k, {}).setdefault(t_, 0)
                expect[k][t_] += 1
        fa3, fs3, ft3 = [os.path.join(SCRATCH, n_) for n_ in ("m.align", "m.src", "m.tgt")]
        for p_, d_ in ((fa3, al_b), (fs3, src_b), (ft3, tgt_b)):
            open(p_, "wb").write(d_)
        st, so, se = run_tool([repo_bin("train_case"), fa3, fs3, ft3], timeout=60)
        got = {}
        try:
            for l in so.split(b"\n"):
                if l:
                    parts = l.split(b"\t")
                    got[int(parts[0])] = {w.rsplit(b" ", 1)[0]: int(w.rsplit(b" ", 1)[1]) for w in parts[1:]}
        except Exception:
            got = None
        c.count(("train_case-multi",), bucket="tool/train_case-multisentence")
        c.cov["traces_validated_against_impl"] += 1
        if st != 0 or got != expect:
            c.violation("tool/case-model: train_case on %d sentences wrote the model %r (status %s); the keys 64A(lower(target), 64A(source)) with counts are %r" % (
                len(sents), got if got is not None else so[:300], st, expect),
                {"op": "train_case", "kind": "model", "align": al_b.decode("latin1"), "source": src_b.decode("latin1"), "target": tgt_b.decode("latin1"),
                 "stdout": so[:1500].decode("latin1"), "expected": {str(k): {w.decode(): n2 for w, n2 in v.items()} for k, v in expect.items()}})

        # round trip: apply_case must find what train_case wrote for words whose lower-case form has another length
        if st == 0 and "apply_case" in tools:
            fm3, fal3 = os.path.join(SCRATCH, "m.model"), os.path.join(SCRATCH, "m.sym")
            open(fm3, "wb").write(so)
            rt = [(b"Der", b"the"), (b"stadt", ulower(b"\xc4\xb0stanbul")), (b"grad", b"kelvin"), (b"k", b"k"),
                  # apply_case gets these target words with non-ASCII capitals only; their keys are those of the lower-case forms
                  (b"sommer", b"\xc3\x89t\xc3\xa9"), (b"ue", b"\xc3\x9c"), (b"zh", b"\xd0\x96")]
            n3 = len(rt) + 1
            open(fs3, "wb").write(b"<s> " + b" ".join(x for x, _ in rt) + b"\n")
            open(ft3, "wb").write(b"<t> " + b" ".join(y for _, y in rt) + b"\n")
            open(fal3, "wb").write(b"0 ||| " + b" ".join(b"%d-%d" % (i, i) for i in range(n3)) + b"\n")
            st3, so3, se3 = run_tool([repo_bin("apply_case"), fal3, fs3, ft3, fm3], timeout=60)
            want3 = b"<t> The \xc4\xb0stanbul \xe2\x84\xaaelvin \xe2\x84\xaa \xc3\x89T\xc3\x89 \xc3\xbc \xd0\xb6\n"
            c.count(("case-roundtrip-unicode",), bucket="tool/case-roundtrip-length-changing-lowercase")
            c.cov["traces_validated_against_impl"] += 1
            if st3 != 0 or so3 != want3:
                c.violation("tool/case-roundtrip: apply_case did not find train_case's entries (words whose lower-case form has a different UTF-8 length / whose only capitals are non-ASCII): output %r, expected %r (status %s)" % (so3, want3, st3),
                            {"op": "train_case|apply_case", "kind": "roundtrip", "train_align": al_b.decode("latin1"), "train_source": src_b.decode("latin1"),
                             "train_target_hex": hexs(tgt_b), "model": so[:1500].decode("latin1"), "apply_stdout_hex": hexs(so3), "expected_hex": hexs(want3)})

    # apply_case on multi-line inputs against a hand-written model: the key looked up for every alignment point of every
    # line is 64A(lower(target word), 64A(source word)) whatever was processed before (consecutive lines whose last /
    # first alignment points share a source index, one-word lines all aligned 0-0, unsorted alignments, repeated indices)
    if "apply_case" in tools:
        known = {(b"World", b"welt"): b"Welt", (b"Peace", b"frieden"): b"Frieden", (b"House", b"haus"): b"Haus", (b"the", b"die"): b"Die",
                 (b"Green", b"gruen"): b"Gruen", (b"x" * 9, b"lang"): b"LANG", (b"a", b"ein"): b"Ein",
                 (b"Summer", b"\xc3\xa9t\xc3\xa9"): b"\xc3\x89T\xc3\x89", (b"J", b"\xd0\xb6"): b"\xd0\xb6"}
        best = {murmur64a_py(low, murmur64a_py(src, 0)): cased for (src, low), cased in known.items()}
        fm = os.path.join(SCRATCH, "handmodel")
        open(fm, "wb").write(b"".join(b"%d\t%s 3\n" % (k, v) for k, v in best.items()))
        srcs = [b"World", b"Peace", b"House", b"the", b"Green", b"x" * 9, b"a", b"other"]
        lows = [b"welt", b"frieden", b"haus", b"die", b"gruen", b"lang", b"ein", b"sonst"]
        srcs += [b"Summer", b"J"]
        lows += [b"\xc3\x89t\xc3\xa9", b"\xd0\x96"]       # given with non-ASCII capitals only

        def apply_py(test):
            res = []
            for sw, tw, al in test:
                tw = list(tw)
                for a, b in al:
                    k = murmur64a_py(ulower(tw[b]), murmur64a_py(sw[a], 0))
                    if k in best:
                        tw[b] = best[k]
                res.append(b" ".join(tw))
            return res
        tests = []
        # one-word lines, all aligned 0-0, every ordered pair of (source, target) following every other
        t0 = []
        for i in range(len(srcs)):
            for j in (i, (i + 1) % len(srcs), (i + 3) % len(srcs)):
                t0.append(([srcs[i]], [lows[j]], [(0, 0)]))
        tests.append(t0)
        tests.append([([srcs[i % len(srcs)]], [lows[(i * 3) % len(srcs)]], [(0, 0)]) for i in range(50)])
        # lines that end on the source index the next line starts with; unsorted and repeated alignment points
        for _ in range(6 if c.tier == "quick" else 60):
            t = []
            last = 0
            for _ in range(rng.randrange(3, 12)):
                n = rng.randrange(1, 4)
                sw = [rng.choice(srcs) for _ in range(n)]
                tw = [rng.choice(lows) for _ in range(n)]
                al = [(rng.randrange(n), rng.randrange(n)) for _ in range(rng.randrange(1, 5))]
                if last < n and rng.random() < 0.7:
                    al[0] = (last, al[0][1])          # start on the index the previous line ended with
                last = al[-1][0]
                t.append((sw, tw, al))
            tests.append(t)
        for test in tests:
            fs2, ft2, fa2 = [os.path.join(SCRATCH, n_) for n_ in ("a.src", "a.tgt", "a.align")]
            open(fs2, "wb").write(b"".join(b" ".join(sw) + b"\n" for sw, tw, al in test))
            open(ft2, "wb").write(b"".join(b" ".join(tw) + b"\n" for sw, tw, al in test))
            open(fa2, "wb").write(b"".join(b"%d ||| %s\n" % (i, b" ".join(b"%d-%d" % p_ for p_ in al)) for i, (sw, tw, al) in enumerate(test)))
            st, so, se = run_tool([repo_bin("apply_case"), fa2, fs2, ft2, fm], timeout=60)
            want = apply_py(test)
            got = so.split(b"\n")[:-1]
            c.count(("apply_case-seq", len(test), tuple(tuple(x[2]) for x in test)), bucket="tool/apply_case-multiline")
            c.cov["traces_validated_against_impl"] += 1
            if st != 0 or got != want:
                i = next((k for k in range(min(len(got), len(want))) if got[k] != want[k]), min(len(got), len(want)))
                sw, tw, al = test[min(i, len(test) - 1)]
                # the same line alone
                open(fs2, "wb").write(b" ".join(sw) + b"\n")
                open(ft2, "wb").write(b" ".join(tw) + b"\n")
                open(fa2, "wb").write(b"0 ||| " + b" ".join(b"%d-%d" % p_ for p_ in al) + b"\n")
                st1, so1, _ = run_tool([repo_bin("apply_case"), fa2, fs2, ft2, fm], timeout=60)
                c.violation("tool/case-key-sequence: apply_case printed %r for line %d (source %r, target %r, alignment %r) of a %d-line input; the keys 64A(lower(target), 64A(source)) "
                            "of the model give %r; the same line processed alone gives %r (status %s)" % (
                                got[i] if i < len(got) else None, i, b" ".join(sw), b" ".join(tw), al, len(test), want[i] if i < len(want) else None, so1.strip(), st),
                            {"op": "apply_case", "kind": "sequence", "line_index": i,
                             "source_lines": [b" ".join(x[0]).decode("latin1") for x in test[:i + 1]], "target_lines": [b" ".join(x[1]).decode("latin1") for x in test[:i + 1]],
                             "alignments": [" ".join("%d-%d" % p_ for p_ in x[2]) for x in test[:i + 1]], "model": open(fm, "rb").read().decode("latin1"),
                             "impl_line": (got[i] if i < len(got) else b"").decode("latin1"), "expected_line": (want[i] if i < len(want) else b"").decode("latin1")})
                break

    shutil.rmtree(SCRATCH, ignore_errors=True)
    return c.finish(level="proof",
                    rule="MurmurHash64A/Native: every length 0..%d x 8 start alignments x 4 seeds with the string ending <8 bytes before a PROT_NONE page (two fills) vs an independent "
                         "Python MurmurHash64A; extracted model vs implementation on every length 0..72 x 5 content kinds (incl. bytes >= 0x80 in the tail), longer samples, len < buffer, "
                         "field folds and shard indices (incl. n > 2^32); tools: mmhsum (0..2 MiB+, chained), order_independent_hash, shard placement (whole line and -f), "
                         "train_case keys and apply_case lookup (single line and multi-line sequences against a hand-written model), subtract_lines. distinct = distinct non-empty cases" % maxlen,
                    assumptions=["x86-64 little-endian, sizeof(void*) = 8 (MurmurHashNative = MurmurHash64A); the ARM memcpy branch and MurmurHash64B are not modelled",
                                 "uint64_t / size_t arithmetic is modelled as Z.land _ (2^64-1)",
                                 "ICU ToLower on ASCII words lower-cases them (train_case/apply_case tool test)"])


if __name__ == "__main__":
    sys.exit(main(sys.argv[1:]))
