"""C18 -- line filters keep or drop each line by its own content only.

remove_long_lines, remove_invalid_utf8, remove_invalid_utf8_base64, simple_cleaning, subtract_lines,
commoncrawl_dedupe:  build -> proofs -> extracted models -> the six REAL binaries vs the models on byte
streams -> direct oracles on the binaries' output (independent Python references: subsequence, exact
thresholds at L-1/L/L+1, set subtraction, commoncrawl spec, simple_cleaning safety) -> metamorphic
split test F(A++B) = F(A)++F(B) on the implementation for the four stateless tools."""
import base64 as pyb64
import os
import re
import shutil
import sys
import tempfile

sys.path.insert(0, os.path.join(os.path.dirname(os.path.abspath(__file__)), "..", "tools"))
from checklib import *  # noqa

M64 = (1 << 64) - 1
MUR_M = 0xc6a4a7935bd1e995
MUR_R = 47
MUR_MINV = pow(MUR_M, -1, 1 << 64)
SPACES = b" \t\n\v\f\r"
MAGIC = b"df6fa1abb58549287111ba8d776733e9"


def hash0_line(rng, utf8=False, seed=1):
    """a 16-byte line with MurmurHash64A(line, 16, seed) == 0"""
    while True:
        first = bytes(rng.choice(b"abcdefghijklmnopqrstuvwxyz") for _ in range(8))
        h = (seed ^ ((16 * MUR_M) & M64)) & M64
        k = int.from_bytes(first, "little")
        k = (k * MUR_M) & M64
        k ^= k >> MUR_R
        k = (k * MUR_M) & M64
        h ^= k
        h = (h * MUR_M) & M64
        x = (h * MUR_MINV) & M64
        y = x ^ (x >> MUR_R)
        line = first + ((y * MUR_MINV) & M64).to_bytes(8, "little")
        if b"\n" in line or line[-1:] in (b"\r",) or line[-1] in SPACES or b"\x00" in line:
            continue
        if utf8 and not is_utf8(line):
            continue
        return line


def is_utf8(b):
    try:
        b.decode("utf-8", "strict")
        return True
    except UnicodeDecodeError:
        return False


def py_records(data):
    parts = data.split(b"\n")
    tail = parts.pop()
    out = [p[:-1] if p.endswith(b"\r") else p for p in parts]
    if tail:
        out.append(tail)
    return out


def raw_lines(data):
    """split at LF only: the tools built on FilterParallel (and remove_invalid_utf8) keep a trailing CR"""
    parts = data.split(b"\n")
    tail = parts.pop()
    if tail:
        parts.append(tail)
    return parts


def join(lines):
    return b"".join(l + b"\n" for l in lines)


def is_subsequence(sub, full):
    it = iter(full)
    return all(any(x == y for y in it) for x in sub)


def hexd(b):
    return b.hex() if b else "-"


PIECES = [b"a", b"b", b"hello", b" ", b"\t", b"\r", b"\x00", b"\x01", b"\x1f", b"\x7f", b"\xc3\xa9", b"\xe2\x82\xac", b"\xf0\x9f\x98\x80",
          b"\xc3", b"\xa9", b"\xed\xa0\x80", b"\xc0\xaf", b"\xf4\x90\x80\x80", b"\xef\xbf\xbd", b"\xe1\x9a\x80", b".", b",", b"1", b"\xd0\x96", b"\x0b", b"\x0c"]


def gen_line(rng, maxp=6):
    return b"".join(rng.choice(PIECES) for _ in range(rng.randrange(0, maxp)))


def gen_stream(rng, nlines=None, pool=None):
    n = rng.randrange(0, 12) if nlines is None else nlines
    lines = [(rng.choice(pool) if pool else gen_line(rng)).replace(b"\n", b"") for _ in range(n)]
    data = b"\n".join(lines)
    if lines and rng.random() < 0.75:
        data += b"\n"
    return data


class Runner:
    def __init__(self, c, tmp):
        self.c = c
        self.tmp = tmp
        self.nruns = 0

    def run(self, tool, args, data, timeout=60):
        self.nruns += 1
        return run_tool([repo_bin(tool)] + list(args), stdin=data, timeout=timeout)

    def file(self, name, data):
        p = os.path.join(self.tmp, name)
        with open(p, "wb") as f:
            f.write(data)
        return p


def main(argv):
    c = Check("C18", argv)
    tools = ["remove_long_lines", "remove_invalid_utf8", "remove_invalid_utf8_base64", "simple_cleaning", "subtract_lines", "commoncrawl_dedupe"]
    ok, blog = build_repo(["hx_filters", "hx_cleaning"] + tools)
    if not ok:
        c.broken.append("build of the repo working tree / harnesses failed: " + blog[-800:])
        return c.finish(rule="build failed")
    c.proofs()
    if c.tier == "thorough":
        coqchk(c)
    drv, dlog = build_driver("C18")
    if drv is None:
        c.broken.append("extraction/driver build failed: " + dlog[-600:])
    hxf, hxc = hx_bin("hx_filters"), hx_bin("hx_cleaning")
    rng = c.rng
    thorough = c.tier == "thorough"
    reps = 150 if not thorough else 600
    tmp = tempfile.mkdtemp(prefix="c18-", dir=os.environ.get("VERIF_BUILD", "/var/tmp"))
    R = Runner(c, tmp)
    model_lines, model_expect = [], []      # driver protocol lines and (description, impl result) to compare

    def expect(line, what, st, out):
        model_lines.append(line)
        model_expect.append((what, "OK " + hexd(out) if st == 0 else ("ABORT" if st in (134, -6) else "STATUS %s" % st)))

    def split_check(tool, args, data, bucket):
        """metamorphic: the tool on A ++ B equals the tool on A followed by the tool on B (A ends at a line boundary)"""
        lines = data.split(b"\n")
        if len(lines) < 3:
            return
        cut = rng.randrange(1, len(lines) - 1)
        a = b"\n".join(lines[:cut]) + b"\n"
        b = b"\n".join(lines[cut:])
        sa, oa, _ = R.run(tool, args, a)
        sb, ob, _ = R.run(tool, args, b)
        sab, oab, _ = R.run(tool, args, data)
        c.count((tool, "split", data, cut), bucket=bucket + "/split-metamorphic")
        if (sa, sb, sab) == (0, 0, 0) and oa + ob != oab:
            c.violation("context-dependence: %s on A++B differs from (%s A)++(%s B)" % (tool, tool, tool),
                        {"tool": tool, "args": args, "A_hex": a.hex(), "B_hex": b.hex(), "out_A_hex": oa.hex(), "out_B_hex": ob.hex(), "out_AB_hex": oab.hex(),
                         "how": "bin/%s %s < A; < B; < A++B" % (tool, " ".join(args))})

    try:
        # ------------------------------------------------------------ remove_long_lines
        # the limit argument is a plain decimal number (boost::lexical_cast<std::size_t>): zero-padded forms are decimal,
        # a 0x prefix is rejected
        for bad in ("0x10", "0X5", "5x"):
            st, out, err = R.run("remove_long_lines", [bad], b"abc\n" * 3)
            c.count(("long-badarg", bad), bucket="remove_long_lines/non-decimal-limit")
            if st == 0:
                c.violation("threshold: remove_long_lines accepted the non-decimal limit %r (and kept %d of 3 lines of 3 bytes)" % (bad, out.count(b"\n")),
                            {"tool": "remove_long_lines", "args": [bad], "stdin_hex": (b"abc\n" * 3).hex(), "out_hex": out.hex(), "how": "bin/remove_long_lines %s < stdin" % bad})
        for limit in [None, 0, 1, 5, 64, 2000, 70000, "0100", "010", "00", "0064"]:
            L = 2000 if limit is None else int(limit)
            args = [] if limit is None else [str(limit)]
            for r in range(max(3, reps // 8)):
                lens = [max(0, L + d) for d in (-1, 0, 1)] + [rng.randrange(0, L + 3) for _ in range(3)]
                rng.shuffle(lens)
                lines = []
                for n in lens:
                    body = bytes(rng.choice(b"xyz\xc3\xa9\x00 ") for _ in range(n))
                    kind = rng.random()
                    lines.append(body + (b"\r" if kind < 0.25 else b""))
                data = b"\n".join(lines) + (b"\n" if rng.random() < 0.7 else b"")
                st, out, err = R.run("remove_long_lines", args, data)
                recs = py_records(data)
                c.count(("long", limit, data), nontrivial=True, bucket="remove_long_lines/limit=%s" % ("default" if limit is None else limit))
                want = join([l for l in recs if len(l) <= L])
                desc = {"tool": "remove_long_lines", "args": args, "stdin_hex": data.hex() if len(data) < 3000 else "len %d" % len(data),
                        "line_lengths_after_CR_strip": [len(l) for l in recs], "how": "bin/remove_long_lines %s < stdin" % " ".join(args)}
                if st != 0 or out != want:
                    kept = [len(l) for l in out.split(b"\n")[:-1]]
                    c.violation("threshold: remove_long_lines limit %d kept lines of lengths %s from lengths %s (a line of exactly LIMIT bytes must be kept, LIMIT+1 dropped); status %s" % (
                        L, kept, [len(l) for l in recs], st), dict(desc, out_hex=out[:3000].hex(), expected_hex=want[:3000].hex()))
                if len(data) < 20000:
                    expect("L %d %s" % (L, hexd(data)), ("remove_long_lines", args, data), st, out)
                if r < 2:
                    split_check("remove_long_lines", args, data, "remove_long_lines")
        c.sample({"tool": "remove_long_lines", "args": ["5"], "line lengths": "4,5,6 + random, some with CR"})

        # ------------------------------------------------------------ remove_invalid_utf8
        for r in range(reps * 2):
            data = gen_stream(rng)
            st, out, err = R.run("remove_invalid_utf8", [], data)
            # this tool keeps well-formed lines UNCHANGED, a trailing CR included (no CR normalisation)
            recs = data.split(b"\n")
            if recs[-1] == b"":
                recs.pop()
            c.count(("utf8", data), nontrivial=len(recs) > 0, bucket="remove_invalid_utf8/" + ("has-invalid" if any(not is_utf8(l) for l in recs) else "all-valid"))
            want = join([l for l in recs if is_utf8(l)])
            if st != 0 or out != want:
                c.violation("utf8-gate: remove_invalid_utf8 output is not exactly the well-formed lines (status %s)" % st,
                            {"tool": "remove_invalid_utf8", "stdin_hex": data.hex(), "out_hex": out.hex(), "expected_hex": want.hex(), "how": "bin/remove_invalid_utf8 < stdin"})
            expect("U " + hexd(data), ("remove_invalid_utf8", [], data), st, out)
            if r % 4 == 0:
                split_check("remove_invalid_utf8", [], data, "remove_invalid_utf8")
        # every byte 0x80..0xFF in each trail position of 2-, 3- and 4-byte sequences
        trail_lines = []
        for x in range(0x80, 0x100):
            b = bytes([x])
            trail_lines += [b"\xc3" + b, b"\xe2" + b + b"\x80", b"\xe2\x82" + b, b"\xf0" + b + b"\x98\x80", b"\xf0\x9f" + b + b"\x80", b"\xf0\x9f\x98" + b, b"a" + b + b"z"]
        data = join(trail_lines)
        st, out, err = R.run("remove_invalid_utf8", [], data)
        c.count(("utf8-trail", data), bucket="remove_invalid_utf8/every-byte-in-trail-position")
        want = join([l for l in trail_lines if is_utf8(l)])
        if st != 0 or out != want:
            wrong = [l for l in out.split(b"\n")[:-1] if not is_utf8(l)][:3] or [l for l in trail_lines if is_utf8(l) and l not in out.split(b"\n")][:3]
            c.violation("utf8-gate: remove_invalid_utf8 on every byte 0x80..0xFF in each trail position: wrongly handled %r (status %s)" % (wrong, st),
                        {"tool": "remove_invalid_utf8", "stdin_hex": join(wrong).hex() if wrong else data.hex(), "how": "bin/remove_invalid_utf8 < stdin"})
        expect("U " + hexd(data), ("remove_invalid_utf8", [], b"(trail sweep)"), st, out)
        b64data = join([pyb64.b64encode(l) for l in trail_lines])
        st, out, err = R.run("remove_invalid_utf8_base64", [], b64data)
        c.count(("b64-trail", b64data), bucket="remove_invalid_utf8_base64/every-byte-in-trail-position")
        want = join([pyb64.b64encode(l) if is_utf8(l) else b"" for l in trail_lines])
        if st != 0 or out != want:
            got = out.split(b"\n")[:-1]
            j = next((i for i, (g, w) in enumerate(zip(got, want.split(b"\n"))) if g != w), 0)
            c.violation("b64-utf8-gate: document %r (base64 %r) was %s" % (trail_lines[j], pyb64.b64encode(trail_lines[j]), "kept" if j < len(got) and got[j] else "emptied"),
                        {"tool": "remove_invalid_utf8_base64", "stdin_hex": (pyb64.b64encode(trail_lines[j]) + b"\n").hex(), "how": "bin/remove_invalid_utf8_base64 < stdin"})
        expect("B " + hexd(b64data), ("remove_invalid_utf8_base64", [], b"(trail sweep)"), st, out)
        c.sample({"tool": "remove_invalid_utf8", "stdin": repr(gen_stream(rng))})

        # ------------------------------------------------------------ remove_invalid_utf8_base64
        for r in range(reps):
            docs = [gen_line(rng, 8) for _ in range(rng.randrange(0, 8))]
            lines = []
            for d in docs:
                e = pyb64.b64encode(d)
                if rng.random() < 0.3:
                    e = e.rstrip(b"=")
                lines.append(e)
            if rng.random() < 0.08:
                lines.insert(rng.randrange(0, len(lines) + 1), b"QUJD*A==")     # a foreign character: base64_decode throws
            data = b"\n".join(lines) + (b"\n" if lines and rng.random() < 0.8 else b"")
            st, out, err = R.run("remove_invalid_utf8_base64", [], data)
            recs = py_records(data)
            bad = any(re.search(rb"[^A-Za-z0-9+/]", l.split(b"=")[0]) for l in recs)
            c.count(("b64", data), nontrivial=len(recs) > 0, bucket="remove_invalid_utf8_base64/" + ("undecodable" if bad else "decodable"))
            expect("B " + hexd(data), ("remove_invalid_utf8_base64", [], data), st, out)
            if bad:
                continue
            want_lines = []
            for l in recs:
                core = l.split(b"=")[0]
                core = core[:len(core) - (1 if len(core) % 4 == 1 else 0)]
                dec = pyb64.b64decode(core + b"=" * (-len(core) % 4))
                want_lines.append(l if is_utf8(dec) else b"")
            want = join(want_lines)
            desc = {"tool": "remove_invalid_utf8_base64", "stdin_hex": data.hex(), "out_hex": out.hex(), "how": "bin/remove_invalid_utf8_base64 < stdin"}
            if st != 0 or out != want:
                c.violation("b64-utf8-gate: output is not line-for-line (document if UTF-8 else empty document); status %s" % st, dict(desc, expected_hex=want.hex()))
            elif not is_subsequence(out.split(b"\n")[:-1], recs):
                c.violation("subsequence: remove_invalid_utf8_base64 output is not a subsequence of its input lines (an invalid document is REPLACED by an empty line)", dict(desc, replaced_not_removed="yes"))
            if r % 4 == 0:
                split_check("remove_invalid_utf8_base64", [], data, "remove_invalid_utf8_base64")

        # ------------------------------------------------------------ subtract_lines
        z16 = hash0_line(rng)
        sub_cases = []
        for r in range(reps):
            pool = [gen_line(rng, 3) for _ in range(rng.randrange(1, 8))]
            sub = gen_stream(rng, rng.randrange(0, 6), pool)
            data = gen_stream(rng, rng.randrange(0, 14), pool + [gen_line(rng, 3)])
            sub_cases.append((sub, data, "random"))
        sub_cases += [(b"", z16 + b"\n", "line-hashing-to-0"), (b"x\n", b"a\n" + z16 + b"\nx\n" + z16 + b"\n", "line-hashing-to-0"),
                      (z16 + b"\n", b"a\n" + z16 + b"\nb\n", "line-hashing-to-0"), (b"", b"", "boundary"), (b"a\n", b"a", "boundary"),
                      (b"a\r\n", b"a\na\r\nb\n", "boundary"), (b"\n", b"\n\nx\n", "boundary")]
        # partial collisions (hashes agree in the low / high 32 bits only): the other line must NOT be removed
        partial = murmur_partial_collisions(250000 if not thorough else 1500000, seed=1)
        for kind_, prs in partial.items():
            for a_, b_ in prs:
                sub_cases.append((a_ + b"\n", b_ + b"\n" + a_ + b"\nq\n" + b_ + b"\n", "partial-collision/" + kind_))
                sub_cases.append((b_ + b"\n", a_ + b"\n", "partial-collision/" + kind_))
        # many keys: every growth step of the table
        big = [b"s%d" % i for i in range(30000 if not thorough else 400000)]
        sub_cases.append((join(big[::2]), join(big), "large"))
        sub_results = []
        for sub, data, kind in sub_cases:
            p = R.file("subtrahend", sub)
            st, out, err = R.run("subtract_lines", [p], data, timeout=120)
            sub_results.append((st, out))
            srecs, recs = set(py_records(sub)), py_records(data)
            c.count(("sub", sub, data), nontrivial=len(recs) > 0, bucket="subtract_lines/" + kind)
            want = join([l for l in recs if l not in srecs])
            if st != 0 or out != want:
                got = out.split(b"\n")[:-1]
                keepable = [l for l in recs if l not in srecs]
                wrong_removed = sorted(set(l for l in keepable if got.count(l) < keepable.count(l)))[:2]
                wrong_kept = sorted(set(l for l in got if l in srecs))[:2]
                c.violation("set-subtraction: subtract_lines must remove every copy of every subtrahend line and nothing else; wrongly removed %r, wrongly kept %r (status %s)" % (wrong_removed, wrong_kept, st),
                            {"tool": "subtract_lines", "subtrahend_hex": sub[:3000].hex(), "stdin_hex": data[:3000].hex(), "out_hex": out[:3000].hex(), "expected_hex": want[:3000].hex(),
                             "how": "bin/subtract_lines subtrahend < stdin"})
        c.sample({"tool": "subtract_lines", "subtrahend": repr(sub_cases[0][0]), "stdin": repr(sub_cases[0][1])})

        # ------------------------------------------------------------ commoncrawl_dedupe
        z16u = hash0_line(rng, utf8=True)
        cc_cases = []
        for r in range(reps):
            pool = [rng.choice([b"", b" ", b"\t "]) + gen_line(rng, 3) + rng.choice([b"", b" ", b"\r", b" \x0b"]) for _ in range(rng.randrange(1, 8))]
            pool.append(MAGIC + b" http://x/")
            pool.append(b"  " + MAGIC)
            pool.append(MAGIC[:-1])
            rem = gen_stream(rng, rng.randrange(0, 5), pool) if rng.random() < 0.5 else None
            data = gen_stream(rng, rng.randrange(0, 14), pool)
            cc_cases.append((rem, data, "random"))
        cc_cases += [(None, z16u + b"\n", "line-hashing-to-0"), (None, b"a\n " + z16u + b"\nb\n" + z16u + b" \n", "line-hashing-to-0"),
                     (z16u + b"\n", b"a\n" + z16u + b"\n", "line-hashing-to-0"), (None, b"", "boundary"), (b"", b"x", "boundary"),
                     (None, b"\xff\n\xff\nok\nok\n", "boundary"), (MAGIC + b"\n", MAGIC + b"\nq\n", "boundary")]
        for kind_, prs in partial.items():
            for a_, b_ in prs:
                cc_cases.append((None, a_ + b"\n" + b_ + b"\n" + a_ + b"\n", "partial-collision/" + kind_))
                cc_cases.append((a_ + b"\n", b_ + b"\n" + a_ + b"\n", "partial-collision/" + kind_))
        cc_trail = []
        for x in range(0x80, 0x100):
            cc_trail += [b"\xc3" + bytes([x]), b"\xe2\x82" + bytes([x]), b"\xf0\x9f\x98" + bytes([x])]
        cc_cases.append((None, join(cc_trail), "every-byte-in-trail-position"))
        cc_results = []
        for rem, data, kind in cc_cases:
            args = [] if rem is None else [R.file("removal", rem)]
            st, out, err = R.run("commoncrawl_dedupe", args, data)
            cc_results.append((st, out))
            c.count(("cc", rem, data), nontrivial=len(data) > 0, bucket="commoncrawl_dedupe/" + kind + ("+removal-file" if rem is not None else ""))
            seen = set(l.strip(SPACES) for l in py_records(rem)) if rem is not None else set()
            want_lines = []
            for l in py_records(data):
                l = l.strip(SPACES)
                if l.startswith(MAGIC):
                    continue
                new = l not in seen
                seen.add(l)
                if new and is_utf8(l):
                    want_lines.append(l)
            want = join(want_lines)
            if st != 0 or out != want:
                c.violation("commoncrawl-spec: output differs from (strip spaces; drop document-delimiter lines; first occurrence not in the removal file; valid UTF-8); status %s" % st,
                            {"tool": "commoncrawl_dedupe", "removal_hex": None if rem is None else rem.hex(), "stdin_hex": data.hex(), "out_hex": out.hex(), "expected_hex": want.hex(),
                             "how": "bin/commoncrawl_dedupe [removal] < stdin"})

        # ------------------------------------------------------------ keys for the set-based models, then model lines
        if drv is not None:
            pre = []
            for sub, data, kind in sub_cases:
                if kind != "large":
                    pre += ["R " + hexd(sub), "R " + hexd(data)]
            for rem, data, kind in cc_cases:
                pre += ["X " + hexd(rem or b""), "X " + hexd(data)]
            rc, recs_out, e1 = run_lines(drv, pre, timeout=600)
            if len(recs_out) != len(pre):
                c.broken.append("C18 driver R/X failed: " + e1[-300:])
            else:
                klines = ["K 1 " + " ".join(sorted(set(a.split() + b.split()))) for a, b in zip(recs_out[0::2], recs_out[1::2])]
                keys = run_lines_robust(hxf, klines, timeout=300)
                i = 0
                for (sub, data, kind), res in zip(sub_cases, sub_results):
                    if kind == "large":
                        continue
                    names = klines[i][4:].split()
                    kv = " ".join("%s=%s" % (n, k) for n, k in zip(names, keys[i].split())) if names else ""
                    model_lines.append("KEYS " + kv)
                    model_expect.append((None, "ok"))
                    expect("S %s %s" % (hexd(sub), hexd(data)), ("subtract_lines", "subtrahend=%r" % sub[:60], data), res[0], res[1])
                    if len(sub) + len(data) < 3000:
                        expect("SR %s %s" % (hexd(sub), hexd(data)), ("subtract_lines(complete model, Murmur keys from the C14 model)", "subtrahend=%r" % sub[:60], data), res[0], res[1])
                    i += 1
                for (rem, data, kind), res in zip(cc_cases, cc_results):
                    names = klines[i][4:].split()
                    kv = " ".join("%s=%s" % (n, k) for n, k in zip(names, keys[i].split())) if names else ""
                    model_lines.append("KEYS " + kv)
                    model_expect.append((None, "ok"))
                    expect("C %s %s" % (hexd(rem or b""), hexd(data)), ("commoncrawl_dedupe", "removal=%r" % (rem[:60] if rem else rem), data), res[0], res[1])
                    if len(rem or b"") + len(data) < 3000:
                        expect("CR %s %s" % (hexd(rem or b""), hexd(data)), ("commoncrawl_dedupe(complete model, Murmur keys from the C14 model)", "removal=%r" % (rem[:60] if rem else rem), data), res[0], res[1])
                    i += 1
                # the model's UTF-8 predicate and StripSpaces against the library functions directly
                probe = sorted(set(gen_line(rng, 5) for _ in range(400)) | set(PIECES))
                a = run_lines_robust(hxf, ["W " + " ".join(hexd(p) for p in probe)])[0]
                rc, b, _ = run_lines(drv, ["W " + hexd(p) for p in probe])
                c.cov["traces_validated_against_impl"] += len(probe)
                if "".join(b) != a:
                    j = next((x for x in range(min(len(a), len(b))) if a[x] != b[x]), 0)
                    c.broken.append("model wf_utf8 vs util::IsUTF8 disagree on %r: model=%s impl=%s" % (probe[j], b[j] if j < len(b) else "?", a[j] if j < len(a) else "?"))

        # ------------------------------------------------------------ simple_cleaning
        letters = "abcdefghijklmnopqrstuvwxyz"
        sc_cases = []        # (args, (min_chars, run, sample, mci, minpunct, fieldspec, delim), data, kind)

        def sc_args(mc=30, run=5, sample=200, mci="0.2", mp="0.01", fields="1-", delim=b"\t", scripts=(), ms="0.9"):
            a = []
            if mc != 30:
                a += ["--min-chars", str(mc)]
            if run != 5:
                a += ["--character-run", str(run)]
            if sample != 200:
                a += ["--min-punct-sample-size", str(sample)]
            if mci != "0.2":
                a += ["--max-common-inherited", mci]
            if mp != "0.01":
                a += ["--min-punct", mp]
            if fields != "1-":
                a += ["-f", fields]
            if delim != b"\t":
                a += ["-d", delim.decode()]
            if scripts:
                if ms != "0.9":
                    a += ["--min-scripts", ms]
                a += ["--scripts"] + list(scripts)          # multitoken: last
            return a, (mc, run, sample, mci, mp, fields, delim, tuple(scripts), ms)

        def word_line(n, start=0):
            return "".join(letters[(start + i) % 26] for i in range(n)).encode()

        # exact thresholds: min_chars at L-1, L, L+1 code points (one field); character run at run-1, run, run+1
        for mc in (1, 5, 30):
            a, o = sc_args(mc=mc)
            lines = [word_line(max(0, mc + d), s) for d in (-1, 0, 1) for s in (0, 7)] + [("é" * 0 + "".join("éèêëàâîïôö"[i % 10] for i in range(mc + d))).encode() for d in (-1, 0, 1)]
            rng.shuffle(lines)
            sc_cases.append((a, o, join(lines), "min-chars-threshold"))
        for run in (2, 5, 7):
            a, o = sc_args(mc=3, run=run, mci="1.0")
            # supplementary-plane code points: runs of U+1F600, and U+10041 followed by 'A's (same low 16 bits, NOT a run)
            sup = [b"abc" + "\U0001F600".encode() * (run + d) + b"def" for d in (-1, 0, 1)] + \
                  [b"abc" + "\U00010041".encode() + b"A" * (run - 1) + b"def", b"abc" + b"A" * (run - 1) + "\U00010041".encode() + b"def",
                   b"ab" + "\U00020000".encode() * (run - 1) + "\u0000".encode() * 0 + b"cd"]
            lines = sup + [b"abc" + b"x" * (run + d) + b"def" for d in (-1, 0, 1)] + [b"abc" + b" " * (run + 2) + b"defghi"] + [b"ab" + "é".encode() * (run + dd) + b"cd" for dd in (-1, 0)]
            sc_cases.append((a, o, join(lines), "character-run-threshold"))
        # safety boundary: an otherwise acceptable line with exactly one C0 control / DEL / ill-formed sequence in it
        a, o = sc_args(mc=3, mci="1.0")
        bad_bits = [bytes([x]) for x in range(0, 32) if x != 10] + [b"\x7f", b"\xc3", b"\xa9", b"\xed\xa0\x80", b"\xc0\xaf", b"\xf4\x90\x80\x80", b"\xe2\x82", b"\xf0\x9f\x98"]
        sc_cases.append((a, o, join([b"hello " + x + b" world" for x in bad_bits] + [b"hello" + x + b"world" for x in bad_bits] + [x + b"hello world" for x in bad_bits]), "safety-boundary"))
        a, o = sc_args(mc=3, mci="1.0", delim=b",")
        sc_cases.append((a, o, join([b"hello" + x + b"world,abc" for x in bad_bits]), "safety-boundary"))
        words = ["hello", "world", "the", "quick", "brown", "fox", "jumps", "over", "lazy", "dog", "żółw", "naïve", "Привет", "мир", "123", "4.5", "...", "!?", "€", "😀"]
        for r in range(reps):
            mc = rng.choice([1, 3, 10, 30])
            fields, delim = rng.choice([("1-", b"\t"), ("1-", b"\t"), ("2", b"\t"), ("1,3", b"\t"), ("2-", b","), ("1-2", b"\t")])
            scripts = rng.choice([(), (), ("Latin",), ("Cyrillic",), ("Latin", "Cyrillic")])
            a, o = sc_args(mc=mc, run=rng.choice([5, 5, 3]), mci=rng.choice(["0.2", "0.5", "1.0"]), sample=rng.choice([200, 10]), fields=fields, delim=delim,
                           scripts=scripts, ms=rng.choice(["0.9", "0.5", "1.0"]))
            lines = []
            for _ in range(rng.randrange(1, 10)):
                nf = rng.randrange(1, 4)
                fs = []
                for _f in range(nf):
                    k = rng.random()
                    if k < 0.6:
                        f = " ".join(rng.choice(words) for _ in range(rng.randrange(1, 12))).encode()
                    elif k < 0.8:
                        f = gen_line(rng, 6).replace(b"\t", b"").replace(b",", b"")
                    else:
                        f = word_line(rng.randrange(0, 40), rng.randrange(26))
                    fs.append(f)
                lines.append(delim.join(fs) + rng.choice([b"", b"", delim, b"\r"]))
            data = b"\n".join(lines) + (b"\n" if rng.random() < 0.8 else b"")
            sc_cases.append((a, o, data, "random+scripts" if scripts else "random"))
        sc_results = []
        for a, o, data, kind in sc_cases:
            st, out, err = R.run("simple_cleaning", a, data)
            sc_results.append((st, out))
            recs = raw_lines(data)            # FilterParallel hands lines over unchanged (no CR stripping)
            c.count(("sc", tuple(a), data), nontrivial=len(recs) > 0, bucket="simple_cleaning/" + kind)
            desc = {"tool": "simple_cleaning", "args": a, "stdin_hex": data.hex(), "out_hex": out.hex(), "how": "bin/simple_cleaning %s < stdin" % " ".join(a)}
            if st != 0:
                c.violation("simple_cleaning-exit: status %s: %s" % (st, err[-200:]), desc)
                continue
            outl = out.split(b"\n")[:-1]
            if not is_subsequence(outl, recs):
                c.violation("subsequence: simple_cleaning output is not a subsequence of its input lines", desc)
            delim = o[6]
            for l in outl:
                # safety: with the default key (all fields) no ill-formed UTF-8 and no C0 control except TAB / CR
                if o[5] == "1-" and (not is_utf8(l) or any(b < 32 and b not in (9, 13) for b in l)):
                    c.violation("simple_cleaning-safety: passed a line with ill-formed UTF-8 or a C0 control character: %r" % l[:60], desc)
                    break
            if kind == "min-chars-threshold":
                mc = o[0]
                for l in recs:
                    n = len(l.decode("utf-8"))
                    if (l in outl) != (n >= mc):
                        c.violation("threshold: simple_cleaning --min-chars %d: a line of %d code points was %s (exactly %d must be kept, %d dropped)" % (mc, n, "kept" if l in outl else "dropped", mc, mc - 1), desc)
                        break
            if kind == "character-run-threshold":
                run = o[1]
                for l in recs:
                    s = l.decode("utf-8")
                    longest = max(len(m.group(0)) for m in re.finditer(r"([^ ])\1*", s))
                    if (l in outl) != (longest < run):
                        c.violation("threshold: simple_cleaning --character-run %d: a line whose longest run of a non-space character is %d was %s" % (run, longest, "kept" if l in outl else "dropped"), desc)
                        break
            if kind.startswith("random") and rng.random() < 0.3:
                split_check("simple_cleaning", a, data, "simple_cleaning")
        # implementation-only, independent of the Coq/driver status: a line REJECTED INSIDE the character loop (one per
        # early-exit kind) directly followed by borderline lines; the tool on A++B must equal (tool A)++(tool B) for the
        # split right after the rejected line (state left behind by the rejected call must not reach the next line)
        rejected = {"control-character": b"hello wor\x01ld again", "bad-utf8-byte": b"hello wor\xc3ld again", "truncated-utf8": b"good morning\xe2\x82",
                    "character-run": b"hello woooooooorld", "rejected-after-loop(min-chars)": b"ab"}
        for mc in (8, 20):
            a, o = sc_args(mc=mc, mci="1.0")
            border = [word_line(mc - 1), word_line(mc), word_line(mc - 3, 5), word_line(max(1, mc - 8), 9), b"x" * (mc - 1) + b" y"]
            for kind, rej in rejected.items():
                A, B = rej + b"\n", join(border)
                sa, oa, _ = R.run("simple_cleaning", a, A)
                sb, ob, _ = R.run("simple_cleaning", a, B)
                sab, oab, _ = R.run("simple_cleaning", a, A + B)
                c.count(("sc-leak", mc, kind), bucket="simple_cleaning/rejected-then-borderline/" + kind)
                if (sa, sb, sab) == (0, 0, 0) and oa + ob != oab:
                    c.violation("context-dependence: simple_cleaning on A++B differs from (simple_cleaning A)++(simple_cleaning B): a line rejected by %s changes the decision on the following line" % kind,
                                {"tool": "simple_cleaning", "args": a, "A_hex": A.hex(), "B_hex": B.hex(), "out_A_hex": oa.hex(), "out_B_hex": ob.hex(), "out_AB_hex": oab.hex(),
                                 "how": "bin/simple_cleaning %s < A; < B; < A++B" % " ".join(a)})
        c.sample({"tool": "simple_cleaning", "args": sc_cases[-1][0], "stdin": repr(sc_cases[-1][2][:100])})
        # -p mode (FilterParallel with 4 files): a pair is kept iff BOTH lines are kept by the single-stream tool
        # (metamorphic on the implementation: per-line decisions cannot depend on the other file)
        for r in range(max(6, reps // 10)):
            a, o = sc_args(mc=rng.choice([1, 3]), run=5, mci="1.0")
            n = rng.randrange(1, 12)
            l0 = [" ".join(rng.choice(words) for _ in range(rng.randrange(1, 5))).encode() if rng.random() < 0.8 else gen_line(rng, 4).replace(b"\t", b"") for _ in range(n)]
            l1 = [" ".join(rng.choice(words) for _ in range(rng.randrange(1, 5))).encode() if rng.random() < 0.8 else gen_line(rng, 4).replace(b"\t", b"") for _ in range(n)]
            d0, d1 = join(l0), join(l1)
            paths = [R.file("p_in0", d0), R.file("p_in1", d1), os.path.join(tmp, "p_out0"), os.path.join(tmp, "p_out1")]
            st, _, err = R.run("simple_cleaning", a + ["-p"] + paths, b"")
            s0, k0, _ = R.run("simple_cleaning", a, d0)
            s1, k1, _ = R.run("simple_cleaning", a, d1)
            c.count(("sc-p", d0, d1), bucket="simple_cleaning/parallel-4-files")
            if st != 0 or s0 != 0 or s1 != 0:
                c.violation("simple_cleaning-exit: -p status %s/%s/%s" % (st, s0, s1), {"tool": "simple_cleaning -p", "in0_hex": d0.hex(), "in1_hex": d1.hex(), "args": a})
                continue
            kept0, kept1 = set(k0.split(b"\n")[:-1]), set(k1.split(b"\n")[:-1])
            r0, r1 = raw_lines(d0), raw_lines(d1)
            want = [(x, y) for x, y in zip(r0, r1) if x in kept0 and y in kept1]
            o0, o1 = open(paths[2], "rb").read(), open(paths[3], "rb").read()
            if o0 != join([x for x, _ in want]) or o1 != join([y for _, y in want]):
                c.violation("context-dependence: simple_cleaning -p does not keep exactly the pairs whose two lines the single-stream tool keeps",
                            {"tool": "simple_cleaning -p", "args": a, "in0_hex": d0.hex(), "in1_hex": d1.hex(), "out0_hex": o0.hex(), "out1_hex": o1.hex(),
                             "how": "bin/simple_cleaning ARGS -p in0 in1 out0 out1  vs  bin/simple_cleaning ARGS < in0 and < in1"})
        if drv is not None:
            # ICU classes for every code point that occurs, from the real ICU
            cps = set()
            for a, o, data, kind in sc_cases:
                for l in py_records(data):
                    cps.update(ord(ch) for ch in l.decode("utf-8", "ignore"))
                    cps.update(l)       # single bytes of ill-formed parts are harmless extras
            icu = run_lines_robust(hxc, ["U " + " ".join(str(x) for x in sorted(cps))])[0]
            model_lines.append("ICU " + icu)
            model_expect.append((None, "ok"))
            specs = sorted(set(o[5] for _, o, _, _ in sc_cases))
            ranges = dict(zip(specs, run_lines_robust(hxc, ["R " + s for s in specs])))
            names = sorted(set(o[7] for _, o, _, _ in sc_cases if o[7]))
            codes = dict(zip(names, run_lines_robust(hxc, ["SN " + ",".join(n) for n in names]))) if names else {}
            for (a, o, data, kind), (st, out) in zip(sc_cases, sc_results):
                if o[7]:
                    expect("TS %d %d %d %s %s %s %s %s %s %s" % (o[0], o[1], o[2], o[3], o[4], o[8], codes[o[7]], ranges[o[5]], o[6].hex(), hexd(data)), ("simple_cleaning", a, data), st, out)
                else:
                    expect("T %d %d %d %s %s %s %s %s" % (o[0], o[1], o[2], o[3], o[4], ranges[o[5]], o[6].hex(), hexd(data)), ("simple_cleaning", a, data), st, out)
            # class level: SimpleCleaningFilter::operator() on single fields, real class vs model
            fields = sorted(set(f for _, o, data, _ in sc_cases[:40] for l in py_records(data) for f in l.split(o[6])))[:600]
            fl = ["F 5 5 200 0.2 0.01 " + hexd(f) for f in fields]
            fa = run_lines_robust(hxc, fl)
            for l, r in zip(fl, fa):
                model_lines.append(l)
                model_expect.append((("SimpleCleaningFilter", l), r))
            # ... and with --scripts (in_script / after_common_inherited < min_scripts, single precision, 0/0 = NaN passes)
            for nm, cd in codes.items():
                for ms in ("0.9", "0.5"):
                    fs = ["FS 3 5 200 0.5 0.01 %s %s %s" % (ms, cd, hexd(f)) for f in fields[:250]]
                    for l, r in zip(fs, run_lines_robust(hxc, fs)):
                        model_lines.append(l)
                        model_expect.append((("SimpleCleaningFilter --scripts " + ",".join(nm), l), r))

        # ------------------------------------------------------------ memory safety (thorough): the library/class entry points under ASan/UBSan
        if thorough and drv is not None and not c.violations:
            asan_lines(c, "hx_filters", ["W " + " ".join(hexd(p) for p in probe), "S " + " ".join(hexd(p) for p in probe)] + klines[:200], "(IsUTF8, StripSpaces, MurmurHashNative on exact-size buffers)")
            asan_lines(c, "hx_cleaning", fl[:400], "(SimpleCleaningFilter on exact-size buffers)")

        # ------------------------------------------------------------ run the models
        if drv is not None:
            rc, mo, e = run_lines(drv, model_lines, timeout=1200)
            if len(mo) != len(model_lines):
                c.broken.append("C18 driver produced %d lines for %d: %s" % (len(mo), len(model_lines), e[-300:]))
            else:
                dis = {}
                for l, m, (what, impl) in zip(model_lines, mo, model_expect):
                    if what is None:
                        continue
                    c.cov["traces_validated_against_impl"] += 1
                    if m != impl:
                        dis.setdefault(what[0], []).append((what, m, impl, l))
                for tool, ds in dis.items():
                    what, m, impl, l = min(ds, key=lambda d: len(d[3]))
                    c.broken.append("tool correspondence %s model vs implementation: %d disagreement(s); smallest: %r model=%s impl=%s" % (tool, len(ds), what[1:] if len(str(what)) < 400 else str(what)[:400], m[:200], impl[:200]))
        c.cov["distribution"]["(tool invocations)"] = R.nruns
    finally:
        shutil.rmtree(tmp, ignore_errors=True)
    return c.finish(level="proof",
                    rule="a case = one byte stream through one REAL binary (six tools), compared with the extracted model of the whole tool and with an independent Python reference of the property; lengths at LIMIT-1/LIMIT/LIMIT+1 for every limit; min-chars / character-run at the threshold and one below/above; split-metamorphic runs (A, B, A++B) on the implementation",
                    assumptions=["ICU character classes (script, punct, space) and the three single-precision threshold comparisons of simple_cleaning are environment parameters of the model; the driver takes them from the real ICU for the code points of the generated alphabet only",
                                 "64-bit keys of lines are computed by the real util::MurmurHashNative (C14's model); no hash collision among generated lines",
                                 "well-formed UTF-8 is the Unicode Table 3-7 grammar (wf_utf8); tied to util::IsUTF8 by direct comparison on every run (the decoder itself is property C12)",
                                 "an uncaught C++ exception ends the process by abort (status 134)"])


if __name__ == "__main__":
    sys.exit(main(sys.argv[1:]))
