"""C16 -- thread hand-off queues deliver every item once, in order, without deadlock.

The real templates (util::UnboundedSingleQueue, util::PCQueue,
util::ThreadedBufferedStream/BlockQueue/Lease) are driven by harness/hx_queues.cc
under a deterministic scheduler (PREPROCESS_VERIF hooks); every execution
(schedule, per-step program point and enabled set, final observation) must be
reproduced, line by line, by the transition systems extracted from Coq
(Queues/*Defs.v), for exhaustive enumerations of small scenarios and seeded
random schedules of large ones.  Independently of the model, a Python oracle
checks the property on what the real code delivered."""
import os
import sys
from concurrent.futures import ThreadPoolExecutor

sys.path.insert(0, os.path.join(os.path.dirname(os.path.abspath(__file__)), "..", "tools"))
from checklib import *  # noqa

BLOCK = 8192
MASK = (1 << 64) - 1


def fnv(data):
    h = 14695981039346656037
    for b in data:
        h ^= b
        h = (h * 1099511628211) & MASK
    return h


def pattern(w, n):
    return bytes(((w * 31 + j * 7 + (j >> 8)) % 251) for j in range(n))


def kv(line):
    d = {}
    for t in line.split():
        if "=" in t:
            k, v = t.split("=", 1)
            d[k] = v
    return d


def ints(s):
    return [int(x) for x in s.split(",")] if s else []


def scenarios(c):
    """list of scenario lines.  quick: exhaustive enumerations for capacity 1-3 and <= 6 items
    (semaphore granularity) and smaller ones at the finest granularity (every shared access a
    scheduling point), page-boundary and ring-wrap cases; plus seeded random schedules."""
    rng = c.rng
    q = c.tier == "quick"
    lim = 1200 if q else 40000
    S = []
    # --- UnboundedSingleQueue
    for n in range(0, 7):
        S.append("kind=usq gran=sem mode=enum limit=%d n=%d want=%d" % (lim, n, n))
    for n in (1, 2, 3):
        S.append("kind=usq gran=fine mode=enum limit=%d n=%d want=%d" % (lim, n, n))
    S.append("kind=usq gran=fine mode=enum limit=%d n=4 want=4" % lim)
    # item count crossing the 1023-entry page: prologue of `pre` sequential items, then all interleavings
    for pre, n in ((1021, 3), (1022, 2), (1022, 3), (1023, 1), (1020, 6)):
        S.append("kind=usq gran=sem mode=enum limit=%d n=%d want=%d pre=%d" % (lim, n, n, pre))
    for pre, n in ((1022, 2), (1021, 3), (1023, 1)):
        S.append("kind=usq gran=fine mode=enum limit=%d n=%d want=%d pre=%d" % (lim, n, n, pre))
    # consumer asks for more than is produced / less than is produced
    S.append("kind=usq gran=sem mode=enum limit=%d n=2 want=3" % lim)
    S.append("kind=usq gran=fine mode=enum limit=%d n=3 want=2" % lim)
    # --- PCQueue: capacities 1..3, up to 3 producers / 3 consumers, <= 6 items
    pcq = [(1, [2], [2]), (1, [1, 1], [2]), (1, [1, 1], [1, 1]), (1, [3], [1, 2]), (1, [1, 1, 1], [1, 1, 1]),
           (2, [3], [3]), (2, [2, 1], [3]), (2, [2, 2], [2, 2]), (2, [1, 1, 1], [2, 1]), (2, [4], [2, 2]),
           (3, [4], [4]), (3, [2, 2], [4]), (3, [3, 3], [6]), (3, [2, 2, 2], [3, 3]), (3, [5], [2, 3])]
    for cap, prod, cons in pcq:
        S.append("kind=pcq gran=sem mode=enum limit=%d cap=%d prod=%s cons=%s" % (
            lim, cap, ",".join(map(str, prod)), ",".join(map(str, cons))))
    for cap, prod, cons in [(1, [1, 1], [1, 1]), (1, [2], [2]), (2, [2], [2]), (2, [1, 1], [2]), (1, [1, 1], [2]), (2, [2], [1, 1]), (3, [3], [3])]:
        S.append("kind=pcq gran=fine mode=enum limit=%d cap=%d prod=%s cons=%s" % (
            lim, cap, ",".join(map(str, prod)), ",".join(map(str, cons))))
    # ProduceSwap / ConsumeSwap (the variants warc_parallel uses), two and three concurrent producers
    for cap, prod, cons in [(2, [1, 1], [2]), (1, [1, 1], [2]), (3, [2, 1], [3]), (2, [1, 1, 1], [3])]:
        S.append("kind=pcq gran=fine mode=enum limit=%d swap=1 cap=%d prod=%s cons=%s" % (
            lim, cap, ",".join(map(str, prod)), ",".join(map(str, cons))))
    S.append("kind=pcq gran=sem mode=enum limit=%d swap=1 cap=2 prod=2,2 cons=2,2" % lim)
    # consumers using DIFFERENT methods on one queue (cswap: 0 = Consume(T&), 1 = ConsumeSwap) with >= 2 queued
    # items: both methods must exclude each other (same mutex); the harness also verifies at the first scheduling
    # point of every critical section that the real lock_guard holds the mutex the hook names (LOCK-MISMATCH)
    for cap, prod, cons, cs in [(2, [2], [1, 1], "0,1"), (2, [2], [1, 1], "1,0"), (3, [2, 1], [2, 1], "0,1"), (2, [1, 1], [1, 1], "1,0"),
                                (3, [3], [1, 1, 1], "0,1,0")]:
        S.append("kind=pcq gran=fine mode=enum limit=%d cswap=%s cap=%d prod=%s cons=%s" % (
            lim, cs, cap, ",".join(map(str, prod)), ",".join(map(str, cons))))
    S.append("kind=pcq gran=fine mode=enum limit=%d swap=1 cap=2 prod=1,1 cons=1" % (4 * lim))
    # a depth-first enumeration cut off by `limit` only varies the END of the schedule: complement every
    # finest-granularity scenario with uniformly random schedules (deviations early in the run)
    rr = 250 if q else 3000
    for line in [x for x in S if "gran=fine mode=enum" in x]:
        S.append(line.replace("mode=enum", "mode=rand runs=%d seed=%d" % (rr, rng.randrange(1 << 20))))
    # unbalanced: a consumer without matching producer / a producer without matching consumer
    S.append("kind=pcq gran=sem mode=enum limit=%d cap=2 prod=1 cons=1,1" % lim)
    S.append("kind=pcq gran=sem mode=enum limit=%d cap=1 prod=3 cons=1" % lim)
    # --- block ring: writes smaller / equal / larger than a block; wraps of the 3-block ring
    rlim = 800 if q else 10000
    for w in ([], [10], [0], [BLOCK], [BLOCK + 1], [10, 9000], [BLOCK, BLOCK], [20000], [BLOCK - 1, 1, 1],
              [BLOCK, BLOCK, BLOCK, BLOCK], [5000, 5000, 5000, 5000, 5000, 5000]):
        S.append("kind=ring gran=sem mode=enum limit=%d writes=%s" % (rlim, ",".join(map(str, w))))
    for w in ([10], [9000], [BLOCK, 1]):
        S.append("kind=ring gran=fine mode=enum limit=%d writes=%s" % (rlim, ",".join(map(str, w))))
    # operator<< of numbers near the end of a block hands over PARTIAL blocks; then the ring wraps back to
    # that slot and write() fills it exactly to its end (the size field of the slot must be rewritten)
    for w in (["8187", "p10", "8182", "8192", "8192", "8192", "1"],
              ["8180", "p19", "p19", "8154", "8192", "8192", "p1", "8191", "5"],
              ["p5", "8187", "p3", "8192", "8192", "8189", "8192", "100"]):
        S.append("kind=ring gran=sem mode=enum limit=%d writes=%s" % (rlim // 4, ",".join(w)))
        S.append("kind=ring gran=fine mode=rand runs=4 seed=%d writes=%s" % (rng.randrange(1 << 20), ",".join(w)))
    # --- seeded random schedules, larger scenarios
    runs = 6 if q else 40
    S.append("kind=usq gran=fine mode=rand runs=%d seed=%d n=%d want=%d" % (runs, rng.randrange(1 << 20), 1200 if q else 12000, 1200 if q else 12000))
    S.append("kind=usq gran=sem mode=rand runs=%d seed=%d n=2500 want=2500" % (runs, rng.randrange(1 << 20)))
    for _ in range(3 if q else 12):
        cap = rng.choice((1, 2, 3, 5))
        np_, nc = rng.randrange(1, 4), rng.randrange(1, 4)
        total = rng.randrange(20, 60 if q else 4000)
        prod = split_total(rng, total, np_)
        cons = split_total(rng, total, nc)
        S.append("kind=pcq gran=%s mode=rand runs=%d seed=%d cap=%d prod=%s cons=%s" % (
            rng.choice(("sem", "fine")), runs, rng.randrange(1 << 20), cap, ",".join(map(str, prod)), ",".join(map(str, cons))))
    for _ in range(3 if q else 12):
        k = rng.randrange(6, 14 if q else 40)
        w = [rng.choice((0, 1, 100, BLOCK - 1, BLOCK, BLOCK + 1, 3000, 12000, 2 * BLOCK, 30000, rng.randrange(1, 20000),
                         "p%d" % rng.randrange(1, 20), "p19", BLOCK - 7, BLOCK - 12)) for _ in range(k)]
        S.append("kind=ring gran=%s mode=rand runs=%d seed=%d writes=%s" % (
            rng.choice(("sem", "fine")), runs, rng.randrange(1 << 20), ",".join(map(str, w))))
    return S


def split_total(rng, total, parts):
    cuts = sorted(rng.randrange(0, total + 1) for _ in range(parts - 1))
    out, prev = [], 0
    for x in cuts + [total]:
        out.append(x - prev)
        prev = x
    return out


def run_blocks(exe, lines, nproc=6, timeout=900, env=None):
    """Run scenario lines through exe in nproc processes; returns ({line: [output lines]}, header, errors)."""
    chunks = [lines[i::nproc] for i in range(nproc)]
    chunks = [ch for ch in chunks if ch]

    def one(ch):
        try:
            p = subprocess.run([exe], input=("\n".join(ch) + "\n").encode(), stdout=subprocess.PIPE,
                               stderr=subprocess.PIPE, timeout=timeout, env=env)
            return p.returncode, p.stdout.decode("utf-8", "replace"), p.stderr.decode("utf-8", "replace")
        except subprocess.TimeoutExpired as e:
            return "timeout", (e.stdout or b"").decode("utf-8", "replace"), "timeout"

    blocks, header, errs = {}, None, []
    with ThreadPoolExecutor(max_workers=nproc) as ex:
        for ch, (rc, out, err) in zip(chunks, ex.map(one, chunks)):
            cur = None
            for l in out.split("\n"):
                if l.startswith("C "):
                    header = l
                elif l.startswith("S "):
                    cur = l[2:]
                    blocks[cur] = []
                elif cur is not None and l:
                    blocks[cur].append(l)
            if rc != 0:
                errs.append("rc=%s %s" % (rc, err[-300:]))
            for l in ch:
                if l not in blocks or not blocks[l] or not blocks[l][-1].startswith("E "):
                    errs.append("no complete output for scenario %r (rc=%s) %s" % (l, rc, err[-200:]))
    return blocks, header, errs


def oracle(c, line, out):
    """Direct property check on what the REAL code delivered (independent of the Coq model)."""
    d = kv(line)
    kind = d["kind"]
    end = out[-1] if out else "E -1 MISSING"
    execs = [l for l in out if l.startswith("x ")]

    def viol(what, x):
        sched = x[2:].split(" | ")[0] if x else ""
        c.violation("%s: %s [scenario: %s]" % (what.split(":")[0], what, line),
                    {"scenario": line, "schedule": sched, "execution": x[:2000],
                     "how": "echo '<scenario>' | $VERIF_BUILD/rel/hx/hx_queues   (schedule = thread chosen at each step)"})

    if "CRASH" in end or "MISSING" in end:
        viol("harness-crash: the real code crashed/aborted under the scheduler: %s" % end, execs[-1] if execs else "")
        return
    if kind == "usq":
        n, want = int(d.get("n", 0)), int(d.get("want", d.get("n", 0)))
        balanced = want <= n
    elif kind == "pcq":
        prod, cons, cap = ints(d.get("prod", "")), ints(d.get("cons", "")), int(d["cap"])
        balanced = sum(prod) == sum(cons)
        allitems = sorted(p * 1000000 + i + 1 for p, k in enumerate(prod) for i in range(k))
    else:
        writes = [x for x in d.get("writes", "").split(",") if x]
        balanced = True
        data = b"".join((b"1234567890123456789"[:int(k[1:])] if k.startswith("p") else pattern(w, int(k))) for w, k in enumerate(writes))
        want_file = "%d:%d" % (len(data), fnv(data))
    for x in execs:
        res = x.split(" | ")[-1]
        if "LOCK-MISMATCH" in res:
            viol("mutex: a thread entered a critical section without holding the mutex that guards it (two threads can read/write the same slot): %s" % res[-120:], x)
        if "REAL-BLOCK" in res:
            viol("mutex: a thread blocked on a real mutex that no thread inside that critical section holds by design (wrong mutex locked): %s" % res[-160:], x)
            continue
        if "NONDETERMINISTIC" in res:
            c.broken.append("harness: execution not reproducible under the same schedule prefix: %s" % line)
        if res.startswith("DEADLOCK"):
            if balanced:
                viol("deadlock: threads blocked forever although a matching producer/consumer/end marker exists: %s" % res, x)
            else:
                # only the side without a partner may be blocked, in its semaphore wait
                blocked = res.split()[1:]
                ok = True
                if kind == "usq":
                    ok = blocked == ["t1@W0"]
                else:
                    np_ = len(prod)
                    side_cons = sum(cons) > sum(prod)
                    for b in blocked:
                        t = int(b[1:b.index("@")])
                        tag = b[b.index("@") + 1:]
                        if side_cons and not (t >= np_ and tag == "W1"):
                            ok = False
                        if not side_cons and not (t < np_ and tag == "W0"):
                            ok = False
                if not ok:
                    viol("deadlock: a thread with a matching partner is blocked: %s" % res, x)
            continue
        if kind == "usq":
            got = ints(re.search(r"got=(\S*)", res).group(1))
            if got != list(range(1, min(n, want) + 1)) or "prologue" in res:
                viol("usq-order: consumer received %s, produced 1..%d (want %d) %s" % (got[:20], n, want, res[-40:]), x)
        elif kind == "pcq":
            mg = re.search(r"got=(\S*)", res)
            if cons and not mg:
                viol("harness-crash: execution ended without a result: %s" % res[:200], x)
                continue
            gots = [ints(g) for g in mg.group(1).split(";")] if cons else []
            flat = sorted(v for g in gots for v in g)
            if balanced and flat != allitems:
                viol("pcq-exactly-once: consumers received %s, produced %s" % (flat[:30], allitems[:30]), x)
            if not balanced and sum(cons) < sum(prod):
                # every received value is a produced one, no duplicates
                if len(set(flat)) != len(flat) or not set(flat) <= set(allitems):
                    viol("pcq-exactly-once: duplicates or foreign values %s" % flat[:30], x)
            for g in gots:
                for p in range(len(prod)):
                    sub = [v for v in g if v // 1000000 == p]
                    if sub != sorted(sub):
                        viol("pcq-order: a consumer received producer %d's items out of order: %s" % (p, g[:30]), x)
            if len(cons) == 1 and balanced:
                for p, k in enumerate(prod):
                    sub = [v for v in gots[0] if v // 1000000 == p]
                    if sub != [p * 1000000 + i + 1 for i in range(k)]:
                        viol("pcq-order: producer %d's items arrived as %s" % (p, sub[:30]), x)
        else:
            f = kv(res)
            blocks = ints(f.get("blocks", ""))
            if f.get("file") != want_file:
                viol("ring-file: file written = %s, concatenation of all writes = %s (blocks %s)" % (f.get("file"), want_file, blocks[:20]), x)
            elif f.get("flushes") != "1" or f.get("joined") != "1":
                viol("ring-dtor: destructor did not flush exactly once / join: %s" % res[:100], x)
            elif any(b <= 0 or b > BLOCK for b in blocks):
                viol("ring-block: a block of size outside (0, %d] was handed to the writer: %s" % (BLOCK, blocks[:20]), x)
    if balanced and "DEADLOCK" in end and not any(x.split(" | ")[-1].startswith("DEADLOCK") for x in execs):
        viol("deadlock: " + end, execs[-1] if execs else "")
    if not balanced and d.get("mode") == "enum" and "DEADLOCK" not in end:
        must_block = (kind == "usq" and want > n) or (kind == "pcq" and (sum(cons) > sum(prod) or sum(prod) > sum(cons) + cap))
        if must_block:
            viol("missing-block: threads without a partner terminated: %s" % end, execs[-1] if execs else "")


def main(argv):
    c = Check("C16", argv)
    ok, blog = build_repo(["hx_queues"])
    if not ok:
        c.broken.append("build of repo working tree / hx_queues failed: " + blog[-800:])
        return c.finish(rule="build failed")
    c.proofs(extra_trusted=["harness/hx_queues.cc deterministic scheduler + util/verif_hooks.hh weak hooks (PREPROCESS_VERIF); POSIX semaphores and std::mutex assumed sequentially consistent"])
    drv, dlog = build_driver("C16")
    impl = hx_bin("hx_queues")
    S = scenarios(c)
    nproc = 8
    hb, hhead, herr = run_blocks(impl, S, nproc=nproc)
    for e in herr:
        c.broken.append("hx_queues: " + e)
    # --- direct oracle on the implementation
    for line in S:
        out = hb.get(line, [])
        d = kv(line)
        nex = len([l for l in out if l.startswith("x ")])
        c.cov["evaluations"] += max(nex - 1, 0)
        c.count((line,), nontrivial=nex > 0, bucket="%s/%s/%s" % (d["kind"], d.get("gran"), d.get("mode")))
        c.cov["distribution"]["executions:" + d["kind"]] = c.cov["distribution"].get("executions:" + d["kind"], 0) + nex
        oracle(c, line, out)
    for line in (S[3], S[9], S[-1]):
        out = hb.get(line, [])
        c.sample({"scenario": line, "executions": len(out) - 1, "first": out[0][:300] if out else None})
    # --- correspondence with the extracted transition systems
    if drv is None:
        c.broken.append("extraction/driver build failed: " + dlog[-600:])
    else:
        mb, mhead, merr = run_blocks(drv, S, nproc=nproc)
        for e in merr:
            c.broken.append("C16_driver: " + e)
        if mhead != hhead:
            c.broken.append("constants: translator/model says %r, compiled code says %r" % (mhead, hhead))
        ndis = 0
        for line in S:
            a, b = mb.get(line, []), hb.get(line, [])
            if a != b:
                ndis += 1
                if ndis <= 3:
                    k = next((i for i in range(min(len(a), len(b))) if a[i] != b[i]), min(len(a), len(b)))
                    c.broken.append("correspondence (LTS vs real template) scenario %r: %d model / %d real lines; first difference at execution %d: model=%r real=%r" % (
                        line, len(a), len(b), k, (a[k] if k < len(a) else None) and a[k][:400], (b[k] if k < len(b) else None) and b[k][:400]))
            else:
                c.cov["traces_validated_against_impl"] += len([l for l in b if l.startswith("x ")])
    # --- sanitizer builds: real concurrency, no scheduler (data races between sync points; use-after-free of pages)
    flav = ["asan"] if c.tier == "quick" else ["asan", "tsan"]
    free = ["kind=usq mode=free runs=3 n=5000 want=5000",
            "kind=pcq mode=free runs=3 cap=2 prod=400,300,300 cons=500,500",
            "kind=ring mode=free runs=3 writes=100,8192,9000,1,20000,8191,8193,30000,5,5,5"]
    sched_asan = ["kind=usq gran=sem mode=enum limit=200 n=3 want=3 pre=1021",
                  "kind=usq gran=fine mode=rand runs=2 seed=5 n=2100 want=2100",
                  "kind=ring gran=fine mode=rand runs=3 seed=5 writes=100,8192,9000,1,20000,8191,8193,30000"]
    for fl in flav:
        ok, blog = build_repo(["hx_queues"], flavour=fl)
        if not ok:
            c.broken.append("%s build of hx_queues failed: %s" % (fl, blog[-500:]))
            continue
        lines = free + (sched_asan if fl == "asan" else [])
        env = dict(os.environ)
        env["ASAN_OPTIONS"] = "detect_leaks=0:abort_on_error=1"
        env["TSAN_OPTIONS"] = "halt_on_error=1:exitcode=66"
        fb, _, ferr = run_blocks(hx_bin("hx_queues", fl), lines, nproc=len(lines), env=env)
        for line in lines:
            out = fb.get(line, [])
            c.count((fl, line), bucket="sanitizer/" + fl)
            oracle(c, line + " # " + fl, out if out else ["E -1 MISSING"])
    # --- EINTR: consumers blocked in sem_wait are interrupted by a signal handled without SA_RESTART; the wait must
    #     be retried (no token may be invented): real threads, oracle only
    eintr = ["kind=usq mode=eintr runs=3 n=40 want=40",
             "kind=pcq mode=eintr runs=3 cap=1 prod=30 cons=30",
             "kind=pcq mode=eintr runs=3 cap=4 prod=20,20 cons=15,25",
             "kind=pcq mode=eintr runs=3 swap=1 cap=1 prod=10,10 cons=20"]
    eb, _, eerr = run_blocks(impl, eintr, nproc=len(eintr), timeout=120)
    for line in eintr:
        c.count(("eintr", line), bucket="eintr")
        oracle(c, line, eb.get(line) or ["E -1 MISSING"])
    # --- strong exception guarantee of Consume(T&): the item type's copy-assignment throws once (like bad_alloc)
    #     during the copy-out of consumer c's k-th call (cthrow); the consumer catches and consumes again.  The queue
    #     must be unchanged by the failed call: every item exactly once, in order, nobody blocked forever.
    #     Oracle only: the exception path is not in the Coq model (declared in the design notes).
    tl = 800 if c.tier == "quick" else 40000
    throws = ["kind=pcq gran=fine mode=enum limit=%d cap=1 prod=2 cons=2 cthrow=1" % tl,
              "kind=pcq gran=fine mode=enum limit=%d cap=1 prod=2 cons=2 cthrow=2" % tl,
              "kind=pcq gran=fine mode=enum limit=%d cap=2 prod=3 cons=3 cthrow=2" % tl,
              "kind=pcq gran=fine mode=enum limit=%d cap=2 prod=2,1 cons=2,1 cthrow=1,1" % tl,
              "kind=pcq gran=fine mode=enum limit=%d cap=1 prod=1,1 cons=1,1 cswap=0,1 cthrow=1,0" % tl,
              "kind=pcq gran=fine mode=rand runs=%d seed=%d cap=1 prod=3 cons=3 cthrow=1" % (200 if c.tier == "quick" else 3000, c.rng.randrange(1 << 20)),
              "kind=pcq gran=fine mode=rand runs=%d seed=%d cap=2 prod=2,2 cons=3,1 cthrow=2,1" % (200 if c.tier == "quick" else 3000, c.rng.randrange(1 << 20)),
              "kind=pcq gran=fine mode=rand runs=%d seed=%d cap=3 prod=4,3 cons=2,5 cswap=1,0 cthrow=0,3" % (200 if c.tier == "quick" else 3000, c.rng.randrange(1 << 20))]
    tb, _, terr = run_blocks(impl, throws, nproc=len(throws), timeout=600)
    for e in terr:
        c.broken.append("hx_queues (exception scenarios): " + e)
    for line in throws:
        out = tb.get(line) or ["E -1 MISSING"]
        c.count(("throw", line), bucket="copy-out-throws")
        if not any("thrown=" in l for l in out if l.startswith("x ")) and "DEADLOCK" not in out[-1]:
            c.broken.append("exception scenario did not inject a failing copy-out: " + line)
        oracle(c, line, out)
    # --- the queue's user named in the anchors: warc_parallel (PCQueue<std::string>, ProduceSwap/ConsumeSwap, one
    #     empty-string end marker per worker): every record exactly once, termination, for -j 1..4
    ok, blog = build_repo(["warc_parallel"])
    if not ok:
        c.broken.append("build of warc_parallel failed: " + blog[-400:])
    else:
        for jobs_n, nrec in ((1, 5), (2, 25), (3, 40), (4, 60), (2, 0), (4, 3)):
            recs = []
            for i in range(nrec):
                body = (b"body %d " % i) * (i % 9 + 1) + (b"Z" * 3000 if i % 11 == 0 else b"")
                recs.append(b"WARC/1.0\r\nWARC-Type: response\r\nX-Id: %d\r\nContent-Length: %d\r\n\r\n" % (i, len(body)) + body + b"\r\n\r\n")
            c.count(("warc_parallel", jobs_n, nrec), bucket="warc_parallel")
            desc = {"tool": "warc_parallel -j %d cat" % jobs_n, "records": nrec,
                    "how": "%d synthetic WARC records (X-Id: i, bodies of varying size) on stdin" % nrec}
            st, out, err = run_tool([repo_bin("warc_parallel"), "-j", str(jobs_n), "cat"], b"".join(recs), timeout=20 if c.tier == "quick" else 60)
            if st == "timeout":
                c.violation("warc-hang: warc_parallel -j %d did not terminate on %d records (an end marker never reached a worker)" % (jobs_n, nrec), desc)
                continue
            got, pos, bad = [], 0, st != 0
            try:
                while pos < len(out):
                    h = out.index(b"\r\n\r\n", pos)
                    n = int(re.search(rb"Content-Length: (\d+)", out[pos:h]).group(1))
                    got.append(out[pos:h + 4 + n + 4])
                    pos = h + 4 + n + 4
            except Exception:
                bad = True
            if bad or sorted(got) != sorted(recs):
                c.violation("warc-exactly-once: warc_parallel -j %d on %d records: status %s, %d records out, multiset differs" % (jobs_n, nrec, st, len(got)), desc)
        # several --inputs files of UNEQUAL length = several producers on the bounded queue, one of which finishes
        # early: the end markers may only be queued after ALL readers are done (otherwise the workers leave while a
        # reader is still producing and it blocks forever on the full queue)
        import tempfile
        import shutil
        base = os.path.dirname(BUILD_ROOT.rstrip("/")) if BUILD_ROOT.startswith("/var/tmp/") else "/var/tmp"
        tdir = tempfile.mkdtemp(prefix="scratch-c16-", dir=base)
        try:
            def mkrec(tag, i):
                body = (b"%s body %d " % (tag, i)) * (i % 9 + 1) + (b"Z" * 3000 if i % 11 == 0 else b"")
                return b"WARC/1.0\r\nWARC-Type: response\r\nX-Id: %s-%d\r\nContent-Length: %d\r\n\r\n" % (tag, i, len(body)) + body + b"\r\n\r\n"
            for jobs_n, sizes in ((1, (2, 300)), (2, (3, 400)), (3, (1, 500)), (2, (400, 3)), (3, (0, 200)), (2, (5, 250, 40))):
                files, recs = [], []
                for fi, nrec in enumerate(sizes):
                    rs = [mkrec(b"f%d" % fi, i) for i in range(nrec)]
                    recs += rs
                    fn = os.path.join(tdir, "in%d-%d.warc" % (jobs_n, fi))
                    with open(fn, "wb") as fh:
                        fh.write(b"".join(rs))
                    files.append(fn)
                c.count(("warc_parallel-inputs", jobs_n, sizes), bucket="warc_parallel")
                desc = {"tool": "warc_parallel -j %d -i <files> -- cat" % jobs_n, "records_per_input_file": list(sizes),
                        "how": "input files of %s synthetic WARC records (X-Id: f<file>-<i>); warc_parallel -j %d -i f0 f1 .. -- cat" % (list(sizes), jobs_n)}
                st, out, err = run_tool([repo_bin("warc_parallel"), "-j", str(jobs_n), "-i"] + files + ["--", "cat"], b"", timeout=20 if c.tier == "quick" else 60)
                if st == "timeout":
                    c.violation("warc-hang: warc_parallel -j %d with input files of %s records did not terminate (end markers queued before all readers were done)" % (jobs_n, list(sizes)), desc)
                    continue
                got, pos, bad = [], 0, st != 0
                try:
                    while pos < len(out):
                        h = out.index(b"\r\n\r\n", pos)
                        n = int(re.search(rb"Content-Length: (\d+)", out[pos:h]).group(1))
                        got.append(out[pos:h + 4 + n + 4])
                        pos = h + 4 + n + 4
                except Exception:
                    bad = True
                if bad or sorted(got) != sorted(recs):
                    c.violation("warc-exactly-once: warc_parallel -j %d on input files of %s records: status %s, %d records out of %d, multiset differs" % (jobs_n, list(sizes), st, len(got), len(recs)), desc)
        finally:
            shutil.rmtree(tdir, ignore_errors=True)
    # --- thorough: the unbounded queue inside a real wrapper under TSan (its consumer-side Empty() is used by foldfilter)
    if c.tier == "thorough":
        ok, blog = build_repo(["foldfilter"], flavour="tsan")
        if not ok:
            c.broken.append("tsan build of foldfilter failed: " + blog[-400:])
        else:
            data = b"".join(b"line %d %s\n" % (i % 700, b"w" * (i % 13)) for i in range(3000))
            env = dict(os.environ)
            env["TSAN_OPTIONS"] = "halt_on_error=0:exitcode=66"
            child = os.path.join(VERIF, "harness", "children", "child.py")
            try:
                p = subprocess.run([repo_bin("foldfilter", "tsan"), "-w", "20", child, "eager"], input=data,
                                   stdout=subprocess.PIPE, stderr=subprocess.PIPE, env=env, timeout=600)
                err = p.stderr.decode("latin1")
            except subprocess.TimeoutExpired:
                err = "timeout"
            c.count(("tsan", "foldfilter"), bucket="sanitizer/tsan-wrapper")
            if "ThreadSanitizer" in err or err == "timeout":
                i = err.find("WARNING: ThreadSanitizer")
                site = "UnboundedSingleQueue::Empty" if re.search(r"#0 Empty .*pcqueue\.hh", err) else "other"
                c.violation("data-race: ThreadSanitizer reports a data race in foldfilter (%s): %s" % (site, " ".join(err[i:i + 400].split())),
                            {"tool": "foldfilter -w 20 harness/children/child.py eager", "input": "3000 short lines", "site": site,
                             "report": err[i:i + 1500]})
    return c.finish(level="proof",
                    rule="executions of the real templates under the deterministic scheduler: ALL interleavings (semaphore granularity) of 0-6 items for the unbounded queue incl. item counts crossing the 1023-entry page, PCQueue capacity 1-3 with 1-3 producers/consumers and <= 6 items, block-ring writes below/at/above the block size wrapping the 3-block ring; finest granularity (every shared access a scheduling point) for smaller scenarios; seeded random schedules for thousands of items; each execution compared step by step (thread, program point, enabled set, result) with the extracted Coq transition system; evaluations = executions",
                    assumptions=["semaphores and mutexes are sequentially consistent synchronisation primitives; effects of a thread between two scheduling points are atomic w.r.t. the other threads (data races inside such a segment are only observed by the ASan/TSan runs)",
                                 "a thread blocked in sem_wait is resumed whenever the count is positive (no lost wake-ups in glibc)"])


if __name__ == "__main__":
    sys.exit(main(sys.argv[1:]))
