"""C13 -- the seen-set (util::AutoProbing / ProbingHashTable) answers membership correctly
after any insertion history.

  build -> proofs (Props/Properties_C13.v over the regenerated constants) -> extracted model
  -> correspondence: answer AND complete bucket array after EVERY operation, model vs
     util::AutoProbing<Entry, IdentityHash> (16-byte and packed 12-byte entries)
  -> direct oracle (independent of the model): dict/set semantics on the implementation's
     answers + the bucket array holds exactly the inserted pairs
  -> large histories against std::map inside the harness (set abstraction only)."""
import itertools
import os
import subprocess
import sys
import time

sys.path.insert(0, os.path.join(os.path.dirname(os.path.abspath(__file__)), "..", "tools"))
from checklib import *  # noqa


# ----------------------------------------------------------------- history generators

def ops_str(ops):
    out = []
    for o in ops:
        if o[0] in "FIU":
            out.append("%s%d,%d" % (o[0], o[1], o[2]))
        else:
            out.append("L%d" % o[1])
    return " ".join(out)


def line_of(mode, init, ops):
    return "H%s %s %s" % (mode, "-" if init is None else str(init), ops_str(ops))


def thr(b):
    return min(b - 1, b * 3 // 4)


def gen_exhaustive(c):
    """every FindOrInsert history of length n over a universe that collides modulo every
    table size 2,4,8,16 (initial_size 1 => 2 buckets; doublings at the 2nd, 4th, 7th insert)"""
    out = []
    U = [1, 9, 17, 3, 7, 15, 8, 16]          # 1,9,17 collide mod 8; 7,15 wrap the end; 8,16 sit at bucket 0
    n = 5 if c.tier == "quick" else 6
    for hist in itertools.product(range(len(U)), repeat=n):
        ops = [("F", U[k], 100 + i) for i, k in enumerate(hist)]
        out.append(("exhaustive/F^%d-universe8-init1" % n, "16d", 1, ops))
    # every constructor argument 0..3 (1, 2, 4, 4 buckets): all FindOrInsert+Find histories of length 4 over 5 keys
    for init in (0, 1, 2, 3):
        for hist in itertools.product(range(5), repeat=4):
            ops = [("F", U[k], 100 + i) for i, k in enumerate(hist)] + [("L", U[k]) for k in range(5)]
            out.append(("exhaustive/F^4-universe5-init%d" % init, "16f", init, ops))
    # exhaustive mixed-operation histories over a 4-key universe, default table (8 buckets) pre-filled
    # to one below the threshold so that the history crosses the 8 -> 16 doubling
    U2 = [7, 15, 23, 31]                     # all at the last bucket of the 8-table: cluster wraps; 15/31 move, 7/23 stay in 16
    pre = [("F", 6, 1), ("F", 14, 2), ("F", 5, 3), ("F", 8, 4), ("F", 16, 5)]
    kinds = []
    for k in U2:
        kinds += [("F", k, 50), ("L", k), ("U", k, 60)]
    m = 3 if c.tier == "quick" else 4
    for hist in itertools.product(kinds, repeat=m):
        ops = pre + list(hist) + [("L", k) for k in U2]
        out.append(("exhaustive/mixed^%d-wrap-cluster-at-doubling" % m, "16f", None, ops))
    return out


def engineered_keys(rng, B, count):
    """keys whose ideal bucket (mod B) is near the end/start of the table, so that clusters wrap,
    with the bits B and 2B (move/stay at the next two doublings) chosen at random"""
    keys = set()
    base = [B - 1, B - 2, B - 3, 0, 1, B // 2, B // 2 - 1]
    while len(keys) < count:
        ideal = rng.choice(base) % B
        hi = rng.randrange(0, max(8, count))      # bits B, 2B (move/stay at the next doublings) random
        k = ideal + B * hi
        if k != 0:
            keys.add(k)
    ks = list(keys)
    rng.shuffle(ks)
    return ks


def gen_engineered(c):
    out = []
    rng = c.rng
    reps = 200 if c.tier == "quick" else 600
    for B in (8, 16, 32, 64, 128):
        for _ in range(reps):
            # reach table size B by inserting filler keys that are spread out, then the engineered ones
            ops = []
            # number of entries at which the table has B buckets: more than thr(B/2) (if B > 8)
            target = thr(B)          # the next FindOrInsert after `target` entries doubles B -> 2B
            ks = engineered_keys(rng, B, target + 6)
            for i, k in enumerate(ks):
                r = rng.random()
                if r < 0.1:
                    ops.append(("I", k, 1000 + i))      # fresh key: Insert's documented precondition
                else:
                    ops.append(("F", k, 1000 + i))
                if rng.random() < 0.25:
                    kk = rng.choice(ks)
                    ops.append(rng.choice([("L", kk), ("F", kk, 7), ("U", kk, 2000 + i)]))
            for k in ks:
                ops.append(("L", k))
            ops.append(("L", ks[0] + 1024 * B))   # absent key with the same ideal bucket
            mode = rng.choice(["16f", "12f"]) if B <= 32 else rng.choice(["16d", "12d"])
            out.append(("engineered/wrap+move-stay B=%d" % B, mode, None, ops))
    return out


def gen_random(c):
    out = []
    rng = c.rng
    reps = 400 if c.tier == "quick" else 1200
    for r in range(reps):
        if c.tier == "quick":
            n = rng.choice([30, 100, 300, 1000])
        else:      # long histories are expensive in the list-based extracted model: few of them
            n = 10000 if r % 400 == 0 else 3000 if r % 100 == 0 else rng.choice([30, 100, 300, 1000])
        # universe: few distinct low parts x several high parts => collisions modulo every size reached
        lows = rng.choice([3, 5, 17])
        his = max(2, n // lows)
        ops = []
        present = set()
        for i in range(n):
            k = rng.randrange(lows) + rng.choice([1, 8, 64, 4096]) * rng.randrange(1, his + 1) * rng.choice([1, 2, 4])
            x = rng.random()
            if x < 0.6:
                ops.append(("F", k, i + 1))
                present.add(k)
            elif x < 0.8:
                ops.append(("L", k))
            elif x < 0.9:
                ops.append(("U", k, 5000 + i))
            elif k not in present:
                ops.append(("I", k, i + 1))
                present.add(k)
            else:
                ops.append(("L", k + 1))
        mode = rng.choice(["16d", "12d"]) if n > 100 else rng.choice(["16f", "12f"])
        init = rng.choice([None, None, 0, 1, 2, 3, 20])
        out.append(("random/len<=%d" % (100 if n <= 100 else 1000 if n <= 1000 else 10000), mode, init, ops))
    # sequential and reverse-sequential keys (long single cluster), keys = multiples of a large power of two
    for B in (64, 256):
        out.append(("special/sequential", "16d", None, [("F", k, k) for k in range(1, B)] + [("L", k) for k in range(1, B + 2)]))
        out.append(("special/reverse", "16d", None, [("F", k, k) for k in range(B, 0, -1)] + [("L", k) for k in range(1, B + 2)]))
        out.append(("special/all-same-bucket", "16d", None, [("F", 1024 * k + 5, k) for k in range(1, B)] + [("L", 1024 * k + 5) for k in range(1, B + 1)]))
    # documented corner: key 0 (the empty marker) -- model and implementation must still agree
    out.append(("special/key0", "16f", None, [("L", 0), ("F", 0, 9), ("F", 3, 1), ("L", 0), ("F", 0, 4)]))
    out.append(("special/duplicate-Insert", "16f", None, [("I", 5, 1), ("I", 5, 2), ("L", 5), ("F", 5, 3), ("I", 13, 1), ("L", 13)]))
    return out


# ----------------------------------------------------------------- the direct oracle

def parse_state(tok):
    """'ANS|nb,entries,thr|dump' -> (ans, nb, entries, thr, dump)"""
    parts = tok.split("|")
    if len(parts) != 3:
        return None
    nb, ent, th = (int(x) for x in parts[1].split(","))
    return parts[0], nb, ent, th, parts[2]


def oracle(mode, ops, out_line):
    """dict semantics on the implementation's own answers.  Returns None or a description."""
    if out_line == "SKIPPED":
        return None
    if out_line in ("TIMEOUT",) or out_line.startswith("CRASH"):
        return "implementation %s (a probing loop that never terminates / a crash)" % out_line
    toks = out_line.split(" ")
    if any(o[1] == 0 for o in ops):
        return None                       # key 0 is outside the property (non-zero keys)
    ref = {}
    full = mode.endswith("f")
    if len(toks) != len(ops) + 1:
        return "implementation stopped after %d of %d operations: %s" % (len(toks) - 1, len(ops), toks[-1][:60])
    for i, (o, tok) in enumerate(zip(ops, toks[1:])):
        st = parse_state(tok)
        if st is None:
            return "op %d (%s): unparsable/err answer %r" % (i, o, tok[:60])
        ans, nb, ent, th, dump = st
        k = o[1]
        if o[0] == "F":
            exp_found = k in ref
            if not exp_found:
                ref[k] = o[2]
            want = "F%d@" % (1 if exp_found else 0)
            if not ans.startswith(want):
                return "op %d FindOrInsert(%d): reported %s, but the key was %s before" % (i, k, "found" if ans.startswith("F1") else "new", "inserted" if exp_found else "never inserted")
            if int(ans.split("=")[1]) != ref[k]:
                return "op %d FindOrInsert(%d): value %s, expected %d (value not attached to its key)" % (i, k, ans.split("=")[1], ref[k])
        elif o[0] == "I":
            if k in ref:
                return None               # duplicate Insert: outside the documented precondition
            ref[k] = o[2]
        elif o[0] == "L":
            if (ans != "L-") != (k in ref):
                return "op %d Find(%d): reported %s, but the key was %s" % (i, k, "absent" if ans == "L-" else "present", "inserted" if k in ref else "never inserted")
            if k in ref and int(ans.split("=")[1]) != ref[k]:
                return "op %d Find(%d): value %s, expected %d" % (i, k, ans.split("=")[1], ref[k])
        elif o[0] == "U":
            if (ans != "U-") != (k in ref):
                return "op %d UnsafeMutableFind(%d): reported %s, but the key was %s" % (i, k, "absent" if ans == "U-" else "present", "inserted" if k in ref else "never inserted")
            if k in ref:
                ref[k] = o[2]
        if ent != len(ref):
            return "op %d: Size() = %d, but %d distinct keys were inserted" % (i, ent, len(ref))
        if nb & (nb - 1) or ent >= nb:
            return "op %d: %d buckets, %d entries (not a power of two / full)" % (i, nb, ent)
        if full:
            cells = [tuple(int(x) for x in c.split(":")) for c in dump.split(",")]
            if len(cells) != nb:
                return "op %d: bucket array has %d cells, buckets_ = %d" % (i, len(cells), nb)
            stored = sorted((kk, vv) for kk, vv in cells if kk != 0)
            if stored != sorted(ref.items()):
                missing = sorted(set(ref.items()) - set(stored))
                extra = sorted(set(stored) - set(ref.items()))
                return "op %d: bucket array does not hold exactly the inserted pairs (missing %s, extra/duplicated %s)" % (i, missing[:3], extra[:3] or [x for x in stored if stored.count(x) > 1][:3])
    return None


def shrink(impl, mode, init, ops, budget=25.0):
    """greedy deletion of operations while the oracle still fails on the implementation (time-boxed:
    a defect that makes the table hang costs seconds per probe)"""
    cur = list(ops)
    changed = True
    rounds = 0
    deadline = time.time() + budget
    while changed and rounds < 4 and len(cur) > 1 and time.time() < deadline:
        changed = False
        rounds += 1
        i = 0
        while i < len(cur) and len(cur) > 1 and time.time() < deadline:
            cand = cur[:i] + cur[i + 1:]
            o = run_lines_robust(impl, [line_of(mode, init, cand)], timeout=3, per_line_timeout=2)
            if oracle(mode, cand, o[0]) is not None:
                cur = cand
                changed = True
            else:
                i += 1
    return cur


def main(argv):
    c = Check("C13", argv)
    ok, blog = build_repo(["hx_probing"])
    if not ok:
        c.broken.append("build of the repo working tree / hx_probing failed: " + blog[-800:])
        return c.finish(rule="build failed")
    c.proofs()
    if c.tier == "thorough":
        coqchk(c)
    drv, dlog = build_driver("C13")
    impl = hx_bin("hx_probing")

    cases = gen_exhaustive(c) + gen_engineered(c) + gen_random(c)
    lines = [line_of(m, i, ops) for (_, m, i, ops) in cases]
    # translator cross-check: initial bucket count and threshold for a range of initial sizes
    size_lines = ["S %d" % n for n in list(range(0, 41)) + [100, 1000, 12345]]
    for (b, m, i, ops) in cases:
        c.count((m, i, ops_str(ops)), nontrivial=len(ops) > 1, bucket=b)
    c.sample({"history": lines[0]})
    c.sample({"history": lines[len(lines) // 2][:400]})
    c.sample({"history": lines[-1]})

    impl_out = run_lines_robust(impl, size_lines + lines, timeout=30 if c.tier == "quick" else 120, per_line_timeout=3, max_failures=3)
    # --- correspondence
    if drv is None:
        c.broken.append("extraction/driver build failed: " + dlog[-600:])
    else:
        rc, model_out, err = run_lines(drv, size_lines + lines, timeout=900)
        if len(model_out) != len(impl_out):
            c.broken.append("C13 driver produced %d lines for %d cases: %s" % (len(model_out), len(impl_out), err[-300:]))
        else:
            dis = [(l, a, b) for l, a, b in zip(size_lines + lines, model_out, impl_out) if a != b and b != "SKIPPED"]
            c.cov["traces_validated_against_impl"] += sum(len(ops) for (_, _, _, ops) in cases)
            fuel = [l for l, a, b in zip(size_lines + lines, model_out, impl_out) if "ERR" in a and not any(t in ("L0", ) or t.startswith("F0,") for t in l.split(" "))]
            if fuel:
                c.broken.append("model reached an error state (hang/bounds/full) on a history of non-zero keys: %r" % fuel[0][:300])
            if dis:
                l, a, b = min(dis, key=lambda d: len(d[0]))
                # first differing token
                ta, tb = a.split(" "), b.split(" ")
                j = next((x for x in range(min(len(ta), len(tb))) if ta[x] != tb[x]), min(len(ta), len(tb)))
                c.broken.append("correspondence AutoProbing model vs util/probing_hash_table.hh: %d disagreement(s); smallest: history %r: after op %d model=%r impl=%r" % (
                    len(dis), l[:300], j - 1, (ta[j] if j < len(ta) else "<end>")[:200], (tb[j] if j < len(tb) else "<end>")[:200]))

    # --- which proof cases of C13_double_preserves the histories exercise (from the implementation's own dumps):
    #     doublings with / without a parked (wrapped) prefix, entries that move to the new half / stay
    for (b, m, i, ops), o in zip(cases, impl_out[len(size_lines):]):
        if not m.endswith("f") or o in ("TIMEOUT", "SKIPPED") or o.startswith("CRASH"):
            continue
        prev = None
        for tok in o.split(" "):
            st = parse_state(tok)
            if st is None:
                break
            if prev is not None and st[1] == 2 * prev[1]:
                before = [x.split(":")[0] for x in prev[4].split(",")]
                after = [x.split(":")[0] for x in st[4].split(",")]
                d = c.cov["distribution"]
                key = "double/parked-prefix" if before and before[0] != "0" else "double/no-parked-prefix"
                d[key] = d.get(key, 0) + 1
                moved = sum(1 for x in after[prev[1]:] if x != "0")
                d["double/entries-moved-to-new-half"] = d.get("double/entries-moved-to-new-half", 0) + moved
                d["double/entries-staying-in-old-half"] = d.get("double/entries-staying-in-old-half", 0) + sum(1 for x in after[:prev[1]] if x != "0")
            prev = st

    # --- direct oracle on the implementation (independent of the model)
    nfail = 0
    for (b, m, i, ops), o in zip(cases, impl_out[len(size_lines):]):
        why = oracle(m, ops, o)
        if why is not None:
            nfail += 1
            if nfail <= 3:
                small = shrink(impl, m, i, ops)
                o2 = run_lines_robust(impl, [line_of(m[:2] + "f", i, small)], timeout=10, per_line_timeout=5)[0]
                why2 = oracle(m[:2] + "f", small, o2) or why
                c.violation("set-semantics: " + why2, {"history": line_of(m[:2] + "f", i, small), "impl_output": o2[:2000], "why": why2,
                                                     "how": "echo '<history>' | hx_probing   (ops: F<key>,<value> FindOrInsert, I Insert, L<key> Find, U UnsafeMutableFind+set value)"})
            else:
                c.violation("set-semantics: " + why, {"history": line_of(m, i, ops)[:3000], "why": why})

    # --- memory safety of the same histories: ASan + UBSan build of the harness (an out-of-bounds bucket access
    #     in Double / the probe loops is a violation with the history as replay)
    if not c.violations:
        sub = [l for (b, m, i, ops), l in zip(cases, lines) if not b.startswith("exhaustive/F^")]
        sub = sub if c.tier == "thorough" else sub[:1500] + sub[-200:]
        try:
            asan_lines(c, "hx_probing", sub, "(bucket array = exact-size heap block)", timeout=120 if c.tier == "quick" else 900)
        except subprocess.TimeoutExpired:
            # the clean run needs seconds: a hang is the violation; locate the history
            env = dict(os.environ, ASAN_OPTIONS="detect_leaks=0")
            o = run_lines_robust(hx_bin("hx_probing", "asan"), sub, timeout=60, per_line_timeout=5, max_failures=1, env=env)
            j = next((x for x, v in enumerate(o) if v == "TIMEOUT" or v.startswith("CRASH")), None)
            c.violation("set-semantics: the table hangs (probing loop without an empty bucket) in the ASan build of the harness" + (" on history %r" % sub[j][:200] if j is not None else " (state-dependent: no single history hangs alone)"),
                        {"history": sub[j] if j is not None else sub[0], "batch_size": len(sub), "how": "hx_probing (asan flavour) < histories"}, found_input=True)

    # --- large histories: the real table against std::map inside the harness (set abstraction only,
    #     justified by the refinement theorems); crosses the 2 MiB malloc -> mmap transition of HugeRealloc
    big = []
    nkeys = 400000 if c.tier == "quick" else 6000000
    for s in range(2 if c.tier == "quick" else 6):
        seed = c.rng.randrange(1, 2 ** 62)
        ent = "16" if s % 2 == 0 else "12"
        big.append("T %s %d %d %d %d" % (ent, seed, nkeys, 22, c.rng.choice([0, 2, 5])))
    # HugeRealloc's failure paths: refuse exactly the k-th mremap of the run (EINVAL, as for huge pages): the
    # ReplaceAndCopy fallback must keep every old byte.  The table is mmap-backed from 2 MiB on, so k = 1.. are the
    # growth steps 2 -> 4 -> 8 MiB ...
    for k in (1, 2, 3):
        big.append("T 16 %d %d %d %d %d 0" % (c.rng.randrange(1, 2 ** 62), nkeys, 22, c.rng.choice([0, 2]), k))
    # a NON-default empty marker (~0, as probing_hash_table_test uses): Clear() in the constructor, clear_new = true in
    # Double on malloc'd and on mmap'd memory, key 0 an ordinary key; with and without a refused mremap
    for k in (0, 1):
        big.append("T 16 %d %d %d %d %d max" % (c.rng.randrange(1, 2 ** 62), nkeys, 22, c.rng.choice([0, 2]), k))
    # markers that are non-zero but have zero low / high halves (KeyIsRawZero must look at every byte)
    for inv in (1 << 32, 0xFFFFFFFF00000000, 1 << 63, 0xFF):
        big.append("T 16 %d %d %d %d 0 %d" % (c.rng.randrange(1, 2 ** 62), 30000, 22, c.rng.choice([0, 2]), inv))
    # one giant cluster (all keys share the low bits of every table size): quadratic, so kept small
    big.append("T 16 %d %d %d %d" % (c.rng.randrange(1, 2 ** 62), 4000 if c.tier == "quick" else 20000, 22, 24))
    if c.violations:
        big = []          # a failing input is already in hand; the large runs could only hang on the same defect
    # the clean run needs a few seconds: a hang is reported right away as the violation
    big_out = run_lines_robust(impl, big, timeout=90 if c.tier == "quick" else 400, per_line_timeout=30 if c.tier == "quick" else 150, max_failures=1)
    for l, o in zip(big, big_out):
        f = l.split()
        c.count(l, bucket="large/std::map-reference %s ops%s%s" % (f[3], " +mremap-refused" if len(f) == 8 and f[6] != "0" else "", " +non-default-marker" if len(f) == 8 and f[7] != "0" else ""))
        if o.startswith("OK") and len(f) == 8 and f[6] != "0" and "refused=1" not in o and int(f[6]) <= 2:
            c.broken.append("mremap refusal #%s was not exercised by %r: %s" % (f[6], l, o))
        if o == "SKIPPED":
            continue
        if not o.startswith("OK"):
            c.violation("set-semantics-large: " + o[:300], {"harness_line": l, "impl_output": o[:500],
                                                            "how": "echo '<harness_line>' | hx_probing  (T <entry bytes> <seed> <ops> <universe bits> <stride bits>)"})
        else:
            c.cov["distribution"]["large/final-buckets=%s" % o.split()[1]] = c.cov["distribution"].get("large/final-buckets=%s" % o.split()[1], 0) + 1
    return c.finish(level="proof",
                    rule="a case = one history; after EVERY operation the answer, buckets_/entries_/threshold_ and the whole bucket array (or its digest) are compared model vs util::AutoProbing<Entry,IdentityHash>. exhaustive: all FindOrInsert histories of length 5 (thorough 6) over 8 keys colliding mod 2..16 from a 2-bucket table (3 doublings), all mixed F/L/U histories of length 3 (4) over 4 keys in a wrapped cluster across the 8->16 doubling; engineered: clusters wrapping the table end at the moment of doubling with move/stay bits random, B=8..128; random histories up to 1000 (thorough 10000) ops. distinct = distinct histories with more than one operation",
                    assumptions=["HugeRealloc keeps the old bytes and zero-fills the new half (model: cells ++ repeat (0, v0)); exercised incl. the malloc->mmap transition by the large runs",
                                 "IdentityHash (every user of AutoProbing in this code base); theorems hold for any hash function",
                                 "size_t arithmetic does not wrap (tables below 2^63 buckets); buckets_*0.75 is exact in double (buckets < 2^51)",
                                 "initial_buckets uses the exact rational 1.4*n instead of float rounding; cross-checked against the real constructor for n = 0..40, 100, 1000, 12345 on every run"])


if __name__ == "__main__":
    sys.exit(main(sys.argv[1:]))
